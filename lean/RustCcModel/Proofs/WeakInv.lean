import RustCcModel.Proofs.WeakInv11
/-! **Weak counts are never too low and the side record outlives every `Weak`, in every reachable world.**

`WeakOk` (definition in `WeakInv1`) is preserved by every micro-step of the machine — running or unwinding — given the
other invariants of the same world (`AllInv`: `Counts`, `FlagsOk`, `Inv`, `Fresh`), and by the start of a top-level
operation; hence it holds in every reachable world, for every configuration `c` (with or without the feature `weak-ptrs`). -/
namespace RustCc
open World

variable {ex : Bool}

/-- What makes a micro-step lose no `Weak` (see `Frame.wclean`). -/
def World.wclean (w : World) : Prop :=
  w.mode = .running → ∀ f rest, w.stack = f :: rest → f.wclean w

/-- One micro-step with the exactness flag: exact before, no `Weak` lost in the step ⇒ exact after. -/
theorem step_weakH (c : Cfg) (w : World) (ha : AllInv c w) (h : WeakH ex w []) (hwc : wcOk w.stack)
    (hcl : ex = true → w.wclean) : WeakH ex (step c w) [] := by
  unfold step
  split
  · exact h
  · exact h
  · split
    · wneutral h
    · rename_i f rest hs
      exact unwindFrame_weakH c w f rest h hs
  · rename_i hm
    split
    · exact h
    · rename_i f rest hs
      exact stepFrame_weakH c w f rest ha h hwc hs (fun e => hcl e hm f rest hs)

/-- **One micro-step of the machine preserves the weak invariant.** -/
theorem step_weakOk (c : Cfg) (w : World) (ha : AllInv c w) (h : WeakOk w) : WeakOk (step c w) :=
  WeakH.toOk (E := []) (step_weakH c w ha h.toH h.wcs (fun e => nomatch e)) (step_wcOk c w h.wcs)

theorem init_weakOk (c : Cfg) (nH nW nK : Nat) : WeakOk (World.init c nH nW nK) := by
  have hW : ∀ n, wIds (List.replicate n none) = [] := by
    intro n; induction n with
    | zero => rfl
    | succ n ih => rw [List.replicate_succ, wIds_cons, ih]; rfl
  have hK : ∀ n, kIds (List.replicate n none) = [] := by
    intro n; induction n with
    | zero => rfl
    | succ n ih => rw [List.replicate_succ, kIds_cons, ih]; rfl
  have hr : ∀ x, wrefs (World.init c nH nW nK) x = 0 := by
    intro x
    simp [wrefs, World.init, wfieldRefs, cycs, hW, hK]
  refine ⟨fun x => by rw [hr]; exact Nat.zero_le _, fun x hp => (by rw [hr] at hp; cases hp), ?_, ?_, ?_, ?_, ?_, ?_, trivial⟩
  · intro x hp; cases hp
  · intro x hl; cases hl
  · intro x ha; cases ha
  · intro x hm; cases hm
  · intro x _; rfl
  · intro x _; rfl

/-- **Every reachable world satisfies the weak invariant**: for every identity the weak count is at least the number of
`Weak` pointers that exist (table entries, stashed pointers, weak fields, `Cleanable`s, closure arguments of running
`new_cyclic`s), and as long as one exists the side record is allocated. -/
theorem reachable_weakOk (c : Cfg) (nH nW nK : Nat) (w : World) (h : Reachable c nH nW nK w) : WeakOk w := by
  induction h with
  | init => exact init_weakOk c nH nW nK
  | step w hr ih => exact step_weakOk c w (reachable_all c nH nW nK w hr) ih
  | top w op _ hs _ ih =>
    have h1 : WeakH false { w with stack := [.script [op] none none true, .catchTop], events := [], ret := .ok } [] := by
      refine WeakH.neutral ih.toH rfl rfl rfl rfl rfl ?_ (fun _ => rfl) (fun _ => rfl) (fun _ => rfl)
      rw [hs]; rfl
    exact h1.toOk (by simp [wcOk_cons, Frame.wcId, wcOk])

end RustCc
