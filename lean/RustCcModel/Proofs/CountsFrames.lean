import RustCcModel.Proofs.CountsBlocks2
import RustCcModel.Proofs.TraceBound
/-! `Counts` through every frame of the machine (running and unwinding). -/
namespace RustCc
open World
variable {ex : Bool}

/-- `Cc::drop`, last owner: the pointer in flight is consumed. -/
theorem destroyLast_counts (c : Cfg) {w : World} {x : Id} (h : CountsH ex w [x]) (hx : x < w.next) : CountsG ex (destroyLast c w x) := by
  unfold destroyLast
  have h1 : CountsH ex ((w.upd x fun o => { o with rc := o.rc - 1 }).removeFromList x) [] := (h.decr).removeFromList x
  have h2 := CountsH.pushFrame (E := []) (.afterDropValue x ((w.upd x fun o => { o with rc := o.rc - 1 }).removeFromList x).dropping)
    h1 (by simpa [Frame.ids] using hx)
  simp only
  split
  · refine (CountsH.pushFrame (E := []) (.dropValue x) (CountsH.upd_same (CountsH.congr h2 ?_ ?_ ?_ ?_ ?_ ?_ ?_) x _ rfl rfl)
      (by simpa [Frame.ids] using hx)).toCounts0 <;> rfl
  · refine (CountsH.pushFrame (E := []) (.dropValue x) (CountsH.congr h2 ?_ ?_ ?_ ?_ ?_ ?_ ?_)
      (by simpa [Frame.ids] using hx)).toCounts0 <;> rfl

theorem stepFrame_counts_dropCc (c : Cfg) (w : World) (x : Id) (rest : List Frame) (h : CountsG ex w) (hs : w.stack = .dropCc x :: rest) :
    CountsG ex (stepFrame c { w with stack := rest } (.dropCc x)) := by
  obtain ⟨hp, hids⟩ := h.pop hs
  have hp' : CountsH ex { w with stack := rest } [x] := hp
  have hx : x < w.next := hp'.lt_of_mem (List.mem_cons_self ..)
  simp only [stepFrame]
  split
  · exact hp'.decr.toCounts0
  · split
    · split
      · have h1 := CountsH.pushFrame (E := []) (.dropCcAfterFin x w.finalizing) hp' (by simp [Frame.ids])
        have h2 : CountsH ex (World.upd { (World.push { w with stack := rest } (.dropCcAfterFin x w.finalizing)) with finalizing := true } x
            fun o => { o with finalized := true }) [] := by
          refine CountsH.upd_same (CountsH.congr h1 ?_ ?_ ?_ ?_ ?_ ?_ ?_) x _ rfl rfl <;> rfl
        exact (CountsH.pushFrame (E := []) (.callFin x) h2 (by simpa [Frame.ids] using hx)).toCounts0
      · exact destroyLast_counts c hp' hx
    · exact (hp'.decr.addToList x hx).toCounts0

theorem stepFrame_counts_dropCcAfterFin (c : Cfg) (w : World) (x : Id) (oldFin : Bool) (rest : List Frame) (h : CountsG ex w)
    (hs : w.stack = .dropCcAfterFin x oldFin :: rest) :
    CountsG ex (stepFrame c { w with stack := rest } (.dropCcAfterFin x oldFin)) := by
  obtain ⟨hp, hids⟩ := h.pop hs
  have hp' : CountsH ex { w with stack := rest } [x] := hp
  have hx : x < w.next := hp'.lt_of_mem (List.mem_cons_self ..)
  simp only [stepFrame]
  split
  · counts_congr (hp'.decr.addToList x hx)
  · refine destroyLast_counts c (CountsH.congr hp' ?_ ?_ ?_ ?_ ?_ ?_ ?_) hx <;> rfl

theorem stepFrame_counts_afterDropValue (c : Cfg) (w : World) (x : Id) (oldDrop : Bool) (rest : List Frame) (h : CountsG ex w)
    (hs : w.stack = .afterDropValue x oldDrop :: rest) :
    CountsG ex (stepFrame c { w with stack := rest } (.afterDropValue x oldDrop)) := by
  obtain ⟨hp, hids⟩ := h.pop hs
  have hp' : CountsH ex { w with stack := rest } [] := hp
  simp only [stepFrame]
  split
  · counts_congr (CountsH.pushFrame (E := []) (.afterDropValue x oldDrop) hp' hids)
  · rename_i hrc
    have hrc0 : (w.heap x).rc = 0 := by
      by_cases e : (w.heap x).rc = 0
      · exact e
      · exact absurd e hrc
    split
    · counts_congr ((hp'.dropMetadata x).freeBox_of_rc x (by simpa using hrc0))
    · counts_congr (hp'.freeBox_of_rc x hrc0)

theorem stepFrame_counts_dropValue (c : Cfg) (w : World) (x : Id) (rest : List Frame) (h : CountsG ex w)
    (hs : w.stack = .dropValue x :: rest) : CountsG ex (stepFrame c { w with stack := rest } (.dropValue x)) := by
  obtain ⟨hp, hids⟩ := h.pop hs
  have hp' : CountsH ex { w with stack := rest } [] := hp
  have hx : x < w.next := hids x (by simp [Frame.ids])
  have h1 := hp'.upd_same x (fun o => { o with valLive := false }) rfl rfl
  simp only [stepFrame]
  split
  · have h2 := CountsH.pushFrame (E := []) (.dropFields x false) h1 (by simpa [Frame.ids] using hx)
    split
    · refine ((CountsH.congr h2 ?_ ?_ ?_ ?_ ?_ ?_ ?_).emit _).raiseLogged.toCounts0 <;> rfl
    · refine (CountsH.pushFrame (E := []) (.script _ (some x) none false) ((CountsH.congr h2 ?_ ?_ ?_ ?_ ?_ ?_ ?_).emit _)
        (by simpa [Frame.ids] using hx)).toCounts0 <;> rfl
  · exact (CountsH.pushFrame (E := []) (.dropActions x 0 false) h1 (by simpa [Frame.ids] using hx)).toCounts0

theorem stepFrame_counts_dropMoved (c : Cfg) (w : World) (x : Id) (rest : List Frame) (h : CountsG ex w)
    (hs : w.stack = .dropMoved x :: rest) : CountsG ex (stepFrame c { w with stack := rest } (.dropMoved x)) := by
  obtain ⟨hp, hids⟩ := h.pop hs
  have hp' : CountsH ex { w with stack := rest } [] := hp
  simp only [stepFrame]
  exact (CountsH.pushFrame (E := []) (.dropFields x false) (hp'.emit _) (by simpa [Frame.ids] using hids)).toCounts0

theorem stepFrame_counts_dropFields (c : Cfg) (w : World) (x : Id) (unw : Bool) (rest : List Frame) (h : CountsG ex w)
    (hs : w.stack = .dropFields x unw :: rest) : CountsG ex (stepFrame c { w with stack := rest } (.dropFields x unw)) := by
  obtain ⟨hp, hids⟩ := h.pop hs
  have hp' : CountsH ex { w with stack := rest } [] := hp
  have hx : x < w.next := hids x (by simp [Frame.ids])
  simp only [stepFrame]
  split
  · rename_i y o' htf
    obtain ⟨hc, hrc, hbl⟩ := takeField_cc htf
    have h1 : CountsH ex (World.upd { w with stack := rest } x fun _ => o') ([y] ++ []) :=
      CountsH.updFields x (fun _ => o') [] [y] (by simpa using hp') hx (by intro z; simpa using hc z) hrc hbl
    have h2 := CountsH.pushFrame (E := [y]) (.dropFields x unw) (by simpa [Frame.holds] using h1) (by simpa [Frame.ids] using hx)
    exact (CountsH.pushFrame (E := []) (.dropCc y) (by simpa [Frame.holds] using h2) (by simp [Frame.ids])).toCounts0
  · rename_i y o' htf
    obtain ⟨hf, hrc, hbl⟩ := takeField_weak htf
    have h1 : CountsH ex (World.upd { w with stack := rest } x fun _ => o') [] :=
      hp'.upd_same x (fun _ => o') hf hrc
    exact ((CountsH.pushFrame (E := []) (.dropFields x unw) h1 (by simpa [Frame.ids] using hx)).weakDrop _).toCounts0
  · split
    · counts_congr hp'
    · exact hp'.toCounts0

theorem stepFrame_counts_dropActions (c : Cfg) (w : World) (m : Id) (i : Nat) (unw : Bool) (rest : List Frame) (h : CountsG ex w)
    (hs : w.stack = .dropActions m i unw :: rest) : CountsG ex (stepFrame c { w with stack := rest } (.dropActions m i unw)) := by
  obtain ⟨hp, hids⟩ := h.pop hs
  have hp' : CountsH ex { w with stack := rest } [] := hp
  have hm : m < w.next := hids m (by simp [Frame.ids])
  simp only [stepFrame]
  split
  · have h0 := CountsH.pushFrame (E := []) (.dropActions m (i + 1) unw) hp' (by simpa [Frame.ids] using hm)
    split
    · rename_i a ha
      have hi := getD_lt ha
      have h1 : CountsH ex (World.upd (World.push { w with stack := rest } (.dropActions m (i + 1) unw)) m
          fun o => { o with aslots := o.aslots.set i none }) (a.cap.toList ++ []) := by
        have hm' : m < (World.push { w with stack := rest } (.dropActions m (i + 1) unw)).next := hm
        apply CountsH.updFields m _ [] a.cap.toList (by simpa using h0) hm'
        · intro x
          have := actIds_set_count (w.heap m).aslots i none x hi
          rw [List.getD_eq_getElem?_getD] at ha
          have ha' : (w.heap m).aslots[i]?.getD none = some a := ha
          rw [ha'] at this
          show (fieldsOf { (w.heap m) with aslots := (w.heap m).aslots.set i none }).count x + _ = (fieldsOf (w.heap m)).count x + _
          simp only [fieldsOf, List.count_append, actIds] at this ⊢
          simp at this ⊢
          omega
        · rfl
        · rfl
      have h2 : CountsH ex ((World.upd (World.push { w with stack := rest } (.dropActions m (i + 1) unw)) m
          fun o => { o with aslots := o.aslots.set i none }).push (.actionEnd a.cap false)) [] := by
        apply CountsH.pushFrame (E := [])
        · cases hc : a.cap <;> simpa [Frame.holds, hc] using h1
        · cases hc : a.cap <;> simp [Frame.ids]
      split
      · refine (((h2.congr ?_ ?_ ?_ ?_ ?_ ?_ ?_).emit _).raiseLogged).toCounts0 <;> rfl
      · refine (((h2.congr ?_ ?_ ?_ ?_ ?_ ?_ ?_).emit _).pushPlain _ rfl rfl).toCounts0 <;> rfl
    · exact h0.toCounts0
  · split
    · counts_congr hp'
    · exact hp'.toCounts0

theorem stepFrame_counts_actionEnd (c : Cfg) (w : World) (cap : Option Id) (unw : Bool) (rest : List Frame) (h : CountsG ex w)
    (hs : w.stack = .actionEnd cap unw :: rest) : CountsG ex (stepFrame c { w with stack := rest } (.actionEnd cap unw)) := by
  obtain ⟨hp, hids⟩ := h.pop hs
  cases cap with
  | some y =>
    have hp' : CountsH ex { w with stack := rest } [y] := hp
    simp only [stepFrame]
    have h1 := CountsH.pushFrame (E := [y]) (.actionEnd none unw) (by simpa [Frame.holds] using hp') (by simp [Frame.ids])
    exact (CountsH.pushFrame (E := []) (.dropCc y) (by simpa [Frame.holds] using h1) (by simp [Frame.ids])).toCounts0
  | none =>
    have hp' : CountsH ex { w with stack := rest } [] := hp
    simp only [stepFrame]
    split
    · counts_congr hp'
    · exact hp'.toCounts0

theorem stepFrame_counts_callFin (c : Cfg) (w : World) (x : Id) (rest : List Frame) (h : CountsG ex w)
    (hs : w.stack = .callFin x :: rest) : CountsG ex (stepFrame c { w with stack := rest } (.callFin x)) := by
  obtain ⟨hp, hids⟩ := h.pop hs
  have hp' : CountsH ex { w with stack := rest } [] := hp
  have hx : x < w.next := hids x (by simp [Frame.ids])
  simp only [stepFrame]
  split
  · exact hp'.toCounts0
  · split
    · refine ((CountsH.congr hp' ?_ ?_ ?_ ?_ ?_ ?_ ?_).emit _).raiseLogged.toCounts0 <;> rfl
    · refine (CountsH.pushFrame (E := []) (.script _ (some x) none false) ((CountsH.congr hp' ?_ ?_ ?_ ?_ ?_ ?_ ?_).emit _)
        (by simpa [Frame.ids] using hx)).toCounts0 <;> rfl

theorem stepFrame_counts_collectLoop (c : Cfg) (w : World) (n : Nat) (oldFin oldDrop : Bool) (rest : List Frame) (h : CountsG ex w)
    (hs : w.stack = .collectLoop n oldFin oldDrop :: rest) :
    CountsG ex (stepFrame c { w with stack := rest } (.collectLoop n oldFin oldDrop)) := by
  obtain ⟨hp, hids⟩ := h.pop hs
  have hp' : CountsH ex { w with stack := rest } [] := hp
  simp only [stepFrame]
  repeat' split
  all_goals first
    | counts_congr hp'
    | exact ((hp'.pushPlain (.collectLoop (n + 1) oldFin oldDrop) rfl rfl).pushPlain .collectPass rfl rfl).toCounts0

theorem stepFrame_counts_dropMany (c : Cfg) (w : World) (x : Id) (n : Nat) (rest : List Frame) (h : CountsG ex w)
    (hs : w.stack = .dropMany x n :: rest) : CountsG ex (stepFrame c { w with stack := rest } (.dropMany x n)) := by
  obtain ⟨hp, hids⟩ := h.pop hs
  cases n with
  | zero => simp only [stepFrame]; exact (hp.of_count (E' := []) (fun _ => by simp [Frame.holds])).toCounts0
  | succ n =>
    have hp' : CountsH ex { w with stack := rest } (x :: (List.replicate n x ++ [])) := by
      simpa [Frame.holds, List.replicate_succ] using hp
    simp only [stepFrame]
    have h1 := CountsH.pushFrame (E := [x]) (.dropMany x n)
      (hp'.of_count (by intro z; simp [Frame.holds, List.count_cons, List.count_append])) (by simp [Frame.ids])
    exact (CountsH.pushFrame (E := []) (.dropCc x) (by simpa [Frame.holds] using h1) (by simp [Frame.ids])).toCounts0

theorem stepFrame_counts_cleanEnd (c : Cfg) (w : World) (m : Id) (byUs unw : Bool) (rest : List Frame) (h : CountsG ex w)
    (hs : w.stack = .cleanEnd m byUs unw :: rest) : CountsG ex (stepFrame c { w with stack := rest } (.cleanEnd m byUs unw)) := by
  obtain ⟨hp, hids⟩ := h.pop hs
  have hp' : CountsH ex { w with stack := rest } [m] := hp
  simp only [stepFrame]
  split
  · have h0 := hp'.upd_same m (fun o => { o with borrowed := false }) rfl rfl
    have h1 := CountsH.pushFrame (E := [m]) (.actionEnd none unw) (by simpa [Frame.holds] using h0) (by simp [Frame.ids])
    exact (CountsH.pushFrame (E := []) (.dropCc m) (by simpa [Frame.holds] using h1) (by simp [Frame.ids])).toCounts0
  · have h1 := CountsH.pushFrame (E := [m]) (.actionEnd none unw) (by simpa [Frame.holds] using hp') (by simp [Frame.ids])
    exact (CountsH.pushFrame (E := []) (.dropCc m) (by simpa [Frame.holds] using h1) (by simp [Frame.ids])).toCounts0

theorem startDealloc_counts (c : Cfg) {w : World} (N : List Id) (h : CountsH ex w []) (hN : ∀ i ∈ N, i < w.next) :
    CountsG ex (startDealloc c w N) := by
  unfold startDealloc
  have h1 := CountsH.pushFrame (E := []) (.deallocDrop N N w.dropping) h
    (by intro i hi; simp only [Frame.ids, List.mem_append] at hi; rcases hi with hi | hi <;> exact hN i hi)
  have h2 : CountsH ex { (w.push (.deallocDrop N N w.dropping)) with dropping := true } [] := by
    refine CountsH.congr h1 ?_ ?_ ?_ ?_ ?_ ?_ ?_ <;> rfl
  have h3 := h2.updAll_same (fun o => { o with doomed := true }) (fun _ => rfl) (fun _ => rfl) (fun _ => rfl) N
  simp only
  split
  · exact (h3.updAll_same (fun o => { o with dropped := true }) (fun _ => rfl) (fun _ => rfl) (fun _ => rfl) N).toCounts0
  · exact h3.toCounts0

theorem stepFrame_counts_finalizePass (c : Cfg) (w : World) (N r : List Id) (hasFin oldFin : Bool) (rest : List Frame) (h : CountsG ex w)
    (hs : w.stack = .finalizePass N r hasFin oldFin :: rest) :
    CountsG ex (stepFrame c { w with stack := rest } (.finalizePass N r hasFin oldFin)) := by
  obtain ⟨hp, hids⟩ := h.pop hs
  have hp' : CountsH ex { w with stack := rest } [] := hp
  have hN : ∀ i ∈ N, i < w.next := fun i hi => hids i (by simp [Frame.ids, hi])
  cases r with
  | cons x r =>
    have hx : x < w.next := hids x (by simp [Frame.ids])
    have hr : ∀ i ∈ N ++ r, i < w.next := by
      intro i hi; apply hids i; simp only [Frame.ids, List.mem_append, List.mem_cons] at hi ⊢
      rcases hi with hi | hi
      · exact Or.inl hi
      · exact Or.inr (Or.inr hi)
    simp only [stepFrame]
    split
    · have h1 := CountsH.pushFrame (E := []) (.finalizePass N r true oldFin) hp' (by simpa [Frame.ids] using hr)
      have h2 := h1.upd_same x (fun o => { o with finalized := true }) rfl rfl
      exact (CountsH.pushFrame (E := []) (.callFin x) h2 (by simpa [Frame.ids] using hx)).toCounts0
    · exact (CountsH.pushFrame (E := []) (.finalizePass N r hasFin oldFin) hp' (by simpa [Frame.ids] using hr)).toCounts0
  | nil =>
    simp only [stepFrame]
    have h0 : CountsH ex { ({ w with stack := rest } : World) with finalizing := oldFin } [] := by
      refine CountsH.congr hp' ?_ ?_ ?_ ?_ ?_ ?_ ?_ <;> rfl
    split
    · exact startDealloc_counts c N h0 hN
    · have h1 := h0.updAll_same (fun o => { o with tc := 0, mark := .pc }) (fun _ => rfl) (fun _ => rfl) (fun _ => rfl) N
      have hnext : (World.updAll { ({ w with stack := rest } : World) with finalizing := oldFin } N fun o => { o with tc := 0, mark := .pc }).next = w.next := by
        simp
      have hpc : (World.updAll { ({ w with stack := rest } : World) with finalizing := oldFin } N fun o => { o with tc := 0, mark := .pc }).pc = w.pc :=
        (updAll_same _ N _).1
      exact (h1.setPc (N ++ w.pc) (by
        intro x hx; rw [hnext]
        rcases List.mem_append.1 hx with hx | hx
        · exact hN x hx
        · exact h.pcb x hx)).toCounts0

theorem stepFrame_counts_deallocDrop (c : Cfg) (w : World) (N r : List Id) (oldDrop : Bool) (rest : List Frame) (h : CountsG ex w)
    (hs : w.stack = .deallocDrop N r oldDrop :: rest) :
    CountsG ex (stepFrame c { w with stack := rest } (.deallocDrop N r oldDrop)) := by
  obtain ⟨hp, hids⟩ := h.pop hs
  have hp' : CountsH ex { w with stack := rest } [] := hp
  cases r with
  | cons x r =>
    have hx : x < w.next := hids x (by simp [Frame.ids])
    have hr : ∀ i ∈ N ++ r, i < w.next := by
      intro i hi; apply hids i; simp only [Frame.ids, List.mem_append, List.mem_cons] at hi ⊢
      rcases hi with hi | hi
      · exact Or.inl hi
      · exact Or.inr (Or.inr hi)
    simp only [stepFrame]
    have h1 := CountsH.pushFrame (E := []) (.deallocDrop N r oldDrop) hp' (by simpa [Frame.ids] using hr)
    split
    · have h2 := h1.upd_same x (fun o => { o with dropped := true }) rfl rfl
      exact (CountsH.pushFrame (E := []) (.dropValue x) h2 (by simpa [Frame.ids] using hx)).toCounts0
    · exact (CountsH.pushFrame (E := []) (.dropValue x) h1 (by simpa [Frame.ids] using hx)).toCounts0
  | nil =>
    simp only [stepFrame]
    split
    · counts_congr (CountsH.pushFrame (E := []) (.deallocDrop N [] oldDrop) hp' hids)
    · rename_i hany
      have hz : ∀ x ∈ N, (w.heap x).rc = 0 := by
        intro x hx
        by_cases e : (w.heap x).rc = 0
        · exact e
        · exact absurd (List.any_eq_true.2 ⟨x, hx, by simpa using e⟩) hany
      counts_congr (CountsH.freeAll c N hp' hz)

theorem stepFrame_counts_newAlloc (c : Cfg) (w : World) (k : Nat) (sp : NewSpec) (rest : List Frame) (h : CountsG ex w)
    (hs : w.stack = .newAlloc k sp :: rest) (hkx : ex = true → k < w.H.length) : CountsG ex (stepFrame c { w with stack := rest } (.newAlloc k sp)) := by
  obtain ⟨hp, hids⟩ := h.pop hs
  have hp' : CountsH ex { w with stack := rest } [] := hp
  simp only [stepFrame]
  have ho : fieldsOf (newObj c { w with stack := rest } sp) = [] := by
    simp [fieldsOf, newObj, optIds]
  have h1 := hp'.alloc (newObj c { w with stack := rest } sp) (w.allocBytes + (newObj c { w with stack := rest } sp).size) ho
  have h2 : CountsH ex _ [w.next] := (h1.emit (.alloc w.next (newObj c { w with stack := rest } sp).size)).of_count
    (by intro z; simp [newObj])
  exact (h2.putH k (by intro hex; simpa using hkx hex)).toCounts0

theorem stepFrame_counts_newCyclicAlloc (c : Cfg) (w : World) (k : Nat) (sp : NewSpec) (body : Nat) (selfw : Option Nat)
    (rest : List Frame) (h : CountsG ex w) (hs : w.stack = .newCyclicAlloc k sp body selfw :: rest) :
    CountsG ex (stepFrame c { w with stack := rest } (.newCyclicAlloc k sp body selfw)) := by
  obtain ⟨hp, hids⟩ := h.pop hs
  have hp' : CountsH ex { w with stack := rest } [] := hp
  simp only [stepFrame]
  have ho : fieldsOf ({ newObj c { w with stack := rest } sp with rc := 0, valLive := false, hasMeta := true } : Obj) = [] := by
    simp [fieldsOf, newObj, optIds]
  have h1 := hp'.alloc { newObj c { w with stack := rest } sp with rc := 0, valLive := false, hasMeta := true }
    (w.allocBytes + (newObj c { w with stack := rest } sp).size) ho
  have h2 : CountsH ex _ [] := (h1.emit (.alloc w.next (newObj c { w with stack := rest } sp).size)).of_count (by intro z; simp)
  have h3 := h2.updMeta w.next (fun _ => { weak := 1, accessible := true, live := true }) (Or.inl (Nat.lt_succ_self _))
  have h4 := CountsH.pushFrame (E := []) (.newCyclicEnd k w.next sp selfw) h3 (by simp [Frame.ids])
  split
  · refine ((CountsH.congr h4 ?_ ?_ ?_ ?_ ?_ ?_ ?_)).raiseLogged.toCounts0 <;> rfl
  · refine (CountsH.pushPlain (CountsH.congr h4 ?_ ?_ ?_ ?_ ?_ ?_ ?_) _ rfl rfl).toCounts0 <;> rfl

theorem stepFrame_counts_newCyclicEnd (c : Cfg) (w : World) (k : Nat) (id : Id) (sp : NewSpec) (selfw : Option Nat)
    (rest : List Frame) (h : CountsG ex w) (hs : w.stack = .newCyclicEnd k id sp selfw :: rest)
    (hkx : ex = true → k < w.H.length) :
    CountsG ex (stepFrame c { w with stack := rest } (.newCyclicEnd k id sp selfw)) := by
  obtain ⟨hp, hids⟩ := h.pop hs
  have hp' : CountsH ex { w with stack := rest } [] := hp
  have hid : id < w.next := hids id (by simp [Frame.ids])
  have hA : CountsH ex (World.putH (World.weakDrop (World.upd { w with stack := rest } id fun o => { o with valLive := true, rc := o.rc + 1 }) (.to id)) k id) [] :=
    ((hp'.incrRcF id 1 (fun o => { o with valLive := true, rc := o.rc + 1 }) hid rfl rfl rfl).weakDrop (.to id)).putH k (by intro hex; simpa using hkx hex)
  have hB : ∀ j, CountsH ex (World.putH (World.weakDrop (World.upd (World.upd (World.updMeta { w with stack := rest } id fun m => { m with weak := m.weak + 1 }) id
      fun o => { o with wslots := o.wslots.set j (some id) }) id fun o => { o with valLive := true, rc := o.rc + 1 }) (.to id)) k id) [] := by
    intro j
    have h1 := hp'.updMeta id (fun m => { m with weak := m.weak + 1 }) (Or.inl hid)
    have h2 := h1.upd_same id (fun o => { o with wslots := o.wslots.set j (some id) }) rfl rfl
    exact ((h2.incrRcF id 1 (fun o => { o with valLive := true, rc := o.rc + 1 }) hid rfl rfl rfl).weakDrop (.to id)).putH k (by intro hex; simpa using hkx hex)
  cases selfw with
  | none =>
    simp only [stepFrame]
    repeat' split
    all_goals first
      | exact (CountsH.pushFrame (E := []) (.newCyclicEnd k id sp none) hp' hids).raise.toCounts0
      | exact hA.toCounts0
      | exact (hB _).toCounts0
  | some j =>
    simp only [stepFrame]
    repeat' split
    all_goals first
      | exact (CountsH.pushFrame (E := []) (.newCyclicEnd k id sp (some j)) hp' hids).raise.toCounts0
      | exact hA.toCounts0
      | exact (hB _).toCounts0

theorem stepFrame_counts_mapAlloc (c : Cfg) (w : World) (owner : Id) (rest : List Frame) (h : CountsG ex w)
    (hs : w.stack = .mapAlloc owner :: rest) : CountsG ex (stepFrame c { w with stack := rest } (.mapAlloc owner)) := by
  obtain ⟨hp, hids⟩ := h.pop hs
  have hp' : CountsH ex { w with stack := rest } [] := hp
  have hown : owner < w.next := hids owner (by simp [Frame.ids])
  simp only [stepFrame]
  have h1 := hp'.alloc ({ rc := 1, tc := c.tcInit, boxLive := true, valLive := true, kind := .map, size := c.mapSize, finalized := c.fin && w.finalizing } : Obj) (w.allocBytes + c.mapSize) (by simp [fieldsOf, optIds])
  have h2 : CountsH ex _ [w.next] := (h1.emit (.alloc w.next c.mapSize)).of_count (by intro z; simp)
  split
  · rename_i hnone
    have hne : owner ≠ w.next := Nat.ne_of_lt hown
    have hown' : (w.heap owner).cmap = none := by simpa [emit, Heap.set, hne] using hnone
    refine (CountsH.updFields_le owner (fun o => { o with cmap := some w.next }) [w.next] (by simpa using h2)
      (Nat.lt_succ_of_lt hown) ?_ ?_ rfl rfl).toCounts0
    · intro x
      simp [emit, Heap.set, hne, fieldsOf, hown', List.count_append, List.count_cons]
      omega
    · intro _ x
      simp [emit, Heap.set, hne, fieldsOf, hown', List.count_append, List.count_cons]
      omega
  · exact (CountsH.pushFrame (E := []) (.dropCc w.next) (by simpa [Frame.holds] using h2) (by simp [Frame.ids])).toCounts0

theorem stepFrame_counts_script (c : Cfg) (w : World) (ops : List Op) (self wc : Option Id) (top : Bool) (rest : List Frame)
    (h : CountsG ex w) (hs : w.stack = .script ops self wc top :: rest) :
    CountsG ex (stepFrame c { w with stack := rest } (.script ops self wc top)) := by
  obtain ⟨hp, hids⟩ := h.pop hs
  have hp' : CountsH ex { w with stack := rest } [] := by cases self <;> exact hp
  have hself : ∀ s, self = some s → s < w.next := by
    intro s hs; subst hs; exact hids s (by simp [Frame.ids])
  cases ops with
  | nil => simp only [stepFrame]; exact hp'.toCounts0
  | cons op ops =>
    simp only [stepFrame]
    have h1 := (CountsH.pushFrame (E := []) (.script ops self wc top) (by cases self <;> simpa [Frame.holds] using hp')
      (by cases self <;> simpa [Frame.ids] using hself)).toCounts0
    have h2 := execOp_counts c _ self wc op h1 hself
    split
    · exact h2
    · exact h2.ret _

theorem actIds_set_le (l : List (Option Action)) (i : Nat) (a : Action) (x : Id) :
    ((l.set i (some a)).flatMap actIds).count x ≤ (l.flatMap actIds).count x + a.cap.toList.count x := by
  cases Nat.lt_or_ge i l.length with
  | inl hi =>
    have := actIds_set_count l i (some a) x hi
    simp only [actIds] at this ⊢
    omega
  | inr hge => rw [List.set_eq_of_length_le hge]; omega

theorem regInsert_tail (c : Cfg) {w1 : World} (m : Id) (k aid idx : Nat) (om' : Obj) (cap : Option Id)
    (h : CountsH ex w1 cap.toList) (hm : m < w1.next)
    (hF : ∀ x, (fieldsOf om').count x ≤ (fieldsOf (w1.heap m)).count x + cap.toList.count x)
    (hFe : ex = true → ∀ x, (fieldsOf om').count x = (fieldsOf (w1.heap m)).count x + cap.toList.count x)
    (hrc : om'.rc = (w1.heap m).rc) (hbl : om'.boxLive = (w1.heap m).boxLive) :
    CountsG ex (if (((w1.upd m fun _ => om').initMeta m).metas m).weak ≥ c.weakMax then ((w1.upd m fun _ => om').initMeta m).raise
      else (((((w1.upd m fun _ => om').initMeta m).updMeta m fun mm => { mm with weak := mm.weak + 1 }).removeFromList m).setK k
        (some (m, idx, aid)))) := by
  have h1 : CountsH ex (w1.upd m fun _ => om') [] :=
    CountsH.updFields_le m (fun _ => om') cap.toList (by simpa using h) hm hF hFe hrc hbl
  have h2 := h1.initMeta m hm
  split
  · exact h2.raise.toCounts0
  · counts_congr ((h2.updMeta m (fun mm => { mm with weak := mm.weak + 1 }) (Or.inr (fun _ hm => hm))).removeFromList m)

theorem stepFrame_counts_regInsert_core (c : Cfg) (w : World) (owner : Id) (script k : Nat) (cap : Option Id) (rest : List Frame)
    (h : CountsG ex w) (hs : w.stack = .regInsert owner script k cap :: rest)
    (hfree : ex = true → ∀ m i fr, (w.heap m).afree = i :: fr → i < (w.heap m).aslots.length ∧ (w.heap m).aslots.getD i none = none)
    (hok : ex = true → (stepFrame c { w with stack := rest } (.regInsert owner script k cap)).mode ≠ .stuck) :
    CountsG ex (stepFrame c { w with stack := rest } (.regInsert owner script k cap)) := by
  obtain ⟨hp, hids⟩ := h.pop hs
  have hp' : CountsH ex { w with stack := rest } cap.toList := by rw [regInsert_holds] at hp; exact hp
  have hown : owner < w.next := hids owner (by simp [Frame.ids])
  simp only [stepFrame] at hok ⊢
  split
  · rename_i hnone
    cases ex with
    | true => simp [hnone] at hok
    | false => counts_congr (hp'.forget (E' := []) (fun _ => Nat.zero_le _))
  · rename_i m hm
    have hmlt : m < w.next := field_lt h hown (by simp [fieldsOf, hm])
    split
    · have hh : (Frame.actionEnd cap false).holds = cap.toList := by cases cap <;> rfl
      exact (CountsH.pushFrame (E := []) (.actionEnd cap false) (by rw [hh]; simpa using hp') (by cases cap <;> simp [Frame.ids])).raise.toCounts0
    · have hw1 : CountsH ex { ({ w with stack := rest } : World) with nextAid := w.nextAid + 1 } cap.toList := by
        refine CountsH.congr hp' ?_ ?_ ?_ ?_ ?_ ?_ ?_ <;> rfl
      cases hfr : (w.heap m).afree with
      | nil =>
        simp only []
        refine regInsert_tail c m k w.nextAid (w.heap m).aslots.length _ cap hw1 hmlt ?_ ?_ rfl rfl
        · intro x
          show (fieldsOf { (w.heap m) with aslots := (w.heap m).aslots ++ [some { aid := w.nextAid, script := script, cap := cap }] }).count x ≤ (fieldsOf (w.heap m)).count x + _
          simp [fieldsOf, List.count_append, actIds]
          omega
        · intro _ x
          show (fieldsOf { (w.heap m) with aslots := (w.heap m).aslots ++ [some { aid := w.nextAid, script := script, cap := cap }] }).count x = (fieldsOf (w.heap m)).count x + _
          simp [fieldsOf, List.count_append, actIds]
          omega
      | cons i fr =>
        simp only []
        refine regInsert_tail c m k w.nextAid i _ cap hw1 hmlt ?_ ?_ rfl rfl
        · intro x
          have := actIds_set_le (w.heap m).aslots i { aid := w.nextAid, script := script, cap := cap } x
          show (fieldsOf { (w.heap m) with aslots := (w.heap m).aslots.set i (some { aid := w.nextAid, script := script, cap := cap }), afree := fr }).count x ≤ (fieldsOf (w.heap m)).count x + _
          simp only [fieldsOf, List.count_append] at this ⊢
          omega
        · intro hex x
          obtain ⟨hi, hnone⟩ := hfree hex m i fr hfr
          have := actIds_set_count (w.heap m).aslots i (some { aid := w.nextAid, script := script, cap := cap }) x hi
          have hold : ((w.heap m).aslots[i]?.getD none) = none := by rw [← List.getD_eq_getElem?_getD]; exact hnone
          rw [hold] at this
          show (fieldsOf { (w.heap m) with aslots := (w.heap m).aslots.set i (some { aid := w.nextAid, script := script, cap := cap }), afree := fr }).count x = (fieldsOf (w.heap m)).count x + _
          simp only [fieldsOf, List.count_append, actIds] at this ⊢
          simp at this
          omega

theorem stepFrame_counts_regInsert (c : Cfg) (w : World) (owner : Id) (script k : Nat) (cap : Option Id) (rest : List Frame)
    (h : CountsG ex w) (hs : w.stack = .regInsert owner script k cap :: rest)
    (hfree : ex = true → ∀ m i fr, (w.heap m).afree = i :: fr → i < (w.heap m).aslots.length ∧ (w.heap m).aslots.getD i none = none) :
    CountsG (ex && decide ((stepFrame c { w with stack := rest } (.regInsert owner script k cap)).mode ≠ .stuck))
      (stepFrame c { w with stack := rest } (.regInsert owner script k cap)) :=
  CountsG.flag (fun hns => stepFrame_counts_regInsert_core c w owner script k cap rest h hs hfree (fun _ => hns))
    (stepFrame_counts_regInsert_core c w owner script k cap rest h.weaken hs (fun hex => nomatch hex) (fun hex => nomatch hex))

theorem CountsH.fromT1 {w : World} {E : List Id} (h : CountsH ex w E) (hh : T1.Heap) : CountsH ex (RustCc.fromT1 w hh) E :=
  h.noptr rfl rfl rfl rfl (fun _ => rfl) (fun _ => rfl) (fun _ hx => hx) (fun _ hx => hx)

theorem toT1_edges_sub (w : World) (x y : Id) (hy : y ∈ (toT1 w x).edges) : y ∈ fieldsOf (w.heap x) := by
  unfold toT1 at hy
  simp only at hy
  split at hy
  · simp only [fieldsOf, List.mem_append]
    exact Or.inl (Or.inl (Or.inl hy))
  · cases hy

theorem stepFrame_counts_collectPass (c : Cfg) (w : World) (rest : List Frame) (h : CountsG ex w)
    (hs : w.stack = .collectPass :: rest) : CountsG ex (stepFrame c { w with stack := rest } .collectPass) := by
  obtain ⟨hp, hids⟩ := h.pop hs
  have hp' : CountsH ex { w with stack := rest } [] := hp
  have hb := tracePhasesF_bound (P := fun x => x < w.next) (fun i => decide ((w.heap i).kind = .node)) w.next
    (toT1 { w with stack := rest }) w.pc w.fTrace
    (fun x hx y hy => field_lt h hx (toT1_edges_sub _ x y hy)) h.pcb
  simp only [stepFrame]
  generalize tracePhasesF (fun i => decide ((w.heap i).kind = .node)) w.next (toT1 { w with stack := rest }) w.pc w.fTrace = r at hb ⊢
  obtain ⟨res, fault⟩ := r
  have hw1 : CountsH ex { ({ w with stack := rest } : World) with fTrace := fault } [] := by
    refine CountsH.congr hp' ?_ ?_ ?_ ?_ ?_ ?_ ?_ <;> rfl
  cases res with
  | panicked hh pcRest log =>
    simp only at hb ⊢
    have h2 := (hw1.fromT1 hh).setPc pcRest (fun x hx => h.pcb x (hb x hx))
    refine (CountsH.raiseLogged (CountsH.congr h2 ?_ ?_ ?_ ?_ ?_ ?_ ?_)).toCounts0 <;> rfl
  | done s =>
    simp only at hb ⊢
    have h2 := (hw1.fromT1 s.ts.h).setPc [] (fun x hx => by cases hx)
    split
    · refine (CountsH.congr h2 ?_ ?_ ?_ ?_ ?_ ?_ ?_).toCounts0 <;> rfl
    · split
      · refine (CountsH.pushFrame (E := []) (.finalizePass s.ts.nonroot s.ts.nonroot false w.finalizing) (CountsH.congr h2 ?_ ?_ ?_ ?_ ?_ ?_ ?_)
          (by intro i hi; simp only [Frame.ids, List.mem_append] at hi; rcases hi with hi | hi <;> exact hb i hi)).toCounts0 <;> rfl
      · refine startDealloc_counts c s.ts.nonroot (CountsH.congr h2 ?_ ?_ ?_ ?_ ?_ ?_ ?_) hb <;> rfl


/-- `hcyc`: the box under construction in `new_cyclic` has count 0 (part of the machine invariant `Inv`): the
`PanicGuard` releases it without looking at the count. -/
theorem unwindFrame_counts (c : Cfg) (w : World) (f : Frame) (rest : List Frame) (h : CountsG ex w) (hs : w.stack = f :: rest)
    (hcyc : ∀ k id sp sw, f = .newCyclicEnd k id sp sw → (w.heap id).rc = 0) :
    CountsG false (unwindFrame c { w with stack := rest } f) := by
  obtain ⟨hp, hids⟩ := h.weaken.pop hs
  have h0 : CountsH false { w with stack := rest } [] := hp.forget (by simp)
  have hk := h0.toCounts0
  cases f with
  | dropValue x =>
    simp only [unwindFrame]
    exact (h0.upd_same x id rfl rfl).toCounts0
  | dropFields x unw =>
    cases unw <;> simp only [unwindFrame]
    · counts_congr (CountsH.pushFrame (E := []) (.dropFields x true) h0 hids)
    · exact hk
  | dropActions m i unw =>
    cases unw <;> simp only [unwindFrame]
    · counts_congr (CountsH.pushFrame (E := []) (.dropActions m i true) h0 hids)
    · exact hk
  | actionEnd cap unw =>
    cases unw <;> simp only [unwindFrame]
    · have hh : (Frame.actionEnd cap true).holds = (Frame.actionEnd cap false).holds := by cases cap <;> rfl
      counts_congr (CountsH.pushFrame (E := []) (.actionEnd cap true) (by rw [hh]; simpa using hp) (by cases cap <;> simp [Frame.ids]))
    · exact hk
  | cleanEnd m b unw =>
    cases unw <;> simp only [unwindFrame]
    · counts_congr (CountsH.pushFrame (E := []) (.cleanEnd m b true) (by simpa [Frame.holds] using hp) (by simp [Frame.ids]))
    · exact hk
  | finalizePass N r hf oldFin =>
    simp only [unwindFrame]
    counts_congr (h0.updAll_same (fun o => { o with mark := .non }) (fun _ => rfl) (fun _ => rfl) (fun _ => rfl) N)
  | deallocDrop N r oldDrop =>
    simp only [unwindFrame]
    counts_congr (h0.updAll_same (fun o => { o with mark := .non, dropped := o.dropped || c.weak }) (fun _ => rfl) (fun _ => rfl) (fun _ => rfl) N)
  | newCyclicEnd k id sp selfw =>
    simp only [unwindFrame]
    have hrc0 := hcyc k id sp selfw rfl
    exact (((h0.dropMetadata id).freeBox_of_rc id (by simpa using hrc0)).weakDrop _).toCounts0
  | regInsert owner script k cap =>
    cases cap with
    | none => simp only [unwindFrame]; exact hk
    | some y =>
      simp only [unwindFrame]
      counts_congr (CountsH.pushFrame (E := []) (.actionEnd (some y) true) (by simpa [Frame.holds] using hp) (by simp [Frame.ids]))
  | _ =>
    simp only [unwindFrame]
    first
      | exact hk
      | exact hk.congr rfl rfl rfl rfl rfl rfl rfl
end RustCc
