import RustCcModel.Generated.Consts
/-! The two 16-bit counter words of `CounterMarker` (counter_marker.rs) and the word of
`WeakCounterMarker` (weak_counter_marker.rs), in div/mod form over raw words:

* counter word  `c`: `rc = c % M`, flag bits `= c / M` (`/ M % 2` finalized, `/ (2M)` has-side-record);
* tracing word  `t`: `tc = t % M`, `mark = t / M`, dropped `⇔ tc = M - 1`;
* weak word     `m`: `weak = m % W`, accessible `= m / W`;

with `M = COUNTER_MASK + 1`, `W = ACCESSIBLE_MASK`, both regenerated from the sources. That this form
equals the source's mask/shift expressions is checked on every run by evaluating the compiled crate on
all 2^16 words per operation (`check C16`), which is complete for these finite-domain functions. -/
namespace Bits

abbrev M : Nat := Consts.counterMask + 1
abbrev W : Nat := Consts.weakAccessibleMask

def rc (c : Nat) : Nat := c % M
def tc (t : Nat) : Nat := t % M
def mark (t : Nat) : Nat := t / M
/-- the finalized bit, as a number (0 / 1) -/
def finBit (c : Nat) : Nat := (c / M) % 2
/-- the has-side-record bit, as a number (0 / 1 for 16-bit words) -/
def metaBit (c : Nat) : Nat := c / (2 * M)
def finalized (c : Nat) : Bool := finBit c == 1
def hasMeta (c : Nat) : Bool := metaBit c == 1
def dropped (t : Nat) : Bool := t % M == M - 1

/-- `increment_counter`: `(new word, ok)`. -/
def incrCounter (c : Nat) : Nat × Bool := if c % M = Consts.rcMax then (c, false) else (c + 1, true)
/-- `decrement_counter` -/
def decrCounter (c : Nat) : Nat × Bool := if c % M = 0 then (c, false) else (c - 1, true)
/-- `increment_tracing_counter` -/
def incrTracing (t : Nat) : Nat × Bool := if t % M = Consts.rcMax then (t, false) else (t + 1, true)
/-- `reset_tracing_counter` -/
def resetTracing (t : Nat) : Nat := t - t % M
/-- `set_finalized` -/
def setFinalized (c : Nat) (v : Bool) : Nat :=
  if v then (if (c / M) % 2 = 1 then c else c + M) else (if (c / M) % 2 = 1 then c - M else c)
/-- `set_allocated_for_metadata` -/
def setHasMeta (c : Nat) (v : Bool) : Nat :=
  if v then (if c / (2 * M) = 1 then c else c + 2 * M) else (if c / (2 * M) = 1 then c - 2 * M else c)
/-- `set_dropped` -/
def setDropped (t : Nat) (v : Bool) : Nat := if v then t - t % M + (M - 1) else t - t % M
/-- `mark(new_mark)`, `k ∈ {0,1,2,3}` -/
def setMark (t : Nat) (k : Nat) : Nat := t % M + k * M

def weak (m : Nat) : Nat := m % W
def accBit (m : Nat) : Nat := m / W
def accessible (m : Nat) : Bool := accBit m == 1
def incrWeak (m : Nat) : Nat × Bool := if m % W = Consts.weakMax then (m, false) else (m + 1, true)
def decrWeak (m : Nat) : Nat × Bool := if m % W = 0 then (m, false) else (m - 1, true)
def setAccessible (m : Nat) (v : Bool) : Nat :=
  if v then (if m / W = 1 then m else m + W) else (if m / W = 1 then m - W else m)

end Bits
