import RustCcModel.Model.Machine
/-! Line protocol shared by the model driver (`Main.lean`) and the Rust harness: one operation per
line in, one observation line out. See DESIGN.md Appendix A. -/
namespace RustCc
open T1 (Mark)

def parseIdx (pfx : String) (t : String) : Option Nat :=
  if t.startsWith pfx then (t.drop pfx.length).toNat? else none

def parseCRef (t : String) : Option CRef :=
  if t.startsWith "s.f" then (t.drop 3).toNat?.map .sf
  else if t.startsWith "s.u" then (t.drop 3).toNat?.map .su
  else (parseIdx "h" t).map .h

def parseNRef (t : String) : Option NRef :=
  if t = "s" then some .self else (parseCRef t).map .of

def parseWSel (t : String) : Option WSel :=
  if t = "wc" then some .wc
  else if t.startsWith "s.w" then (t.drop 3).toNat?.map .sw
  else (parseIdx "w" t).map .w

def parseSlot (t : String) : Option Slot :=
  if t.startsWith "f" then (t.drop 1).toNat?.map .f
  else if t.startsWith "u" then (t.drop 1).toNat?.map .u
  else none

def parseBool (t : String) : Option Bool :=
  if t = "1" then some true else if t = "0" then some false else none

def parseHex (t : String) : Option Nat :=
  t.toList.foldl (fun acc ch =>
    acc.bind fun a =>
      if '0' ≤ ch ∧ ch ≤ '9' then some (a * 16 + (ch.toNat - '0'.toNat))
      else if 'a' ≤ ch ∧ ch ≤ 'f' then some (a * 16 + (ch.toNat - 'a'.toNat + 10))
      else if 'A' ≤ ch ∧ ch ≤ 'F' then some (a * 16 + (ch.toNat - 'A'.toNat + 10))
      else none) (if t.isEmpty then none else some 0)

def parseSpec (ns nu nw cl fin drp : String) : Option NewSpec := do
  let ns ← ns.toNat?
  let nu ← nu.toNat?
  let nw ← nw.toNat?
  let cl ← parseBool cl
  let fin ← fin.toNat?
  let drp ← drp.toNat?
  pure { ns, nu, nw, cleaner := cl, fin, drp }

def parseFaultKind (t : String) : Option FaultKind :=
  match t with
  | "trace" => some .trace | "fin" => some .fin | "drop" => some .drop
  | "action" => some .action | "body" => some .body | _ => none

def parseOp (toks : List String) : Option Op :=
  match toks with
  | ["nop"] => some .nop
  | ["panic"] => some .panic
  | ["collect"] => some .collect
  | ["new", k, ns, nu, nw, cl, fin, drp] => do
      let k ← parseIdx "h" k; let sp ← parseSpec ns nu nw cl fin drp; pure (.new k sp)
  | ["newcyc", k, ns, nu, nw, cl, fin, drp, body, selfw] => do
      let k ← parseIdx "h" k; let sp ← parseSpec ns nu nw cl fin drp
      let body ← body.toNat?
      let sw ← (if selfw = "-" then some none else selfw.toNat?.map some)
      pure (.newCyclic k sp body sw)
  | ["clone", r, k] => do let r ← parseCRef r; let k ← parseIdx "h" k; pure (.clone r k)
  | ["drop", k] => do let k ← parseIdx "h" k; pure (.drop k)
  | ["setf", n, s, r] => do let n ← parseNRef n; let s ← parseSlot s; let r ← parseCRef r; pure (.setf n s r)
  | ["movef", n, s, k] => do let n ← parseNRef n; let s ← parseSlot s; let k ← parseIdx "h" k; pure (.movef n s k)
  | ["clrf", n, s] => do let n ← parseNRef n; let s ← parseSlot s; pure (.clrf n s)
  | ["takef", n, s, k] => do let n ← parseNRef n; let s ← parseSlot s; let k ← parseIdx "h" k; pure (.takef n s k)
  | ["getf", n, s, k] => do let n ← parseNRef n; let s ← parseSlot s; let k ← parseIdx "h" k; pure (.getf n s k)
  | ["clonen", r, n] => do let r ← parseCRef r; let n ← n.toNat?; pure (.cloneN r n)
  | ["dropn", r, n] => do let r ← parseCRef r; let n ← n.toNat?; pure (.dropN r n)
  | ["downn", r, n] => do let r ← parseCRef r; let n ← n.toNat?; pure (.downN r n)
  | ["wdropn", r, n] => do let r ← parseCRef r; let n ← n.toNat?; pure (.wdropN r n)
  | ["markalive", r] => do let r ← parseCRef r; pure (.markAlive r)
  | ["finagain", k] => do let k ← parseIdx "h" k; pure (.finAgain k)
  | ["unwrap", k] => do let k ← parseIdx "h" k; pure (.unwrap k)
  | ["down", r, k] => do let r ← parseCRef r; let k ← parseIdx "w" k; pure (.down r k)
  | ["up", w, k] => do let w ← parseWSel w; let k ← parseIdx "h" k; pure (.up w k)
  | ["wclone", w, k] => do let w ← parseWSel w; let k ← parseIdx "w" k; pure (.wclone w k)
  | ["wdrop", k] => do let k ← parseIdx "w" k; pure (.wdrop k)
  | ["wnew", k] => do let k ← parseIdx "w" k; pure (.wnew k)
  | ["setw", n, i, w] => do let n ← parseNRef n; let i ← parseIdx "w" i; let w ← parseWSel w; pure (.setw n i w)
  | ["clrw", n, i] => do let n ← parseNRef n; let i ← parseIdx "w" i; pure (.clrw n i)
  | ["reg", n, sc, k, cap] => do
      let n ← parseNRef n; let sc ← sc.toNat?; let k ← parseIdx "c" k
      let cap ← (if cap = "-" then some none else (parseCRef cap).map some)
      pure (.reg n sc k cap)
  | ["clean", k] => do let k ← parseIdx "c" k; pure (.clean k)
  | ["cdrop", k] => do let k ← parseIdx "c" k; pure (.cdrop k)
  | ["cfg", "auto", b] => do let b ← parseBool b; pure (.cfgAuto b)
  | ["cfg", "buf", "none"] => some (.cfgBuf none)
  | ["cfg", "buf", n] => do let n ← n.toNat?; pure (.cfgBuf (some n))
  | ["cfg", "pct", h] => do let b ← parseHex h; pure (.cfgPct b)
  | ["fault", kind, n] => do let kd ← parseFaultKind kind; let n ← n.toNat?; pure (.fault kd n 0)
  | ["fault", kind, n, j] => do let kd ← parseFaultKind kind; let n ← n.toNat?; let j ← j.toNat?; pure (.fault kd n j)
  | _ => none

def splitToks (s : String) : List String :=
  (s.trimAscii.toString.splitOn " ").filter (· ≠ "")

/-- `a ; b ; c` → list of operations (`none` if any fails to parse). -/
def parseScript (toks : List String) : Option (List Op) :=
  let rec go (cur : List String) (rest : List String) (acc : List Op) : Option (List Op) :=
    match rest with
    | [] => if cur.isEmpty then some acc.reverse else (parseOp cur.reverse).map fun o => (o :: acc).reverse
    | ";" :: r => if cur.isEmpty then go [] r acc else (parseOp cur.reverse).bind fun o => go [] r (o :: acc)
    | t :: r => go (t :: cur) r acc
  go [] toks []

/-! ### Printing -/

def b01 (b : Bool) : String := if b then "1" else "0"

def Event.str : Event → String
  | .alloc x sz => s!"A{x}:{sz}"
  | .free x => s!"X{x}"
  | .metaFree x => s!"M{x}"
  | .finalize x t => s!"F{x}:{b01 t}"
  | .drop x t => s!"D{x}:{b01 t}"
  | .moved x => s!"V{x}"
  | .trace x t => s!"T{x}:{b01 t}"
  | .collect => "C"
  | .action a t => s!"K{a}:{b01 t}"
  | .panic => "P"

def Ret.str : Ret → String
  | .ok => "ok" | .skip => "skip" | .err => "err" | .none => "none"
  | .some x => s!"some:{x}" | .unwrapped x => s!"unwrapped:{x}" | .panic => "panic"

def markNum : Mark → Nat
  | .non => 0 | .pc => 1 | .inList => 2 | .inQueue => 3

def joinC (l : List String) : String := ",".intercalate l

def enumFrom {α} (l : List α) : List (Nat × α) := (List.range l.length).zip l

def observe (c : Cfg) (w : World) : String :=
  let hs := (enumFrom w.H).filterMap fun (k, e) => e.map fun x =>
    let o := w.heap x
    let wcnt := if c.weak ∧ o.hasMeta then (w.metas x).weak else 0
    s!"{k}:{x}:{o.rc}:{wcnt}:{b01 (c.fin && o.finalized)}"
  let ws := (enumFrom w.W).filterMap fun (k, e) => e.map fun r =>
    s!"{k}:{w.weakCount r}:{w.weakStrong r}"
  let objs := (List.range w.next).filterMap fun x =>
    let o := w.heap x
    if o.boxLive then
      let tc := if o.dropped then "d" else toString o.tc
      some s!"{x}:{o.rc}:{tc}:{markNum o.mark}:{b01 (c.fin && o.finalized)}:{b01 o.hasMeta}"
    else none
  let thr := if c.auto then toString w.thr else "-"
  let st := s!"{w.allocBytes},{w.pc.length},{w.execs},{b01 (w.isTracing c)}"
  let modeStr := match w.mode with
    | .running => "" | .unwinding => " !unwinding" | .aborted => " !aborted" | .stuck => " !stuck"
  s!"{w.ret.str} | ev={joinC ((w.events.filter (· ≠ .collect)).map Event.str)} | H={joinC hs} | W={joinC ws} | st={st} | wb={joinC objs};pc={joinC (w.pc.map toString)};thr={thr}{modeStr}"

/-- Rebuild the function-heaps from arrays so that look-ups stay O(1) in the compiled driver.
Extensionally the identity on worlds whose heap is default above `next`. -/
def World.compact (w : World) : World :=
  let arr : Array Obj := Array.ofFn (n := w.next) fun i => w.heap i
  let marr : Array Meta := Array.ofFn (n := w.next) fun i => w.metas i
  { w with heap := fun i => arr.getD i {}, metas := fun i => marr.getD i {} }

/-- Driver loop: like `run`, compacting every 32 steps. -/
def runC (c : Cfg) : Nat → Nat → World → World
  | 0, _, w => w
  | fuel + 1, n, w =>
    if w.stack.isEmpty ∧ w.mode = .running then w
    else if w.mode = .aborted ∨ w.mode = .stuck then w
    else
      let w' := step c w
      if n ≥ 16 then runC c fuel 0 w'.compact else runC c fuel (n + 1) w'

def execTopC (c : Cfg) (fuel : Nat) (w : World) (op : Op) : World :=
  if w.mode = .aborted ∨ w.mode = .stuck then w
  else (runC c fuel 0 { w with stack := [.script [op] none none true, .catchTop], events := [], ret := .ok }).compact

end RustCc
