import RustCcModel.Proofs.CycFresh
/-! **The side record of an allocation is released at most once.** Potential `Ψ w x = [record of x exists] + [x has never had
a record]`; every micro-step from a reachable world satisfies `#metaFree x (step) + Ψ' = Ψ`, and `Ψ = 1` initially. -/
namespace RustCc
open World

def mfc (x : Id) (l : List Event) : Nat := l.count (Event.metaFree x)

@[simp] theorem mfc_nil (x : Id) : mfc x [] = 0 := rfl
@[simp] theorem mfc_append (x : Id) (a b : List Event) : mfc x (a ++ b) = mfc x a + mfc x b := by simp [mfc]
theorem mfc_cons (x : Id) (e : Event) (r : List Event) : mfc x (e :: r) = (if e = .metaFree x then 1 else 0) + mfc x r := by
  simp only [mfc, List.count_cons]
  by_cases h : e = Event.metaFree x
  · subst h; simp; omega
  · have : (e == Event.metaFree x) = false := by simpa using h
    simp [this, h]

def Psi (w : World) (x : Id) : Nat :=
  (if (w.metas x).live then 1 else 0) + (if w.next ≤ x ∨ (w.heap x).hasMeta = false then 1 else 0)

/-- What a (part of a) step does to the record of `x`: every `metaFree x` it logs is paid for by `Ψ`. -/
def MP (x : Id) (w w' : World) : Prop := mfc x w'.events + Psi w' x = mfc x w.events + Psi w x

theorem MP.refl (x : Id) (w : World) : MP x w w := rfl

theorem MP.trans {x : Id} {a b c : World} (h1 : MP x a b) (h2 : MP x b c) : MP x a c := by
  unfold MP at *; omega

/-- Nothing happens to the record of `x`. -/
theorem MP.same {x : Id} {w w' : World} (hm : mfc x w'.events = mfc x w.events)
    (hl : (w'.metas x).live = (w.metas x).live) (hh : (w'.heap x).hasMeta = (w.heap x).hasMeta)
    (hn : w'.next = w.next) : MP x w w' := by
  unfold MP Psi
  rw [hm, hl, hh, hn]

/-! ### The three helpers that touch a record -/

theorem MP.weakDrop (x : Id) (w : World) (r : WRef)
    (h : r = .to x → (w.metas x).weak - 1 = 0 → (w.metas x).accessible = false → (w.metas x).live = true) :
    MP x w (w.weakDrop r) := by
  cases r with
  | dangling => exact MP.refl x w
  | to y =>
    by_cases e : y = x
    · subst e
      have h' := h rfl
      unfold World.weakDrop
      simp only [updMeta_metas_same]
      split
      · rename_i hc
        have hl := h' hc.1 (by simpa using hc.2)
        unfold MP
        simp [World.emit, World.updMeta, Psi, Metas.set, mfc, hl]
        omega
      · exact MP.same rfl (by simp [World.updMeta, Metas.set]) rfl rfl
    · have hm : ((w.weakDrop (.to y)).metas x) = w.metas x := weakDrop_metas_other w y x (fun e' => e e'.symm)
      refine MP.same ?_ (by rw [hm]) (by simp [weakDrop_heap]) (by simp)
      rw [weakDrop_events, mfc_append]
      unfold wdEv
      simp only
      split
      · simp [mfc_cons, e]
      · rfl

theorem MP.dropMetadata (x : Id) (w : World) (y : Id)
    (h : y = x → (w.heap x).hasMeta = true → (w.metas x).weak = 0 → (w.metas x).live = true) :
    MP x w (w.dropMetadata y) := by
  by_cases e : y = x
  · subst e
    have h' := h rfl
    unfold World.dropMetadata
    split
    · rename_i hm
      split
      · rename_i h0
        have hl := h' hm h0
        unfold MP
        simp [World.emit, World.updMeta, Psi, Metas.set, mfc, hl, hm]
        omega
      · exact MP.same rfl (by simp [World.updMeta, Metas.set]) rfl rfl
    · exact MP.refl _ w
  · have hm : ((w.dropMetadata y).metas x) = w.metas x := dropMetadata_metas_other w y x (fun e' => e e'.symm)
    refine MP.same ?_ (by rw [hm]) (by simp) (by simp)
    rw [dropMetadata_events, mfc_append]
    unfold dmEv
    split
    · split
      · simp [mfc_cons, e]
      · rfl
    · rfl

theorem MP.initMeta (x : Id) (w : World) (y : Id) (hlt : y < w.next)
    (h : y = x → (w.heap x).hasMeta = false → (w.metas x).live = false) : MP x w (w.initMeta y) := by
  by_cases e : y = x
  · subst e
    have h' := h rfl
    unfold World.initMeta
    split
    · exact MP.refl _ w
    · rename_i hm
      have hm' : (w.heap y).hasMeta = false := by simpa using hm
      have hl := h' hm'
      have hnl : ¬ w.next ≤ y := Nat.not_le.2 hlt
      unfold MP
      simp [World.updMeta, World.upd, Psi, Metas.set, hl, hm', hnl]
  · refine MP.same (by simp) (by rw [initMeta_metas_other w y x (fun e' => e e'.symm)])
      (initMeta_hasMeta_other w y x (fun e' => e e'.symm)) (by simp)

theorem updMeta_live_same (w : World) (y : Id) (F : Meta → Meta) (x : Id) (hF : ∀ m, (F m).live = m.live) :
    ((w.updMeta y F).metas x).live = (w.metas x).live := by
  by_cases e : x = y
  · subst e; simp [World.updMeta, Metas.set, hF]
  · simp [World.updMeta, Metas.set, e]

/-- An update of the weak count only. -/
theorem MP.updWeak (x : Id) (w : World) (y : Id) (F : Meta → Meta) (hF : ∀ m, (F m).live = m.live) : MP x w (w.updMeta y F) :=
  MP.same rfl (updMeta_live_same w y F x hF) rfl rfl

theorem MP.ret {x : Id} {a b : World} (h : MP x a b) (r : Ret) : MP x a { b with ret := r } := h

macro "mp_same" : tactic => `(tactic| (
  refine MP.same ?_ ?_ ?_ ?_ <;>
  simp [mfc_cons, upd_hasMeta_same', updAll_hasMeta_same', World.setH, World.setW, World.setK, World.startCollect, World.emit, World.push,
    putH_events, freeBox_events, putH_heap2, World.putH]))

/-- What the weak invariant of the world before the step says about the record of `x`. -/
structure MInv (w : World) (x : Id) : Prop where
  live_of_ref : 0 < wrefs w x → (w.metas x).live = true
  live_of_box : (w.heap x).hasMeta = true → (w.heap x).boxLive = true → (w.metas x).live = true
  noMeta : (w.heap x).hasMeta = false → (w.metas x).live = false
  frontier : w.next ≤ x → (w.metas x).live = false

theorem WeakOk.minv {w : World} (h : WeakOk w) (hmf : ∀ x, w.next ≤ x → (w.metas x).accessible = false) (x : Id) : MInv w x := by
  refine ⟨h.live x, fun hm hb => (h.acc x (h.box x hm hb)).1, fun hm => ?_, fun hx => ?_⟩
  · cases hl : (w.metas x).live with
    | false => rfl
    | true =>
      rcases h.rel x hl with h1 | h1
      · have := (h.acc x h1).2; rw [hm] at this; cases this
      · have := h.nometa x hm; omega
  · cases hl : (w.metas x).live with
    | false => rfl
    | true =>
      rcases h.rel x hl with h1 | h1
      · rw [hmf x hx] at h1; cases h1
      · have := h.fresh x hx; omega

set_option maxHeartbeats 16000000 in
/-- Operations that touch no record. -/
theorem execOp_mp_plain (c : Cfg) (w : World) (self wc : Option Id) (op : Op) (x : Id)
    (hop : match op with
      | .unwrap _ | .down .. | .wdrop _ | .setw .. | .clrw .. | .cdrop _ | .downN .. | .wdropN .. | .wclone .. => False
      | _ => True) : MP x w (execOp c w self wc op) := by
  cases op with
  | unwrap _ | down _ _ | wdrop _ | setw _ _ _ | clrw _ _ | cdrop _ | downN _ _ | wdropN _ _ | wclone _ _ => cases hop
  | fault kind n j => cases kind <;> exact MP.refl _ _
  | _ =>
    simp only [execOp]
    repeat' split
    all_goals first
      | exact MP.refl _ _
      | (mp_same; done)

theorem wslot_pos {w : World} {t y : Id} {i : Nat} (ht : t < w.next) (h : (w.heap t).wslots[i]? = some (some y)) : 0 < wrefs w y := by
  have hm : y ∈ optIds (w.heap t).wslots := by
    rw [mem_optIds]
    exact List.mem_of_getElem? h
  have h1 := count_pos_of_mem hm
  have h2 := count_le_wfieldRefs w t y ht
  unfold wrefs; omega

section ops
variable (c : Cfg) (w : World) (self wc : Option Id) (x : Id)

theorem execOp_mp_wclone (ws : WSel) (k : Nat) : MP x w (execOp c w self wc (.wclone ws k)) := by
  simp only [execOp]
  repeat' split
  all_goals first
    | exact MP.refl _ _
    | (mp_same; done)
    | (refine MP.same (by simp [World.setW]) ?_ (by simp [World.setW]) (by simp [World.setW])
       simp only [World.setW, World.updMeta, Metas.set]
       split <;> simp_all)

theorem execOp_mp_wdrop (k : Nat) (hm : MInv w x) : MP x w (execOp c w self wc (.wdrop k)) := by
  simp only [execOp]
  repeat' split
  all_goals first
    | exact MP.refl _ _
    | (mp_same; done)
    | skip
  rename_i r hr
  refine MP.weakDrop x (w.setW k none) r ?_
  intro e _ _
  subst e
  apply hm.live_of_ref
  have h1 := wEntry_le_wIds w.W k x
  have h2 : w.W.getD k none = some (.to x) := hr
  rw [h2] at h1
  simp only [wEntry, WRef.ids, List.count_cons_self] at h1
  unfold wrefs; omega

theorem execOp_mp_cdrop (k : Nat) (hm : MInv w x) : MP x w (execOp c w self wc (.cdrop k)) := by
  simp only [execOp]
  repeat' split
  all_goals first
    | exact MP.refl _ _
    | (mp_same; done)
    | skip
  rename_i m a b hr
  refine MP.weakDrop x (w.setK k none) (.to m) ?_
  intro e _ _
  cases e
  apply hm.live_of_ref
  have h1 := kEntry_le_kIds w.K k x
  have h2 : w.K.getD k none = some (x, a, b) := hr
  rw [h2] at h1
  simp only [kEntry, List.count_cons_self] at h1
  unfold wrefs; omega

theorem execOp_mp_clrw (n : NRef) (i : Nat) (hm : MInv w x) (hc : Counts w) (hself : ∀ s, self = some s → s < w.next) :
    MP x w (execOp c w self wc (.clrw n i)) := by
  simp only [execOp]
  repeat' split
  all_goals first
    | exact MP.refl _ _
    | (mp_same; done)
    | skip
  rename_i t hr _ y hsl
  have ht := resolveN_lt hc hself hr
  refine MP.trans (b := w.upd t fun o => { o with wslots := o.wslots.set i none }) ?_ ?_
  · refine MP.same rfl rfl ?_ rfl
    by_cases e : x = t
    · subst e; simp [World.upd]
    · simp [World.upd, Heap.set, e]
  · refine MP.weakDrop x _ (.to y) ?_
    intro e _ _
    cases e
    exact hm.live_of_ref (wslot_pos ht hsl)

theorem MP.setw_core (w : World) (x x' t : Id) (i : Nat) :
    MP x w ((w.updMeta x' fun m => { m with weak := m.weak + 1 }).upd t fun o => { o with wslots := o.wslots.set i (some x') }) := by
  refine MP.same rfl ?_ ?_ rfl
  · simp only [World.upd_metas, World.updMeta, Metas.set]
    split <;> simp_all
  · by_cases e : x = t
    · subst e; simp [World.upd]
    · simp [World.upd, Heap.set, e]

theorem execOp_mp_setw (n : NRef) (i : Nat) (ws : WSel) (hm : MInv w x) (hc : Counts w) (hself : ∀ s, self = some s → s < w.next) :
    MP x w (execOp c w self wc (.setw n i ws)) := by
  simp only [execOp]
  repeat' split
  all_goals first
    | exact MP.refl _ _
    | (mp_same; done)
    | exact MP.ret (MP.setw_core w x _ _ _) _
    | skip
  have ht := resolveN_lt hc hself ‹w.resolveN self n = some _›
  have hsl := ‹(w.heap _).wslots[i]? = some (some _)›
  refine MP.ret (MP.trans (MP.setw_core w x _ _ _) (MP.weakDrop x _ (.to _) ?_)) _
  intro e _ _
  cases e
  have := hm.live_of_ref (wslot_pos ht hsl)
  show ((((w.updMeta _ fun m => { m with weak := m.weak + 1 }).upd _ _).metas x).live = true)
  simp only [World.upd_metas, World.updMeta, Metas.set]
  split <;> simp_all

/-- `get_or_init_metadata` followed by a change of the weak count only (and whatever touches no record). -/
theorem MP.initThen (y : Id) (hy : y < w.next) (hm : MInv w x) (W' : World)
    (he : mfc x W'.events = mfc x (w.initMeta y).events) (hl : (W'.metas x).live = ((w.initMeta y).metas x).live)
    (hh : (W'.heap x).hasMeta = ((w.initMeta y).heap x).hasMeta) (hn : W'.next = w.next) : MP x w W' :=
  MP.trans (MP.initMeta x w y hy (fun e hmeta => by subst e; exact hm.noMeta hmeta)) (MP.same he hl hh (by simpa using hn))

theorem execOp_mp_down (r : CRef) (k : Nat) (hm : MInv w x) (hc : Counts w) (hself : ∀ s, self = some s → s < w.next) :
    MP x w (execOp c w self wc (.down r k)) := by
  simp only [execOp]
  repeat' split
  all_goals first
    | exact MP.refl _ _
    | (mp_same; done)
    | skip
  all_goals (
    have hy := resolveC_lt hc hself ‹w.resolveC self r = some _›
    refine MP.initThen w x _ hy hm _ ?_ ?_ ?_ ?_)
  all_goals first
    | (simp [World.setW, World.updMeta, Metas.set]; done)
    | (simp only [World.setW, World.updMeta, Metas.set, wk_removeFromList_hasMeta, removeFromList_metas', s_raise_metas]
       try (split <;> simp_all))

theorem execOp_mp_downN (r : CRef) (n : Nat) (hm : MInv w x) (hc : Counts w) (hself : ∀ s, self = some s → s < w.next) :
    MP x w (execOp c w self wc (.downN r n)) := by
  simp only [execOp]
  repeat' split
  all_goals first
    | exact MP.refl _ _
    | (mp_same; done)
    | skip
  all_goals (
    have hy := resolveC_lt hc hself ‹w.resolveC self r = some _›
    refine MP.initThen w x _ hy hm _ ?_ ?_ ?_ ?_)
  all_goals first
    | (simp [World.setW, World.updMeta, Metas.set]; done)
    | (simp only [World.setW, World.updMeta, Metas.set, wk_removeFromList_hasMeta, removeFromList_metas', s_raise_metas]
       try (split <;> simp_all))

theorem execOp_mp_wdropN (r : CRef) (n : Nat) (hm : MInv w x) : MP x w (execOp c w self wc (.wdropN r n)) := by
  simp only [execOp]
  repeat' split
  all_goals first
    | exact MP.refl _ _
    | (mp_same; done)
    | skip
  rename_i y hr hk
  refine MP.trans (MP.updWeak x w y (fun m => { m with weak := m.weak - (min n (w.wstash y) - 1) }) (fun _ => rfl)) ?_
  refine MP.weakDrop x _ (.to y) ?_
  intro e _ _
  cases e
  have hpos : 0 < wrefs w x := by
    have : 0 < min n (w.wstash x) := Nat.pos_of_ne_zero hk
    have : 0 < w.wstash x := by omega
    unfold wrefs; omega
  have := hm.live_of_ref hpos
  simp only [World.updMeta, Metas.set]
  simpa using this

theorem execOp_mp_unwrap (k : Nat) (hm : MInv w x) (hi : Inv w) : MP x w (execOp c w self wc (.unwrap k)) := by
  simp only [execOp]
  repeat' split
  all_goals first
    | exact MP.refl _ _
    | (mp_same; done)
    | skip
  · rename_i y hy hcond _
    have hrc : (w.heap y).rc = 1 := by
      apply Classical.byContradiction
      intro h; exact hcond (Or.inl h)
    refine MP.trans (b := ((w.setH k none).removeFromList y).upd y fun o => { o with valLive := false }) ?_
      (MP.trans (MP.dropMetadata x _ y ?_) ?_)
    · refine MP.same (by simp [World.setH]) (by simp [World.setH]) ?_ (by simp [World.setH])
      rw [upd_hasMeta_same' _ _ (fun o : Obj => { o with valLive := false }) _ (fun _ => rfl)]
      simp [World.setH]
    · intro e hmeta _
      subst e
      have hb : (w.heap y).boxLive = true := OI.boxLive_of_rc hi.oi (x := y) (by show (w.heap y).rc ≠ 0; omega)
      have hmeta' : (w.heap y).hasMeta = true := by
        rw [upd_hasMeta_same' _ _ (fun o : Obj => { o with valLive := false }) _ (fun _ => rfl)] at hmeta
        simpa [World.setH] using hmeta
      have := hm.live_of_box hmeta' hb
      simpa [World.setH] using this
    · mp_same

end ops

/-- **Every script operation**: every `metaFree x` it logs is paid for by the potential of `x`. -/
theorem execOp_mp (c : Cfg) (w : World) (self wc : Option Id) (op : Op) (x : Id) (hm : MInv w x) (hc : Counts w) (hi : Inv w)
    (hself : ∀ s, self = some s → s < w.next) : MP x w (execOp c w self wc op) := by
  cases op with
  | unwrap k => exact execOp_mp_unwrap c w self wc x k hm hi
  | down r k => exact execOp_mp_down c w self wc x r k hm hc hself
  | wdrop k => exact execOp_mp_wdrop c w self wc x k hm
  | setw n i ws => exact execOp_mp_setw c w self wc x n i ws hm hc hself
  | clrw n i => exact execOp_mp_clrw c w self wc x n i hm hc hself
  | cdrop k => exact execOp_mp_cdrop c w self wc x k hm
  | downN r n => exact execOp_mp_downN c w self wc x r n hm hc hself
  | wdropN r n => exact execOp_mp_wdropN c w self wc x r n hm
  | wclone ws k => exact execOp_mp_wclone c w self wc x ws k
  | _ => exact execOp_mp_plain c w self wc _ x trivial

/-! ### Frames -/

theorem MP.foldl_free (c : Cfg) (x : Id) : ∀ (N : List Id) (w : World), N.Nodup →
    (x ∈ N → (w.heap x).hasMeta = true → (w.metas x).weak = 0 → (w.metas x).live = true) →
    MP x w (N.foldl (fun w y => (if c.weak then w.dropMetadata y else w).freeBox y) w)
  | [], w, _, _ => MP.refl x w
  | y :: r, w, hn, h => by
    simp only [List.foldl_cons]
    have hyr : y ∉ r := (List.nodup_cons.1 hn).1
    have hnr : r.Nodup := (List.nodup_cons.1 hn).2
    have h1 : MP x w ((if c.weak then w.dropMetadata y else w).freeBox y) := by
      split
      · refine MP.trans (MP.dropMetadata x w y (fun e => by subst e; exact h (List.mem_cons_self ..))) ?_
        refine MP.same ?_ rfl (by simp) rfl
        rw [freeBox_events, mfc_append]; simp [mfc_cons]
      · refine MP.same ?_ rfl (by simp) rfl
        rw [freeBox_events, mfc_append]; simp [mfc_cons]
    refine MP.trans h1 (MP.foldl_free c x r _ hnr ?_)
    intro hx
    have hxy : x ≠ y := fun e => hyr (e ▸ hx)
    have hx' := h (List.mem_cons_of_mem _ hx)
    split
    · simp only [wk_freeBox_metas, wk_freeBox_hasMeta, wk_dropMetadata_hasMeta]
      rw [dropMetadata_metas_other w y x hxy]
      exact hx'
    · simpa using hx'

theorem MP.alloc (x : Id) (w w' : World) (o : Obj) (ho : o.hasMeta = false) (hn : w'.next = w.next + 1)
    (hh : w'.heap = w.heap.set w.next o) (hm : w'.metas = w.metas) (he : mfc x w'.events = mfc x w.events)
    (hl : w.next ≤ x → (w.metas x).live = false) : MP x w w' := by
  unfold MP Psi
  rw [he, hm, hn, hh]
  by_cases e : x = w.next
  · subst e
    simp [Heap.set, ho]
  · simp only [Heap.set, e, if_false]
    have : (w.next + 1 ≤ x) ↔ (w.next ≤ x) :=
      ⟨fun h => Nat.le_of_succ_le h, fun h => Nat.succ_le_of_lt (Nat.lt_of_le_of_ne h (fun e' => e e'.symm))⟩
    simp only [this]

theorem MP.allocCyc (x : Id) (w w' : World) (o : Obj) (ho : o.hasMeta = true) (hn : w'.next = w.next + 1)
    (hh : w'.heap = w.heap.set w.next o) (hm : w'.metas = w.metas.set w.next { weak := 1, accessible := true, live := true })
    (he : mfc x w'.events = mfc x w.events) (hl : (w.metas w.next).live = false) : MP x w w' := by
  unfold MP Psi
  rw [he, hm, hn, hh]
  by_cases e : x = w.next
  · subst e
    simp [Heap.set, Metas.set, ho, hl]
  · simp only [Heap.set, Metas.set, e, if_false]
    have : (w.next + 1 ≤ x) ↔ (w.next ≤ x) :=
      ⟨fun h => Nat.le_of_succ_le h, fun h => Nat.succ_le_of_lt (Nat.lt_of_le_of_ne h (fun e' => e e'.symm))⟩
    simp only [this]

theorem mfc_map_trace (x : Id) (l : List Id) (t : Bool) : mfc x (l.map fun y => Event.trace y t) = 0 := by
  induction l with
  | nil => rfl
  | cons a r ih => simp [mfc_cons, ih]

theorem MInv.congr {w w' : World} {x : Id} (h : MInv w x) (hr : wrefs w' x = wrefs w x) (hm : w'.metas = w.metas)
    (hh : (w'.heap x).hasMeta = (w.heap x).hasMeta) (hb : (w'.heap x).boxLive = (w.heap x).boxLive) (hn : w'.next = w.next) :
    MInv w' x :=
  ⟨by rw [hr, hm]; exact h.live_of_ref, by rw [hh, hb, hm]; exact h.live_of_box, by rw [hh, hm]; exact h.noMeta,
   by rw [hn, hm]; exact h.frontier⟩

macro "mp_frame" : tactic => `(tactic| first
  | exact MP.refl _ _
  | (mp_same; done)
  | (refine MP.same ?_ ?_ ?_ ?_ <;>
      simp [mfc_cons, upd_hasMeta_same', updAll_hasMeta_same', World.setH, World.setW, World.setK, World.startCollect, World.emit,
        World.push, putH_events, freeBox_events, putH_heap2, foldl_free_stack, World.updMeta, Metas.set] <;> done))

set_option maxHeartbeats 16000000 in
/-- Frames that touch no record. -/
theorem stepFrame_mp_plain (c : Cfg) (w : World) (f : Frame) (x : Id)
    (hf : match f with
      | .script .. | .afterDropValue .. | .dropFields .. | .deallocDrop .. | .newAlloc .. | .newCyclicAlloc .. | .newCyclicEnd ..
      | .mapAlloc .. | .regInsert .. => False
      | _ => True) : MP x w (stepFrame c w f) := by
  cases f with
  | script _ _ _ _ | afterDropValue _ _ | dropFields _ _ | deallocDrop _ _ _ | newAlloc _ _ | newCyclicAlloc _ _ _ _
  | newCyclicEnd _ _ _ _ | mapAlloc _ | regInsert _ _ _ _ => cases hf
  | collectPass =>
    simp only [stepFrame, startDealloc]
    generalize tracePhasesF _ _ _ _ _ = r
    obtain ⟨res, fault⟩ := r
    cases res <;> simp only [] <;> repeat' split
    all_goals (
      refine MP.same ?_ ?_ ?_ ?_ <;>
      simp [mfc_cons, mfc_map_trace, upd_hasMeta_same', updAll_hasMeta_same', World.emit, World.push])
  | _ =>
    simp only [stepFrame, destroyLast, startDealloc]
    repeat' split
    all_goals mp_frame

theorem tail_mp (x : Id) (w : World) (k : Nat) (id : Id) (hl : id = x → (w.metas x).live = true) :
    MP x w (World.putH (World.weakDrop (World.upd w id fun o => { o with valLive := true, rc := o.rc + 1 }) (.to id)) k id) := by
  refine MP.trans (b := World.upd w id fun o => { o with valLive := true, rc := o.rc + 1 }) ?_ (MP.trans (MP.weakDrop x _ (.to id) ?_) ?_)
  · refine MP.same rfl rfl ?_ rfl
    by_cases e : x = id
    · subst e; simp [World.upd]
    · simp [World.upd, Heap.set, e]
  · intro e _ _
    cases e
    exact hl rfl
  · refine MP.same (by simp [putH_events]) ?_ ?_ ?_ <;> simp only [World.putH] <;> split <;> rfl

theorem cyc_tail_mp (x : Id) (w : World) (b : Bool) (j k : Nat) (id : Id) (hl : id = x → (w.metas x).live = true) :
    MP x w (World.putH (World.weakDrop (World.upd
      (if b = true then (World.upd (World.updMeta w id fun m => { m with weak := m.weak + 1 }) id fun o => { o with wslots := o.wslots.set j (some id) }) else w)
      id fun o => { o with valLive := true, rc := o.rc + 1 }) (.to id)) k id) := by
  cases b with
  | false =>
    simp only [Bool.false_eq_true, if_false]
    exact tail_mp x w k id hl
  | true =>
    simp only [if_true]
    refine MP.trans (MP.setw_core w x id id j) (tail_mp x _ k id ?_)
    intro e
    have := hl e
    subst e
    simp [World.updMeta, Metas.set, this]

theorem wrefs_pop_le {w : World} {f : Frame} {rest : List Frame} (hs : w.stack = f :: rest) (x : Id) :
    wrefs w x = wrefs { w with stack := rest } x + f.cyc.count x := by
  unfold wrefs
  have hf : wfieldRefs { w with stack := rest } x = wfieldRefs w x := rfl
  rw [hf, hs, cycs_cons, List.count_append]
  show _ = (wIds w.W).count x + w.wstash x + wfieldRefs w x + (kIds w.K).count x + (cycs rest).count x + _
  omega

set_option maxHeartbeats 16000000 in
/-- **Every frame step** pays for every `metaFree x` it logs. -/
theorem stepFrame_mp (c : Cfg) (w : World) (f : Frame) (rest : List Frame) (ha : AllInv c w) (hwk : WeakOk w)
    (hs : w.stack = f :: rest) (x : Id) : MP x w (stepFrame c { w with stack := rest } f) := by
  have hi := ha.inv
  have hm : MInv w x := hwk.minv ha.counts.mfresh x
  have hmW : MInv { w with stack := rest } x :=
    ⟨fun hp => hm.live_of_ref (by rw [wrefs_pop_le hs x]; omega), hm.live_of_box, hm.noMeta, hm.frontier⟩
  show MP x { w with stack := rest } _
  cases f with
  | script ops self wc top =>
    cases ops with
    | nil => exact MP.refl _ _
    | cons op ops =>
      simp only [stepFrame]
      have h0 := hi.pop hs rfl
      obtain ⟨hp, hids⟩ := ha.counts.pop hs
      have hp' : CountsH false { w with stack := rest } [] := by cases self <;> exact hp
      have hself : ∀ s, self = some s → s < w.next := by
        intro s hs'; subst hs'; exact hids s (by simp [Frame.ids])
      have hc1 := (CountsH.pushFrame (E := []) (.script ops self wc top) (by cases self <;> simpa [Frame.holds] using hp')
        (by cases self <;> simpa [Frame.ids] using hself)).toCounts0
      have hi1 : Inv (({ w with stack := rest } : World).push (.script ops self wc top)) :=
        h0.step (WOI.same h0.oi rfl rfl) [.script ops self wc top] (by plain_tac) rfl
      have hm1 : MInv (({ w with stack := rest } : World).push (.script ops self wc top)) x :=
        hmW.congr (by rw [wrefs_push]; simp [Frame.cyc]) rfl rfl rfl rfl
      have := execOp_mp c _ self wc op x hm1 hc1 hi1 hself
      split <;> exact this
  | afterDropValue y oD =>
    have hyz : y ∈ zeroed w.stack := by rw [hs, zeroed_cons]; exact List.mem_append_left _ (by simp [Frame.zeroed])
    have hb : (w.heap y).boxLive = true := (hi.oi.zero y hyz).1
    simp only [stepFrame]
    split
    · mp_frame
    · have h1 : MP x { w with stack := rest } (if c.weak then World.dropMetadata { w with stack := rest } y else { w with stack := rest }) := by
        split
        · exact MP.dropMetadata x _ y (fun e hmeta _ => by subst e; exact hm.live_of_box hmeta hb)
        · exact MP.refl _ _
      refine MP.trans h1 ?_
      refine MP.same ?_ rfl (by simp) rfl
      simp [freeBox_events, mfc_cons]
  | dropFields y unw =>
    obtain ⟨_, hids⟩ := ha.counts.pop hs
    have hy : y < w.next := hids y (by simp [Frame.ids])
    simp only [stepFrame]
    split
    · rename_i z o' htf
      obtain ⟨_, h2, _⟩ := takeField_cc_w htf
      refine MP.same rfl rfl ?_ rfl
      by_cases e : x = y
      · subst e; simpa [World.upd, World.push] using h2
      · simp [World.upd, World.push, Heap.set, e]
    · rename_i z o' htf
      obtain ⟨h1, h2, _⟩ := takeField_weak_w htf
      refine MP.trans (b := (World.upd { w with stack := rest } y fun _ => o').push (.dropFields y unw)) ?_ ?_
      · refine MP.same rfl rfl ?_ rfl
        by_cases e : x = y
        · subst e; simpa [World.upd, World.push] using h2
        · simp [World.upd, World.push, Heap.set, e]
      · refine MP.weakDrop x _ (.to z) ?_
        intro e _ _
        cases e
        apply hm.live_of_ref
        have h3 := h1 x
        have h4 := count_le_wfieldRefs w y x hy
        simp only [List.count_cons_self, List.count_nil] at h3
        unfold wrefs; omega
    · split <;> mp_frame
  | deallocDrop N r oD =>
    cases r with
    | cons y r =>
      simp only [stepFrame]
      repeat' split
      all_goals mp_frame
    | nil =>
      simp only [stepFrame]
      split
      · mp_frame
      · have hnd : N.Nodup := by
          have := (List.nodup_append.1 hi.oi.ownNodup).2.1
          rw [hs, listed_cons] at this
          exact (List.nodup_append.1 this).1
        refine MP.foldl_free c x N { w with stack := rest } hnd ?_
        intro hx hmeta _
        have hxl : x ∈ listed w.stack := by rw [hs, listed_cons]; exact List.mem_append_left _ (by simpa [Frame.listed] using hx)
        exact hm.live_of_box hmeta (listed_ok hi hxl).1
  | newAlloc k sp =>
    simp only [stepFrame]
    refine MP.trans (b := (World.emit { ({ w with stack := rest } : World) with next := w.next + 1, heap := w.heap.set w.next (newObj c { w with stack := rest } sp), allocBytes := w.allocBytes + (newObj c { w with stack := rest } sp).size } (.alloc w.next (newObj c { w with stack := rest } sp).size))) ?_ ?_
    · exact MP.alloc x _ _ (newObj c { w with stack := rest } sp) rfl rfl rfl rfl (by simp [World.emit, mfc_cons]) (fun h => hm.frontier h)
    · refine MP.same (by simp [putH_events]) ?_ ?_ ?_ <;> simp [World.putH] <;> split <;> simp [World.push, World.setH]
  | mapAlloc owner =>
    simp only [stepFrame]
    have hA : MP x { w with stack := rest } (World.emit { ({ ({ w with stack := rest } : World) with next := w.next + 1 } : World) with heap := w.heap.set w.next ({ rc := 1, tc := c.tcInit, boxLive := true, valLive := true, kind := .map, size := c.mapSize, finalized := c.fin && w.finalizing } : Obj), allocBytes := w.allocBytes + c.mapSize } (.alloc w.next c.mapSize)) :=
      MP.alloc x _ _ _ rfl rfl rfl rfl (by simp [World.emit, mfc_cons]) (fun h => hm.frontier h)
    split
    · refine MP.trans hA ?_
      refine MP.same rfl rfl ?_ rfl
      exact upd_hasMeta_same' _ _ (fun o : Obj => { o with cmap := some w.next }) _ (fun _ => rfl)
    · exact MP.trans hA (MP.same rfl rfl rfl rfl)
  | newCyclicAlloc k sp body selfw =>
    simp only [stepFrame]
    have hA : MP x { w with stack := rest } (World.updMeta (World.emit { ({ w with stack := rest } : World) with next := w.next + 1, heap := w.heap.set w.next ({ newObj c { w with stack := rest } sp with rc := 0, valLive := false, hasMeta := true } : Obj), allocBytes := w.allocBytes + (newObj c { w with stack := rest } sp).size } (.alloc w.next (newObj c { w with stack := rest } sp).size)) w.next (fun _ => { weak := 1, accessible := true, live := true })) :=
      MP.allocCyc x _ _ _ rfl rfl rfl (by simp [World.updMeta, World.emit, Metas.set]) (by simp [World.updMeta, World.emit, mfc_cons])
        ((hwk.minv ha.counts.mfresh w.next).frontier (Nat.le_refl _))
    split
    · exact MP.trans hA (MP.same (by simp [mfc_cons]) (by simp) (by simp) (by simp))
    · exact MP.trans hA (MP.same rfl rfl rfl rfl)
  | newCyclicEnd k id sp selfw =>
    have hidc : 0 < (Frame.newCyclicEnd k id sp selfw).cyc.count id := by simp [Frame.cyc]
    have hlive : id = x → (w.metas x).live = true := by
      intro e; subst e
      exact hm.live_of_ref (by rw [wrefs_pop_le hs id]; omega)
    cases selfw with
    | none =>
      simp only [stepFrame]
      repeat' split
      all_goals first
        | (mp_frame; done)
        | exact cyc_tail_mp x _ false 0 k id hlive
        | contradiction
        | (exfalso; simp_all; done)
    | some j =>
      simp only [stepFrame]
      repeat' split
      all_goals first
        | (mp_frame; done)
        | exact cyc_tail_mp x _ false 0 k id hlive
        | exact cyc_tail_mp x _ true j k id hlive
  | regInsert owner script k cap =>
    obtain ⟨_, hids⟩ := ha.counts.pop hs
    have hown : owner < w.next := hids owner (by simp [Frame.ids])
    simp only [stepFrame]
    split
    · mp_frame
    · rename_i m hmm
      have hmlt : m < w.next := field_lt ha.counts hown (by simp [fieldsOf, hmm])
      split
      · mp_frame
      · have hgen : ∀ (idx : Nat) (om' : Obj), om'.hasMeta = (w.heap m).hasMeta →
            MP x { w with stack := rest } (if (((({ ({ w with stack := rest } : World) with nextAid := w.nextAid + 1 } : World).upd m fun _ => om').initMeta m).metas m).weak ≥ c.weakMax then
                ((({ ({ w with stack := rest } : World) with nextAid := w.nextAid + 1 } : World).upd m fun _ => om').initMeta m).raise
              else ((((({ ({ w with stack := rest } : World) with nextAid := w.nextAid + 1 } : World).upd m fun _ => om').initMeta m).updMeta m
                fun mm => { mm with weak := mm.weak + 1 }).removeFromList m).setK k (some (m, idx, w.nextAid))) := by
          intro idx om' hom
          have hA : MP x { w with stack := rest } (({ ({ w with stack := rest } : World) with nextAid := w.nextAid + 1 } : World).upd m fun _ => om') := by
            refine MP.same rfl rfl ?_ rfl
            by_cases e : x = m
            · subst e; simpa [World.upd] using hom
            · simp [World.upd, Heap.set, e]
          have hB : MP x (({ ({ w with stack := rest } : World) with nextAid := w.nextAid + 1 } : World).upd m fun _ => om')
              ((({ ({ w with stack := rest } : World) with nextAid := w.nextAid + 1 } : World).upd m fun _ => om').initMeta m) := by
            refine MP.initMeta x _ m hmlt ?_
            intro e hmeta
            subst e
            apply hm.noMeta
            have : om'.hasMeta = false := by simpa [World.upd] using hmeta
            rw [← hom]; exact this
          refine MP.trans hA (MP.trans hB ?_)
          split
          · exact MP.same (by simp) (by simp) (by simp) (by simp)
          · refine MP.same (by simp [World.setK, World.updMeta]) ?_ (by simp [World.setK, World.updMeta]) (by simp [World.setK, World.updMeta])
            simp only [World.setK, removeFromList_metas', World.updMeta, Metas.set]
            split
            · rename_i e; subst e; rfl
            · rfl
        cases hfr : (w.heap m).afree with
        | nil => simp only []; refine hgen _ _ ?_; rfl
        | cons i fr => simp only []; refine hgen _ _ ?_; rfl
  | _ => exact stepFrame_mp_plain c _ _ x trivial

set_option maxHeartbeats 8000000 in
theorem unwindFrame_mp (c : Cfg) (w : World) (f : Frame) (rest : List Frame) (ha : AllInv c w) (hwk : WeakOk w)
    (hs : w.stack = f :: rest) (x : Id) : MP x w (unwindFrame c { w with stack := rest } f) := by
  have hm : MInv w x := hwk.minv ha.counts.mfresh x
  show MP x { w with stack := rest } _
  cases f with
  | newCyclicEnd k id sp selfw =>
    simp only [unwindFrame]
    have hpos : id = x → 0 < (w.metas x).weak ∧ (w.metas x).live = true := by
      intro e; subst e
      have h1 : 0 < wrefs w id := by rw [wrefs_pop_le hs id]; simp [Frame.cyc]
      have h2 := hwk.le id
      exact ⟨by omega, hm.live_of_ref h1⟩
    refine MP.trans (MP.dropMetadata x _ id ?_) (MP.trans (b := (World.dropMetadata { w with stack := rest } id).freeBox id) ?_ (MP.weakDrop x _ (.to id) ?_))
    · intro e _ h0
      have := (hpos e).1
      have h0' : (w.metas x).weak = 0 := h0
      omega
    · refine MP.same ?_ rfl (by simp) rfl
      simp [freeBox_events, mfc_cons]
    · intro e _ _
      cases e
      obtain ⟨hw1, hl1⟩ := hpos rfl
      simp only [wk_freeBox_metas]
      rw [dropMetadata_metas_same]
      have hne : ¬ (w.metas x).weak = 0 := by omega
      split
      · simp only [hne, if_false]; exact hl1
      · exact hl1
  | _ =>
    simp only [unwindFrame]
    repeat' split
    all_goals first
      | (mp_frame; done)
      | (rename_i heq; cases heq; done)

/-- **Every micro-step from a reachable world** pays for every `metaFree x` it logs: `#metaFree x (step) + Ψ' = Ψ`. -/
theorem step_mp (c : Cfg) (nH nW nK : Nat) (w : World) (h : Reachable c nH nW nK w) (x : Id) :
    mfc x (newEvents w (step c w)) + Psi (step c w) x = Psi w x := by
  have ha := reachable_all c nH nW nK w h
  have hwk := reachable_weakOk c nH nW nK w h
  have key : MP x w (step c w) := by
    unfold step
    split
    · exact MP.refl _ _
    · exact MP.refl _ _
    · split
      · exact MP.same rfl rfl rfl rfl
      · rename_i f rest hs
        exact unwindFrame_mp c w f rest ha hwk hs x
    · split
      · exact MP.refl _ _
      · rename_i f rest hs
        exact stepFrame_mp c w f rest ha hwk hs x
  unfold MP at key
  rw [step_events_eq c w, mfc_append] at key
  omega

/-- A history of the machine — any steps, running or unwinding — with everything logged since the start. -/
inductive HistA (c : Cfg) (nH nW nK : Nat) : World → List Event → Prop
  | init : HistA c nH nW nK (World.init c nH nW nK) []
  | step (w) (log) : HistA c nH nW nK w log → HistA c nH nW nK (step c w) (log ++ newEvents w (step c w))
  | top (w) (op : Op) (log) : HistA c nH nW nK w log → w.stack = [] → w.mode = .running →
      HistA c nH nW nK { w with stack := [.script [op] none none true, .catchTop], events := [], ret := .ok } log

theorem HistA.reachable {c : Cfg} {nH nW nK : Nat} {w : World} {log : List Event} (h : HistA c nH nW nK w log) :
    Reachable c nH nW nK w := by
  induction h with
  | init => exact .init
  | step w log _ ih => exact .step w ih
  | top w op log _ hs hm ih => exact .top w op ih hs hm

/-- **The books of every side record balance**: releases so far + (1 if the record exists) + (1 if the allocation never had
one) = 1. -/
theorem histA_meta_balance {c : Cfg} {nH nW nK : Nat} {w : World} {log : List Event} (h : HistA c nH nW nK w log) (x : Id) :
    mfc x log + Psi w x = 1 := by
  induction h with
  | init => simp [Psi, World.init]
  | step w log hr ih =>
    have := step_mp c nH nW nK w hr.reachable x
    rw [mfc_append]; omega
  | top w op log _ hs hm ih => exact ih

/-- **A side record is released at most once** in any history, and once released the allocation has no record and never
gets a new one. -/
theorem histA_metaFree_once {c : Cfg} {nH nW nK : Nat} {w : World} {log : List Event} (h : HistA c nH nW nK w log) (x : Id) :
    log.count (Event.metaFree x) ≤ 1 ∧
    (log.count (Event.metaFree x) = 1 → (w.metas x).live = false ∧ (w.heap x).hasMeta = true ∧ x < w.next) := by
  have hb := histA_meta_balance h x
  unfold Psi mfc at hb
  refine ⟨by omega, fun h1 => ?_⟩
  rw [h1] at hb
  have h2 : (if (w.metas x).live = true then 1 else 0) + (if w.next ≤ x ∨ (w.heap x).hasMeta = false then 1 else 0) = 0 := by omega
  have h3 : (if (w.metas x).live = true then 1 else 0) = 0 := by omega
  have h4 : (if w.next ≤ x ∨ (w.heap x).hasMeta = false then 1 else 0) = 0 := by omega
  refine ⟨?_, ?_, ?_⟩
  · cases hl : (w.metas x).live <;> simp_all
  · cases hh : (w.heap x).hasMeta <;> simp_all
  · apply Nat.lt_of_not_le
    intro hle
    simp [hle] at h4

end RustCc
