import RustCcModel.Proofs.WeakInv6
/-! `WeakH` through the operations that create, move or drop `Weak` pointers, or release a box. -/
namespace RustCc
open World

variable {ex : Bool}

theorem not_occupiedW {w : World} {k : Nat} (hk : ¬ ((w.getW k).isSome = true ∨ k ≥ w.W.length)) :
    w.getW k = none ∧ k < w.W.length := by
  constructor
  · cases h : w.getW k with
    | none => rfl
    | some v => exact absurd (Or.inl (by simp [h])) hk
  · cases Nat.lt_or_ge k w.W.length with
    | inl h => exact h
    | inr h => exact absurd (Or.inr h) hk

theorem wIds_count_of_getW {w : World} {k : Nat} {x : Id} (h : w.getW k = some (.to x)) : 0 < (wIds w.W).count x := by
  have := wEntry_le_wIds w.W k x
  unfold getW at h
  rw [h] at this
  have e : (wEntry (some (WRef.to x))).count x = 1 := by simp [wEntry, WRef.ids]
  omega

theorem kIds_count_of_getK {w : World} {k : Nat} {m : Id} {i j : Nat} (h : w.getK k = some (m, i, j)) : 0 < (kIds w.K).count m := by
  have := kEntry_le_kIds w.K k m
  unfold getK at h
  rw [h] at this
  have e : (kEntry (some (m, i, j))).count m = 1 := by simp [kEntry]
  omega

/-- A `Weak` a script can name exists. -/
theorem resolveW_pos {w : World} {self wc : Option Id} (hself : ∀ s, self = some s → s < w.next)
    (hwc : ∀ x, wc = some x → x ∈ cycs w.stack) {ws : WSel} {x : Id} (hr : w.resolveW self wc ws = some (.to x)) :
    0 < wrefs w x := by
  cases ws with
  | w k =>
    have := wIds_count_of_getW (w := w) (k := k) (x := x) hr
    unfold wrefs; omega
  | sw i =>
    cases self with
    | none => simp [resolveW] at hr
    | some s =>
      simp only [resolveW, Option.bind_some, Option.map_eq_some_iff, WRef.to.injEq] at hr
      obtain ⟨a, ha, rfl⟩ := hr
      have h1 := count_pos_of_mem (getD_mem_optIds ha)
      have h2 := count_le_wfieldRefs w s a (hself s rfl)
      unfold wrefs; omega
  | wc =>
    cases wc with
    | none => simp [resolveW] at hr
    | some y =>
      simp only [resolveW, Option.map_some, Option.some.injEq, WRef.to.injEq] at hr
      subst hr
      have := count_pos_of_mem (hwc y rfl)
      unfold wrefs; omega

variable (c : Cfg) (w : World) (self wc : Option Id)

theorem execOp_weakH_down (r : CRef) (k : Nat) (hc : Counts w) (hi : Inv w) (h : WeakH ex w [])
    (hself : ∀ s, self = some s → s < w.next) : WeakH ex (execOp c w self wc (.down r k)) [] := by
  simp only [execOp]
  split
  · wneutral h
  · split
    · rename_i x hx
      have hxlt := resolveC_lt hc hself hx
      have hb : (w.heap x).boxLive = true := hi.oi.boxLive_of_rc (resolveC_rc hc hself hx)
      split
      · wneutral h
      · rename_i hk
        obtain ⟨hnone, hklt⟩ := not_occupiedW hk
        have h1 := h.initMeta x
        split
        · exact h1.raise
        · have h2 := (h1.incr x 1 (h.initMeta_live x hb) (by simpa using hxlt)).removeFromList x
          have h3 := WeakH.setW k (some (.to x)) (E := []) (by simpa [wEntry, WRef.ids] using h2) (by simpa using hklt)
          have hg : ((World.updMeta (w.initMeta x) x fun m => { m with weak := m.weak + 1 }).removeFromList x).getW k = none := by
            simpa [getW] using hnone
          rw [hg] at h3
          exact h3.ret _
    · wneutral h

theorem execOp_weakH_wclone (ws : WSel) (k : Nat) (h : WeakH ex w [])
    (hself : ∀ s, self = some s → s < w.next) (hwc : ∀ x, wc = some x → x ∈ cycs w.stack) :
    WeakH ex (execOp c w self wc (.wclone ws k)) [] := by
  simp only [execOp]
  split
  · wneutral h
  · split
    · rename_i r hr
      split
      · wneutral h
      · rename_i hk
        obtain ⟨hnone, hklt⟩ := not_occupiedW hk
        split
        · have h3 := WeakH.setW k (some .dangling) (E := []) (by simpa [wEntry, WRef.ids] using h) hklt
          rw [hnone] at h3
          exact h3.ret _
        · rename_i x
          have hp := resolveW_pos hself hwc hr
          split
          · exact h.raise
          · have h2 := h.incr x 1 (h.live_of_pos (by simpa using hp)) (h.lt_of_pos (by simpa using hp))
            have h3 := WeakH.setW k (some (.to x)) (E := []) (by simpa [wEntry, WRef.ids] using h2) (by simpa using hklt)
            have hg : (World.updMeta w x fun m => { m with weak := m.weak + 1 }).getW k = none := hnone
            rw [hg] at h3
            exact h3.ret _
    · wneutral h

theorem execOp_weakH_wdrop (k : Nat) (h : WeakH ex w []) : WeakH ex (execOp c w self wc (.wdrop k)) [] := by
  simp only [execOp]
  split
  · wneutral h
  · split
    · rename_i r hr
      have h1 := WeakH.setW k none (E := []) (by simpa [wEntry] using h) (getW_lt hr)
      rw [hr] at h1
      exact (WeakH.weakDropR r h1).ret _
    · wneutral h

theorem execOp_weakH_wnew (k : Nat) (h : WeakH ex w []) : WeakH ex (execOp c w self wc (.wnew k)) [] := by
  simp only [execOp]
  split
  · wneutral h
  · rename_i hk
    have hk' : ¬ ((w.getW k).isSome = true ∨ k ≥ w.W.length) := fun e => hk (Or.inr e)
    obtain ⟨hnone, hklt⟩ := not_occupiedW hk'
    have h3 := WeakH.setW k (some .dangling) (E := []) (by simpa [wEntry, WRef.ids] using h) hklt
    rw [hnone] at h3
    exact h3.ret _

theorem execOp_weakH_cdrop (k : Nat) (h : WeakH ex w []) : WeakH ex (execOp c w self wc (.cdrop k)) [] := by
  simp only [execOp]
  split
  · wneutral h
  · split
    · rename_i m i j hr
      have h1 := WeakH.setK k none (E := []) (by simpa [kEntry] using h) (getK_lt hr)
      rw [hr] at h1
      exact (WeakH.weakDrop (by simpa [kEntry] using h1)).ret _
    · wneutral h

end RustCc
