//! Operations of the line protocol (mirror of `Model/Protocol.lean`).

#[derive(Clone, Copy, Debug)]
pub enum CRef {
    H(usize),
    SF(usize),
    SU(usize),
}

#[derive(Clone, Copy, Debug)]
pub enum NRef {
    Of(CRef),
    SelfNode,
}

#[derive(Clone, Copy, Debug)]
pub enum WSel {
    W(usize),
    SW(usize),
    WC,
}

#[derive(Clone, Copy, Debug)]
pub enum Slot {
    F(usize),
    U(usize),
}

#[derive(Clone, Copy, Debug)]
pub struct NewSpec {
    pub ns: usize,
    pub nu: usize,
    pub nw: usize,
    pub cleaner: bool,
    pub fin: usize,
    pub drp: usize,
}

#[derive(Clone, Copy, Debug, PartialEq, Eq)]
pub enum FaultKind {
    Trace,
    Fin,
    Drop,
    Action,
    Body,
}

#[derive(Clone, Debug)]
pub enum Op {
    Nop,
    Panic,
    Collect,
    New(usize, NewSpec),
    NewCyclic(usize, NewSpec, usize, Option<usize>),
    Clone(CRef, usize),
    Drop(usize),
    SetF(NRef, Slot, CRef),
    ClrF(NRef, Slot),
    MoveF(NRef, Slot, usize),
    TakeF(NRef, Slot, usize),
    GetF(NRef, Slot, usize),
    MarkAlive(CRef),
    FinAgain(usize),
    Unwrap(usize),
    Down(CRef, usize),
    Up(WSel, usize),
    WClone(WSel, usize),
    WDrop(usize),
    WNew(usize),
    SetW(NRef, usize, WSel),
    ClrW(NRef, usize),
    Reg(NRef, usize, usize, Option<CRef>),
    Clean(usize),
    CDrop(usize),
    CfgAuto(bool),
    CfgBuf(Option<usize>),
    CfgPct(u64),
    Fault(FaultKind, usize, usize),
    CloneN(CRef, usize),
    DropN(CRef, usize),
    DownN(CRef, usize),
    WDropN(CRef, usize),
}

fn idx(pfx: &str, t: &str) -> Option<usize> {
    t.strip_prefix(pfx)?.parse().ok()
}

fn cref(t: &str) -> Option<CRef> {
    if let Some(r) = t.strip_prefix("s.f") {
        r.parse().ok().map(CRef::SF)
    } else if let Some(r) = t.strip_prefix("s.u") {
        r.parse().ok().map(CRef::SU)
    } else {
        idx("h", t).map(CRef::H)
    }
}

fn nref(t: &str) -> Option<NRef> {
    if t == "s" {
        Some(NRef::SelfNode)
    } else {
        cref(t).map(NRef::Of)
    }
}

fn wsel(t: &str) -> Option<WSel> {
    if t == "wc" {
        Some(WSel::WC)
    } else if let Some(r) = t.strip_prefix("s.w") {
        r.parse().ok().map(WSel::SW)
    } else {
        idx("w", t).map(WSel::W)
    }
}

fn slot(t: &str) -> Option<Slot> {
    if let Some(r) = t.strip_prefix('f') {
        r.parse().ok().map(Slot::F)
    } else if let Some(r) = t.strip_prefix('u') {
        r.parse().ok().map(Slot::U)
    } else {
        None
    }
}

fn b01(t: &str) -> Option<bool> {
    match t {
        "1" => Some(true),
        "0" => Some(false),
        _ => None,
    }
}

fn spec(t: &[&str]) -> Option<NewSpec> {
    Some(NewSpec {
        ns: t[0].parse().ok()?,
        nu: t[1].parse().ok()?,
        nw: t[2].parse().ok()?,
        cleaner: b01(t[3])?,
        fin: t[4].parse().ok()?,
        drp: t[5].parse().ok()?,
    })
}

pub fn parse_op(t: &[&str]) -> Option<Op> {
    Some(match t {
        ["nop"] => Op::Nop,
        ["panic"] => Op::Panic,
        ["collect"] => Op::Collect,
        ["new", k, a, b, c, d, e, f] => Op::New(idx("h", k)?, spec(&[a, b, c, d, e, f])?),
        ["newcyc", k, a, b, c, d, e, f, body, sw] => Op::NewCyclic(
            idx("h", k)?,
            spec(&[a, b, c, d, e, f])?,
            body.parse().ok()?,
            if *sw == "-" { None } else { Some(sw.parse().ok()?) },
        ),
        ["clone", r, k] => Op::Clone(cref(r)?, idx("h", k)?),
        ["drop", k] => Op::Drop(idx("h", k)?),
        ["setf", n, s, r] => Op::SetF(nref(n)?, slot(s)?, cref(r)?),
        ["movef", n, s, k] => Op::MoveF(nref(n)?, slot(s)?, idx("h", k)?),
        ["clrf", n, s] => Op::ClrF(nref(n)?, slot(s)?),
        ["takef", n, s, k] => Op::TakeF(nref(n)?, slot(s)?, idx("h", k)?),
        ["getf", n, s, k] => Op::GetF(nref(n)?, slot(s)?, idx("h", k)?),
        ["clonen", r, n] => Op::CloneN(cref(r)?, n.parse().ok()?),
        ["dropn", r, n] => Op::DropN(cref(r)?, n.parse().ok()?),
        ["downn", r, n] => Op::DownN(cref(r)?, n.parse().ok()?),
        ["wdropn", r, n] => Op::WDropN(cref(r)?, n.parse().ok()?),
        ["markalive", r] => Op::MarkAlive(cref(r)?),
        ["finagain", k] => Op::FinAgain(idx("h", k)?),
        ["unwrap", k] => Op::Unwrap(idx("h", k)?),
        ["down", r, k] => Op::Down(cref(r)?, idx("w", k)?),
        ["up", w, k] => Op::Up(wsel(w)?, idx("h", k)?),
        ["wclone", w, k] => Op::WClone(wsel(w)?, idx("w", k)?),
        ["wdrop", k] => Op::WDrop(idx("w", k)?),
        ["wnew", k] => Op::WNew(idx("w", k)?),
        ["setw", n, i, w] => Op::SetW(nref(n)?, idx("w", i)?, wsel(w)?),
        ["clrw", n, i] => Op::ClrW(nref(n)?, idx("w", i)?),
        ["reg", n, sc, k, cap] => Op::Reg(
            nref(n)?,
            sc.parse().ok()?,
            idx("c", k)?,
            if *cap == "-" { None } else { Some(cref(cap)?) },
        ),
        ["clean", k] => Op::Clean(idx("c", k)?),
        ["cdrop", k] => Op::CDrop(idx("c", k)?),
        ["cfg", "auto", b] => Op::CfgAuto(b01(b)?),
        ["cfg", "buf", "none"] => Op::CfgBuf(None),
        ["cfg", "buf", n] => Op::CfgBuf(Some(n.parse().ok()?)),
        ["cfg", "pct", h] => Op::CfgPct(u64::from_str_radix(h, 16).ok()?),
        ["fault", kind, n] => Op::Fault(fault_kind(kind)?, n.parse().ok()?, 0),
        ["fault", kind, n, j] => Op::Fault(fault_kind(kind)?, n.parse().ok()?, j.parse().ok()?),
        _ => return None,
    })
}

fn fault_kind(t: &str) -> Option<FaultKind> {
    Some(match t {
        "trace" => FaultKind::Trace,
        "fin" => FaultKind::Fin,
        "drop" => FaultKind::Drop,
        "action" => FaultKind::Action,
        "body" => FaultKind::Body,
        _ => return None,
    })
}

pub fn parse_script(toks: &[&str]) -> Option<Vec<Op>> {
    let mut out = Vec::new();
    for part in toks.split(|t| *t == ";") {
        if part.is_empty() {
            continue;
        }
        out.push(parse_op(part)?);
    }
    Some(out)
}
