import RustCcModel.Proofs.LifeHist
/-! **A finalizer runs at most once per object unless re-armed** — for every history of the running machine.

Potential of object `x`: the number of `callFin x` frames on the stack (a finalizer call that is about to happen) plus 1
if `x` is not flagged finalized. Every step keeps `finalize events of x + potential` from growing, except a step that
clears the flag of a finalized object (`finalize_again`, counted as a re-arm). -/
namespace RustCc
open World
open T1 (Mark)

def Frame.isCallFin (x : Id) : Frame → Bool
  | .callFin y => y == x
  | _ => false

/-- Pending finalizer calls on `x`. -/
def pend (x : Id) (st : List Frame) : Nat := (st.filter (Frame.isCallFin x)).length

@[simp] theorem pend_nil (x : Id) : pend x [] = 0 := rfl
theorem pend_cons (x : Id) (f : Frame) (st : List Frame) : pend x (f :: st) = (if f.isCallFin x then 1 else 0) + pend x st := by
  unfold pend; simp only [List.filter_cons]; split <;> simp <;> omega

/-- 1 if `x` can still be finalized without re-arming. -/
def unfin (w : World) (x : Id) : Nat := if (w.heap x).finalized then 0 else 1

def potential (w : World) (x : Id) : Nat := pend x w.stack + unfin w x

/-! ### `finalized` through the helpers -/

theorem upd_fin_same (w : World) (t : Id) (g : Obj → Obj) (u : Id) (hg : ∀ o, (g o).finalized = o.finalized) :
    ((w.upd t g).heap u).finalized = (w.heap u).finalized := by
  by_cases h : u = t
  · subst h; simp [upd, hg]
  · simp [upd, Heap.set, h]

theorem updAll_fin_same (w : World) (l : List Id) (g : Obj → Obj) (u : Id) (hg : ∀ o, (g o).finalized = o.finalized) :
    ((w.updAll l g).heap u).finalized = (w.heap u).finalized := by
  unfold updAll
  induction l generalizing w with
  | nil => rfl
  | cons x r ih => simp only [List.foldl_cons]; rw [ih, upd_fin_same _ _ _ _ hg]

@[simp] theorem setSlot_finalized (o : Obj) (s : Slot) (v : Option Id) : (setSlot o s v).finalized = o.finalized := by cases s <;> rfl
@[simp] theorem removeFromList_fin (w : World) (y x : Id) : ((w.removeFromList y).heap x).finalized = (w.heap x).finalized := by
  unfold removeFromList; split <;> (try rfl) <;> (by_cases h : x = y <;> simp [upd, Heap.set, h])
@[simp] theorem addToList_fin (w : World) (y x : Id) : ((w.addToList y).heap x).finalized = (w.heap x).finalized := by
  unfold addToList; split <;> (try rfl) <;> split <;> (try rfl) <;> (by_cases h : x = y <;> simp [upd, Heap.set, h])
@[simp] theorem dropMetadata_fin (w : World) (y x : Id) : ((w.dropMetadata y).heap x).finalized = (w.heap x).finalized := by
  unfold dropMetadata; split <;> (try rfl) <;> split <;> rfl
@[simp] theorem weakDrop_fin (w : World) (r : WRef) (x : Id) : ((w.weakDrop r).heap x).finalized = (w.heap x).finalized := by
  unfold weakDrop; cases r with
  | dangling => rfl
  | to y => simp only; split <;> rfl
@[simp] theorem initMeta_fin (w : World) (y x : Id) : ((w.initMeta y).heap x).finalized = (w.heap x).finalized := by
  unfold initMeta; split <;> (try rfl)
  by_cases h : x = y <;> simp [upd, updMeta, Heap.set, h]
@[simp] theorem cloneOk_fin (w : World) (y x : Id) : ((w.cloneOk y).heap x).finalized = (w.heap x).finalized := by
  unfold cloneOk; rw [removeFromList_fin]; exact upd_fin_same _ _ _ _ (fun _ => rfl)
@[simp] theorem fromT1_fin (w : World) (h : T1.Heap) (x : Id) : ((fromT1 w h).heap x).finalized = (w.heap x).finalized := rfl
@[simp] theorem raise_fin (w : World) (x : Id) : (w.raise.heap x).finalized = (w.heap x).finalized := by rw [s_raise_heap]
@[simp] theorem raiseLogged_fin (w : World) (x : Id) : (w.raiseLogged.heap x).finalized = (w.heap x).finalized := by rw [s_raiseLogged_heap]
@[simp] theorem freeBox_fin (w : World) (y x : Id) : ((w.freeBox y).heap x).finalized = (w.heap x).finalized := by
  by_cases h : x = y <;> simp [freeBox, upd, emit, Heap.set, h]
theorem putH_fin (w : World) (k : Nat) (y x : Id) : ((w.putH k y).heap x).finalized = (w.heap x).finalized := by
  unfold putH; split <;> rfl
theorem putH_pend (w : World) (k : Nat) (y x : Id) : pend x (w.putH k y).stack = pend x w.stack := by
  unfold putH; split <;> simp [pend_cons, Frame.isCallFin, World.push, World.setH]
theorem takeField_fin (o : Obj) : (takeField o).2.finalized = o.finalized := by
  unfold takeField
  repeat' split
  all_goals rfl
theorem foldl_free_fin (c : Cfg) (N : List Id) : ∀ (w : World) (x : Id),
    ((N.foldl (fun w x => (if c.weak then w.dropMetadata x else w).freeBox x) w).heap x).finalized = (w.heap x).finalized := by
  induction N with
  | nil => intro w x; rfl
  | cons y r ih => intro w x; simp only [List.foldl_cons]; rw [ih]; split <;> simp

/-! ### Pending finalizer calls through a step -/

macro "pend_tac" : tactic => `(tactic| (
  simp [pend_cons, Frame.isCallFin, putH_pend, foldl_free_stack', World.push, World.startCollect, Frame.vev]))

set_option maxHeartbeats 8000000 in
theorem execOp_pend (c : Cfg) (w : World) (self wc : Option Id) (op : Op) (x : Id) :
    pend x (execOp c w self wc op).stack = pend x w.stack := by
  cases op with
  | fault kind n j => cases kind <;> rfl
  | _ =>
    simp only [execOp]
    repeat' split
    all_goals first | rfl | pend_tac

/-- The effect of a frame step on the pending finalizer calls of `x`: either the `finalize x` event it emits is paid for by a
`callFin x` frame that disappears, or it pushes a `callFin x` frame for an object it has just flagged finalized. -/
def PendOk (w w' : World) (f : Frame) (x : Id) : Prop :=
  (f.vev w).count (false, x) + pend x w'.stack ≤ pend x (f :: w.stack) ∨
  ((w.heap x).finalized = false ∧ (w'.heap x).finalized = true ∧ pend x w'.stack = pend x (f :: w.stack) + 1 ∧
    (f.vev w).count (false, x) = 0)

set_option maxHeartbeats 16000000 in
theorem stepFrame_pend (c : Cfg) (w : World) (f : Frame) (x : Id) : PendOk w (stepFrame c w f) f x := by
  cases f with
  | script ops self wc top =>
    cases ops with
    | nil => left; simp [stepFrame, pend_cons, Frame.isCallFin, Frame.vev]
    | cons op ops =>
      left
      simp only [stepFrame]
      have := execOp_pend c (w.push (.script ops self wc top)) self wc op x
      split <;> (simp [pend_cons, Frame.isCallFin, Frame.vev, World.push] at this ⊢; omega)
  | callFin y =>
    left
    simp only [stepFrame]
    repeat' split
    all_goals (simp [pend_cons, Frame.isCallFin, Frame.vev, World.push, *]; try split <;> simp_all [List.count_cons] <;> omega)
  | dropCc y =>
    simp only [stepFrame]
    split
    · left; pend_tac
    · split
      · split
        · rename_i hfin
          by_cases e : y = x
          · subst e
            right
            refine ⟨by simpa using hfin.2, by simp [World.push, World.upd], by simp [pend_cons, Frame.isCallFin, World.push]; omega, by simp [Frame.vev]⟩
          · left
            have e' : (y == x) = false := by simpa using e
            simp [pend_cons, Frame.isCallFin, World.push, Frame.vev, e']
        · left; simp only [destroyLast]; split <;> pend_tac
      · left; pend_tac
  | finalizePass N r hasFin oldFin =>
    cases r with
    | nil =>
      left
      simp only [stepFrame, startDealloc]
      repeat' split
      all_goals pend_tac
    | cons y r =>
      simp only [stepFrame]
      split
      · rename_i hfin
        by_cases e : y = x
        · subst e
          right
          refine ⟨by simpa using hfin, by simp [World.push, World.upd], by simp [pend_cons, Frame.isCallFin, World.push]; omega, by simp [Frame.vev]⟩
        · left
          have e' : (y == x) = false := by simpa using e
          simp [pend_cons, Frame.isCallFin, World.push, Frame.vev, e']
      · left; pend_tac
  | collectPass =>
    left
    simp only [stepFrame, startDealloc]
    generalize tracePhasesF _ _ _ _ _ = r
    obtain ⟨res, fault⟩ := r
    cases res <;> simp only [] <;> repeat' split
    all_goals pend_tac
  | deallocDrop N r oD =>
    left
    cases r with
    | cons y r => simp only [stepFrame]; repeat' split
                  all_goals pend_tac
    | nil =>
      simp only [stepFrame]
      split
      · pend_tac
      · simp [pend_cons, Frame.isCallFin, foldl_free_stack', Frame.vev]
  | regInsert owner script k cap =>
    left
    simp only [stepFrame]
    split
    · pend_tac
    · split
      · pend_tac
      · cases hfr : (w.heap _).afree <;> simp only [] <;> split <;> pend_tac
  | dropValue y =>
    left
    simp only [stepFrame]
    repeat' split
    all_goals (simp [pend_cons, Frame.isCallFin, Frame.vev, World.push, *]; try split <;> simp [List.count_cons])
  | _ =>
    left
    simp only [stepFrame, destroyLast, startDealloc]
    repeat' split
    all_goals pend_tac

/-! ### Only `finalize_again` clears the flag -/

macro "fin_tac" : tactic => `(tactic| (
  intro hx
  simpa [upd_fin_same, updAll_fin_same, putH_fin, foldl_free_fin, World.setH, World.setW, World.setK, World.startCollect, World.emit,
    World.push, World.updMeta] using hx))

set_option maxHeartbeats 8000000 in
theorem execOp_fin (c : Cfg) (w : World) (self wc : Option Id) (op : Op) (x : Id) :
    (w.heap x).finalized = true → ((execOp c w self wc op).heap x).finalized = true ∨ (∃ k, op = .finAgain k ∧ w.getH k = some x) := by
  cases op with
  | fault kind n j => cases kind <;> exact fun h => Or.inl h
  | finAgain k =>
    simp only [execOp]
    split
    · rename_i y hy
      split
      · exact fun h => Or.inl h
      · split
        · exact fun h => Or.inl (by simpa using h)
        · intro hx
          by_cases e : x = y
          · subst e; exact Or.inr ⟨k, rfl, hy⟩
          · exact Or.inl (by simpa [World.upd, Heap.set, e] using hx)
    · exact fun h => Or.inl h
  | unwrap k =>
    simp only [execOp]
    repeat' split
    all_goals (intro hx; refine Or.inl ?_; first | exact hx | simpa [upd_fin_same, World.setH, World.push] using hx)
  | _ =>
    simp only [execOp]
    repeat' split
    all_goals (refine fun hx => Or.inl ?_; revert hx; fin_tac)

set_option maxHeartbeats 16000000 in
theorem stepFrame_fin (c : Cfg) (w : World) (f : Frame) (x : Id) (hx : (w.heap x).finalized = true) (hlt : x < w.next) :
    ((stepFrame c w f).heap x).finalized = true ∨
      (∃ k ops self wc top, f = .script (.finAgain k :: ops) self wc top ∧ w.getH k = some x) := by
  cases f with
  | script ops self wc top =>
    cases ops with
    | nil => simp only [stepFrame]; exact Or.inl hx
    | cons op ops =>
      simp only [stepFrame]
      rcases execOp_fin c (w.push (.script ops self wc top)) self wc op x hx with h | ⟨k, h1, h2⟩
      · split <;> exact Or.inl h
      · exact Or.inr ⟨k, ops, self, wc, top, by rw [h1], h2⟩
  | collectPass =>
    left
    simp only [stepFrame, startDealloc]
    generalize tracePhasesF _ _ _ _ _ = r
    obtain ⟨res, fault⟩ := r
    cases res <;> simp only [] <;> repeat' split
    all_goals (revert hx; fin_tac)
  | deallocDrop N r oD =>
    left
    cases r with
    | cons y r => simp only [stepFrame]; repeat' split
                  all_goals (revert hx; fin_tac)
    | nil =>
      simp only [stepFrame]
      split
      · revert hx; fin_tac
      · simpa [foldl_free_fin] using hx
  | dropFields y unw =>
    left
    simp only [stepFrame]
    have ht := takeField_fin (w.heap y)
    split
    · rename_i z o' hz
      rw [hz] at ht
      have ht' : o'.finalized = (w.heap y).finalized := ht
      by_cases e : x = y
      · subst e; simp [World.push, ht', hx]
      · simpa [World.push, World.upd, Heap.set, e] using hx
    · rename_i z o' hz
      rw [hz] at ht
      have ht' : o'.finalized = (w.heap y).finalized := ht
      rw [weakDrop_fin]
      by_cases e : x = y
      · subst e; simp [World.push, ht', hx]
      · simpa [World.push, World.upd, Heap.set, e] using hx
    · split <;> exact hx
  | dropCc y =>
    left
    simp only [stepFrame, destroyLast]
    repeat' split
    all_goals first
      | (revert hx; fin_tac)
      | (by_cases e : x = y
         · subst e; simp [World.push, World.upd]
         · simpa [World.push, World.upd, Heap.set, e] using hx)
  | finalizePass N r hasFin oldFin =>
    left
    cases r with
    | nil => simp only [stepFrame, startDealloc]; repeat' split
             all_goals (revert hx; fin_tac)
    | cons y r =>
      simp only [stepFrame]
      split
      · by_cases e : x = y
        · subst e; simp [World.push, World.upd]
        · simpa [World.push, World.upd, Heap.set, e] using hx
      · exact hx
  | regInsert owner script k cap =>
    left
    simp only [stepFrame]
    split
    · exact hx
    · split
      · revert hx; fin_tac
      · rename_i m hm hb
        have hgen : ∀ (idx : Nat) (om' : Obj), om'.finalized = (w.heap m).finalized →
            ((if (((({ w with nextAid := w.nextAid + 1 } : World).upd m fun _ => om').initMeta m).metas m).weak ≥ c.weakMax then
                ((({ w with nextAid := w.nextAid + 1 } : World).upd m fun _ => om').initMeta m).raise
              else ((((({ w with nextAid := w.nextAid + 1 } : World).upd m fun _ => om').initMeta m).updMeta m
                fun mm => { mm with weak := mm.weak + 1 }).removeFromList m).setK k (some (m, idx, w.nextAid))).heap x).finalized = true := by
          intro idx om' hom
          have hlv : ((({ w with nextAid := w.nextAid + 1 } : World).upd m fun _ => om').heap x).finalized = (w.heap x).finalized := by
            by_cases e : x = m
            · subst e; simpa using hom
            · simp [World.upd, Heap.set, e]
          split
          · rw [raise_fin, initMeta_fin, hlv]; exact hx
          · have : ∀ W : World, ((W.setK k (some (m, idx, w.nextAid))).heap x) = W.heap x := fun _ => rfl
            rw [this, removeFromList_fin]
            simp only [World.updMeta_heap]
            rw [initMeta_fin, hlv]; exact hx
        cases hfr : (w.heap m).afree with
        | nil => simp only []; refine hgen _ _ ?_; rfl
        | cons i fr => simp only []; refine hgen _ _ ?_; rfl
  | newAlloc k sp =>
    left
    simp only [stepFrame]
    rw [putH_fin]
    have e : x ≠ w.next := Nat.ne_of_lt hlt
    simpa [World.emit, Heap.set, e] using hx
  | newCyclicAlloc k sp body selfw =>
    left
    simp only [stepFrame]
    have e : x ≠ w.next := Nat.ne_of_lt hlt
    split <;> simpa [World.emit, World.push, World.updMeta, Heap.set, e] using hx
  | mapAlloc owner =>
    left
    simp only [stepFrame]
    have e : x ≠ w.next := Nat.ne_of_lt hlt
    split
    · simp only [upd_fin_same _ _ (fun o : Obj => { o with cmap := some w.next }) _ (fun _ => rfl)]
      simpa [World.emit, Heap.set, e] using hx
    · simpa [World.emit, World.push, Heap.set, e] using hx
  | _ =>
    left
    simp only [stepFrame, destroyLast, startDealloc]
    repeat' split
    all_goals (revert hx; fin_tac)

/-! ### Histories -/

/-- 1 if the step cleared the finalized flag of `x`. -/
def rearmed (w w' : World) (x : Id) : Nat := if (w.heap x).finalized = true ∧ (w'.heap x).finalized = false then 1 else 0

/-- A panic-free history with its log and the number of times the flag of `x` was cleared. -/
inductive HistC (c : Cfg) (nH nW nK : Nat) (x : Id) : World → List Event → Nat → Prop
  | init : HistC c nH nW nK x (World.init c nH nW nK) [] 0
  | step (w) (log) (nr) : HistC c nH nW nK x w log nr → w.mode = .running →
      HistC c nH nW nK x (step c w) (log ++ newEvents w (step c w)) (nr + rearmed w (step c w) x)
  | top (w) (op : Op) (log) (nr) : HistC c nH nW nK x w log nr → w.stack = [] → w.mode = .running →
      HistC c nH nW nK x { w with stack := [.script [op] none none true, .catchTop], events := [], ret := .ok } log nr

theorem HistC.histR {c : Cfg} {nH nW nK : Nat} {x : Id} {w : World} {log : List Event} {nr : Nat} (h : HistC c nH nW nK x w log nr) :
    HistR c nH nW nK w log := by
  induction h with
  | init => exact .init
  | step w log nr _ hm ih => exact .step w log ih hm
  | top w op log nr _ hs hm ih => exact .top w op log ih hs hm

theorem step_potential (c : Cfg) (w : World) (hm : w.mode = .running) (x : Id) :
    (vEv (newEvents w (step c w))).count (false, x) + potential (step c w) x ≤ potential w x + rearmed w (step c w) x := by
  cases hs : w.stack with
  | nil =>
    have e : step c w = w := by unfold step; rw [hm]; simp only []; rw [hs]
    rw [e]; simp [newEvents]
  | cons f rest =>
    have e : step c w = stepFrame c { w with stack := rest } f := by unfold step; rw [hm]; simp only []; rw [hs]
    have hv := step_vEv_running c w hm f rest hs
    rw [hv, e]
    have hp := stepFrame_pend c { w with stack := rest } f x
    have hvv : f.vev w = f.vev { w with stack := rest } := by cases f <;> rfl
    rw [hvv]
    unfold potential unfin rearmed
    rw [hs]
    have hh : (({ w with stack := rest } : World).heap x).finalized = (w.heap x).finalized := rfl
    have hst : ({ w with stack := rest } : World).stack = rest := rfl
    unfold PendOk at hp
    rw [hst] at hp
    rcases hp with h | ⟨h1, h2, h3, h4⟩
    · simp only [hh] at *
      cases hf : (w.heap x).finalized <;> cases hf' : ((stepFrame c { w with stack := rest } f).heap x).finalized <;> simp <;> omega
    · rw [hh] at h1
      simp only [h1, h2, h4]
      simp; omega

/-- **`Finalize::finalize` runs at most once per object unless re-armed**: in the log of a panic-free history the number of
`finalize x` events is at most 1 plus the number of times the finalized flag of `x` was cleared. -/
theorem histC_finalize_once (c : Cfg) (nH nW nK : Nat) (x : Id) (w : World) (log : List Event) (nr : Nat)
    (h : HistC c nH nW nK x w log nr) : (vEv log).count (false, x) + potential w x ≤ 1 + nr := by
  induction h with
  | init => simp [potential, unfin, World.init]
  | top w op log nr _ hs hm ih =>
    have : potential { w with stack := [.script [op] none none true, .catchTop], events := [], ret := .ok } x = potential w x := by
      unfold potential unfin; rw [hs]; simp [pend_cons, Frame.isCallFin]
    rw [this]; exact ih
  | step w log nr _ hm ih =>
    rw [vEv_append, List.count_append]
    have := step_potential c w hm x
    omega

/-- Only `finalize_again` clears the flag: a step that re-arms an allocated object executes `finAgain k` with `H[k] = x`. -/
theorem rearm_only_by_finalize_again (c : Cfg) (w : World) (hm : w.mode = .running) (x : Id) (hlt : x < w.next)
    (hr : rearmed w (step c w) x = 1) :
    ∃ k ops self wc top rest, w.stack = .script (.finAgain k :: ops) self wc top :: rest ∧ w.getH k = some x := by
  unfold rearmed at hr
  split at hr
  · rename_i hc
    cases hs : w.stack with
    | nil =>
      have e : step c w = w := by unfold step; rw [hm]; simp only []; rw [hs]
      rw [e] at hc; rw [hc.1] at hc; cases hc.2
    | cons f rest =>
      have e : step c w = stepFrame c { w with stack := rest } f := by unfold step; rw [hm]; simp only []; rw [hs]
      rw [e] at hc
      rcases stepFrame_fin c { w with stack := rest } f x hc.1 hlt with h | ⟨k, ops, self, wc, top, h1, h2⟩
      · rw [hc.2] at h; cases h
      · exact ⟨k, ops, self, wc, top, rest, by rw [h1], h2⟩
  · cases hr

end RustCc
