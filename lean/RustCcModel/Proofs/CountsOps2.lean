import RustCcModel.Proofs.CountsOps
/-! `Counts` through the field operations and the simple operations (one theorem per operation). -/
namespace RustCc
open World
variable {ex : Bool}

theorem getSlot_cloneOk (w : World) (x t : Id) (s : Slot) : getSlot ((w.cloneOk x).heap t) s = getSlot (w.heap t) s := by
  unfold cloneOk removeFromList
  cases s <;> split <;> by_cases h : t = x <;> simp [getSlot, upd, Heap.set, h]

theorem execOp_counts_setf (c : Cfg) (w : World) (self wc : Option Id) (n : NRef) (s : Slot) (r : CRef) (h : CountsG ex w)
    (hself : ∀ s, self = some s → s < w.next) : CountsG ex (execOp c w self wc (.setf n s r)) := by
  have hH := h.toH
  simp only [execOp]
  split
  · rename_i t x ht hx
    have htlt := resolveN_lt h hself ht
    have hxlt := resolveC_lt h hself hx
    split
    · rename_i old hold
      split
      · have h1 := (hH.clone x hxlt)
        have hs' : getSlot ((w.cloneOk x).heap t) s = some old := by rw [getSlot_cloneOk]; exact hold
        have h2 := (h1.putField (t := t) (by simpa using htlt) hs').ret Ret.ok
        cases old with
        | none => exact CountsH.toCounts0 h2
        | some y => exact (CountsH.pushFrame (.dropCc y) h2 (by intro i hi; cases hi)).toCounts0
      · exact h.raise
    · exact h.congr rfl rfl rfl rfl rfl rfl rfl
  · exact h.congr rfl rfl rfl rfl rfl rfl rfl
theorem getSlot_mem_fields {o : Obj} {s : Slot} {y : Id} (h : getSlot o s = some (some y)) : y ∈ fieldsOf o := by
  cases s with
  | f i => exact slot_mem_fields (i := i) (by simp only [getSlot] at h; rw [List.getD_eq_getElem?_getD, h]; rfl)
  | u i => exact uslot_mem_fields (i := i) (by simp only [getSlot] at h; rw [List.getD_eq_getElem?_getD, h]; rfl)

theorem execOp_counts_movef (c : Cfg) (w : World) (self wc : Option Id) (n : NRef) (s : Slot) (k : Nat) (h : CountsG ex w)
    (hself : ∀ s, self = some s → s < w.next) : CountsG ex (execOp c w self wc (.movef n s k)) := by
  have hH := h.toH
  simp only [execOp]
  split
  · exact h.congr rfl rfl rfl rfl rfl rfl rfl
  · split
    · rename_i t x ht hx
      have htlt := resolveN_lt h hself ht
      split
      · rename_i old hold
        have h1 := hH.takeTable hx
        have hs' : getSlot ((w.setH k none).heap t) s = some old := hold
        have h2 := (h1.putField (t := t) htlt hs').ret Ret.ok
        cases old with
        | none => exact CountsH.toCounts0 h2
        | some y => exact (CountsH.pushFrame (.dropCc y) h2 (by intro i hi; cases hi)).toCounts0
      · exact h.congr rfl rfl rfl rfl rfl rfl rfl
    · exact h.congr rfl rfl rfl rfl rfl rfl rfl

theorem execOp_counts_clrf (c : Cfg) (w : World) (self wc : Option Id) (n : NRef) (s : Slot) (h : CountsG ex w)
    (hself : ∀ s, self = some s → s < w.next) : CountsG ex (execOp c w self wc (.clrf n s)) := by
  have hH := h.toH
  simp only [execOp]
  split
  · rename_i t ht
    have htlt := resolveN_lt h hself ht
    split
    · rename_i y hy
      exact (CountsH.pushFrame (.dropCc y) ((hH.clearField htlt hy).ret _) (by intro i hi; cases hi)).toCounts0
    · exact h.congr rfl rfl rfl rfl rfl rfl rfl
  · exact h.congr rfl rfl rfl rfl rfl rfl rfl

theorem execOp_counts_takef (c : Cfg) (w : World) (self wc : Option Id) (n : NRef) (s : Slot) (k : Nat) (h : CountsG ex w)
    (hself : ∀ s, self = some s → s < w.next) : CountsG ex (execOp c w self wc (.takef n s k)) := by
  have hH := h.toH
  simp only [execOp]
  split
  · rename_i t ht
    have htlt := resolveN_lt h hself ht
    split
    · rename_i y hy
      split
      · exact h.congr rfl rfl rfl rfl rfl rfl rfl
      · rename_i hk
        obtain ⟨hnone, hklt⟩ := not_occupied hk
        exact (((hH.clearField htlt hy).putTable (by simpa [getH] using hnone) (by simpa using hklt)).ret _).toCounts0
    · exact h.congr rfl rfl rfl rfl rfl rfl rfl
  · exact h.congr rfl rfl rfl rfl rfl rfl rfl

theorem execOp_counts_getf (c : Cfg) (w : World) (self wc : Option Id) (n : NRef) (s : Slot) (k : Nat) (h : CountsG ex w)
    (hself : ∀ s, self = some s → s < w.next) : CountsG ex (execOp c w self wc (.getf n s k)) := by
  have hH := h.toH
  simp only [execOp]
  split
  · rename_i t ht
    have htlt := resolveN_lt h hself ht
    split
    · rename_i y hy
      have hylt : y < w.next := field_lt h htlt (getSlot_mem_fields hy)
      split
      · exact h.congr rfl rfl rfl rfl rfl rfl rfl
      · rename_i hk
        obtain ⟨hnone, hklt⟩ := not_occupied hk
        split
        · exact (((hH.clone y hylt).putTable (by simpa [getH] using hnone) (by simpa using hklt)).ret _).toCounts0
        · exact h.raise
    · exact h.congr rfl rfl rfl rfl rfl rfl rfl
  · exact h.congr rfl rfl rfl rfl rfl rfl rfl

theorem execOp_counts_markAlive (c : Cfg) (w : World) (self wc : Option Id) (r : CRef) (h : CountsG ex w) :
    CountsG ex (execOp c w self wc (.markAlive r)) := by
  have hH := h.toH
  simp only [execOp]
  split
  · exact ((hH.removeFromList _).ret _).toCounts0
  · exact h.congr rfl rfl rfl rfl rfl rfl rfl

theorem execOp_counts_finAgain (c : Cfg) (w : World) (self wc : Option Id) (k : Nat) (h : CountsG ex w) :
    CountsG ex (execOp c w self wc (.finAgain k)) := by
  have hH := h.toH
  simp only [execOp]
  split
  · split
    · exact h.congr rfl rfl rfl rfl rfl rfl rfl
    · split
      · exact h.raise
      · exact ((hH.upd_same _ _ rfl rfl).ret _).toCounts0
  · exact h.congr rfl rfl rfl rfl rfl rfl rfl

theorem execOp_counts_collect (c : Cfg) (w : World) (self wc : Option Id) (h : CountsG ex w) :
    CountsG ex (execOp c w self wc .collect) := by
  have hH := h.toH
  simp only [execOp]
  split
  · exact h.ret _
  · split
    · exact (((hH.ret _).pushPlain _ rfl rfl).startCollect).toCounts0
    · exact ((hH.ret _).startCollect).toCounts0

theorem execOp_counts_cfg (c : Cfg) (w : World) (self wc : Option Id) (h : CountsG ex w) :
    (∀ b, CountsG ex (execOp c w self wc (.cfgAuto b))) ∧ (∀ b, CountsG ex (execOp c w self wc (.cfgBuf b))) ∧
    (∀ b, CountsG ex (execOp c w self wc (.cfgPct b))) := by
  refine ⟨?_, ?_, ?_⟩ <;> intro b <;> simp only [execOp] <;> split <;>
    first | exact h.congr rfl rfl rfl rfl rfl rfl rfl | exact h.congr rfl rfl rfl rfl rfl rfl rfl

end RustCc
