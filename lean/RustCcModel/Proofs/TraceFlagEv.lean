import RustCcModel.Proofs.TraceFlag
/-! The events of a run carry the value `is_tracing()` had when they were emitted. This file shows: every `trace` event carries
`true`, every `finalize`, `drop` and `action` event carries `false` — in every reachable world. -/
namespace RustCc
open World
open T1 (Mark)

@[simp] theorem raise_finalizing (w : World) : w.raise.finalizing = w.finalizing := by
  have := (raise_ext w).flags; simp only [World.flags, Prod.mk.injEq] at this; exact this.2.1
@[simp] theorem raise_collecting (w : World) : w.raise.collecting = w.collecting := by
  have := (raise_ext w).flags; simp only [World.flags, Prod.mk.injEq] at this; exact this.1
@[simp] theorem raise_dropping (w : World) : w.raise.dropping = w.dropping := by
  have := (raise_ext w).flags; simp only [World.flags, Prod.mk.injEq] at this; exact this.2.2
@[simp] theorem raiseLogged_finalizing (w : World) : w.raiseLogged.finalizing = w.finalizing := by
  have := (raiseLogged_ext w).flags; simp only [World.flags, Prod.mk.injEq] at this; exact this.2.1
@[simp] theorem raiseLogged_collecting (w : World) : w.raiseLogged.collecting = w.collecting := by
  have := (raiseLogged_ext w).flags; simp only [World.flags, Prod.mk.injEq] at this; exact this.1
@[simp] theorem raiseLogged_dropping (w : World) : w.raiseLogged.dropping = w.dropping := by
  have := (raiseLogged_ext w).flags; simp only [World.flags, Prod.mk.injEq] at this; exact this.2.2

/-! ### Without the `finalization` feature the finalizing flag is never set -/

def Frame.nf : Frame → Bool
  | .dropCcAfterFin .. | .finalizePass .. => false
  | .collectLoop _ oF _ => !oF
  | _ => true

def NF (w : World) : Prop := w.finalizing = false ∧ w.stack.all Frame.nf = true

macro "nf_close" : tactic => `(tactic| first
  | (simp_all [NF, Frame.nf, World.putH, World.startCollect, World.cloneOk]; done)
  | (simp_all [NF, Frame.nf, World.putH, World.startCollect, World.cloneOk]; split <;> simp_all [Frame.nf]; done))

set_option maxHeartbeats 4000000 in
theorem execOp_nf (c : Cfg) (w : World) (self wc : Option Id) (op : Op) (hc : c.fin = false) (h : NF w) : NF (execOp c w self wc op) := by
  cases op with
  | fault kind n j => cases kind <;> simpa [execOp, NF] using h
  | _ =>
    simp only [execOp]
    repeat' split
    all_goals nf_close

theorem foldl_free_finalizing (c : Cfg) (N : List Id) (w : World) :
    (N.foldl (fun w x => (if c.weak then w.dropMetadata x else w).freeBox x) w).finalizing = w.finalizing :=
  (foldl_free_ctl c N w).finalizing

set_option maxHeartbeats 8000000 in
theorem stepFrame_nf (c : Cfg) (w : World) (f : Frame) (hc : c.fin = false) (hf : f.nf = true) (h : NF w) : NF (stepFrame c w f) := by
  cases f with
  | script ops self wc top =>
    cases ops with
    | nil => simpa [stepFrame] using h
    | cons op ops =>
      simp only [stepFrame]
      have h1 : NF (w.push (.script ops self wc top)) := by simp_all [NF, Frame.nf]
      have h2 := execOp_nf c _ self wc op hc h1
      split
      · exact h2
      · simpa [NF] using h2
  | collectPass =>
    simp only [stepFrame, startDealloc]
    generalize tracePhasesF _ _ _ _ _ = r
    obtain ⟨res, fault⟩ := r
    cases res <;> simp only [] <;> repeat' split
    all_goals (simp_all [NF, Frame.nf]; done)
  | deallocDrop N r oD =>
    cases r with
    | cons x r => simp only [stepFrame]; repeat' split
                  all_goals nf_close
    | nil =>
      simp only [stepFrame]
      split
      · nf_close
      · simp only [NF, foldl_free_finalizing, foldl_free_stack] at *; exact h
  | _ =>
    simp only [stepFrame, destroyLast, startDealloc]
    repeat' split
    all_goals nf_close

set_option maxHeartbeats 4000000 in
theorem unwindFrame_nf (c : Cfg) (w : World) (f : Frame) (hf : f.nf = true) (h : NF w) : NF (unwindFrame c w f) := by
  cases f <;> simp only [unwindFrame] <;> repeat' split
  all_goals nf_close

theorem step_nf (c : Cfg) (w : World) (hc : c.fin = false) (h : NF w) : NF (step c w) := by
  unfold step
  split
  · exact h
  · exact h
  · split
    · simpa [NF] using h
    · rename_i f rest hs
      apply unwindFrame_nf
      · simp_all [NF]
      · simp_all [NF]
  · split
    · exact h
    · rename_i f rest hs
      apply stepFrame_nf _ _ _ hc
      · simp_all [NF]
      · simp_all [NF]

theorem reachable_nf {c : Cfg} {nH nW nK : Nat} {w : World} (hc : c.fin = false) (h : Reachable c nH nW nK w) : NF w := by
  induction h with
  | init => simp [NF, World.init]
  | step w _ ih => exact step_nf c w hc ih
  | top w op _ hs hm ih => simp_all [NF, Frame.nf]

/-! ### The flag carried by the events -/

def Event.tfOk : Event → Bool
  | .finalize _ t | .drop _ t | .action _ t => !t
  | .trace _ t => t
  | _ => true

/-- Every `trace` event of the log carries `true`, every `finalize` / `drop` / `action` event `false`. -/
def TF (l : List Event) : Prop := l.all Event.tfOk = true

@[simp] theorem tfOk_alloc (x s) : Event.tfOk (.alloc x s) = true := rfl
@[simp] theorem tfOk_free (x) : Event.tfOk (.free x) = true := rfl
@[simp] theorem tfOk_metaFree (x) : Event.tfOk (.metaFree x) = true := rfl
@[simp] theorem tfOk_moved (x) : Event.tfOk (.moved x) = true := rfl
@[simp] theorem tfOk_collect : Event.tfOk .collect = true := rfl
@[simp] theorem tfOk_panic : Event.tfOk .panic = true := rfl
@[simp] theorem tfOk_finalize (x t) : Event.tfOk (.finalize x t) = !t := rfl
@[simp] theorem tfOk_drop (x t) : Event.tfOk (.drop x t) = !t := rfl
@[simp] theorem tfOk_action (x t) : Event.tfOk (.action x t) = !t := rfl
@[simp] theorem tfOk_trace (x t) : Event.tfOk (.trace x t) = t := rfl

@[simp] theorem tf_dmEv (w : World) (x : Id) : (dmEv w x).all Event.tfOk = true := by
  unfold dmEv; split <;> (try rfl) <;> split <;> rfl
@[simp] theorem tf_wdEv (w : World) (r : WRef) : (wdEv w r).all Event.tfOk = true := by
  unfold wdEv; cases r with
  | dangling => rfl
  | to x => simp only; split <;> rfl

theorem foldl_free_tf (c : Cfg) (N : List Id) : ∀ w : World, TF w.events →
    TF (N.foldl (fun w x => (if c.weak then w.dropMetadata x else w).freeBox x) w).events := by
  induction N with
  | nil => intro w h; exact h
  | cons y r ih =>
    intro w h
    simp only [List.foldl_cons]
    apply ih
    unfold TF at *
    split <;> simp [freeBox_events, List.all_append, h]

macro "tf_close" : tactic => `(tactic| first
  | (simp_all [TF, List.all_append, freeBox_events, putH_events, World.isTracing, World.setH, World.setW, World.setK, World.push, World.emit,
      World.upd, World.updMeta, World.startCollect, World.cloneOk]; done)
  | (simp_all [TF, List.all_append, freeBox_events, putH_events, World.isTracing, World.setH, World.setW, World.setK, World.push, World.emit,
      World.upd, World.updMeta, World.startCollect, World.cloneOk]; split <;> simp_all; done))

set_option maxHeartbeats 8000000 in
theorem execOp_tf (c : Cfg) (w : World) (self wc : Option Id) (op : Op) (hT : w.isTracing c = false) (h : TF w.events) :
    TF (execOp c w self wc op).events := by
  cases op with
  | fault kind n j => cases kind <;> exact h
  | _ =>
    simp only [execOp]
    repeat' split
    all_goals tf_close

set_option maxHeartbeats 16000000 in
theorem stepFrame_tf (c : Cfg) (w : World) (f : Frame) (hF : f.quiet = false → w.isTracing c = false)
    (hQ : f = .collectPass → w.isTracing c = true) (h : TF w.events) : TF (stepFrame c w f).events := by
  cases f with
  | script ops self wc top =>
    have hT := hF rfl
    cases ops with
    | nil => exact h
    | cons op ops =>
      simp only [stepFrame]
      have := execOp_tf c (w.push (.script ops self wc top)) self wc op hT h
      split
      · exact this
      · exact this
  | collectPass =>
    have hT := hQ rfl
    simp only [stepFrame, startDealloc]
    generalize tracePhasesF _ _ _ _ _ = r
    obtain ⟨res, fault⟩ := r
    cases res <;> simp only [] <;> repeat' split
    all_goals tf_close
  | collectLoop n oF oD =>
    simp only [stepFrame]
    repeat' split
    all_goals tf_close
  | regInsert owner script k cap =>
    have hT := hF rfl
    simp only [stepFrame]
    split
    · tf_close
    · split
      · tf_close
      · cases hfr : (w.heap _).afree <;> simp only [] <;> split <;> tf_close
  | deallocDrop N r oD =>
    cases r with
    | cons x r => simp only [stepFrame]; repeat' split
                  all_goals tf_close
    | nil =>
      simp only [stepFrame]
      split
      · tf_close
      · exact foldl_free_tf c N w h
  | _ =>
    have hT := hF rfl
    simp only [stepFrame, destroyLast, startDealloc]
    repeat' split
    all_goals tf_close

set_option maxHeartbeats 4000000 in
theorem unwindFrame_tf (c : Cfg) (w : World) (f : Frame) (h : TF w.events) : TF (unwindFrame c w f).events := by
  cases f <;> simp only [unwindFrame] <;> repeat' split
  all_goals tf_close

theorem isTracing_false_of_nt (c : Cfg) (w : World) (hf : FlagsOk w) (hn : nt w.stack) (hnf : c.fin = false → w.finalizing = false) :
    w.isTracing c = false := by
  unfold nt at hn
  unfold FlagsOk at hf
  rw [hf] at hn
  simp only [World.flags, tracing, ne_eq, Option.some.injEq, Prod.mk.injEq, not_and] at hn
  unfold World.isTracing
  cases hc : c.fin
  · have := hnf hc
    cases h1 : w.collecting <;> cases h3 : w.dropping <;> simp_all
  · cases h1 : w.collecting <;> cases h2 : w.finalizing <;> cases h3 : w.dropping <;> simp_all

theorem isTracing_true_of_pass (c : Cfg) (w : World) (rest : List Frame) (hs : w.stack = .collectPass :: rest) (hf : FlagsOk w)
    (hwf : stackWF w.stack = true) : w.isTracing c = true := by
  rw [hs] at hwf
  unfold FlagsOk at hf
  rw [hs, expected_cons_neutral _ _ rfl] at hf
  cases rest with
  | nil => simp [stackWF, Frame.isPass] at hwf
  | cons g r =>
    cases g <;> simp [stackWF, Frame.isPass, Frame.isLoop] at hwf
    have := (expected_guard_collect hf).2
    simp only [World.flags, Prod.mk.injEq] at this
    unfold World.isTracing
    simp [this.1, this.2.1, this.2.2]

/-- One step only logs events that carry the right value of `is_tracing()`. -/
theorem step_tf (c : Cfg) (w : World) (ht : tOk w.stack) (hf : FlagsOk w) (hwf : stackWF w.stack = true)
    (hnf : c.fin = false → w.finalizing = false) (h : TF w.events) : TF (step c w).events := by
  unfold step
  split
  · exact h
  · exact h
  · split
    · exact h
    · exact unwindFrame_tf c _ _ h
  · split
    · exact h
    · rename_i f rest hs
      apply stepFrame_tf
      · intro hq
        have : nt w.stack := by rw [hs]; rw [hs] at ht; exact nt_of_top ht hq
        exact isTracing_false_of_nt c w hf this hnf
      · intro he
        subst he
        exact isTracing_true_of_pass c w rest hs hf hwf
      · exact h

/-- **C12, first sentence, every reachable world**: in the log of the current top-level operation every `trace` event was
emitted with `is_tracing() = true`, and every `finalize`, `drop` and cleaning-`action` event with `is_tracing() = false`. -/
theorem reachable_tf {c : Cfg} {nH nW nK : Nat} {w : World} (h : Reachable c nH nW nK w) : TF w.events := by
  induction h with
  | init => rfl
  | step w hr ih =>
    have ha := reachable_all c nH nW nK w hr
    exact step_tf c w (reachable_tOk hr) ha.flags ha.inv.wf (fun hc => (reachable_nf hc hr).1) ih
  | top w op _ hs hm ih => rfl

end RustCc
