import RustCcModel.Proofs.Helpers
/-! **I6 — the flags are the stack.** Reading the guard frames bottom-up from `(false,false,false)`
reproduces `(collecting, finalizing, dropping)`, in running and in unwinding mode. Hence an idle
machine (empty stack) has all three flags false, whatever happened before — including any number
of caught panics. -/
namespace RustCc
open World

abbrev Flags := Bool × Bool × Bool   -- collecting, finalizing, dropping

/-- Flags in force when frame `f` is on top of a stack whose remainder yields `below`
(`none`: the saved values of a guard frame do not match what is below it). -/
def Frame.flags (f : Frame) (below : Flags) : Option Flags :=
  match f with
  | .dropCcAfterFin _ oldFin => if below.2.1 = oldFin then some (below.1, true, below.2.2) else none
  | .afterDropValue _ oldDrop => if below.2.2 = oldDrop then some (below.1, below.2.1, true) else none
  | .collectLoop _ oldFin oldDrop =>
    if below.1 = false ∧ below.2.1 = oldFin ∧ below.2.2 = oldDrop then some (true, false, false) else none
  | .finalizePass _ _ _ oldFin => if below.2.1 = oldFin then some (below.1, true, below.2.2) else none
  | .deallocDrop _ _ oldDrop => if below.2.2 = oldDrop then some (below.1, below.2.1, true) else none
  | _ => some below

def expected : List Frame → Option Flags
  | [] => some (false, false, false)
  | f :: rest => (expected rest).bind f.flags

def World.flags (w : World) : Flags := (w.collecting, w.finalizing, w.dropping)

/-- The invariant. -/
def FlagsOk (w : World) : Prop := expected w.stack = some w.flags

/-- Frames that hold no flag guard. -/
def Frame.neutral : Frame → Bool
  | .dropCcAfterFin .. | .afterDropValue .. | .collectLoop .. | .finalizePass .. | .deallocDrop .. => false
  | _ => true

theorem Frame.flags_neutral (f : Frame) (h : f.neutral = true) (b : Flags) : f.flags b = some b := by
  cases f <;> simp_all [Frame.neutral, Frame.flags]

theorem expected_cons_neutral (f : Frame) (rest : List Frame) (h : f.neutral = true) :
    expected (f :: rest) = expected rest := by
  simp only [expected]
  cases expected rest with
  | none => rfl
  | some b => simp [Frame.flags_neutral f h]

/-- Pushing a neutral frame / changing anything but flags and stack preserves the invariant. -/
theorem FlagsOk.of_ctl {w w' : World} (h : FlagsOk w) (hc : SameCtl w w') : FlagsOk w' := by
  unfold FlagsOk World.flags at *
  rw [hc.stack, hc.collecting, hc.finalizing, hc.dropping]; exact h

theorem FlagsOk.push_neutral {w : World} (h : FlagsOk w) (f : Frame) (hn : f.neutral = true) : FlagsOk (w.push f) := by
  unfold FlagsOk at *
  simp only [push_stack, expected_cons_neutral f _ hn]
  exact h

theorem FlagsOk.pushes {w w' : World} (fs : List Frame) (h : FlagsOk w) (hn : ∀ f ∈ fs, f.neutral = true)
    (hs : w'.stack = fs ++ w.stack) (hf : w'.flags = w.flags) : FlagsOk w' := by
  unfold FlagsOk at *
  rw [hs, hf]
  clear hs hf
  induction fs with
  | nil => exact h
  | cons f r ih =>
    simp only [List.cons_append]
    rw [expected_cons_neutral f _ (hn f (List.mem_cons_self ..))]
    exact ih (fun g hg => hn g (List.mem_cons_of_mem _ hg))

/-- How a world relates to another: same flags, stack = some neutral frames on top of the other's. -/
structure Ext (w w' : World) : Prop where
  ex : ∃ fs : List Frame, (∀ f ∈ fs, f.neutral = true) ∧ w'.stack = fs ++ w.stack
  flags : w'.flags = w.flags

theorem Ext.refl (w : World) : Ext w w := ⟨⟨[], by simp, by simp⟩, rfl⟩
theorem Ext.trans {a b c : World} (h1 : Ext a b) (h2 : Ext b c) : Ext a c := by
  obtain ⟨⟨f1, n1, s1⟩, e1⟩ := h1
  obtain ⟨⟨f2, n2, s2⟩, e2⟩ := h2
  refine ⟨⟨f2 ++ f1, ?_, ?_⟩, e2.trans e1⟩
  · intro f hf; rcases List.mem_append.1 hf with h | h
    · exact n2 f h
    · exact n1 f h
  · rw [s2, s1, List.append_assoc]
theorem Ext.of_ctl {w w' : World} (h : SameCtl w w') : Ext w w' :=
  ⟨⟨[], by simp, by simp [h.stack]⟩, by simp [World.flags, h.collecting, h.finalizing, h.dropping]⟩
theorem Ext.push (w : World) (f : Frame) (hn : f.neutral = true) : Ext w (w.push f) :=
  ⟨⟨[f], by simpa using hn, by simp⟩, rfl⟩
theorem FlagsOk.ext {w w' : World} (h : FlagsOk w) (e : Ext w w') : FlagsOk w' := by
  obtain ⟨⟨fs, hn, hs⟩, hf⟩ := e
  exact FlagsOk.pushes fs h hn hs hf

/-- Changing only `ret`, `mode`, tables, counters, fault plan keeps `Ext`. -/
theorem Ext.of_eq {w w' : World} (hs : w'.stack = w.stack) (h1 : w'.collecting = w.collecting)
    (h2 : w'.finalizing = w.finalizing) (h3 : w'.dropping = w.dropping) : Ext w w' :=
  Ext.of_ctl ⟨hs, h1, h2, h3⟩

theorem raise_ext (w : World) : Ext w w.raise := by
  unfold raise; split <;> exact Ext.of_eq rfl rfl rfl rfl

theorem raiseLogged_ext (w : World) : Ext w w.raiseLogged :=
  (Ext.of_ctl (emit_ctl w _)).trans (raise_ext _)

/-- Beginning of a collection from a world that is not collecting. -/
theorem startCollect_ok (w : World) (h : FlagsOk w) (hc : w.collecting = false) : FlagsOk w.startCollect := by
  unfold FlagsOk at *
  unfold startCollect
  simp only [push_stack, emit_stack, expected, h, World.flags, Option.bind, Frame.flags, hc]
  simp [push, emit]

end RustCc
