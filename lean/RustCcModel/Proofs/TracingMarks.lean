import RustCcModel.T1.FinalComplete
import RustCcModel.Proofs.TracingF
import RustCcModel.Proofs.TracingMarksP2
/-! Mark characterisation of the tracing phases: (a) a completed instrumented run is the pure run,
(b) marks after a completed pass, (c) marks after a pass that panicked and was unwound.

No hypothesis was added to the three statements.  Helper lemmas live in `TracingMarksBase`
(frame relation, guards, case analysis of the F-functions), `TracingMarksP1` (counting phase) and
`TracingMarksP2` (root phase mark invariant `M2`). -/
namespace RustCc
open T1

/-- (a) Whatever the fault plan, a completed run computed exactly the pure phases. -/
theorem tracePhasesF_done_eq (user : Nat → Bool) (fuel : Nat) (h0 : Heap) (P : List Nat) (fault : Option (Nat × Nat))
    (s : FS) (f' : Option (Nat × Nat)) (h : tracePhasesF user fuel h0 P fault = (.done s, f')) :
    s.ts = tracePhases fuel h0 P := by
  unfold tracePhasesF at h
  simp only at h
  generalize hr1 : countPCF user { ts := { h := h0 }, fault := fault } P = r1 at h
  obtain ⟨b1, s1, rest1⟩ := r1
  cases b1
  · simp only at h
    generalize hr2 : countQueueF user fuel s1 = r2 at h
    obtain ⟨b2, s2⟩ := r2
    cases b2
    · simp only at h
      generalize hr3 : rootsListF user { s2 with ts := { s2.ts with root := [] } } s2.ts.root = r3 at h
      obtain ⟨b3, s3, rest3⟩ := r3
      cases b3
      · simp only at h
        generalize hr4 : rootsQueueF user fuel s3 = r4 at h
        obtain ⟨b4, s4⟩ := r4
        cases b4
        · simp only at h
          injection h with h1 _
          injection h1 with h1
          subst h1
          have e1 := countPCF_false user P _ s1 rest1 hr1
          have e2 := countQueueF_false user fuel s1 s2 hr2
          have e3 := rootsListF_false user _ _ s3 rest3 hr3
          have e4 := rootsQueueF_false user fuel s3 s4 hr4
          unfold tracePhases
          simp only []
          rw [e4, e3]
          simp only []
          rw [e2, e1]
        · simp only at h
          injection h with h1 _
          cases h1
      · simp only at h
        injection h with h1 _
        cases h1
    · simp only at h
      injection h with h1 _
      cases h1
  · simp only at h
    injection h with h1 _
    cases h1

/-- (b) Marks after a completed collection pass: exactly the non-root list is marked `InList`, everything else
is unmarked; counts and edges are untouched. -/
theorem tracePhases_marks (fuel : Nat) (h0 : Heap) (P : List Nat) (objs : List Nat)
    (ctx : Ctx h0 (fun u => u ∈ objs))
    (hmark : ∀ x, ((h0 x).mark = .pc ↔ x ∈ P) ∧ ((h0 x).mark = .pc ∨ (h0 x).mark = .non))
    (htc : ∀ x ∈ P, (h0 x).tc = 0) (hPn : P.Nodup) (hPs : ∀ u ∈ P, u ∈ objs) (hfuel : objs.length ≤ fuel) :
    let s := tracePhases fuel h0 P
    (∀ x, (s.h x).mark = .inList ↔ x ∈ s.nonroot) ∧
    (∀ x, (s.h x).mark = .inList ∨ (s.h x).mark = .non) ∧
    s.nonroot.Nodup ∧ s.queue = [] ∧
    (∀ x, (s.h x).rc = (h0 x).rc ∧ (s.h x).edges = (h0 x).edges ∧ (s.h x).uedges = (h0 x).uedges) := by
  obtain ⟨d0, hd0⟩ := countPC_P1x h0 _ ctx P { h := h0 } [] (init_P1x h0 _ P hmark htc) hPn hPs
  obtain ⟨done, hd⟩ := countQueue_P1x h0 _ ctx fuel _ d0 hd0
  have hq1 := countQueue_drains h0 objs ctx fuel _ d0 hd0 (by omega)
  have hfr1 : Fr h0 (countQueue fuel (countPC { h := h0 } P)).h :=
    Fr.trans (a := h0) (countPC_Fr P { h := h0 }) (countQueue_Fr fuel _)
  have hF : tracePhases fuel h0 P =
      rootsQueue fuel (rootsList { countQueue fuel (countPC { h := h0 } P) with root := [] }
        (countQueue fuel (countPC { h := h0 } P)).root) := by
    unfold tracePhases; rfl
  rw [hF]
  generalize hs1 : countQueue fuel (countPC { h := h0 } P) = s1 at hd hq1 hfr1
  have hi2 := init_P2 s1 done hd.inv hq1
  obtain ⟨V1, hv1, _, _, hmeas⟩ :=
    rootsList_P2' s1.h done s1.root s1.root { s1 with root := [] } [] hi2 (by simp)
      (by simp [hq1]) (fun u hu => ⟨u, hu, .refl u⟩)
  have hlen1 : s1.nonroot.length ≤ done.length :=
    hd.inv.nonrootNodup.length_le_of_subset (fun u hu => ((hd.inv.nonroot u).1 hu).1)
  have hlen2 : done.length ≤ objs.length := hd.doneNodup.length_le_of_subset hd.doneL
  have hq2 := rootsQueue_drains s1.h done fuel _ V1 hv1 (by
    rw [hmeas]; simp only [hq1, List.length_nil]; omega)
  have hm := rootsQueue_M2 [] fuel _ (rootsList_M2 s1.root _ (M2_init s1 done hd.inv))
  have hfr2 : Fr s1.h (rootsQueue fuel (rootsList { s1 with root := [] } s1.root)).h :=
    Fr.trans (a := s1.h) (rootsList_Fr s1.root { s1 with root := [] }) (rootsQueue_Fr fuel _)
  generalize hsF : rootsQueue fuel (rootsList { s1 with root := [] } s1.root) = sF at hm hq2 hfr2
  intro s
  refine ⟨?_, ?_, hm.nrNodup, hq2, fun x => (hfr1.trans hfr2) x⟩
  · intro x
    constructor
    · intro h
      rcases (hm.mList x).1 h with h | h
      · exact h
      · cases h
    · intro h; exact (hm.mList x).2 (Or.inl h)
  · intro x
    cases hmk : (sF.h x).mark with
    | non => exact Or.inr rfl
    | pc => exact absurd hmk (hm.noPc x)
    | inList => exact Or.inl rfl
    | inQueue =>
      have := (hm.mQueue x).1 hmk
      rw [hq2] at this; cases this

/-- Reading the result of an unwound pass off `PanOK`. -/
theorem panicked_finish (h0 : Heap) (t : TS) (extra rest P : List Nat) (hp : PanOK h0 t extra rest)
    (hn : rest.Nodup) (hs : ∀ z ∈ rest, z ∈ P) (h : Heap) (pcRest : List Nat)
    (e1 : resetTc (unmarkAll t.h (t.queue ++ t.root ++ extra ++ t.nonroot)) rest = h)
    (e2 : rest = pcRest) :
    (∀ x, (h x).mark = .pc ↔ x ∈ pcRest) ∧
    (∀ x, (h x).mark = .pc ∨ (h x).mark = .non) ∧
    pcRest.Nodup ∧ (∀ x ∈ pcRest, x ∈ P) ∧
    (∀ x ∈ pcRest, (h x).tc = 0) ∧
    (∀ x, (h x).rc = (h0 x).rc ∧ (h x).edges = (h0 x).edges ∧ (h x).uedges = (h0 x).uedges) := by
  subst e1; subst e2
  obtain ⟨a, b, c, d⟩ := PanOK_final h0 t extra rest hp
  exact ⟨a, b, hn, hs, c, d⟩

-- `hfuel` is part of the required statement but not needed by the proof (no queue has to drain here).
set_option linter.unusedVariables false in
/-- (c) Marks after a pass that panicked: exactly the objects still buffered are marked `PossibleCycles`, with
tracing counter 0; everything else is unmarked. -/
theorem tracePhasesF_panicked_marks (user : Nat → Bool) (fuel : Nat) (h0 : Heap) (P : List Nat) (fault : Option (Nat × Nat))
    (objs : List Nat) (ctx : Ctx h0 (fun u => u ∈ objs))
    (hmark : ∀ x, ((h0 x).mark = .pc ↔ x ∈ P) ∧ ((h0 x).mark = .pc ∨ (h0 x).mark = .non))
    (htc : ∀ x ∈ P, (h0 x).tc = 0) (hPn : P.Nodup) (hPs : ∀ u ∈ P, u ∈ objs) (hfuel : objs.length ≤ fuel)
    (h : Heap) (pcRest log : List Nat) (f' : Option (Nat × Nat))
    (hr : tracePhasesF user fuel h0 P fault = (.panicked h pcRest log, f')) :
    (∀ x, (h x).mark = .pc ↔ x ∈ pcRest) ∧
    (∀ x, (h x).mark = .pc ∨ (h x).mark = .non) ∧
    pcRest.Nodup ∧ (∀ x ∈ pcRest, x ∈ P) ∧
    (∀ x ∈ pcRest, (h x).tc = 0) ∧
    (∀ x, (h x).rc = (h0 x).rc ∧ (h x).edges = (h0 x).edges ∧ (h x).uedges = (h0 x).uedges) := by
  have hi := init_P1x h0 (fun u => u ∈ objs) P hmark htc
  unfold tracePhasesF at hr
  simp only at hr
  generalize hr1 : countPCF user { ts := { h := h0 }, fault := fault } P = r1 at hr
  obtain ⟨b1, s1, rest1⟩ := r1
  cases b1
  · simp only at hr
    have e1 := countPCF_false user P _ s1 rest1 hr1
    obtain ⟨d0, hd0⟩ := countPC_P1x h0 _ ctx P { h := h0 } [] hi hPn hPs
    have hd0' : P1x h0 (fun u => u ∈ objs) s1.ts d0 [] := by rw [e1]; exact hd0
    have hf1 : Fr h0 s1.ts.h := by rw [e1]; exact countPC_Fr P { h := h0 }
    generalize hr2 : countQueueF user fuel s1 = r2 at hr
    obtain ⟨b2, s2⟩ := r2
    cases b2
    · simp only at hr
      have e2 := countQueueF_false user fuel s1 s2 hr2
      obtain ⟨done, hd⟩ := countQueue_P1x h0 _ ctx fuel s1.ts d0 hd0'
      have hd' : P1x h0 (fun u => u ∈ objs) s2.ts done [] := by rw [e2]; exact hd
      have hf2 : Fr h0 s2.ts.h := by rw [e2]; exact hf1.trans (countQueue_Fr fuel _)
      have hm2 := M2_init s2.ts done hd'.inv
      generalize hr3 : rootsListF user { s2 with ts := { s2.ts with root := [] } } s2.ts.root = r3 at hr
      obtain ⟨b3, s3, rest3⟩ := r3
      cases b3
      · simp only at hr
        have e3 := rootsListF_false user _ _ s3 rest3 hr3
        have hm3 : M2 s3.ts [] := by rw [e3]; exact rootsList_M2 _ _ hm2
        have hf3 : Fr h0 s3.ts.h := by
          rw [e3]; exact Fr.trans (b := s2.ts.h) hf2 (rootsList_Fr _ _)
        generalize hr4 : rootsQueueF user fuel s3 = r4 at hr
        obtain ⟨b4, s4⟩ := r4
        cases b4
        · simp only at hr
          injection hr with h1 _
          cases h1
        · simp only at hr
          have hp := rootsQueueF_true h0 user [] fuel s3 hm3 hf3 s4 hr4
          injection hr with h1 _
          injection h1 with ha hb _
          exact panicked_finish h0 s4.ts [] [] P hp List.nodup_nil (fun z hz => by cases hz) h pcRest ha hb
      · simp only at hr
        have hp := rootsListF_true h0 user s2.ts.root { s2 with ts := { s2.ts with root := [] } } hm2 hf2 s3 rest3 hr3
        injection hr with h1 _
        injection h1 with ha hb _
        exact panicked_finish h0 s3.ts rest3 [] P hp List.nodup_nil (fun z hz => by cases hz) h pcRest ha hb
    · simp only at hr
      have hp := countQueueF_true h0 _ ctx user [] fuel s1 d0 hd0' hf1 s2 hr2
      injection hr with h1 _
      injection h1 with ha hb _
      exact panicked_finish h0 s2.ts [] [] P hp List.nodup_nil (fun z hz => by cases hz) h pcRest ha hb
  · simp only at hr
    obtain ⟨hp, hn, hsub⟩ := countPCF_true h0 _ ctx user P _ [] hi (Fr.refl h0) hPn hPs s1 rest1 hr1
    injection hr with h1 _
    injection h1 with ha hb _
    exact panicked_finish h0 s1.ts [] rest1 P hp hn hsub h pcRest ha hb

end RustCc
