#!/usr/bin/env python3
"""gen_profile.py <PROP> <seed> <n> [feat]: print n programs generated with the profile the check of <PROP> uses
(for feeding lean/.lake/build/bin/checkinv, which evaluates the executable invariants after every micro-step)."""
import random
import sys
import os
sys.path.insert(0, os.path.dirname(os.path.abspath(__file__)))
import framework
import gen

prop, seed, n = sys.argv[1], int(sys.argv[2]), int(sys.argv[3])
feat = framework.F_ALL
if len(sys.argv) > 4:
    feat = {k: int(v) for k, v in (x.split("=") for x in sys.argv[4].split(","))}
prof = framework.profile_for(prop, feat)
g = gen.Gen(random.Random(seed), prof, {"node": 168, "map": 80}, "passcap=10 thr=100 rcmax=16382 weakmax=32767 tcinit=1")
for i in range(n):
    print("\n".join(g.program("%s-%d-%d" % (prop, seed, i))))
