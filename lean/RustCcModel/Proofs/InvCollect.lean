import RustCcModel.Proofs.InvFrames0
import RustCcModel.Proofs.TracingMarks
/-! The collection pass (`collectPass`): from `Counts` the reference counts are exact up to leaks, so the graph theorem
T1 applies to every reachable world; the marks after the pass (or after its unwinding) re-establish `Inv`; and the
reclaim candidates have no pointer from the program, from any frame or from any untraced or dead field. -/
namespace RustCc
open World
open T1 (Mark)

/-! ### `Counts` ⇒ the hypotheses of the graph theorems -/

theorem count_filterMap_cap (l : List (Option Action)) (y : Id) :
    (l.filterMap (fun a => a.bind (·.cap))).count y = (l.flatMap actIds).count y := by
  induction l with
  | nil => simp
  | cons a r ih =>
    cases a with
    | none => simpa [List.filterMap_cons, actIds] using ih
    | some a =>
      cases hcap : a.cap with
      | none => simpa [List.filterMap_cons, actIds, hcap] using ih
      | some z => simp [List.filterMap_cons, actIds, hcap, List.count_cons, ih]

/-- The edges the tracing model sees out of an object are among its pointer fields. -/
theorem toT1_edges_count_le (w : World) (u y : Id) :
    (toT1 w u).edges.count y + (toT1 w u).uedges.count y ≤ (fieldsOf (w.heap u)).count y := by
  unfold toT1 fieldsOf optIds
  simp only [List.count_append]
  cases hk : (w.heap u).kind with
  | node =>
    by_cases hv : (w.heap u).valLive = true
    · simp [hv]; omega
    · simp [hv]; omega
  | map =>
    simp only [reduceCtorEq, and_false, if_false, List.count_nil, Nat.zero_add]
    rw [count_filterMap_cap]; omega

theorem sum_le_sum (f g : Nat → Nat) (l : List Nat) (h : ∀ u ∈ l, f u ≤ g u) : (l.map f).sum ≤ (l.map g).sum := by
  induction l with
  | nil => simp
  | cons a r ih =>
    simp only [List.map_cons, List.sum_cons]
    have := h a (List.mem_cons_self ..)
    have := ih (fun u hu => h u (List.mem_cons_of_mem _ hu))
    omega

theorem sum_add (f g : Nat → Nat) (l : List Nat) : (l.map f).sum + (l.map g).sum = (l.map fun u => f u + g u).sum := by
  induction l with
  | nil => simp
  | cons a r ih => simp only [List.map_cons, List.sum_cons]; omega

/-- Internal references to `x` as the tracing model counts them. -/
def internal (w : World) (x : Id) : Nat :=
  ((List.range w.next).map fun u => (toT1 w u).edges.count x).sum + ((List.range w.next).map fun u => (toT1 w u).uedges.count x).sum

theorem internal_le_fieldRefs (w : World) (x : Id) : internal w x ≤ fieldRefs w x := by
  unfold internal fieldRefs
  rw [sum_add]
  exact sum_le_sum _ _ _ (fun u _ => toT1_edges_count_le w u x)

/-- **Counts are exact up to leaks**: with `ext x := rc x − internal references`, the heap satisfies the hypothesis
`Exact` of the graph theorems, for every world in which `Counts` holds. -/
theorem exact_of_counts (w : World) (hc : Counts w) :
    T1.Exact (toT1 w) (List.range w.next) (fun x => (w.heap x).rc - internal w x) := by
  refine ⟨List.nodup_range, ?_, ?_⟩
  · intro u hu y hy
    exact List.mem_range.2 (field_lt hc (List.mem_range.1 hu) (toT1_edges_sub w u y hy))
  · intro x
    have h1 := internal_le_fieldRefs w x
    have h2 := hc.le x
    have h3 : fieldRefs w x ≤ refs w x := by unfold refs; omega
    show (w.heap x).rc = (w.heap x).rc - internal w x + _ + _
    unfold internal at h1 ⊢
    omega

/-! ### No collector list below an idle collector -/

theorem listed_nil_of_expected : ∀ (st : List Frame) (fl : Flags), expected st = some fl → stackWF st = true → fl.1 = false →
    listed st = []
  | [], _, _, _, _ => rfl
  | f :: rest, fl, he, hwf, hfl => by
    have hwf' := stackWF_tail hwf
    simp only [expected] at he
    cases hb : expected rest with
    | none => simp [hb] at he
    | some b =>
      simp only [hb, Option.bind] at he
      have hpass : f.isPass = false := by
        cases hp : f.isPass with
        | false => rfl
        | true =>
          exfalso
          simp only [stackWF, hp, if_true, Bool.and_eq_true] at hwf
          cases rest with
          | nil => simp at hwf
          | cons g r =>
            have hg : g.isLoop = true := hwf.1
            cases g <;> simp [Frame.isLoop] at hg
            rename_i n oF oD
            obtain ⟨_, hbb⟩ := expected_guard_collect hb
            subst hbb
            cases f <;> simp [Frame.isPass] at hp <;> simp [Frame.flags] at he
            all_goals first
              | (subst he; simp at hfl)
              | (obtain ⟨_, he⟩ := he; subst he; simp at hfl)
      have hl : f.listed = [] := by cases f <;> simp [Frame.isPass] at hpass <;> rfl
      have hb1 : b.1 = false := by
        cases f <;> simp [Frame.flags] at he
        all_goals first
          | (subst he; exact hfl)
          | (obtain ⟨_, he⟩ := he; subst he; first | exact hfl | simp at hfl)
      rw [listed_cons, hl, List.nil_append]
      exact listed_nil_of_expected rest b hb hwf' hb1

/-- Below the frame of a collection pass there is the `collect` frame and no collector list. -/
theorem listed_below_pass {rest : List Frame} {fl : Flags} (he : expected rest = some fl)
    (hwf : stackWF (Frame.collectPass :: rest) = true) : listed rest = [] := by
  simp only [stackWF, Frame.isPass, if_true, Bool.and_eq_true] at hwf
  cases rest with
  | nil => simp at hwf
  | cons g r =>
    have hg : g.isLoop = true := hwf.1
    cases g <;> simp [Frame.isLoop] at hg
    rename_i n oF oD
    obtain ⟨hb, _⟩ := expected_guard_collect he
    rw [listed_cons]
    show [] ++ listed r = []
    rw [List.nil_append]
    exact listed_nil_of_expected r _ hb (stackWF_tail hwf.2) rfl

/-! ### The reclaim candidates of a pass are unreferenced (T1 on every world with `Counts`) -/

theorem hmark_of_oi {w : World} {Z Cy : List Id} (h : WOI w [] Z Cy) :
    ∀ x, (((toT1 w) x).mark = .pc ↔ x ∈ w.pc) ∧ (((toT1 w) x).mark = .pc ∨ ((toT1 w) x).mark = .non) := by
  intro x
  have e : ((toT1 w) x).mark = (w.cores x).mark := rfl
  rw [e]
  refine ⟨h.mPc x, ?_⟩
  cases hm : (w.cores x).mark with
  | non => exact Or.inr rfl
  | pc => exact Or.inl rfl
  | inList => have := (h.mList x).1 hm; cases this
  | inQueue => exact absurd hm (h.noQueue x)

/-- **C01 at the level of one collection pass, for every world satisfying the invariants**: an object the pass is
about to reclaim is referenced by no table entry, no stashed clone, no frame (no temporary of running code), no
untraced field and no field of a dead value; every pointer to it is a traced field of another candidate. -/
theorem candidates_unreferenced (w : World) (hc : Counts w) {Z Cy : List Id} (hoi : WOI w [] Z Cy) :
    ∀ x ∈ (T1.tracePhases w.next (toT1 w) w.pc).nonroot,
      (optIds w.H).count x = 0 ∧ w.stash x = 0 ∧ (held w.stack).count x = 0 ∧ fieldRefs w x = internal w x ∧
      (∀ u, u < w.next → x ∉ (toT1 w u).uedges) ∧
      (∀ u, u < w.next → x ∈ (toT1 w u).edges → u ∈ (T1.tracePhases w.next (toT1 w) w.pc).nonroot) := by
  intro x hx
  have hex := exact_of_counts w hc
  have htc : ∀ x ∈ w.pc, ((toT1 w) x).tc = 0 := fun y hy => hoi.tc0 y hy
  have hPs : ∀ u ∈ w.pc, u ∈ List.range w.next := fun u hu => List.mem_range.2 (hc.pcb u hu)
  have key := T1.tracePhases_safe_fuel (toT1 w) (List.range w.next) _ w.pc w.next hex (hmark_of_oi hoi) htc hoi.pcNodup hPs
    (by simp) x hx
  obtain ⟨hext, hu, he⟩ := key
  have h1 := internal_le_fieldRefs w x
  have h2 := hc.le x
  have hr : refs w x = (optIds w.H).count x + w.stash x + (held w.stack).count x + fieldRefs w x := rfl
  have hext' : (w.heap x).rc ≤ internal w x := by
    have : (w.heap x).rc - internal w x = 0 := hext
    omega
  refine ⟨by omega, by omega, by omega, by omega, ?_, ?_⟩
  · intro u hul; exact hu u (List.mem_range.2 hul)
  · intro u hul; exact he u (List.mem_range.2 hul)

theorem sum_eq_pointwise (f g : Nat → Nat) : ∀ (l : List Nat), (∀ u ∈ l, f u ≤ g u) → (l.map f).sum = (l.map g).sum →
    ∀ u ∈ l, f u = g u
  | [], _, _ => fun u hu => by cases hu
  | a :: r, hle, hs => by
    simp only [List.map_cons, List.sum_cons] at hs
    have h1 := hle a (List.mem_cons_self ..)
    have h2 := sum_le_sum f g r (fun u hu => hle u (List.mem_cons_of_mem _ hu))
    have ih := sum_eq_pointwise f g r (fun u hu => hle u (List.mem_cons_of_mem _ hu)) (by omega)
    intro u hu
    rcases List.mem_cons.1 hu with e | e
    · subst e; omega
    · exact ih u e

/-- Every pointer to a candidate sits in a traced field of the live value of another candidate. -/
theorem candidates_field_owner (w : World) (hc : Counts w) {Z Cy : List Id} (hoi : WOI w [] Z Cy) (x : Id)
    (hx : x ∈ (T1.tracePhases w.next (toT1 w) w.pc).nonroot) (u : Id) (hu : u < w.next) (hm : x ∈ fieldsOf (w.heap u)) :
    u ∈ (T1.tracePhases w.next (toT1 w) w.pc).nonroot ∧ x ∈ (toT1 w u).edges := by
  obtain ⟨_, _, _, hfr, hue, hed⟩ := candidates_unreferenced w hc hoi x hx
  have hpw := sum_eq_pointwise (fun u => (toT1 w u).edges.count x + (toT1 w u).uedges.count x)
    (fun u => (fieldsOf (w.heap u)).count x) (List.range w.next) (fun u _ => toT1_edges_count_le w u x)
    (by
      have : internal w x = ((List.range w.next).map fun u => (toT1 w u).edges.count x + (toT1 w u).uedges.count x).sum := by
        unfold internal; rw [sum_add]
      unfold fieldRefs at hfr
      rw [← this]; exact hfr.symm) u (List.mem_range.2 hu)
  have h0 : (toT1 w u).uedges.count x = 0 := List.count_eq_zero.2 (hue u hu)
  have hpos := count_pos_of_mem hm
  have he : x ∈ (toT1 w u).edges := by
    apply List.count_pos_iff.1
    omega
  exact ⟨hed u hu he, he⟩

/-- A pointer held by a frame is not a candidate. -/
theorem candidates_not_held (w : World) (hc : Counts w) {Z Cy : List Id} (hoi : WOI w [] Z Cy) (x : Id)
    (hx : x ∈ (T1.tracePhases w.next (toT1 w) w.pc).nonroot) : x ∉ held w.stack := by
  intro hm
  have := (candidates_unreferenced w hc hoi x hx).2.2.1
  have := count_pos_of_mem hm
  omega

theorem pinned_sub_held (st : List Frame) : ∀ x ∈ pinned st, x ∈ held st := by
  induction st with
  | nil => intro x hx; simp [pinned] at hx
  | cons f r ih =>
    intro x hx
    rw [pinned_cons] at hx; rw [held_cons]
    rcases List.mem_append.1 hx with e | e
    · cases f <;> simp [Frame.pinned] at e
      subst e; simp [Frame.holds]
    · exact List.mem_append_right _ (ih x e)

/-! ### `Inv` through the collection pass -/

theorem cores_updAll_neutral' (F : Obj → Obj) (hF : ∀ o, (F o).core = o.core) : ∀ (l : List Id) (w : World),
    (w.updAll l F).cores = w.cores
  | [], _ => rfl
  | x :: l, w => by
    show ((w.upd x F).updAll l F).cores = w.cores
    rw [cores_updAll_neutral' F hF l (w.upd x F), cores_upd_neutral w x F (hF _)]

/-- The object invariant after a pass that ran to completion: the candidates are the collector's list. -/
theorem oi_after_pass {w : World} {Z Cy : List Id} (hoi : WOI w [] Z Cy) (h' : Id → Core) (N : List Id)
    (hsame : ∀ x, (h' x).rc = (w.cores x).rc ∧ (h' x).boxLive = (w.cores x).boxLive ∧ (h' x).valLive = (w.cores x).valLive)
    (m1 : ∀ x, (h' x).mark = .inList ↔ x ∈ N) (m2 : ∀ x, (h' x).mark = .inList ∨ (h' x).mark = .non) (m3 : N.Nodup)
    (hN : ∀ x ∈ N, (w.cores x).boxLive = true ∧ x ∉ Z) : OI h' [] N Z Cy := by
  refine ⟨List.nodup_nil, ?_, ?_, ?_, m1, ?_, ?_, ?_, hoi.cycZ, ?_⟩
  · intro x
    constructor
    · intro hm; rcases m2 x with e | e <;> rw [e] at hm <;> cases hm
    · intro hm; cases hm
  · intro x hx; cases hx
  · intro x hm; rcases m2 x with e | e <;> rw [e] at hm <;> cases hm
  · intro x hd
    rw [(hsame x).2.1] at hd
    refine ⟨by rw [(hsame x).1]; exact (hoi.dead x hd).1, ?_⟩
    rcases m2 x with e | e
    · have := (hN x ((m1 x).1 e)).1; rw [hd] at this; cases this
    · exact e
  · intro x hz
    refine ⟨by rw [(hsame x).2.1]; exact (hoi.zero x hz).1, by rw [(hsame x).1]; exact (hoi.zero x hz).2.1, ?_⟩
    rcases m2 x with e | e
    · exact absurd hz (hN x ((m1 x).1 e)).2
    · exact e
  · intro x hx; rw [(hsame x).2.2]; exact hoi.cyc x hx
  · have hZ : Z.Nodup := by simpa using hoi.ownNodup
    exact List.nodup_append.2 ⟨hZ, m3, fun a ha b hb e => (hN b hb).2 (e ▸ ha)⟩

/-- … and after a pass that panicked and was unwound: the objects still buffered, nothing else marked. -/
theorem oi_after_panic {w : World} {Z Cy : List Id} (hoi : WOI w [] Z Cy) (h' : Id → Core) (pcRest : List Id)
    (hsame : ∀ x, (h' x).rc = (w.cores x).rc ∧ (h' x).boxLive = (w.cores x).boxLive ∧ (h' x).valLive = (w.cores x).valLive)
    (m1 : ∀ x, (h' x).mark = .pc ↔ x ∈ pcRest) (m2 : ∀ x, (h' x).mark = .pc ∨ (h' x).mark = .non) (m3 : pcRest.Nodup)
    (m4 : ∀ x ∈ pcRest, x ∈ w.pc) (m5 : ∀ x ∈ pcRest, (h' x).tc = 0) : OI h' pcRest [] Z Cy := by
  have hold : ∀ x ∈ pcRest, (w.cores x).mark = .pc := fun x hx => (hoi.mPc x).2 (m4 x hx)
  refine ⟨m3, m1, m5, ?_, ?_, ?_, ?_, ?_, hoi.cycZ, hoi.ownNodup⟩
  · intro x hm; rcases m2 x with e | e <;> rw [e] at hm <;> cases hm
  · intro x
    constructor
    · intro hm; rcases m2 x with e | e <;> rw [e] at hm <;> cases hm
    · intro hm; cases hm
  · intro x hd
    rw [(hsame x).2.1] at hd
    refine ⟨by rw [(hsame x).1]; exact (hoi.dead x hd).1, ?_⟩
    rcases m2 x with e | e
    · have := hold x ((m1 x).1 e); rw [(hoi.dead x hd).2] at this; cases this
    · exact e
  · intro x hz
    refine ⟨by rw [(hsame x).2.1]; exact (hoi.zero x hz).1, by rw [(hsame x).1]; exact (hoi.zero x hz).2.1, ?_⟩
    rcases m2 x with e | e
    · have := hold x ((m1 x).1 e); rw [(hoi.zero x hz).2.2] at this; cases this
    · exact e
  · intro x hx; rw [(hsame x).2.2]; exact hoi.cyc x hx

theorem OI.congr2 {h h' : Id → Core} {pc pc' L Z Cy : List Id} (hi : OI h pc L Z Cy) (he : ∀ y, h' y = h y) (hp : pc' = pc) :
    OI h' pc' L Z Cy := by
  subst hp; exact hi.congr he

theorem held_pop_plain (w : World) (rest : List Frame) : held ({ w with stack := rest } : World).stack = held rest := rfl

/-- The world a collection pass starts from satisfies the hypotheses of the graph theorems: counts, and the object
invariant with an empty collector list. -/
theorem pass_setup (w : World) (rest : List Frame) (hc : Counts w) (hf : FlagsOk w) (hi : Inv w)
    (hs : w.stack = .collectPass :: rest) :
    Counts { w with stack := rest } ∧ WOI { w with stack := rest } [] (zeroed rest) (cycs rest) := by
  obtain ⟨hoi, hwf, _⟩ := hi.popped hs
  have he : expected rest = some (w.collecting, w.finalizing, w.dropping) := by
    have := hf; rw [flagsOk_iff, hs] at this; simpa using this
  have hL : listed rest = [] := listed_below_pass he hwf
  refine ⟨(hc.pop hs).1.toCountsF, ?_⟩
  have : WOI { w with stack := rest } ([] ++ listed rest) ([] ++ zeroed rest) ([] ++ cycs rest) := hoi
  simpa [hL] using this

theorem stepFrame_inv_collectPass (c : Cfg) (w : World) (rest : List Frame) (hc : Counts w) (hf : FlagsOk w) (hi : Inv w)
    (hs : w.stack = .collectPass :: rest) : Inv (stepFrame c { w with stack := rest } .collectPass) := by
  obtain ⟨hoi, hwf, hpin⟩ := hi.popped hs
  have he : expected rest = some (w.collecting, w.finalizing, w.dropping) := by
    have := hf; rw [flagsOk_iff, hs] at this; simpa using this
  have hL : listed rest = [] := listed_below_pass he hwf
  have hwfr : stackWF rest = true := stackWF_tail hwf
  have hoi0 : WOI { w with stack := rest } [] (zeroed rest) (cycs rest) := by
    have : WOI { w with stack := rest } ([] ++ listed rest) ([] ++ zeroed rest) ([] ++ cycs rest) := hoi
    simpa [hL] using this
  have hc0 : Counts { w with stack := rest } := (hc.pop hs).1.toCountsF
  -- hypotheses of the graph theorems
  have hex := exact_of_counts { w with stack := rest } hc0
  have ctx := T1.ctx_of_exact _ _ _ hex
  have hmark := hmark_of_oi hoi0
  have htc : ∀ x ∈ w.pc, ((toT1 { w with stack := rest }) x).tc = 0 := fun y hy => hoi0.tc0 y hy
  have hPs : ∀ u ∈ w.pc, u ∈ List.range w.next := fun u hu => List.mem_range.2 (hc.pcb u hu)
  -- the work lists stay among live, allocated boxes that no frame owns with count 0
  have hb := tracePhasesF_bound (P := fun x => x < w.next ∧ (w.heap x).boxLive = true ∧ x ∉ zeroed rest)
    (fun i => decide ((w.heap i).kind = .node)) w.next (toT1 { w with stack := rest }) w.pc w.fTrace
    (by
      intro x hx y hy
      have hyf := toT1_edges_sub _ x y hy
      have hr : (w.heap y).rc ≠ 0 := field_rc hc0 hx.1 hyf
      exact ⟨field_lt hc0 hx.1 hyf, OI.boxLive_of_rc hoi0 (x := y) hr, OI.not_mem_Z_of_rc hoi0 (x := y) hr⟩)
    (by
      intro x hx
      have hm : (w.heap x).mark ≠ .non := by
        have := (hoi0.mPc x).2 hx
        show (w.cores x).mark ≠ .non
        have e : (({ w with stack := rest } : World).cores x).mark = (w.cores x).mark := rfl
        rw [← e, this]; simp
      exact ⟨hc.pcb x hx, OI.boxLive_of_mark hoi0 (x := x) hm, OI.not_mem_Z_of_mark hoi0 (x := x) hm⟩)
  have hpm := fun hh pcRest log f' => tracePhasesF_panicked_marks (fun i => decide ((w.heap i).kind = .node)) w.next
    (toT1 { w with stack := rest }) w.pc w.fTrace (List.range w.next) ctx hmark htc hoi0.pcNodup hPs (by simp) hh pcRest log f'
  have hdm := tracePhases_marks w.next (toT1 { w with stack := rest }) w.pc (List.range w.next) ctx hmark htc hoi0.pcNodup hPs (by simp)
  have hde := fun s f' => tracePhasesF_done_eq (fun i => decide ((w.heap i).kind = .node)) w.next
    (toT1 { w with stack := rest }) w.pc w.fTrace s f'
  have hnh := candidates_not_held { w with stack := rest } hc0 hoi0
  simp only [stepFrame]
  generalize tracePhasesF (fun i => decide ((w.heap i).kind = .node)) w.next (toT1 { w with stack := rest }) w.pc w.fTrace = r
    at hb hpm hde ⊢
  obtain ⟨res, fault⟩ := r
  cases res with
  | panicked hh pcRest log =>
    simp only at hb ⊢
    obtain ⟨m1, m2, m3, m4, m5, m6⟩ := hpm hh pcRest log fault rfl
    have hoi' := oi_after_panic hoi0 (fun y => { (w.cores y) with tc := (hh y).tc, mark := (hh y).mark }) pcRest
      (fun x => ⟨rfl, rfl, rfl⟩) m1 m2 m3 m4 m5
    refine ⟨?_, ?_, ?_⟩
    · simp only [stack_raiseLogged, cores_raiseLogged, pc_raiseLogged]
      show OI _ _ (listed rest) (zeroed rest) (cycs rest)
      rw [hL]
      exact OI.congr2 hoi' (fun y => rfl) rfl
    · simp only [stack_raiseLogged]; exact hwfr
    · simp only [stack_raiseLogged]
      show ∀ x ∈ pinned rest, x ∉ listed rest
      rw [hL]; intro x _ hx; cases hx
  | done s =>
    simp only at hb ⊢
    have hseq := hde s fault rfl
    simp only at hdm
    rw [← hseq] at hdm hnh
    obtain ⟨m1, m2, m3, _, m6⟩ := hdm
    have hoi' := oi_after_pass hoi0 (fun y => { (w.cores y) with tc := (s.ts.h y).tc, mark := (s.ts.h y).mark }) s.ts.nonroot
      (fun x => ⟨rfl, rfl, rfl⟩) m1 m2 m3 (fun x hx => ⟨(hb x hx).2.1, (hb x hx).2.2⟩)
    have hpin' : ∀ x ∈ pinned rest, x ∉ s.ts.nonroot ++ listed rest := by
      intro x hx hm
      rw [hL, List.append_nil] at hm
      exact hnh x hm (pinned_sub_held rest x hx)
    split
    · rename_i hemp
      have hN : s.ts.nonroot = [] := List.isEmpty_iff.1 hemp
      rw [hN] at hoi'
      refine ⟨?_, hwfr, ?_⟩
      · show OI _ _ (listed rest) (zeroed rest) (cycs rest)
        rw [hL]; exact OI.congr2 hoi' (fun y => rfl) rfl
      · show ∀ x ∈ pinned rest, x ∉ listed rest
        rw [hL]; intro x _ hx; cases hx
    · have hwf2 : ∀ f : Frame, f.isPass = true → stackWF (f :: rest) = true := by
        intro f hfp
        simp only [stackWF, Frame.isPass, if_true, Bool.and_eq_true] at hwf
        simp only [stackWF, hfp, if_true, Bool.and_eq_true]
        exact hwf
      split
      · refine ⟨?_, hwf2 _ rfl, ?_⟩
        · show OI _ _ (listed (Frame.finalizePass s.ts.nonroot s.ts.nonroot false w.finalizing :: rest))
            (zeroed (Frame.finalizePass s.ts.nonroot s.ts.nonroot false w.finalizing :: rest))
            (cycs (Frame.finalizePass s.ts.nonroot s.ts.nonroot false w.finalizing :: rest))
          rw [listed_cons, zeroed_cons, cycs_cons, hL]
          simp only [Frame.listed, Frame.zeroed, Frame.cyc, List.append_nil, List.nil_append]
          exact OI.congr2 hoi' (fun y => rfl) rfl
        · show ∀ x ∈ pinned (Frame.finalizePass s.ts.nonroot s.ts.nonroot false w.finalizing :: rest),
            x ∉ listed (Frame.finalizePass s.ts.nonroot s.ts.nonroot false w.finalizing :: rest)
          rw [listed_cons, pinned_cons]
          simpa [Frame.listed, Frame.pinned] using hpin'
      · refine ⟨?_, ?_, ?_⟩
        · rw [startDealloc_stack, startDealloc_cores, startDealloc_pc]
          show OI _ _ (listed (Frame.deallocDrop s.ts.nonroot s.ts.nonroot w.dropping :: rest))
            (zeroed (Frame.deallocDrop s.ts.nonroot s.ts.nonroot w.dropping :: rest))
            (cycs (Frame.deallocDrop s.ts.nonroot s.ts.nonroot w.dropping :: rest))
          rw [listed_cons, zeroed_cons, cycs_cons, hL]
          simp only [Frame.listed, Frame.zeroed, Frame.cyc, List.append_nil, List.nil_append]
          exact OI.congr2 hoi' (fun y => rfl) rfl
        · rw [startDealloc_stack]; exact hwf2 (Frame.deallocDrop s.ts.nonroot s.ts.nonroot w.dropping) rfl
        · rw [startDealloc_stack]
          show ∀ x ∈ pinned (Frame.deallocDrop s.ts.nonroot s.ts.nonroot w.dropping :: rest),
            x ∉ listed (Frame.deallocDrop s.ts.nonroot s.ts.nonroot w.dropping :: rest)
          rw [listed_cons, pinned_cons]
          simpa [Frame.listed, Frame.pinned] using hpin'

end RustCc
