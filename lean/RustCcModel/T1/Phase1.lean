import RustCcModel.T1.Defs
namespace T1

/-! ### Case equations and frame lemmas for `countEdge` -/

theorem countEdge_non (s : TS) (y : Nat) (hm : (s.h y).mark = .non) :
    countEdge s y = { s with h := s.h.set y { s.h y with tc := 1, mark := .inQueue }, queue := s.queue ++ [y] } := by
  unfold countEdge; simp [hm]

theorem countEdge_pc (s : TS) (y : Nat) (hm : (s.h y).mark = .pc) :
    countEdge s y = { s with h := s.h.set y { s.h y with tc := (s.h y).tc + 1 } } := by
  unfold countEdge; simp [hm]

theorem countEdge_inQueue (s : TS) (y : Nat) (hm : (s.h y).mark = .inQueue) :
    countEdge s y = { s with h := s.h.set y { s.h y with tc := (s.h y).tc + 1 } } := by
  unfold countEdge; simp [hm]

theorem countEdge_inList_move (s : TS) (y : Nat) (hm : (s.h y).mark = .inList)
    (hr : (s.h y).rc = (s.h y).tc + 1) :
    countEdge s y = { s with h := s.h.set y { s.h y with tc := (s.h y).tc + 1 },
                             root := s.root.erase y, nonroot := y :: s.nonroot } := by
  unfold countEdge; simp [hm, hr]

theorem countEdge_inList_stay (s : TS) (y : Nat) (hm : (s.h y).mark = .inList)
    (hr : (s.h y).rc ≠ (s.h y).tc + 1) :
    countEdge s y = { s with h := s.h.set y { s.h y with tc := (s.h y).tc + 1 } } := by
  unfold countEdge; simp [hm, hr]

/-- Whatever the case, the heap after `countEdge` is the old heap with `y` updated to an object
that has the same `rc`, `edges`, `uedges`. -/
theorem countEdge_heap (s : TS) (y : Nat) :
    ∃ o, (countEdge s y).h = s.h.set y o ∧ o.rc = (s.h y).rc ∧ o.edges = (s.h y).edges ∧
      o.uedges = (s.h y).uedges ∧
      o.tc = (if (s.h y).mark = .non then 1 else (s.h y).tc + 1) ∧
      o.mark = (if (s.h y).mark = .non then .inQueue else (s.h y).mark) := by
  cases hm : (s.h y).mark with
  | non =>
    refine ⟨{ s.h y with tc := 1, mark := .inQueue }, by rw [countEdge_non s y hm], rfl, rfl, rfl, ?_, ?_⟩ <;> simp
  | pc =>
    refine ⟨{ s.h y with tc := (s.h y).tc + 1 }, by rw [countEdge_pc s y hm], rfl, rfl, rfl, ?_, ?_⟩ <;> simp [hm]
  | inQueue =>
    refine ⟨{ s.h y with tc := (s.h y).tc + 1 }, by rw [countEdge_inQueue s y hm], rfl, rfl, rfl, ?_, ?_⟩ <;> simp [hm]
  | inList =>
    by_cases hr : (s.h y).rc = (s.h y).tc + 1
    · refine ⟨{ s.h y with tc := (s.h y).tc + 1 }, by rw [countEdge_inList_move s y hm hr], rfl, rfl, rfl, ?_, ?_⟩ <;> simp [hm]
    · refine ⟨{ s.h y with tc := (s.h y).tc + 1 }, by rw [countEdge_inList_stay s y hm hr], rfl, rfl, rfl, ?_, ?_⟩ <;> simp [hm]

theorem countEdge_rc (s : TS) (y z : Nat) : ((countEdge s y).h z).rc = (s.h z).rc := by
  obtain ⟨o, hh, h1, _⟩ := countEdge_heap s y
  rw [hh]; by_cases hz : z = y
  · subst hz; simp [h1]
  · simp [hz]

theorem countEdge_edges (s : TS) (y z : Nat) : ((countEdge s y).h z).edges = (s.h z).edges := by
  obtain ⟨o, hh, _, h2, _⟩ := countEdge_heap s y
  rw [hh]; by_cases hz : z = y
  · subst hz; simp [h2]
  · simp [hz]

theorem countEdge_tc_other (s : TS) (y z : Nat) (hz : z ≠ y) :
    ((countEdge s y).h z).tc = (s.h z).tc := by
  obtain ⟨o, hh, _⟩ := countEdge_heap s y
  rw [hh]; simp [hz]

theorem countEdge_mark_other (s : TS) (y z : Nat) (hz : z ≠ y) :
    ((countEdge s y).h z).mark = (s.h z).mark := by
  obtain ⟨o, hh, _⟩ := countEdge_heap s y
  rw [hh]; simp [hz]

theorem countEdge_tc_marked (s : TS) (y : Nat) (hm : (s.h y).mark ≠ .non) :
    ((countEdge s y).h y).tc = (s.h y).tc + 1 := by
  obtain ⟨o, hh, _, _, _, h4, _⟩ := countEdge_heap s y
  rw [hh]; simp [h4, hm]

theorem countEdge_tc_non (s : TS) (y : Nat) (hm : (s.h y).mark = .non) :
    ((countEdge s y).h y).tc = 1 := by
  obtain ⟨o, hh, _, _, _, h4, _⟩ := countEdge_heap s y
  rw [hh]; simp [h4, hm]

theorem countEdge_mark_self (s : TS) (y : Nat) :
    ((countEdge s y).h y).mark = if (s.h y).mark = .non then .inQueue else (s.h y).mark := by
  obtain ⟨o, hh, _, _, _, _, h5⟩ := countEdge_heap s y
  rw [hh]; simp [h5]

theorem inCount_congr (h h' : Heap) (ds : List Nat) (x : Nat)
    (he : ∀ u, (h' u).edges = (h u).edges) : inCount h' ds x = inCount h ds x := by
  unfold inCount; simp [he]

theorem inCount_cons (h : Heap) (d : Nat) (ds : List Nat) (x : Nat) :
    inCount h (d :: ds) x = (h d).edges.count x + inCount h ds x := by
  simp [inCount]

/-! ### The phase-1 invariant -/

/-- State of the counting phase: `done` = objects whose trace completed, `cur` = object being traced
(if any) with `seen` the prefix of its edges already visited, `P` = rest of the buffer. -/
structure P1 (s : TS) (done : List Nat) (cur : Option Nat) (seen : List Nat) (P : List Nat) : Prop where
  tcMarked : ∀ x, (s.h x).mark ≠ .non → (s.h x).tc = inCount s.h done x + seen.count x
  unseen : ∀ x, (s.h x).mark = .non → inCount s.h done x + seen.count x = 0
  mList : ∀ x, (s.h x).mark = .inList ↔ x ∈ done
  mQueue : ∀ x, (s.h x).mark = .inQueue ↔ (x ∈ s.queue ∨ cur = some x)
  mPc : ∀ x, (s.h x).mark = .pc ↔ x ∈ P
  nonroot : ∀ x, x ∈ s.nonroot ↔ (x ∈ done ∧ (s.h x).rc = (s.h x).tc)
  root : ∀ x, x ∈ s.root ↔ (x ∈ done ∧ (s.h x).rc ≠ (s.h x).tc)
  rootNodup : s.root.Nodup
  nonrootNodup : s.nonroot.Nodup
  queueNodup : s.queue.Nodup
  curNotQueued : ∀ c, cur = some c → c ∉ s.queue


/-- Common part of the `pc` and `inQueue` cases: the target is marked, not yet done, only its
tracing counter moves. -/
theorem countEdge_P1_bump (s : TS) (done : List Nat) (cur : Option Nat) (seen P : List Nat) (y : Nat)
    (hinv : P1 s done cur seen P) (hmn : (s.h y).mark ≠ .non) (hnl : y ∉ done)
    (hs : countEdge s y = { s with h := s.h.set y { s.h y with tc := (s.h y).tc + 1 } }) :
    P1 (countEdge s y) done cur (seen ++ [y]) P := by
  have hic : ∀ x, inCount (countEdge s y).h done x = inCount s.h done x :=
    fun x => inCount_congr _ _ _ _ (fun u => countEdge_edges s y u)
  have hcnt_ne : ∀ x, x ≠ y → (seen ++ [y]).count x = seen.count x := by
    intro x hx; simp [List.count_append, Ne.symm hx]
  have hcnt_eq : (seen ++ [y]).count y = seen.count y + 1 := by simp [List.count_append]
  have hmark : ∀ x, ((countEdge s y).h x).mark = (s.h x).mark := by
    intro x; by_cases hxy : x = y
    · subst hxy; rw [countEdge_mark_self]; simp [hmn]
    · exact countEdge_mark_other s y x hxy
  have hxd : ∀ x, x ∈ done → x ≠ y := fun x h e => hnl (e ▸ h)
  constructor
  · intro x hx
    rw [hic]; rw [hmark] at hx
    by_cases hxy : x = y
    · subst hxy; rw [countEdge_tc_marked s x hmn, hcnt_eq, hinv.tcMarked x hmn]; omega
    · rw [countEdge_tc_other s y x hxy, hcnt_ne x hxy]; exact hinv.tcMarked x hx
  · intro x hx
    rw [hic]; rw [hmark] at hx
    by_cases hxy : x = y
    · subst hxy; exact absurd hx hmn
    · rw [hcnt_ne x hxy]; exact hinv.unseen x hx
  · intro x; rw [hmark]; exact hinv.mList x
  · intro x; rw [hmark, hs]; exact hinv.mQueue x
  · intro x; rw [hmark]; exact hinv.mPc x
  · intro x
    rw [hs]; simp only
    rw [hinv.nonroot x]
    constructor
    · rintro ⟨hd, hr⟩; refine ⟨hd, ?_⟩; simp [Heap.set, hxd x hd]; exact hr
    · rintro ⟨hd, hr⟩; refine ⟨hd, ?_⟩; simpa [Heap.set, hxd x hd] using hr
  · intro x
    rw [hs]; simp only
    rw [hinv.root x]
    constructor
    · rintro ⟨hd, hr⟩; refine ⟨hd, ?_⟩; simp [Heap.set, hxd x hd]; exact hr
    · rintro ⟨hd, hr⟩; refine ⟨hd, ?_⟩; simpa [Heap.set, hxd x hd] using hr
  · rw [hs]; exact hinv.rootNodup
  · rw [hs]; exact hinv.nonrootNodup
  · rw [hs]; exact hinv.queueNodup
  · intro c hc; rw [hs]; exact hinv.curNotQueued c hc

/-- One edge visit preserves the invariant, provided the count about to be reached is still
within the reference count (this is the crate's `debug_assert!(tc < rc)`; it follows from exact
reference counts). -/
theorem countEdge_P1 (s : TS) (done : List Nat) (cur : Option Nat) (seen P : List Nat) (y : Nat)
    (hinv : P1 s done cur seen P)
    (hb : inCount s.h done y + seen.count y + 1 ≤ (s.h y).rc) :
    P1 (countEdge s y) done cur (seen ++ [y]) P := by
  have hic : ∀ x, inCount (countEdge s y).h done x = inCount s.h done x :=
    fun x => inCount_congr _ _ _ _ (fun u => countEdge_edges s y u)
  have hcnt_ne : ∀ x, x ≠ y → (seen ++ [y]).count x = seen.count x := by
    intro x hx; simp [List.count_append, Ne.symm hx]
  have hcnt_eq : (seen ++ [y]).count y = seen.count y + 1 := by simp [List.count_append]
  -- case analysis on the mark of the target
  cases hm : (s.h y).mark with
  | non =>
    have hun := hinv.unseen y hm
    have hnl : y ∉ done := fun h => by have := (hinv.mList y).2 h; simp [hm] at this
    have hnq : y ∉ s.queue := fun h => by have := (hinv.mQueue y).2 (Or.inl h); simp [hm] at this
    have hnc : cur ≠ some y := fun h => by have := (hinv.mQueue y).2 (Or.inr h); simp [hm] at this
    have hnp : y ∉ P := fun h => by have := (hinv.mPc y).2 h; simp [hm] at this
    have hs := countEdge_non s y hm
    constructor
    · intro x hx
      rw [hic]
      by_cases hxy : x = y
      · subst hxy; rw [countEdge_tc_non s x hm, hcnt_eq]; omega
      · rw [countEdge_tc_other s y x hxy, hcnt_ne x hxy]
        rw [countEdge_mark_other s y x hxy] at hx
        exact hinv.tcMarked x hx
    · intro x hx
      rw [hic]
      by_cases hxy : x = y
      · subst hxy; rw [countEdge_mark_self] at hx; simp [hm] at hx
      · rw [hcnt_ne x hxy]; rw [countEdge_mark_other s y x hxy] at hx; exact hinv.unseen x hx
    · intro x
      by_cases hxy : x = y
      · subst hxy; rw [countEdge_mark_self]; simp [hm, hnl]
      · rw [countEdge_mark_other s y x hxy]; exact hinv.mList x
    · intro x
      by_cases hxy : x = y
      · subst hxy; rw [countEdge_mark_self]; simp [hm, hs]
      · rw [countEdge_mark_other s y x hxy, hs]; simp [hxy]; exact hinv.mQueue x
    · intro x
      by_cases hxy : x = y
      · subst hxy; rw [countEdge_mark_self]; simp [hm, hnp]
      · rw [countEdge_mark_other s y x hxy]; exact hinv.mPc x
    · intro x
      have hxd : x ∈ done → x ≠ y := fun h e => hnl (e ▸ h)
      rw [hs]; simp only
      rw [hinv.nonroot x]
      constructor
      · rintro ⟨hd, hr⟩; refine ⟨hd, ?_⟩; simp [Heap.set, hxd hd]; exact hr
      · rintro ⟨hd, hr⟩; refine ⟨hd, ?_⟩; simpa [Heap.set, hxd hd] using hr
    · intro x
      have hxd : x ∈ done → x ≠ y := fun h e => hnl (e ▸ h)
      rw [hs]; simp only
      rw [hinv.root x]
      constructor
      · rintro ⟨hd, hr⟩; refine ⟨hd, ?_⟩; simp [Heap.set, hxd hd]; exact hr
      · rintro ⟨hd, hr⟩; refine ⟨hd, ?_⟩; simpa [Heap.set, hxd hd] using hr
    · rw [hs]; exact hinv.rootNodup
    · rw [hs]; exact hinv.nonrootNodup
    · rw [hs]; simp only
      exact List.nodup_append.2 ⟨hinv.queueNodup, by simp, by
        intro a ha b hb; simp at hb; subst hb; exact fun e => hnq (e ▸ ha)⟩
    · intro c hc; rw [hs]; simp only
      intro hmem
      rcases List.mem_append.1 hmem with h | h
      · exact hinv.curNotQueued c hc h
      · simp at h; subst h; exact hnc hc
  | pc =>
    have hnl : y ∉ done := fun h => by have := (hinv.mList y).2 h; simp [hm] at this
    exact countEdge_P1_bump s done cur seen P y hinv (by simp [hm]) hnl (countEdge_pc s y hm)
  | inQueue =>
    have hnl : y ∉ done := fun h => by have := (hinv.mList y).2 h; simp [hm] at this
    exact countEdge_P1_bump s done cur seen P y hinv (by simp [hm]) hnl (countEdge_inQueue s y hm)
  | inList =>
    have hyd : y ∈ done := (hinv.mList y).1 hm
    have hmn : (s.h y).mark ≠ .non := by simp [hm]
    have htc := hinv.tcMarked y hmn
    have hlt : (s.h y).tc + 1 ≤ (s.h y).rc := by omega
    have hmark : ∀ x, ((countEdge s y).h x).mark = (s.h x).mark := by
      intro x; by_cases hxy : x = y
      · subst hxy; rw [countEdge_mark_self]; simp [hmn]
      · exact countEdge_mark_other s y x hxy
    have hrc := countEdge_rc s y
    have htcy := countEdge_tc_marked s y hmn
    have htco := countEdge_tc_other s y
    -- facts shared by both sub-cases
    have h1 : ∀ x, ((countEdge s y).h x).mark ≠ .non →
        ((countEdge s y).h x).tc = inCount (countEdge s y).h done x + (seen ++ [y]).count x := by
      intro x hx
      rw [hic]; rw [hmark] at hx
      by_cases hxy : x = y
      · subst hxy; rw [htcy, hcnt_eq, htc]; omega
      · rw [htco x hxy, hcnt_ne x hxy]; exact hinv.tcMarked x hx
    have h2 : ∀ x, ((countEdge s y).h x).mark = .non →
        inCount (countEdge s y).h done x + (seen ++ [y]).count x = 0 := by
      intro x hx
      rw [hic]; rw [hmark] at hx
      by_cases hxy : x = y
      · subst hxy; exact absurd hx hmn
      · rw [hcnt_ne x hxy]; exact hinv.unseen x hx
    have hyroot : y ∈ s.root := (hinv.root y).2 ⟨hyd, by omega⟩
    have hynr : y ∉ s.nonroot := fun h => by have := ((hinv.nonroot y).1 h).2; omega
    by_cases hr : (s.h y).rc = (s.h y).tc + 1
    · have hs := countEdge_inList_move s y hm hr
      refine ⟨h1, h2, fun x => by rw [hmark]; exact hinv.mList x,
        fun x => by rw [hmark, hs]; exact hinv.mQueue x,
        fun x => by rw [hmark]; exact hinv.mPc x, ?_, ?_, ?_, ?_, by rw [hs]; exact hinv.queueNodup,
        fun c hc => by rw [hs]; exact hinv.curNotQueued c hc⟩
      · intro x
        by_cases hxy : x = y
        · subst hxy; rw [hrc, htcy]; rw [hs]; simp [hyd, hr]
        · rw [hrc, htco x hxy, hs]; simp [hxy]; exact hinv.nonroot x
      · intro x
        by_cases hxy : x = y
        · subst hxy; rw [hrc, htcy, hs]; simp only
          constructor
          · intro h; exact absurd h (List.Nodup.not_mem_erase hinv.rootNodup)
          · rintro ⟨_, h⟩; omega
        · rw [hrc, htco x hxy, hs]; simp only
          rw [List.mem_erase_of_ne hxy]; exact hinv.root x
      · rw [hs]; exact hinv.rootNodup.erase y
      · rw [hs]; exact List.nodup_cons.2 ⟨hynr, hinv.nonrootNodup⟩
    · have hs := countEdge_inList_stay s y hm hr
      refine ⟨h1, h2, fun x => by rw [hmark]; exact hinv.mList x,
        fun x => by rw [hmark, hs]; exact hinv.mQueue x,
        fun x => by rw [hmark]; exact hinv.mPc x, ?_, ?_, by rw [hs]; exact hinv.rootNodup,
        by rw [hs]; exact hinv.nonrootNodup, by rw [hs]; exact hinv.queueNodup,
        fun c hc => by rw [hs]; exact hinv.curNotQueued c hc⟩
      · intro x
        by_cases hxy : x = y
        · subst hxy; rw [hrc, htcy]; rw [hs]; simp only
          constructor
          · intro h; exact absurd h hynr
          · rintro ⟨_, h⟩; omega
        · rw [hrc, htco x hxy, hs]; exact hinv.nonroot x
      · intro x
        by_cases hxy : x = y
        · subst hxy; rw [hrc, htcy, hs]; simp only
          exact ⟨fun _ => ⟨hyd, by omega⟩, fun _ => hyroot⟩
        · rw [hrc, htco x hxy, hs]; exact hinv.root x

end T1
