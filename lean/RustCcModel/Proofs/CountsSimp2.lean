import RustCcModel.Proofs.CountsSimp
/-! Generated: projections through the one-field helpers (all `rfl`). -/
namespace RustCc
open World

@[simp] theorem s_emit_heap (w : World) (e : Event) : (w.emit e).heap = w.heap := rfl
@[simp] theorem s_emit_pc (w : World) (e : Event) : (w.emit e).pc = w.pc := rfl
@[simp] theorem s_emit_metas (w : World) (e : Event) : (w.emit e).metas = w.metas := rfl
@[simp] theorem s_emit_H (w : World) (e : Event) : (w.emit e).H = w.H := rfl
@[simp] theorem s_emit_stash (w : World) (e : Event) : (w.emit e).stash = w.stash := rfl
@[simp] theorem s_emit_wstash (w : World) (e : Event) : (w.emit e).wstash = w.wstash := rfl
@[simp] theorem s_emit_stack (w : World) (e : Event) : (w.emit e).stack = w.stack := rfl
@[simp] theorem s_emit_next (w : World) (e : Event) : (w.emit e).next = w.next := rfl
@[simp] theorem s_emit_W (w : World) (e : Event) : (w.emit e).W = w.W := rfl
@[simp] theorem s_emit_K (w : World) (e : Event) : (w.emit e).K = w.K := rfl
@[simp] theorem s_emit_mode (w : World) (e : Event) : (w.emit e).mode = w.mode := rfl
@[simp] theorem s_push_heap (w : World) (f : Frame) : (w.push f).heap = w.heap := rfl
@[simp] theorem s_push_pc (w : World) (f : Frame) : (w.push f).pc = w.pc := rfl
@[simp] theorem s_push_metas (w : World) (f : Frame) : (w.push f).metas = w.metas := rfl
@[simp] theorem s_push_H (w : World) (f : Frame) : (w.push f).H = w.H := rfl
@[simp] theorem s_push_stash (w : World) (f : Frame) : (w.push f).stash = w.stash := rfl
@[simp] theorem s_push_wstash (w : World) (f : Frame) : (w.push f).wstash = w.wstash := rfl
@[simp] theorem s_push_next (w : World) (f : Frame) : (w.push f).next = w.next := rfl
@[simp] theorem s_push_W (w : World) (f : Frame) : (w.push f).W = w.W := rfl
@[simp] theorem s_push_K (w : World) (f : Frame) : (w.push f).K = w.K := rfl
@[simp] theorem s_push_mode (w : World) (f : Frame) : (w.push f).mode = w.mode := rfl
@[simp] theorem s_updMeta_heap (w : World) (y : Id) (g : Meta → Meta) : (w.updMeta y g).heap = w.heap := rfl
@[simp] theorem s_updMeta_pc (w : World) (y : Id) (g : Meta → Meta) : (w.updMeta y g).pc = w.pc := rfl
@[simp] theorem s_updMeta_H (w : World) (y : Id) (g : Meta → Meta) : (w.updMeta y g).H = w.H := rfl
@[simp] theorem s_updMeta_stash (w : World) (y : Id) (g : Meta → Meta) : (w.updMeta y g).stash = w.stash := rfl
@[simp] theorem s_updMeta_wstash (w : World) (y : Id) (g : Meta → Meta) : (w.updMeta y g).wstash = w.wstash := rfl
@[simp] theorem s_updMeta_stack (w : World) (y : Id) (g : Meta → Meta) : (w.updMeta y g).stack = w.stack := rfl
@[simp] theorem s_updMeta_next (w : World) (y : Id) (g : Meta → Meta) : (w.updMeta y g).next = w.next := rfl
@[simp] theorem s_updMeta_W (w : World) (y : Id) (g : Meta → Meta) : (w.updMeta y g).W = w.W := rfl
@[simp] theorem s_updMeta_K (w : World) (y : Id) (g : Meta → Meta) : (w.updMeta y g).K = w.K := rfl
@[simp] theorem s_updMeta_mode (w : World) (y : Id) (g : Meta → Meta) : (w.updMeta y g).mode = w.mode := rfl
@[simp] theorem s_setH_heap (w : World) (k : Nat) (v : Option Id) : (w.setH k v).heap = w.heap := rfl
@[simp] theorem s_setH_pc (w : World) (k : Nat) (v : Option Id) : (w.setH k v).pc = w.pc := rfl
@[simp] theorem s_setH_metas (w : World) (k : Nat) (v : Option Id) : (w.setH k v).metas = w.metas := rfl
@[simp] theorem s_setH_stash (w : World) (k : Nat) (v : Option Id) : (w.setH k v).stash = w.stash := rfl
@[simp] theorem s_setH_wstash (w : World) (k : Nat) (v : Option Id) : (w.setH k v).wstash = w.wstash := rfl
@[simp] theorem s_setH_stack (w : World) (k : Nat) (v : Option Id) : (w.setH k v).stack = w.stack := rfl
@[simp] theorem s_setH_next (w : World) (k : Nat) (v : Option Id) : (w.setH k v).next = w.next := rfl
@[simp] theorem s_setH_W (w : World) (k : Nat) (v : Option Id) : (w.setH k v).W = w.W := rfl
@[simp] theorem s_setH_K (w : World) (k : Nat) (v : Option Id) : (w.setH k v).K = w.K := rfl
@[simp] theorem s_setH_mode (w : World) (k : Nat) (v : Option Id) : (w.setH k v).mode = w.mode := rfl
@[simp] theorem s_setW_heap (w : World) (k : Nat) (v : Option WRef) : (w.setW k v).heap = w.heap := rfl
@[simp] theorem s_setW_pc (w : World) (k : Nat) (v : Option WRef) : (w.setW k v).pc = w.pc := rfl
@[simp] theorem s_setW_metas (w : World) (k : Nat) (v : Option WRef) : (w.setW k v).metas = w.metas := rfl
@[simp] theorem s_setW_H (w : World) (k : Nat) (v : Option WRef) : (w.setW k v).H = w.H := rfl
@[simp] theorem s_setW_stash (w : World) (k : Nat) (v : Option WRef) : (w.setW k v).stash = w.stash := rfl
@[simp] theorem s_setW_wstash (w : World) (k : Nat) (v : Option WRef) : (w.setW k v).wstash = w.wstash := rfl
@[simp] theorem s_setW_stack (w : World) (k : Nat) (v : Option WRef) : (w.setW k v).stack = w.stack := rfl
@[simp] theorem s_setW_next (w : World) (k : Nat) (v : Option WRef) : (w.setW k v).next = w.next := rfl
@[simp] theorem s_setW_K (w : World) (k : Nat) (v : Option WRef) : (w.setW k v).K = w.K := rfl
@[simp] theorem s_setW_mode (w : World) (k : Nat) (v : Option WRef) : (w.setW k v).mode = w.mode := rfl
@[simp] theorem s_setK_heap (w : World) (k : Nat) (v : Option (Id × Nat × Nat)) : (w.setK k v).heap = w.heap := rfl
@[simp] theorem s_setK_pc (w : World) (k : Nat) (v : Option (Id × Nat × Nat)) : (w.setK k v).pc = w.pc := rfl
@[simp] theorem s_setK_metas (w : World) (k : Nat) (v : Option (Id × Nat × Nat)) : (w.setK k v).metas = w.metas := rfl
@[simp] theorem s_setK_H (w : World) (k : Nat) (v : Option (Id × Nat × Nat)) : (w.setK k v).H = w.H := rfl
@[simp] theorem s_setK_stash (w : World) (k : Nat) (v : Option (Id × Nat × Nat)) : (w.setK k v).stash = w.stash := rfl
@[simp] theorem s_setK_wstash (w : World) (k : Nat) (v : Option (Id × Nat × Nat)) : (w.setK k v).wstash = w.wstash := rfl
@[simp] theorem s_setK_stack (w : World) (k : Nat) (v : Option (Id × Nat × Nat)) : (w.setK k v).stack = w.stack := rfl
@[simp] theorem s_setK_next (w : World) (k : Nat) (v : Option (Id × Nat × Nat)) : (w.setK k v).next = w.next := rfl
@[simp] theorem s_setK_W (w : World) (k : Nat) (v : Option (Id × Nat × Nat)) : (w.setK k v).W = w.W := rfl
@[simp] theorem s_setK_mode (w : World) (k : Nat) (v : Option (Id × Nat × Nat)) : (w.setK k v).mode = w.mode := rfl
@[simp] theorem s_upd_pc (w : World) (y : Id) (g : Obj → Obj) : (w.upd y g).pc = w.pc := rfl
@[simp] theorem s_upd_metas (w : World) (y : Id) (g : Obj → Obj) : (w.upd y g).metas = w.metas := rfl
@[simp] theorem s_upd_H (w : World) (y : Id) (g : Obj → Obj) : (w.upd y g).H = w.H := rfl
@[simp] theorem s_upd_stash (w : World) (y : Id) (g : Obj → Obj) : (w.upd y g).stash = w.stash := rfl
@[simp] theorem s_upd_wstash (w : World) (y : Id) (g : Obj → Obj) : (w.upd y g).wstash = w.wstash := rfl
@[simp] theorem s_upd_stack (w : World) (y : Id) (g : Obj → Obj) : (w.upd y g).stack = w.stack := rfl
@[simp] theorem s_upd_next (w : World) (y : Id) (g : Obj → Obj) : (w.upd y g).next = w.next := rfl
@[simp] theorem s_upd_W (w : World) (y : Id) (g : Obj → Obj) : (w.upd y g).W = w.W := rfl
@[simp] theorem s_upd_K (w : World) (y : Id) (g : Obj → Obj) : (w.upd y g).K = w.K := rfl
@[simp] theorem s_upd_mode (w : World) (y : Id) (g : Obj → Obj) : (w.upd y g).mode = w.mode := rfl
@[simp] theorem s_raise_heap (w : World) : w.raise.heap = w.heap := by unfold raise; split <;> rfl
@[simp] theorem s_raiseLogged_heap (w : World) : w.raiseLogged.heap = w.heap := by unfold raiseLogged; rw [s_raise_heap]; rfl
@[simp] theorem s_raise_pc (w : World) : w.raise.pc = w.pc := by unfold raise; split <;> rfl
@[simp] theorem s_raiseLogged_pc (w : World) : w.raiseLogged.pc = w.pc := by unfold raiseLogged; rw [s_raise_pc]; rfl
@[simp] theorem s_raise_metas (w : World) : w.raise.metas = w.metas := by unfold raise; split <;> rfl
@[simp] theorem s_raiseLogged_metas (w : World) : w.raiseLogged.metas = w.metas := by unfold raiseLogged; rw [s_raise_metas]; rfl
@[simp] theorem s_raise_H (w : World) : w.raise.H = w.H := by unfold raise; split <;> rfl
@[simp] theorem s_raiseLogged_H (w : World) : w.raiseLogged.H = w.H := by unfold raiseLogged; rw [s_raise_H]; rfl
@[simp] theorem s_raise_stash (w : World) : w.raise.stash = w.stash := by unfold raise; split <;> rfl
@[simp] theorem s_raiseLogged_stash (w : World) : w.raiseLogged.stash = w.stash := by unfold raiseLogged; rw [s_raise_stash]; rfl
@[simp] theorem s_raise_wstash (w : World) : w.raise.wstash = w.wstash := by unfold raise; split <;> rfl
@[simp] theorem s_raiseLogged_wstash (w : World) : w.raiseLogged.wstash = w.wstash := by unfold raiseLogged; rw [s_raise_wstash]; rfl
@[simp] theorem s_raise_stack (w : World) : w.raise.stack = w.stack := by unfold raise; split <;> rfl
@[simp] theorem s_raiseLogged_stack (w : World) : w.raiseLogged.stack = w.stack := by unfold raiseLogged; rw [s_raise_stack]; rfl
@[simp] theorem s_raise_next (w : World) : w.raise.next = w.next := by unfold raise; split <;> rfl
@[simp] theorem s_raiseLogged_next (w : World) : w.raiseLogged.next = w.next := by unfold raiseLogged; rw [s_raise_next]; rfl
@[simp] theorem s_raise_W (w : World) : w.raise.W = w.W := by unfold raise; split <;> rfl
@[simp] theorem s_raiseLogged_W (w : World) : w.raiseLogged.W = w.W := by unfold raiseLogged; rw [s_raise_W]; rfl
@[simp] theorem s_raise_K (w : World) : w.raise.K = w.K := by unfold raise; split <;> rfl
@[simp] theorem s_raiseLogged_K (w : World) : w.raiseLogged.K = w.K := by unfold raiseLogged; rw [s_raise_K]; rfl
@[simp] theorem s_startCollect_heap (w : World) : w.startCollect.heap = w.heap := rfl
@[simp] theorem s_startCollect_pc (w : World) : w.startCollect.pc = w.pc := rfl
@[simp] theorem s_startCollect_metas (w : World) : w.startCollect.metas = w.metas := rfl
@[simp] theorem s_startCollect_H (w : World) : w.startCollect.H = w.H := rfl
@[simp] theorem s_startCollect_stash (w : World) : w.startCollect.stash = w.stash := rfl
@[simp] theorem s_startCollect_wstash (w : World) : w.startCollect.wstash = w.wstash := rfl
@[simp] theorem s_startCollect_next (w : World) : w.startCollect.next = w.next := rfl
@[simp] theorem s_startCollect_W (w : World) : w.startCollect.W = w.W := rfl
@[simp] theorem s_startCollect_K (w : World) : w.startCollect.K = w.K := rfl
end RustCc
