import RustCcModel.Proofs.LifeReach
/-! **A value that was never built, or whose box is gone, is never handed to user code** — in every reachable world, caught
panics included. `DV`: a pending `drop_in_place` / `finalize` call is always the top frame, and its object is an existing
box that is not under construction by `new_cyclic`. -/
namespace RustCc
open World
open T1 (Mark)

structure DV (w : World) : Prop where
  tail : ∀ f ∈ w.stack.tail, f.isDropValue = false
  dd : ∀ N r d, Frame.deallocDrop N r d ∈ w.stack → ∀ y ∈ r, y ∈ N
  fp : ∀ N r h o, Frame.finalizePass N r h o ∈ w.stack → ∀ y ∈ r, y ∈ N
  head : ∀ f x, w.stack.head? = some f → f.pendingOn = some x → (w.heap x).boxLive = true ∧ x ∉ cycs w.stack

theorem DV.all_tail {w : World} {f : Frame} {rest : List Frame} (h : DV w) (hs : w.stack = f :: rest) :
    ∀ g ∈ rest, g.isDropValue = false := by
  have := h.tail; rw [hs] at this; exact this

/-- A step whose result is the popped stack with plain frames pushed. -/
theorem DV.plain {w w' : World} {f : Frame} {rest : List Frame} (h : DV w) (hs : w.stack = f :: rest)
    (hp : PushedPlain rest w'.stack) : DV w' := by
  have hr := h.all_tail hs
  have hall := hp.noDropValue hr
  refine ⟨fun g hg => hall g (List.mem_of_mem_tail hg), ?_, ?_, ?_⟩
  · intro N r d hm
    exact h.dd N r d (by rw [hs]; exact List.mem_cons_of_mem _ (hp.dealloc_mem hm))
  · intro N r hh o hm
    exact h.fp N r hh o (by rw [hs]; exact List.mem_cons_of_mem _ (hp.fp_mem hm))
  · intro g x hg hpo
    have : g ∈ w'.stack := by
      cases hst : w'.stack with
      | nil => rw [hst] at hg; cases hg
      | cons a b => rw [hst] at hg; simp at hg; subst hg; exact List.mem_cons_self ..
    rw [Frame.pendingOn_none (hall g this)] at hpo; cases hpo

theorem cycs_plain {rest st : List Frame} (h : PushedPlain rest st) (x : Id) (hx : x ∈ cycs st) :
    x ∈ cycs rest ∨ ∃ k sp sw, Frame.newCyclicEnd k x sp sw ∈ st := by
  induction h with
  | refl => exact Or.inl hx
  | cons f st _ _ ih =>
    rw [cycs_cons] at hx
    rcases List.mem_append.1 hx with e | e
    · right
      cases f <;> simp [Frame.cyc] at e
      subst e; exact ⟨_, _, _, List.mem_cons_self ..⟩
    · rcases ih e with h1 | ⟨k, sp, sw, h1⟩
      · exact Or.inl h1
      · exact Or.inr ⟨k, sp, sw, List.mem_cons_of_mem _ h1⟩

/-- The general step: explicit frames `fs` pushed on the popped stack; only the first of them may be a pending call. -/
theorem DV.pushL {w w' : World} {f : Frame} {rest : List Frame} (h : DV w) (hs : w.stack = f :: rest)
    (fs : List Frame) (hst : w'.stack = fs ++ rest)
    (ht : ∀ g ∈ fs.tail, g.isDropValue = false)
    (hd : ∀ N r d, Frame.deallocDrop N r d ∈ fs → ∀ y ∈ r, y ∈ N)
    (hf : ∀ N r hh o, Frame.finalizePass N r hh o ∈ fs → ∀ y ∈ r, y ∈ N)
    (hh : ∀ g x, fs.head? = some g → g.pendingOn = some x → (w'.heap x).boxLive = true ∧ x ∉ cycs (fs ++ rest)) : DV w' := by
  have hr := h.all_tail hs
  refine ⟨?_, ?_, ?_, ?_⟩
  · intro k hk
    rw [hst] at hk
    cases fs with
    | nil => exact hr k (List.mem_of_mem_tail hk)
    | cons a b =>
      simp only [List.cons_append, List.tail_cons] at hk
      rcases List.mem_append.1 hk with e | e
      · exact ht k e
      · exact hr k e
  · intro N r d hm
    rw [hst] at hm
    rcases List.mem_append.1 hm with e | e
    · exact hd N r d e
    · exact h.dd N r d (by rw [hs]; exact List.mem_cons_of_mem _ e)
  · intro N r hh' o hm
    rw [hst] at hm
    rcases List.mem_append.1 hm with e | e
    · exact hf N r hh' o e
    · exact h.fp N r hh' o (by rw [hs]; exact List.mem_cons_of_mem _ e)
  · intro k y hk hpo
    rw [hst] at hk ⊢
    cases fs with
    | nil =>
      simp only [List.nil_append] at hk
      have : k ∈ rest := by
        cases rest with
        | nil => cases hk
        | cons a b => simp at hk; subst hk; exact List.mem_cons_self ..
      rw [Frame.pendingOn_none (hr k this)] at hpo; cases hpo
    | cons a b =>
      exact hh k y (by simpa using hk) hpo

theorem not_cyc_of_rc {w : World} (hi : Inv w) {x : Id} (hrc : (w.heap x).rc ≠ 0) : x ∉ cycs w.stack := by
  intro hc
  exact hrc (hi.oi.zero x (hi.oi.cycZ x hc)).2.1

theorem boxLive_of_rc {w : World} (hi : Inv w) {x : Id} (hrc : (w.heap x).rc ≠ 0) : (w.heap x).boxLive = true :=
  OI.boxLive_of_rc hi.oi (x := x) hrc

theorem listed_ok {w : World} (hi : Inv w) {x : Id} (hl : x ∈ listed w.stack) :
    (w.heap x).boxLive = true ∧ x ∉ cycs w.stack := by
  refine ⟨?_, ?_⟩
  · apply OI.boxLive_of_mark hi.oi (x := x)
    rw [(hi.oi.mList x).2 hl]; simp
  · intro hc
    have hz := hi.oi.cycZ x hc
    exact (List.nodup_append.1 hi.oi.ownNodup).2.2 x hz x hl rfl

theorem cycs_sub_cons (f : Frame) (rest : List Frame) {x : Id} (h : x ∉ cycs (f :: rest)) : x ∉ cycs rest := by
  intro e; apply h; rw [cycs_cons]; exact List.mem_append_right _ e

macro "dv_plain" h:term "," hs:term : tactic => `(tactic| (refine DV.plain $h $hs ?_; pushed_tac; done))

set_option maxHeartbeats 4000000 in
theorem stepFrame_dv (c : Cfg) (w : World) (f : Frame) (rest : List Frame) (hi : Inv w) (h : DV w) (hs : w.stack = f :: rest) :
    DV (stepFrame c { w with stack := rest } f) := by
  have hdest : ∀ (W0 : World) (x : Id), W0.stack = rest → (∀ y, (W0.heap y).lv = (w.heap y).lv) → (w.heap x).rc ≠ 0 →
      DV (destroyLast c W0 x) := by
    intro W0 x hst hlv hrc
    obtain ⟨d, hd⟩ := destroyLast_stack c W0 x
    refine h.pushL hs [.dropValue x, .afterDropValue x d] (by rw [hd, hst]; rfl) (by simp [Frame.isDropValue])
      (by simp) (by simp) ?_
    intro g y hg hpo
    simp at hg; subst hg; simp [Frame.pendingOn] at hpo; subst hpo
    refine ⟨?_, ?_⟩
    · have := destroyLast_lv c W0 x x
      rw [hlv] at this
      have hb := boxLive_of_rc hi hrc
      simp only [Obj.lv, Prod.mk.injEq] at this
      rw [this.1]; exact hb
    · have := cycs_sub_cons f rest (hs ▸ not_cyc_of_rc hi hrc)
      simpa [cycs_cons, Frame.cyc] using this
  cases f with
  | script ops self wc top =>
    cases ops with
    | nil => simp only [stepFrame]; exact h.plain hs PushedPlain.refl
    | cons op ops =>
      simp only [stepFrame]
      obtain ⟨_, h2⟩ := execOp_plain c (({ w with stack := rest } : World).push (.script ops self wc top)) self wc op
      have h2' : PushedPlain rest (execOp c (({ w with stack := rest } : World).push (.script ops self wc top)) self wc op).stack :=
        PushedPlain.trans (PushedPlain.cons _ _ (by cases self <;> rfl) PushedPlain.refl) h2
      split
      · exact h.plain hs h2'
      · exact h.plain hs h2'
  | dropCc x =>
    simp only [stepFrame]
    split
    · dv_plain h, hs
    · split
      · rename_i hrc
        have hrc' : (w.heap x).rc ≠ 0 := by
          show (w.heap x).rc ≠ 0
          rw [show (w.heap x).rc = 1 from hrc]; exact Nat.one_ne_zero
        split
        · refine h.pushL hs [.callFin x, .dropCcAfterFin x w.finalizing] rfl (by simp [Frame.isDropValue]) (by simp) (by simp) ?_
          intro g y hg hpo
          simp at hg; subst hg; simp [Frame.pendingOn] at hpo; subst hpo
          refine ⟨?_, ?_⟩
          · have hb := boxLive_of_rc hi hrc'
            simpa [World.upd, World.push] using hb
          · have := cycs_sub_cons _ rest (hs ▸ not_cyc_of_rc hi hrc')
            simpa [cycs_cons, Frame.cyc] using this
        · exact hdest _ x rfl (fun _ => rfl) hrc'
      · dv_plain h, hs
  | dropCcAfterFin x oldFin =>
    simp only [stepFrame]
    split
    · dv_plain h, hs
    · rename_i hrc
      have hrc' : (w.heap x).rc ≠ 0 := by
        intro e; apply hrc; show (w.heap x).rc ≠ 1; rw [e]; exact Nat.zero_ne_one
      exact hdest _ x rfl (fun _ => rfl) hrc'
  | collectPass =>
    simp only [stepFrame]
    generalize tracePhasesF _ _ _ _ _ = r
    obtain ⟨res, fault⟩ := r
    cases res with
    | panicked hh pcRest log => simp only []; dv_plain h, hs
    | done s =>
      simp only []
      split
      · dv_plain h, hs
      · split
        · exact h.pushL hs [.finalizePass s.ts.nonroot s.ts.nonroot false w.finalizing] rfl (by simp)
            (by simp) (by intro N r hh o hm; simp at hm; obtain ⟨e1, e2, _, _⟩ := hm; subst e1 e2; exact fun y hy => hy)
            (by intro g y hg hpo; simp at hg; subst hg; cases hpo)
        · refine h.pushL hs [.deallocDrop s.ts.nonroot s.ts.nonroot _] (by rw [startDealloc_stack]; rfl) (by simp)
            (by intro N r d hm; simp at hm; obtain ⟨e1, e2, _⟩ := hm; subst e1 e2; exact fun y hy => hy) (by simp)
            (by intro g y hg hpo; simp at hg; subst hg; cases hpo)
  | finalizePass N r hasFin oldFin =>
    cases r with
    | cons x r =>
      have hfpc := h.fp N (x :: r) hasFin oldFin (by rw [hs]; exact List.mem_cons_self ..)
      have hxN : x ∈ N := hfpc x (List.mem_cons_self ..)
      have hsub : ∀ y ∈ r, y ∈ N := fun y hy => hfpc y (List.mem_cons_of_mem _ hy)
      have hxl : x ∈ listed w.stack := by rw [hs, listed_cons]; exact List.mem_append_left _ (by simpa [Frame.listed] using hxN)
      obtain ⟨hb, hc⟩ := listed_ok hi hxl
      simp only [stepFrame]
      split
      · refine h.pushL hs [.callFin x, .finalizePass N r true oldFin] rfl (by simp [Frame.isDropValue]) (by simp)
          (by intro N' r' hh o hm; simp at hm; obtain ⟨e1, e2, _, _⟩ := hm; subst e1 e2; exact hsub) ?_
        intro g y hg hpo
        simp at hg; subst hg; simp [Frame.pendingOn] at hpo; subst hpo
        refine ⟨by simpa [World.upd, World.push] using hb, ?_⟩
        have := cycs_sub_cons _ rest (hs ▸ hc)
        simpa [cycs_cons, Frame.cyc] using this
      · exact h.pushL hs [.finalizePass N r hasFin oldFin] rfl (by simp) (by simp)
          (by intro N' r' hh o hm; simp at hm; obtain ⟨e1, e2, _, _⟩ := hm; subst e1 e2; exact hsub)
          (by intro g y hg hpo; simp at hg; subst hg; cases hpo)
    | nil =>
      simp only [stepFrame]
      split
      · refine h.pushL hs [.deallocDrop N N _] (by rw [startDealloc_stack]; rfl) (by simp)
          (by intro N' r d hm; simp at hm; obtain ⟨e1, e2, _⟩ := hm; subst e1 e2; exact fun y hy => hy) (by simp)
          (by intro g y hg hpo; simp at hg; subst hg; cases hpo)
      · dv_plain h, hs
  | deallocDrop N r oldDrop =>
    cases r with
    | cons x r =>
      have hddc := h.dd N (x :: r) oldDrop (by rw [hs]; exact List.mem_cons_self ..)
      have hxN : x ∈ N := hddc x (List.mem_cons_self ..)
      have hsub : ∀ y ∈ r, y ∈ N := fun y hy => hddc y (List.mem_cons_of_mem _ hy)
      have hxl : x ∈ listed w.stack := by rw [hs, listed_cons]; exact List.mem_append_left _ (by simpa [Frame.listed] using hxN)
      obtain ⟨hb, hc⟩ := listed_ok hi hxl
      simp only [stepFrame]
      have key : ∀ W' : World, (W'.heap x).boxLive = true → W'.stack = .dropValue x :: .deallocDrop N r oldDrop :: rest → DV W' := by
        intro W' hb' hst
        refine h.pushL hs [.dropValue x, .deallocDrop N r oldDrop] hst (by simp [Frame.isDropValue])
          (by intro N' r' d hm; simp at hm; obtain ⟨e1, e2, _⟩ := hm; subst e1 e2; exact hsub) (by simp) ?_
        intro g y hg hpo
        simp at hg; subst hg; simp [Frame.pendingOn] at hpo; subst hpo
        refine ⟨hb', ?_⟩
        have := cycs_sub_cons _ rest (hs ▸ hc)
        simpa [cycs_cons, Frame.cyc] using this
      split
      · exact key _ (by simpa [World.upd, World.push] using hb) (by simp [World.push])
      · exact key _ (by simpa [World.push] using hb) (by simp [World.push])
    | nil =>
      simp only [stepFrame]
      split
      · exact h.pushL hs [.deallocDrop N [] oldDrop] rfl (by simp) (by intro N' r d hm; simp at hm; obtain ⟨_, e2, _⟩ := hm; subst e2; simp)
          (by simp) (by intro g y hg hpo; simp at hg; subst hg; cases hpo)
      · exact h.plain hs (by simp [foldl_free_stack]; exact PushedPlain.refl)
  | _ =>
    simp only [stepFrame]
    repeat' split
    all_goals first
      | (dv_plain h, hs)
      | (refine h.plain hs (PushedPlain.trans ?_ (putH_pushed _ _ _)); pushed_tac; done)

set_option maxHeartbeats 4000000 in
theorem unwindFrame_plain (c : Cfg) (w : World) (f : Frame) : PushedPlain w.stack (unwindFrame c w f).stack := by
  cases f <;> simp only [unwindFrame] <;> repeat' split
  all_goals (pushed_tac; done)

set_option maxHeartbeats 4000000 in
theorem unwindFrame_vEv (c : Cfg) (w : World) (f : Frame) : vEv (unwindFrame c w f).events = vEv w.events := by
  cases f <;> simp only [unwindFrame] <;> repeat' split
  all_goals vev_tac

theorem step_dv (c : Cfg) (w : World) (hi : Inv w) (h : DV w) : DV (step c w) := by
  unfold step
  split
  · exact h
  · exact h
  · split
    · rename_i hs
      exact ⟨by simp [hs], fun N r d hm => by simp [hs] at hm, fun N r hh o hm => by simp [hs] at hm,
        fun g x hg => by simp [hs] at hg⟩
    · rename_i f rest hs
      exact h.plain hs (unwindFrame_plain c { w with stack := rest } f)
  · split
    · exact h
    · rename_i f rest hs
      exact stepFrame_dv c w f rest hi h hs

theorem reachable_dv {c : Cfg} {nH nW nK : Nat} {w : World} (h : Reachable c nH nW nK w) : DV w := by
  induction h with
  | init => exact ⟨by simp [World.init], by simp [World.init], by simp [World.init], by simp [World.init]⟩
  | step w hr ih => exact step_dv c w (reachable_all c nH nW nK w hr).inv ih
  | top w op _ hs hm ih =>
    refine ⟨by simp [Frame.isDropValue], by simp, by simp, ?_⟩
    intro g x hg hpo
    simp at hg; subst hg; cases hpo

/-- **Which values a step hands to user code**: a step logs `drop x` / `finalize x` only if `x` is an existing box that is
not under construction — in every reachable world, whatever the mode. -/
theorem reachable_vEv_ok {c : Cfg} {nH nW nK : Nat} {w : World} (h : Reachable c nH nW nK w) (b : Bool) (x : Id)
    (hx : (b, x) ∈ vEv (newEvents w (step c w))) : (w.heap x).boxLive = true ∧ x ∉ cycs w.stack := by
  have hd := reachable_dv h
  have h3 := step_events_eq c w
  have hnone : vEv (step c w).events = vEv w.events → False := by
    intro e
    rw [h3, vEv_append] at e
    have : vEv (newEvents w (step c w)) = [] := by
      have := congrArg List.length e
      simpa using this
    rw [this] at hx; cases hx
  cases hm : w.mode with
  | aborted => exact absurd (by unfold step; rw [hm]) hnone
  | stuck => exact absurd (by unfold step; rw [hm]) hnone
  | unwinding =>
    exfalso; apply hnone
    unfold step; rw [hm]; simp only []
    split
    · rfl
    · exact unwindFrame_vEv c _ _
  | running =>
    cases hs : w.stack with
    | nil => exact absurd (by unfold step; rw [hm]; simp only []; rw [hs]) hnone
    | cons f rest =>
      rw [step_vEv_running c w hm f rest hs] at hx
      have hp : f.pendingOn = some x := by
        cases f <;> simp [Frame.vev] at hx
        · simp [Frame.pendingOn, hx.2.2]
        · simp [Frame.pendingOn, hx.2.2]
      have := hd.head f x (by rw [hs]; rfl) hp
      rw [hs] at this; exact this

end RustCc
