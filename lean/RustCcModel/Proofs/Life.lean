import RustCcModel.Proofs.LifeDefs
/-! `Life` (see `LifeDefs.lean`) is preserved by every step of the running machine. -/
namespace RustCc
open World
open T1 (Mark)

/-- The generic step: what the popped frame owned dead is no longer dead (or is owned again), no other allocated box lost
its value unless a frame owns it, only frames other than `dropValue` / `deallocDrop` were pushed. -/
theorem Life.generic {w w' : World} {f : Frame} {rest : List Frame} (hl : Life w) (hs : w.stack = f :: rest)
    (hf : ∀ y ∈ f.own, (w'.heap y).lv ≠ (true, false) ∨ y ∈ ownedDead w'.stack)
    (hlv : ∀ x, (w'.heap x).lv = (true, false) → (w.heap x).lv = (true, false) ∨ x ∈ ownedDead w'.stack)
    (hp : PushedPlain rest w'.stack) : Life w' := by
  have htail : ∀ g ∈ rest, g.isDropValue = false := by
    have := hl.shape.tail; rw [hs] at this; exact this
  have hnone := hp.noDropValue htail
  refine ⟨?_, ?_, ?_, ?_, ?_, ?_⟩
  · intro x hx
    rcases hlv x hx with h | h
    · have := hl.np x h
      rw [hs, ownedDead_cons] at this
      rcases List.mem_append.1 this with h1 | h1
      · rcases hf x h1 with h2 | h2
        · exact absurd hx h2
        · exact h2
      · exact hp.ownedDead_sub x h1
    · exact h
  · cases hst : w'.stack with
    | nil => trivial
    | cons g st =>
      have hg := hnone g (by rw [hst]; exact List.mem_cons_self ..)
      cases g <;> first | trivial | simp [Frame.isDropValue] at hg
  · intro g hg; exact hnone g (List.mem_of_mem_tail hg)
  · intro N r d hm
    have := hp.dealloc_mem hm
    exact hl.shape.dd N r d (by rw [hs]; exact List.mem_cons_of_mem _ this)
  · intro N r h o hm
    have := hp.fp_mem hm
    exact hl.shape.fp N r h o (by rw [hs]; exact List.mem_cons_of_mem _ this)
  · intro g x hx hpo
    have hg : g ∈ w'.stack := List.mem_of_mem_head? hx
    rw [Frame.pendingOn_none (hnone g hg)] at hpo; cases hpo

/-- The by-hand step: explicit frames `fs` are pushed on `rest`, no `lv` changes. -/
theorem Life.pushes {w W' : World} {f : Frame} {rest : List Frame} (fs : List Frame) (hl : Life w) (hs : w.stack = f :: rest)
    (hst : W'.stack = fs ++ rest) (hlv : ∀ y, (W'.heap y).lv = (w.heap y).lv)
    (hown : ∀ y ∈ f.own, y ∈ ownedDead fs)
    (htop : topShape (fs ++ rest)) (htl : ∀ g ∈ (fs ++ rest).tail, g.isDropValue = false)
    (hdd : ∀ N r d, Frame.deallocDrop N r d ∈ fs → r.Nodup ∧ ∀ y ∈ r, y ∈ N)
    (hfp : ∀ N r h o, Frame.finalizePass N r h o ∈ fs → ∀ y ∈ r, y ∈ N)
    (halive : ∀ g x, (fs ++ rest).head? = some g → g.pendingOn = some x → (w.heap x).lv = (true, true)) : Life W' := by
  refine ⟨?_, ?_, ?_, ?_, ?_, ?_⟩
  · intro y hy
    rw [hlv] at hy
    have := hl.np y hy
    rw [hs, ownedDead_cons] at this
    rw [hst, ownedDead_append]
    rcases List.mem_append.1 this with h | h
    · exact List.mem_append_left _ (hown y h)
    · exact List.mem_append_right _ h
  · rw [hst]; exact htop
  · rw [hst]; exact htl
  · intro N r d hm
    rw [hst] at hm
    rcases List.mem_append.1 hm with h | h
    · exact hdd N r d h
    · exact hl.shape.dd N r d (by rw [hs]; exact List.mem_cons_of_mem _ h)
  · intro N r h o hm
    rw [hst] at hm
    rcases List.mem_append.1 hm with h' | h'
    · exact hfp N r h o h'
    · exact hl.shape.fp N r h o (by rw [hs]; exact List.mem_cons_of_mem _ h')
  · intro g x hx hpo
    rw [hst] at hx
    rw [hlv]; exact halive g x hx hpo

theorem Life.tail_ok {w : World} {f : Frame} {rest : List Frame} (hl : Life w) (hs : w.stack = f :: rest) :
    ∀ g ∈ rest, g.isDropValue = false := by
  have := hl.shape.tail; rw [hs] at this; exact this

theorem s_startCollect_stack' (w : World) : w.startCollect.stack = .collectLoop 0 w.finalizing w.dropping :: w.stack := rfl
theorem putH_pushed (w : World) (k : Nat) (y : Id) : PushedPlain w.stack (w.putH k y).stack := by
  unfold World.putH; split
  · exact PushedPlain.cons _ _ rfl PushedPlain.refl
  · exact PushedPlain.refl

theorem PushedPlain.trans {a b c : List Frame} (h1 : PushedPlain a b) (h2 : PushedPlain b c) : PushedPlain a c := by
  induction h2 with
  | refl => exact h1
  | cons f st hf _ ih => exact PushedPlain.cons f st hf ih

/-- Close `PushedPlain rest st` for a stack given as explicit pushes on `rest`. -/
macro "pushed_tac" : tactic => `(tactic| (
  try simp only [World.push_stack, World.emit_stack, World.upd_stack, World.updMeta_stack, World.removeFromList_stack, World.addToList_stack,
    World.dropMetadata_stack, World.freeBox_stack, World.weakDrop_stack, World.initMeta_stack, World.setH_stack, World.setW_stack,
    World.setK_stack, World.cloneOk_stack, World.updAll_stack, stack_raise, stack_raiseLogged, fromT1_stack, s_startCollect_stack']
  repeat (first
    | exact PushedPlain.refl
    | (refine PushedPlain.cons _ _ (by rfl) ?_)
    | (refine PushedPlain.cons _ _ (by cases ‹Option Id› <;> rfl) ?_))))


/-- Close `∀ x, lv' x = (true,false) → lv x = (true,false)` when no object's `lv` changes. -/
macro "lv_tac" : tactic => `(tactic| (
  intro x hx
  simpa [upd_lv_same, updAll_lv_same, putH_lv, World.setH, World.setW, World.setK, World.startCollect, World.emit, World.push,
    World.updMeta] using hx))

set_option maxHeartbeats 8000000 in
/-- A script operation destroys no value in place and pushes only plain frames. -/
theorem execOp_plain (c : Cfg) (w : World) (self wc : Option Id) (op : Op) :
    (∀ x, ((execOp c w self wc op).heap x).lv = (true, false) → (w.heap x).lv = (true, false)) ∧
    PushedPlain w.stack (execOp c w self wc op).stack := by
  cases op with
  | fault kind n j => cases kind <;> exact ⟨fun _ h => h, PushedPlain.refl⟩
  | unwrap k =>
    simp only [execOp]
    split
    · split
      · exact ⟨fun _ h => h, PushedPlain.refl⟩
      · rename_i x hx hg
        refine ⟨?_, ?_⟩
        · intro y hy
          split at hy
          · simp only [World.push_heap] at hy
            rw [freeBox_lv] at hy
            split at hy
            · cases hy
            · simpa [upd_lv_same, World.setH, Heap.set, World.upd, *] using hy
          · simp only [World.push_heap] at hy
            rw [freeBox_lv] at hy
            split at hy
            · cases hy
            · simpa [upd_lv_same, World.setH, Heap.set, World.upd, *] using hy
        · split <;> pushed_tac
    · exact ⟨fun _ h => h, PushedPlain.refl⟩
  | _ =>
    simp only [execOp]
    repeat' split
    all_goals (refine ⟨by lv_tac, by pushed_tac⟩)

/-! ### Frames -/

theorem Life.congr {w w' : World} (hl : Life w) (hh : w'.heap = w.heap) (hst : w'.stack = w.stack) : Life w' := by
  refine ⟨?_, ?_, ?_, ?_, ?_, ?_⟩
  · intro x hx; rw [hh] at hx; rw [hst]; exact hl.np x hx
  · rw [hst]; exact hl.shape.top
  · rw [hst]; exact hl.shape.tail
  · rw [hst]; exact hl.shape.dd
  · rw [hst]; exact hl.shape.fp
  · rw [hst, hh]; exact hl.shape.alive

/-- An object with a non-zero count that is in no collector list is an intact value in a live box. -/
theorem alive_of_rc_mark {w : World} (hi : Inv w) (hl : Life w) (x : Id) (hrc : (w.heap x).rc ≠ 0)
    (hm : (w.heap x).mark ≠ .inList) : (w.heap x).lv = (true, true) := by
  have hb : (w.heap x).boxLive = true := OI.boxLive_of_rc hi.oi (x := x) hrc
  cases hv : (w.heap x).valLive with
  | true => simp [Obj.lv, hb, hv]
  | false =>
    have hd : (w.heap x).lv = (true, false) := by simp [Obj.lv, hb, hv]
    rcases ownedDead_sub _ x (hl.np x hd) with h | h
    · exact absurd (hi.oi.zero x h).2.1 hrc
    · exact absurd ((hi.oi.mList x).2 h) hm

theorem destroyLast_stack (c : Cfg) (w : World) (x : Id) :
    ∃ d, (destroyLast c w x).stack = .dropValue x :: .afterDropValue x d :: w.stack := by
  refine ⟨((w.upd x fun o => { o with rc := o.rc - 1 }).removeFromList x).dropping, ?_⟩
  unfold destroyLast
  simp only []
  split <;> simp

theorem destroyLast_lv (c : Cfg) (w : World) (x y : Id) : ((destroyLast c w x).heap y).lv = (w.heap y).lv := by
  unfold destroyLast
  simp only []
  split <;> simp [upd_lv_same]

/-- `Cc::drop` of the last owner: `drop_in_place` is pushed on its guard frame; the value is still alive. -/
theorem life_destroyLast (c : Cfg) {w W0 : World} {f : Frame} {rest : List Frame} (x : Id) (hl : Life w) (hs : w.stack = f :: rest)
    (hf : f.own = []) (hh : ∀ y, (W0.heap y).lv = (w.heap y).lv) (hst : W0.stack = rest)
    (hx : (w.heap x).lv = (true, true)) : Life (destroyLast c W0 x) := by
  obtain ⟨d, hd⟩ := destroyLast_stack c W0 x
  have htail := hl.tail_ok hs
  refine Life.pushes [.dropValue x, .afterDropValue x d] hl hs (by rw [hd, hst]; rfl) (fun y => by rw [destroyLast_lv, hh])
    (by rw [hf]; intro y hy; cases hy) rfl ?_ ?_ ?_ ?_
  · intro g hg
    rcases List.mem_cons.1 hg with e | e
    · subst e; rfl
    · exact htail g e
  · intro N r dd hm; simp at hm
  · intro N r h o hm; simp at hm
  · intro g y hg hpo
    simp only [List.cons_append, List.head?_cons, Option.some.injEq] at hg
    subst hg; simp only [Frame.pendingOn, Option.some.injEq] at hpo; subst hpo; exact hx

/-- A finalizer is about to be called: `callFin x` on top of the frame `g` that called it. -/
theorem life_callFin {w W' : World} {f : Frame} {rest : List Frame} (x : Id) (g : Frame) (hl : Life w) (hs : w.stack = f :: rest)
    (hst : W'.stack = .callFin x :: g :: rest) (hlv : ∀ y, (W'.heap y).lv = (w.heap y).lv)
    (hf : f.own = []) (hg : g.isDropValue = false)
    (hgd : ∀ N r d, g ≠ .deallocDrop N r d) (hgf : ∀ N r h o, g = .finalizePass N r h o → ∀ y ∈ r, y ∈ N)
    (hx : (w.heap x).lv = (true, true)) : Life W' := by
  have htail := hl.tail_ok hs
  refine Life.pushes [.callFin x, g] hl hs (by rw [hst]; rfl) hlv (by rw [hf]; intro y hy; cases hy) (by simp [topShape]) ?_ ?_ ?_ ?_
  · intro g' hg'
    rcases List.mem_cons.1 hg' with e | e
    · subst e; exact hg
    · exact htail g' e
  · intro N r d hm
    simp only [List.mem_cons, List.mem_nil_iff, or_false] at hm
    rcases hm with e | e
    · cases e
    · exact absurd e.symm (hgd N r d)
  · intro N r h o hm
    simp only [List.mem_cons, List.mem_nil_iff, or_false] at hm
    rcases hm with e | e
    · cases e
    · exact hgf N r h o e.symm
  · intro g' y hg' hpo
    simp only [List.cons_append, List.head?_cons, Option.some.injEq] at hg'
    subst hg'; simp only [Frame.pendingOn, Option.some.injEq] at hpo; subst hpo; exact hx

theorem nodup_mid {Z N L : List Id} (h : (Z ++ (N ++ L)).Nodup) {x : Id} (hx : x ∈ N) : x ∉ Z ∧ x ∉ L := by
  rw [List.nodup_append] at h
  obtain ⟨_, h2, h3⟩ := h
  rw [List.nodup_append] at h2
  refine ⟨fun hz => h3 x hz x (List.mem_append_left _ hx) rfl, fun hl => h2.2.2 x hx x hl rfl⟩

/-- `startDealloc`: the `deallocate_list` loop starts with nothing handed over yet. -/
theorem life_startDealloc (c : Cfg) {w W0 : World} {f : Frame} {rest : List Frame} (N : List Id) (hl : Life w) (hs : w.stack = f :: rest)
    (hf : f.own = []) (hh : ∀ y, (W0.heap y).lv = (w.heap y).lv) (hst : W0.stack = rest) (hN : N.Nodup) :
    Life (startDealloc c W0 N) := by
  have hstack : (startDealloc c W0 N).stack = .deallocDrop N N W0.dropping :: rest := by
    unfold startDealloc; simp only []; split <;> simp [hst]
  have hlv : ∀ y, ((startDealloc c W0 N).heap y).lv = (w.heap y).lv := by
    intro y; unfold startDealloc; simp only []; split <;> simp [updAll_lv_same, hh]
  refine Life.pushes [.deallocDrop N N W0.dropping] hl hs (by rw [hstack]; rfl) hlv (by rw [hf]; intro y hy; cases hy) (by simp [topShape])
    (hl.tail_ok hs) ?_ ?_ ?_
  · intro N' r d hm
    simp only [List.mem_cons, List.mem_nil_iff, or_false] at hm
    cases hm; exact ⟨hN, fun _ h => h⟩
  · intro N' r h o hm; simp at hm
  · intro g y hg hpo
    simp only [List.cons_append, List.head?_cons, Option.some.injEq] at hg
    subst hg; cases hpo

/-- A member of the list held by the top frame, not yet handed to its destructor, is an intact value in a live box. -/
theorem alive_of_top_listed {w : World} (hi : Inv w) (hl : Life w) {f : Frame} {rest : List Frame} (hs : w.stack = f :: rest)
    (x : Id) (hxN : x ∈ f.listed) (hz : f.zeroed = []) (hdd : x ∉ f.dd) : (w.heap x).lv = (true, true) := by
  obtain ⟨hoi, _, _⟩ := hi.popped hs
  have hxL : x ∈ listed w.stack := by rw [hs, listed_cons]; exact List.mem_append_left _ hxN
  have hmark := (hi.oi.mList x).2 hxL
  have hb : (w.heap x).boxLive = true := by
    cases hb : (w.heap x).boxLive with
    | true => rfl
    | false =>
      have e : (w.heap x).mark = .non := (hi.oi.dead x hb).2
      have e2 : (w.heap x).mark = .inList := hmark
      rw [e] at e2; cases e2
  cases hv : (w.heap x).valLive with
  | true => simp [Obj.lv, hb, hv]
  | false =>
    have hd : (w.heap x).lv = (true, false) := by simp [Obj.lv, hb, hv]
    have hm := hl.np x hd
    rw [hs, ownedDead_cons] at hm
    rcases List.mem_append.1 hm with h | h
    · unfold Frame.own at h; rw [hz] at h; exact absurd (by simpa using h) hdd
    · have hnod := hoi.ownNodup
      rw [hz] at hnod
      simp only [List.nil_append] at hnod
      have := nodup_mid hnod hxN
      rcases ownedDead_sub _ x h with h | h
      · exact absurd h this.1
      · exact absurd h this.2

theorem startDealloc_nodup (c : Cfg) (W : World) (N : List Id) (h : Inv (startDealloc c W N)) : N.Nodup := by
  have hst : (startDealloc c W N).stack = .deallocDrop N N W.dropping :: W.stack := by
    unfold startDealloc; simp only []; split <;> simp
  have := h.oi.ownNodup
  rw [hst, listed_cons] at this
  have h2 := (List.nodup_append.1 this).2.1
  exact (List.nodup_append.1 h2).1

macro "own_nil" : tactic => `(tactic| (intro y hy; simp [Frame.own, Frame.zeroed, Frame.dd] at hy))

/-- lv part of `Life.generic` for a step that changes no `lv` (relative to the world with the frame popped). -/
macro "lv_pop" : tactic => `(tactic| (
  intro x hx
  refine Or.inl ?_
  simpa [upd_lv_same, updAll_lv_same, putH_lv, foldl_free_lv, World.setH, World.setW, World.setK, World.startCollect, World.emit,
    World.push, World.updMeta] using hx))

set_option maxHeartbeats 16000000 in
/-- **Every frame step of the running machine preserves `Life`.** `hi'`: the invariant of the resulting world (for the
duplicate-freeness of a list that a pass has just computed). -/
theorem stepFrame_life (c : Cfg) (w : World) (f : Frame) (rest : List Frame) (hall : AllInv c w)
    (hi' : Inv (stepFrame c { w with stack := rest } f)) (hl : Life w) (hs : w.stack = f :: rest) :
    Life (stepFrame c { w with stack := rest } f) := by
  have hi := hall.inv
  cases f with
  | script ops self wc top =>
    cases ops with
    | nil => simp only [stepFrame]; exact Life.generic hl hs (by own_nil) (fun x hx => Or.inl hx) PushedPlain.refl
    | cons op ops =>
      simp only [stepFrame]
      obtain ⟨h1, h2⟩ := execOp_plain c (({ w with stack := rest } : World).push (.script ops self wc top)) self wc op
      have h2' : PushedPlain rest (execOp c (({ w with stack := rest } : World).push (.script ops self wc top)) self wc op).stack :=
        PushedPlain.trans (PushedPlain.cons _ _ (by cases self <;> rfl) PushedPlain.refl) h2
      split
      · exact Life.generic hl hs (by own_nil) (fun x hx => Or.inl (h1 x hx)) h2'
      · exact Life.generic hl hs (by own_nil) (fun x hx => Or.inl (h1 x hx)) h2'
  | dropCc x =>
    simp only [stepFrame]
    split
    · exact Life.generic hl hs (by own_nil) (by lv_pop) (by pushed_tac)
    · rename_i hm
      split
      · rename_i hrc
        have hx : (w.heap x).lv = (true, true) :=
          alive_of_rc_mark hi hl x (by show (w.heap x).rc ≠ 0; rw [show (w.heap x).rc = 1 from hrc]; exact Nat.one_ne_zero)
            (fun e => hm (Or.inl e))
        split
        · exact life_callFin x (.dropCcAfterFin x w.finalizing) hl hs rfl (fun y => by simp [upd_lv_same, World.push])
            (by simp [Frame.own, Frame.zeroed, Frame.dd]) rfl (fun _ _ _ e => by cases e) (fun _ _ _ _ e => by cases e) hx
        · exact life_destroyLast c x hl hs (by simp [Frame.own, Frame.zeroed, Frame.dd]) (fun _ => rfl) rfl hx
      · exact Life.generic hl hs (by own_nil) (by lv_pop) (by pushed_tac)
  | dropCcAfterFin x oldFin =>
    simp only [stepFrame]
    split
    · exact Life.generic hl hs (by own_nil) (by lv_pop) (by pushed_tac)
    · rename_i hrc
      have hrc1 : (w.heap x).rc = 1 := by
        by_cases e : (w.heap x).rc = 1
        · exact e
        · exact absurd e hrc
      have hpin : x ∈ pinned w.stack := by rw [hs, pinned_cons]; simp [Frame.pinned]
      have hx : (w.heap x).lv = (true, true) :=
        alive_of_rc_mark hi hl x (by rw [hrc1]; exact Nat.one_ne_zero)
          (fun e => hi.pin x hpin ((hi.oi.mList x).1 e))
      exact life_destroyLast c x hl hs (by simp [Frame.own, Frame.zeroed, Frame.dd]) (fun _ => rfl) rfl hx
  | dropValue x =>
    have hal := hl.shape.alive (.dropValue x) x (by rw [hs]; rfl) rfl
    have hown : x ∈ ownedDead rest := by
      have ht := hl.shape.top
      rw [hs] at ht
      cases rest with
      | nil => exact absurd ht (by simp [topShape])
      | cons g rest' =>
        rw [ownedDead_cons]
        apply List.mem_append_left
        cases g <;> simp only [topShape] at ht <;> first | exact absurd ht id | skip
        · subst ht; simp [Frame.own, Frame.zeroed]
        · simp [Frame.own, Frame.dd, Frame.zeroed, ht.1, ht.2]
    simp only [stepFrame]
    have key : ∀ W' : World, (∀ y, y ≠ x → (W'.heap y).lv = (w.heap y).lv) → PushedPlain rest W'.stack → Life W' := by
      intro W' hlv hp
      refine Life.generic hl hs (by own_nil) ?_ hp
      intro y hy
      by_cases e : y = x
      · subst e; exact Or.inr (hp.ownedDead_sub _ hown)
      · rw [hlv y e] at hy; exact Or.inl hy
    split
    · split
      · apply key
        · intro y hy; simp [upd_lv_same, World.upd, Heap.set, hy, World.push, World.emit]
        · pushed_tac
      · apply key
        · intro y hy; simp [upd_lv_same, World.upd, Heap.set, hy, World.push, World.emit]
        · pushed_tac
    · apply key
      · intro y hy; simp [World.upd, Heap.set, hy, World.push]
      · pushed_tac
  | afterDropValue x oldDrop =>
    simp only [stepFrame]
    split
    · exact hl.congr rfl (by simp [hs])
    · have key : ∀ W : World, W.stack = rest → (∀ y, (W.heap y).lv = (w.heap y).lv) → Life ({ (W.freeBox x) with dropping := oldDrop }) := by
        intro W hW hlv
        refine Life.generic hl hs ?_ ?_ (by simp [hW]; exact PushedPlain.refl)
        · intro y hy
          have e : y = x := by simpa [Frame.own, Frame.zeroed, Frame.dd] using hy
          subst e
          refine Or.inl ?_
          simp [freeBox_lv]
        · intro y hy
          refine Or.inl ?_
          simp only [freeBox_lv] at hy
          split at hy
          · cases hy
          · rw [hlv] at hy; exact hy
      split
      · exact key _ (by simp) (fun y => by simp)
      · exact key _ rfl (fun y => rfl)
  | deallocDrop N r oldDrop =>
    cases r with
    | cons x r =>
      have hddc := hl.shape.dd N (x :: r) oldDrop (by rw [hs]; exact List.mem_cons_self ..)
      have hxN : x ∈ N := hddc.2 x (List.mem_cons_self ..)
      have hnd := List.nodup_cons.1 hddc.1
      have hx : (w.heap x).lv = (true, true) :=
        alive_of_top_listed hi hl hs x (by simpa [Frame.listed] using hxN) rfl (by simp [Frame.dd])
      simp only [stepFrame]
      have key : ∀ W' : World, (∀ y, (W'.heap y).lv = (w.heap y).lv) → W'.stack = .dropValue x :: .deallocDrop N r oldDrop :: rest → Life W' := by
        intro W' hlv hst
        have htail := hl.tail_ok hs
        refine Life.pushes [.dropValue x, .deallocDrop N r oldDrop] hl hs (by rw [hst]; rfl) hlv ?_ ⟨hxN, hnd.1⟩ ?_ ?_ ?_ ?_
        · intro y hy
          rw [ownedDead_cons, ownedDead_cons]
          apply List.mem_append_right
          apply List.mem_append_left
          simp only [Frame.own, Frame.zeroed, Frame.dd, List.nil_append, List.mem_filter] at hy ⊢
          refine ⟨hy.1, ?_⟩
          have h2 := hy.2
          simp only [Bool.not_eq_true', List.contains_eq_mem, decide_eq_false_iff_not, List.mem_cons, not_or] at h2 ⊢
          simpa using h2.2
        · intro g hg
          rcases List.mem_cons.1 hg with e | e
          · subst e; rfl
          · exact htail g e
        · intro N' r' d hm
          simp only [List.mem_cons, List.mem_nil_iff, or_false] at hm
          rcases hm with e | e
          · cases e
          · cases e; exact ⟨hnd.2, fun y hy => hddc.2 y (List.mem_cons_of_mem _ hy)⟩
        · intro N' r' h o hm; simp at hm
        · intro g y hg hpo
          simp only [List.cons_append, List.head?_cons, Option.some.injEq] at hg
          subst hg; simp only [Frame.pendingOn, Option.some.injEq] at hpo; subst hpo; exact hx
      split
      · exact key _ (fun y => by simp [upd_lv_same, World.push]) (by simp [World.push])
      · exact key _ (fun y => by simp [World.push]) (by simp [World.push])
    | nil =>
      simp only [stepFrame]
      split
      · exact hl.congr rfl (by simp [hs])
      · refine Life.generic hl hs ?_ ?_ (by pushed_tac; simp [foldl_free_stack]; exact PushedPlain.refl)
        · intro y hy
          have hyN : y ∈ N := by simpa [Frame.own, Frame.zeroed, Frame.dd] using hy
          refine Or.inl ?_
          simp [foldl_free_lv, hyN]
        · intro y hy
          refine Or.inl ?_
          simp only [foldl_free_lv] at hy
          split at hy
          · cases hy
          · exact hy
  | newCyclicAlloc k sp body selfw =>
    simp only [stepFrame]
    have hlvx : ∀ (W' : World), (∀ y, (W'.heap y).lv = ((w.heap.set w.next ({ newObj c { w with stack := rest } sp with rc := 0, valLive := false, hasMeta := true } : Obj)) y).lv) →
        (∃ fs, W'.stack = fs ++ (.newCyclicEnd k w.next sp selfw :: rest) ∧ PushedPlain rest W'.stack) → Life W' := by
      intro W' hlv ⟨fs, hst, hp⟩
      refine Life.generic hl hs (by own_nil) ?_ hp
      intro y hy
      rw [hlv] at hy
      by_cases e : y = w.next
      · subst e
        refine Or.inr ?_
        rw [hst, ownedDead_append, ownedDead_cons]
        exact List.mem_append_right _ (List.mem_append_left _ (by simp [Frame.own, Frame.zeroed]))
      · exact Or.inl (by simpa [Heap.set, e] using hy)
    split
    · apply hlvx
      · intro y; simp [World.emit, World.push, World.updMeta]
      · exact ⟨[], by simp [World.emit, World.push, World.updMeta], by pushed_tac⟩
    · apply hlvx
      · intro y; simp [World.emit, World.push, World.updMeta]
      · exact ⟨[.script (c.script body) none (some w.next)], by simp [World.emit, World.push, World.updMeta], by pushed_tac⟩
  | newCyclicEnd k id sp selfw =>
    have hraise : Life ((({ w with stack := rest } : World).push (.newCyclicEnd k id sp selfw)).raise) := by
      refine Life.generic hl hs ?_ (by lv_pop) (by pushed_tac)
      intro y hy
      have e : y = id := by simpa [Frame.own, Frame.zeroed, Frame.dd] using hy
      subst e
      refine Or.inr ?_
      simp [World.push, ownedDead_cons, Frame.own, Frame.zeroed]
    have key : ∀ W : World, W.stack = rest → (∀ y, (W.heap y).lv = (w.heap y).lv) →
        Life (((W.upd id fun o => { o with valLive := true, rc := o.rc + 1 }).weakDrop (.to id)).putH k id) := by
      intro W hW hlv
      have hp : PushedPlain rest (((W.upd id fun o => { o with valLive := true, rc := o.rc + 1 }).weakDrop (.to id)).putH k id).stack := by
        have := putH_pushed ((W.upd id fun o => { o with valLive := true, rc := o.rc + 1 }).weakDrop (.to id)) k id
        simpa [hW] using this
      refine Life.generic hl hs ?_ ?_ hp
      · intro y hy
        have e : y = id := by simpa [Frame.own, Frame.zeroed, Frame.dd] using hy
        subst e
        refine Or.inl ?_
        rw [putH_lv, weakDrop_lv]
        simp [Obj.lv]
      · intro y hy
        refine Or.inl ?_
        rw [putH_lv, weakDrop_lv] at hy
        by_cases e : y = id
        · subst e; simp [Obj.lv] at hy
        · rw [← hlv]; simpa [World.upd, Heap.set, e] using hy
    cases selfw with
    | none =>
      simp only [stepFrame]
      split
      · exact hraise
      · split
        · rename_i h; cases h
        · exact key _ rfl (fun _ => rfl)
    | some j =>
      simp only [stepFrame]
      split
      · exact hraise
      · split
        · exact key _ rfl (fun y => by simp [upd_lv_same])
        · exact key _ rfl (fun _ => rfl)
  | finalizePass N r hasFin oldFin =>
    cases r with
    | cons x r =>
      have hfpc := hl.shape.fp N (x :: r) hasFin oldFin (by rw [hs]; exact List.mem_cons_self ..)
      have hxN : x ∈ N := hfpc x (List.mem_cons_self ..)
      have hx : (w.heap x).lv = (true, true) :=
        alive_of_top_listed hi hl hs x (by simpa [Frame.listed] using hxN) rfl (by simp [Frame.dd])
      have hsub : ∀ y ∈ r, y ∈ N := fun y hy => hfpc y (List.mem_cons_of_mem _ hy)
      simp only [stepFrame]
      split
      · exact life_callFin x (.finalizePass N r true oldFin) hl hs rfl (fun y => by simp [upd_lv_same, World.push])
          (by simp [Frame.own, Frame.zeroed, Frame.dd]) rfl (fun _ _ _ e => by cases e)
          (fun N' r' h' o' e => by cases e; exact hsub) hx
      · refine Life.pushes [.finalizePass N r hasFin oldFin] hl hs rfl (fun _ => rfl) (by intro y hy; simp [Frame.own, Frame.zeroed, Frame.dd] at hy)
          (by simp [topShape]) (hl.tail_ok hs) (by intro N' r' d hm; simp at hm) ?_ ?_
        · intro N' r' h' o' hm
          simp only [List.mem_cons, List.mem_nil_iff, or_false] at hm
          cases hm; exact hsub
        · intro g y hg hpo
          simp only [List.cons_append, List.head?_cons, Option.some.injEq] at hg
          subst hg; cases hpo
    | nil =>
      simp only [stepFrame]
      split
      · have hN : N.Nodup := by
          have := hi.oi.ownNodup
          rw [hs, listed_cons] at this
          have h2 := (List.nodup_append.1 this).2.1
          exact (List.nodup_append.1 h2).1
        exact life_startDealloc c N hl hs (by simp [Frame.own, Frame.zeroed, Frame.dd]) (fun _ => rfl) rfl hN
      · exact Life.generic hl hs (by own_nil) (by lv_pop) (by pushed_tac)
  | collectPass =>
    simp only [stepFrame] at hi' ⊢
    generalize tracePhasesF _ _ _ _ _ = r at hi' ⊢
    obtain ⟨res, fault⟩ := r
    cases res with
    | panicked h pcRest log =>
      simp only []
      exact Life.generic hl hs (by own_nil) (by lv_pop) (by pushed_tac)
    | done s =>
      simp only [] at hi' ⊢
      split
      · exact Life.generic hl hs (by own_nil) (by lv_pop) (by pushed_tac)
      · split
        · refine Life.pushes [.finalizePass s.ts.nonroot s.ts.nonroot false w.finalizing] hl hs (by simp [World.push]) (fun y => by simp [World.push])
            (by intro y hy; simp [Frame.own, Frame.zeroed, Frame.dd] at hy) (by simp [topShape]) (hl.tail_ok hs)
            (by intro N' r' d hm; simp at hm) ?_ ?_
          · intro N' r' h' o' hm
            simp only [List.mem_cons, List.mem_nil_iff, or_false] at hm
            cases hm; exact fun _ h => h
          · intro g y hg hpo
            simp only [List.cons_append, List.head?_cons, Option.some.injEq] at hg
            subst hg; cases hpo
        · rename_i hne hfin
          simp only [hne, hfin] at hi'
          have hN : s.ts.nonroot.Nodup := startDealloc_nodup c _ _ hi'
          exact life_startDealloc c _ hl hs (by simp [Frame.own, Frame.zeroed, Frame.dd]) (fun _ => rfl) rfl hN
  | newAlloc k sp =>
    simp only [stepFrame]
    refine Life.generic hl hs (by own_nil) ?_ (by have := putH_pushed (({ ({ w with stack := rest } : World) with next := w.next + 1, heap := w.heap.set w.next (newObj c { w with stack := rest } sp), allocBytes := w.allocBytes + (newObj c { w with stack := rest } sp).size } : World).emit (.alloc w.next (newObj c { w with stack := rest } sp).size)) k w.next; simpa using this)
    intro y hy
    refine Or.inl ?_
    rw [putH_lv] at hy
    by_cases e : y = w.next
    · subst e; simp [World.emit, Heap.set, Obj.lv, newObj] at hy
    · simpa [World.emit, Heap.set, e] using hy
  | mapAlloc owner =>
    simp only [stepFrame]
    split
    · refine Life.generic hl hs (by own_nil) ?_ (by pushed_tac)
      intro y hy
      refine Or.inl ?_
      simp only [upd_lv_same _ _ (fun o : Obj => { o with cmap := some w.next }) _ (fun _ => ⟨rfl, rfl⟩)] at hy
      by_cases e : y = w.next
      · subst e; simp [World.emit, Heap.set, Obj.lv] at hy
      · simpa [World.emit, Heap.set, e] using hy
    · refine Life.generic hl hs (by own_nil) ?_ (by pushed_tac)
      intro y hy
      refine Or.inl ?_
      by_cases e : y = w.next
      · subst e; simp [World.emit, World.push, Heap.set, Obj.lv] at hy
      · simpa [World.emit, World.push, Heap.set, e] using hy
  | dropFields x unw =>
    simp only [stepFrame]
    have ht := takeField_lv (w.heap x)
    split
    · rename_i y o' hy
      rw [hy] at ht
      refine Life.generic hl hs (by own_nil) ?_ (by pushed_tac)
      intro z hz
      refine Or.inl ?_
      by_cases e : z = x
      · subst e; simpa [World.push, ht] using hz
      · simpa [World.push, World.upd, Heap.set, e] using hz
    · rename_i y o' hy
      rw [hy] at ht
      refine Life.generic hl hs (by own_nil) ?_ (by pushed_tac)
      intro z hz
      refine Or.inl ?_
      rw [weakDrop_lv] at hz
      by_cases e : z = x
      · subst e; simpa [World.push, ht] using hz
      · simpa [World.push, World.upd, Heap.set, e] using hz
    · split <;> exact Life.generic hl hs (by own_nil) (by lv_pop) (by pushed_tac)
  | regInsert owner script k cap =>
    simp only [stepFrame]
    split
    · exact Life.generic hl hs (by own_nil) (by lv_pop) (by pushed_tac)
    · split
      · exact Life.generic hl hs (by own_nil) (by lv_pop) (by pushed_tac)
      · rename_i m hm hb
        have hgen : ∀ (idx : Nat) (om' : Obj), om'.lv = (w.heap m).lv →
            Life (if (((({ ({ w with stack := rest } : World) with nextAid := w.nextAid + 1 } : World).upd m fun _ => om').initMeta m).metas m).weak ≥ c.weakMax then
                ((({ ({ w with stack := rest } : World) with nextAid := w.nextAid + 1 } : World).upd m fun _ => om').initMeta m).raise
              else ((((({ ({ w with stack := rest } : World) with nextAid := w.nextAid + 1 } : World).upd m fun _ => om').initMeta m).updMeta m
                fun mm => { mm with weak := mm.weak + 1 }).removeFromList m).setK k (some (m, idx, w.nextAid))) := by
          intro idx om' hom
          have hlv : ∀ y, ((({ ({ w with stack := rest } : World) with nextAid := w.nextAid + 1 } : World).upd m fun _ => om').heap y).lv = (w.heap y).lv := by
            intro y
            by_cases e : y = m
            · subst e; simpa using hom
            · simp [World.upd, Heap.set, e]
          split
          · refine Life.generic hl hs (by own_nil) ?_ (by pushed_tac)
            intro y hy; refine Or.inl ?_
            rw [raise_lv, initMeta_lv, hlv] at hy; exact hy
          · refine Life.generic hl hs (by own_nil) ?_ (by pushed_tac)
            intro y hy; refine Or.inl ?_
            have : ∀ W : World, ((W.setK k (some (m, idx, w.nextAid))).heap y) = W.heap y := fun _ => rfl
            rw [this, removeFromList_lv] at hy
            simp only [World.updMeta_heap] at hy
            rw [initMeta_lv, hlv] at hy; exact hy
        cases hfr : (w.heap m).afree with
        | nil => simp only []; exact hgen _ _ rfl
        | cons i fr => simp only []; exact hgen _ _ rfl
  | _ =>
    simp only [stepFrame]
    repeat' split
    all_goals first
      | exact Life.generic hl hs (by own_nil) (by lv_pop) (by pushed_tac)
      | exact hl.congr rfl (by simp [hs])

end RustCc
