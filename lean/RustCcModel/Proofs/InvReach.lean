import RustCcModel.Proofs.InvOps2
import RustCcModel.Proofs.InvFramesA
import RustCcModel.Proofs.InvFramesB
import RustCcModel.Proofs.InvFramesC
import RustCcModel.Proofs.InvCollect
import RustCcModel.Proofs.FreshInv
/-! **The machine invariant holds in every reachable world**: `Counts`, `FlagsOk`, `Inv`, `Fresh` together are
preserved by every micro-step (running or unwinding) and by the start of a top-level operation. -/
namespace RustCc
open World
open T1 (Mark)

theorem flagsOk_push_script {w : World} {ops ops' : List Op} {self wc : Option Id} {top : Bool} {rest : List Frame}
    (hf : FlagsOk w) (hs : w.stack = .script ops self wc top :: rest) :
    FlagsOk (({ w with stack := rest } : World).push (.script ops' self wc top)) := by
  rw [flagsOk_iff] at *
  rw [hs] at hf
  simpa using hf

theorem stepFrame_inv_script (c : Cfg) (w : World) (ops : List Op) (self wc : Option Id) (top : Bool) (rest : List Frame)
    (hc : Counts w) (hf : FlagsOk w) (hi : Inv w) (hs : w.stack = .script ops self wc top :: rest) :
    Inv (stepFrame c { w with stack := rest } (.script ops self wc top)) := by
  have h0 := hi.pop hs rfl
  obtain ⟨hp, hids⟩ := hc.pop hs
  have hp' : CountsH false { w with stack := rest } [] := by cases self <;> exact hp
  have hself : ∀ s, self = some s → s < w.next := by
    intro s hs; subst hs; exact hids s (by simp [Frame.ids])
  cases ops with
  | nil => simp only [stepFrame]; exact h0
  | cons op ops =>
    simp only [stepFrame]
    have hc1 := (CountsH.pushFrame (E := []) (.script ops self wc top) (by cases self <;> simpa [Frame.holds] using hp')
      (by cases self <;> simpa [Frame.ids] using hself)).toCounts0
    have hf1 : FlagsOk (({ w with stack := rest } : World).push (.script ops self wc top)) := flagsOk_push_script hf hs
    have hi1 : Inv (({ w with stack := rest } : World).push (.script ops self wc top)) :=
      h0.step (WOI.same h0.oi rfl rfl) [.script ops self wc top] (by plain_tac) rfl
    have h2 := execOp_inv c _ self wc op hc1 hf1 hi1 hself
    split
    · exact h2
    · exact h2.step_same rfl rfl [] (by plain_tac) rfl

/-- **Every frame step preserves `Inv`.** -/
theorem stepFrame_inv (c : Cfg) (w : World) (f : Frame) (rest : List Frame) (hc : Counts w) (hf : FlagsOk w) (hi : Inv w)
    (hfr : Fresh w) (hs : w.stack = f :: rest) : Inv (stepFrame c { w with stack := rest } f) := by
  cases f with
  | script ops self wc top => exact stepFrame_inv_script c w ops self wc top rest hc hf hi hs
  | catchTop => exact stepFrame_inv_catchTop c w rest hi hs
  | setRet r => exact stepFrame_inv_setRet c w r rest hi hs
  | adjustAfter => exact stepFrame_inv_adjustAfter c w rest hi hs
  | dropCc x => exact stepFrame_inv_dropCc c w x rest hc hi hs
  | dropCcAfterFin x oldFin => exact stepFrame_inv_dropCcAfterFin c w x oldFin rest hc hi hs
  | afterDropValue x oldDrop => exact stepFrame_inv_afterDropValue c w x oldDrop rest hi hs
  | dropValue x => exact stepFrame_inv_dropValue c w x rest hi hs
  | dropMoved x => exact stepFrame_inv_dropMoved c w x rest hi hs
  | dropFields x unw => exact stepFrame_inv_dropFields c w x unw rest hi hs
  | dropActions m i unw => exact stepFrame_inv_dropActions c w m i unw rest hi hs
  | actionEnd cap unw => exact stepFrame_inv_actionEnd c w cap unw rest hi hs
  | callFin x => exact stepFrame_inv_callFin c w x rest hi hs
  | collectLoop n oldFin oldDrop => exact stepFrame_inv_collectLoop c w n oldFin oldDrop rest hi hs
  | collectPass => exact stepFrame_inv_collectPass c w rest hc hf hi hs
  | finalizePass N r hasFin oldFin => exact stepFrame_inv_finalizePass c w N r hasFin oldFin rest hi hs
  | deallocDrop N r oldDrop => exact stepFrame_inv_deallocDrop c w N r oldDrop rest hi hs
  | newAlloc k sp => exact stepFrame_inv_newAlloc c w k sp rest hi hfr hs
  | newCyclicAlloc k sp body selfw => exact stepFrame_inv_newCyclicAlloc c w k sp body selfw rest hi hfr hs
  | newCyclicEnd k id sp selfw => exact stepFrame_inv_newCyclicEnd c w k id sp selfw rest hi hs
  | regInsert owner script k cap => exact stepFrame_inv_regInsert c w owner script k cap rest hi hs
  | mapAlloc owner => exact stepFrame_inv_mapAlloc c w owner rest hi hfr hs
  | cleanEnd m byUs unw => exact stepFrame_inv_cleanEnd c w m byUs unw rest hi hs
  | dropMany x n => exact stepFrame_inv_dropMany c w x n rest hi hs

/-- **One micro-step of the machine preserves `Inv`** (given the other invariants of the same world). -/
theorem step_inv (c : Cfg) (w : World) (hc : Counts w) (hf : FlagsOk w) (hi : Inv w) (hfr : Fresh w) : Inv (step c w) := by
  unfold step
  split
  · exact hi
  · exact hi
  · split
    · rename_i hs
      exact hi.step_same rfl rfl [] (by plain_tac) (by simp [hs])
    · rename_i f rest hs
      exact unwindFrame_inv c w f rest hc hf hi hs
  · split
    · exact hi
    · rename_i f rest hs
      exact stepFrame_inv c w f rest hc hf hi hfr hs

/-- The box under construction in `new_cyclic` has count 0: the hypothesis `Counts` needs for the unwinding step. -/
theorem Inv.cyc_zero {w : World} (hi : Inv w) (k : Nat) (id : Id) (sp : NewSpec) (sw : Option Nat) (rest : List Frame)
    (hs : w.stack = .newCyclicEnd k id sp sw :: rest) : (w.heap id).rc = 0 := by
  have hz : id ∈ zeroed w.stack := by rw [hs, zeroed_cons]; simp [Frame.zeroed]
  exact (hi.oi.zero id hz).2.1

theorem init_inv (c : Cfg) (nH nW nK : Nat) : Inv (World.init c nH nW nK) := by
  refine ⟨⟨List.nodup_nil, ?_, ?_, ?_, ?_, ?_, ?_, ?_, ?_, List.nodup_nil⟩, rfl, ?_⟩
  · intro x; simp [World.init, World.cores, Obj.core]
  · intro x hx; cases hx
  · intro x; simp [World.init, World.cores, Obj.core]
  · intro x; simp [World.init, World.cores, Obj.core, listed]
  · intro x _; exact ⟨rfl, rfl⟩
  · intro x hx; cases hx
  · intro x hx; cases hx
  · intro x hx; cases hx
  · intro x hx; cases hx

/-- All four invariants together. -/
structure AllInv (c : Cfg) (w : World) : Prop where
  counts : Counts w
  flags : FlagsOk w
  inv : Inv w
  fresh : Fresh w

/-- **Every reachable world satisfies all the invariants**: counts never below the existing pointers (`Counts`), flags =
guard frames (`FlagsOk`), marks = lists, buffered ⇒ tracing counter 0, freed ⇒ no count, no mark, nothing owned twice
(`Inv`), no box past the allocation frontier (`Fresh`). -/
theorem reachable_all (c : Cfg) (nH nW nK : Nat) (w : World) (h : Reachable c nH nW nK w) : AllInv c w := by
  induction h with
  | init => exact ⟨init_counts c nH nW nK, init_flagsOk c nH nW nK, init_inv c nH nW nK, init_fresh c nH nW nK⟩
  | step w _ ih =>
    exact ⟨step_counts c w ih.counts (fun k id sp sw rest hs => ih.inv.cyc_zero k id sp sw rest hs),
      step_flagsOk c w ih.flags, step_inv c w ih.counts ih.flags ih.inv ih.fresh, step_fresh c w ih.fresh⟩
  | top w op hr hs hm ih =>
    refine ⟨?_, ?_, ?_, ?_⟩
    · have h0 : CountsH false w [] := ih.counts.toH
      have h1 : CountsH false { w with stack := [], events := [], ret := .ok } [] := by
        refine CountsH.congr h0 ?_ ?_ ?_ ?_ ?_ ?_ ?_ <;> first | rfl | exact hs.symm
      exact ((h1.pushPlain .catchTop rfl rfl).pushPlain (.script [op] none none true) rfl rfl).toCounts0
    · have := ih.flags
      rw [flagsOk_iff] at *
      simp_all [expected, Frame.flags]
    · exact ih.inv.step_same rfl rfl [.script [op] none none true, .catchTop] (by plain_tac) (by simp [hs])
    · exact ih.fresh

theorem reachable_counts (c : Cfg) (nH nW nK : Nat) (w : World) (h : Reachable c nH nW nK w) : Counts w :=
  (reachable_all c nH nW nK w h).counts

theorem reachable_inv (c : Cfg) (nH nW nK : Nat) (w : World) (h : Reachable c nH nW nK w) : Inv w :=
  (reachable_all c nH nW nK w h).inv

end RustCc
