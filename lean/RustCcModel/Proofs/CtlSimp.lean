import RustCcModel.Proofs.Helpers
/-! GENERATED simp lemmas: helpers keep stack and flags. -/
namespace RustCc
namespace World
@[simp] theorem removeFromList_stack (w : World) (x : Id) : (w.removeFromList x).stack = w.stack := (removeFromList_ctl w x).stack
@[simp] theorem removeFromList_collecting (w : World) (x : Id) : (w.removeFromList x).collecting = w.collecting := (removeFromList_ctl w x).collecting
@[simp] theorem removeFromList_finalizing (w : World) (x : Id) : (w.removeFromList x).finalizing = w.finalizing := (removeFromList_ctl w x).finalizing
@[simp] theorem removeFromList_dropping (w : World) (x : Id) : (w.removeFromList x).dropping = w.dropping := (removeFromList_ctl w x).dropping
@[simp] theorem addToList_stack (w : World) (x : Id) : (w.addToList x).stack = w.stack := (addToList_ctl w x).stack
@[simp] theorem addToList_collecting (w : World) (x : Id) : (w.addToList x).collecting = w.collecting := (addToList_ctl w x).collecting
@[simp] theorem addToList_finalizing (w : World) (x : Id) : (w.addToList x).finalizing = w.finalizing := (addToList_ctl w x).finalizing
@[simp] theorem addToList_dropping (w : World) (x : Id) : (w.addToList x).dropping = w.dropping := (addToList_ctl w x).dropping
@[simp] theorem dropMetadata_stack (w : World) (x : Id) : (w.dropMetadata x).stack = w.stack := (dropMetadata_ctl w x).stack
@[simp] theorem dropMetadata_collecting (w : World) (x : Id) : (w.dropMetadata x).collecting = w.collecting := (dropMetadata_ctl w x).collecting
@[simp] theorem dropMetadata_finalizing (w : World) (x : Id) : (w.dropMetadata x).finalizing = w.finalizing := (dropMetadata_ctl w x).finalizing
@[simp] theorem dropMetadata_dropping (w : World) (x : Id) : (w.dropMetadata x).dropping = w.dropping := (dropMetadata_ctl w x).dropping
@[simp] theorem freeBox_stack (w : World) (x : Id) : (w.freeBox x).stack = w.stack := (freeBox_ctl w x).stack
@[simp] theorem freeBox_collecting (w : World) (x : Id) : (w.freeBox x).collecting = w.collecting := (freeBox_ctl w x).collecting
@[simp] theorem freeBox_finalizing (w : World) (x : Id) : (w.freeBox x).finalizing = w.finalizing := (freeBox_ctl w x).finalizing
@[simp] theorem freeBox_dropping (w : World) (x : Id) : (w.freeBox x).dropping = w.dropping := (freeBox_ctl w x).dropping
@[simp] theorem weakDrop_stack (w : World) (r : WRef) : (w.weakDrop r).stack = w.stack := (weakDrop_ctl w r).stack
@[simp] theorem weakDrop_collecting (w : World) (r : WRef) : (w.weakDrop r).collecting = w.collecting := (weakDrop_ctl w r).collecting
@[simp] theorem weakDrop_finalizing (w : World) (r : WRef) : (w.weakDrop r).finalizing = w.finalizing := (weakDrop_ctl w r).finalizing
@[simp] theorem weakDrop_dropping (w : World) (r : WRef) : (w.weakDrop r).dropping = w.dropping := (weakDrop_ctl w r).dropping
@[simp] theorem initMeta_stack (w : World) (x : Id) : (w.initMeta x).stack = w.stack := (initMeta_ctl w x).stack
@[simp] theorem initMeta_collecting (w : World) (x : Id) : (w.initMeta x).collecting = w.collecting := (initMeta_ctl w x).collecting
@[simp] theorem initMeta_finalizing (w : World) (x : Id) : (w.initMeta x).finalizing = w.finalizing := (initMeta_ctl w x).finalizing
@[simp] theorem initMeta_dropping (w : World) (x : Id) : (w.initMeta x).dropping = w.dropping := (initMeta_ctl w x).dropping
@[simp] theorem setH_stack (w : World) (k : Nat) (v : Option Id) : (w.setH k v).stack = w.stack := (setH_ctl w k v).stack
@[simp] theorem setH_collecting (w : World) (k : Nat) (v : Option Id) : (w.setH k v).collecting = w.collecting := (setH_ctl w k v).collecting
@[simp] theorem setH_finalizing (w : World) (k : Nat) (v : Option Id) : (w.setH k v).finalizing = w.finalizing := (setH_ctl w k v).finalizing
@[simp] theorem setH_dropping (w : World) (k : Nat) (v : Option Id) : (w.setH k v).dropping = w.dropping := (setH_ctl w k v).dropping
@[simp] theorem setW_stack (w : World) (k : Nat) (v : Option WRef) : (w.setW k v).stack = w.stack := (setW_ctl w k v).stack
@[simp] theorem setW_collecting (w : World) (k : Nat) (v : Option WRef) : (w.setW k v).collecting = w.collecting := (setW_ctl w k v).collecting
@[simp] theorem setW_finalizing (w : World) (k : Nat) (v : Option WRef) : (w.setW k v).finalizing = w.finalizing := (setW_ctl w k v).finalizing
@[simp] theorem setW_dropping (w : World) (k : Nat) (v : Option WRef) : (w.setW k v).dropping = w.dropping := (setW_ctl w k v).dropping
@[simp] theorem setK_stack (w : World) (k : Nat) (v : Option (Id × Nat × Nat)) : (w.setK k v).stack = w.stack := (setK_ctl w k v).stack
@[simp] theorem setK_collecting (w : World) (k : Nat) (v : Option (Id × Nat × Nat)) : (w.setK k v).collecting = w.collecting := (setK_ctl w k v).collecting
@[simp] theorem setK_finalizing (w : World) (k : Nat) (v : Option (Id × Nat × Nat)) : (w.setK k v).finalizing = w.finalizing := (setK_ctl w k v).finalizing
@[simp] theorem setK_dropping (w : World) (k : Nat) (v : Option (Id × Nat × Nat)) : (w.setK k v).dropping = w.dropping := (setK_ctl w k v).dropping
@[simp] theorem cloneOk_stack (w : World) (x : Id) : (w.cloneOk x).stack = w.stack := (cloneOk_ctl w x).stack
@[simp] theorem cloneOk_collecting (w : World) (x : Id) : (w.cloneOk x).collecting = w.collecting := (cloneOk_ctl w x).collecting
@[simp] theorem cloneOk_finalizing (w : World) (x : Id) : (w.cloneOk x).finalizing = w.finalizing := (cloneOk_ctl w x).finalizing
@[simp] theorem cloneOk_dropping (w : World) (x : Id) : (w.cloneOk x).dropping = w.dropping := (cloneOk_ctl w x).dropping
@[simp] theorem updAll_stack (w : World) (l : List Id) (f : Obj → Obj) : (w.updAll l f).stack = w.stack := (updAll_ctl w l f).stack
@[simp] theorem updAll_collecting (w : World) (l : List Id) (f : Obj → Obj) : (w.updAll l f).collecting = w.collecting := (updAll_ctl w l f).collecting
@[simp] theorem updAll_finalizing (w : World) (l : List Id) (f : Obj → Obj) : (w.updAll l f).finalizing = w.finalizing := (updAll_ctl w l f).finalizing
@[simp] theorem updAll_dropping (w : World) (l : List Id) (f : Obj → Obj) : (w.updAll l f).dropping = w.dropping := (updAll_ctl w l f).dropping
@[simp] theorem updAll_pc (w : World) (l : List Id) (f : Obj → Obj) : (w.updAll l f).pc = w.pc := (updAll_same w l f).1
@[simp] theorem updAll_events (w : World) (l : List Id) (f : Obj → Obj) : (w.updAll l f).events = w.events := (updAll_same w l f).2.1
end World
end RustCc
