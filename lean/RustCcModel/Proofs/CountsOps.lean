import RustCcModel.Proofs.CountsBlocks
/-! `Counts` is preserved by every operation (`execOp`). -/
namespace RustCc
open World
variable {ex : Bool}

theorem not_occupied {w : World} {k : Nat} (hk : ¬ ((w.getH k).isSome = true ∨ k ≥ w.H.length)) :
    w.getH k = none ∧ k < w.H.length := by
  constructor
  · cases h : w.getH k with
    | none => rfl
    | some v => exact absurd (Or.inl (by simp [h])) hk
  · cases Nat.lt_or_ge k w.H.length with
    | inl h => exact h
    | inr h => exact absurd (Or.inr h) hk

/-- Frames that hold no pointer and name no object. -/
theorem CountsH.pushPlain {w : World} {E : List Id} (h : CountsH ex w E) (f : Frame) (hh : f.holds = []) (hi : f.ids = []) :
    CountsH ex (w.push f) E :=
  CountsH.pushFrame f (by rw [hh]; simpa using h) (by rw [hi]; intro i hi; cases hi)

theorem CountsH.startCollect {w : World} {E : List Id} (h : CountsH ex w E) : CountsH ex w.startCollect E := by
  unfold World.startCollect
  apply CountsH.pushPlain _ _ rfl rfl
  exact (h.congr rfl rfl rfl rfl rfl rfl rfl : CountsH ex { w with collecting := true, finalizing := false, dropping := false, execs := w.execs + 1 } E).emit _

theorem execOp_counts_new (c : Cfg) (w : World) (self wc : Option Id) (k : Nat) (sp : NewSpec) (h : CountsG ex w) :
    CountsG ex (execOp c w self wc (.new k sp)) := by
  have hH := h.toH
  simp only [execOp]
  split
  · exact (h.ret _).ret _
  · split
    · exact ((((hH.ret _).pushPlain _ rfl rfl).pushPlain _ rfl rfl).startCollect).toCounts0
    · exact ((hH.ret _).pushPlain _ rfl rfl).toCounts0

theorem execOp_counts_newCyclic (c : Cfg) (w : World) (self wc : Option Id) (k : Nat) (sp : NewSpec) (body : Nat) (selfw : Option Nat)
    (h : CountsG ex w) : CountsG ex (execOp c w self wc (.newCyclic k sp body selfw)) := by
  have hH := h.toH
  simp only [execOp]
  split
  · exact (h.ret _).ret _
  · split
    · exact ((((hH.ret _).pushPlain _ rfl rfl).pushPlain _ rfl rfl).startCollect).toCounts0
    · exact ((hH.ret _).pushPlain _ rfl rfl).toCounts0

theorem execOp_counts_clone (c : Cfg) (w : World) (self wc : Option Id) (r : CRef) (k : Nat) (h : CountsG ex w)
    (hself : ∀ s, self = some s → s < w.next) : CountsG ex (execOp c w self wc (.clone r k)) := by
  have hH := h.toH
  simp only [execOp]
  split
  · rename_i y hy
    have hylt := resolveC_lt h hself hy
    split
    · exact (h.ret _).ret _
    · rename_i hk
      obtain ⟨hnone, hklt⟩ := not_occupied hk
      split
      · exact (((hH.clone y hylt).putTable (by simpa [getH] using hnone) (by simpa using hklt)).ret _).toCounts0
      · exact h.raise
  · exact (h.ret _).ret _

theorem execOp_counts_drop (c : Cfg) (w : World) (self wc : Option Id) (k : Nat) (h : CountsG ex w) :
    CountsG ex (execOp c w self wc (.drop k)) := by
  have hH := h.toH
  simp only [execOp]
  split
  · rename_i x hx
    exact (CountsH.pushFrame (.dropCc x) ((hH.takeTable hx).ret _) (by intro i hi; cases hi)).toCounts0
  · exact (h.ret _).ret _

end RustCc
