import RustCcModel.Proofs.WeakExact
import RustCcModel.Proofs.Untouched
/-! **Nobody writes the fields of a value under construction**: while the closure of `new_cyclic` runs, the weak fields of
the new object are all empty (so storing the closure's `Weak` loses none), no callback has it as `self`, no drop glue works
on it. This discharges the `new_cyclic` side condition of the exactness of weak counts. -/
namespace RustCc
open World

/-- The object whose fields a frame may write: `self` of a callback script, the object whose fields are being dropped. -/
def Frame.selfId : Frame → Option Id
  | .script _ (some s) _ _ => some s
  | .dropFields x _ => some x
  | .dropMoved x => some x
  | _ => none

theorem resolveN_ne {w : World} (hc : Counts w) {self : Option Id} (hself : ∀ s, self = some s → s < w.next)
    {n : NRef} {t id : Id} (hr : w.resolveN self n = some t) (hrc0 : (w.heap id).rc = 0) (hs : ∀ s, self = some s → s ≠ id) :
    t ≠ id := by
  cases n with
  | self =>
    cases self with
    | none => simp [resolveN] at hr
    | some s => simp [resolveN] at hr; subst hr; exact hs s rfl
  | of r =>
    have := resolveC_rc hc hself (r := r) (y := t) (by simpa [resolveN] using hr)
    intro e; subst e; exact this hrc0

macro "ws_tac" : tactic => `(tactic| (
  simp [upd_wslots_same', updAll_wslots_same', World.setH, World.setW, World.setK, World.startCollect, World.emit, World.push,
    World.updMeta, World.putH]))

set_option maxHeartbeats 16000000 in
/-- A script operation does not write the weak fields of an object nobody points to and that is not the callback's `self`. -/
theorem execOp_ws (c : Cfg) (w : World) (self wc : Option Id) (op : Op) (id : Id) (hc : Counts w)
    (hself : ∀ s, self = some s → s < w.next) (hrc0 : (w.heap id).rc = 0) (hs : ∀ s, self = some s → s ≠ id) :
    ((execOp c w self wc op).heap id).wslots = (w.heap id).wslots := by
  cases op with
  | fault kind n j => cases kind <;> rfl
  | setw n i ws =>
    simp only [execOp]
    repeat' split
    all_goals first
      | rfl
      | (have hne := resolveN_ne hc hself ‹w.resolveN self n = some _› hrc0 hs
         simp [World.upd, Heap.set, Ne.symm hne, World.updMeta, weakDrop_heap]; done)
      | (simp; done)
  | clrw n i =>
    simp only [execOp]
    repeat' split
    all_goals first
      | rfl
      | (have hne := resolveN_ne hc hself ‹w.resolveN self n = some _› hrc0 hs
         simp [World.upd, Heap.set, Ne.symm hne, weakDrop_heap]; done)
      | (simp; done)
  | _ =>
    simp only [execOp]
    repeat' split
    all_goals first | rfl | (ws_tac; done)

theorem putH_heap2 (w : World) (k : Nat) (x : Id) : (w.putH k x).heap = w.heap := by
  unfold World.putH; split <;> rfl

theorem takeField_ws_cc {o o' : Obj} {y : Id} (h : takeField o = (.cc y, o')) : o'.wslots = o.wslots := (takeField_cc_w h).1

theorem foldl_free_ws (c : Cfg) (N : List Id) : ∀ (w : World) (x : Id),
    ((N.foldl (fun w x => (if c.weak then w.dropMetadata x else w).freeBox x) w).heap x).wslots = (w.heap x).wslots := by
  induction N with
  | nil => intro w x; rfl
  | cons y r ih => intro w x; simp only [List.foldl_cons]; rw [ih]; split <;> simp

set_option maxHeartbeats 16000000 in
/-- A frame step does not write the weak fields of `id` unless the frame works on `id` itself. -/
theorem stepFrame_ws (c : Cfg) (w : World) (f : Frame) (id : Id) (hlt : id < w.next)
    (hsf : ∀ s, f.selfId = some s → s ≠ id) (hnc : ∀ k sp sw, f ≠ .newCyclicEnd k id sp sw)
    (hscript : ∀ op ops self wc top, f = .script (op :: ops) self wc top →
      ((execOp c (w.push (.script ops self wc top)) self wc op).heap id).wslots = (w.heap id).wslots) :
    ((stepFrame c w f).heap id).wslots = (w.heap id).wslots := by
  have hne : id ≠ w.next := Nat.ne_of_lt hlt
  cases f with
  | script ops self wc top =>
    cases ops with
    | nil => rfl
    | cons op ops =>
      simp only [stepFrame]
      have := hscript op ops self wc top rfl
      split <;> exact this
  | collectPass =>
    simp only [stepFrame, startDealloc]
    generalize tracePhasesF _ _ _ _ _ = r
    obtain ⟨res, fault⟩ := r
    cases res <;> simp only [] <;> repeat' split
    all_goals (ws_tac; done)
  | dropFields x unw =>
    have hx : id ≠ x := fun e => hsf x rfl e.symm
    simp only [stepFrame]
    split
    · simp [World.upd, Heap.set, hx, World.push]
    · simp [World.upd, Heap.set, hx, World.push, weakDrop_heap]
    · split <;> rfl
  | deallocDrop N r oD =>
    cases r with
    | cons y r => simp only [stepFrame]; repeat' split
                  all_goals (ws_tac; done)
    | nil =>
      simp only [stepFrame]
      split
      · rfl
      · exact foldl_free_ws c N w id
  | newCyclicEnd k id' sp selfw =>
    have hx : id ≠ id' := fun e => hnc k sp selfw (by rw [e])
    simp only [stepFrame]
    repeat' split
    all_goals first
      | (simp only [putH_heap2, weakDrop_heap, s_raise_heap, World.push_heap]; done)
      | (simp only [putH_heap2, weakDrop_heap, s_raise_heap, World.push_heap]; simp [World.upd, Heap.set, hx, World.updMeta]; done)
  | regInsert owner script k cap =>
    simp only [stepFrame]
    split
    · rfl
    · split
      · ws_tac
      · rename_i m hm hb
        have hgen : ∀ (idx : Nat) (om' : Obj), om'.wslots = (w.heap m).wslots →
            ((if (((({ w with nextAid := w.nextAid + 1 } : World).upd m fun _ => om').initMeta m).metas m).weak ≥ c.weakMax then
                ((({ w with nextAid := w.nextAid + 1 } : World).upd m fun _ => om').initMeta m).raise
              else ((((({ w with nextAid := w.nextAid + 1 } : World).upd m fun _ => om').initMeta m).updMeta m
                fun mm => { mm with weak := mm.weak + 1 }).removeFromList m).setK k (some (m, idx, w.nextAid))).heap id).wslots
              = (w.heap id).wslots := by
          intro idx om' hom
          have hlv : ((({ w with nextAid := w.nextAid + 1 } : World).upd m fun _ => om').heap id).wslots = (w.heap id).wslots := by
            by_cases e : id = m
            · subst e; simpa using hom
            · simp [World.upd, Heap.set, e]
          split
          · rw [s_raise_heap, wk_initMeta_wslots, hlv]
          · have : ∀ W : World, ((W.setK k (some (m, idx, w.nextAid))).heap id) = W.heap id := fun _ => rfl
            rw [this, wk_removeFromList_wslots]
            simp only [World.updMeta_heap]
            rw [wk_initMeta_wslots, hlv]
        cases hfr : (w.heap m).afree with
        | nil => simp only []; refine hgen _ _ ?_; rfl
        | cons i fr => simp only []; refine hgen _ _ ?_; rfl
  | newAlloc k sp =>
    simp only [stepFrame]
    simp only [putH_heap2]
    simp [World.emit, Heap.set, hne]
  | newCyclicAlloc k sp body selfw =>
    simp only [stepFrame]
    split <;> simp [World.emit, World.push, World.updMeta, Heap.set, hne]
  | mapAlloc owner =>
    simp only [stepFrame]
    split
    · simp only [upd_wslots_same' _ _ (fun o : Obj => { o with cmap := some w.next }) _ (fun _ => rfl)]
      simp [World.emit, Heap.set, hne]
    · simp [World.emit, World.push, Heap.set, hne]
  | _ =>
    simp only [stepFrame, destroyLast, startDealloc]
    repeat' split
    all_goals first | rfl | (ws_tac; done)

set_option maxHeartbeats 4000000 in
theorem unwindFrame_ws (c : Cfg) (w : World) (f : Frame) (id : Id) : ((unwindFrame c w f).heap id).wslots = (w.heap id).wslots := by
  cases f <;> simp only [unwindFrame] <;> repeat' split
  all_goals first | rfl | (ws_tac; done) | (simp [weakDrop_heap]; done)

/-! ### Which frames a step pushes -/

/-- `st` is `rest` with frames satisfying `P` pushed. -/
inductive PushedP (P : Frame → Prop) (rest : List Frame) : List Frame → Prop
  | refl : PushedP P rest rest
  | cons (g : Frame) (st : List Frame) : P g → PushedP P rest st → PushedP P rest (g :: st)

theorem PushedP.mem {P : Frame → Prop} {rest st : List Frame} (h : PushedP P rest st) {g : Frame} (hg : g ∈ st) : g ∈ rest ∨ P g := by
  induction h with
  | refl => exact Or.inl hg
  | cons f st hf _ ih =>
    rcases List.mem_cons.1 hg with e | e
    · subst e; exact Or.inr hf
    · exact ih e

theorem PushedP.trans {P : Frame → Prop} {a b c : List Frame} (h1 : PushedP P a b) (h2 : PushedP P b c) : PushedP P a c := by
  induction h2 with
  | refl => exact h1
  | cons f st hf _ ih => exact PushedP.cons f st hf ih

theorem PushedP.mono {P Q : Frame → Prop} {a b : List Frame} (h : PushedP P a b) (hpq : ∀ g, P g → Q g) : PushedP Q a b := by
  induction h with
  | refl => exact .refl
  | cons f st hf _ ih => exact .cons f st (hpq f hf) ih

/-- What a pushed frame may work on: nothing, or the given object; and it starts no `new_cyclic` but possibly for `nx`. -/
def okFrame (o : Option Id) (g : Frame) : Prop :=
  (g.selfId = none ∨ g.selfId = o) ∧ g.cyc = []

macro "pp_tac" : tactic => `(tactic| (
  try simp only [World.push_stack, World.emit_stack, World.upd_stack, World.updMeta_stack, World.removeFromList_stack, World.addToList_stack,
    World.dropMetadata_stack, World.freeBox_stack, World.weakDrop_stack, World.initMeta_stack, World.setH_stack, World.setW_stack,
    World.setK_stack, World.cloneOk_stack, World.updAll_stack, stack_raise, stack_raiseLogged, fromT1_stack, s_startCollect_stack']
  repeat (first
    | exact PushedP.refl
    | (refine PushedP.cons _ _ ⟨Or.inl rfl, rfl⟩ ?_)
    | (refine PushedP.cons _ _ ⟨Or.inr rfl, rfl⟩ ?_)
    | (refine PushedP.cons _ _ ⟨?hsel, rfl⟩ ?_; case hsel => (cases ‹Option Id› <;> simp [Frame.selfId]; done)))))

theorem putH_pp (o : Option Id) (w : World) (k : Nat) (y : Id) : PushedP (okFrame o) w.stack (w.putH k y).stack := by
  unfold World.putH; split
  · exact PushedP.cons _ _ ⟨Or.inl rfl, rfl⟩ PushedP.refl
  · exact PushedP.refl

set_option maxHeartbeats 8000000 in
/-- Frames pushed by a script operation work on nothing — but for `try_unwrap`, whose moved-out value is dropped. -/
theorem execOp_pp (c : Cfg) (w : World) (self wc : Option Id) (op : Op) :
    PushedP (okFrame (match op with | .unwrap k => w.getH k | _ => none)) w.stack (execOp c w self wc op).stack := by
  cases op with
  | fault kind n j => cases kind <;> exact PushedP.refl
  | unwrap k =>
    simp only [execOp]
    repeat' split
    all_goals first
      | (pp_tac; done)
      | (simp only [World.push_stack, World.emit_stack, World.upd_stack, World.updMeta_stack, World.removeFromList_stack,
           World.dropMetadata_stack, World.freeBox_stack, World.setH_stack]
         exact PushedP.cons _ _ ⟨Or.inr (by rw [‹w.getH k = some _›]; rfl), rfl⟩ PushedP.refl)
  | _ =>
    simp only [execOp]
    repeat' split
    all_goals (pp_tac; done)

/-- The object the frame on top of the stack works on. -/
def Frame.owner : Frame → Option Id
  | .script _ self _ _ => self
  | .dropValue x => some x
  | .callFin x => some x
  | .dropFields x _ => some x
  | .dropMoved x => some x
  | _ => none

def okFrame2 (w : World) (f : Frame) (g : Frame) : Prop :=
  (g.selfId = none ∨ g.selfId = f.owner ∨ ∃ k, g.selfId = w.getH k) ∧
  (g.cyc = [] ∨ g = f ∨ ∃ k sp b sw, f = .newCyclicAlloc k sp b sw ∧ g = .newCyclicEnd k w.next sp sw)

theorem okFrame_to2 (w : World) (f : Frame) (g : Frame) (h : okFrame f.owner g) : okFrame2 w f g :=
  ⟨h.1.elim Or.inl (fun e => Or.inr (Or.inl e)), Or.inl h.2⟩

theorem okFrame_none_to2 (w : World) (f : Frame) (g : Frame) (h : okFrame none g) : okFrame2 w f g :=
  ⟨h.1.elim Or.inl Or.inl, Or.inl h.2⟩

macro "pp2_tac" : tactic => `(tactic| (
  refine PushedP.mono (P := okFrame _) ?_ (okFrame_to2 _ _)
  pp_tac))

set_option maxHeartbeats 8000000 in
theorem stepFrame_pp (c : Cfg) (w : World) (f : Frame) : PushedP (okFrame2 w f) w.stack (stepFrame c w f).stack := by
  cases f with
  | script ops self wc top =>
    cases ops with
    | nil => exact .refl
    | cons op ops =>
      simp only [stepFrame]
      have h1 : PushedP (okFrame2 w (.script (op :: ops) self wc top)) w.stack (w.push (.script ops self wc top)).stack :=
        .cons _ _ ⟨Or.inr (Or.inl (by cases self <;> rfl)), Or.inl rfl⟩ .refl
      have h2 := execOp_pp c (w.push (.script ops self wc top)) self wc op
      have h3 : PushedP (okFrame2 w (.script (op :: ops) self wc top)) (w.push (.script ops self wc top)).stack
          (execOp c (w.push (.script ops self wc top)) self wc op).stack := by
        refine h2.mono ?_
        intro g hg
        refine ⟨?_, Or.inl hg.2⟩
        rcases hg.1 with e | e
        · exact Or.inl e
        · cases op <;> first | exact Or.inl e | exact Or.inr (Or.inr ⟨_, e⟩)
      have := h1.trans h3
      split <;> exact this
  | collectPass =>
    simp only [stepFrame, startDealloc]
    generalize tracePhasesF _ _ _ _ _ = r
    obtain ⟨res, fault⟩ := r
    cases res <;> simp only [] <;> repeat' split
    all_goals pp2_tac
  | deallocDrop N r oD =>
    cases r with
    | cons y r => simp only [stepFrame]; repeat' split
                  all_goals pp2_tac
    | nil =>
      simp only [stepFrame]
      split
      · pp2_tac
      · simp only [foldl_free_stack]; exact .refl
  | dropCc x =>
    simp only [stepFrame]
    repeat' split
    all_goals first
      | (pp2_tac; done)
      | (obtain ⟨d, hd⟩ := destroyLast_stack c w x
         rw [hd]
         exact .cons _ _ ⟨Or.inl rfl, Or.inl rfl⟩ (.cons _ _ ⟨Or.inl rfl, Or.inl rfl⟩ .refl))
  | dropCcAfterFin x oF =>
    simp only [stepFrame]
    split
    · pp2_tac
    · obtain ⟨d, hd⟩ := destroyLast_stack c ({ w with finalizing := oF } : World) x
      rw [hd]
      exact .cons _ _ ⟨Or.inl rfl, Or.inl rfl⟩ (.cons _ _ ⟨Or.inl rfl, Or.inl rfl⟩ .refl)
  | newCyclicEnd k id sp selfw =>
    simp only [stepFrame]
    repeat' split
    all_goals first
      | (simp only [stack_raise, World.push_stack]
         exact .cons _ _ ⟨Or.inl rfl, Or.inr (Or.inl rfl)⟩ .refl)
      | (refine PushedP.trans ?_ ((putH_pp none _ _ _).mono (okFrame_none_to2 _ _)); pp2_tac; done)
  | newCyclicAlloc k sp body selfw =>
    simp only [stepFrame]
    split
    · simp only [stack_raiseLogged, World.push_stack, World.updMeta_stack, World.emit_stack]
      exact .cons _ _ ⟨Or.inl rfl, Or.inr (Or.inr ⟨k, sp, body, selfw, rfl, rfl⟩)⟩ .refl
    · simp only [World.push_stack, World.updMeta_stack, World.emit_stack]
      exact .cons _ _ ⟨Or.inl rfl, Or.inl rfl⟩ (.cons _ _ ⟨Or.inl rfl, Or.inr (Or.inr ⟨k, sp, body, selfw, rfl, rfl⟩)⟩ .refl)
  | _ =>
    simp only [stepFrame, startDealloc]
    repeat' split
    all_goals first
      | (pp2_tac; done)
      | (refine PushedP.trans ?_ ((putH_pp none _ _ _).mono (okFrame_none_to2 _ _)); pp2_tac; done)

set_option maxHeartbeats 4000000 in
theorem unwindFrame_pp (c : Cfg) (w : World) (f : Frame) : PushedP (okFrame2 w f) w.stack (unwindFrame c w f).stack := by
  cases f <;> simp only [unwindFrame] <;> repeat' split
  all_goals first
    | (pp2_tac; done)
    | (rename_i heq; cases heq; pp2_tac; done)
    | (rename_i heq; cases heq; done)

/-! ### The invariant -/

structure CF (w : World) : Prop where
  /-- no callback runs with an object under construction as `self`, no drop glue works on one -/
  snc : ∀ g ∈ w.stack, ∀ s, g.selfId = some s → s ∉ cycs w.stack
  /-- the weak fields of an object under construction are all empty -/
  fresh : ∀ k id sp sw, Frame.newCyclicEnd k id sp sw ∈ w.stack → (w.heap id).wslots = List.replicate sp.nw none

theorem selfId_mem_ids {g : Frame} {s : Id} (h : g.selfId = some s) : s ∈ g.ids := by
  cases g <;> simp [Frame.selfId] at h
  · rename_i ops self wc top
    cases self <;> simp at h
    subst h; simp [Frame.ids]
  · subst h; simp [Frame.ids]
  · subst h; simp [Frame.ids]

theorem owner_cases {f : Frame} {s : Id} (h : f.owner = some s) : f.selfId = some s ∨ f = .dropValue s ∨ f = .callFin s := by
  cases f with
  | script ops self wc top =>
    left
    have : self = some s := h
    subst this; rfl
  | dropValue x => have : x = s := by simpa [Frame.owner] using h
                   subst this; exact Or.inr (Or.inl rfl)
  | callFin x => have : x = s := by simpa [Frame.owner] using h
                 subst this; exact Or.inr (Or.inr rfl)
  | dropFields x unw => have : x = s := by simpa [Frame.owner] using h
                        subst this; exact Or.inl rfl
  | dropMoved x => have : x = s := by simpa [Frame.owner] using h
                   subst this; exact Or.inl rfl
  | _ => simp [Frame.owner] at h

theorem owner_mem_ids {f : Frame} {s : Id} (h : f.owner = some s) : s ∈ f.ids := by
  rcases owner_cases h with e | e | e
  · exact selfId_mem_ids e
  · subst e; simp [Frame.ids]
  · subst e; simp [Frame.ids]

theorem PushedP.cycs_sub {w : World} {f : Frame} {rest st : List Frame} (h : PushedP (okFrame2 w f) rest st) :
    ∀ x ∈ cycs st, x ∈ cycs rest ∨ x ∈ f.cyc ∨ x = w.next := by
  induction h with
  | refl => exact fun x hx => Or.inl hx
  | cons g st hg _ ih =>
    intro x hx
    rw [cycs_cons] at hx
    rcases List.mem_append.1 hx with e | e
    · rcases hg.2 with h1 | h1 | ⟨k, sp, b, sw, _, h1⟩
      · rw [h1] at e; cases e
      · subst h1; exact Or.inr (Or.inl e)
      · subst h1; simp [Frame.cyc] at e; exact Or.inr (Or.inr e)
    · exact ih x e

theorem mem_cycs_of_frame {st : List Frame} {k : Nat} {id : Id} {sp : NewSpec} {sw : Option Nat}
    (h : Frame.newCyclicEnd k id sp sw ∈ st) : id ∈ cycs st := by
  unfold cycs; rw [List.mem_flatMap]; exact ⟨_, h, by simp [Frame.cyc]⟩

/-- Where the `self` of a frame of the new stack comes from: never from an object under construction. -/
theorem self_origin (c : Cfg) (w : World) (f : Frame) (rest : List Frame) (ha : AllInv c w) (hdv : DV w) (h : CF w)
    (hs : w.stack = f :: rest) {st : List Frame} (hp : PushedP (okFrame2 { w with stack := rest } f) rest st)
    {g : Frame} (hg : g ∈ st) {s : Id} (hsel : g.selfId = some s) : s ∉ cycs w.stack ∧ s < w.next := by
  rcases hp.mem hg with e | e
  · have hm : g ∈ w.stack := by rw [hs]; exact List.mem_cons_of_mem _ e
    exact ⟨h.snc g hm s hsel, ha.counts.frames g hm s (selfId_mem_ids hsel)⟩
  · rcases e.1 with e1 | e1 | ⟨k, e1⟩
    · rw [e1] at hsel; cases hsel
    · rw [hsel] at e1
      have hfm : f ∈ w.stack := by rw [hs]; exact List.mem_cons_self ..
      refine ⟨?_, ha.counts.frames f hfm s (owner_mem_ids e1.symm)⟩
      rcases owner_cases e1.symm with e2 | e2 | e2
      · exact h.snc f hfm s e2
      · subst e2; exact (hdv.head _ s (by rw [hs]; rfl) rfl).2
      · subst e2; exact (hdv.head _ s (by rw [hs]; rfl) rfl).2
    · rw [hsel] at e1
      have hk : w.getH k = some s := e1.symm
      have hrc := getH_rc ha.counts hk
      exact ⟨not_cyc_of_rc ha.inv hrc, getH_lt ha.counts hk⟩

theorem CF.congr {w w' : World} (h : CF w) (hst : w'.stack = w.stack) (hh : ∀ x, (w'.heap x).wslots = (w.heap x).wslots) : CF w' :=
  ⟨fun g hg s hs => by rw [hst] at hg ⊢; exact h.snc g hg s hs,
   fun k id sp sw hm => by rw [hst] at hm; rw [hh]; exact h.fresh k id sp sw hm⟩

theorem putH_frames (w : World) (k : Nat) (y : Id) {g : Frame} (hg : g ∈ (w.putH k y).stack) : g ∈ w.stack ∨ g.cyc = [] := by
  unfold World.putH at hg
  split at hg
  · simp [World.push, World.setH] at hg
    rcases hg with e | e
    · subst e; exact Or.inr rfl
    · exact Or.inl e
  · exact Or.inl hg

theorem nce_step (c : Cfg) (w : World) (k : Nat) (id : Id) (sp : NewSpec) (sw : Option Nat) :
    stepFrame c w (.newCyclicEnd k id sp sw) = (w.push (.newCyclicEnd k id sp sw)).raise ∨
    ∃ X : World, X.stack = w.stack ∧ stepFrame c w (.newCyclicEnd k id sp sw) = X.putH k id := by
  cases sw <;> simp only [stepFrame] <;> split
  all_goals first
    | exact Or.inl rfl
    | (right
       refine ⟨_, ?_, rfl⟩
       simp only [wk_weakDrop_stack, World.upd_stack]
       split <;> simp)

theorem zeroed_nodup {w : World} (hi : Inv w) : (zeroed w.stack).Nodup := (List.nodup_append.1 hi.oi.ownNodup).1

/-- Two `new_cyclic` frames never build the same object. -/
theorem cyc_frame_unique {w : World} (hi : Inv w) {f : Frame} {rest : List Frame} (hs : w.stack = f :: rest)
    {id : Id} (hf : id ∈ f.cyc) (hr : id ∈ cycs rest) : False := by
  have hn := zeroed_nodup hi
  rw [hs, zeroed_cons] at hn
  have h1 : id ∈ f.zeroed := by cases f <;> simp [Frame.cyc] at hf; subst hf; simp [Frame.zeroed]
  exact (List.nodup_append.1 hn).2.2 id h1 id (cycs_sub_zeroed rest id hr) rfl

theorem stepFrame_cf (c : Cfg) (w : World) (f : Frame) (rest : List Frame) (ha : AllInv c w) (hdv : DV w) (h : CF w)
    (hs : w.stack = f :: rest) : CF (stepFrame c { w with stack := rest } f) := by
  have hi := ha.inv
  have hcy : cycs w.stack = f.cyc ++ cycs rest := by rw [hs, cycs_cons]
  have hp := stepFrame_pp c { w with stack := rest } f
  -- `self` of every frame of the new stack is not under construction (old or new)
  have hsnc : ∀ g ∈ (stepFrame c { w with stack := rest } f).stack, ∀ s, g.selfId = some s →
      s ∉ cycs (stepFrame c { w with stack := rest } f).stack := by
    intro g hg s hsel hx
    obtain ⟨h1, h2⟩ := self_origin c w f rest ha hdv h hs hp hg hsel
    rcases hp.cycs_sub s hx with e | e | e
    · exact h1 (by rw [hcy]; exact List.mem_append_right _ e)
    · exact h1 (by rw [hcy]; exact List.mem_append_left _ e)
    · have e' : s = w.next := e
      rw [e'] at h2
      exact Nat.lt_irrefl _ h2
  refine ⟨hsnc, ?_⟩
  intro k id sp sw hm
  have hrc0 : ∀ id', id' ∈ cycs w.stack → (w.heap id').rc = 0 := fun id' hc => (hi.oi.zero id' (hi.oi.cycZ id' hc)).2.1
  rcases hp.mem hm with e | e
  · -- an old frame: nothing wrote the weak fields of its object
    have hold := h.fresh k id sp sw (by rw [hs]; exact List.mem_cons_of_mem _ e)
    have hidc : id ∈ cycs rest := mem_cycs_of_frame e
    have hidw : id ∈ cycs w.stack := by rw [hcy]; exact List.mem_append_right _ hidc
    have hlt : id < w.next := ha.counts.frames _ (by rw [hs]; exact List.mem_cons_of_mem _ e) id (by simp [Frame.ids])
    rw [← hold]
    refine stepFrame_ws c { w with stack := rest } f id hlt ?_ ?_ ?_
    · intro s hsel e2
      subst e2
      exact h.snc f (by rw [hs]; exact List.mem_cons_self ..) s hsel hidw
    · intro k' sp' sw' e2
      subst e2
      exact cyc_frame_unique hi hs (by simp [Frame.cyc]) hidc
    · intro op ops self wc top e2
      subst e2
      obtain ⟨hp0, hids⟩ := ha.counts.pop hs
      have hp' : CountsH false { w with stack := rest } [] := by cases self <;> exact hp0
      have hself : ∀ s, self = some s → s < w.next := by
        intro s hs'; subst hs'; exact hids s (by simp [Frame.ids])
      have hc1 := (CountsH.pushFrame (E := []) (.script ops self wc top) (by cases self <;> simpa [Frame.holds] using hp')
        (by cases self <;> simpa [Frame.ids] using hself)).toCounts0
      refine execOp_ws c _ self wc op id hc1 hself (hrc0 id hidw) ?_
      intro s hs' e3
      subst hs' e3
      exact h.snc _ (by rw [hs]; exact List.mem_cons_self ..) s rfl hidw
  · rcases e.2 with e1 | e1 | ⟨k', sp', b, sw', e1, e2⟩
    · simp [Frame.cyc] at e1
    · -- the frame pushed itself back (the weak count is full): nothing was written
      subst e1
      have hold := h.fresh k id sp sw (by rw [hs]; exact List.mem_cons_self ..)
      rw [← hold]
      rcases nce_step c { w with stack := rest } k id sp sw with e3 | ⟨X, hX, e3⟩
      · rw [e3]; simp only [s_raise_heap, World.push_heap]
      · exfalso
        rw [e3] at hm
        have hin : Frame.newCyclicEnd k id sp sw ∈ rest := by
          rcases putH_frames _ _ _ hm with e4 | e4
          · rw [hX] at e4; exact e4
          · simp [Frame.cyc] at e4
        exact cyc_frame_unique hi hs (by simp [Frame.cyc]) (mem_cycs_of_frame hin)
    · -- `new_cyclic` has just allocated the box
      subst e1
      cases e2
      simp only [stepFrame]
      split <;> simp [World.emit, World.push, World.updMeta, Heap.set, newObj]

theorem unwindFrame_cf (c : Cfg) (w : World) (f : Frame) (rest : List Frame) (ha : AllInv c w) (hdv : DV w) (h : CF w)
    (hs : w.stack = f :: rest) : CF (unwindFrame c { w with stack := rest } f) := by
  have hi := ha.inv
  have hcy : cycs w.stack = f.cyc ++ cycs rest := by rw [hs, cycs_cons]
  have hp := unwindFrame_pp c { w with stack := rest } f
  refine ⟨?_, ?_⟩
  · intro g hg s hsel hx
    obtain ⟨h1, h2⟩ := self_origin c w f rest ha hdv h hs hp hg hsel
    rcases hp.cycs_sub s hx with e | e | e
    · exact h1 (by rw [hcy]; exact List.mem_append_right _ e)
    · exact h1 (by rw [hcy]; exact List.mem_append_left _ e)
    · have e' : s = w.next := e
      rw [e'] at h2
      exact Nat.lt_irrefl _ h2
  · intro k id sp sw hm
    rw [unwindFrame_ws]
    rcases hp.mem hm with e | e
    · exact h.fresh k id sp sw (by rw [hs]; exact List.mem_cons_of_mem _ e)
    · rcases e.2 with e1 | e1 | ⟨k', sp', b, sw', e1, e2⟩
      · simp [Frame.cyc] at e1
      · subst e1; exact h.fresh k id sp sw (by rw [hs]; exact List.mem_cons_self ..)
      · -- unwinding pushes no `new_cyclic` frame
        subst e1
        simp only [unwindFrame] at hm
        exact h.fresh k id sp sw (by rw [hs]; exact List.mem_cons_of_mem _ hm)

/-- **In every reachable world** no callback has an object under construction as `self`, no drop glue works on one, and its
weak fields are all empty. -/
theorem reachable_cf {c : Cfg} {nH nW nK : Nat} {w : World} (h : Reachable c nH nW nK w) : CF w := by
  induction h with
  | init => exact ⟨fun g hg => by simp [World.init] at hg, fun k id sp sw hm => by simp [World.init] at hm⟩
  | top w op _ hs hm ih =>
    refine ⟨?_, ?_⟩
    · intro g hg s hsel
      simp only [List.mem_cons, List.mem_nil_iff, or_false] at hg
      rcases hg with e | e <;> subst e <;> simp [Frame.selfId] at hsel
    · intro k id sp sw hmem; simp at hmem
  | step w hr ih =>
    have ha := reachable_all c nH nW nK w hr
    have hdv := reachable_dv hr
    unfold step
    split
    · exact ih
    · exact ih
    · split
      · rename_i hs
        exact ⟨fun g hg => by simp [hs] at hg, fun k id sp sw hm => by simp [hs] at hm⟩
      · rename_i f rest hs
        exact unwindFrame_cf c w f rest ha hdv ih hs
    · split
      · exact ih
      · rename_i f rest hs
        exact stepFrame_cf c w f rest ha hdv ih hs

/-- Histories in which the harness never stores a `Cleanable` over an occupied table entry. -/
inductive ReachableK (c : Cfg) (nH nW nK : Nat) : World → Prop
  | init : ReachableK c nH nW nK (World.init c nH nW nK)
  | step (w) : ReachableK c nH nW nK w →
      (w.mode = .running → ∀ owner script k cap rest, w.stack = .regInsert owner script k cap :: rest → k < w.K.length ∧ w.getK k = none) →
      ReachableK c nH nW nK (step c w)
  | top (w) (op : Op) : ReachableK c nH nW nK w → w.stack = [] → w.mode = .running →
      ReachableK c nH nW nK { w with stack := [.script [op] none none true, .catchTop], events := [], ret := .ok }

theorem ReachableK.reachable {c : Cfg} {nH nW nK : Nat} {w : World} (h : ReachableK c nH nW nK w) : Reachable c nH nW nK w := by
  induction h with
  | init => exact .init
  | step w _ _ ih => exact .step w ih
  | top w op _ hs hm ih => exact .top w op ih hs hm

/-- The `new_cyclic` side condition of `World.wclean` holds in every reachable world. -/
theorem ReachableK.toW {c : Cfg} {nH nW nK : Nat} {w : World} (h : ReachableK c nH nW nK w) : ReachableW c nH nW nK w := by
  induction h with
  | init => exact .init
  | top w op _ hs hm ih => exact .top w op ih hs hm
  | step w hr hk ih =>
    refine .step w ih ?_
    intro hm f rest hs
    have hcf := reachable_cf hr.reachable
    cases f with
    | regInsert owner script k cap => exact hk hm owner script k cap rest hs
    | newCyclicEnd k id sp sw =>
      cases sw with
      | none => trivial
      | some j =>
        intro hj
        rw [hcf.fresh k id sp (some j) (by rw [hs]; exact List.mem_cons_self ..)]
        simp [hj]
    | _ => trivial

/-- **`weak_count()` equals the number of `Weak` pointers that exist**, in every history — caught panics included — in which
the harness never stores a `Cleanable` over an occupied table entry. -/
theorem reachableK_weak_exact {c : Cfg} {nH nW nK : Nat} {w : World} (h : ReachableK c nH nW nK w) (x : Id) :
    (w.metas x).weak = wrefs w x := reachableW_weak_exact h.toW x

end RustCc
