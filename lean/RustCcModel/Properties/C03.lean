import RustCcModel.Proofs.CtlSimp
import RustCcModel.Proofs.BytesInv
import RustCcModel.Proofs.LifeHist
import RustCcModel.Proofs.LifeOwned
/-! # C03 — each value is dropped at most once; each allocation is freed exactly once

Step-level facts about the three places that release a box (`Cc::drop` of the last owner, the free loop
of `deallocate_list`, `try_unwrap`) and about `new_cyclic`'s panic guard. The history-level statement
(per object: `alloc · finalize* · (drop | moveOut)? · free?`) is invariant I8 of DESIGN.md and is checked on
every run by the allocator oracle of the harness (double free, wrong layout, drop of a dead value). -/
namespace RustCc.C03
open World

/-- Releasing a box: exactly one `free` event, the box is gone, the byte counter goes down by its size. -/
theorem freeBox_spec (w : World) (x : Id) :
    (w.freeBox x).events = w.events ++ [.free x] ∧ ((w.freeBox x).heap x).boxLive = false ∧
    (w.freeBox x).allocBytes = w.allocBytes - (w.heap x).size ∧
    (∀ y, y ≠ x → (w.freeBox x).heap y = w.heap y) := by
  refine ⟨rfl, by simp [freeBox, upd], rfl, ?_⟩
  intro y hy; simp [freeBox, upd, Heap.set, hy]

/-- `Cc::drop` of the last owner releases the box only after the value was dropped (the `afterDropValue`
frame sits *below* the `dropValue` frame), and with it the `dropping` flag is restored. -/
theorem destroyLast_order (c : Cfg) (w : World) (x : Id) :
    ∃ oldDrop, (destroyLast c w x).stack = .dropValue x :: .afterDropValue x oldDrop :: w.stack := by
  unfold destroyLast
  refine ⟨(w.upd x fun o => { o with rc := o.rc - 1 }).removeFromList x |>.dropping, ?_⟩
  split <;> simp

/-- The value's destruction begins by marking it not alive: a second `drop_in_place` of the same value would
be visible as a second `drop` event (the harness checks this with a canary on every run). -/
theorem dropValue_marks_dead (c : Cfg) (w : World) (x : Id) : ((stepFrame c w (.dropValue x)).heap x).valLive = false := by
  simp only [stepFrame]
  split
  · split <;> simp [raiseLogged, raise, emit, push, upd] <;> split <;> simp
  · simp [push, upd]

/-- Free loop of `deallocate_list` without weak pointers: one `free` per member, in list order, nothing else. -/
theorem dealloc_free_loop_events (w : World) (N : List Id) :
    (N.foldl (fun w x => w.freeBox x) w).events = w.events ++ N.map Event.free := by
  induction N generalizing w with
  | nil => simp
  | cons x r ih =>
    simp only [List.foldl_cons, List.map_cons]
    rw [ih]
    show (w.events ++ [Event.free x]) ++ _ = _
    simp

/-- `new_cyclic` whose closure panicked: the guard releases the box and hands over / releases the side
record, and emits no `drop` event — no value of `T` is touched. -/
theorem newCyclic_guard_no_drop (c : Cfg) (w : World) (k : Nat) (id : Id) (sp : NewSpec) (selfw : Option Nat) :
    ∀ e ∈ (unwindFrame c w (.newCyclicEnd k id sp selfw)).events, e ∈ w.events ∨ e = .free id ∨ e = .metaFree id := by
  intro e he
  simp only [unwindFrame] at he
  unfold weakDrop dropMetadata at he
  simp only at he
  repeat' split at he
  all_goals simp [freeBox, emit, updMeta] at he
  all_goals (rcases he with h | h | h <;> simp_all) 


/-! ## Every reachable world (machine invariants, `Proofs/InvReach.lean`, `Proofs/BytesInv.lean`) -/

/-- **A box is released only while it exists, and at most once per step**: whenever any micro-step of any
execution emits `free x`, the box `x` was allocated and not yet freed before the step, is freed after it, and the
step emits that event exactly once. -/
theorem free_only_when_live (c : Cfg) (nH nW nK : Nat) (w : World) (h : Reachable c nH nW nK w) (x : Id)
    (hx : Event.free x ∈ newEvents w (step c w)) :
    (w.heap x).boxLive = true ∧ ((step c w).heap x).boxLive = false ∧ (newEvents w (step c w)).count (Event.free x) = 1 :=
  free_only_live c w (reachable_all c nH nW nK w h) x hx

/-- **… and never again**: a freed identity stays freed (identities are not reused), so together with
`free_only_when_live` every allocation is released at most once in the whole history. -/
theorem freed_forever (c : Cfg) (nH nW nK : Nat) (w : World) (h : Reachable c nH nW nK w) (x : Id) (hx : x < w.next)
    (hd : (w.heap x).boxLive = false) : ((step c w).heap x).boxLive = false :=
  freed_stays_freed c w (reachable_all c nH nW nK w h).fresh x hx hd

/-- A box released under the collector's or `Cc::drop`'s guard has no pointer left to it, and nothing that exists
ever points to a released box. -/
theorem no_pointer_to_freed (c : Cfg) (nH nW nK : Nat) (w : World) (h : Reachable c nH nW nK w) (x : Id)
    (hd : (w.heap x).boxLive = false) : refs w x = 0 := by
  have ha := reachable_all c nH nW nK w h
  have := ha.counts.le x
  have := (ha.inv.oi.dead x hd).1
  have e : (w.cores x).rc = (w.heap x).rc := rfl
  omega

/-! ## Values: destroyed at most once, only while alive (histories in which no panic has been unwound)

`HistR c nH nW nK w log`: `w` is reached by steps of the running machine only and `log` is everything emitted since the
start (`Proofs/LifeHist.lean`). `vEv log` is the sub-sequence of its `drop` (`(true, x)`) and `finalize` (`(false, x)`)
events. After a caught panic these statements are not proved (they need the isolation invariant of DESIGN.md §10); the
allocator / canary oracles check them on every run. -/

/-- **`drop_in_place` runs only on an intact value in an allocated box**: whenever a step emits `drop x`, object `x` held a live
value in a live box before the step, and the value is marked destroyed after it. -/
theorem drop_only_alive (c : Cfg) (nH nW nK : Nat) (w : World) (h : ReachableR c nH nW nK w) (hm : w.mode = .running) (x : Id) (t : Bool)
    (hx : Event.drop x t ∈ newEvents w (step c w)) :
    (w.heap x).boxLive = true ∧ (w.heap x).valLive = true ∧ ((step c w).heap x).valLive = false := by
  have hv : (true, x) ∈ vEv (newEvents w (step c w)) := mem_vEv_drop.2 ⟨t, hx⟩
  obtain ⟨hal, f, rest, hs, hp, hev⟩ := vev_alive h hm true x hv
  have hb : (w.heap x).boxLive = true := by have := congrArg Prod.fst hal; simpa [Obj.lv] using this
  have hvl : (w.heap x).valLive = true := by have := congrArg Prod.snd hal; simpa [Obj.lv] using this
  refine ⟨hb, hvl, ?_⟩
  have hf : f = .dropValue x := by
    have hvv := step_vEv_running c w hm f rest hs
    rw [hvv] at hv
    cases f <;> simp [Frame.vev] at hv
    rename_i y; rw [hv.2]
  subst hf
  have e : step c w = stepFrame c { w with stack := rest } (.dropValue x) := by unfold step; rw [hm]; simp only []; rw [hs]
  rw [e]; exact dropValue_marks_dead c _ x

/-- **Every value is dropped at most once** in the whole history, and (`no_event_after_drop`) nothing is done to an object
after its destruction: no second `drop`, no `finalize`. -/
theorem dropped_at_most_once (c : Cfg) (nH nW nK : Nat) (w : World) (log : List Event) (h : HistR c nH nW nK w log) (x : Id) :
    (vEv log).count (true, x) ≤ 1 :=
  (histR_deadOk c nH nW nK w log h x).once

theorem no_event_after_drop (c : Cfg) (nH nW nK : Nat) (w : World) (log : List Event) (h : HistR c nH nW nK w log) (x : Id)
    (l1 l2 : List (Bool × Id)) (hs : vEv log = l1 ++ (true, x) :: l2) (b : Bool) : (b, x) ∉ l2 :=
  (histR_deadOk c nH nW nK w log h x).order l1 l2 hs b

/-- A destroyed value stays destroyed: it is never alive again and its identity is never handed out again. -/
theorem dropped_stays_dropped (c : Cfg) (nH nW nK : Nat) (w : World) (log : List Event) (h : HistR c nH nW nK w log) (x : Id)
    (hx : (true, x) ∈ vEv log) : (w.heap x).valLive = false ∧ x < w.next :=
  ⟨((histR_deadOk c nH nW nK w log h x).dead hx).1, ((histR_deadOk c nH nW nK w log h x).dead hx).2.2⟩

/-- **In a panic-free history every allocated box whose value is gone is owned by a frame**: the `Cc::drop` destroying it, the
`new_cyclic` building it, or the `deallocate_list` loop that already handed it to its destructor — nothing else is ever
half-alive. -/
theorem half_dead_is_owned (c : Cfg) (nH nW nK : Nat) (w : World) (h : ReachableR c nH nW nK w) (x : Id)
    (hb : (w.heap x).boxLive = true) (hv : (w.heap x).valLive = false) : x ∈ ownedDead w.stack :=
  (reachableR_life c nH nW nK w h).np x (by simp [Obj.lv, hb, hv])

/-- **A box is released only after its value is gone** — dropped, moved out by `try_unwrap`, or never built (`new_cyclic`
whose closure has not returned): in every world of a panic-free history a released box holds no live value … -/
theorem released_box_has_no_live_value (c : Cfg) (nH nW nK : Nat) (w : World) (h : ReachableR c nH nW nK w) (x : Id)
    (hb : (w.heap x).boxLive = false) : (w.heap x).valLive = false :=
  reachableR_freedDead c nH nW nK w h x hb

/-- … in particular right after the step that emits `free x`. -/
theorem free_only_after_value_gone (c : Cfg) (nH nW nK : Nat) (w : World) (h : ReachableR c nH nW nK w) (hm : w.mode = .running)
    (x : Id) (hx : Event.free x ∈ newEvents w (step c w)) : ((step c w).heap x).valLive = false := by
  have hfree := free_only_when_live c nH nW nK w h.reachable x hx
  exact released_box_has_no_live_value c nH nW nK (step c w) (.step w h hm) x hfree.2.1

/-- What a frame owns as "dead" (the box a `Cc::drop` is destroying, the box `new_cyclic` is building, the members of a
`deallocate_list` already handed to their destructor) really has no live value — unless its `drop_in_place` is the very next
thing to run. -/
theorem owned_is_dead (c : Cfg) (nH nW nK : Nat) (w : World) (h : ReachableR c nH nW nK w) (x : Id) (hx : x ∈ ownedDead w.stack) :
    (w.heap x).valLive = false ∨ w.stack.head? = some (.dropValue x) :=
  reachableR_owned c nH nW nK w h x hx

/-- Non-vacuity: a panic-free program that builds a cycle, drops the handles and collects has such a history, and its log
contains `drop` events. -/
def exProg : List Op :=
  [.new 0 { ns := 1, nu := 0, nw := 0, cleaner := false, fin := 0, drp := 0 },
   .new 1 { ns := 1, nu := 0, nw := 0, cleaner := false, fin := 0, drp := 0 },
   .setf (.of (.h 0)) (.f 0) (.h 1), .setf (.of (.h 1)) (.f 0) (.h 0), .drop 0, .drop 1, .collect]
example : cleanProg {} 200 (World.init {} 2 0 0) exProg = true := by decide
example : ∃ log, HistR {} 2 0 0 (exProg.foldl (execTop {} 200) (World.init {} 2 0 0)) log :=
  histR_prog {} 2 0 0 200 exProg _ [] .init (by decide)
example : vEv (exProg.foldl (execTop {} 200) (World.init {} 2 0 0)).events = [(false, 0), (false, 1), (true, 1), (true, 0)] := by decide

/-- **In panic-free executions the allocation of every dropped value is released before the API call returns**: in every idle
world of a panic-free history a value that is gone (dropped, moved out by `try_unwrap`, or never built) has no box any more —
whatever its size or alignment (the model is parametric in the box sizes; the byte-level side is the layout grid of the run). -/
theorem dropped_value_released_when_idle (c : Cfg) (nH nW nK : Nat) (w : World) (h : ReachableR c nH nW nK w)
    (hs : w.stack = []) (x : Id) (hv : (w.heap x).valLive = false) : (w.heap x).boxLive = false := by
  cases hb : (w.heap x).boxLive with
  | false => rfl
  | true =>
    have := half_dead_is_owned c nH nW nK w h x hb hv
    rw [hs] at this; simp [ownedDead] at this

end RustCc.C03
