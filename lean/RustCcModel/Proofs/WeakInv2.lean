import RustCcModel.Proofs.WeakInv1
/-! Counting lemmas for `wrefs` and the invariant with `Weak` pointers in flight (`WeakH`). -/
namespace RustCc
open World

/-! ### Counting in tables -/

def WRef.ids : WRef → List Id
  | .to x => [x]
  | .dangling => []

def wEntry (e : Option WRef) : List Id :=
  match e with
  | some r => r.ids
  | none => []

def kEntry (e : Option (Id × Nat × Nat)) : List Id :=
  match e with
  | some (m, _, _) => [m]
  | none => []

theorem wIds_cons (e : Option WRef) (r : List (Option WRef)) : wIds (e :: r) = wEntry e ++ wIds r := by
  unfold wIds
  cases e with
  | none => simp [wEntry]
  | some a => cases a <;> simp [wEntry, WRef.ids, List.filterMap_cons]

theorem kIds_cons (e : Option (Id × Nat × Nat)) (r : List (Option (Id × Nat × Nat))) : kIds (e :: r) = kEntry e ++ kIds r := by
  unfold kIds
  cases e with
  | none => simp [kEntry]
  | some a => obtain ⟨m, i, j⟩ := a; simp [kEntry, List.filterMap_cons]

theorem wIds_set_count (l : List (Option WRef)) (i : Nat) (v : Option WRef) (x : Id) (hi : i < l.length) :
    (wIds (l.set i v)).count x + (wEntry (l.getD i none)).count x = (wIds l).count x + (wEntry v).count x := by
  induction l generalizing i with
  | nil => simp at hi
  | cons a r ih =>
    cases i with
    | zero =>
      simp only [List.set_cons_zero, wIds_cons, List.count_append, List.getD_cons_zero]
      omega
    | succ i =>
      have := ih i (by simpa using hi)
      simp only [List.set_cons_succ, wIds_cons, List.count_append, List.getD_cons_succ]
      omega

theorem kIds_set_count (l : List (Option (Id × Nat × Nat))) (i : Nat) (v : Option (Id × Nat × Nat)) (x : Id) (hi : i < l.length) :
    (kIds (l.set i v)).count x + (kEntry (l.getD i none)).count x = (kIds l).count x + (kEntry v).count x := by
  induction l generalizing i with
  | nil => simp at hi
  | cons a r ih =>
    cases i with
    | zero =>
      simp only [List.set_cons_zero, kIds_cons, List.count_append, List.getD_cons_zero]
      omega
    | succ i =>
      have := ih i (by simpa using hi)
      simp only [List.set_cons_succ, kIds_cons, List.count_append, List.getD_cons_succ]
      omega

theorem wEntry_le_wIds (l : List (Option WRef)) (i : Nat) (x : Id) : (wEntry (l.getD i none)).count x ≤ (wIds l).count x := by
  induction l generalizing i with
  | nil => simp [wEntry]
  | cons a r ih =>
    cases i with
    | zero => simp only [List.getD_cons_zero, wIds_cons, List.count_append]; omega
    | succ i => have := ih i; simp only [List.getD_cons_succ, wIds_cons, List.count_append]; omega

theorem kEntry_le_kIds (l : List (Option (Id × Nat × Nat))) (i : Nat) (x : Id) : (kEntry (l.getD i none)).count x ≤ (kIds l).count x := by
  induction l generalizing i with
  | nil => simp [kEntry]
  | cons a r ih =>
    cases i with
    | zero => simp only [List.getD_cons_zero, kIds_cons, List.count_append]; omega
    | succ i => have := ih i; simp only [List.getD_cons_succ, kIds_cons, List.count_append]; omega

/-! ### `wfieldRefs` -/

theorem wfieldRefs_congr (w w' : World) (x : Id) (hn : w'.next = w.next)
    (hh : ∀ u, u < w.next → (w'.heap u).wslots = (w.heap u).wslots) : wfieldRefs w' x = wfieldRefs w x := by
  unfold wfieldRefs
  rw [hn]
  apply sum_range_congr
  intro u hu
  rw [hh u hu]

theorem wfieldRefs_upd (w : World) (t : Id) (F : Obj → Obj) (x : Id) (ht : t < w.next) :
    wfieldRefs (w.upd t F) x + (optIds (w.heap t).wslots).count x = wfieldRefs w x + (optIds (F (w.heap t)).wslots).count x := by
  unfold wfieldRefs
  have := sum_range_update (fun u => (optIds ((w.upd t F).heap u).wslots).count x) (fun u => (optIds (w.heap u).wslots).count x) w.next t ht
    (by intro u hu; simp [upd, Heap.set, hu])
  simp only [upd_heap_same] at this
  simpa [upd] using this

theorem count_le_wfieldRefs (w : World) (s x : Id) (hs : s < w.next) : (optIds (w.heap s).wslots).count x ≤ wfieldRefs w x := by
  unfold wfieldRefs
  exact le_sum_of_mem (fun u => (optIds (w.heap u).wslots).count x) _ s (List.mem_range.2 hs)

theorem wfieldRefs_alloc (w w' : World) (o : Obj) (x : Id) (hn : w'.next = w.next + 1) (hh : w'.heap = w.heap.set w.next o)
    (ho : optIds o.wslots = []) : wfieldRefs w' x = wfieldRefs w x := by
  unfold wfieldRefs
  rw [hn, hh, List.range_succ, List.map_append, List.sum_append]
  have h1 : ((List.range w.next).map fun u => (optIds ((w.heap.set w.next o) u).wslots).count x).sum
      = ((List.range w.next).map fun u => (optIds (w.heap u).wslots).count x).sum := by
    apply sum_range_congr
    intro u hu
    have : u ≠ w.next := Nat.ne_of_lt hu
    simp [Heap.set, this]
  rw [h1]
  simp [Heap.set, ho]

/-! ### `wrefs` through the primitive world transformers -/

theorem wrefs_congr (w w' : World) (x : Id) (hW : w'.W = w.W) (hs : w'.wstash = w.wstash) (hK : w'.K = w.K)
    (hc : cycs w'.stack = cycs w.stack) (hn : w'.next = w.next)
    (hh : ∀ u, u < w.next → (w'.heap u).wslots = (w.heap u).wslots) : wrefs w' x = wrefs w x := by
  unfold wrefs
  rw [hW, hs, hK, hc, wfieldRefs_congr w w' x hn hh]

theorem wrefs_push (w : World) (f : Frame) (x : Id) : wrefs (w.push f) x = wrefs w x + f.cyc.count x := by
  unfold wrefs
  have h1 : wfieldRefs (w.push f) x = wfieldRefs w x := rfl
  have h2 : (w.push f).W = w.W := rfl
  have h3 : (w.push f).wstash = w.wstash := rfl
  have h4 : (w.push f).K = w.K := rfl
  rw [h1, h2, h3, h4, push_stack, cycs_cons, List.count_append]; omega

theorem wrefs_setW (w : World) (k : Nat) (v : Option WRef) (x : Id) (hk : k < w.W.length) :
    wrefs (w.setW k v) x + (wEntry (w.getW k)).count x = wrefs w x + (wEntry v).count x := by
  unfold wrefs setW getW
  have h := wIds_set_count w.W k v x hk
  have hf : wfieldRefs { w with W := w.W.set k v } x = wfieldRefs w x := rfl
  simp only [hf]
  omega

theorem wrefs_setK (w : World) (k : Nat) (v : Option (Id × Nat × Nat)) (x : Id) (hk : k < w.K.length) :
    wrefs (w.setK k v) x + (kEntry (w.getK k)).count x = wrefs w x + (kEntry v).count x := by
  unfold wrefs setK getK
  have h := kIds_set_count w.K k v x hk
  have hf : wfieldRefs { w with K := w.K.set k v } x = wfieldRefs w x := rfl
  simp only [hf]
  omega

theorem wrefs_upd (w : World) (t : Id) (F : Obj → Obj) (x : Id) (ht : t < w.next) :
    wrefs (w.upd t F) x + (optIds (w.heap t).wslots).count x = wrefs w x + (optIds (F (w.heap t)).wslots).count x := by
  unfold wrefs
  have := wfieldRefs_upd w t F x ht
  have h1 : (w.upd t F).W = w.W := rfl
  have h2 : (w.upd t F).wstash = w.wstash := rfl
  have h3 : (w.upd t F).stack = w.stack := rfl
  have h4 : (w.upd t F).K = w.K := rfl
  rw [h1, h2, h3, h4]; omega

theorem wrefs_wstash (w : World) (g : Id → Nat) (r : Ret) (x : Id) :
    wrefs { w with ret := r, wstash := g } x + w.wstash x = wrefs w x + g x := by
  unfold wrefs
  have : wfieldRefs { w with ret := r, wstash := g } x = wfieldRefs w x := rfl
  rw [this]
  show (wIds w.W).count x + g x + wfieldRefs w x + (kIds w.K).count x + (cycs w.stack).count x + w.wstash x = _
  omega

/-! ### The invariant for one identity -/

theorem MOK.mono {m : Meta} {hm bl : Bool} {n n' : Nat} (h : MOK m hm bl n) (hn : n' ≤ n) : MOK m hm bl n' :=
  ⟨Nat.le_trans hn h.le, h.wl, h.rel, h.acc, h.box, h.nm⟩

/-- The record is there whenever a `Weak` exists. -/
theorem MOK.live_of_pos {m : Meta} {hm bl : Bool} {n : Nat} (h : MOK m hm bl n) (hn : 0 < n) : m.live = true :=
  h.wl (Nat.lt_of_lt_of_le hn h.le)

theorem MOK.hasMeta_of_live {m : Meta} {hm bl : Bool} {n : Nat} (h : MOK m hm bl n) (hl : m.live = true) : hm = true := by
  rcases h.rel hl with h1 | h1
  · exact (h.acc h1).2
  · cases hh : hm with
    | true => rfl
    | false => have := h.nm hh; omega

/-- Freeing the box. -/
theorem MOK.unbox {m : Meta} {hm bl : Bool} {n : Nat} (h : MOK m hm bl n) : MOK m hm false n :=
  ⟨h.le, h.wl, h.rel, h.acc, fun _ hb => (by cases hb), h.nm⟩

/-- One more `Weak` (the record must exist). -/
theorem MOK.incr {m : Meta} {hm bl : Bool} {n : Nat} (h : MOK m hm bl n) (k : Nat) (hl : m.live = true) :
    MOK { m with weak := m.weak + k } hm bl (n + k) := by
  have hh := h.hasMeta_of_live hl
  refine ⟨?_, fun _ => hl, fun _ => ?_, h.acc, h.box, fun e => ?_⟩
  · have := h.le; show n + k ≤ m.weak + k; omega
  · rcases h.rel hl with h1 | h1
    · exact Or.inl h1
    · exact Or.inr (by show 0 < m.weak + k; omega)
  · rw [hh] at e; cases e

/-- `Weak::drop`. -/
theorem MOK.drop {m : Meta} {hm bl : Bool} {n : Nat} (h : MOK m hm bl (n + 1)) :
    MOK (if m.weak - 1 = 0 ∧ (!m.accessible) = true then { m with weak := m.weak - 1, live := false } else { m with weak := m.weak - 1 }) hm bl n := by
  have hle := h.le
  split
  · rename_i hc
    refine ⟨?_, fun hp => ?_, fun hl => ?_, fun ha => ?_, h.box, fun e => ?_⟩
    · show n ≤ m.weak - 1; omega
    · have : 0 < m.weak - 1 := hp
      omega
    · cases hl
    · have : m.accessible = true := ha
      rw [this] at hc; simp at hc
    · show m.weak - 1 = 0; exact hc.1
  · rename_i hc
    refine ⟨?_, fun hp => ?_, fun hl => ?_, h.acc, h.box, fun e => ?_⟩
    · show n ≤ m.weak - 1; omega
    · exact h.wl (by omega)
    · have hl' : m.live = true := hl
      cases ha : m.accessible with
      | true => exact Or.inl rfl
      | false =>
        right
        show 0 < m.weak - 1
        cases Nat.eq_zero_or_pos (m.weak - 1) with
        | inl h0 => exact absurd ⟨h0, by simp [ha]⟩ hc
        | inr hp => exact hp
    · have := h.nm e; show m.weak - 1 = 0; omega

/-- Dropping several `Weak`s but not the last. -/
theorem MOK.decr {m : Meta} {hm bl : Bool} {n j : Nat} (h : MOK m hm bl (n + 1 + j)) :
    MOK { m with weak := m.weak - j } hm bl (n + 1) := by
  have hle := h.le
  refine ⟨?_, fun _ => h.wl (by omega), fun hl => ?_, h.acc, h.box, fun e => ?_⟩
  · show n + 1 ≤ m.weak - j; omega
  · exact Or.inr (by show 0 < m.weak - j; omega)
  · have := h.nm e; omega

/-- `drop_metadata` followed by the release of the box. -/
theorem MOK.dropMeta {m : Meta} {hm bl : Bool} {n : Nat} (h : MOK m hm bl n) :
    MOK (if hm = true then (if m.weak = 0 then { m with live := false, accessible := false } else { m with accessible := false }) else m)
      hm false n := by
  split
  · split
    · rename_i h0
      refine ⟨h.le, fun hp => ?_, fun hl => (by cases hl), fun ha => (by cases ha), fun _ hb => (by cases hb), h.nm⟩
      have : 0 < m.weak := hp
      omega
    · rename_i h0
      refine ⟨h.le, h.wl, fun _ => Or.inr (by show 0 < m.weak; omega), fun ha => (by cases ha), fun _ hb => (by cases hb), h.nm⟩
  · exact h.unbox

/-- `get_or_init_metadata` of a live box. -/
theorem MOK.init {m : Meta} {hm bl : Bool} {n : Nat} (h : MOK m hm bl n) :
    MOK (if hm = true then m else { weak := 0, accessible := true, live := true }) true bl n := by
  split
  · rename_i hh; subst hh; exact h
  · rename_i hh
    have hh' : hm = false := by cases hm <;> simp_all
    have h0 := h.nm hh'
    have := h.le
    exact ⟨by show n ≤ 0; omega, fun _ => rfl, fun _ => Or.inl rfl, fun _ => ⟨rfl, rfl⟩, fun _ _ => rfl, fun e => by cases e⟩

/-! ### The invariant with `Weak` pointers in flight -/

/-- `WeakOk` (without the stack clause) with some extra `Weak` pointers in flight. With `ex = true` it also carries the
upper bound: the weak count *equals* the number of `Weak` pointers (no pointer has been leaked so far). -/
structure WeakH (ex : Bool) (w : World) (E : List Id) : Prop where
  ok : ∀ x, MOK (w.metas x) (w.heap x).hasMeta (w.heap x).boxLive (wrefs w x + E.count x)
  fresh : ∀ x, w.next ≤ x → (w.metas x).weak = 0
  ge : ex = true → ∀ x, (w.metas x).weak ≤ wrefs w x + E.count x

variable {ex : Bool}

theorem WeakOk.toH {w : World} (h : WeakOk w) : WeakH false w [] :=
  ⟨fun x => ⟨by simpa using h.le x, h.wlive x, h.rel x, h.acc x, h.box x, h.nometa x⟩, h.fresh, fun e => nomatch e⟩

theorem WeakH.toOk {w : World} {E : List Id} (h : WeakH ex w E) (hs : wcOk w.stack) : WeakOk w :=
  ⟨fun x => by have := (h.ok x).le; omega,
   fun x hp => (h.ok x).live_of_pos (by omega),
   fun x => (h.ok x).wl, fun x => (h.ok x).rel, fun x => (h.ok x).acc, fun x => (h.ok x).box, fun x => (h.ok x).nm, h.fresh, hs⟩

theorem WeakH.weaken {w : World} {E : List Id} (h : WeakH ex w E) : WeakH false w E := ⟨h.ok, h.fresh, fun e => nomatch e⟩

theorem WeakH.lt_of_pos {w : World} {E : List Id} (h : WeakH ex w E) {x : Id} (hp : 0 < wrefs w x + E.count x) : x < w.next := by
  cases Nat.lt_or_ge x w.next with
  | inl hlt => exact hlt
  | inr hge => have := h.fresh x hge; have := (h.ok x).le; omega

theorem WeakH.live_of_pos {w : World} {E : List Id} (h : WeakH ex w E) {x : Id} (hp : 0 < wrefs w x + E.count x) :
    (w.metas x).live = true := (h.ok x).live_of_pos hp

/-- Leaking pointers in flight keeps the invariant (but not exactness). -/
theorem WeakH.forget {w : World} {E E' : List Id} (h : WeakH ex w E) (hc : ∀ x, E'.count x ≤ E.count x) : WeakH false w E' :=
  ⟨fun x => (h.ok x).mono (by have := hc x; omega), h.fresh, fun e => nomatch e⟩

theorem WeakH.of_count {w : World} {E E' : List Id} (h : WeakH ex w E) (hc : ∀ x, E'.count x = E.count x) : WeakH ex w E' :=
  ⟨fun x => (h.ok x).mono (by have := hc x; omega), h.fresh, fun e x => by have := h.ge e x; have := hc x; omega⟩

/-- A step that reads or writes nothing the invariant looks at (allocated part of the heap: `wslots`, `hasMeta`;
`boxLive` may only go away). -/
theorem WeakH.neutral {w w' : World} {E : List Id} (h : WeakH ex w E) (hW : w'.W = w.W) (hs : w'.wstash = w.wstash) (hK : w'.K = w.K)
    (hm : w'.metas = w.metas) (hn : w'.next = w.next) (hc : cycs w'.stack = cycs w.stack)
    (hws : ∀ u, (w'.heap u).wslots = (w.heap u).wslots) (hhm : ∀ u, (w'.heap u).hasMeta = (w.heap u).hasMeta)
    (hbl : ∀ u, (w'.heap u).boxLive = (w.heap u).boxLive) : WeakH ex w' E := by
  refine ⟨fun x => ?_, fun x hx => ?_, fun e x => ?_⟩
  · rw [wrefs_congr w w' x hW hs hK hc hn (fun u _ => hws u), hm, hhm, hbl]; exact h.ok x
  · rw [hm]; exact h.fresh x (by rw [← hn]; exact hx)
  · rw [wrefs_congr w w' x hW hs hK hc hn (fun u _ => hws u), hm]; exact h.ge e x

/-- Popping the top frame: the closure's `Weak` held by a `newCyclicEnd` frame is in flight. -/
theorem WeakOk.pop {w : World} (h : WeakOk w) {f : Frame} {rest : List Frame} (hs : w.stack = f :: rest) :
    WeakH false { w with stack := rest } f.cyc ∧ wcOk rest := by
  have hr : ∀ x, wrefs w x = wrefs { w with stack := rest } x + f.cyc.count x := by
    intro x
    unfold wrefs
    have hf : wfieldRefs { w with stack := rest } x = wfieldRefs w x := rfl
    rw [hf, hs, cycs_cons, List.count_append]
    show _ = (wIds w.W).count x + w.wstash x + wfieldRefs w x + (kIds w.K).count x + (cycs rest).count x + _
    omega
  refine ⟨⟨fun x => ?_, h.fresh, fun e => nomatch e⟩, ?_⟩
  · have := h.toH.ok x
    rw [hr] at this
    simpa using this
  · have := h.wcs; rw [hs] at this; exact this.2

/-- The same for a world known to be exact. -/
theorem WeakH.pop {w : World} (h : WeakH ex w []) {f : Frame} {rest : List Frame} (hs : w.stack = f :: rest) :
    WeakH ex { w with stack := rest } f.cyc := by
  have hr : ∀ x, wrefs w x = wrefs { w with stack := rest } x + f.cyc.count x := by
    intro x
    unfold wrefs
    have hf : wfieldRefs { w with stack := rest } x = wfieldRefs w x := rfl
    rw [hf, hs, cycs_cons, List.count_append]
    show _ = (wIds w.W).count x + w.wstash x + wfieldRefs w x + (kIds w.K).count x + (cycs rest).count x + _
    omega
  refine ⟨fun x => ?_, h.fresh, fun e x => ?_⟩
  · have := h.ok x
    rw [hr] at this
    simpa using this
  · have := h.ge e x
    rw [hr] at this
    simpa using this

/-- Pushing a frame: the `Weak` it holds leaves the in-flight list. -/
theorem WeakH.pushFrame {w : World} {E : List Id} (f : Frame) (h : WeakH ex w (f.cyc ++ E)) : WeakH ex (w.push f) E := by
  have e : ∀ x, wrefs w x + f.cyc.count x + E.count x = wrefs w x + (f.cyc.count x + E.count x) := by intro x; omega
  refine ⟨fun x => ?_, h.fresh, fun he x => ?_⟩
  · have := h.ok x
    rw [wrefs_push]
    simp only [List.count_append] at this
    rw [e]; exact this
  · have := h.ge he x
    rw [wrefs_push]
    simp only [List.count_append] at this
    show (w.metas x).weak ≤ _
    rw [e]; exact this

/-- Generic update of one side record. -/
theorem WeakH.updMeta {w : World} {E E' : List Id} (h : WeakH ex w E) (y : Id) (F : Meta → Meta)
    (hy : MOK (F (w.metas y)) (w.heap y).hasMeta (w.heap y).boxLive (wrefs w y + E'.count y))
    (hE : ∀ x, x ≠ y → E'.count x ≤ E.count x)
    (hf : w.next ≤ y → (F (w.metas y)).weak = 0)
    (hgy : ex = true → (F (w.metas y)).weak ≤ wrefs w y + E'.count y)
    (hgE : ex = true → ∀ x, x ≠ y → E'.count x = E.count x) : WeakH ex (w.updMeta y F) E' := by
  have hw : ∀ x, wrefs (w.updMeta y F) x = wrefs w x := fun _ => rfl
  refine ⟨fun x => ?_, fun x hx => ?_, fun e x => ?_⟩
  · rw [hw]
    by_cases hxy : x = y
    · subst hxy
      rw [updMeta_metas_same]; exact hy
    · rw [updMeta_metas_other w y x F hxy]
      exact (h.ok x).mono (by have := hE x hxy; omega)
  · by_cases hxy : x = y
    · subst hxy
      rw [updMeta_metas_same]; exact hf hx
    · rw [updMeta_metas_other w y x F hxy]; exact h.fresh x hx
  · rw [hw]
    by_cases hxy : x = y
    · subst hxy
      rw [updMeta_metas_same]; exact hgy e
    · rw [updMeta_metas_other w y x F hxy]
      have := h.ge e x; have := hgE e x hxy; omega

end RustCc
