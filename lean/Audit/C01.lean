import RustCcModel.Properties.C01
#print axioms RustCc.C01.collectPass_computes_candidates
#print axioms RustCc.C01.candidates_unreachable
#print axioms RustCc.C01.reachable_not_candidate
#print axioms RustCc.C01.reachable_pass_candidates_unreferenced
#print axioms RustCc.C01.reachable_object_not_candidate
#print axioms RustCc.C01.no_dangling_pointer
