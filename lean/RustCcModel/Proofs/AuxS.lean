import RustCcModel.Proofs.AuxK
/-! Second half of `AuxX`: the free list of every slot map (`CleanerMap`'s `SlotMap`) names distinct, existing, empty
slots — in every reachable world. Only `Cleanable::clean` (frees a slot), the map's drop glue (empties slots) and
`Cleaner::register` (reuses / appends a slot) touch a slot map. -/
namespace RustCc
open World

/-- Slot-map storage of an object: slots and free list. -/
def Obj.sm (o : Obj) : List (Option Action) × List Nat := (o.aslots, o.afree)

def FreeOk (p : List (Option Action) × List Nat) : Prop :=
  p.2.Nodup ∧ ∀ i ∈ p.2, i < p.1.length ∧ p.1.getD i none = none

def SOk (w : World) : Prop := ∀ m, FreeOk (w.heap m).sm

theorem SOk.of_same {w w' : World} (h : SOk w) (hs : ∀ m, (w'.heap m).sm = (w.heap m).sm) : SOk w' := by
  intro m; rw [hs m]; exact h m

/-! ### `FreeOk` through the three slot-map operations -/

theorem getD_set_ne (l : List (Option Action)) (i j : Nat) (v : Option Action) (h : j ≠ i) :
    (l.set i v).getD j none = l.getD j none := by
  simp [List.getD_eq_getElem?_getD, List.getElem?_set, Ne.symm h]

theorem FreeOk.set_none {as : List (Option Action)} {fr : List Nat} (h : FreeOk (as, fr)) (i : Nat) :
    FreeOk (as.set i none, fr) := by
  refine ⟨h.1, ?_⟩
  intro j hj
  obtain ⟨h1, h2⟩ := h.2 j hj
  refine ⟨by simpa using h1, ?_⟩
  by_cases e : j = i
  · subst e; simp only [List.getD_eq_getElem?_getD, List.getElem?_set]; split <;> simp_all
  · rw [getD_set_ne _ _ _ _ e]; exact h2

theorem FreeOk.release {as : List (Option Action)} {fr : List Nat} (h : FreeOk (as, fr)) (i : Nat) (a : Action)
    (hi : as.getD i none = some a) : FreeOk (as.set i none, i :: fr) := by
  have hlt : i < as.length := by
    cases Nat.lt_or_ge i as.length with
    | inl h => exact h
    | inr hge => simp [List.getD_eq_getElem?_getD, List.getElem?_eq_none hge] at hi
  have hnot : i ∉ fr := by
    intro hm
    have := (h.2 i hm).2
    rw [hi] at this; cases this
  refine ⟨List.nodup_cons.2 ⟨hnot, h.1⟩, ?_⟩
  intro j hj
  rcases List.mem_cons.1 hj with e | hj
  · subst e
    refine ⟨by simpa using hlt, ?_⟩
    simp [List.getD_eq_getElem?_getD, hlt]
  · exact (h.set_none i).2 j hj

theorem FreeOk.reuse {as : List (Option Action)} {fr : List Nat} {i : Nat} (h : FreeOk (as, i :: fr)) (v : Option Action) :
    FreeOk (as.set i v, fr) := by
  have hn := List.nodup_cons.1 h.1
  refine ⟨hn.2, ?_⟩
  intro j hj
  obtain ⟨h1, h2⟩ := h.2 j (List.mem_cons_of_mem _ hj)
  have e : j ≠ i := fun e => hn.1 (e ▸ hj)
  exact ⟨by simpa using h1, by rw [getD_set_ne _ _ _ _ e]; exact h2⟩

theorem FreeOk.nil (as : List (Option Action)) : FreeOk (as, []) := ⟨List.nodup_nil, fun _ h => nomatch h⟩

/-! ### Helpers keep every slot map -/

theorem upd_sm_same (w : World) (t : Id) (g : Obj → Obj) (u : Id) (hg : ∀ o, (g o).aslots = o.aslots ∧ (g o).afree = o.afree) :
    ((w.upd t g).heap u).sm = (w.heap u).sm := by
  by_cases h : u = t
  · subst h; simp [upd, Obj.sm, hg]
  · simp [upd, Heap.set, h]

@[simp] theorem setSlot_aslots (o : Obj) (s : Slot) (v : Option Id) : (setSlot o s v).aslots = o.aslots := by cases s <;> rfl
@[simp] theorem setSlot_afree (o : Obj) (s : Slot) (v : Option Id) : (setSlot o s v).afree = o.afree := by cases s <;> rfl

theorem updAll_sm_same (w : World) (l : List Id) (g : Obj → Obj) (u : Id) (hg : ∀ o, (g o).aslots = o.aslots ∧ (g o).afree = o.afree) :
    ((w.updAll l g).heap u).sm = (w.heap u).sm := by
  unfold updAll
  induction l generalizing w with
  | nil => rfl
  | cons x r ih => simp only [List.foldl_cons]; rw [ih, upd_sm_same _ _ _ _ hg]

@[simp] theorem removeFromList_sm (w : World) (y x : Id) : ((w.removeFromList y).heap x).sm = (w.heap x).sm := by
  unfold removeFromList; split <;> (try rfl) <;> (by_cases h : x = y <;> simp [upd, Heap.set, h, Obj.sm])
@[simp] theorem addToList_sm (w : World) (y x : Id) : ((w.addToList y).heap x).sm = (w.heap x).sm := by
  unfold addToList; split <;> (try rfl) <;> split <;> (try rfl) <;> (by_cases h : x = y <;> simp [upd, Heap.set, h, Obj.sm])
@[simp] theorem dropMetadata_sm (w : World) (y x : Id) : ((w.dropMetadata y).heap x).sm = (w.heap x).sm := by
  unfold dropMetadata; split <;> (try rfl) <;> split <;> rfl
@[simp] theorem weakDrop_sm (w : World) (r : WRef) (x : Id) : ((w.weakDrop r).heap x).sm = (w.heap x).sm := by
  unfold weakDrop; cases r with
  | dangling => rfl
  | to y => simp only; split <;> rfl
@[simp] theorem initMeta_sm (w : World) (y x : Id) : ((w.initMeta y).heap x).sm = (w.heap x).sm := by
  unfold initMeta; split <;> (try rfl)
  by_cases h : x = y <;> simp [upd, updMeta, Heap.set, h, Obj.sm]
@[simp] theorem freeBox_sm (w : World) (y x : Id) : ((w.freeBox y).heap x).sm = (w.heap x).sm := by
  unfold freeBox; by_cases h : x = y <;> simp [upd, emit, Heap.set, h, Obj.sm]
@[simp] theorem cloneOk_sm (w : World) (y x : Id) : ((w.cloneOk y).heap x).sm = (w.heap x).sm := by
  unfold cloneOk; rw [removeFromList_sm]; exact upd_sm_same _ _ _ _ (fun _ => ⟨rfl, rfl⟩)
@[simp] theorem fromT1_sm (w : World) (h : T1.Heap) (x : Id) : ((fromT1 w h).heap x).sm = (w.heap x).sm := rfl
@[simp] theorem raise_sm (w : World) (x : Id) : (w.raise.heap x).sm = (w.heap x).sm := by rw [s_raise_heap]
@[simp] theorem raiseLogged_sm (w : World) (x : Id) : (w.raiseLogged.heap x).sm = (w.heap x).sm := by rw [s_raiseLogged_heap]

theorem takeField_sm (o : Obj) : (takeField o).2.sm = o.sm := by
  unfold takeField
  repeat' split
  all_goals rfl

theorem foldl_free_sm (c : Cfg) (N : List Id) : ∀ (w : World) (x : Id),
    ((N.foldl (fun w x => (if c.weak then w.dropMetadata x else w).freeBox x) w).heap x).sm = (w.heap x).sm := by
  induction N with
  | nil => intro w x; rfl
  | cons y r ih => intro w x; simp only [List.foldl_cons]; rw [ih]; split <;> simp

theorem putH_sm (w : World) (k : Nat) (y x : Id) : ((w.putH k y).heap x).sm = (w.heap x).sm := by
  unfold putH; split <;> rfl

macro "s_same" h:ident : tactic => `(tactic| (
  refine SOk.of_same $h ?_
  intro m
  simp [upd_sm_same, updAll_sm_same, putH_sm, World.setH, World.setW, World.setK, World.startCollect, World.emit, World.push,
    World.updMeta]))

set_option maxHeartbeats 8000000 in
theorem execOp_sOk (c : Cfg) (w : World) (self wc : Option Id) (op : Op) (h : SOk w) : SOk (execOp c w self wc op) := by
  cases op with
  | fault kind n j => cases kind <;> exact h.of_same (fun _ => rfl)
  | clean k =>
    simp only [execOp]
    have h1 : SOk ({ w with ret := Ret.ok } : World) := h.of_same (fun _ => rfl)
    generalize ({ w with ret := Ret.ok } : World) = w1 at h1 ⊢
    split
    · s_same h
    · split
      · rename_i mm i aid hk
        split
        · exact h1
        · split
          · s_same h1
          · split
            · s_same h1
            · -- the slot is released
              have hbase : SOk ((w1.cloneOk mm).upd mm fun o => { o with borrowed := true }) := by s_same h1
              split
              · rename_i a ha
                split
                · have hrel : SOk ((((w1.cloneOk mm).upd mm fun o => { o with borrowed := true }).push (.cleanEnd mm true false)).upd mm
                      fun o => { o with aslots := o.aslots.set i none, afree := i :: o.afree }) := by
                    intro m
                    by_cases e : m = mm
                    · subst e
                      have hm := hbase m
                      simp only [upd_heap_same, World.push_heap, Obj.sm] at hm ha ⊢
                      exact FreeOk.release hm i a ha
                    · have := hbase m
                      simpa [World.upd, Heap.set, e, World.push] using this
                  split
                  · exact (hrel.of_same (fun m => by simp [World.push, World.emit, Obj.sm]))
                  · exact (hrel.of_same (fun m => by simp [World.push, World.emit, Obj.sm]))
                · exact hbase.of_same (fun m => by simp [World.push, Obj.sm])
              · exact hbase.of_same (fun m => by simp [World.push, Obj.sm])
      · s_same h
  | _ =>
    simp only [execOp]
    repeat' split
    all_goals (s_same h)

theorem sOk_alloc (w : World) (o : Obj) (ab : Nat) (h : SOk w) (ho : o.aslots = [] ∧ o.afree = []) :
    SOk { w with next := w.next + 1, heap := w.heap.set w.next o, allocBytes := ab } := by
  intro m
  by_cases e : m = w.next
  · subst e; simp [Heap.set, Obj.sm, ho.1, ho.2]; exact FreeOk.nil _
  · have := h m; simpa [Heap.set, e] using this

theorem SOk.updOne {w : World} (h : SOk w) (t : Id) (g : Obj → Obj) (hg : FreeOk (g (w.heap t)).sm) : SOk (w.upd t g) := by
  intro m
  by_cases e : m = t
  · subst e; simpa using hg
  · have := h m; simpa [World.upd, Heap.set, e] using this

theorem regInsert_tail_s (c : Cfg) {w1 : World} (m : Id) (k aid idx : Nat) (om' : Obj) (h : SOk w1) (hom : FreeOk om'.sm) :
    SOk (if (((w1.upd m fun _ => om').initMeta m).metas m).weak ≥ c.weakMax then ((w1.upd m fun _ => om').initMeta m).raise
      else (((((w1.upd m fun _ => om').initMeta m).updMeta m fun mm => { mm with weak := mm.weak + 1 }).removeFromList m).setK k
        (some (m, idx, aid)))) := by
  have h2 := h.updOne m (fun _ => om') hom
  split
  · exact h2.of_same (fun x => by simp)
  · exact h2.of_same (fun x => by simp [World.setK, World.updMeta])

set_option maxHeartbeats 8000000 in
theorem stepFrame_sOk (c : Cfg) (w : World) (f : Frame) (h : SOk w) : SOk (stepFrame c w f) := by
  cases f with
  | script ops self wc top =>
    cases ops with
    | nil => simpa [stepFrame] using h
    | cons op ops =>
      simp only [stepFrame]
      have h1 : SOk (w.push (.script ops self wc top)) := h.of_same (fun _ => rfl)
      have h2 := execOp_sOk c _ self wc op h1
      split
      · exact h2
      · exact h2.of_same (fun _ => rfl)
  | collectPass =>
    simp only [stepFrame, startDealloc]
    generalize tracePhasesF _ _ _ _ _ = r
    obtain ⟨res, fault⟩ := r
    cases res <;> simp only [] <;> repeat' split
    all_goals (s_same h)
  | deallocDrop N r oD =>
    cases r with
    | cons x r => simp only [stepFrame]; repeat' split
                  all_goals (s_same h)
    | nil =>
      simp only [stepFrame]
      split
      · s_same h
      · exact h.of_same (fun m => by simp [foldl_free_sm])
  | dropFields x unw =>
    simp only [stepFrame]
    have ht := takeField_sm (w.heap x)
    split
    · rename_i y o' hy
      rw [hy] at ht
      refine SOk.of_same (h.updOne x (fun _ => o') (by simpa [ht] using h x)) (fun m => by simp [World.push])
    · rename_i y o' hy
      rw [hy] at ht
      refine SOk.of_same (h.updOne x (fun _ => o') (by simpa [ht] using h x)) (fun m => by simp [World.push])
    · split <;> exact h.of_same (fun _ => rfl)
  | dropActions m i unw =>
    simp only [stepFrame]
    split
    · split
      · have hrel : SOk (((w.push (.dropActions m (i + 1) unw))).upd m fun o => { o with aslots := o.aslots.set i none }) := by
          refine SOk.updOne (w := w.push (.dropActions m (i + 1) unw)) (h.of_same (fun _ => rfl)) m _ ?_
          have := h m
          simp only [Obj.sm, World.push_heap] at this ⊢
          exact FreeOk.set_none this i
        split
        · exact hrel.of_same (fun m => by simp [World.push, World.emit])
        · exact hrel.of_same (fun m => by simp [World.push, World.emit])
      · s_same h
    · split <;> exact h.of_same (fun _ => rfl)
  | regInsert owner script k cap =>
    simp only [stepFrame]
    split
    · exact h.of_same (fun _ => rfl)
    · rename_i m hm
      split
      · s_same h
      · have hw1 : SOk ({ w with nextAid := w.nextAid + 1 } : World) := h.of_same (fun _ => rfl)
        cases hfr : (w.heap m).afree with
        | nil =>
          simp only []
          refine regInsert_tail_s c m k w.nextAid (w.heap m).aslots.length _ hw1 ?_
          simp only [Obj.sm]
          exact FreeOk.nil _
        | cons i fr =>
          simp only []
          refine regInsert_tail_s c m k w.nextAid i _ hw1 ?_
          have := h m
          simp only [Obj.sm, hfr] at this ⊢
          exact FreeOk.reuse this _
  | newAlloc k sp =>
    simp only [stepFrame]
    refine SOk.of_same (sOk_alloc w (newObj c w sp) (w.allocBytes + (newObj c w sp).size) h ⟨rfl, rfl⟩) (fun m => by simp [putH_sm, World.emit])
  | newCyclicAlloc k sp body selfw =>
    simp only [stepFrame]
    have hb := sOk_alloc w { newObj c w sp with rc := 0, valLive := false, hasMeta := true } (w.allocBytes + (newObj c w sp).size) h ⟨rfl, rfl⟩
    split <;> exact hb.of_same (fun m => by simp [World.emit, World.push, World.updMeta])
  | mapAlloc owner =>
    simp only [stepFrame]
    have hb := sOk_alloc w ({ rc := 1, tc := c.tcInit, boxLive := true, valLive := true, kind := .map, size := c.mapSize, finalized := c.fin && w.finalizing } : Obj) (w.allocBytes + c.mapSize) h ⟨rfl, rfl⟩
    split
    · exact hb.of_same (fun m => by simp [World.emit, upd_sm_same])
    · exact hb.of_same (fun m => by simp [World.emit, World.push])
  | _ =>
    simp only [stepFrame, destroyLast, startDealloc]
    repeat' split
    all_goals (s_same h)

set_option maxHeartbeats 4000000 in
theorem unwindFrame_sOk (c : Cfg) (w : World) (f : Frame) (h : SOk w) : SOk (unwindFrame c w f) := by
  cases f <;> simp only [unwindFrame] <;> repeat' split
  all_goals (s_same h)

theorem step_sOk (c : Cfg) (w : World) (h : SOk w) : SOk (step c w) := by
  unfold step
  split
  · exact h
  · exact h
  · split
    · exact h.of_same (fun _ => rfl)
    · exact unwindFrame_sOk c _ _ (h.of_same (fun _ => rfl))
  · split
    · exact h
    · exact stepFrame_sOk c _ _ (h.of_same (fun _ => rfl))

theorem init_sOk (c : Cfg) (nH nW nK : Nat) : SOk (World.init c nH nW nK) := by
  intro m; exact FreeOk.nil _

/-- `AuxX` from its two halves. -/
theorem auxX_of {w : World} (hk : KOk w) (hs : SOk w) : AuxX w :=
  ⟨hk.kok, fun m => hs m⟩

end RustCc
