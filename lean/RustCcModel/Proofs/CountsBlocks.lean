import RustCcModel.Proofs.CountsStep
/-! Building blocks: how each primitive move of a pointer transforms `CountsH` (the invariant with
pointers in flight). Operations and frames are short chains of these. -/
namespace RustCc
open World
variable {ex : Bool}

theorem mem_stack_push' {w : World} {f g : Frame} (h : g ∈ (w.push f).stack) : g = f ∨ g ∈ w.stack := by
  simpa [World.push] using h

/-- From "accessibility never appears" to the freshness clause. -/
theorem acc_of_mono {w w' : World} {E : List Id} (h : CountsH ex w E)
    (hm : ∀ x, (w'.metas x).accessible = true → (w.metas x).accessible = true) :
    ∀ x, w.next ≤ x → (w'.metas x).accessible = false := by
  intro x hx
  have := h.mfresh x hx
  cases hacc : (w'.metas x).accessible with
  | false => rfl
  | true => rw [hm x hacc] at this; cases this

theorem removeFromList_metas (w : World) (y : Id) : (w.removeFromList y).metas = w.metas := by
  unfold World.removeFromList; split <;> rfl
theorem addToList_metas (w : World) (y : Id) : (w.addToList y).metas = w.metas := by
  unfold World.addToList; split <;> (try rfl) <;> split <;> rfl
theorem dropMetadata_acc (w : World) (y x : Id) : ((w.dropMetadata y).metas x).accessible = true → (w.metas x).accessible = true := by
  unfold World.dropMetadata
  split
  · split <;> (by_cases hxy : x = y <;> simp [World.updMeta, World.emit, Metas.set, hxy])
  · exact fun h => h
theorem weakDrop_acc (w : World) (r : WRef) (x : Id) : ((w.weakDrop r).metas x).accessible = true → (w.metas x).accessible = true := by
  unfold World.weakDrop
  cases r with
  | dangling => exact fun h => h
  | to y => simp only; split <;> (by_cases hxy : x = y <;> simp [World.updMeta, World.emit, Metas.set, hxy])
theorem initMeta_acc (w : World) (y x : Id) (hxy : x ≠ y) : ((w.initMeta y).metas x).accessible = (w.metas x).accessible := by
  unfold World.initMeta; split
  · rfl
  · simp [World.updMeta, World.upd, Metas.set, hxy]

theorem CountsH.of_count {w : World} {E E' : List Id} (h : CountsH ex w E) (hc : ∀ x, E'.count x = E.count x) : CountsH ex w E' :=
  ⟨fun x => by rw [hc]; exact h.le x, fun hex x => by rw [hc]; exact h.ge hex x, fun x hx => by rw [hc]; exact h.fresh x hx, h.frames, h.pcb, h.mfresh⟩

/-- Leaking pointers in flight (unwinding) keeps the invariant. -/
theorem CountsH.forget {w : World} {E E' : List Id} (h : CountsH ex w E) (hc : ∀ x, E'.count x ≤ E.count x) : CountsH false w E' :=
  ⟨fun x => by have := h.le x; have := hc x; omega, (fun hex => nomatch hex), fun x hx => by have := h.fresh x hx; have := hc x; omega, h.frames, h.pcb, h.mfresh⟩

/-- A change that touches neither pointers nor counts nor liveness. -/
theorem CountsH.same {w w' : World} {E : List Id} (h : CountsH ex w E) (hr : ∀ x, refs w' x = refs w x)
    (hrc : ∀ x, (w'.heap x).rc = (w.heap x).rc)
    (hn : w'.next = w.next) (hst : ∀ f ∈ w'.stack, f ∈ w.stack) (hpc : ∀ x ∈ w'.pc, x ∈ w.pc ∨ x < w.next)
    (hm : ∀ x, w.next ≤ x → (w'.metas x).accessible = false) : CountsH ex w' E :=
  ⟨fun x => by rw [hr, hrc]; exact h.le x,
   fun hex x => by rw [hr, hrc]; exact h.ge hex x,
   fun x hx => by rw [hr]; exact h.fresh x (by rw [← hn]; exact hx),
   fun f hf i hi => by rw [hn]; exact h.frames f (hst f hf) i hi,
   fun x hx => by rw [hn]; rcases hpc x hx with h1 | h1; exact h.pcb x h1; exact h1,
   fun x hx => hm x (by rw [← hn]; exact hx)⟩

theorem CountsH.congr {w w' : World} {E : List Id} (h : CountsH ex w E) (hH : w'.H = w.H) (hs : w'.stash = w.stash)
    (hst : w'.stack = w.stack) (hn : w'.next = w.next) (hheap : w'.heap = w.heap) (hpc : w'.pc = w.pc)
    (hm : w'.metas = w.metas) : CountsH ex w' E :=
  h.same (fun x => refs_congr w w' x hH hs (by rw [hst]) hn (fun u _ => by rw [hheap])) (fun x => by rw [hheap])
    hn (fun f hf => by rw [← hst]; exact hf) (fun x hx => Or.inl (by rw [← hpc]; exact hx))
    (fun x hx => by rw [hm]; exact h.mfresh x hx)

theorem CountsH.ret {w : World} {E : List Id} (h : CountsH ex w E) (r : Ret) : CountsH ex { w with ret := r } E :=
  h.congr rfl rfl rfl rfl rfl rfl rfl

theorem CountsH.emit {w : World} {E : List Id} (h : CountsH ex w E) (e : Event) : CountsH ex (w.emit e) E :=
  h.congr rfl rfl rfl rfl rfl rfl rfl

/-- Side-record updates: of an allocated object, or ones that never make a record accessible. -/
theorem CountsH.updMeta {w : World} {E : List Id} (h : CountsH ex w E) (y : Id) (F : Meta → Meta)
    (hy : y < w.next ∨ ∀ m : Meta, (F m).accessible = true → m.accessible = true) : CountsH ex (w.updMeta y F) E :=
  h.same (fun x => rfl) (fun x => rfl) rfl (fun f hf => hf) (fun x hx => Or.inl hx)
    (fun x hx => by
      by_cases hxy : x = y
      · subst hxy
        rcases hy with hy | hy
        · exact absurd hy (Nat.not_lt.2 hx)
        · have := h.mfresh x hx
          cases hacc : ((w.updMeta x F).metas x).accessible with
          | false => rfl
          | true => rw [World.updMeta_metas_same] at hacc; rw [hy _ hacc] at this; cases this
      · rw [World.updMeta_metas_other w y x F hxy]; exact h.mfresh x hx)

theorem CountsH.raise {w : World} {E : List Id} (h : CountsH ex w E) : CountsH ex w.raise E := by
  unfold World.raise; split <;> exact h.congr rfl rfl rfl rfl rfl rfl rfl

theorem CountsH.raiseLogged {w : World} {E : List Id} (h : CountsH ex w E) : CountsH ex w.raiseLogged E := by
  unfold World.raiseLogged; exact (h.emit _).raise

/-- An update of one object that keeps its pointer fields, count and liveness. -/
theorem CountsH.upd_same {w : World} {E : List Id} (h : CountsH ex w E) (t : Id) (F : Obj → Obj)
    (hF : fieldsOf (F (w.heap t)) = fieldsOf (w.heap t)) (hrc : (F (w.heap t)).rc = (w.heap t).rc) : CountsH ex (w.upd t F) E := by
  apply h.same (fun x => refs_upd_same w t F x hF)
  · intro x; by_cases hx : x = t
    · subst hx; simpa using hrc
    · simp [upd, Heap.set, hx]
  · rfl
  · intro f hf; exact hf
  · intro x hx; exact Or.inl hx
  · exact h.mfresh

theorem CountsH.removeFromList {w : World} {E : List Id} (h : CountsH ex w E) (y : Id) : CountsH ex (w.removeFromList y) E :=
  h.same (fun x => by simp) (fun x => by simp) (by simp) (fun f hf => by simpa using hf)
    (fun x hx => Or.inl (pc_removeFromList_sub w y x hx)) (fun x hx => by rw [removeFromList_metas]; exact h.mfresh x hx)

theorem CountsH.addToList {w : World} {E : List Id} (h : CountsH ex w E) (y : Id) (hy : y < w.next) : CountsH ex (w.addToList y) E :=
  h.same (fun x => by simp) (fun x => by simp) (by simp) (fun f hf => by simpa using hf)
    (fun x hx => by rcases pc_addToList_sub w y x hx with h1 | h1; exact Or.inl h1; exact Or.inr (h1 ▸ hy))
    (fun x hx => by rw [addToList_metas]; exact h.mfresh x hx)

theorem CountsH.dropMetadata {w : World} {E : List Id} (h : CountsH ex w E) (y : Id) : CountsH ex (w.dropMetadata y) E :=
  h.same (fun x => by simp) (fun x => by simp) (by simp) (fun f hf => by simpa using hf)
    (fun x hx => Or.inl (by unfold World.dropMetadata at hx; split at hx <;> (try split at hx) <;> exact hx))
    (acc_of_mono h (dropMetadata_acc w y))

theorem CountsH.initMeta {w : World} {E : List Id} (h : CountsH ex w E) (y : Id) (hy : y < w.next) : CountsH ex (w.initMeta y) E :=
  h.same (fun x => by simp) (fun x => by simp) (by simp) (fun f hf => by simpa using hf)
    (fun x hx => Or.inl (by unfold World.initMeta at hx; split at hx <;> exact hx))
    (fun x hx => by
      have hxy : x ≠ y := fun e => by subst e; exact absurd hy (Nat.not_lt.2 hx)
      rw [initMeta_acc w y x hxy]; exact h.mfresh x hx)

theorem CountsH.weakDrop {w : World} {E : List Id} (h : CountsH ex w E) (r : WRef) : CountsH ex (w.weakDrop r) E :=
  h.same (fun x => by simp) (fun x => by simp) (by simp) (fun f hf => by simpa using hf)
    (fun x hx => Or.inl (by unfold World.weakDrop at hx; cases r <;> simp only at hx <;> (try split at hx) <;> exact hx))
    (acc_of_mono h (weakDrop_acc w r))

/-- Releasing a box: its count is reset, so nothing may point to it any more (`hz`: the guard under which
the code frees — count 0 — or the consumption of the last pointer). -/
theorem CountsH.freeBox {w : World} {E : List Id} (h : CountsH ex w E) (y : Id) (hz : refs w y + E.count y = 0) :
    CountsH ex (w.freeBox y) E :=
  ⟨fun x => by
      rw [freeBox_refs, freeBox_rc]
      by_cases hxy : x = y
      · subst hxy; simp; omega
      · simp [hxy]; exact h.le x,
   fun hex x => by
      rw [freeBox_refs, freeBox_rc]
      by_cases hxy : x = y
      · subst hxy; simp
      · simp [hxy]; exact h.ge hex x,
   fun x hx => by rw [freeBox_refs]; exact h.fresh x hx,
   fun f hf i hi => h.frames f hf i hi, fun x hx => h.pcb x hx, h.mfresh⟩

theorem CountsH.freeBox_of_rc {w : World} {E : List Id} (h : CountsH ex w E) (y : Id) (hz : (w.heap y).rc = 0) :
    CountsH ex (w.freeBox y) E :=
  h.freeBox y (by have := h.le y; omega)

/-- `try_unwrap`: the unique pointer (in flight) is consumed and the box released. -/
theorem CountsH.consumeFree {w : World} {E : List Id} {y : Id} (h : CountsH ex w (y :: E)) (hrc : (w.heap y).rc = 1) :
    CountsH ex (w.freeBox y) E := by
  have hy : y < w.next := h.lt_of_mem (List.mem_cons_self ..)
  refine ⟨?_, ?_, ?_, fun f hf i hi => h.frames f hf i hi, fun x hx => h.pcb x hx, h.mfresh⟩
  · intro x
    rw [freeBox_refs, freeBox_rc]
    have := h.le x
    by_cases hxy : x = y
    · subst hxy; simp [List.count_cons] at this ⊢; omega
    · have hxy' : ¬ y = x := fun e => hxy e.symm
      simp [hxy, List.count_cons, hxy'] at this ⊢; exact this
  · intro hex x
    rw [freeBox_refs, freeBox_rc]
    have := h.ge hex x
    by_cases hxy : x = y
    · subst hxy; simp
    · have hxy' : ¬ y = x := fun e => hxy e.symm
      simp [hxy, List.count_cons, hxy'] at this ⊢; exact this
  · intro x hx
    rw [freeBox_refs]
    have := h.fresh x hx
    have hxy : ¬ y = x := fun e => by subst e; exact absurd hy (Nat.not_lt.2 hx)
    simp [List.count_cons, hxy] at this ⊢; omega

/-- `Cc::clone` / successful upgrade: the count goes up, the new pointer is in flight. -/
theorem CountsH.clone {w : World} {E : List Id} (h : CountsH ex w E) (y : Id) (hy : y < w.next) : CountsH ex (w.cloneOk y) (y :: E) := by
  refine ⟨?_, ?_, ?_, ?_, ?_, ?_⟩
  · intro x
    have := h.le x
    rw [refs_cloneOk, cloneOk_rc, List.count_cons]
    by_cases hxy : y = x
    · subst hxy; simp; omega
    · have hxy' : ¬ x = y := fun e => hxy e.symm
      simp [hxy, hxy']; omega
  · intro hex x
    have := h.ge hex x
    rw [refs_cloneOk, cloneOk_rc, List.count_cons]
    by_cases hxy : y = x
    · subst hxy; simp; omega
    · have hxy' : ¬ x = y := fun e => hxy e.symm
      simp [hxy, hxy']; omega
  · intro x hx
    have hx' : w.next ≤ x := by simpa using hx
    have := h.fresh x hx'
    have hxy : ¬ y = x := fun e => by subst e; exact absurd hy (Nat.not_lt.2 hx')
    rw [refs_cloneOk, List.count_cons]
    simp [hxy]; omega
  · intro f hf i hi; simpa using h.frames f (by simpa using hf) i hi
  · intro x hx; simpa using h.pcb x (cloneOk_pcsub w y x hx)
  · intro x hx
    have hm : (w.cloneOk y).metas = w.metas := by unfold World.cloneOk; rw [removeFromList_metas]; rfl
    rw [hm]; exact h.mfresh x (by simpa using hx)

/-- Dropping a pointer in flight on the path that only decrements. -/
theorem CountsH.decr {w : World} {E : List Id} {y : Id} (h : CountsH ex w (y :: E)) : CountsH ex (w.upd y fun o => { o with rc := o.rc - 1 }) E := by
  have hy : y < w.next := h.lt_of_mem (List.mem_cons_self ..)
  refine ⟨?_, ?_, ?_, ?_, ?_, h.mfresh⟩
  · intro x
    rw [refs_upd_same w y _ x rfl]
    by_cases hxy : y = x
    · subst hxy
      have := h.le y
      simp [List.count_cons] at this ⊢; omega
    · have hxy' : ¬ x = y := fun e => hxy e.symm
      have := h.le x
      simp [List.count_cons, hxy] at this
      simp [upd, Heap.set, hxy']; omega
  · intro hex x
    rw [refs_upd_same w y _ x rfl]
    by_cases hxy : y = x
    · subst hxy
      have := h.ge hex y
      simp [List.count_cons] at this ⊢; omega
    · have hxy' : ¬ x = y := fun e => hxy e.symm
      have := h.ge hex x
      simp [List.count_cons, hxy] at this
      simp [upd, Heap.set, hxy']; omega
  · intro x hx
    have := h.fresh x hx
    rw [refs_upd_same w y _ x rfl]
    simp [List.count_cons] at this; omega
  · exact h.frames
  · exact h.pcb

/-- Storing a pointer in flight in a free table entry. -/
theorem CountsH.putTable {w : World} {E : List Id} {y : Id} (h : CountsH ex w (y :: E)) {k : Nat}
    (hnone : w.getH k = none) (hk : k < w.H.length) : CountsH ex (w.setH k (some y)) E := by
  have e : ∀ x, refs (w.setH k (some y)) x = refs w x + [y].count x := by
    intro x
    have := refs_setH w k (some y) x hk
    rw [hnone] at this
    simpa using this
  refine ⟨?_, ?_, ?_, h.frames, h.pcb, h.mfresh⟩
  · intro x
    have hh : (w.setH k (some y)).heap x = w.heap x := rfl
    rw [hh]
    have := h.le x
    rw [e]; simp [List.count_cons] at this ⊢; omega
  · intro hex x
    have hh : (w.setH k (some y)).heap x = w.heap x := rfl
    rw [hh]
    have := h.ge hex x
    rw [e]; simp [List.count_cons] at this ⊢; omega
  · intro x hx
    have hx' : w.next ≤ x := hx
    have := h.fresh x hx'
    rw [e]
    have hc : (y :: E).count x = [y].count x + E.count x := by simp [List.count_cons]; omega
    omega

/-- Taking a pointer out of a table entry: it is in flight. -/
theorem CountsH.takeTable {w : World} {E : List Id} {y : Id} (h : CountsH ex w E) {k : Nat}
    (hsome : w.getH k = some y) : CountsH ex (w.setH k none) (y :: E) := by
  have hk : k < w.H.length := by
    cases Nat.lt_or_ge k w.H.length with
    | inl h => exact h
    | inr hge => simp [World.getH, List.getD_eq_getElem?_getD, List.getElem?_eq_none hge] at hsome
  have e : ∀ x, refs (w.setH k none) x + [y].count x = refs w x := by
    intro x
    have := refs_setH w k none x hk
    rw [hsome] at this
    simpa using this
  refine ⟨?_, ?_, ?_, h.frames, h.pcb, h.mfresh⟩
  · intro x
    have hh : (w.setH k none).heap x = w.heap x := rfl
    rw [hh]
    have h1 := h.le x
    have h2 := e x
    simp [List.count_cons] at h2 ⊢; omega
  · intro hex x
    have hh : (w.setH k none).heap x = w.heap x := rfl
    rw [hh]
    have h1 := h.ge hex x
    have h2 := e x
    simp [List.count_cons] at h2 ⊢; omega
  · intro x hx
    have hx' : w.next ≤ x := hx
    have h1 := h.fresh x hx'
    have h2 := e x
    have hc : (y :: E).count x = [y].count x + E.count x := by simp [List.count_cons]; omega
    omega

/-- Pushing a frame: the pointers it holds leave the in-flight list. -/
theorem CountsH.pushFrame {w : World} {E : List Id} (f : Frame) (h : CountsH ex w (f.holds ++ E))
    (hids : ∀ i ∈ f.ids, i < w.next) : CountsH ex (w.push f) E := by
  refine ⟨?_, ?_, ?_, ?_, h.pcb, h.mfresh⟩
  · intro x
    have hh : (w.push f).heap x = w.heap x := rfl
    rw [hh]
    have := h.le x
    rw [refs_push]; simp [List.count_append] at this; omega
  · intro hex x
    have hh : (w.push f).heap x = w.heap x := rfl
    rw [hh]
    have := h.ge hex x
    rw [refs_push]; simp [List.count_append] at this; omega
  · intro x hx
    have hx' : w.next ≤ x := hx
    have := h.fresh x hx'
    rw [refs_push]; simp [List.count_append] at this; omega
  · intro g hg i hi
    rcases mem_stack_push' hg with h1 | h1
    · subst h1; exact hids i hi
    · exact h.frames g h1 i hi

/-! ### Fields -/

theorem fieldsOf_setSlot_count (o : Obj) (s : Slot) (v old : Option Id) (x : Id) (h : getSlot o s = some old) :
    (fieldsOf (setSlot o s v)).count x + old.toList.count x = (fieldsOf o).count x + v.toList.count x := by
  cases s with
  | f i =>
    simp only [getSlot] at h
    have hi : i < o.slots.length := by
      cases Nat.lt_or_ge i o.slots.length with
      | inl h' => exact h'
      | inr h' => simp [List.getElem?_eq_none h'] at h
    have := optIds_set_count o.slots i v x hi
    rw [h] at this
    simp only [Option.getD_some] at this
    simp only [fieldsOf, setSlot, List.count_append]
    omega
  | u i =>
    simp only [getSlot] at h
    have hi : i < o.uslots.length := by
      cases Nat.lt_or_ge i o.uslots.length with
      | inl h' => exact h'
      | inr h' => simp [List.getElem?_eq_none h'] at h
    have := optIds_set_count o.uslots i v x hi
    rw [h] at this
    simp only [Option.getD_some] at this
    simp only [fieldsOf, setSlot, List.count_append]
    omega

theorem setSlot_rc (o : Obj) (s : Slot) (v) : (setSlot o s v).rc = o.rc ∧ (setSlot o s v).boxLive = o.boxLive := by
  cases s <;> exact ⟨rfl, rfl⟩

/-- Generic field update: `F` changes the pointer fields of `t` from (… + `out`) to (… + `inn`), keeps count and liveness:
the `inn` pointers come from the in-flight list, the `out` pointers go there. -/
theorem CountsH.updFields {w : World} {E : List Id} (t : Id) (F : Obj → Obj) (inn out : List Id)
    (h : CountsH ex w (inn ++ E)) (ht : t < w.next)
    (hF : ∀ x, (fieldsOf (F (w.heap t))).count x + out.count x = (fieldsOf (w.heap t)).count x + inn.count x)
    (hrc : (F (w.heap t)).rc = (w.heap t).rc) (hbl : (F (w.heap t)).boxLive = (w.heap t).boxLive) :
    CountsH ex (w.upd t F) (out ++ E) := by
  have e : ∀ x, refs (w.upd t F) x + out.count x = refs w x + inn.count x := by
    intro x
    have h1 := refs_upd w t F x ht
    have h2 := hF x
    omega
  have hheap : ∀ x, ((w.upd t F).heap x).rc = (w.heap x).rc ∧ ((w.upd t F).heap x).boxLive = (w.heap x).boxLive := by
    intro x
    by_cases hx : x = t
    · subst hx; simp [hrc, hbl]
    · simp [upd, Heap.set, hx]
  refine ⟨?_, ?_, ?_, h.frames, h.pcb, h.mfresh⟩
  · intro x
    have h1 := h.le x
    have h2 := e x
    rw [(hheap x).1]
    simp only [List.count_append] at h1 ⊢
    omega
  · intro hex x
    have h1 := h.ge hex x
    have h2 := e x
    rw [(hheap x).1]
    simp only [List.count_append] at h1 ⊢
    omega
  · intro x hx
    have hx' : w.next ≤ x := hx
    have h1 := h.fresh x hx'
    have h2 := e x
    simp only [List.count_append] at h1 ⊢
    omega

/-- Storing a pointer in flight in a field (the previous content goes in flight). -/
theorem CountsH.putField {w : World} {E : List Id} {y : Id} (h : CountsH ex w (y :: E)) {t : Id} (ht : t < w.next)
    {s : Slot} {old : Option Id} (hs : getSlot (w.heap t) s = some old) :
    CountsH ex (w.upd t fun o => setSlot o s (some y)) (old.toList ++ E) := by
  apply CountsH.updFields t _ [y] old.toList (by simpa using h) ht
  · intro x; have := fieldsOf_setSlot_count (w.heap t) s (some y) old x hs; simpa using this
  · exact (setSlot_rc _ _ _).1
  · exact (setSlot_rc _ _ _).2

/-- Emptying a field: its pointer goes in flight. -/
theorem CountsH.clearField {w : World} {E : List Id} (h : CountsH ex w E) {t : Id} (ht : t < w.next)
    {s : Slot} {y : Id} (hs : getSlot (w.heap t) s = some (some y)) :
    CountsH ex (w.upd t fun o => setSlot o s none) (y :: E) := by
  have := CountsH.updFields t (fun o => setSlot o s none) [] [y] (by simpa using h) ht
    (by intro x; have := fieldsOf_setSlot_count (w.heap t) s none (some y) x hs; simpa using this)
    (setSlot_rc _ _ _).1 (setSlot_rc _ _ _).2
  simpa using this

end RustCc
