import RustCcModel.Proofs.ExecsCount
/-! A micro-step starts at most one collection, and only when none is in progress. -/
namespace RustCc
open World

/-- `w'` started at most one collection since `w`, and if it did, none was in progress in `w` and one is in `w'`. -/
def ExLe (w w' : World) : Prop :=
  w'.execs = w.execs ∨ (w'.execs = w.execs + 1 ∧ w.collecting = false ∧ w'.collecting = true)

macro "exle_tac" : tactic => `(tactic| (
  unfold ExLe
  simp [putH_execs, foldl_free_execs, World.setH, World.setW, World.setK, World.push, World.emit, World.upd, World.updMeta,
    World.startCollect, World.shouldCollect, World.putH] at *
  try (first | omega | (repeat' split) <;> simp_all)))

set_option maxHeartbeats 8000000 in
theorem execOp_exLe (c : Cfg) (w : World) (self wc : Option Id) (op : Op) : ExLe w (execOp c w self wc op) := by
  cases op with
  | fault kind n j => cases kind <;> exact Or.inl rfl
  | _ =>
    simp only [execOp]
    repeat' split
    all_goals first | exact Or.inl rfl | exle_tac

macro "exs" : tactic => `(tactic| first
  | rfl
  | (simp [putH_execs, foldl_free_execs, World.setH, World.setW, World.setK, World.push, World.emit, World.upd, World.updMeta]; done))

set_option maxHeartbeats 16000000 in
theorem stepFrame_exLe (c : Cfg) (w : World) (f : Frame) : ExLe w (stepFrame c w f) := by
  cases f with
  | script ops self wc top =>
    cases ops with
    | nil => exact Or.inl rfl
    | cons op ops =>
      simp only [stepFrame]
      have := execOp_exLe c (w.push (.script ops self wc top)) self wc op
      split
      · exact this
      · exact this
  | collectPass =>
    left
    simp only [stepFrame, startDealloc]
    generalize tracePhasesF _ _ _ _ _ = r
    obtain ⟨res, fault⟩ := r
    cases res <;> simp only [] <;> repeat' split
    all_goals exs
  | deallocDrop N r oD =>
    left
    cases r with
    | cons y r => simp only [stepFrame]; repeat' split
                  all_goals exs
    | nil =>
      simp only [stepFrame]
      split
      · exs
      · exs
  | regInsert owner script k cap =>
    left
    simp only [stepFrame]
    split
    · rfl
    · split
      · exs
      · cases hfr : (w.heap _).afree <;> simp only [] <;> split <;> exs
  | _ =>
    left
    simp only [stepFrame, destroyLast, startDealloc]
    repeat' split
    all_goals exs

theorem unwindFrame_execs (c : Cfg) (w : World) (f : Frame) : (unwindFrame c w f).execs = w.execs := by
  cases f <;> simp only [unwindFrame] <;> repeat' split
  all_goals exs

/-- **Every micro-step starts at most one collection, and only when none is in progress.** -/
theorem step_exLe (c : Cfg) (w : World) : ExLe w (step c w) := by
  unfold step
  split
  · exact Or.inl rfl
  · exact Or.inl rfl
  · split
    · exact Or.inl rfl
    · exact Or.inl (unwindFrame_execs c _ _)
  · split
    · exact Or.inl rfl
    · exact stepFrame_exLe c _ _

end RustCc
