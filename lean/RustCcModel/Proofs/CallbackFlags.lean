import RustCcModel.Proofs.FlagsStep
import RustCcModel.Proofs.Life
/-! **Inside every finalizer and destructor a phase flag is up** — in every reachable world, caught panics and nested
collections included. `gOk`: below every frame that runs (or is about to run) user code on an object — a script with a
`self`, a pending `finalize` / `drop_in_place` call — the guard frames on the stack raise at least one of
`collecting` / `finalizing` / `dropping`. With `FlagsOk` (flags = what the guard frames say) the flags themselves are up while
such a frame is on top. -/
namespace RustCc
open World

def Frame.needsGuard : Frame → Bool
  | .script _ (some _) _ _ => true
  | .callFin _ => true
  | .dropValue _ => true
  | _ => false

def anyFlag : Option Flags → Bool
  | some (a, b, d) => a || b || d
  | none => false

@[simp] theorem anyFlag_some (a b d : Bool) : anyFlag (some (a, b, d)) = (a || b || d) := rfl

def gOk : List Frame → Bool
  | [] => true
  | f :: rest => (!f.needsGuard || anyFlag (expected rest)) && gOk rest

@[simp] theorem gOk_nil : gOk [] = true := rfl
@[simp] theorem gOk_cons (f : Frame) (rest : List Frame) :
    gOk (f :: rest) = ((!f.needsGuard || anyFlag (expected rest)) && gOk rest) := rfl

def GOk (w : World) : Prop := gOk w.stack = true

macro "g_close" : tactic => `(tactic| first
  | (simp_all [GOk, Frame.needsGuard, World.putH, World.startCollect, World.cloneOk]; done)
  | (simp_all [GOk, Frame.needsGuard, World.putH, World.startCollect, World.cloneOk]; split <;> simp_all [Frame.needsGuard]; done))

set_option maxHeartbeats 4000000 in
theorem execOp_gOk (c : Cfg) (w : World) (self wc : Option Id) (op : Op) (h : GOk w) : GOk (execOp c w self wc op) := by
  cases op with
  | fault kind n j => cases kind <;> simpa [execOp, GOk] using h
  | _ =>
    simp only [execOp]
    repeat' split
    all_goals g_close

theorem fin_of_finalizePass {N r : List Id} {hh o : Bool} {st : List Frame} {fl : Flags}
    (h : expected (.finalizePass N r hh o :: st) = some fl) : fl.2.1 = true := by
  simp only [expected] at h
  cases he : expected st with
  | none => rw [he] at h; simp at h
  | some b =>
    rw [he] at h
    simp only [Option.bind_some, Frame.flags] at h
    split at h
    · cases h; rfl
    · cases h

theorem drop_of_deallocDrop {N r : List Id} {o : Bool} {st : List Frame} {fl : Flags}
    (h : expected (.deallocDrop N r o :: st) = some fl) : fl.2.2 = true := by
  simp only [expected] at h
  cases he : expected st with
  | none => rw [he] at h; simp at h
  | some b =>
    rw [he] at h
    simp only [Option.bind_some, Frame.flags] at h
    split at h
    · cases h; rfl
    · cases h

theorem destroyLast_dropping (c : Cfg) (w : World) (x : Id) : (destroyLast c w x).dropping = true := by
  unfold destroyLast
  simp only []
  split <;> rfl

/-- The new top frame needs a guard and the flags of the new world are up. -/
theorem gOk_top {g : Frame} {rest : List Frame} {fl : Flags} (hn : g.neutral = true) (hE : expected (g :: rest) = some fl)
    (ha : (fl.1 || fl.2.1 || fl.2.2) = true) (hr : gOk rest = true) : gOk (g :: rest) = true := by
  rw [expected_cons_neutral g rest hn] at hE
  simp only [gOk_cons, hE, hr, Bool.and_true, Bool.or_eq_true, Bool.not_eq_true']
  right
  obtain ⟨a, b, d⟩ := fl
  simpa using ha

set_option maxHeartbeats 16000000 in
theorem stepFrame_gOk (c : Cfg) (w : World) (f : Frame) (hf : expected (f :: w.stack) = some w.flags)
    (h : gOk (f :: w.stack) = true) : GOk (stepFrame c w f) := by
  have hfo : expected (stepFrame c w f).stack = some (stepFrame c w f).flags := stepFrame_flagsOk c w f hf
  have ht : gOk w.stack = true := by simp only [gOk_cons, Bool.and_eq_true] at h; exact h.2
  cases f with
  | script ops self wc top =>
    cases ops with
    | nil => simpa [stepFrame, GOk] using ht
    | cons op ops =>
      simp only [stepFrame]
      have h1 : GOk (w.push (.script ops self wc top)) := by
        cases self <;> simp_all [GOk, Frame.needsGuard]
      have h2 := execOp_gOk c _ self wc op h1
      split
      · exact h2
      · simpa [GOk] using h2
  | callFin x =>
    have ha : anyFlag (expected w.stack) = true := by simpa [Frame.needsGuard, ht] using h
    simp only [stepFrame]
    repeat' split
    all_goals first
      | (simp_all [GOk, Frame.needsGuard]; done)
      | (simp [GOk, Frame.needsGuard, ht, ha, World.emit, World.push, World.raiseLogged]; done)
  | dropValue x =>
    have ha : anyFlag (expected w.stack) = true := by simpa [Frame.needsGuard, ht] using h
    simp only [stepFrame]
    repeat' split
    all_goals first
      | (simp_all [GOk, Frame.needsGuard]; done)
      | (simp [GOk, Frame.needsGuard, ht, ha, World.emit, World.push, World.raiseLogged]; done)
  | dropCc x =>
    revert hfo
    simp only [stepFrame]
    repeat' split
    all_goals (intro hfo)
    all_goals first
      | (simp_all [GOk, Frame.needsGuard]; done)
      | (refine gOk_top rfl hfo ?_ ?_ <;> simp [World.flags, World.push, ht, Frame.needsGuard]; done)
      | (obtain ⟨d, hd⟩ := destroyLast_stack c w x
         unfold GOk
         rw [hd] at hfo ⊢
         refine gOk_top rfl hfo ?_ ?_
         · simp [World.flags, destroyLast_dropping]
         · simp [Frame.needsGuard, ht])
  | dropCcAfterFin x oF =>
    revert hfo
    simp only [stepFrame]
    split
    · intro hfo; simp_all [GOk, Frame.needsGuard]
    · intro hfo
      obtain ⟨d, hd⟩ := destroyLast_stack c ({ w with finalizing := oF } : World) x
      unfold GOk
      rw [hd] at hfo ⊢
      refine gOk_top rfl hfo ?_ ?_
      · simp [World.flags, destroyLast_dropping]
      · simp [Frame.needsGuard]; exact ht
  | finalizePass N r hasFin oF =>
    have hfin : w.finalizing = true := fin_of_finalizePass hf
    revert hfo
    cases r with
    | nil =>
      simp only [stepFrame, startDealloc]
      repeat' split
      all_goals (intro hfo; simp_all [GOk, Frame.needsGuard]; done)
    | cons y r =>
      simp only [stepFrame]
      split
      · intro hfo
        refine gOk_top rfl hfo ?_ ?_
        · simp [World.flags, World.push, hfin]
        · simp [Frame.needsGuard, World.push, ht]
      · intro hfo; simp_all [GOk, Frame.needsGuard]
  | deallocDrop N r oD =>
    have hdrp : w.dropping = true := drop_of_deallocDrop hf
    revert hfo
    cases r with
    | nil =>
      simp only [stepFrame]
      split
      · intro hfo; simp_all [GOk, Frame.needsGuard]
      · intro hfo; simpa [GOk, foldl_free_stack] using ht
    | cons y r =>
      simp only [stepFrame]
      split <;>
      · intro hfo
        refine gOk_top rfl hfo ?_ ?_
        · simp [World.flags, World.push, hdrp]
        · simp [Frame.needsGuard, World.push, ht]
  | collectPass =>
    simp only [stepFrame, startDealloc]
    generalize tracePhasesF _ _ _ _ _ = r
    obtain ⟨res, fault⟩ := r
    cases res <;> simp only [] <;> repeat' split
    all_goals (simp_all [GOk, Frame.needsGuard]; done)
  | regInsert owner script k cap =>
    simp only [stepFrame]
    split
    · simp_all [GOk, Frame.needsGuard]
    · split
      · simp_all [GOk, Frame.needsGuard]
      · cases hfr : (w.heap _).afree <;> simp only [] <;> split <;> simp_all [GOk, Frame.needsGuard, World.setK]
  | _ =>
    simp only [stepFrame, startDealloc]
    repeat' split
    all_goals g_close

theorem unwindFrame_gOk (c : Cfg) (w : World) (f : Frame) (h : GOk w) : GOk (unwindFrame c w f) := by
  cases f <;> simp only [unwindFrame] <;> repeat' split
  all_goals (simp_all [GOk, Frame.needsGuard]; done)

theorem step_gOk (c : Cfg) (w : World) (hf : FlagsOk w) (h : GOk w) : GOk (step c w) := by
  unfold step
  split
  · exact h
  · exact h
  · split
    · exact h
    · rename_i f rest hs
      refine unwindFrame_gOk c _ f ?_
      unfold GOk at h ⊢
      rw [hs] at h
      simp only [gOk_cons, Bool.and_eq_true] at h
      exact h.2
  · split
    · exact h
    · rename_i f rest hs
      refine stepFrame_gOk c { w with stack := rest } f ?_ ?_
      · have := (flagsOk_iff w).1 hf
        rw [hs] at this; exact this
      · unfold GOk at h; rw [hs] at h; exact h

theorem reachable_gOk (c : Cfg) (nH nW nK : Nat) (w : World) (h : Reachable c nH nW nK w) : GOk w := by
  induction h with
  | init => simp [GOk, World.init]
  | step w hw ih => exact step_gOk c w (reachable_flagsOk c nH nW nK w hw) ih
  | top w op _ hs _ ih => simp [GOk, Frame.needsGuard]

/-- **While a finalizer or destructor script is the running frame, a phase flag is up.** -/
theorem callback_flag_up (c : Cfg) (nH nW nK : Nat) (w : World) (h : Reachable c nH nW nK w)
    (ops : List Op) (x : Id) (wc : Option Id) (top : Bool) (rest : List Frame)
    (hs : w.stack = .script ops (some x) wc top :: rest) :
    w.collecting = true ∨ w.finalizing = true ∨ w.dropping = true := by
  have hg := reachable_gOk c nH nW nK w h
  have hf := (flagsOk_iff w).1 (reachable_flagsOk c nH nW nK w h)
  unfold GOk at hg
  rw [hs] at hg hf
  simp only [gOk_cons, Frame.needsGuard, Bool.not_true, Bool.false_or, Bool.and_eq_true] at hg
  rw [expected_script] at hf
  rw [hf] at hg
  have := hg.1
  simp only [anyFlag_some, Bool.or_eq_true] at this
  rcases this with (h1 | h1) | h1
  · exact Or.inl h1
  · exact Or.inr (Or.inl h1)
  · exact Or.inr (Or.inr h1)

end RustCc
