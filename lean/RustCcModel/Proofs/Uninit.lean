import RustCcModel.Proofs.CycFresh
/-! **A box whose value was never built exists only under its `new_cyclic` call** — every history, caught panics included.

`HistU w D`: a history ending in `w` in which the values of `D` were handed to `drop_in_place`. Invariant: a box that exists
and does not hold an intact value either belongs to a `new_cyclic` call that is still on the stack, or its value was handed to
`drop_in_place` earlier. So once the panic of a `new_cyclic` closure has propagated out of the call, its box is gone. -/
namespace RustCc
open World
open T1 (Mark)

/-- The value handed to `drop_in_place` by the next micro-step, if any. -/
def destroyedNow (w : World) : List Id :=
  match w.mode, w.stack with
  | .running, .dropValue y :: _ => [y]
  | _, _ => []

inductive HistU (c : Cfg) (nH nW nK : Nat) : World → List Id → Prop
  | init : HistU c nH nW nK (World.init c nH nW nK) []
  | step (w) (D) : HistU c nH nW nK w D → HistU c nH nW nK (step c w) (D ++ destroyedNow w)
  | top (w) (op : Op) (D) : HistU c nH nW nK w D → w.stack = [] → w.mode = .running →
      HistU c nH nW nK { w with stack := [.script [op] none none true, .catchTop], events := [], ret := .ok } D

theorem HistU.reachable {c : Cfg} {nH nW nK : Nat} {w : World} {D : List Id} (h : HistU c nH nW nK w D) :
    Reachable c nH nW nK w := by
  induction h with
  | init => exact .init
  | step w D _ ih => exact .step w ih
  | top w op D _ hs hm ih => exact .top w op ih hs hm

macro "dead_tac" : tactic => `(tactic| (
  intro x hx
  refine Or.inl ?_
  first
  | simpa [upd_lv_same, updAll_lv_same, putH_lv, World.setH, World.setW, World.setK, World.startCollect, World.emit,
      World.push, World.updMeta] using hx
  | (simp [upd_lv_same, updAll_lv_same, putH_lv, World.setH, World.setW, World.setK, World.startCollect, World.emit,
      World.push, World.updMeta] at hx
     rw [freeBox_lv] at hx
     split at hx <;> first | (simp at hx; done) | simpa [dropMetadata_lv] using hx)))

set_option maxHeartbeats 8000000 in
theorem execOp_dead (c : Cfg) (w : World) (self wc : Option Id) (op : Op) :
    ∀ x, ((execOp c w self wc op).heap x).lv = (true, false) → (w.heap x).lv = (true, false) := by
  cases op with
  | fault kind n j => cases kind <;> exact fun _ h => h
  | unwrap k =>
    simp only [execOp]
    split
    · split
      · exact fun _ h => h
      · rename_i x hx hg
        intro y hy
        split at hy <;>
        · simp only [World.push_heap, freeBox_lv, dropMetadata_lv] at hy
          by_cases e : y = x
          · subst e; simp at hy
          · simpa [World.upd, Heap.set, e, World.setH] using hy
    · exact fun _ h => h
  | _ =>
    simp only [execOp]
    repeat' split
    all_goals (intro x hx; simpa [upd_lv_same, updAll_lv_same, putH_lv, World.setH, World.setW, World.setK, World.startCollect, World.emit,
      World.push, World.updMeta] using hx)

set_option maxHeartbeats 16000000 in
/-- A box without an intact value after a step was one before, or the step handed its value to `drop_in_place`, or the step
allocated it for a `new_cyclic` call whose frame is now on the stack. -/
theorem stepFrame_dead (c : Cfg) (w : World) (f : Frame) :
    ∀ x, ((stepFrame c w f).heap x).lv = (true, false) →
      (w.heap x).lv = (true, false) ∨ f = .dropValue x ∨ x ∈ cycs (stepFrame c w f).stack := by
  cases f with
  | script ops self wc top =>
    cases ops with
    | nil => simp only [stepFrame]; exact fun _ h => Or.inl h
    | cons op ops =>
      simp only [stepFrame]
      have := execOp_dead c (w.push (.script ops self wc top)) self wc op
      split <;> exact fun x hx => Or.inl (this x hx)
  | collectPass =>
    simp only [stepFrame, startDealloc]
    generalize tracePhasesF _ _ _ _ _ = r
    obtain ⟨res, fault⟩ := r
    cases res <;> simp only [] <;> repeat' split
    all_goals dead_tac
  | deallocDrop N r oD =>
    cases r with
    | cons x r => simp only [stepFrame]; repeat' split
                  all_goals dead_tac
    | nil =>
      simp only [stepFrame]
      split
      · dead_tac
      · intro x hx; refine Or.inl ?_
        simp only [foldl_free_lv] at hx
        split at hx
        · simp at hx
        · exact hx
  | dropValue y =>
    simp only [stepFrame]
    intro x hx
    by_cases e : x = y
    · subst e; exact Or.inr (Or.inl rfl)
    · refine Or.inl ?_
      revert hx
      repeat' split
      all_goals (intro hx; simpa [World.upd, World.push, World.emit, Heap.set, e] using hx)
  | dropFields y unw =>
    simp only [stepFrame]
    have ht := takeField_lv (w.heap y)
    split
    · rename_i z o' hz
      rw [hz] at ht
      intro x hx; refine Or.inl ?_
      by_cases e : x = y
      · subst e; simpa [World.push, ht] using hx
      · simpa [World.push, World.upd, Heap.set, e] using hx
    · rename_i z o' hz
      rw [hz] at ht
      intro x hx; refine Or.inl ?_
      rw [weakDrop_lv] at hx
      by_cases e : x = y
      · subst e; simpa [World.push, ht] using hx
      · simpa [World.push, World.upd, Heap.set, e] using hx
    · split <;> exact fun _ h => Or.inl h
  | regInsert owner script k cap =>
    simp only [stepFrame]
    split
    · exact fun _ h => Or.inl h
    · split
      · dead_tac
      · rename_i m hm hbor
        have hgen : ∀ (idx : Nat) (om' : Obj), om'.lv = (w.heap m).lv → ∀ x,
            ((if (((({ w with nextAid := w.nextAid + 1 } : World).upd m fun _ => om').initMeta m).metas m).weak ≥ c.weakMax then
                ((({ w with nextAid := w.nextAid + 1 } : World).upd m fun _ => om').initMeta m).raise
              else ((((({ w with nextAid := w.nextAid + 1 } : World).upd m fun _ => om').initMeta m).updMeta m
                fun mm => { mm with weak := mm.weak + 1 }).removeFromList m).setK k (some (m, idx, w.nextAid))).heap x).lv = (true, false) →
            (w.heap x).lv = (true, false) := by
          intro idx om' hom x hx
          have hlv : ((({ w with nextAid := w.nextAid + 1 } : World).upd m fun _ => om').heap x).lv = (w.heap x).lv := by
            by_cases e : x = m
            · subst e; simpa using hom
            · simp [World.upd, Heap.set, e]
          split at hx
          · rw [raise_lv, initMeta_lv, hlv] at hx; exact hx
          · have : ∀ W : World, ((W.setK k (some (m, idx, w.nextAid))).heap x) = W.heap x := fun _ => rfl
            rw [this, removeFromList_lv] at hx
            simp only [World.updMeta_heap] at hx
            rw [initMeta_lv, hlv] at hx; exact hx
        cases hfr : (w.heap m).afree with
        | nil => simp only []; exact fun x hx => Or.inl (by refine hgen _ _ ?_ x hx; rfl)
        | cons i fr => simp only []; exact fun x hx => Or.inl (by refine hgen _ _ ?_ x hx; rfl)
  | newAlloc k sp =>
    simp only [stepFrame]
    intro x hx
    rw [putH_lv] at hx
    by_cases e : x = w.next
    · subst e; simp [World.emit, Heap.set, Obj.lv, newObj] at hx
    · exact Or.inl (by simpa [World.emit, Heap.set, e] using hx)
  | newCyclicAlloc k sp body selfw =>
    simp only [stepFrame]
    split <;>
    · intro x hx
      by_cases e : x = w.next
      · refine Or.inr (Or.inr ?_)
        subst e
        simp [cycs_cons, Frame.cyc, World.push, World.emit, World.updMeta]
      · exact Or.inl (by simpa [World.emit, World.push, World.updMeta, Heap.set, e] using hx)
  | mapAlloc owner =>
    simp only [stepFrame]
    split
    · intro x hx
      simp only [upd_lv_same _ _ (fun o : Obj => { o with cmap := some w.next }) _ (fun _ => ⟨rfl, rfl⟩)] at hx
      by_cases e : x = w.next
      · subst e; simp [World.emit, Heap.set, Obj.lv] at hx
      · exact Or.inl (by simpa [World.emit, World.push, Heap.set, e] using hx)
    · intro x hx
      by_cases e : x = w.next
      · subst e; simp [World.emit, World.push, Heap.set, Obj.lv] at hx
      · exact Or.inl (by simpa [World.emit, World.push, Heap.set, e] using hx)
  | newCyclicEnd k id sp selfw =>
    intro x hx
    refine Or.inl ?_
    by_cases e : x = id
    · subst e
      cases selfw with
      | none =>
        simp only [stepFrame] at hx
        split at hx
        · simpa [World.push] using hx
        · rw [putH_lv, weakDrop_lv] at hx
          split at hx <;> simp [World.upd, Obj.lv, World.updMeta] at hx
      | some j =>
        simp only [stepFrame] at hx
        split at hx
        · simpa [World.push] using hx
        · rw [putH_lv, weakDrop_lv] at hx
          split at hx <;> simp [World.upd, Obj.lv, World.updMeta] at hx
    · cases selfw with
      | none =>
        simp only [stepFrame] at hx
        split at hx
        · simpa [World.push] using hx
        · rw [putH_lv, weakDrop_lv] at hx
          split at hx <;> simpa [World.upd, Heap.set, e, World.updMeta] using hx
      | some j =>
        simp only [stepFrame] at hx
        split at hx
        · simpa [World.push] using hx
        · rw [putH_lv, weakDrop_lv] at hx
          split at hx <;> simpa [World.upd, Heap.set, e, World.updMeta] using hx
  | _ =>
    simp only [stepFrame, destroyLast, startDealloc]
    repeat' split
    all_goals dead_tac

theorem unwindFrame_dead (c : Cfg) (w : World) (f : Frame) :
    ∀ x, ((unwindFrame c w f).heap x).lv = (true, false) → (w.heap x).lv = (true, false) := by
  cases f with
  | newCyclicEnd k id sp selfw =>
    simp only [unwindFrame]
    intro x hx
    rw [weakDrop_lv, freeBox_lv] at hx
    split at hx
    · simp at hx
    · simpa using hx
  | _ =>
    simp only [unwindFrame]
    repeat' split
    all_goals (intro x hx; first
      | simpa [upd_lv_same, updAll_lv_same, World.push] using hx
      | (rw [weakDrop_lv, freeBox_lv] at hx; split at hx <;> first | (simp at hx; done) | simpa using hx))

/-- Frames are only pushed on the popped stack: what was under construction below stays so. -/
theorem PushedP.cycs_sup {P : Frame → Prop} {rest st : List Frame} (h : PushedP P rest st) :
    ∀ x ∈ cycs rest, x ∈ cycs st := by
  induction h with
  | refl => exact fun _ h => h
  | cons g st _ _ ih => intro x hx; rw [cycs_cons]; exact List.mem_append_right _ (ih x hx)

/-- Once `new_cyclic` has written the value, the box holds an intact value. -/
theorem newCyclicEnd_done (c : Cfg) (w : World) (k : Nat) (id : Id) (sp : NewSpec) (selfw : Option Nat) :
    ((stepFrame c w (.newCyclicEnd k id sp selfw)).heap id).lv = (true, false) →
      id ∈ cycs (stepFrame c w (.newCyclicEnd k id sp selfw)).stack := by
  intro hx
  cases selfw with
  | none =>
    simp only [stepFrame] at hx ⊢
    split at hx
    · rename_i h; simp at h
    · rw [putH_lv, weakDrop_lv] at hx
      split at hx <;> simp [World.upd, Obj.lv, World.updMeta] at hx
  | some j =>
    by_cases hc : (decide (j < sp.nw) && decide ((w.metas id).weak ≥ c.weakMax)) = true
    · simp only [stepFrame, hc, if_true]
      simp [cycs_cons, Frame.cyc, World.push]
    · simp only [stepFrame, hc, Bool.false_eq_true, if_false] at hx
      rw [putH_lv, weakDrop_lv] at hx
      split at hx <;> simp [World.upd, Obj.lv, World.updMeta] at hx

/-- A box that exists without an intact value is under construction or was destroyed. -/
def UI (w : World) (D : List Id) : Prop := ∀ x, (w.heap x).lv = (true, false) → x ∈ cycs w.stack ∨ x ∈ D

theorem step_ui (c : Cfg) (w : World) (D : List Id) (h : UI w D) : UI (step c w) (D ++ destroyedNow w) := by
  have hsame : step c w = w → UI (step c w) (D ++ destroyedNow w) := by
    intro e x hx
    rw [e] at hx ⊢
    rcases h x hx with h1 | h1
    · exact Or.inl h1
    · exact Or.inr (List.mem_append_left _ h1)
  cases hm : w.mode with
  | aborted => exact hsame (by unfold step; rw [hm])
  | stuck => exact hsame (by unfold step; rw [hm])
  | unwinding =>
    cases hs : w.stack with
    | nil =>
      have e : step c w = { w with mode := .running, ret := .panic } := by unfold step; rw [hm]; simp only []; rw [hs]
      intro x hx
      rw [e] at hx ⊢
      rcases h x hx with h1 | h1
      · exact Or.inl h1
      · exact Or.inr (List.mem_append_left _ h1)
    | cons f rest =>
      have e : step c w = unwindFrame c { w with stack := rest } f := by unfold step; rw [hm]; simp only []; rw [hs]
      intro x hx
      rw [e] at hx ⊢
      have hb := unwindFrame_dead c { w with stack := rest } f x hx
      rcases h x hb with h1 | h1
      · rw [hs, cycs_cons] at h1
        rcases List.mem_append.1 h1 with h2 | h2
        · -- the frame of `x` itself is unwound: its box is released
          exfalso
          cases f <;> simp [Frame.cyc] at h2
          subst h2
          simp only [unwindFrame] at hx
          rw [weakDrop_lv, freeBox_lv] at hx
          simp at hx
        · exact Or.inl ((unwindFrame_pp c { w with stack := rest } f).cycs_sup x h2)
      · exact Or.inr (List.mem_append_left _ h1)
  | running =>
    cases hs : w.stack with
    | nil => exact hsame (by unfold step; rw [hm]; simp only []; rw [hs])
    | cons f rest =>
      have e : step c w = stepFrame c { w with stack := rest } f := by unfold step; rw [hm]; simp only []; rw [hs]
      intro x hx
      rw [e] at hx ⊢
      rcases stepFrame_dead c { w with stack := rest } f x hx with hb | hb | hb
      · rcases h x hb with h1 | h1
        · rw [hs, cycs_cons] at h1
          rcases List.mem_append.1 h1 with h2 | h2
          · cases f <;> simp [Frame.cyc] at h2
            subst h2
            exact Or.inl (newCyclicEnd_done c _ _ _ _ _ hx)
          · exact Or.inl ((stepFrame_pp c { w with stack := rest } f).cycs_sup x h2)
        · exact Or.inr (List.mem_append_left _ h1)
      · right
        subst hb
        simp [destroyedNow, hm, hs]
      · exact Or.inl hb

theorem histU_ui (c : Cfg) (nH nW nK : Nat) (w : World) (D : List Id) (h : HistU c nH nW nK w D) : UI w D := by
  induction h with
  | init => intro x hx; simp [World.init, Obj.lv] at hx
  | step w D _ ih => exact step_ui c w D ih
  | top w op D _ hs hm ih =>
    intro x hx
    rcases ih x hx with h1 | h1
    · rw [hs] at h1; simp [cycs] at h1
    · exact Or.inr h1

end RustCc
