import RustCcModel.Proofs.AuxS
import RustCcModel.Proofs.LifeHist
/-! Cleaning actions: definitions and helper lemmas for "each registered action runs at most once". -/
namespace RustCc
open World
open T1 (Mark)

/-- The action stored in slot `i` of the slot map of object `m`. -/
def slotAt (w : World) (m : Id) (i : Nat) : Option Action := (w.heap m).sm.1.getD i none

/-- Stored actions have distinct, already handed-out identifiers. -/
structure AOk (w : World) : Prop where
  lt : ∀ m i a, slotAt w m i = some a → a.aid < w.nextAid
  uniq : ∀ m i a m' j b, slotAt w m i = some a → slotAt w m' j = some b → a.aid = b.aid → m = m' ∧ i = j

/-- The identifiers of the cleaning actions run by a log. -/
def aEv : List Event → List Nat
  | [] => []
  | e :: r => match e with
    | .action aid _ => aid :: aEv r
    | _ => aEv r

@[simp] theorem aEv_nil : aEv [] = [] := rfl
@[simp] theorem aEv_cons_action (x t) (r : List Event) : aEv (.action x t :: r) = x :: aEv r := rfl
@[simp] theorem aEv_cons_drop (x t) (r : List Event) : aEv (.drop x t :: r) = aEv r := rfl
@[simp] theorem aEv_cons_finalize (x t) (r : List Event) : aEv (.finalize x t :: r) = aEv r := rfl
@[simp] theorem aEv_cons_free (x) (r : List Event) : aEv (.free x :: r) = aEv r := rfl
@[simp] theorem aEv_cons_alloc (x s) (r : List Event) : aEv (.alloc x s :: r) = aEv r := rfl
@[simp] theorem aEv_cons_metaFree (x) (r : List Event) : aEv (.metaFree x :: r) = aEv r := rfl
@[simp] theorem aEv_cons_moved (x) (r : List Event) : aEv (.moved x :: r) = aEv r := rfl
@[simp] theorem aEv_cons_trace (x t) (r : List Event) : aEv (.trace x t :: r) = aEv r := rfl
@[simp] theorem aEv_cons_collect (r : List Event) : aEv (.collect :: r) = aEv r := rfl
@[simp] theorem aEv_cons_panic (r : List Event) : aEv (.panic :: r) = aEv r := rfl
@[simp] theorem aEv_append (a b : List Event) : aEv (a ++ b) = aEv a ++ aEv b := by
  induction a with
  | nil => rfl
  | cons e r ih => cases e <;> simp [ih]
@[simp] theorem aEv_map_trace (l : List Id) (t : Bool) : aEv (l.map fun x => Event.trace x t) = [] := by
  induction l with
  | nil => rfl
  | cons a r ih => simp [ih]
@[simp] theorem aEv_dmEv (w : World) (x : Id) : aEv (dmEv w x) = [] := by
  unfold dmEv; split <;> (try rfl) <;> split <;> rfl
@[simp] theorem aEv_wdEv (w : World) (r : WRef) : aEv (wdEv w r) = [] := by
  unfold wdEv; cases r with
  | dangling => rfl
  | to x => simp only; split <;> rfl

theorem mem_aEv {aid : Nat} {l : List Event} : aid ∈ aEv l ↔ ∃ t, Event.action aid t ∈ l := by
  induction l with
  | nil => simp
  | cons e r ih => cases e <;> simp [ih] <;> grind

theorem foldl_free_aEv (c : Cfg) (N : List Id) : ∀ w : World,
    aEv (N.foldl (fun w x => (if c.weak then w.dropMetadata x else w).freeBox x) w).events = aEv w.events := by
  induction N with
  | nil => intro w; rfl
  | cons y r ih =>
    intro w
    simp only [List.foldl_cons]
    rw [ih]
    split <;> simp [freeBox_events]

/-! ### `nextAid` through the helpers -/

@[simp] theorem removeFromList_nextAid (w : World) (x : Id) : (w.removeFromList x).nextAid = w.nextAid := by
  unfold removeFromList; split <;> rfl
@[simp] theorem addToList_nextAid (w : World) (x : Id) : (w.addToList x).nextAid = w.nextAid := by
  unfold addToList; split <;> (try rfl) <;> split <;> rfl
@[simp] theorem dropMetadata_nextAid (w : World) (x : Id) : (w.dropMetadata x).nextAid = w.nextAid := by
  unfold dropMetadata; split <;> (try rfl) <;> split <;> rfl
@[simp] theorem freeBox_nextAid (w : World) (x : Id) : (w.freeBox x).nextAid = w.nextAid := rfl
@[simp] theorem weakDrop_nextAid (w : World) (r : WRef) : (w.weakDrop r).nextAid = w.nextAid := by
  unfold weakDrop; cases r with
  | dangling => rfl
  | to y => simp only; split <;> rfl
@[simp] theorem initMeta_nextAid (w : World) (x : Id) : (w.initMeta x).nextAid = w.nextAid := by
  unfold initMeta; split <;> rfl
@[simp] theorem cloneOk_nextAid (w : World) (x : Id) : (w.cloneOk x).nextAid = w.nextAid := by
  unfold cloneOk; rw [removeFromList_nextAid]; rfl
@[simp] theorem raise_nextAid (w : World) : w.raise.nextAid = w.nextAid := by
  unfold raise; split <;> rfl
@[simp] theorem raiseLogged_nextAid (w : World) : w.raiseLogged.nextAid = w.nextAid := by
  unfold raiseLogged; rw [raise_nextAid]; rfl
@[simp] theorem updAll_nextAid (w : World) (l : List Id) (f : Obj → Obj) : (w.updAll l f).nextAid = w.nextAid := by
  unfold updAll
  induction l generalizing w with
  | nil => rfl
  | cons x r ih => simp only [List.foldl_cons]; rw [ih]; rfl
@[simp] theorem fromT1_nextAid (w : World) (h : T1.Heap) : (fromT1 w h).nextAid = w.nextAid := rfl
theorem putH_nextAid (w : World) (k : Nat) (y : Id) : (w.putH k y).nextAid = w.nextAid := by
  unfold putH; split <;> rfl
theorem foldl_free_nextAid (c : Cfg) (N : List Id) : ∀ w : World,
    (N.foldl (fun w x => (if c.weak then w.dropMetadata x else w).freeBox x) w).nextAid = w.nextAid := by
  induction N with
  | nil => intro w; rfl
  | cons y r ih => intro w; simp only [List.foldl_cons]; rw [ih]; split <;> simp

/-- The identifier of the action a step ran. -/
def runAids : Option (Id × Nat × Action) → List Nat
  | some (_, _, a) => [a.aid]
  | none => []

@[simp] theorem runAids_none : runAids none = [] := rfl

/-- What a step does to the stored actions: `pos` = the slot a new action was stored in, `run` = the slot whose action was
taken out and run. -/
structure ActEff (w w' : World) (pos : Option (Id × Nat)) (run : Option (Id × Nat × Action)) : Prop where
  next : w.nextAid ≤ w'.nextAid
  slots : ∀ m i a, slotAt w' m i = some a →
    slotAt w m i = some a ∨ (pos = some (m, i) ∧ a.aid = w.nextAid ∧ w.nextAid < w'.nextAid)
  ev : aEv w'.events = aEv w.events ++ runAids run
  ran : ∀ m i a, run = some (m, i, a) → slotAt w m i = some a ∧ slotAt w' m i = none

theorem ActEff.same {w w' : World} (hn : w'.nextAid = w.nextAid) (hs : ∀ m, (w'.heap m).sm = (w.heap m).sm)
    (he : aEv w'.events = aEv w.events) : ActEff w w' none none :=
  ⟨Nat.le_of_eq hn.symm, fun m i a h => Or.inl (by unfold slotAt at h ⊢; rw [hs m] at h; exact h), by simpa [runAids] using he,
    fun _ _ _ h => nomatch h⟩

theorem AOk.step {w w' : World} {pos : Option (Id × Nat)} {run : Option (Id × Nat × Action)} (h : AOk w) (he : ActEff w w' pos run) :
    AOk w' := by
  refine ⟨?_, ?_⟩
  · intro m i a ha
    rcases he.slots m i a ha with h1 | ⟨_, h2, h3⟩
    · exact Nat.lt_of_lt_of_le (h.lt m i a h1) he.next
    · omega
  · intro m i a m' j b ha hb hab
    rcases he.slots m i a ha with h1 | ⟨p1, h2, h3⟩ <;> rcases he.slots m' j b hb with g1 | ⟨q1, g2, g3⟩
    · exact h.uniq m i a m' j b h1 g1 hab
    · have := h.lt m i a h1; omega
    · have := h.lt m' j b g1; omega
    · rw [p1] at q1; cases q1; exact ⟨rfl, rfl⟩

end RustCc
