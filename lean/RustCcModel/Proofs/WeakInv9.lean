import RustCcModel.Proofs.WeakInv8
/-! `WeakH` through the frames that move no `Weak` and touch neither side records nor boxes. -/
namespace RustCc
open World

variable {ex : Bool}

set_option maxHeartbeats 8000000 in
theorem stepFrame_weakH_neutral (c : Cfg) (w : World) (f : Frame) (h : WeakH ex w [])
    (hf : match f with
      | .script .. | .afterDropValue .. | .dropFields .. | .deallocDrop .. | .newAlloc .. | .newCyclicAlloc .. | .newCyclicEnd ..
      | .mapAlloc .. | .regInsert .. => False
      | _ => True) :
    WeakH ex (stepFrame c w f) [] := by
  cases f with
  | script _ _ _ _ | afterDropValue _ _ | dropFields _ _ | deallocDrop _ _ _ | newAlloc _ _ | newCyclicAlloc _ _ _ _
  | newCyclicEnd _ _ _ _ | mapAlloc _ | regInsert _ _ _ _ => cases hf
  | _ =>
    simp only [stepFrame, destroyLast, startDealloc]
    repeat' split
    all_goals (wneutral h)

set_option maxHeartbeats 8000000 in
theorem unwindFrame_weakH_neutral (c : Cfg) (w : World) (f : Frame) (h : WeakH ex w [])
    (hf : match f with
      | .newCyclicEnd .. => False
      | _ => True) :
    WeakH ex (unwindFrame c w f) [] := by
  cases f with
  | newCyclicEnd _ _ _ _ => cases hf
  | _ =>
    simp only [unwindFrame]
    repeat' split
    all_goals first
      | (exfalso; rename_i heq; cases heq; done)
      | (wneutral h)

end RustCc
