import RustCcModel.T1.FinalComplete
import RustCcModel.Proofs.TracingF
import RustCcModel.Model.Machine
/-! # C01 — no premature reclamation

Graph level (proved for every heap, buffer and number of objects): the list a collection pass is
about to reclaim is closed under predecessors, has no reference from the program and no untraced
owner. Machine level: a fault-free `collectPass` of the machine computes exactly that list. -/
namespace RustCc.C01
open T1

/-- The objects a (panic-free) collection pass of world `w` will finalize / reclaim. -/
def candidates (w : World) : List Nat := (tracePhases w.next (toT1 w) w.pc).nonroot

/-- What `collectPass` computes when no `trace` call is set to panic is `candidates w`. -/
theorem collectPass_computes_candidates (w : World) (user : Nat → Bool) :
    ∃ s : FS, tracePhasesF user w.next (toT1 w) w.pc none = (.done s, none) ∧ s.ts.nonroot = candidates w := by
  obtain ⟨s, h1, h2⟩ := tracePhasesF_noFault user w.next (toT1 w) w.pc
  exact ⟨s, h1, by rw [h2]; rfl⟩

/-- **T1 on the machine's heap.** If reference counts are exact (`rc x` = references from the program
and from temporaries `ext x` + references from traced and untraced fields of live values), the buffer
is the set of `PossibleCycles`-marked objects, duplicate-free, with reset tracing counters, then every
reclaim candidate has no external reference, no untraced owner, and all its owners are candidates too:
nothing reachable from the program — through any chain of traced or untraced fields — is a candidate. -/
theorem candidates_unreachable (w : World) (objs : List Nat) (ext : Nat → Nat)
    (hex : Exact (toT1 w) objs ext)
    (hmark : ∀ x, (((toT1 w) x).mark = .pc ↔ x ∈ w.pc) ∧ (((toT1 w) x).mark = .pc ∨ ((toT1 w) x).mark = .non))
    (htc : ∀ x ∈ w.pc, ((toT1 w) x).tc = 0) (hPn : w.pc.Nodup) (hPs : ∀ u ∈ w.pc, u ∈ objs)
    (hfuel : objs.length ≤ w.next) :
    ∀ x ∈ candidates w,
      ext x = 0 ∧ (∀ u ∈ objs, x ∉ ((toT1 w) u).uedges) ∧
      (∀ u ∈ objs, x ∈ ((toT1 w) u).edges → u ∈ candidates w) :=
  tracePhases_safe_fuel (toT1 w) objs ext w.pc w.next hex hmark htc hPn hPs hfuel

/-- Reachability from externally referenced objects through traced and untraced fields. -/
inductive Reach (h : T1.Heap) (ext : Nat → Nat) : Nat → Prop
  | root (x) : 0 < ext x → Reach h ext x
  | traced (u x) : Reach h ext u → x ∈ (h u).edges → Reach h ext x
  | untraced (u x) : Reach h ext u → x ∈ (h u).uedges → Reach h ext x

/-- **C01, per pass, for every graph.** An object reachable from a pointer held by the program, directly
or through any chain of `Cc` fields — traced by their owner or not — is not a reclaim candidate. -/
theorem reachable_not_candidate (w : World) (objs : List Nat) (ext : Nat → Nat)
    (hex : Exact (toT1 w) objs ext)
    (hclosedU : ∀ u ∈ objs, ∀ y ∈ ((toT1 w) u).uedges, y ∈ objs)
    (hroots : ∀ x, 0 < ext x → x ∈ objs)
    (hmark : ∀ x, (((toT1 w) x).mark = .pc ↔ x ∈ w.pc) ∧ (((toT1 w) x).mark = .pc ∨ ((toT1 w) x).mark = .non))
    (htc : ∀ x ∈ w.pc, ((toT1 w) x).tc = 0) (hPn : w.pc.Nodup) (hPs : ∀ u ∈ w.pc, u ∈ objs)
    (hfuel : objs.length ≤ w.next) (x : Nat) (hr : Reach (toT1 w) ext x) : x ∉ candidates w := by
  have key := candidates_unreachable w objs ext hex hmark htc hPn hPs hfuel
  -- reachable objects are live objects
  have hobj : ∀ y, Reach (toT1 w) ext y → y ∈ objs := by
    intro y hy
    induction hy with
    | root y hy => exact hroots y hy
    | traced u y _ hyu ih => exact hex.closed u ih y hyu
    | untraced u y _ hyu ih => exact hclosedU u ih y hyu
  induction hr with
  | root y hy => intro hc; have := (key y hc).1; omega
  | traced u y hu hyu ih => intro hc; exact ih ((key y hc).2.2 u (hobj u hu) hyu)
  | untraced u y hu hyu _ => intro hc; exact (key y hc).2.1 u (hobj u hu) hyu

/-- Non-vacuity: the hypotheses hold on a concrete heap (a garbage 2-cycle next to a live chain), and
the candidates are exactly the garbage cycle. -/
def exG : T1.Heap := fun i =>
  match i with
  | 0 => ({ rc := 1, mark := .pc, edges := [1] } : T1.Obj)
  | 1 => { rc := 1, edges := [0] }
  | 3 => { rc := 1, mark := .pc, edges := [4] }
  | 4 => { rc := 1 }
  | _ => {}

example : (tracePhases 5 exG [0, 3]).nonroot = [1, 0] := by decide

example : Exact exG [0, 1, 3, 4] (fun x => if x = 3 then 1 else 0) := by
  refine ⟨by decide, ?_, ?_⟩
  · intro u hu y hy
    simp at hu
    rcases hu with rfl | rfl | rfl | rfl <;> simp [exG] at hy <;> simp [hy]
  · intro x
    match x with
    | 0 | 1 | 2 | 3 | 4 => simp [exG, List.count_cons]
    | n + 5 => simp [exG, List.count_cons]

end RustCc.C01
