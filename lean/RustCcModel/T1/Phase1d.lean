import RustCcModel.T1.Phase1c
namespace T1

/-! ### What the counting phase may assume about the heap it starts from -/

/-- `L` = the objects whose fields are counted in reference counts (allocated, value not dropped).
`closed`: their traced fields point to such objects. `bound`: reference counts dominate the number
of traced references from any duplicate-free set of such objects (a consequence of exact counts). -/
structure Ctx (h0 : Heap) (L : Nat → Prop) : Prop where
  closed : ∀ u, L u → ∀ y ∈ (h0 u).edges, L y
  bound : ∀ ds : List Nat, ds.Nodup → (∀ u ∈ ds, L u) → ∀ y, inCount h0 ds y ≤ (h0 y).rc

structure P1x (h0 : Heap) (L : Nat → Prop) (s : TS) (done P : List Nat) : Prop where
  inv : P1 s done none [] P
  frame : ∀ z, (s.h z).rc = (h0 z).rc ∧ (s.h z).edges = (h0 z).edges
  doneNodup : done.Nodup
  doneL : ∀ u ∈ done, L u
  queueL : ∀ u ∈ s.queue, L u

theorem countEdge_queue_sub (s : TS) (y : Nat) :
    ∀ u ∈ (countEdge s y).queue, u ∈ s.queue ∨ u = y := by
  intro u hu
  cases hm : (s.h y).mark with
  | non => rw [countEdge_non s y hm] at hu; simpa using hu
  | pc => rw [countEdge_pc s y hm] at hu; exact Or.inl hu
  | inQueue => rw [countEdge_inQueue s y hm] at hu; exact Or.inl hu
  | inList =>
    by_cases hr : (s.h y).rc = (s.h y).tc + 1
    · rw [countEdge_inList_move s y hm hr] at hu; exact Or.inl hu
    · rw [countEdge_inList_stay s y hm hr] at hu; exact Or.inl hu

theorem foldl_countEdge_queue_sub (s : TS) (ys : List Nat) :
    ∀ u ∈ (ys.foldl countEdge s).queue, u ∈ s.queue ∨ u ∈ ys := by
  induction ys generalizing s with
  | nil => intro u hu; exact Or.inl hu
  | cons y ys ih =>
    intro u hu
    simp only [List.foldl_cons] at hu
    rcases ih (countEdge s y) u hu with h | h
    · rcases countEdge_queue_sub s y u h with h | h
      · exact Or.inl h
      · exact Or.inr (by simp [h])
    · exact Or.inr (by simp [h])

theorem countObj_queue_sub (s : TS) (x : Nat) :
    ∀ u ∈ (countObj s x).queue, u ∈ s.queue ∨ u ∈ (s.h x).edges := by
  intro u hu
  unfold countObj at hu
  rw [endObj_queue] at hu
  rcases foldl_countEdge_queue_sub (beginObj s x) (s.h x).edges u hu with h | h
  · exact Or.inl (by simpa [beginObj] using h)
  · exact Or.inr h

theorem countObj_rc (s : TS) (x z : Nat) : ((countObj s x).h z).rc = (s.h z).rc := by
  unfold countObj; rw [endObj_rc, foldl_countEdge_rc, beginObj_rc]

theorem countObj_edges (s : TS) (x z : Nat) : ((countObj s x).h z).edges = (s.h z).edges := by
  unfold countObj; rw [endObj_edges, foldl_countEdge_edges, beginObj_edges]

theorem inCount_frame (h h0 : Heap) (ds : List Nat) (y : Nat)
    (hf : ∀ z, (h z).rc = (h0 z).rc ∧ (h z).edges = (h0 z).edges) :
    inCount h ds y = inCount h0 ds y :=
  inCount_congr h0 h ds y (fun u => (hf u).2)

/-- Bound needed by `countObj_P1`, from the context. -/
theorem bound_for (h0 : Heap) (L : Nat → Prop) (ctx : Ctx h0 L) (s : TS) (done : List Nat) (x : Nat)
    (hf : ∀ z, (s.h z).rc = (h0 z).rc ∧ (s.h z).edges = (h0 z).edges)
    (hdn : done.Nodup) (hdL : ∀ u ∈ done, L u) (hxd : x ∉ done) (hxL : L x) :
    ∀ y, inCount s.h done y + (s.h x).edges.count y ≤ (s.h y).rc := by
  intro y
  have hb := ctx.bound (x :: done) (List.nodup_cons.2 ⟨hxd, hdn⟩)
    (by intro u hu; rcases List.mem_cons.1 hu with h | h; exact h ▸ hxL; exact hdL u h) y
  rw [inCount_cons] at hb
  rw [inCount_frame s.h h0 done y hf, (hf x).2, (hf y).1]
  omega

theorem step_pc (h0 : Heap) (L : Nat → Prop) (ctx : Ctx h0 L) (s : TS) (done : List Nat) (x : Nat)
    (P : List Nat) (hx : P1x h0 L s done (x :: P)) (hxP : x ∉ P) (hxL : L x) :
    P1x h0 L (countObj s x) (x :: done) P := by
  have hmx : (s.h x).mark = .pc := (hx.inv.mPc x).2 (by simp)
  have hnd : x ∉ done := fun h => by have := (hx.inv.mList x).2 h; simp [hmx] at this
  refine ⟨?_, ?_, List.nodup_cons.2 ⟨hnd, hx.doneNodup⟩, ?_, ?_⟩
  · exact countObj_P1 s done x P (beginObj_P1_pc s done x P hx.inv hxP)
      (bound_for h0 L ctx s done x hx.frame hx.doneNodup hx.doneL hnd hxL)
  · intro z; rw [countObj_rc, countObj_edges]; exact hx.frame z
  · intro u hu; rcases List.mem_cons.1 hu with h | h
    · exact h ▸ hxL
    · exact hx.doneL u h
  · intro u hu
    rcases countObj_queue_sub s x u hu with h | h
    · exact hx.queueL u h
    · exact ctx.closed x hxL u (by rw [← (hx.frame x).2]; exact h)

theorem step_queue (h0 : Heap) (L : Nat → Prop) (ctx : Ctx h0 L) (s : TS) (done : List Nat) (x : Nat)
    (q P : List Nat) (hq : s.queue = x :: q) (hx : P1x h0 L s done P) :
    P1x h0 L (countObj { s with queue := q } x) (x :: done) P := by
  have hmx : (s.h x).mark = .inQueue := (hx.inv.mQueue x).2 (Or.inl (by simp [hq]))
  have hnd : x ∉ done := fun h => by have := (hx.inv.mList x).2 h; simp [hmx] at this
  have hxL : L x := hx.queueL x (by simp [hq])
  refine ⟨?_, ?_, List.nodup_cons.2 ⟨hnd, hx.doneNodup⟩, ?_, ?_⟩
  · exact countObj_P1 { s with queue := q } done x P (beginObj_P1_queue s done x q P hq hx.inv)
      (bound_for h0 L ctx { s with queue := q } done x hx.frame hx.doneNodup hx.doneL hnd hxL)
  · intro z; rw [countObj_rc, countObj_edges]; exact hx.frame z
  · intro u hu; rcases List.mem_cons.1 hu with h | h
    · exact h ▸ hxL
    · exact hx.doneL u h
  · intro u hu
    rcases countObj_queue_sub { s with queue := q } x u hu with h | h
    · exact hx.queueL u (by rw [hq]; exact List.mem_cons_of_mem _ h)
    · exact ctx.closed x hxL u (by rw [← (hx.frame x).2]; exact h)

theorem countPC_P1x (h0 : Heap) (L : Nat → Prop) (ctx : Ctx h0 L) (P : List Nat) :
    ∀ (s : TS) (done : List Nat), P1x h0 L s done P → P.Nodup → (∀ u ∈ P, L u) →
      ∃ done', P1x h0 L (countPC s P) done' [] := by
  induction P with
  | nil => intro s done h _ _; exact ⟨done, h⟩
  | cons x P ih =>
    intro s done h hn hL
    have hxP := (List.nodup_cons.1 hn).1
    exact ih (countObj s x) (x :: done)
      (step_pc h0 L ctx s done x P h hxP (hL x (by simp)))
      (List.nodup_cons.1 hn).2 (fun u hu => hL u (List.mem_cons_of_mem _ hu))

theorem countQueue_P1x (h0 : Heap) (L : Nat → Prop) (ctx : Ctx h0 L) (fuel : Nat) :
    ∀ (s : TS) (done : List Nat), P1x h0 L s done [] →
      ∃ done', P1x h0 L (countQueue fuel s) done' [] := by
  induction fuel with
  | zero => intro s done h; exact ⟨done, h⟩
  | succ n ih =>
    intro s done h
    unfold countQueue
    cases hq : s.queue with
    | nil => simp only []; exact ⟨done, h⟩
    | cons x q => simp only []; exact ih _ _ (step_queue h0 L ctx s done x q [] hq h)

/-- The initial state of a collection satisfies the invariant. -/
theorem init_P1x (h0 : Heap) (L : Nat → Prop) (P : List Nat)
    (hmark : ∀ x, ((h0 x).mark = .pc ↔ x ∈ P) ∧ ((h0 x).mark = .pc ∨ (h0 x).mark = .non))
    (htc : ∀ x ∈ P, (h0 x).tc = 0) :
    P1x h0 L { h := h0 } [] P := by
  refine ⟨⟨?_, ?_, ?_, ?_, ?_, ?_, ?_, ?_, ?_, ?_, ?_⟩, fun z => ⟨rfl, rfl⟩, List.nodup_nil, by simp, by simp⟩
  · intro x hx
    have hp : (h0 x).mark = .pc := by rcases (hmark x).2 with h | h; exact h; exact absurd h hx
    simp [inCount, htc x ((hmark x).1.1 hp)]
  · intro x _; simp [inCount]
  · intro x; rcases (hmark x).2 with h | h <;> simp [h]
  · intro x; rcases (hmark x).2 with h | h <;> simp [h]
  · intro x; exact (hmark x).1
  · intro x; simp
  · intro x; simp
  · simp
  · simp
  · simp
  · intro c hc; simp at hc

end T1
