/-! Model of `#[derive(Trace)]` / `#[derive(Finalize)]` (derive/src/lib.rs): a type definition is a
list of variants (a struct is one variant), each a list of fields; `#[rust_cc(ignore)]` on a field or a
variant; `#[rust_cc(unsafe_no_drop)]` on the type. -/
namespace Derive

structure Field where
  ignored : Bool
  deriving Repr, Inhabited

structure Variant where
  ignored : Bool
  fields : List Field
  deriving Repr, Inhabited

structure TypeDef where
  isEnum : Bool
  variants : List Variant
  unsafeNoDrop : Bool
  deriving Repr, Inhabited

/-- Positions of the fields the generated `trace` forwards to, for a value of variant `v`:
the macro filters ignored fields, then (for enums) ignored variants, and emits one call per remaining binding. -/
def visitedOf (v : Variant) : List Nat :=
  if v.ignored then []
  else (List.range v.fields.length).filter fun i => !(v.fields.getD i ⟨true⟩).ignored

def visited (d : TypeDef) (variant : Nat) : List Nat :=
  match d.variants[variant]? with
  | some v => visitedOf v
  | none => []

/-- The derive emits an (empty) `Drop` impl unless `unsafe_no_drop` is given. -/
def emitsDrop (d : TypeDef) : Bool := !d.unsafeNoDrop

/-- `derive(Finalize)` yields an empty finalizer: it forwards to nothing. -/
def finalizeVisited (_ : TypeDef) (_ : Nat) : List Nat := []

end Derive
