import RustCcModel.T1.Complete
namespace T1

theorem rootEdge_queue_sub (s : TS) (y : Nat) : ∀ u ∈ (rootEdge s y).queue, u ∈ s.queue ∨ u = y := by
  intro u hu; unfold rootEdge at hu
  split at hu
  · simpa using hu
  · exact Or.inl hu

theorem foldl_rootEdge_queue_sub (ys : List Nat) :
    ∀ (s : TS), ∀ u ∈ (ys.foldl rootEdge s).queue, u ∈ s.queue ∨ u ∈ ys := by
  induction ys with
  | nil => intro s u hu; exact Or.inl hu
  | cons y ys ih =>
    intro s u hu
    simp only [List.foldl_cons] at hu
    rcases ih _ u hu with h | h
    · rcases rootEdge_queue_sub s y u h with h | h
      · exact Or.inl h
      · exact Or.inr (by simp [h])
    · exact Or.inr (by simp [h])

theorem rootObj_queue_sub (s : TS) (x : Nat) :
    ∀ u ∈ (rootObj s x).queue, u ∈ s.queue ∨ u ∈ (s.h x).edges := by
  intro u hu; unfold rootObj at hu
  rcases foldl_rootEdge_queue_sub _ (unmark s x) u hu with h | h
  · exact Or.inl h
  · exact Or.inr h

/-- Focusing on the head of the remaining-roots list (first half of `step_root`). -/
theorem focus_root (h1 : Heap) (done : List Nat) (s : TS) (V R : List Nat) (x : Nat)
    (hinv : P2 h1 done s V none [] (x :: R)) : P2 h1 done s V (some x) [] R := by
  have hxr : (s.h x).rc ≠ (s.h x).tc := hinv.rootsOk x (by simp)
  refine ⟨hinv.frame, hinv.nr, hinv.nrNodup, hinv.vis, hinv.seenOk, ?_,
    fun z hz => hinv.rootsOk z (List.mem_cons_of_mem _ hz), hinv.queueOk, hinv.queueNodup, ?_⟩
  · intro z hz
    rcases hinv.cover z hz with h | h | h | h | h
    · exact Or.inl h
    · rcases List.mem_cons.1 h with h | h
      · exact Or.inr (Or.inr (Or.inr (Or.inl (by rw [h]))))
      · exact Or.inr (Or.inl h)
    · exact Or.inr (Or.inr (Or.inl h))
    · simp at h
    · exact Or.inr (Or.inr (Or.inr (Or.inr h)))
  · intro c hc; simp at hc; subst hc
    exact ⟨fun h => hxr (hinv.queueOk _ h).2, fun h => hxr ((hinv.nr _).1 h).2⟩

/-- Objects reachable (through traced fields) from one of the roots found by the counting phase. -/
def RR (h1 : Heap) (R1 : List Nat) (x : Nat) : Prop := ∃ r ∈ R1, EReach h1 r x

theorem rootObj_queue_RR (h1 : Heap) (R1 : List Nat) (s : TS) (x : Nat)
    (hf : (s.h x).edges = (h1 x).edges) (hx : RR h1 R1 x) (hq : ∀ u ∈ s.queue, RR h1 R1 u) :
    ∀ u ∈ (rootObj s x).queue, RR h1 R1 u := by
  intro u hu
  rcases rootObj_queue_sub s x u hu with h | h
  · exact hq u h
  · obtain ⟨r, hr, hp⟩ := hx
    exact ⟨r, hr, .step hp (by rw [← hf]; exact h)⟩

theorem rootsList_P2' (h1 : Heap) (done R1 : List Nat) (R : List Nat) :
    ∀ (s : TS) (V : List Nat), P2 h1 done s V none [] R →
      (∀ u ∈ V, RR h1 R1 u) → (∀ u ∈ s.queue, RR h1 R1 u) → (∀ u ∈ R, RR h1 R1 u) →
      ∃ V', P2 h1 done (rootsList s R) V' none [] [] ∧ (∀ u ∈ V', RR h1 R1 u) ∧
        (∀ u ∈ (rootsList s R).queue, RR h1 R1 u) ∧
        (rootsList s R).nonroot.length + (rootsList s R).queue.length
          = s.nonroot.length + s.queue.length := by
  induction R with
  | nil => intro s V h hv hq _; exact ⟨V, h, hv, hq, rfl⟩
  | cons x R ih =>
    intro s V h hv hq hr
    have hfoc := focus_root h1 done s V R x h
    have hxr := hr x (by simp)
    obtain ⟨V', a, b, c, d⟩ := ih (rootObj s x) (x :: V) (rootObj_P2_of_focus h1 done s V R x hfoc)
      (by intro u hu; rcases List.mem_cons.1 hu with e | e; exact e ▸ hxr; exact hv u e)
      (rootObj_queue_RR h1 R1 s x (h.frame x).2.2 hxr hq)
      (fun u hu => hr u (List.mem_cons_of_mem _ hu))
    refine ⟨V', a, b, c, ?_⟩
    show (rootsList (rootObj s x) R).nonroot.length + (rootsList (rootObj s x) R).queue.length = _
    rw [d, rootObj_measure h1 done s V R x hfoc]

/-- Focusing on the head of the queue (first half of `step_rqueue`). -/
theorem focus_queue (h1 : Heap) (done : List Nat) (s : TS) (V : List Nat) (x : Nat) (q : List Nat)
    (hq : s.queue = x :: q) (h : P2 h1 done s V none [] []) :
    P2 h1 done { s with queue := q } V (some x) [] [] := by
  have hnodup : (x :: q).Nodup := hq ▸ h.queueNodup
  have hxq := h.queueOk x (by simp [hq])
  refine ⟨h.frame, h.nr, h.nrNodup, h.vis, h.seenOk, ?_, h.rootsOk,
    fun z hz => h.queueOk z (by rw [hq]; exact List.mem_cons_of_mem _ hz),
    (List.nodup_cons.1 hnodup).2, ?_⟩
  · intro z hz
    rcases h.cover z hz with h' | h' | h' | h' | h'
    · exact Or.inl h'
    · simp at h'
    · rw [hq] at h'
      rcases List.mem_cons.1 h' with h' | h'
      · exact Or.inr (Or.inr (Or.inr (Or.inl (by rw [h']))))
      · exact Or.inr (Or.inr (Or.inl h'))
    · simp at h'
    · exact Or.inr (Or.inr (Or.inr (Or.inr h')))
  · intro c hc; simp at hc; subst hc
    refine ⟨(List.nodup_cons.1 hnodup).1, fun hm => ?_⟩
    have := ((h.nr _).1 hm).1
    rw [hxq.1] at this; cases this

theorem rootsQueue_P2' (h1 : Heap) (done R1 : List Nat) (fuel : Nat) :
    ∀ (s : TS) (V : List Nat), P2 h1 done s V none [] [] →
      (∀ u ∈ V, RR h1 R1 u) → (∀ u ∈ s.queue, RR h1 R1 u) →
      ∃ V', P2 h1 done (rootsQueue fuel s) V' none [] [] ∧ (∀ u ∈ V', RR h1 R1 u) := by
  induction fuel with
  | zero => intro s V h hv _; exact ⟨V, h, hv⟩
  | succ n ih =>
    intro s V h hv hq
    unfold rootsQueue
    cases hqq : s.queue with
    | nil => simp only []; exact ⟨V, h, hv⟩
    | cons x q =>
      simp only []
      have hfoc := focus_queue h1 done s V x q hqq h
      have hxr := hq x (by simp [hqq])
      exact ih _ (x :: V) (rootObj_P2_of_focus h1 done _ V [] x hfoc)
        (by intro u hu; rcases List.mem_cons.1 hu with e | e; exact e ▸ hxr; exact hv u e)
        (rootObj_queue_RR h1 R1 { s with queue := q } x (h.frame x).2.2 hxr
          (fun u hu => hq u (by rw [hqq]; exact List.mem_cons_of_mem _ hu)))

end T1
