import RustCcModel.Model.Shapes
/-! # C17 — built-in `Trace`/`Finalize` impls visit each owned `Cc` exactly once

`visit` mirrors the impls (one forward per direct child, in order; a borrowed `RefCell` forwards
nothing; `Weak`, `Cleaner`, `Cleanable`, `PhantomData`, primitives forward nothing). The theorem is by
structural induction, for arbitrary nesting depth, arity and length; that each impl forwards exactly
as `visit` says is checked on the real impls on every run (`check C17`: every constructor, tuple arity
1..12, array length 0..32, each variant, borrowed/unborrowed `RefCell`, two-level nestings). -/
namespace RustCc.C17
open Shapes

mutual
theorem visit_eq_owned : ∀ s : Shape, unborrowed s = true → visit s = owned s
  | .cc _, _ => rfl
  | .weak, _ | .cleaner, _ | .cleanable, _ | .phantom, _ | .prim, _ | .none, _ => rfl
  | .tuple l, h | .arr l, h | .slice l, h | .vec l, h => by
    simp only [visit, owned]; exact visitL_eq_ownedL l (by simpa [unborrowed] using h)
  | .box s, h | .some s, h | .ok s, h | .err s, h | .md s, h | .aus s, h => by
    simp only [visit, owned]; exact visit_eq_owned s (by simpa [unborrowed] using h)
  | .cell b s, h => by
    simp only [unborrowed, Bool.and_eq_true, Bool.not_eq_true'] at h
    simp only [visit, owned, h.1]
    exact visit_eq_owned s h.2
  | .cellShared s, h => by simp [unborrowed] at h
theorem visitL_eq_ownedL : ∀ l : List Shape, unborrowedL l = true → visitL l = ownedL l
  | [], _ => rfl
  | s :: r, h => by
    simp only [unborrowedL, Bool.and_eq_true] at h
    simp only [visitL, ownedL, visit_eq_owned s h.1, visitL_eq_ownedL r h.2]
end

/-- Each owned `Cc` is reported exactly as many times as the value owns it (once, for distinct leaves), and nothing else is. -/
theorem report_count (s : Shape) (h : unborrowed s = true) (i : Nat) : (visit s).count i = (owned s).count i := by
  rw [visit_eq_owned s h]

/-- A `RefCell` that is currently borrowed reports nothing. -/
theorem borrowed_cell_reports_nothing (s : Shape) : visit (.cell true s) = [] := by simp [visit]

/-- `Weak`, `Cleaner`, `Cleanable`, `PhantomData` report nothing. -/
theorem non_owning_report_nothing : visit .weak = [] ∧ visit .cleaner = [] ∧ visit .cleanable = [] ∧ visit .phantom = [] := by
  simp [visit]

mutual
/-- Nothing is ever reported that the value does not own (also with borrowed cells inside). -/
theorem visit_sub_owned : ∀ (s : Shape) (i : Nat), i ∈ visit s → i ∈ owned s
  | .cc _, i, h => h
  | .weak, _, h | .cleaner, _, h | .cleanable, _, h | .phantom, _, h | .prim, _, h | .none, _, h => by simp [visit] at h
  | .tuple l, i, h | .arr l, i, h | .slice l, i, h | .vec l, i, h => by
    simp only [visit] at h; simp only [owned]; exact visitL_sub_ownedL l i h
  | .box s, i, h | .some s, i, h | .ok s, i, h | .err s, i, h | .md s, i, h | .aus s, i, h => by
    simp only [visit] at h; simp only [owned]; exact visit_sub_owned s i h
  | .cell b s, i, h => by
    simp only [visit] at h; simp only [owned]
    cases b with
    | true => simp at h
    | false => exact visit_sub_owned s i (by simpa using h)
  | .cellShared s, i, h => by simp [visit] at h
theorem visitL_sub_ownedL : ∀ (l : List Shape) (i : Nat), i ∈ visitL l → i ∈ ownedL l
  | [], _, h => by simp [visitL] at h
  | s :: r, i, h => by
    simp only [visitL, List.mem_append] at h
    simp only [ownedL, List.mem_append]
    rcases h with h | h
    · exact Or.inl (visit_sub_owned s i h)
    · exact Or.inr (visitL_sub_ownedL r i h)
end

/-- A `RefCell` with a shared borrow alive reports nothing either (`try_borrow_mut` fails). -/
theorem shared_cell_reports_nothing (s : Shape) : visit (.cellShared s) = [] := by simp [visit]

mutual
/-- **`Finalize` forwards to each contained value exactly once**: the finalize traversal reaches exactly the owned `Cc`s, as long
as no `RefCell` inside is mutably borrowed — a shared borrow does not stop it. -/
theorem finVisit_eq_owned : ∀ s : Shape, notMutBorrowed s = true → finVisit s = owned s
  | .cc _, _ => rfl
  | .weak, _ | .cleaner, _ | .cleanable, _ | .phantom, _ | .prim, _ | .none, _ => rfl
  | .tuple l, h | .arr l, h | .slice l, h | .vec l, h => by
    simp only [finVisit, owned]; exact finVisitL_eq_ownedL l (by simpa [notMutBorrowed] using h)
  | .box s, h | .some s, h | .ok s, h | .err s, h | .md s, h | .aus s, h => by
    simp only [finVisit, owned]; exact finVisit_eq_owned s (by simpa [notMutBorrowed] using h)
  | .cell b s, h => by
    simp only [notMutBorrowed, Bool.and_eq_true, Bool.not_eq_true'] at h
    simp only [finVisit, owned, h.1]
    exact finVisit_eq_owned s h.2
  | .cellShared s, h => by
    simp only [finVisit, owned]; exact finVisit_eq_owned s (by simpa [notMutBorrowed] using h)
theorem finVisitL_eq_ownedL : ∀ l : List Shape, notMutBorrowedL l = true → finVisitL l = ownedL l
  | [], _ => rfl
  | s :: r, h => by
    simp only [notMutBorrowedL, Bool.and_eq_true] at h
    simp only [finVisitL, ownedL, finVisit_eq_owned s h.1, finVisitL_eq_ownedL r h.2]
end

/-- A mutably borrowed `RefCell` is skipped by `finalize`. -/
theorem mut_borrowed_cell_not_finalized (s : Shape) : finVisit (.cell true s) = [] := by simp [finVisit]

/-- Non-vacuity: a two-level nesting with a borrowed and an unborrowed cell. -/
example : visit (.tuple [.cc 0, .vec [.some (.cc 1), .none], .cell false (.box (.cc 2)), .cell true (.cc 3), .weak]) = [0, 1, 2] := by
  decide

end RustCc.C17
