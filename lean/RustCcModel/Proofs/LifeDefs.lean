import RustCcModel.Proofs.Exact
import RustCcModel.Proofs.BytesInv
/-! Value life cycle in panic-free histories: definitions and helper lemmas.

`NP`: a box that is allocated but whose value is not alive (destroyed, moved out or not yet built) is owned by a frame on
the stack — the `Cc::drop` that is destroying it, the `new_cyclic` that is building it, or the `deallocate_list` loop that
already handed it to its destructor. `Shape`: a `drop_in_place` that is about to start sits directly on its owner and its
value is still alive. Both hold in every world of a history without unwinding (`Proofs/Life.lean`). -/
namespace RustCc
open World
open T1 (Mark)

/-- (box allocated, value alive) -/
def Obj.lv (o : Obj) : Bool × Bool := (o.boxLive, o.valLive)

/-- Members of a `deallocate_list` that were already handed to `drop_in_place`. -/
def Frame.dd : Frame → List Id
  | .deallocDrop N rest _ => N.filter fun y => !rest.contains y
  | _ => []

def Frame.own (f : Frame) : List Id := f.zeroed ++ f.dd

/-- Boxes whose value some frame has destroyed / not yet built. -/
def ownedDead (st : List Frame) : List Id := st.flatMap Frame.own

theorem ownedDead_cons (f : Frame) (st : List Frame) : ownedDead (f :: st) = f.own ++ ownedDead st := by simp [ownedDead]
theorem ownedDead_append (a b : List Frame) : ownedDead (a ++ b) = ownedDead a ++ ownedDead b := by simp [ownedDead]

def NP (w : World) : Prop := ∀ x, (w.heap x).lv = (true, false) → x ∈ ownedDead w.stack

/-- Frames that are about to call user code on a value (`drop_in_place`, `Finalize::finalize`): always on top of the stack. -/
def Frame.isDropValue : Frame → Bool
  | .dropValue _ => true
  | .callFin _ => true
  | _ => false

/-- The object a pending call is about. -/
def Frame.pendingOn : Frame → Option Id
  | .dropValue x => some x
  | .callFin x => some x
  | _ => none

/-- What the frame below a pending `drop_in_place` must be. -/
def topShape : List Frame → Prop
  | .dropValue x :: .afterDropValue y _ :: _ => x = y
  | .dropValue x :: .deallocDrop N r _ :: _ => x ∈ N ∧ x ∉ r
  | .dropValue _ :: _ => False
  | _ => True

structure Shape (w : World) : Prop where
  top : topShape w.stack
  tail : ∀ f ∈ w.stack.tail, f.isDropValue = false
  dd : ∀ N r d, Frame.deallocDrop N r d ∈ w.stack → r.Nodup ∧ ∀ y ∈ r, y ∈ N
  fp : ∀ N r h o, Frame.finalizePass N r h o ∈ w.stack → ∀ y ∈ r, y ∈ N
  alive : ∀ f x, w.stack.head? = some f → f.pendingOn = some x → (w.heap x).lv = (true, true)

structure Life (w : World) : Prop where
  np : NP w
  shape : Shape w

/-- The two loops over the collector's list. -/
def Frame.isDealloc : Frame → Bool
  | .deallocDrop .. => true
  | .finalizePass .. => true
  | _ => false

/-- Frames that are neither a pending `drop_in_place` nor a `deallocate_list` loop. -/
def Frame.plain2 (f : Frame) : Bool := !f.isDropValue && !f.isDealloc

theorem Frame.plain2_own {f : Frame} (h : f.plain2 = true) :
    f.isDropValue = false ∧ (∀ N r d, f ≠ .deallocDrop N r d) ∧ (∀ N r h o, f ≠ .finalizePass N r h o) := by
  cases f <;> simp_all [Frame.plain2, Frame.isDropValue, Frame.isDealloc]

theorem Frame.pendingOn_none {f : Frame} (h : f.isDropValue = false) : f.pendingOn = none := by
  cases f <;> simp_all [Frame.isDropValue, Frame.pendingOn]

/-- `st` is `rest` with such frames pushed. -/
inductive PushedPlain (rest : List Frame) : List Frame → Prop
  | refl : PushedPlain rest rest
  | cons (f : Frame) (st : List Frame) : f.plain2 = true → PushedPlain rest st → PushedPlain rest (f :: st)

theorem PushedPlain.ownedDead_sub {rest st : List Frame} (h : PushedPlain rest st) : ∀ x ∈ ownedDead rest, x ∈ ownedDead st := by
  induction h with
  | refl => exact fun _ h => h
  | cons f st _ _ ih => intro x hx; rw [ownedDead_cons]; exact List.mem_append_right _ (ih x hx)

theorem PushedPlain.noDropValue {rest st : List Frame} (h : PushedPlain rest st) (hr : ∀ f ∈ rest, f.isDropValue = false) :
    ∀ f ∈ st, f.isDropValue = false := by
  induction h with
  | refl => exact hr
  | cons f st hf _ ih =>
    intro g hg
    rcases List.mem_cons.1 hg with e | e
    · subst e; exact (Frame.plain2_own hf).1
    · exact ih g e

theorem PushedPlain.dealloc_mem {rest st : List Frame} (h : PushedPlain rest st) {N r d} (hm : Frame.deallocDrop N r d ∈ st) :
    Frame.deallocDrop N r d ∈ rest := by
  induction h with
  | refl => exact hm
  | cons f st hf _ ih =>
    rcases List.mem_cons.1 hm with e | e
    · exact absurd e.symm ((Frame.plain2_own hf).2.1 N r d)
    · exact ih e

theorem PushedPlain.fp_mem {rest st : List Frame} (h : PushedPlain rest st) {N r hh o} (hm : Frame.finalizePass N r hh o ∈ st) :
    Frame.finalizePass N r hh o ∈ rest := by
  induction h with
  | refl => exact hm
  | cons f st hf _ ih =>
    rcases List.mem_cons.1 hm with e | e
    · exact absurd e.symm ((Frame.plain2_own hf).2.2 N r hh o)
    · exact ih e

/-- What a frame owns dead is in its `zeroed` list or in its collector list. -/
theorem ownedDead_sub (st : List Frame) : ∀ x ∈ ownedDead st, x ∈ zeroed st ∨ x ∈ listed st := by
  induction st with
  | nil => intro x hx; cases hx
  | cons f st ih =>
    intro x hx
    rw [ownedDead_cons] at hx
    rw [zeroed_cons, listed_cons]
    rcases List.mem_append.1 hx with h | h
    · unfold Frame.own at h
      rcases List.mem_append.1 h with h | h
      · exact Or.inl (List.mem_append_left _ h)
      · cases f <;> simp [Frame.dd] at h
        rename_i N r d
        exact Or.inr (List.mem_append_left _ (by simpa [Frame.listed] using h.1))
    · rcases ih x h with h | h
      · exact Or.inl (List.mem_append_right _ h)
      · exact Or.inr (List.mem_append_right _ h)

/-! ### `lv` through the helpers -/

theorem upd_lv_same (w : World) (t : Id) (g : Obj → Obj) (u : Id) (hg : ∀ o, (g o).boxLive = o.boxLive ∧ (g o).valLive = o.valLive) :
    ((w.upd t g).heap u).lv = (w.heap u).lv := by
  by_cases h : u = t
  · subst h; simp [upd, Obj.lv, hg]
  · simp [upd, Heap.set, h]

theorem updAll_lv_same (w : World) (l : List Id) (g : Obj → Obj) (u : Id) (hg : ∀ o, (g o).boxLive = o.boxLive ∧ (g o).valLive = o.valLive) :
    ((w.updAll l g).heap u).lv = (w.heap u).lv := by
  unfold updAll
  induction l generalizing w with
  | nil => rfl
  | cons x r ih => simp only [List.foldl_cons]; rw [ih, upd_lv_same _ _ _ _ hg]

@[simp] theorem setSlot_valLive (o : Obj) (s : Slot) (v : Option Id) : (setSlot o s v).valLive = o.valLive := by cases s <;> rfl

@[simp] theorem removeFromList_lv (w : World) (y x : Id) : ((w.removeFromList y).heap x).lv = (w.heap x).lv := by
  unfold removeFromList; split <;> (try rfl) <;> (by_cases h : x = y <;> simp [upd, Heap.set, h, Obj.lv])
@[simp] theorem addToList_lv (w : World) (y x : Id) : ((w.addToList y).heap x).lv = (w.heap x).lv := by
  unfold addToList; split <;> (try rfl) <;> split <;> (try rfl) <;> (by_cases h : x = y <;> simp [upd, Heap.set, h, Obj.lv])
@[simp] theorem dropMetadata_lv (w : World) (y x : Id) : ((w.dropMetadata y).heap x).lv = (w.heap x).lv := by
  unfold dropMetadata; split <;> (try rfl) <;> split <;> rfl
@[simp] theorem weakDrop_lv (w : World) (r : WRef) (x : Id) : ((w.weakDrop r).heap x).lv = (w.heap x).lv := by
  unfold weakDrop; cases r with
  | dangling => rfl
  | to y => simp only; split <;> rfl
@[simp] theorem initMeta_lv (w : World) (y x : Id) : ((w.initMeta y).heap x).lv = (w.heap x).lv := by
  unfold initMeta; split <;> (try rfl)
  by_cases h : x = y <;> simp [upd, updMeta, Heap.set, h, Obj.lv]
@[simp] theorem cloneOk_lv (w : World) (y x : Id) : ((w.cloneOk y).heap x).lv = (w.heap x).lv := by
  unfold cloneOk; rw [removeFromList_lv]; exact upd_lv_same _ _ _ _ (fun _ => ⟨rfl, rfl⟩)
@[simp] theorem fromT1_lv (w : World) (h : T1.Heap) (x : Id) : ((fromT1 w h).heap x).lv = (w.heap x).lv := rfl
@[simp] theorem raise_lv (w : World) (x : Id) : (w.raise.heap x).lv = (w.heap x).lv := by rw [s_raise_heap]
@[simp] theorem raiseLogged_lv (w : World) (x : Id) : (w.raiseLogged.heap x).lv = (w.heap x).lv := by rw [s_raiseLogged_heap]
theorem putH_lv (w : World) (k : Nat) (y x : Id) : ((w.putH k y).heap x).lv = (w.heap x).lv := by
  unfold putH; split <;> rfl
theorem takeField_lv (o : Obj) : (takeField o).2.lv = o.lv := by
  unfold takeField
  repeat' split
  all_goals rfl

theorem freeBox_lv (w : World) (y x : Id) : ((w.freeBox y).heap x).lv = if x = y then (false, (w.heap x).valLive) else (w.heap x).lv := by
  by_cases h : x = y <;> simp [freeBox, upd, emit, Heap.set, h, Obj.lv]

theorem freeOne_lv (c : Cfg) (w : World) (y x : Id) :
    (((if c.weak then w.dropMetadata y else w).freeBox y).heap x).lv = if x = y then (false, (w.heap x).valLive) else (w.heap x).lv := by
  rw [freeBox_lv]; split <;> split <;> simp

theorem freeOne_valLive (c : Cfg) (w : World) (y x : Id) :
    (((if c.weak then w.dropMetadata y else w).freeBox y).heap x).valLive = (w.heap x).valLive := by
  have h := congrArg Prod.snd (freeOne_lv c w y x)
  by_cases e : x = y
  · subst e; simpa [Obj.lv] using h
  · simpa [Obj.lv, e] using h

theorem foldl_free_lv (c : Cfg) (N : List Id) : ∀ (w : World) (x : Id),
    ((N.foldl (fun w x => (if c.weak then w.dropMetadata x else w).freeBox x) w).heap x).lv =
      if x ∈ N then (false, (w.heap x).valLive) else (w.heap x).lv := by
  induction N with
  | nil => intro w x; simp
  | cons y r ih =>
    intro w x
    simp only [List.foldl_cons]
    rw [ih]
    have h1 := freeOne_lv c w y x
    by_cases hx : x ∈ r
    · simp only [hx, List.mem_cons, or_true, if_true]
      rw [freeOne_valLive]
    · by_cases hxy : x = y
      · subst hxy; simp [hx, h1]
      · simp [hx, hxy, h1]

end RustCc
