/-! `repr(C)` layout of `CcBox<T>`: a header ending at byte `hdrEnd` with alignment `hdrAlign`,
followed by the payload `T` of size `size` and alignment `align`. -/
namespace Layout

def roundUp (n a : Nat) : Nat := (n + a - 1) / a * a

/-- Offset of the payload inside the box. -/
def offset (hdrEnd align : Nat) : Nat := roundUp hdrEnd align
/-- Alignment of the box. -/
def boxAlign (hdrAlign align : Nat) : Nat := max hdrAlign align
/-- Size of the box. -/
def boxSize (hdrEnd hdrAlign size align : Nat) : Nat := roundUp (offset hdrEnd align + size) (boxAlign hdrAlign align)

end Layout
