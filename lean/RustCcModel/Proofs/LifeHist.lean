import RustCcModel.Proofs.LifeReach
/-! History-level consequences of `Life`: in a panic-free history every value is destroyed at most once, only while it
is an intact value in an allocated box, and a finalizer is only ever called on such a value. -/
namespace RustCc
open World
open T1 (Mark)

/-! ### A value never comes back to life (except the one `new_cyclic` is building, and fresh allocations) -/

theorem freeBox_val (w : World) (y x : Id) : ((w.freeBox y).heap x).lv.2 = (w.heap x).lv.2 := by
  rw [freeBox_lv]; split <;> rfl
theorem foldl_free_val (c : Cfg) (N : List Id) (w : World) (x : Id) :
    ((N.foldl (fun w x => (if c.weak then w.dropMetadata x else w).freeBox x) w).heap x).lv.2 = (w.heap x).lv.2 := by
  rw [foldl_free_lv]; split <;> rfl

macro "val_tac" : tactic => `(tactic| (
  intro x hx
  refine Or.inl ?_
  simpa [upd_lv_same, updAll_lv_same, putH_lv, freeBox_val, foldl_free_val, World.setH, World.setW, World.setK, World.startCollect, World.emit,
    World.push, World.updMeta] using hx))

set_option maxHeartbeats 8000000 in
theorem execOp_val (c : Cfg) (w : World) (self wc : Option Id) (op : Op) :
    ∀ x, ((execOp c w self wc op).heap x).lv.2 = true → (w.heap x).lv.2 = true := by
  cases op with
  | fault kind n j => cases kind <;> exact fun _ h => h
  | unwrap k =>
    simp only [execOp]
    split
    · split
      · exact fun _ h => h
      · rename_i x hx hg
        intro y hy
        split at hy <;>
        · simp only [World.push_heap, freeBox_val, dropMetadata_lv] at hy
          by_cases e : y = x
          · subst e; simp [Obj.lv] at hy
          · simpa [World.upd, Heap.set, e, World.setH] using hy
    · exact fun _ h => h
  | _ =>
    simp only [execOp]
    repeat' split
    all_goals (intro x hx; simpa [upd_lv_same, updAll_lv_same, putH_lv, World.setH, World.setW, World.setK, World.startCollect, World.emit,
      World.push, World.updMeta] using hx)

set_option maxHeartbeats 16000000 in
/-- A value that is alive after a step was alive before, or its box was allocated by this step, or it is the value
`new_cyclic` has just finished building. -/
theorem stepFrame_val (c : Cfg) (w : World) (f : Frame) :
    ∀ x, ((stepFrame c w f).heap x).lv.2 = true →
      (w.heap x).lv.2 = true ∨ (x = w.next ∧ ((stepFrame c w f).heap x).lv.1 = true) ∨
        (∃ k sp sw, f = .newCyclicEnd k x sp sw ∧ ((stepFrame c w f).heap x).lv.1 = (w.heap x).lv.1) := by
  cases f with
  | script ops self wc top =>
    cases ops with
    | nil => simp only [stepFrame]; exact fun _ h => Or.inl h
    | cons op ops =>
      simp only [stepFrame]
      have := execOp_val c (w.push (.script ops self wc top)) self wc op
      split <;> exact fun x hx => Or.inl (this x hx)
  | collectPass =>
    simp only [stepFrame, startDealloc]
    generalize tracePhasesF _ _ _ _ _ = r
    obtain ⟨res, fault⟩ := r
    cases res <;> simp only [] <;> repeat' split
    all_goals val_tac
  | deallocDrop N r oD =>
    cases r with
    | cons x r => simp only [stepFrame]; repeat' split
                  all_goals val_tac
    | nil =>
      simp only [stepFrame]
      split
      · val_tac
      · intro x hx; refine Or.inl ?_; simpa [foldl_free_val] using hx
  | dropValue y =>
    simp only [stepFrame]
    repeat' split
    all_goals (
      intro x hx
      refine Or.inl ?_
      by_cases e : x = y
      · subst e; simp [World.upd, World.push, World.emit, Obj.lv] at hx
      · simpa [World.upd, World.push, World.emit, Heap.set, e] using hx)
  | dropFields y unw =>
    simp only [stepFrame]
    have ht := takeField_lv (w.heap y)
    split
    · rename_i z o' hz
      rw [hz] at ht
      intro x hx; refine Or.inl ?_
      by_cases e : x = y
      · subst e; simpa [World.push, ht] using hx
      · simpa [World.push, World.upd, Heap.set, e] using hx
    · rename_i z o' hz
      rw [hz] at ht
      intro x hx; refine Or.inl ?_
      rw [weakDrop_lv] at hx
      by_cases e : x = y
      · subst e; simpa [World.push, ht] using hx
      · simpa [World.push, World.upd, Heap.set, e] using hx
    · split <;> exact fun _ h => Or.inl h
  | regInsert owner script k cap =>
    simp only [stepFrame]
    split
    · exact fun _ h => Or.inl h
    · split
      · val_tac
      · rename_i m hm hb
        have hgen : ∀ (idx : Nat) (om' : Obj), om'.lv = (w.heap m).lv → ∀ x,
            ((if (((({ w with nextAid := w.nextAid + 1 } : World).upd m fun _ => om').initMeta m).metas m).weak ≥ c.weakMax then
                ((({ w with nextAid := w.nextAid + 1 } : World).upd m fun _ => om').initMeta m).raise
              else ((((({ w with nextAid := w.nextAid + 1 } : World).upd m fun _ => om').initMeta m).updMeta m
                fun mm => { mm with weak := mm.weak + 1 }).removeFromList m).setK k (some (m, idx, w.nextAid))).heap x).lv.2 = true →
            (w.heap x).lv.2 = true := by
          intro idx om' hom x hx
          have hlv : ((({ w with nextAid := w.nextAid + 1 } : World).upd m fun _ => om').heap x).lv = (w.heap x).lv := by
            by_cases e : x = m
            · subst e; simpa using hom
            · simp [World.upd, Heap.set, e]
          split at hx
          · rw [raise_lv, initMeta_lv, hlv] at hx; exact hx
          · have : ∀ W : World, ((W.setK k (some (m, idx, w.nextAid))).heap x) = W.heap x := fun _ => rfl
            rw [this, removeFromList_lv] at hx
            simp only [World.updMeta_heap] at hx
            rw [initMeta_lv, hlv] at hx; exact hx
        cases hfr : (w.heap m).afree with
        | nil => simp only []; exact fun x hx => Or.inl (by refine hgen _ _ ?_ x hx; rfl)
        | cons i fr => simp only []; exact fun x hx => Or.inl (by refine hgen _ _ ?_ x hx; rfl)
  | newAlloc k sp =>
    simp only [stepFrame]
    intro x hx
    rw [putH_lv] at hx ⊢
    by_cases e : x = w.next
    · exact Or.inr (Or.inl ⟨e, by subst e; simp [World.emit, Heap.set, Obj.lv, newObj]⟩)
    · exact Or.inl (by simpa [World.emit, Heap.set, e] using hx)
  | newCyclicAlloc k sp body selfw =>
    simp only [stepFrame]
    split <;>
    · intro x hx
      by_cases e : x = w.next
      · exact Or.inr (Or.inl ⟨e, by subst e; simp [World.emit, World.push, World.updMeta, Heap.set, Obj.lv, newObj]⟩)
      · exact Or.inl (by simpa [World.emit, World.push, World.updMeta, Heap.set, e] using hx)
  | mapAlloc owner =>
    simp only [stepFrame]
    split
    · intro x hx
      by_cases e : x = w.next
      · refine Or.inr (Or.inl ⟨e, ?_⟩)
        subst e
        simp only [upd_lv_same _ _ (fun o : Obj => { o with cmap := some w.next }) _ (fun _ => ⟨rfl, rfl⟩)]
        simp [World.emit, Heap.set, Obj.lv]
      · refine Or.inl ?_
        simp only [upd_lv_same _ _ (fun o : Obj => { o with cmap := some w.next }) _ (fun _ => ⟨rfl, rfl⟩)] at hx
        simpa [World.emit, World.push, Heap.set, e] using hx
    · intro x hx
      by_cases e : x = w.next
      · exact Or.inr (Or.inl ⟨e, by subst e; simp [World.emit, World.push, Heap.set, Obj.lv]⟩)
      · refine Or.inl ?_
        simpa [World.emit, World.push, Heap.set, e] using hx
  | newCyclicEnd k id sp selfw =>
    intro x hx
    by_cases e : x = id
    · subst e
      refine Or.inr (Or.inr ⟨k, sp, selfw, rfl, ?_⟩)
      cases selfw with
      | none =>
        simp only [stepFrame]
        split
        · simp [World.push]
        · rw [putH_lv, weakDrop_lv]
          split <;> simp [World.upd, Obj.lv, World.updMeta]
      | some j =>
        simp only [stepFrame]
        split
        · simp [World.push]
        · rw [putH_lv, weakDrop_lv]
          split <;> simp [World.upd, Obj.lv, World.updMeta]
    · refine Or.inl ?_
      cases selfw with
      | none =>
        simp only [stepFrame] at hx
        split at hx
        · simpa [World.push] using hx
        · rw [putH_lv, weakDrop_lv] at hx
          split at hx <;> simpa [World.upd, Heap.set, e, World.updMeta] using hx
      | some j =>
        simp only [stepFrame] at hx
        split at hx
        · simpa [World.push] using hx
        · rw [putH_lv, weakDrop_lv] at hx
          split at hx <;> simpa [World.upd, Heap.set, e, World.updMeta] using hx
  | _ =>
    simp only [stepFrame, destroyLast, startDealloc]
    repeat' split
    all_goals val_tac

/-! ### The boxes under construction: only fresh identities join -/

macro "cyc_tac" : tactic => `(tactic| (
  intro y hy
  first
    | exact hy
    | (simp [cycs_cons, Frame.cyc, World.push, World.putH, World.startCollect] at hy ⊢
       first | exact hy | (rcases hy with h | h <;> simp_all) | simp_all)))

set_option maxHeartbeats 8000000 in
theorem execOp_cycs (c : Cfg) (w : World) (self wc : Option Id) (op : Op) :
    ∀ y ∈ cycs (execOp c w self wc op).stack, y ∈ cycs w.stack := by
  cases op with
  | fault kind n j => cases kind <;> exact fun _ h => h
  | _ =>
    simp only [execOp]
    repeat' split
    all_goals cyc_tac

theorem foldl_free_stack' (c : Cfg) (N : List Id) (w : World) :
    (N.foldl (fun w x => (if c.weak then w.dropMetadata x else w).freeBox x) w).stack = w.stack := foldl_free_stack c N w

theorem putH_cycs (w : World) (k : Nat) (y : Id) : cycs (w.putH k y).stack = cycs w.stack := by
  unfold World.putH; split <;> simp [cycs_cons, Frame.cyc, World.push, World.setH]

macro "cyc_tac2" : tactic => `(tactic| (
  intro y hy
  first
    | exact Or.inl (List.mem_append_right _ hy)
    | (simp [cycs_cons, Frame.cyc, World.push, putH_cycs, World.startCollect, foldl_free_stack'] at hy ⊢
       first | (exact Or.inl hy) | (exact hy) | (rcases hy with h | h <;> simp_all) | simp_all)))

set_option maxHeartbeats 16000000 in
/-- Only a box allocated by this very step joins the boxes under construction. -/
theorem stepFrame_cycs (c : Cfg) (w : World) (f : Frame) :
    ∀ y ∈ cycs (stepFrame c w f).stack, y ∈ f.cyc ++ cycs w.stack ∨ y = w.next := by
  cases f with
  | script ops self wc top =>
    cases ops with
    | nil => simp only [stepFrame]; exact fun y hy => Or.inl (List.mem_append_right _ hy)
    | cons op ops =>
      simp only [stepFrame]
      have := execOp_cycs c (w.push (.script ops self wc top)) self wc op
      split
      · intro y hy; have h := this y hy; simp [cycs_cons, Frame.cyc, World.push] at h; exact Or.inl (List.mem_append_right _ h)
      · intro y hy; have h := this y hy; simp [cycs_cons, Frame.cyc, World.push] at h; exact Or.inl (List.mem_append_right _ h)
  | collectPass =>
    simp only [stepFrame, startDealloc]
    generalize tracePhasesF _ _ _ _ _ = r
    obtain ⟨res, fault⟩ := r
    cases res <;> simp only [] <;> repeat' split
    all_goals cyc_tac2
  | deallocDrop N r oD =>
    cases r with
    | cons x r => simp only [stepFrame]; repeat' split
                  all_goals cyc_tac2
    | nil =>
      simp only [stepFrame]
      split
      · cyc_tac2
      · intro y hy; simp [foldl_free_stack'] at hy; exact Or.inl (List.mem_append_right _ hy)
  | regInsert owner script k cap =>
    simp only [stepFrame]
    split
    · cyc_tac2
    · split
      · cyc_tac2
      · cases hfr : (w.heap _).afree <;> simp only [] <;> split <;> cyc_tac2
  | _ =>
    simp only [stepFrame, destroyLast, startDealloc]
    repeat' split
    all_goals cyc_tac2

/-! ### Histories -/

theorem split_unique {α : Type} {a : α} : ∀ {l1 l2 m1 m2 : List α}, a ∉ l1 → a ∉ m1 → l1 ++ a :: l2 = m1 ++ a :: m2 →
    l1 = m1 ∧ l2 = m2
  | [], l2, [], m2, _, _, h => by simp at h; exact ⟨rfl, h⟩
  | [], l2, b :: m1, m2, _, h2, h => by
    simp at h; exact absurd (h.1 ▸ List.mem_cons_self ..) h2
  | c :: l1, l2, [], m2, h1, _, h => by
    simp at h; exact absurd (h.1 ▸ List.mem_cons_self ..) h1
  | c :: l1, l2, b :: m1, m2, h1, h2, h => by
    simp at h
    have := split_unique (fun hm => h1 (List.mem_cons_of_mem _ hm)) (fun hm => h2 (List.mem_cons_of_mem _ hm)) h.2
    exact ⟨by rw [h.1, this.1], this.2⟩

/-- A panic-free history together with the log of everything it emitted since the start. -/
inductive HistR (c : Cfg) (nH nW nK : Nat) : World → List Event → Prop
  | init : HistR c nH nW nK (World.init c nH nW nK) []
  | step (w) (log) : HistR c nH nW nK w log → w.mode = .running → HistR c nH nW nK (step c w) (log ++ newEvents w (step c w))
  | top (w) (op : Op) (log) : HistR c nH nW nK w log → w.stack = [] → w.mode = .running →
      HistR c nH nW nK { w with stack := [.script [op] none none true, .catchTop], events := [], ret := .ok } log

theorem HistR.reachableR {c : Cfg} {nH nW nK : Nat} {w : World} {log : List Event} (h : HistR c nH nW nK w log) :
    ReachableR c nH nW nK w := by
  induction h with
  | init => exact .init
  | step w log _ hm ih => exact .step w ih hm
  | top w op log _ hs hm ih => exact .top w op ih hs hm

theorem step_next_ge (c : Cfg) (w : World) : w.next ≤ (step c w).next := by
  rcases step_eff c w with ⟨F, he, _⟩ | ⟨o, _, he⟩
  · rw [he.next]; exact Nat.le_refl _
  · rw [he.next]; exact Nat.le_succ _

theorem dropValue_dead (c : Cfg) (w : World) (x : Id) : ((stepFrame c w (.dropValue x)).heap x).lv.2 = false := by
  show ((stepFrame c w (.dropValue x)).heap x).valLive = false
  simp only [stepFrame]
  split
  · split <;> simp [raiseLogged, raise, emit, push, upd] <;> split <;> simp
  · simp [push, upd]

/-- What the log of a panic-free history says about object `x`. -/
structure DeadOk (w : World) (log : List Event) (x : Id) : Prop where
  /-- its value was destroyed at most once -/
  once : (vEv log).count (true, x) ≤ 1
  /-- once destroyed it stays destroyed, is not a box under construction, and its identity is never handed out again -/
  dead : (true, x) ∈ vEv log → (w.heap x).lv.2 = false ∧ x ∉ cycs w.stack ∧ x < w.next
  /-- nothing is done to it after its destruction: no second `drop`, no `finalize` -/
  order : ∀ l1 l2, vEv log = l1 ++ (true, x) :: l2 → ∀ b, (b, x) ∉ l2

/-- The `drop` / `finalize` events of a running step concern an intact value in a live box. -/
theorem vev_alive {c : Cfg} {nH nW nK : Nat} {w : World} (h : ReachableR c nH nW nK w) (hm : w.mode = .running) (b : Bool) (x : Id)
    (hx : (b, x) ∈ vEv (newEvents w (step c w))) :
    (w.heap x).lv = (true, true) ∧ ∃ f rest, w.stack = f :: rest ∧ f.pendingOn = some x ∧ vEv (newEvents w (step c w)) = [(b, x)] := by
  have hl := reachableR_life c nH nW nK w h
  cases hs : w.stack with
  | nil =>
    have e : step c w = w := by unfold step; rw [hm]; simp only []; rw [hs]
    rw [e] at hx; simp [newEvents] at hx
  | cons f rest =>
    rw [step_vEv_running c w hm f rest hs] at hx ⊢
    cases f <;> simp only [Frame.vev, List.not_mem_nil] at hx
    · rename_i y
      split at hx
      · simp only [List.mem_singleton, Prod.mk.injEq] at hx
        obtain ⟨rfl, rfl⟩ := hx
        refine ⟨hl.shape.alive (.dropValue x) x (by rw [hs]; rfl) rfl, _, _, rfl, rfl, ?_⟩
        simp [Frame.vev, *]
      · cases hx
    · rename_i y
      split at hx
      · simp only [List.mem_singleton, Prod.mk.injEq] at hx
        obtain ⟨rfl, rfl⟩ := hx
        refine ⟨hl.shape.alive (.callFin x) x (by rw [hs]; rfl) rfl, _, _, rfl, rfl, ?_⟩
        simp [Frame.vev, *]
      · cases hx

theorem histR_deadOk (c : Cfg) (nH nW nK : Nat) (w : World) (log : List Event) (h : HistR c nH nW nK w log) (x : Id) :
    DeadOk w log x := by
  induction h with
  | init => exact ⟨by simp, fun h => by simp at h, fun l1 l2 h => by simp at h⟩
  | top w op log _ hs hm ih =>
    refine ⟨ih.once, ?_, ih.order⟩
    intro hx
    obtain ⟨h1, h2, h3⟩ := ih.dead hx
    refine ⟨h1, ?_, h3⟩
    simp [cycs, Frame.cyc]
  | step w log hh hm ih =>
    have hr := hh.reachableR
    have hall := reachable_all c nH nW nK w hr.reachable
    have hl := reachableR_life c nH nW nK w hr
    -- the new events of the step
    have hnew : ∀ b, (b, x) ∈ vEv (newEvents w (step c w)) →
        (w.heap x).lv = (true, true) ∧ vEv (newEvents w (step c w)) = [(b, x)] := by
      intro b hb
      obtain ⟨h1, _, _, _, _, h2⟩ := vev_alive hr hm b x hb
      exact ⟨h1, h2⟩
    -- an already destroyed value is not mentioned by the step
    have hold : (true, x) ∈ vEv log → ∀ b, (b, x) ∉ vEv (newEvents w (step c w)) := by
      intro hx b hb
      have := (hnew b hb).1
      have h2 := (ih.dead hx).1
      rw [this] at h2; cases h2
    -- how the step treats a destroyed value
    have hkeep : (w.heap x).lv.2 = false → x ∉ cycs w.stack → x < w.next →
        ((step c w).heap x).lv.2 = false ∧ x ∉ cycs (step c w).stack ∧ x < (step c w).next := by
      intro h1 h2 h3
      refine ⟨?_, ?_, Nat.lt_of_lt_of_le h3 (step_next_ge c w)⟩
      · cases hs : w.stack with
        | nil =>
          have e : step c w = w := by unfold step; rw [hm]; simp only []; rw [hs]
          rw [e]; exact h1
        | cons f rest =>
          have e : step c w = stepFrame c { w with stack := rest } f := by unfold step; rw [hm]; simp only []; rw [hs]
          rw [e]
          cases hv : ((stepFrame c { w with stack := rest } f).heap x).lv.2 with
          | false => rfl
          | true =>
            rcases stepFrame_val c { w with stack := rest } f x hv with h | ⟨h, _⟩ | ⟨k, sp, sw, h, _⟩
            · rw [show (({ w with stack := rest } : World).heap x).lv.2 = (w.heap x).lv.2 from rfl, h1] at h; cases h
            · exact absurd h (Nat.ne_of_lt h3)
            · subst h
              exact absurd (by rw [hs, cycs_cons]; simp [Frame.cyc]) h2
      · cases hs : w.stack with
        | nil =>
          have e : step c w = w := by unfold step; rw [hm]; simp only []; rw [hs]
          rw [e]; exact h2
        | cons f rest =>
          have e : step c w = stepFrame c { w with stack := rest } f := by unfold step; rw [hm]; simp only []; rw [hs]
          rw [e]
          intro hc
          rcases stepFrame_cycs c { w with stack := rest } f x hc with h | h
          · exact h2 (by rw [hs, cycs_cons]; exact h)
          · exact absurd h (Nat.ne_of_lt h3)
    refine ⟨?_, ?_, ?_⟩
    · -- at most once
      rw [vEv_append, List.count_append]
      by_cases hn : (true, x) ∈ vEv (newEvents w (step c w))
      · have h1 := (hnew true hn)
        have h0 : (true, x) ∉ vEv log := by
          intro hx; exact hold hx true hn
        rw [List.count_eq_zero.2 h0, h1.2]; simp
      · rw [List.count_eq_zero.2 hn]; exact ih.once
    · -- stays dead
      intro hx
      rw [vEv_append, List.mem_append] at hx
      rcases hx with hx | hx
      · obtain ⟨h1, h2, h3⟩ := ih.dead hx
        exact hkeep h1 h2 h3
      · obtain ⟨hal, f, rest, hs, hp, _⟩ := vev_alive hr hm true x hx
        have hlv := hal
        have hb : (w.heap x).boxLive = true := by have := congrArg Prod.fst hlv; simpa [Obj.lv] using this
        have hxn : x < w.next := by
          cases Nat.lt_or_ge x w.next with
          | inl h => exact h
          | inr hge => rw [hall.fresh x hge] at hb; cases hb
        have hnc : x ∉ cycs w.stack := by
          intro hc
          have := hall.inv.oi.cyc x hc
          have h2 : (w.heap x).valLive = true := by have := congrArg Prod.snd hlv; simpa [Obj.lv] using this
          rw [show (w.cores x).valLive = (w.heap x).valLive from rfl, h2] at this; cases this
        -- the step is `dropValue x`
        have hf : f = .dropValue x := by
          have hv := step_vEv_running c w hm f rest hs
          rw [hv] at hx
          cases f <;> simp [Frame.vev] at hx
          · rename_i y; rw [hx.2]
        subst hf
        have e : step c w = stepFrame c { w with stack := rest } (.dropValue x) := by unfold step; rw [hm]; simp only []; rw [hs]
        refine ⟨by rw [e]; exact dropValue_dead c _ x, ?_, Nat.lt_of_lt_of_le hxn (step_next_ge c w)⟩
        rw [e]
        intro hc
        rcases stepFrame_cycs c { w with stack := rest } (.dropValue x) x hc with h | h
        · exact hnc (by rw [hs, cycs_cons]; exact h)
        · exact absurd h (Nat.ne_of_lt hxn)
    · -- nothing after the destruction
      intro l1 l2 hsplit b hb
      rw [vEv_append] at hsplit
      by_cases hx : (true, x) ∈ vEv log
      · -- the destruction is in the old log: split it there
        obtain ⟨a1, a2, ha⟩ := List.append_of_mem hx
        have hno : ∀ b, (b, x) ∉ vEv (newEvents w (step c w)) := hold hx
        have hcnt : (a2.count (true, x)) = 0 := by
          have := ih.once; rw [ha, List.count_append, List.count_cons_self] at this; omega
        have ha1 : (true, x) ∉ a1 := by
          intro hm1
          have := ih.once
          rw [ha, List.count_append, List.count_cons_self] at this
          have := List.count_pos_iff.2 hm1
          omega
        -- uniqueness of the split point
        rw [ha] at hsplit
        have hl1 : (true, x) ∉ l1 ∨ True := Or.inr trivial
        have key : l1 = a1 ∧ l2 = a2 ++ vEv (newEvents w (step c w)) := by
          have h2 : a1 ++ (true, x) :: (a2 ++ vEv (newEvents w (step c w))) = l1 ++ (true, x) :: l2 := by
            rw [← hsplit]; simp
          have hnot2 : (true, x) ∉ a2 ++ vEv (newEvents w (step c w)) := by
            intro hm2
            rcases List.mem_append.1 hm2 with h | h
            · exact absurd (List.count_pos_iff.2 h) (by omega)
            · exact hno true h
          -- first occurrence is unique on the left, nothing on the right
          have := split_unique ha1 (fun hmm => by
            -- (true,x) ∉ l1: otherwise two occurrences
            have hc : ((a1 ++ (true, x) :: (a2 ++ vEv (newEvents w (step c w)))).count (true, x)) = 1 := by
              rw [List.count_append, List.count_cons_self, List.count_eq_zero.2 ha1, List.count_eq_zero.2 hnot2]
            rw [h2, List.count_append, List.count_cons_self] at hc
            have := List.count_pos_iff.2 hmm
            omega) h2
          exact ⟨this.1.symm, this.2.symm⟩
        rw [key.2] at hb
        rcases List.mem_append.1 hb with h | h
        · exact ih.order a1 a2 ha b h
        · exact hno b h
      · -- the destruction is in the new events: they are exactly `[(true, x)]`
        have hxn : (true, x) ∈ vEv (newEvents w (step c w)) := by
          have : (true, x) ∈ vEv log ++ vEv (newEvents w (step c w)) := by rw [hsplit]; simp
          rcases List.mem_append.1 this with h | h
          · exact absurd h hx
          · exact h
        have h1 := (hnew true hxn).2
        rw [h1] at hsplit
        have hl2 : l2 = [] := by
          have hlen := congrArg List.length hsplit
          simp at hlen
          -- l1 contains no (true,x)? it must equal vEv log
          have hmem : (true, x) ∉ vEv log := hx
          have : l1 = vEv log ∧ l2 = [] := by
            have h2 : vEv log ++ (true, x) :: [] = l1 ++ (true, x) :: l2 := by simpa using hsplit
            by_cases hm1 : (true, x) ∈ l1
            · exfalso
              have hc := congrArg (List.count (true, x)) h2
              rw [List.count_append, List.count_append, List.count_cons_self, List.count_cons_self, List.count_eq_zero.2 hmem] at hc
              have := List.count_pos_iff.2 hm1
              simp at hc; omega
            · have := split_unique hmem hm1 h2
              exact ⟨this.1.symm, this.2.symm⟩
          exact this.2
        rw [hl2] at hb; cases hb

/-! ### What the driver computes for a panic-free program is such a history -/

theorem histR_run (c : Cfg) (nH nW nK : Nat) : ∀ (fuel : Nat) (w : World) (log : List Event), HistR c nH nW nK w log →
    runsClean c fuel w = true → ∃ log', HistR c nH nW nK (run c fuel w) log'
  | 0, _, log, h, _ => ⟨log, h⟩
  | fuel + 1, w, log, h, hcl => by
    unfold run
    unfold runsClean at hcl
    split
    · exact ⟨log, h⟩
    · rename_i hne
      rw [if_neg hne] at hcl
      have hcl' : w.mode = .running ∧ runsClean c fuel (step c w) = true := by simpa using hcl
      split
      · exact ⟨log, h⟩
      · exact histR_run c nH nW nK fuel _ _ (.step w log h hcl'.1) hcl'.2

theorem histR_prog (c : Cfg) (nH nW nK : Nat) (fuel : Nat) : ∀ (ops : List Op) (w : World) (log : List Event), HistR c nH nW nK w log →
    cleanProg c fuel w ops = true → ∃ log', HistR c nH nW nK (ops.foldl (execTop c fuel) w) log'
  | [], _, log, h, _ => ⟨log, h⟩
  | op :: ops, w, log, h, hcl => by
    simp only [cleanProg, Bool.and_eq_true, decide_eq_true_eq, List.isEmpty_iff] at hcl
    obtain ⟨⟨⟨hs, hm⟩, hr⟩, hrest⟩ := hcl
    simp only [List.foldl_cons]
    have : ∃ log', HistR c nH nW nK (execTop c fuel w op) log' := by
      unfold execTop
      split
      · exact ⟨log, h⟩
      · exact histR_run c nH nW nK fuel _ _ (.top w op log h hs hm) hr
    obtain ⟨log', h'⟩ := this
    exact histR_prog c nH nW nK fuel ops _ log' h' hrest

end RustCc
