/-! Pure model of the two tracing phases of `__collect` (no panics). -/
namespace T1

inductive Mark | non | pc | inList | inQueue
  deriving DecidableEq, Repr, Inhabited

structure Obj where
  rc : Nat := 0
  tc : Nat := 0
  mark : Mark := .non
  edges : List Nat := []     -- traced Cc fields, in trace order
  uedges : List Nat := []    -- Cc fields the owner does not trace
  deriving Repr, Inhabited

abbrev Heap := Nat → Obj

def Heap.set (h : Heap) (i : Nat) (o : Obj) : Heap := fun j => if j = i then o else h j

@[simp] theorem Heap.set_same (h : Heap) (i o) : (h.set i o) i = o := by simp [Heap.set]
@[simp] theorem Heap.set_other (h : Heap) (i j o) (hne : j ≠ i) : (h.set i o) j = h j := by
  simp [Heap.set, hne]

structure TS where
  h : Heap
  root : List Nat := []
  nonroot : List Nat := []
  queue : List Nat := []

/-- `CcBox::trace`, `ContextInner::Counting` arm. -/
def countEdge (s : TS) (y : Nat) : TS :=
  let o := s.h y
  match o.mark with
  | .inList =>
    if o.rc = o.tc + 1 then
      { s with h := s.h.set y { o with tc := o.tc + 1 }, root := s.root.erase y, nonroot := y :: s.nonroot }
    else { s with h := s.h.set y { o with tc := o.tc + 1 } }
  | .inQueue => { s with h := s.h.set y { o with tc := o.tc + 1 } }
  | .pc => { s with h := s.h.set y { o with tc := o.tc + 1 } }
  | .non => { s with h := s.h.set y { o with tc := 1, mark := .inQueue }, queue := s.queue ++ [y] }

/-- Mark the popped object `InQueue` (the transient `NonMarked` of `remove_first`/`poll` is not observable). -/
def beginObj (s : TS) (x : Nat) : TS := { s with h := s.h.set x { s.h x with mark := .inQueue } }

/-- End of `__trace_counting`: file under root / non-root and mark `InList`. -/
def endObj (s : TS) (x : Nat) : TS :=
  let o := s.h x
  if o.rc = o.tc then
    { s with h := s.h.set x { o with mark := .inList }, nonroot := x :: s.nonroot }
  else
    { s with h := s.h.set x { o with mark := .inList }, root := x :: s.root }

def countObj (s : TS) (x : Nat) : TS :=
  endObj ((s.h x).edges.foldl countEdge (beginObj s x)) x

def countPC (s : TS) : List Nat → TS
  | [] => s
  | x :: rest => countPC (countObj s x) rest

def countQueue : Nat → TS → TS
  | 0, s => s
  | fuel + 1, s =>
    match s.queue with
    | [] => s
    | x :: q => countQueue fuel (countObj { s with queue := q } x)

/-- Number of traced edges from the objects in `ds` into `x`. -/
def inCount (h : Heap) (ds : List Nat) (x : Nat) : Nat :=
  (ds.map fun u => (h u).edges.count x).sum

/-! ## Root-tracing phase -/

/-- `CcBox::trace`, `ContextInner::RootTracing` arm. -/
def rootEdge (s : TS) (y : Nat) : TS :=
  if (s.h y).mark = .inList ∧ (s.h y).rc = (s.h y).tc then
    { s with h := s.h.set y { s.h y with mark := .inQueue }, nonroot := s.nonroot.erase y, queue := s.queue ++ [y] }
  else s

/-- `remove_first` / `poll` of the object about to be root-traced: it becomes `NonMarked`. -/
def unmark (s : TS) (x : Nat) : TS := { s with h := s.h.set x { s.h x with mark := .non } }

def rootObj (s : TS) (x : Nat) : TS := (s.h x).edges.foldl rootEdge (unmark s x)

def rootsList (s : TS) : List Nat → TS
  | [] => s
  | x :: rest => rootsList (rootObj s x) rest

def rootsQueue : Nat → TS → TS
  | 0, s => s
  | fuel + 1, s =>
    match s.queue with
    | [] => s
    | x :: q => rootsQueue fuel (rootObj { s with queue := q } x)

def tracePhases (fuel : Nat) (h : Heap) (pc : List Nat) : TS :=
  let s := countQueue fuel (countPC { h := h } pc)
  rootsQueue fuel (rootsList { s with root := [] } s.root)


end T1
