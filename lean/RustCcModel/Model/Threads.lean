import RustCcModel.Model.Machine
/-! Per-thread collectors: the state of a process is one `World` per thread; every operation and every
micro-step is tagged with the thread that performs it and touches that thread's component only
(all of the crate's state is `thread_local!`: `POSSIBLE_CYCLES`, `STATE`, `CONFIG`). -/
namespace RustCc

abbrev Worlds := Nat → World

/-- One micro-step of thread `t`. -/
def tstep (c : Cfg) (ws : Worlds) (t : Nat) : Worlds := fun u => if u = t then step c (ws u) else ws u

/-- A schedule: which thread moves at each instant. -/
def runSched (c : Cfg) (ws : Worlds) : List Nat → Worlds
  | [] => ws
  | t :: rest => runSched c (tstep c ws t) rest

/-- Sequential run of one world for `n` steps. -/
def stepN (c : Cfg) : Nat → World → World
  | 0, w => w
  | n + 1, w => stepN c n (step c w)

end RustCc
