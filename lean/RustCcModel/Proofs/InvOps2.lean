import RustCcModel.Proofs.InvOps
/-! The invariant `Inv` through the remaining operations, and the dispatch over all operations. -/
namespace RustCc
open World
open T1 (Mark)

/-! ### No collection running: no collector list on the stack -/

theorem listed_nil_aux : ∀ (st : List Frame) (fl : Flags), expected st = some fl → stackWF st = true → fl.1 = false →
    listed st = [] := by
  intro st
  induction st with
  | nil => intro fl _ _ _; rfl
  | cons f rest ih =>
    intro fl he hwf hcl
    have hwf' : stackWF rest = true := by
      simp only [stackWF, Bool.and_eq_true] at hwf; exact hwf.2
    have hpass : f.isPass = true → ∃ n a b r, rest = .collectLoop n a b :: r := by
      intro hp
      simp only [stackWF, hp, if_true, Bool.and_eq_true] at hwf
      have h1 := hwf.1
      cases rest with
      | nil => simp at h1
      | cons g r =>
        cases g <;> simp [Frame.isLoop] at h1
        exact ⟨_, _, _, _, rfl⟩
    rw [listed_cons]
    cases f with
    | finalizePass N r hf oF =>
      obtain ⟨cl, d, h1, h2⟩ := expected_guard_finpass he
      obtain ⟨n, a, b, r', hr⟩ := hpass rfl
      rw [hr] at h1
      have := (expected_guard_collect h1).2
      subst h2
      simp at this hcl
      rw [hcl] at this; cases this.1
    | deallocDrop N r oD =>
      obtain ⟨cl, d, h1, h2⟩ := expected_guard_dealloc he
      obtain ⟨n, a, b, r', hr⟩ := hpass rfl
      rw [hr] at h1
      have := (expected_guard_collect h1).2
      subst h2
      simp at this hcl
      rw [hcl] at this; cases this.1
    | collectLoop n a b =>
      have := (expected_guard_collect he).2
      subst this; cases hcl
    | dropCcAfterFin x oF =>
      obtain ⟨cl, d, h1, h2⟩ := expected_guard_fin he
      subst h2
      simpa [Frame.listed] using ih _ h1 hwf' hcl
    | afterDropValue x oD =>
      obtain ⟨cl, d, h1, h2⟩ := expected_guard_drop he
      subst h2
      simpa [Frame.listed] using ih _ h1 hwf' hcl
    | _ =>
      simp only [expected_script, expected_catchTop, expected_dropCc, expected_dropValue, expected_dropFields,
        expected_dropActions, expected_actionEnd, expected_callFin, expected_collectPass, expected_adjustAfter,
        expected_newAlloc, expected_newCyclicAlloc, expected_newCyclicEnd, expected_regInsert, expected_mapAlloc,
        expected_cleanEnd, expected_dropMoved, expected_dropMany, expected_setRet] at he
      simpa [Frame.listed] using ih _ he hwf' hcl

theorem listed_nil_of_idle {w : World} (hf : FlagsOk w) (hwf : stackWF w.stack = true) (hc : w.collecting = false) :
    listed w.stack = [] :=
  listed_nil_aux w.stack w.flags hf hwf hc

/-! ### Operations that only touch side records, weak slots, tables -/

/-- Pointwise form of `Inv.step_same` (robust against record updates of the world). -/
theorem Inv.step_heap {w w' : World} (hi : Inv w) (hh : ∀ y, (w'.heap y).core = (w.heap y).core) (hp : w'.pc = w.pc)
    (fs : List Frame) (hfs : ∀ f ∈ fs, f.plain = true) (hs : w'.stack = fs ++ w.stack) : Inv w' :=
  hi.step_same (funext hh) hp fs hfs hs

theorem core_upd_neutral (w : World) (x : Id) (F : Obj → Obj) (y : Id)
    (h1 : ∀ o, (F o).rc = o.rc) (h2 : ∀ o, (F o).mark = o.mark) (h3 : ∀ o, (F o).tc = o.tc)
    (h4 : ∀ o, (F o).boxLive = o.boxLive) (h5 : ∀ o, (F o).valLive = o.valLive) :
    ((w.upd x F).heap y).core = (w.heap y).core :=
  congrFun (cores_upd_neutral w x F (by simp [Obj.core, h1, h2, h3, h4, h5])) y
@[simp] theorem core_initMeta (w : World) (x y : Id) : ((w.initMeta x).heap y).core = (w.heap y).core :=
  congrFun (cores_initMeta w x) y
@[simp] theorem core_dropMetadata (w : World) (x y : Id) : ((w.dropMetadata x).heap y).core = (w.heap y).core :=
  congrFun (cores_dropMetadata w x) y
@[simp] theorem heap_raise (w : World) : w.raise.heap = w.heap := by unfold raise; split <;> rfl
@[simp] theorem heap_raiseLogged (w : World) : w.raiseLogged.heap = w.heap := by unfold raiseLogged; simp
@[simp] theorem heap_setH (w : World) (k v) : (w.setH k v).heap = w.heap := rfl
@[simp] theorem heap_setW (w : World) (k v) : (w.setW k v).heap = w.heap := rfl
@[simp] theorem heap_setK (w : World) (k v) : (w.setK k v).heap = w.heap := rfl
@[simp] theorem heap_startCollect (w : World) : w.startCollect.heap = w.heap := rfl
@[simp] theorem stack_startCollect (w : World) :
    w.startCollect.stack = .collectLoop 0 w.finalizing w.dropping :: w.stack := rfl

/-- Pointwise `inv_same`. -/
macro "inv_heap " hi:ident fs:term : tactic =>
  `(tactic| exact Inv.step_heap $hi (by intro y; first | rfl | simp [core_upd_neutral]) (by first | rfl | simp) $fs
      (by plain_tac) (by first | rfl | simp))

variable (c : Cfg) (w : World) (self wc : Option Id)

theorem execOp_inv_wclone (ws : WSel) (k : Nat) (hi : Inv w) : Inv (execOp c w self wc (.wclone ws k)) := by
  simp only [execOp]
  repeat' split
  all_goals inv_heap hi []

theorem execOp_inv_wdrop (k : Nat) (hi : Inv w) : Inv (execOp c w self wc (.wdrop k)) := by
  simp only [execOp]
  repeat' split
  all_goals inv_heap hi []

theorem execOp_inv_wnew (k : Nat) (hi : Inv w) : Inv (execOp c w self wc (.wnew k)) := by
  simp only [execOp]
  repeat' split
  all_goals inv_heap hi []

theorem execOp_inv_setw (n : NRef) (i : Nat) (ws : WSel) (hi : Inv w) : Inv (execOp c w self wc (.setw n i ws)) := by
  simp only [execOp]
  repeat' split
  all_goals inv_heap hi []

theorem execOp_inv_clrw (n : NRef) (i : Nat) (hi : Inv w) : Inv (execOp c w self wc (.clrw n i)) := by
  simp only [execOp]
  repeat' split
  all_goals inv_heap hi []

theorem execOp_inv_cdrop (k : Nat) (hi : Inv w) : Inv (execOp c w self wc (.cdrop k)) := by
  simp only [execOp]
  repeat' split
  all_goals inv_heap hi []

theorem execOp_inv_wdropN (r : CRef) (n : Nat) (hi : Inv w) : Inv (execOp c w self wc (.wdropN r n)) := by
  simp only [execOp]
  repeat' split
  all_goals inv_heap hi []

theorem execOp_inv_collect (hi : Inv w) : Inv (execOp c w self wc .collect) := by
  simp only [execOp]
  split
  · inv_heap hi []
  · split
    · inv_heap hi [.collectLoop 0 w.finalizing w.dropping, .adjustAfter]
    · inv_heap hi [.collectLoop 0 w.finalizing w.dropping]

theorem execOp_inv_dropN (r : CRef) (n : Nat) (hi : Inv w) : Inv (execOp c w self wc (.dropN r n)) := by
  simp only [execOp]
  split
  · rename_i x hx
    inv_heap hi [.dropMany x (min n (w.stash x))]
  · inv_heap hi []

/-! ### Operations that change counts or the buffer -/

/-- A step that pushes plain frames, from an intermediate world `w1` for which the object invariant is known, up to
fields the invariant does not read. -/
theorem Inv.step_woi {w w1 w' : World} (hi : Inv w) (h : WOI w1 (listed w.stack) (zeroed w.stack) (cycs w.stack))
    (hh : ∀ y, (w'.heap y).core = (w1.heap y).core) (hp : w'.pc = w1.pc)
    (fs : List Frame) (hfs : ∀ f ∈ fs, f.plain = true) (hs : w'.stack = fs ++ w.stack) : Inv w' :=
  hi.step (WOI.same h (funext hh) hp) fs hfs hs

macro "inv_via " hi:ident h:term:max fs:term : tactic =>
  `(tactic| exact Inv.step_woi $hi $h (by intro y; first | rfl | simp [core_upd_neutral]) (by first | rfl | simp) $fs
      (by plain_tac) (by first | rfl | simp))

theorem execOp_inv_up (ws : WSel) (k : Nat) (hi : Inv w) : Inv (execOp c w self wc (.up ws k)) := by
  simp only [execOp]
  split
  · inv_heap hi []
  · split
    · rename_i r hr
      split
      · inv_heap hi []
      · split
        · inv_heap hi []
        · rename_i hstrong
          split
          · rename_i x
            split
            · inv_via hi (WOI.cloneOk hi.oi x (weakStrong_rc hstrong)) []
            · inv_heap hi []
          · inv_heap hi []
    · inv_heap hi []

variable {L Z Cy : List Id}

/-- `n` clones at once of an object whose count is not 0. -/
theorem WOI.incr {w : World} (h : WOI w L Z Cy) (x : Id) (n : Nat) (hr : (w.heap x).rc ≠ 0) :
    WOI ((w.upd x fun o => { o with rc := o.rc + n }).removeFromList x) L Z Cy := by
  apply WOI.removeFromList
  apply WOI.upd h x _ rfl rfl rfl
  · intro hc
    rcases hc with hc | hc
    · exact absurd (OI.boxLive_of_rc h (x := x) hr) (by rw [show (w.cores x).boxLive = (w.heap x).boxLive from rfl, hc]; simp)
    · exact absurd hc (OI.not_mem_Z_of_rc h (x := x) hr)
  · intro hc; exact h.cyc x hc

/-- `initMeta`, a change of the side record, `remove_from_list`. -/
theorem WOI.downgrade {w : World} (h : WOI w L Z Cy) (x : Id) (f : Meta → Meta) :
    WOI (((w.initMeta x).updMeta x f).removeFromList x) L Z Cy :=
  WOI.removeFromList (w := (w.initMeta x).updMeta x f) (WOI.same h (by simp) (by simp)) x

theorem execOp_inv_down (r : CRef) (k : Nat) (hi : Inv w) : Inv (execOp c w self wc (.down r k)) := by
  simp only [execOp]
  split
  · inv_heap hi []
  · split
    · rename_i x hx
      split
      · inv_heap hi []
      · split
        · inv_heap hi []
        · inv_via hi (WOI.downgrade hi.oi x _) []
    · inv_heap hi []

theorem execOp_inv_downN (r : CRef) (n : Nat) (hi : Inv w) : Inv (execOp c w self wc (.downN r n)) := by
  simp only [execOp]
  split
  · inv_heap hi []
  · split
    · rename_i x hx
      split
      · inv_heap hi []
      · split
        · inv_via hi (WOI.downgrade hi.oi x _) []
        · split
          · inv_heap hi []
          · inv_via hi (WOI.downgrade hi.oi x fun m => { m with weak := m.weak + (c.weakMax - ((w.initMeta x).metas x).weak) }) []
    · inv_heap hi []

theorem execOp_inv_cloneN (r : CRef) (n : Nat) (hc : Counts w) (hi : Inv w) (hself : ∀ s, self = some s → s < w.next) :
    Inv (execOp c w self wc (.cloneN r n)) := by
  simp only [execOp]
  split
  · rename_i x hx
    have hr := resolveC_rc hc hself hx
    split
    · inv_heap hi []
    · split
      · inv_via hi (WOI.incr hi.oi x _ hr) []
      · split
        · inv_heap hi []
        · inv_via hi (WOI.incr hi.oi x (c.rcMax - (w.heap x).rc) hr) []
  · inv_heap hi []

theorem reg_tail_inv (c : Cfg) {w w1 : World} (hi : Inv w) (capId : Option Id) (t : Id) (script k : Nat)
    (h : WOI w1 (listed w.stack) (zeroed w.stack) (cycs w.stack)) (hs : w1.stack = w.stack) :
    Inv (match (w1.heap t).cmap with
      | some _ => World.push { w1 with ret := .ok } (.regInsert t script k capId)
      | none =>
        if shouldCollect c ((World.push { w1 with ret := .ok } (.regInsert t script k capId)).push (.mapAlloc t)) = true then
          (((World.push { w1 with ret := .ok } (.regInsert t script k capId)).push (.mapAlloc t)).push .adjustAfter).startCollect
        else (World.push { w1 with ret := .ok } (.regInsert t script k capId)).push (.mapAlloc t)) := by
  split
  · exact Inv.step_woi hi h (fun y => rfl) rfl [.regInsert t script k capId] (by plain_tac) (by simp [hs])
  · split
    · exact Inv.step_woi hi h (fun y => rfl) rfl
        [.collectLoop 0 w1.finalizing w1.dropping, .adjustAfter, .mapAlloc t, .regInsert t script k capId] (by plain_tac)
        (by simp [hs])
    · exact Inv.step_woi hi h (fun y => rfl) rfl [.mapAlloc t, .regInsert t script k capId] (by plain_tac) (by simp [hs])

theorem execOp_inv_reg (n : NRef) (script k : Nat) (cap : Option CRef) (hc : Counts w) (hi : Inv w)
    (hself : ∀ s, self = some s → s < w.next) : Inv (execOp c w self wc (.reg n script k cap)) := by
  simp only [execOp]
  split
  · inv_heap hi []
  · split
    · rename_i t ht
      split
      · inv_heap hi []
      · split
        · rename_i y hy
          split
          · inv_heap hi []
          · rw [hy]
            have hr : (w.heap y).rc ≠ 0 := by
              cases cap with
              | none => simp at hy
              | some r => exact resolveC_rc hc hself (by simpa using hy)
            exact reg_tail_inv c hi (some y) t script k (WOI.cloneOk hi.oi y hr) (by simp)
        · rename_i hy
          rw [hy]
          simp only [Bool.not_true, Bool.false_eq_true, if_false]
          exact reg_tail_inv c hi none t script k hi.oi rfl
    · inv_heap hi []

theorem clean_tail_inv (c : Cfg) {w0 w : World} (hi : Inv w0) (m : Id) (i aid : Nat)
    (h : WOI w (listed w0.stack) (zeroed w0.stack) (cycs w0.stack))
    (fs : List Frame) (hfs : ∀ f ∈ fs, f.plain = true) (hs : w.stack = fs ++ w0.stack) :
    Inv (match ((w.heap m).aslots.getD i none) with
            | some a =>
              if a.aid = aid then
                let w := w.upd m fun o => { o with aslots := o.aslots.set i none, afree := i :: o.afree }
                let w := w.push (.actionEnd a.cap false)
                let (boom, f) := tick w.fAct
                let w := { w with fAct := f }
                let w := w.emit (.action a.aid (w.isTracing c))
                if boom then w.raiseLogged else w.push (.script (c.script a.script) none none)
              else w
            | none => w) := by
  split
  · rename_i a ha
    split
    · have h1 : WOI (w.upd m fun o => { o with aslots := o.aslots.set i none, afree := i :: o.afree })
          (listed w0.stack) (zeroed w0.stack) (cycs w0.stack) := WOI.updN h m _ rfl
      simp only []
      split
      · refine Inv.step_woi hi h1 (fun y => by simp) (by simp) (.actionEnd a.cap false :: fs) ?_ (by simp [hs])
        intro f hf
        rcases List.mem_cons.1 hf with e | e
        · subst e; plain_tac
        · exact hfs f e
      · refine Inv.step_woi hi h1 (fun y => by simp) (by simp)
          (.script (c.script a.script) none none :: .actionEnd a.cap false :: fs) ?_ (by simp [hs])
        intro f hf
        rcases List.mem_cons.1 hf with e | e
        · subst e; plain_tac
        · rcases List.mem_cons.1 e with e | e
          · subst e; plain_tac
          · exact hfs f e
    · exact hi.step h fs hfs hs
  · exact hi.step h fs hfs hs

theorem execOp_inv_clean (k : Nat) (hi : Inv w) : Inv (execOp c w self wc (.clean k)) := by
  simp only [execOp]
  split
  · inv_heap hi []
  · split
    · rename_i m i aid hk
      split
      · inv_heap hi []
      · rename_i hstrong
        have hr : (w.heap m).rc ≠ 0 := weakStrong_rc hstrong
        split
        · inv_heap hi []
        · have h1 : WOI (World.cloneOk { w with ret := .ok } m) (listed w.stack) (zeroed w.stack) (cycs w.stack) :=
            WOI.cloneOk (w := { w with ret := .ok }) hi.oi m hr
          split
          · inv_via hi h1 [.cleanEnd m false false]
          · have h2 := WOI.updN h1 m (fun o => { o with borrowed := true }) rfl
            exact clean_tail_inv c hi m i aid (w := World.push _ (.cleanEnd m true false)) h2 [.cleanEnd m true false]
              (by plain_tac) (by simp)
    · inv_heap hi []

/-! ### `try_unwrap` -/

theorem removeFromList_mark_non (w : World) (x : Id) (h : (w.heap x).mark = .pc ∨ (w.heap x).mark = .non) :
    ((w.removeFromList x).heap x).mark = .non := by
  unfold removeFromList
  split
  · simp
  · rcases h with h | h
    · rename_i hn; exact absurd h hn
    · exact h

theorem dropMetadata_mark (w : World) (x y : Id) : ((w.dropMetadata x).heap y).mark = (w.heap y).mark :=
  congrArg Core.mark (core_dropMetadata w x y)

theorem WOI.dropMetadata {w : World} (h : WOI w L Z Cy) (x : Id) : WOI (w.dropMetadata x) L Z Cy :=
  h.same (by simp) (by simp)

theorem execOp_inv_unwrap (k : Nat) (hf : FlagsOk w) (hi : Inv w) : Inv (execOp c w self wc (.unwrap k)) := by
  simp only [execOp]
  split
  · rename_i x hx
    split
    · inv_heap hi []
    · rename_i hg
      have hrc1 : (w.heap x).rc = 1 := by
        by_cases e : (w.heap x).rc = 1
        · exact e
        · exact absurd (Or.inl e) hg
      have hcol : w.collecting = false := by
        cases e : w.collecting with
        | false => rfl
        | true => exact absurd (Or.inr (Or.inl e)) hg
      have hL : listed w.stack = [] := listed_nil_of_idle hf hi.wf hcol
      -- the mark of `x` is `pc` or `non`
      have hmk : (w.heap x).mark = .pc ∨ (w.heap x).mark = .non := by
        have h1 := hi.oi.noQueue x
        have h2 : (w.cores x).mark ≠ .inList := by
          intro e; have := (hi.oi.mList x).1 e; rw [hL] at this; cases this
        have e : (w.cores x).mark = (w.heap x).mark := rfl
        rw [e] at h1 h2
        cases hm : (w.heap x).mark <;> simp_all
      have h1 : WOI ((w.setH k none).removeFromList x) (listed w.stack) (zeroed w.stack) (cycs w.stack) :=
        WOI.removeFromList (w := w.setH k none) hi.oi x
      have hm1 : (((w.setH k none).removeFromList x).heap x).mark = .non :=
        removeFromList_mark_non (w.setH k none) x hmk
      have hr1 : (((w.setH k none).removeFromList x).cores x).rc ≠ 0 := by
        show (((w.setH k none).removeFromList x).heap x).rc ≠ 0
        rw [removeFromList_rc]; show (w.heap x).rc ≠ 0; omega
      have hz : x ∉ zeroed w.stack := OI.not_mem_Z_of_rc h1 hr1
      have hb1 := OI.boxLive_of_rc h1 hr1
      have h2 : WOI (((w.setH k none).removeFromList x).upd x fun o => { o with valLive := false })
          (listed w.stack) (zeroed w.stack) (cycs w.stack) := by
        apply WOI.upd h1 x _ rfl rfl rfl
        · intro hc
          rcases hc with hc | hc
          · rw [show (((w.setH k none).removeFromList x).cores x).boxLive = (((w.setH k none).removeFromList x).heap x).boxLive
              from rfl, hc] at hb1
            cases hb1
          · exact absurd hc hz
        · intro _; rfl
      have hm2 : ((((w.setH k none).removeFromList x).upd x fun o => { o with valLive := false }).heap x).mark = .non := by
        rw [upd_heap_same]; exact hm1
      split
      · have h3 := WOI.freeBox (WOI.dropMetadata h2 x) x
          (by rw [dropMetadata_mark]; exact hm2) hz
        inv_via hi h3 [.dropMoved x]
      · have h3 := WOI.freeBox h2 x hm2 hz
        inv_via hi h3 [.dropMoved x]
  · inv_heap hi []

/-- **Every operation a script can execute preserves the machine invariant.** -/
theorem execOp_inv (c : Cfg) (w : World) (self wc : Option Id) (op : Op) (hc : Counts w) (hf : FlagsOk w) (hi : Inv w)
    (hself : ∀ s, self = some s → s < w.next) : Inv (execOp c w self wc op) := by
  cases op with
  | nop => exact (execOp_inv_simple c w self wc hi).1
  | panic => exact (execOp_inv_simple c w self wc hi).2.1
  | fault kind n j => exact (execOp_inv_simple c w self wc hi).2.2.1 kind n j
  | cfgAuto b => exact (execOp_inv_simple c w self wc hi).2.2.2.1 b
  | cfgBuf b => exact (execOp_inv_simple c w self wc hi).2.2.2.2.1 b
  | cfgPct b => exact (execOp_inv_simple c w self wc hi).2.2.2.2.2 b
  | new k sp => exact execOp_inv_new c w self wc k sp hi
  | newCyclic k sp body selfw => exact execOp_inv_newCyclic c w self wc k sp body selfw hi
  | clone r k => exact execOp_inv_clone c w self wc r k hc hi hself
  | drop k => exact execOp_inv_drop c w self wc k hi
  | setf n s r => exact execOp_inv_setf c w self wc n s r hc hi hself
  | movef n s k => exact execOp_inv_movef c w self wc n s k hi
  | clrf n s => exact execOp_inv_clrf c w self wc n s hi
  | takef n s k => exact execOp_inv_takef c w self wc n s k hi
  | getf n s k => exact execOp_inv_getf c w self wc n s k hc hi hself
  | markAlive r => exact execOp_inv_markAlive c w self wc r hi
  | finAgain k => exact execOp_inv_finAgain c w self wc k hi
  | unwrap k => exact execOp_inv_unwrap c w self wc k hf hi
  | down r k => exact execOp_inv_down c w self wc r k hi
  | up ws k => exact execOp_inv_up c w self wc ws k hi
  | wclone ws k => exact execOp_inv_wclone c w self wc ws k hi
  | wdrop k => exact execOp_inv_wdrop c w self wc k hi
  | wnew k => exact execOp_inv_wnew c w self wc k hi
  | setw n i ws => exact execOp_inv_setw c w self wc n i ws hi
  | clrw n i => exact execOp_inv_clrw c w self wc n i hi
  | reg n script k cap => exact execOp_inv_reg c w self wc n script k cap hc hi hself
  | clean k => exact execOp_inv_clean c w self wc k hi
  | cdrop k => exact execOp_inv_cdrop c w self wc k hi
  | collect => exact execOp_inv_collect c w self wc hi
  | cloneN r n => exact execOp_inv_cloneN c w self wc r n hc hi hself
  | dropN r n => exact execOp_inv_dropN c w self wc r n hi
  | downN r n => exact execOp_inv_downN c w self wc r n hi
  | wdropN r n => exact execOp_inv_wdropN c w self wc r n hi

end RustCc
