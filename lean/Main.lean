import RustCcModel.Model.Protocol
import RustCcModel.Model.Bits
import RustCcModel.Model.Shapes
import RustCcModel.Model.Layout
import RustCcModel.Model.Derive
import RustCcModel.Model.Lists
import Std.Data.HashMap
open RustCc

structure DState where
  cfg : Cfg := {}
  scripts : List (Nat × List Op) := []
  nH : Nat := 6
  nW : Nat := 4
  nK : Nat := 4
  world : World := {}
  running : Bool := false

def kv (t : String) : Option (String × String) :=
  match t.splitOn "=" with
  | [a, b] => some (a, b)
  | _ => none

def buildScripts (l : List (Nat × List Op)) : Array (List Op) :=
  let n := l.foldl (fun m (i, _) => max m (i + 1)) 1
  l.foldl (fun (a : Array (List Op)) (i, ops) => a.setIfInBounds i ops) (Array.replicate n [])

def handle (st : DState) (line : String) : DState × Option String :=
  let toks := splitToks line
  match toks with
  | [] => (st, none)
  | "#" :: _ => (st, none)
  | "program" :: name => ({ cfg := { passCap := st.cfg.passCap, defaultThr := st.cfg.defaultThr, rcMax := st.cfg.rcMax, weakMax := st.cfg.weakMax, tcInit := st.cfg.tcInit } }, some s!"== {" ".intercalate name}")
  | "consts" :: rest =>
    let c := rest.foldl (fun (c : Cfg) t =>
      match kv t with
      | some ("passcap", v) => { c with passCap := v.toNat?.getD c.passCap }
      | some ("thr", v) => { c with defaultThr := v.toNat?.getD c.defaultThr }
      | some ("rcmax", v) => { c with rcMax := v.toNat?.getD c.rcMax }
      | some ("weakmax", v) => { c with weakMax := v.toNat?.getD c.weakMax }
      | some ("tcinit", v) => { c with tcInit := v.toNat?.getD c.tcInit }
      | _ => c) st.cfg
    ({ st with cfg := c }, none)
  | "feat" :: rest =>
    let c := rest.foldl (fun (c : Cfg) t =>
      match kv t with
      | some ("fin", v) => { c with fin := v = "1" }
      | some ("weak", v) => { c with weak := v = "1" }
      | some ("clean", v) => { c with clean := v = "1" }
      | some ("auto", v) => { c with auto := v = "1" }
      | _ => c) st.cfg
    ({ st with cfg := c }, none)
  | "sizes" :: rest =>
    let c := rest.foldl (fun (c : Cfg) t =>
      match kv t with
      | some ("node", v) => { c with nodeSize := v.toNat?.getD 0 }
      | some ("map", v) => { c with mapSize := v.toNat?.getD 0 }
      | _ => c) st.cfg
    ({ st with cfg := c }, none)
  | ["tables", a, b, d] =>
    ({ st with nH := a.toNat?.getD 6, nW := b.toNat?.getD 4, nK := d.toNat?.getD 4 }, none)
  | "script" :: i :: body =>
    match i.toNat?, parseScript body with
    | some i, some ops => ({ st with scripts := (i, ops) :: st.scripts }, none)
    | _, _ => (st, some "bad-script")
  | ["begin"] =>
    let c := { st.cfg with scripts := buildScripts st.scripts }
    ({ st with cfg := c, world := World.init c st.nH st.nW st.nK, running := true }, none)
  | ["end"] => ({ st with running := false }, some "-- end")
  | _ =>
    if !st.running then (st, some "bad-header")
    else match parseOp toks with
      | none => (st, some "bad-op")
      | some op =>
        let w := execTopC st.cfg 2000000 st.world op
        let fuelOut := if !w.stack.isEmpty ∧ w.mode = .running then " !fuel" else ""
        ({ st with world := w }, some (observe st.cfg w ++ fuelOut))

partial def loop (h : IO.FS.Stream) (out : IO.FS.Stream) (st : DState) : IO Unit := do
  let line ← h.getLine
  if line.isEmpty then return ()
  let (st', o) := handle st line
  match o with
  | some s => out.putStrLn s
  | none => pure ()
  loop h out st'

def b01' (b : Bool) : String := if b then "1" else "0"

/-- The table of every counter-word operation on every 16-bit word, in the harness' format. -/
def wordsTable (out : IO.FS.Stream) : IO Unit := do
  let reserved := fun (w : Nat) => w % Bits.M == Bits.M - 1
  let cline := fun (name : String) (w nw : Nat) (failed : Bool) =>
    s!"{name} {w} {nw} {b01' failed} {Bits.rc nw} {b01' (Bits.finalized nw)} {b01' (Bits.hasMeta nw)}"
  let cops : List (String × (Nat → Nat × Bool)) := [
    ("g", fun c => (c, false)),
    ("ic", fun c => let r := Bits.incrCounter c; (r.1, !r.2)),
    ("dc", fun c => let r := Bits.decrCounter c; (r.1, !r.2)),
    ("sf1", fun c => (Bits.setFinalized c true, false)),
    ("sf0", fun c => (Bits.setFinalized c false, false)),
    ("sm1", fun c => (Bits.setHasMeta c true, false)),
    ("sm0", fun c => (Bits.setHasMeta c false, false))]
  for (name, f) in cops do
    for w in List.range 65536 do
      if !reserved w then
        let (nw, failed) := f w
        out.putStrLn (cline name w nw failed)
  let tline := fun (name : String) (w nw : Nat) (failed : Bool) =>
    let tc := if Bits.dropped nw then "r" else toString (Bits.tc nw)
    s!"{name} {w} {nw} {b01' failed} {tc} {Bits.mark nw} {b01' (Bits.dropped nw)} {b01' (Bits.mark nw < 2)} {b01' (Bits.mark nw ≥ 2)}"
  let tops : List (String × Bool × (Nat → Nat × Bool)) := [
    ("gt", false, fun t => (t, false)),
    ("it", true, fun t => let r := Bits.incrTracing t; (r.1, !r.2)),
    ("rt", true, fun t => (Bits.resetTracing t, false)),
    ("sd1", false, fun t => (Bits.setDropped t true, false)),
    ("sd0", false, fun t => (Bits.setDropped t false, false)),
    ("m0", false, fun t => (Bits.setMark t 0, false)),
    ("m1", false, fun t => (Bits.setMark t 1, false)),
    ("m2", false, fun t => (Bits.setMark t 2, false)),
    ("m3", false, fun t => (Bits.setMark t 3, false))]
  for (name, skip, f) in tops do
    for w in List.range 65536 do
      if !(skip && reserved w) then
        let (nw, failed) := f w
        out.putStrLn (tline name w nw failed)
  let wops : List (String × (Nat → Nat × Bool)) := [
    ("gw", fun m => (m, false)),
    ("iw", fun m => let r := Bits.incrWeak m; (r.1, !r.2)),
    ("dw", fun m => let r := Bits.decrWeak m; (r.1, !r.2)),
    ("sa1", fun m => (Bits.setAccessible m true, false)),
    ("sa0", fun m => (Bits.setAccessible m false, false))]
  for (name, f) in wops do
    for w in List.range 65536 do
      let (nw, failed) := f w
      out.putStrLn s!"{name} {w} {nw} {b01' failed} {Bits.weak nw} {b01' (Bits.accessible nw)}"
  out.putStrLn s!"new {Consts.initTracing} {Consts.initCounter} {Consts.initCounterFinalized} {Consts.weakInitAccessible} {Consts.weakInit}"

/-- `adjust` / `should` lines, as the harness' `policy` mode. -/
partial def policyLoop (h out : IO.FS.Stream) : IO Unit := do
  let line ← h.getLine
  if line.isEmpty then return ()
  match splitToks line with
  | ["adjust", thr, bits, alloc] =>
    match thr.toNat?, parseHex bits, alloc.toNat? with
    | some thr, some bits, some alloc =>
      out.putStrLn (toString (Policy.adjustF Consts.defaultThr (Policy.fuelFor alloc thr) alloc bits thr))
    | _, _, _ => out.putStrLn "bad"
  | ["should", auto, thr, bt, alloc, buffered] =>
    match thr.toNat?, alloc.toNat?, buffered.toNat? with
    | some thr, some alloc, some buffered =>
      let bt := if bt = "none" then none else bt.toNat?.bind fun n => if n = 0 then none else some n
      out.putStrLn (b01' (Policy.shouldCollect (auto = "1") alloc thr buffered bt))
    | _, _, _ => out.putStrLn "bad"
  | _ => out.putStrLn "bad"
  policyLoop h out

/-! Shape descriptors: `name` or `name(arg,...)`; `cc` leaves are numbered in order of appearance. -/
open Shapes in
mutual
partial def parseShape (cs : List Char) (next : Nat) : Option (Shape × List Char × Nat) :=
  let (nameCs, rest) := cs.span fun c => c.isAlphanum
  let name := String.ofList nameCs
  match rest with
  | '(' :: rest' =>
    match parseArgs rest' next [] with
    | some (args, rest'', next') =>
      let mk : Option Shape := match name, args with
        | "tuple", l => some (.tuple l) | "arr", l => some (.arr l) | "slice", l => some (.slice l) | "vec", l => some (.vec l)
        | "box", [x] => some (.box x) | "some", [x] => some (.some x) | "ok", [x] => some (.ok x) | "err", [x] => some (.err x)
        | "cell0", [x] => some (.cell false x) | "cell1", [x] => some (.cell true x) | "cell2", [x] => some (.cellShared x) | "md", [x] => some (.md x) | "aus", [x] => some (.aus x)
        | _, _ => none
      mk.map fun s => (s, rest'', next')
    | none => none
  | _ =>
    match name with
    | "cc" => some (.cc next, rest, next + 1)
    | "weak" => some (.weak, rest, next) | "cleaner" => some (.cleaner, rest, next) | "cleanable" => some (.cleanable, rest, next)
    | "phantom" => some (.phantom, rest, next) | "prim" => some (.prim, rest, next) | "none" => some (.none, rest, next)
    | "arr" => some (.arr [], rest, next) | "vec" => some (.vec [], rest, next) | "slice" => some (.slice [], rest, next)
    | _ => none
partial def parseArgs (cs : List Char) (next : Nat) (acc : List Shapes.Shape) : Option (List Shapes.Shape × List Char × Nat) :=
  match cs with
  | ')' :: rest => some (acc.reverse, rest, next)
  | ',' :: rest => parseArgs rest next acc
  | _ =>
    match parseShape cs next with
    | some (s, rest, next') => parseArgs rest next' (s :: acc)
    | none => none
end

partial def shapesLoop (h out : IO.FS.Stream) : IO Unit := do
  let line ← h.getLine
  if line.isEmpty then return ()
  match splitToks line with
  | ["shape", desc, n] =>
    match parseShape desc.toList 0, n.toNat? with
    | some (s, [], _), some n =>
      let v := Shapes.visit s
      let f := Shapes.finVisit s
      let counts := (List.range n).map fun i => toString (v.count i)
      let fins := (List.range n).map fun i => toString (f.count i)
      out.putStrLn s!"shape {desc} counts={",".intercalate counts} fin={",".intercalate fins}"
    | _, _ => out.putStrLn s!"shape {desc} bad-descriptor"
  | ["layout", name, hdrEnd, hdrAlign, size, align] =>
    match hdrEnd.toNat?, hdrAlign.toNat?, size.toNat?, align.toNat? with
    | some he, some ha, some sz, some al =>
      out.putStrLn s!"layout {name} size={sz} align={al} box={Layout.boxSize he ha sz al},{Layout.boxAlign ha al} off={Layout.offset he al} ok"
    | _, _, _, _ => out.putStrLn "bad"
  | "derive" :: id :: variant :: rest =>
    -- `derive <id> <variant index> <variant ignored 0|1> <field ignored flags e.g. 0100>`
    match variant.toNat?, rest with
    | some _, [vi, flags] =>
      let fields := flags.toList.filter (fun c => c = '0' ∨ c = '1') |>.map fun c => ({ ignored := c = '1' } : Derive.Field)
      let v : Derive.Variant := { ignored := vi = "1", fields := fields }
      let vis := Derive.visitedOf v
      let counts := (List.range fields.length).map fun i => toString (vis.count i)
      out.putStrLn s!"derive {id} counts={",".intercalate counts}"
    | _, _ => out.putStrLn "bad"
  | _ => out.putStrLn "bad"
  shapesLoop h out

/-! `cover` mode: the same programs, but every micro-step is tallied by machine mode, kind of the frame on top of the
stack and (for a script frame) kind of the operation it is about to execute: which branches of the model the generated
programs actually reach. -/
namespace Cover

def ctorName (s : String) : String :=
  let t := (s.splitOn " ").headD ""
  let t := (t.splitOn "\n").headD ""
  ((t.splitOn ".").getLast?.getD t).replace "(" ""

def tagOf (w : World) : String :=
  let m := match w.mode with
    | .running => "run" | .unwinding => "unw" | .aborted => "abt" | .stuck => "stk"
  match w.stack with
  | [] => m ++ "/-"
  | f :: _ =>
    match f with
    | .script (op :: _) _ _ _ => m ++ "/script:" ++ ctorName (toString (repr op))
    | .script [] _ _ _ => m ++ "/script:end"
    | .collectPass => m ++ "/collectPass"
    | .finalizePass _ r _ _ => m ++ "/finalizePass" ++ (if r.isEmpty then ":end" else "")
    | .deallocDrop _ r _ => m ++ "/deallocDrop" ++ (if r.isEmpty then ":end" else "")
    | _ => m ++ "/" ++ ctorName (toString (repr f))

partial def runCov (c : Cfg) (fuel : Nat) (n : Nat) (w : World) (acc : Std.HashMap String Nat) : World × Std.HashMap String Nat :=
  if fuel = 0 then (w, acc)
  else if w.stack.isEmpty ∧ w.mode = .running then (w, acc)
  else if w.mode = .aborted ∨ w.mode = .stuck then (w, acc)
  else
    let t := tagOf w
    let acc := acc.insert t (acc.getD t 0 + 1)
    let w' := step c w
    if n ≥ 16 then runCov c (fuel - 1) 0 w'.compact acc else runCov c (fuel - 1) (n + 1) w' acc

def execTopCov (c : Cfg) (fuel : Nat) (w : World) (op : Op) (acc : Std.HashMap String Nat) : World × Std.HashMap String Nat :=
  if w.mode = .aborted ∨ w.mode = .stuck then (w, acc)
  else
    let r := runCov c fuel 0 { w with stack := [.script [op] none none true, .catchTop], events := [], ret := .ok } acc
    (r.1.compact, r.2)

end Cover

partial def coverLoop (h : IO.FS.Stream) (out : IO.FS.Stream) (st : DState) (acc : Std.HashMap String Nat) : IO Unit := do
  let line ← h.getLine
  if line.isEmpty then
    let l := acc.toList.toArray.qsort (fun a b => a.1 < b.1)
    for (k, v) in l do
      out.putStrLn s!"cov {k} {v}"
    return ()
  let toks := splitToks line
  let isOp := st.running && (match toks with | [] => false | "#" :: _ => false | ["end"] => false | "program" :: _ => false | _ => true)
  if isOp then
    match parseOp toks with
    | some op =>
      let (w, acc') := Cover.execTopCov st.cfg 2000000 st.world op acc
      coverLoop h out { st with world := w } acc'
    | none => coverLoop h out st acc
  else
    let (st', _) := handle st line
    coverLoop h out st' acc

/-! `lists` mode: one case per line, `<n> <op> <op> …`; the answer is the state after each operation. -/
namespace ListsDriver
open RustCc.Lists

def parseLOp (t : String) : Option LOp :=
  let parts := t.splitOn ":"
  let idx (s : String) : Option Bool := if s.endsWith "0" then some false else if s.endsWith "1" then some true else none
  match parts with
  | [o] =>
    if o = "pf" then some .pcRemoveFirst else if o = "qp" then some .qPoll else if o = "qd" then some .qDrop
    else if o.startsWith "lf" then (idx o).map .llRemoveFirst
    else if o.startsWith "ld" then (idx o).map .llDrop
    else if o.startsWith "ps" then (idx o).map .pcSwap
    else none
  | [o, x] =>
    match x.toNat? with
    | some x =>
      if o = "pa" then some (.pcAdd x) else if o = "pr" then some (.pcRemove x) else if o = "qa" then some (.qAdd x)
      else if o = "it" then some (.incTc x)
      else if o.startsWith "la" then (idx o).map fun i => .llAdd i x
      else if o.startsWith "lr" then (idx o).map fun i => .llRemove i x
      else if o.startsWith "pm" then (idx o).map fun i => .pcAppend i x
      else none
    | none => none
  | [o, x, m] =>
    match x.toNat?, m.toNat? with
    | some x, some m => if o = "mk" then some (.mark x m) else none
    | _, _ => none
  | _ => none

def showList (l : List Nat) : String := ",".intercalate (l.map toString)
def showOpt : Option Nat → String
  | some x => toString x
  | none => "-"

def showState (w : LW) : String :=
  let ids := List.range w.n
  let lk := ids.map fun x => s!"{showOpt (w.mem x).next}/{showOpt (w.mem x).prev}"
  let mk := ids.map fun x => toString (w.mem x).mark
  let tc := ids.map fun x => toString (w.mem x).tc
  let b := fun (o : Option Nat) => if o.isNone then "1" else "0"
  let r := match w.ret with
    | none => "."
    | some none => "none"
    | some (some x) => toString x
  s!"l0={showList (w.members w.l0)} l1={showList (w.members w.l1)} p={showList (w.members w.pc.first)}#{w.pc.size} q={showList (w.members w.q.first)} e={b w.l0}{b w.l1}{b w.pc.first}{b w.q.first} lk={" ".intercalate lk} mk={showList ((ids.map fun x => (w.mem x).mark))} tc={showList ((ids.map fun x => (w.mem x).tc))} r={r}"

def runCase (toks : List String) : String :=
  match toks with
  | n :: ops =>
    match n.toNat? with
    | some n =>
      let rec go (w : LW) (ops : List String) (acc : List String) : List String :=
        match ops with
        | [] => acc.reverse
        | t :: rest =>
          match parseLOp t with
          | some op =>
            let w' := w.step op
            go w' rest (showState w' :: acc)
          | none => ("bad-op" :: acc).reverse
      " | ".intercalate (go { n := n } ops [])
    | none => "bad"
  | [] => "bad"

end ListsDriver

partial def listsLoop (h out : IO.FS.Stream) : IO Unit := do
  let line ← h.getLine
  if line.isEmpty then return ()
  out.putStrLn (ListsDriver.runCase (splitToks line))
  listsLoop h out

def main (args : List String) : IO Unit := do
  let stdin ← IO.getStdin
  let stdout ← IO.getStdout
  match args with
  | ["words"] => wordsTable stdout
  | ["policy"] => policyLoop stdin stdout
  | ["shapes"] => shapesLoop stdin stdout
  | ["lists"] => listsLoop stdin stdout
  | ["cover"] => coverLoop stdin stdout {} {}
  | _ => loop stdin stdout {}
