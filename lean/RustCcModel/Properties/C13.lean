import RustCcModel.Proofs.CtlSimp
import RustCcModel.Proofs.InvReach
/-! # C13 — `try_unwrap` returns the value iff the pointer is unique, running no destructor -/
namespace RustCc.C13
open World

/-- Idle flags: outside collections, finalizers and destructors. -/
def idle (c : Cfg) (w : World) : Prop := w.collecting = false ∧ w.dropping = false ∧ (c.fin = true → w.finalizing = false)

/-- Not unique ⇒ `Err`, with the very same world (same pointer in the same table entry; counts,
buffer membership and finalization state unchanged). -/
theorem unwrap_err_of_not_unique (c : Cfg) (w : World) (self wc : Option Id) (k : Nat) (x : Id)
    (hk : w.getH k = some x) (hrc : (w.heap x).rc ≠ 1) :
    execOp c w self wc (.unwrap k) = { w with ret := .err } := by
  simp only [execOp, hk]
  rw [if_pos (Or.inl hrc)]

/-- The world `try_unwrap` produces when it succeeds. -/
def unwrapped (c : Cfg) (w : World) (k : Nat) (x : Id) : World :=
  let w1 := ((w.setH k none).removeFromList x).upd x fun o => { o with valLive := false }
  let w2 := if c.weak then w1.dropMetadata x else w1
  ({ (w2.freeBox x) with ret := .unwrapped x }).push (.dropMoved x)

/-- Unique and idle ⇒ `Ok`. -/
theorem unwrap_ok_of_unique (c : Cfg) (w : World) (self wc : Option Id) (k : Nat) (x : Id)
    (hk : w.getH k = some x) (hrc : (w.heap x).rc = 1) (hidle : idle c w) :
    execOp c w self wc (.unwrap k) = unwrapped c w k x := by
  obtain ⟨h1, h2, h3⟩ := hidle
  simp only [execOp, hk, unwrapped]
  have : ¬ ((w.heap x).rc ≠ 1 ∨ w.collecting = true ∨ w.dropping = true ∨ (c.fin = true ∧ w.finalizing = true)) := by
    intro h; rcases h with h | h | h | ⟨h, h'⟩
    · exact h hrc
    · simp [h1] at h
    · simp [h2] at h
    · simp [h3 h] at h'
  rw [if_neg this]

/-- On success: the result names the object; its allocation is released and its value is no longer
in the box; the object has left the buffer (given the buffer invariant I2 for `x`: it is marked
`PossibleCycles` exactly when it is a member, and the buffer has no duplicates); the next thing the
machine does is let the caller drop the moved value. -/
theorem unwrapped_spec (c : Cfg) (w : World) (k : Nat) (x : Id)
    (hn : w.pc.Nodup) (hmark : (w.heap x).mark = .pc ↔ x ∈ w.pc) :
    (unwrapped c w k x).ret = .unwrapped x ∧
    ((unwrapped c w k x).heap x).boxLive = false ∧ ((unwrapped c w k x).heap x).valLive = false ∧
    x ∉ (unwrapped c w k x).pc ∧ (unwrapped c w k x).stack = .dropMoved x :: w.stack := by
  have hpc : (unwrapped c w k x).pc = ((w.setH k none).removeFromList x).pc := by
    unfold unwrapped; simp only [push_pc]
    split
    · unfold dropMetadata; split
      · split <;> rfl
      · rfl
    · rfl
  refine ⟨rfl, ?_, ?_, ?_, ?_⟩
  · unfold unwrapped; simp only [push_heap]
    split
    · unfold dropMetadata; split
      · split <;> simp [freeBox, upd, emit, updMeta]
      · simp [freeBox, upd, emit]
    · simp [freeBox, upd, emit]
  · unfold unwrapped; simp only [push_heap]
    split
    · unfold dropMetadata; split
      · split <;> simp [freeBox, upd, emit, updMeta]
      · simp [freeBox, upd, emit]
    · simp [freeBox, upd, emit]
  · rw [hpc]
    unfold removeFromList
    split
    · simp only [upd_pc, setH]
      exact List.Nodup.not_mem_erase hn
    · rename_i hm
      simp only [setH] at hm ⊢
      exact fun h => hm (hmark.2 h)
  · unfold unwrapped; simp only [push_stack]; split <;> simp

/-- No finalizer and no destructor runs inside `try_unwrap`: the only events it appends are the release of
the side record (if nobody else holds it) and of the box. -/
theorem unwrapped_events (c : Cfg) (w : World) (k : Nat) (x : Id) :
    (unwrapped c w k x).events = w.events ++ [.free x] ∨
    (unwrapped c w k x).events = w.events ++ [.metaFree x, .free x] := by
  have hr : ((w.setH k none).removeFromList x).events = w.events := by
    unfold removeFromList; split <;> rfl
  unfold unwrapped
  simp only [push_events]
  split
  · unfold dropMetadata; split
    · split
      · right; simp [freeBox, emit, hr]
      · left; simp [freeBox, emit, hr]
    · left; simp [freeBox, emit, hr]
  · left; simp [freeBox, emit, hr]

/-- **In every reachable world** the buffer invariant the statement above assumes holds (`Proofs/InvReach.lean`), so a
successful `try_unwrap` releases the box, moves the value out, leaves the buffer and pushes nothing but the caller's
drop of the moved value — after any history of operations, callbacks, collections and caught panics. -/
theorem unwrapped_spec_reachable (c : Cfg) (nH nW nK : Nat) (w : World) (h : Reachable c nH nW nK w) (k : Nat) (x : Id) :
    (unwrapped c w k x).ret = .unwrapped x ∧
    ((unwrapped c w k x).heap x).boxLive = false ∧ ((unwrapped c w k x).heap x).valLive = false ∧
    x ∉ (unwrapped c w k x).pc ∧ (unwrapped c w k x).stack = .dropMoved x :: w.stack := by
  have hi := (reachable_all c nH nW nK w h).inv
  exact unwrapped_spec c w k x hi.oi.pcNodup (hi.oi.mPc x)

/-- A unique pointer (count 1) never belongs to an object a frame is destroying, and with the collector idle it is in no
collector list: `try_unwrap`'s claim "cc is unique, is not inside any list" (the `SAFETY` comment in cc.rs) holds whenever
its guard passes. -/
theorem unique_not_owned (c : Cfg) (nH nW nK : Nat) (w : World) (h : Reachable c nH nW nK w) (x : Id)
    (hr : (w.heap x).rc = 1) (hc : w.collecting = false) :
    x ∉ zeroed w.stack ∧ x ∉ listed w.stack ∧ (w.heap x).boxLive = true := by
  have ha := reachable_all c nH nW nK w h
  have hne : (w.cores x).rc ≠ 0 := by show (w.heap x).rc ≠ 0; omega
  refine ⟨OI.not_mem_Z_of_rc ha.inv.oi hne, ?_, OI.boxLive_of_rc ha.inv.oi hne⟩
  rw [listed_nil_of_idle ha.flags ha.inv.wf hc]; simp

end RustCc.C13
