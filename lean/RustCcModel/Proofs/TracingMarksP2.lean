import RustCcModel.Proofs.TracingMarksP1
/-! Mark invariant of the root-tracing phase (`M2`) and its consequences for a panic in that phase. -/
namespace RustCc
open T1

/-- Marks during root tracing; `R` = roots not yet popped. -/
structure M2 (s : TS) (R : List Nat) : Prop where
  mList : ∀ x, (s.h x).mark = .inList ↔ (x ∈ s.nonroot ∨ x ∈ R)
  mQueue : ∀ x, (s.h x).mark = .inQueue ↔ x ∈ s.queue
  noPc : ∀ x, (s.h x).mark ≠ .pc
  nrNodup : s.nonroot.Nodup
  qNodup : s.queue.Nodup
  rNodup : R.Nodup
  rootsOk : ∀ x ∈ R, (s.h x).rc ≠ (s.h x).tc
  nrOk : ∀ x ∈ s.nonroot, (s.h x).rc = (s.h x).tc

theorem rootEdge_pos (s : TS) (y : Nat) (hc : (s.h y).mark = .inList ∧ (s.h y).rc = (s.h y).tc) :
    rootEdge s y = { s with h := s.h.set y { s.h y with mark := .inQueue },
                            nonroot := s.nonroot.erase y, queue := s.queue ++ [y] } := by
  unfold rootEdge; rw [if_pos hc]

theorem rootEdge_neg (s : TS) (y : Nat) (hc : ¬ ((s.h y).mark = .inList ∧ (s.h y).rc = (s.h y).tc)) :
    rootEdge s y = s := by
  unfold rootEdge; rw [if_neg hc]

theorem rootEdge_M2 (s : TS) (R : List Nat) (y : Nat) (hinv : M2 s R) : M2 (rootEdge s y) R := by
  by_cases hc : (s.h y).mark = .inList ∧ (s.h y).rc = (s.h y).tc
  · rw [rootEdge_pos s y hc]
    have hyR : y ∉ R := fun h => hinv.rootsOk y h hc.2
    have hyn : y ∈ s.nonroot := by
      rcases (hinv.mList y).1 hc.1 with h | h
      · exact h
      · exact absurd h hyR
    have hyq : y ∉ s.queue := fun h => by
      have := (hinv.mQueue y).2 h
      rw [hc.1] at this; cases this
    refine ⟨?_, ?_, ?_, hinv.nrNodup.erase y, ?_, hinv.rNodup, ?_, ?_⟩
    · intro x
      simp only []
      rw [setMark_mark]
      by_cases hx : x = y
      · rw [if_pos hx]
        constructor
        · intro h; cases h
        · rintro (h | h)
          · rw [hx] at h; exact absurd h (List.Nodup.not_mem_erase hinv.nrNodup)
          · rw [hx] at h; exact absurd h hyR
      · rw [if_neg hx, List.mem_erase_of_ne hx]; exact hinv.mList x
    · intro x
      simp only []
      rw [setMark_mark]
      by_cases hx : x = y
      · rw [if_pos hx]
        exact ⟨fun _ => List.mem_append_right _ (by simp [hx]), fun _ => rfl⟩
      · rw [if_neg hx, hinv.mQueue x]
        constructor
        · exact fun h => List.mem_append_left _ h
        · intro h
          rcases List.mem_append.1 h with h | h
          · exact h
          · simp at h; exact absurd h hx
    · intro x
      simp only []
      rw [setMark_mark]
      by_cases hx : x = y
      · rw [if_pos hx]; intro h; cases h
      · rw [if_neg hx]; exact hinv.noPc x
    · exact List.nodup_append.2 ⟨hinv.qNodup, by simp, by
        intro a ha b hb; simp at hb; subst hb; exact fun e => hyq (e ▸ ha)⟩
    · intro x hx
      simp only []
      rw [setMark_rc, setMark_tc]; exact hinv.rootsOk x hx
    · intro x hx
      simp only [] at hx ⊢
      rw [setMark_rc, setMark_tc]; exact hinv.nrOk x (List.mem_of_mem_erase hx)
  · rw [rootEdge_neg s y hc]; exact hinv

theorem foldl_rootEdge_M2 (R : List Nat) : ∀ (l : List Nat) (s : TS), M2 s R → M2 (l.foldl rootEdge s) R
  | [], _, h => h
  | y :: l, s, h => foldl_rootEdge_M2 R l (rootEdge s y) (rootEdge_M2 s R y h)

theorem rootEdge_mark_non (s : TS) (y x : Nat) (h : (s.h x).mark = .non) :
    ((rootEdge s y).h x).mark = .non := by
  by_cases hc : (s.h y).mark = .inList ∧ (s.h y).rc = (s.h y).tc
  · rw [rootEdge_pos s y hc]
    simp only []
    rw [setMark_mark]
    have hxy : x ≠ y := fun e => by rw [e, hc.1] at h; cases h
    rw [if_neg hxy]; exact h
  · rw [rootEdge_neg s y hc]; exact h

theorem foldl_rootEdge_mark_non (x : Nat) : ∀ (l : List Nat) (s : TS), (s.h x).mark = .non →
    ((l.foldl rootEdge s).h x).mark = .non
  | [], _, h => h
  | y :: l, s, h => foldl_rootEdge_mark_non x l (rootEdge s y) (rootEdge_mark_non s y x h)

/-- Un-marking an object that is already unmarked changes nothing that matters. -/
theorem unmark_M2_non (s : TS) (R : List Nat) (x : Nat) (hinv : M2 s R) (hm : (s.h x).mark = .non) :
    M2 (unmark s x) R := by
  have hmk : ∀ z, ((unmark s x).h z).mark = (s.h z).mark := by
    intro z; rw [unmark_mark]
    by_cases hz : z = x
    · rw [if_pos hz, hz, hm]
    · rw [if_neg hz]
  exact ⟨fun z => by rw [hmk]; exact hinv.mList z, fun z => by rw [hmk]; exact hinv.mQueue z,
    fun z => by rw [hmk]; exact hinv.noPc z, hinv.nrNodup, hinv.qNodup, hinv.rNodup,
    fun z hz => by rw [unmark_rc, unmark_tc]; exact hinv.rootsOk z hz,
    fun z hz => by rw [unmark_rc, unmark_tc]; exact hinv.nrOk z hz⟩

/-- Popping the head of the remaining roots. -/
theorem unmark_M2_root (s : TS) (R : List Nat) (x : Nat) (hinv : M2 s (x :: R)) : M2 (unmark s x) R := by
  have hxr : (s.h x).rc ≠ (s.h x).tc := hinv.rootsOk x (by simp)
  have hxn : x ∉ s.nonroot := fun h => hxr (hinv.nrOk x h)
  have hxR : x ∉ R := (List.nodup_cons.1 hinv.rNodup).1
  have hml : (s.h x).mark = .inList := (hinv.mList x).2 (Or.inr (by simp))
  have hxq : x ∉ s.queue := fun h => by
    have := (hinv.mQueue x).2 h
    rw [hml] at this; cases this
  refine ⟨?_, ?_, ?_, hinv.nrNodup, hinv.qNodup, (List.nodup_cons.1 hinv.rNodup).2, ?_, ?_⟩
  · intro z
    rw [unmark_mark]
    by_cases hz : z = x
    · rw [if_pos hz]
      constructor
      · intro h; cases h
      · rintro (h | h)
        · rw [hz] at h; exact absurd h hxn
        · rw [hz] at h; exact absurd h hxR
    · rw [if_neg hz, hinv.mList z]
      constructor
      · rintro (h | h)
        · exact Or.inl h
        · rcases List.mem_cons.1 h with e | e
          · exact absurd e hz
          · exact Or.inr e
      · rintro (h | h)
        · exact Or.inl h
        · exact Or.inr (List.mem_cons_of_mem _ h)
  · intro z
    rw [unmark_mark]
    by_cases hz : z = x
    · rw [if_pos hz]
      constructor
      · intro h; cases h
      · intro h; rw [hz] at h; exact absurd h hxq
    · rw [if_neg hz]; exact hinv.mQueue z
  · intro z
    rw [unmark_mark]
    by_cases hz : z = x
    · rw [if_pos hz]; intro h; cases h
    · rw [if_neg hz]; exact hinv.noPc z
  · intro z hz
    rw [unmark_rc, unmark_tc]; exact hinv.rootsOk z (List.mem_cons_of_mem _ hz)
  · intro z hz
    rw [unmark_rc, unmark_tc]; exact hinv.nrOk z hz

/-- Polling the head of the queue. -/
theorem unmark_M2_queue (s : TS) (R : List Nat) (x : Nat) (q : List Nat) (hq : s.queue = x :: q)
    (hinv : M2 s R) : M2 (unmark { s with queue := q } x) R := by
  have hmq : (s.h x).mark = .inQueue := (hinv.mQueue x).2 (by simp [hq])
  have hxn : x ∉ s.nonroot := fun h => by
    have := (hinv.mList x).2 (Or.inl h)
    rw [hmq] at this; cases this
  have hxR : x ∉ R := fun h => by
    have := (hinv.mList x).2 (Or.inr h)
    rw [hmq] at this; cases this
  have hnodup : (x :: q).Nodup := hq ▸ hinv.qNodup
  have hxq : x ∉ q := (List.nodup_cons.1 hnodup).1
  refine ⟨?_, ?_, ?_, hinv.nrNodup, (List.nodup_cons.1 hnodup).2, hinv.rNodup, ?_, ?_⟩
  · intro z
    rw [unmark_mark]
    by_cases hz : z = x
    · rw [if_pos hz]
      constructor
      · intro h; cases h
      · rintro (h | h)
        · rw [hz] at h; exact absurd h hxn
        · rw [hz] at h; exact absurd h hxR
    · rw [if_neg hz]; exact hinv.mList z
  · intro z
    rw [unmark_mark]
    by_cases hz : z = x
    · rw [if_pos hz]
      constructor
      · intro h; cases h
      · intro h; rw [hz] at h; exact absurd h hxq
    · rw [if_neg hz]
      have := hinv.mQueue z
      rw [hq] at this
      constructor
      · intro h
        rcases List.mem_cons.1 (this.1 h) with e | e
        · exact absurd e hz
        · exact e
      · intro h; exact this.2 (List.mem_cons_of_mem _ h)
  · intro z
    rw [unmark_mark]
    by_cases hz : z = x
    · rw [if_pos hz]; intro h; cases h
    · rw [if_neg hz]; exact hinv.noPc z
  · intro z hz
    rw [unmark_rc, unmark_tc]; exact hinv.rootsOk z hz
  · intro z hz
    rw [unmark_rc, unmark_tc]; exact hinv.nrOk z hz

theorem rootObj_M2_root (s : TS) (R : List Nat) (x : Nat) (hinv : M2 s (x :: R)) : M2 (rootObj s x) R := by
  unfold rootObj
  exact foldl_rootEdge_M2 R _ _ (unmark_M2_root s R x hinv)

theorem rootObj_M2_queue (s : TS) (R : List Nat) (x : Nat) (q : List Nat) (hq : s.queue = x :: q)
    (hinv : M2 s R) : M2 (rootObj { s with queue := q } x) R := by
  unfold rootObj
  exact foldl_rootEdge_M2 R _ _ (unmark_M2_queue s R x q hq hinv)

theorem rootsList_M2 : ∀ (R : List Nat) (s : TS), M2 s R → M2 (rootsList s R) []
  | [], _, h => h
  | x :: R, s, h => rootsList_M2 R (rootObj s x) (rootObj_M2_root s R x h)

theorem rootsQueue_M2 (R : List Nat) : ∀ (fuel : Nat) (s : TS), M2 s R → M2 (rootsQueue fuel s) R
  | 0, _, h => h
  | fuel + 1, s, h => by
    unfold rootsQueue
    cases hq : s.queue with
    | nil => exact h
    | cons x q =>
      simp only []
      exact rootsQueue_M2 R fuel _ (rootObj_M2_queue s R x q hq h)

/-- The state at the end of the counting phase starts the root phase. -/
theorem M2_init (s1 : TS) (done : List Nat) (hinv : P1 s1 done none [] []) :
    M2 { s1 with root := [] } s1.root := by
  refine ⟨?_, ?_, ?_, hinv.nonrootNodup, hinv.queueNodup, hinv.rootNodup,
    fun x hx => ((hinv.root x).1 hx).2, fun x hx => ((hinv.nonroot x).1 hx).2⟩
  · intro x
    simp only []
    rw [hinv.mList x]
    constructor
    · intro hd
      by_cases hr : (s1.h x).rc = (s1.h x).tc
      · exact Or.inl ((hinv.nonroot x).2 ⟨hd, hr⟩)
      · exact Or.inr ((hinv.root x).2 ⟨hd, hr⟩)
    · rintro (h | h)
      · exact ((hinv.nonroot x).1 h).1
      · exact ((hinv.root x).1 h).1
  · intro x
    simp only []
    rw [hinv.mQueue x]
    constructor
    · rintro (h | h)
      · exact h
      · cases h
    · exact Or.inl
  · intro x h
    have := (hinv.mPc x).1 h
    cases this

/-! ### Panic during the root phase -/

theorem root_panic (t : TS) (R : List Nat) (x : Nat) (l : List Nat) (hinv : M2 t R)
    (hm : (t.h x).mark = .non) : M2 (unmark (l.foldl rootEdge t) x) R :=
  unmark_M2_non _ R x (foldl_rootEdge_M2 R l t hinv) (foldl_rootEdge_mark_non x l t hm)

theorem M2_PanOK (h0 : Heap) (t : TS) (R : List Nat) (hinv : M2 t R) (hfr : Fr h0 t.h) :
    PanOK h0 t R [] := by
  refine ⟨hfr, ?_, ?_, ?_⟩
  · intro z
    constructor
    · intro h; exact absurd h (hinv.noPc z)
    · intro h; cases h
  · intro z
    cases hm : (t.h z).mark with
    | non => exact Or.inr (Or.inl rfl)
    | pc => exact absurd hm (hinv.noPc z)
    | inList =>
      rcases (hinv.mList z).1 hm with h | h
      · exact Or.inr (Or.inr (memA.2 (Or.inr (Or.inr (Or.inr h)))))
      · exact Or.inr (Or.inr (memA.2 (Or.inr (Or.inr (Or.inl h)))))
    | inQueue => exact Or.inr (Or.inr (memA.2 (Or.inl ((hinv.mQueue z).1 hm))))
  · intro z hz; cases hz

theorem rootsListF_true (h0 : Heap) (user : Nat → Bool) :
    ∀ (R : List Nat) (s : FS), M2 s.ts R → Fr h0 s.ts.h →
      ∀ (s' : FS) (rest : List Nat), rootsListF user s R = (true, s', rest) → PanOK h0 s'.ts rest []
  | [], s, _, _, s', rest, h => by
    unfold rootsListF at h
    injection h with h1 _
    cases h1
  | x :: R, s, hinv, hfr, s', rest, h => by
    unfold rootsListF at h
    generalize hr : rootObjF user s x = r at h
    obtain ⟨b, s1⟩ := r
    cases b
    · simp only at h
      have e := rootObjF_false user s s1 x hr
      have hstep : M2 s1.ts R := by rw [e]; exact rootObj_M2_root s.ts R x hinv
      have hfr1 : Fr h0 s1.ts.h := by rw [e]; exact hfr.trans (rootObj_Fr s.ts x)
      exact rootsListF_true h0 user R s1 hstep hfr1 s' rest h
    · simp only at h
      injection h with _ h2
      injection h2 with h3 h4
      subst h3; subst h4
      obtain ⟨j, e⟩ := rootObjF_true user s s1 x hr
      rw [e]
      apply M2_PanOK
      · exact root_panic _ R x _ (unmark_M2_root s.ts R x hinv) (by rw [unmark_mark, if_pos rfl])
      · exact hfr.trans ((unmark_Fr s.ts x).trans ((foldl_Fr rootEdge rootEdge_Fr _ _).trans (unmark_Fr _ x)))

theorem rootsQueueF_true (h0 : Heap) (user : Nat → Bool) (R : List Nat) :
    ∀ (fuel : Nat) (s : FS), M2 s.ts R → Fr h0 s.ts.h →
      ∀ (s' : FS), rootsQueueF user fuel s = (true, s') → PanOK h0 s'.ts R []
  | 0, s, _, _, s', h => by
    unfold rootsQueueF at h
    injection h with h1 _
    cases h1
  | fuel + 1, s, hinv, hfr, s', h => by
    unfold rootsQueueF at h
    cases hq : s.ts.queue with
    | nil =>
      simp only [hq] at h
      injection h with h1 _
      cases h1
    | cons x q =>
      simp only [hq] at h
      generalize hr : rootObjF user { s with ts := { s.ts with queue := q } } x = r at h
      obtain ⟨b, s1⟩ := r
      cases b
      · simp only at h
        have e := rootObjF_false user _ s1 x hr
        have hstep : M2 s1.ts R := by rw [e]; exact rootObj_M2_queue s.ts R x q hq hinv
        have hfr1 : Fr h0 s1.ts.h := by
          rw [e]; exact Fr.trans (b := s.ts.h) hfr (rootObj_Fr { s.ts with queue := q } x)
        exact rootsQueueF_true h0 user R fuel s1 hstep hfr1 s' h
      · simp only at h
        injection h with _ h2
        subst h2
        obtain ⟨j, e⟩ := rootObjF_true user _ s1 x hr
        rw [e]
        apply M2_PanOK
        · exact root_panic _ R x _ (unmark_M2_queue s.ts R x q hq hinv) (by rw [unmark_mark, if_pos rfl])
        · exact Fr.trans (b := s.ts.h) hfr
            ((unmark_Fr { s.ts with queue := q } x).trans
              ((foldl_Fr rootEdge rootEdge_Fr _ _).trans (unmark_Fr _ x)))

end RustCc
