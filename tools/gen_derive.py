#!/usr/bin/env python3
"""Generates harness/src/derive_gen.rs: random type definitions using #[derive(Trace, Finalize)] with probe
leaves in every field, and the matching expectation lines for the Lean model (Derive.visitedOf)."""
import random
import sys

FIELD_TYPES = [
    ("Cc<DLeaf>", "{leaf}"),
    ("Option<Cc<DLeaf>>", "Some({leaf})"),
    ("Vec<Cc<DLeaf>>", "vec![{leaf}]"),
    ("Box<Cc<DLeaf>>", "Box::new({leaf})"),
    ("RefCell<Option<Cc<DLeaf>>>", "RefCell::new(Some({leaf}))"),
    ("(u32, Cc<DLeaf>)", "(7u32, {leaf})"),
    # field types without drop glue (`needs_drop` is false) that still own a `Cc`: the macro must trace them like any other
    ("ManuallyDrop<Cc<DLeaf>>", "ManuallyDrop::new({leaf})"),
    ("Option<ManuallyDrop<Cc<DLeaf>>>", "Some(ManuallyDrop::new({leaf}))"),
    ("[ManuallyDrop<Cc<DLeaf>>; 1]", "[ManuallyDrop::new({leaf})]"),
]


NOISE = ['#[allow(unused)] ', '#[doc = "d"] ', '#[rust_cc()] ', '#[cfg(all())] ']


def gen(seed, n):
    r = random.Random(seed)

    def ig_attr(ig):
        """The attributes in front of a field / variant: the `ignore` marker (if any) in any position among other attributes."""
        pre = "".join(r.choice(NOISE) for _ in range(r.choice([0, 0, 0, 1, 2])))
        post = "".join(r.choice(NOISE) for _ in range(r.choice([0, 0, 1, 1, 2])))
        if ig:
            return pre + "#[rust_cc(ignore)] " + post
        return pre if r.random() < 0.5 else ""
    defs = []
    cases = []   # (case id, type expr to build, number of fields)
    model = []   # lines for the model
    for i in range(n):
        name = "T%d" % i
        kind = r.choice(["named", "tuple", "unit", "enum", "enum", "generic"])
        no_drop = r.random() < 0.25
        attrs = "#[derive(Trace, Finalize)]\n" + (r.choice(["", "#[allow(dead_code)]\n"]) + "#[rust_cc(unsafe_no_drop)]\n" +
                                                  r.choice(["", "#[allow(dead_code)]\n", "#[doc = \"d\"]\n"]) if no_drop else "")

        def fields(nf):
            out = []
            for j in range(nf):
                ty, ctor = r.choice(FIELD_TYPES)
                out.append((r.random() < 0.35, ty, ctor))
            return out

        def decl_named(fs):
            return "{ " + ", ".join(ig_attr(ig) + "f%d: %s" % (j, ty) for j, (ig, ty, _) in enumerate(fs)) + " }"

        def decl_tuple(fs):
            return "(" + ", ".join(ig_attr(ig) + ty for (ig, ty, _) in fs) + ")"

        def build_named(fs):
            return "{ " + ", ".join("f%d: %s" % (j, ctor.format(leaf="mk()")) for j, (_, _, ctor) in enumerate(fs)) + " }"

        def build_tuple(fs):
            return "(" + ", ".join(ctor.format(leaf="mk()") for (_, _, ctor) in fs) + ")"

        def flags(fs):
            return "".join("1" if ig else "0" for ig, _, _ in fs) or "-"

        if kind == "named":
            fs = fields(r.randrange(0, 9))
            defs.append(attrs + "struct %s %s" % (name, decl_named(fs)))
            cases.append(("t%d" % i, "%s %s" % (name, build_named(fs)), len(fs), no_drop))
            model.append("derive t%d 0 0 %s" % (i, flags(fs)))
        elif kind == "tuple":
            fs = fields(r.randrange(1, 9))
            defs.append(attrs + "struct %s%s;" % (name, decl_tuple(fs)))
            cases.append(("t%d" % i, "%s%s" % (name, build_tuple(fs)), len(fs), no_drop))
            model.append("derive t%d 0 0 %s" % (i, flags(fs)))
        elif kind == "unit":
            defs.append(attrs + "struct %s;" % name)
            cases.append(("t%d" % i, name, 0, no_drop))
            model.append("derive t%d 0 0 -" % i)
        elif kind == "generic":
            fs = fields(r.randrange(0, 5))
            ig = r.random() < 0.3
            body = "{ " + ig_attr(ig) + "g: X" + "".join(", " + ig_attr(g) + "f%d: %s" % (j, ty) for j, (g, ty, _) in enumerate(fs)) + " }"
            defs.append(attrs + "struct %s<X: Trace + 'static> %s" % (name, body))
            build = "%s::<Cc<DLeaf>> { g: mk()%s }" % (name, "".join(", f%d: %s" % (j, ctor.format(leaf="mk()")) for j, (_, _, ctor) in enumerate(fs)))
            cases.append(("t%d" % i, build, len(fs) + 1, no_drop))
            model.append("derive t%d 0 0 %s" % (i, ("1" if ig else "0") + "".join("1" if g else "0" for g, _, _ in fs)))
        else:
            nv = r.randrange(1, 5)
            vdecl = []
            vs = []
            for v in range(nv):
                vk = r.choice(["named", "tuple", "unit"])
                vig = r.random() < 0.3
                fs = [] if vk == "unit" else fields(r.randrange(1, 5))
                pre = ig_attr(vig)
                if vk == "named":
                    vdecl.append(pre + "V%d %s" % (v, decl_named(fs)))
                elif vk == "tuple":
                    vdecl.append(pre + "V%d%s" % (v, decl_tuple(fs)))
                else:
                    vdecl.append(pre + "V%d" % v)
                vs.append((vk, vig, fs))
            defs.append(attrs + "#[allow(dead_code)]\nenum %s { %s }" % (name, ", ".join(vdecl)))
            for v, (vk, vig, fs) in enumerate(vs):
                if vk == "named":
                    b = "%s::V%d %s" % (name, v, build_named(fs))
                elif vk == "tuple":
                    b = "%s::V%d%s" % (name, v, build_tuple(fs))
                else:
                    b = "%s::V%d" % (name, v)
                cases.append(("t%dv%d" % (i, v), b, len(fs), no_drop))
                model.append("derive t%dv%d %d %d %s" % (i, v, v, 1 if vig else 0, flags(fs)))
    src = ["// GENERATED by tools/gen_derive.py (seed %d). Do not edit." % seed,
           "#![allow(dead_code, non_snake_case, unused_parens, clippy::all)]",
           "use std::cell::RefCell;", "use std::mem::ManuallyDrop;", "use rust_cc::{collect_cycles, Cc, Context, Finalize, Trace};",
           "use rust_cc::verif_hooks as hooks;", "",
           "pub struct DLeaf;", "unsafe impl Trace for DLeaf { fn trace(&self, _: &mut Context<'_>) {} }", "impl Finalize for DLeaf {}", ""]
    src += [d + "\n" for d in defs]
    src.append("""
fn tc_of(cc: &Cc<DLeaf>) -> u16 {
    let s = hooks::snapshot(cc);
    hooks::counter_apply(s.tracing_word, s.counter_word, None).tracing_counter
}

fn case<T: Trace + 'static>(id: &str, guarded: bool, build: impl FnOnce(&mut dyn FnMut() -> Cc<DLeaf>) -> T) {
    // without `unsafe_no_drop` the macro emits an (empty) `Drop` impl, whatever the shape of the type
    if guarded && !std::mem::needs_drop::<T>() {
        println!("dguard {} missing", id);
    }
    let leaves: RefCell<Vec<Vec<Cc<DLeaf>>>> = RefCell::new(Vec::new());
    let mut mk = || {
        let l = Cc::new(DLeaf);
        leaves.borrow_mut().push(vec![l.clone(), l.clone(), l.clone()]);
        l
    };
    let v = build(&mut mk);
    let holder = Cc::new(v);
    for l in leaves.borrow().iter() {
        let x = l[0].clone();
        drop(x);
    }
    let h2 = holder.clone();
    drop(h2);
    collect_cycles();
    // derive(Finalize) must be an empty finalizer: calling it changes nothing
    Finalize::finalize(&*holder);
    let counts: Vec<String> = leaves.borrow().iter().map(|l| tc_of(&l[0]).to_string()).collect();
    println!("derive {} counts={}", id, counts.join(","));
    drop(holder);
    drop(leaves);
    collect_cycles();
}

pub fn run() {""")
    for cid, build, nf, nd in cases:
        b = build.replace("mk()", "mk()")
        src.append("    case(\"%s\", %s, |mk| %s);" % (cid, "false" if nd else "true", b))
    src.append("    println!(\"derive done\");\n}")
    return "\n".join(src) + "\n", model


if __name__ == "__main__":
    seed = int(sys.argv[1]) if len(sys.argv) > 1 else 0
    n = int(sys.argv[2]) if len(sys.argv) > 2 else 40
    out = sys.argv[3] if len(sys.argv) > 3 else "/verif/harness/src/derive_gen.rs"
    src, model = gen(seed, n)
    open(out, "w").write(src)
    print("\n".join(model))
