import RustCcModel.Proofs.WeakInv
/-! **Weak counts are exact** in every history — caught panics included — in which no step loses a `Weak`
(`World.wclean`: the harness table entry a `Cleanable` is stored in is free, the weak field `new_cyclic` stores the closure's
`Weak` in is empty). -/
namespace RustCc
open World

/-- Histories in which no `Weak` is lost. -/
inductive ReachableW (c : Cfg) (nH nW nK : Nat) : World → Prop
  | init : ReachableW c nH nW nK (World.init c nH nW nK)
  | step (w) : ReachableW c nH nW nK w → w.wclean → ReachableW c nH nW nK (step c w)
  | top (w) (op : Op) : ReachableW c nH nW nK w → w.stack = [] → w.mode = .running →
      ReachableW c nH nW nK { w with stack := [.script [op] none none true, .catchTop], events := [], ret := .ok }

theorem ReachableW.reachable {c : Cfg} {nH nW nK : Nat} {w : World} (h : ReachableW c nH nW nK w) : Reachable c nH nW nK w := by
  induction h with
  | init => exact .init
  | step w _ _ ih => exact .step w ih
  | top w op _ hs hm ih => exact .top w op ih hs hm

theorem reachableW_weakH {c : Cfg} {nH nW nK : Nat} {w : World} (h : ReachableW c nH nW nK w) : WeakH true w [] := by
  induction h with
  | init =>
    have h0 := (init_weakOk c nH nW nK).toH
    refine ⟨h0.ok, h0.fresh, fun _ x => ?_⟩
    show (0 : Nat) ≤ _
    exact Nat.zero_le _
  | step w hr hcl ih =>
    have ha := reachable_all c nH nW nK w hr.reachable
    have hwk := reachable_weakOk c nH nW nK w hr.reachable
    exact step_weakH c w ha ih hwk.wcs (fun _ => hcl)
  | top w op hr hs hm ih =>
    refine WeakH.neutral ih rfl rfl rfl rfl rfl ?_ (fun _ => rfl) (fun _ => rfl) (fun _ => rfl)
    rw [hs]; rfl

/-- **`weak_count()` equals the number of `Weak` pointers that exist.** -/
theorem reachableW_weak_exact {c : Cfg} {nH nW nK : Nat} {w : World} (h : ReachableW c nH nW nK w) (x : Id) :
    (w.metas x).weak = wrefs w x := by
  have hw := reachableW_weakH h
  have h1 := (hw.ok x).le
  have h2 := hw.ge rfl x
  simp only [List.count_nil, Nat.add_zero] at h1 h2
  omega

end RustCc
