import RustCcModel.T1.Final
namespace T1

/-! ## Termination: with fuel = number of live objects both queues drain -/

theorem countQueue_drains (h0 : Heap) (objs : List Nat) (ctx : Ctx h0 (fun u => u ∈ objs))
    (fuel : Nat) : ∀ (s : TS) (done : List Nat), P1x h0 (fun u => u ∈ objs) s done [] →
      objs.length ≤ done.length + fuel → (countQueue fuel s).queue = [] := by
  induction fuel with
  | zero =>
    intro s done h hlen
    unfold countQueue
    cases hq : s.queue with
    | nil => rfl
    | cons x q =>
      exfalso
      have hmx : (s.h x).mark = .inQueue := (h.inv.mQueue x).2 (Or.inl (by simp [hq]))
      have hnd : x ∉ done := fun hd => by have := (h.inv.mList x).2 hd; simp [hmx] at this
      have hn : (x :: done).Nodup := List.nodup_cons.2 ⟨hnd, h.doneNodup⟩
      have hsub : (x :: done) ⊆ objs := by
        intro u hu
        rcases List.mem_cons.1 hu with e | e
        · exact e ▸ h.queueL x (by simp [hq])
        · exact h.doneL u e
      have := hn.length_le_of_subset hsub
      simp at this; omega
  | succ n ih =>
    intro s done h hlen
    unfold countQueue
    cases hq : s.queue with
    | nil => simp only []; exact hq
    | cons x q =>
      simp only []
      exact ih _ (x :: done) (step_queue h0 _ ctx s done x q [] hq h) (by simp; omega)

theorem rootEdge_measure (h1 : Heap) (done : List Nat) (s : TS) (V : List Nat) (cur : Option Nat)
    (seen R : List Nat) (y : Nat) (hinv : P2 h1 done s V cur seen R) :
    (rootEdge s y).nonroot.length + (rootEdge s y).queue.length = s.nonroot.length + s.queue.length := by
  unfold rootEdge
  by_cases hc : (s.h y).mark = .inList ∧ (s.h y).rc = (s.h y).tc
  · rw [if_pos hc]
    have hyn : y ∈ s.nonroot := (hinv.nr y).2 hc
    have hpos : 1 ≤ s.nonroot.length := List.length_pos_of_mem hyn
    simp only [List.length_append, List.length_cons, List.length_nil]
    rw [List.length_erase_of_mem hyn]; omega
  · rw [if_neg hc]

theorem foldl_rootEdge_measure (h1 : Heap) (done : List Nat) (V : List Nat) (cur : Option Nat)
    (R : List Nat) (ys : List Nat) : ∀ (s : TS) (seen : List Nat), P2 h1 done s V cur seen R →
      (ys.foldl rootEdge s).nonroot.length + (ys.foldl rootEdge s).queue.length
        = s.nonroot.length + s.queue.length := by
  induction ys with
  | nil => intro s seen _; rfl
  | cons y ys ih =>
    intro s seen h
    simp only [List.foldl_cons]
    rw [ih (rootEdge s y) (seen ++ [y]) (rootEdge_P2 h1 done s V cur seen R y h)]
    exact rootEdge_measure h1 done s V cur seen R y h

theorem rootObj_measure (h1 : Heap) (done : List Nat) (s : TS) (V R : List Nat) (x : Nat)
    (hinv : P2 h1 done s V (some x) [] R) :
    (rootObj s x).nonroot.length + (rootObj s x).queue.length = s.nonroot.length + s.queue.length := by
  unfold rootObj
  rw [foldl_rootEdge_measure h1 done V (some x) R _ (unmark s x) [] (unmark_P2 h1 done s V R x hinv)]
  rfl

theorem rootsQueue_drains (h1 : Heap) (done : List Nat) (fuel : Nat) :
    ∀ (s : TS) (V : List Nat), P2 h1 done s V none [] [] →
      s.nonroot.length + s.queue.length ≤ fuel → (rootsQueue fuel s).queue = [] := by
  induction fuel with
  | zero =>
    intro s V _ hlen
    unfold rootsQueue
    have : s.queue.length = 0 := by omega
    exact List.length_eq_zero_iff.1 this
  | succ n ih =>
    intro s V h hlen
    unfold rootsQueue
    cases hq : s.queue with
    | nil => simp only []; exact hq
    | cons x q =>
      simp only []
      have hnodup : (x :: q).Nodup := hq ▸ h.queueNodup
      have hxq := h.queueOk x (by simp [hq])
      -- the focused state, as in `step_rqueue`
      have hfocus : P2 h1 done { s with queue := q } V (some x) [] [] := by
        refine ⟨h.frame, h.nr, h.nrNodup, h.vis, h.seenOk, ?_, h.rootsOk,
          fun z hz => h.queueOk z (by rw [hq]; exact List.mem_cons_of_mem _ hz),
          (List.nodup_cons.1 hnodup).2, ?_⟩
        · intro z hz
          rcases h.cover z hz with h' | h' | h' | h' | h'
          · exact Or.inl h'
          · simp at h'
          · rw [hq] at h'
            rcases List.mem_cons.1 h' with h' | h'
            · exact Or.inr (Or.inr (Or.inr (Or.inl (by rw [h']))))
            · exact Or.inr (Or.inr (Or.inl h'))
          · simp at h'
          · exact Or.inr (Or.inr (Or.inr (Or.inr h')))
        · intro c hc; simp at hc; subst hc
          refine ⟨(List.nodup_cons.1 hnodup).1, fun hm => ?_⟩
          have := ((h.nr _).1 hm).1
          rw [hxq.1] at this; cases this
      have hm := rootObj_measure h1 done _ V [] x hfocus
      apply ih _ (x :: V) (rootObj_P2_of_focus h1 done _ V [] x hfocus)
      rw [hm]; simp only
      rw [hq] at hlen; simp at hlen; omega

end T1
