import RustCcModel.Proofs.LifeHist
/-! `executions_count()` increases by exactly one for every collection actually started: in every step the counter grows by
the number of `collect` events the step emits. -/
namespace RustCc
open World
open T1 (Mark)

/-- Number of `collect` events (collections started) in a log. -/
def cEv : List Event → Nat
  | [] => 0
  | e :: r => match e with
    | .collect => cEv r + 1
    | _ => cEv r

@[simp] theorem cEv_nil : cEv [] = 0 := rfl
@[simp] theorem cEv_cons_collect (r : List Event) : cEv (.collect :: r) = cEv r + 1 := rfl
@[simp] theorem cEv_cons_action (x t) (r : List Event) : cEv (.action x t :: r) = cEv r := rfl
@[simp] theorem cEv_cons_drop (x t) (r : List Event) : cEv (.drop x t :: r) = cEv r := rfl
@[simp] theorem cEv_cons_finalize (x t) (r : List Event) : cEv (.finalize x t :: r) = cEv r := rfl
@[simp] theorem cEv_cons_free (x) (r : List Event) : cEv (.free x :: r) = cEv r := rfl
@[simp] theorem cEv_cons_alloc (x s) (r : List Event) : cEv (.alloc x s :: r) = cEv r := rfl
@[simp] theorem cEv_cons_metaFree (x) (r : List Event) : cEv (.metaFree x :: r) = cEv r := rfl
@[simp] theorem cEv_cons_moved (x) (r : List Event) : cEv (.moved x :: r) = cEv r := rfl
@[simp] theorem cEv_cons_trace (x t) (r : List Event) : cEv (.trace x t :: r) = cEv r := rfl
@[simp] theorem cEv_cons_panic (r : List Event) : cEv (.panic :: r) = cEv r := rfl
@[simp] theorem cEv_append (a b : List Event) : cEv (a ++ b) = cEv a + cEv b := by
  induction a with
  | nil => simp
  | cons e r ih => cases e <;> simp [ih] <;> omega
@[simp] theorem cEv_map_trace (l : List Id) (t : Bool) : cEv (l.map fun x => Event.trace x t) = 0 := by
  induction l with
  | nil => rfl
  | cons a r ih => simp [ih]
@[simp] theorem cEv_dmEv (w : World) (x : Id) : cEv (dmEv w x) = 0 := by
  unfold dmEv; split <;> (try rfl) <;> split <;> rfl
@[simp] theorem cEv_wdEv (w : World) (r : WRef) : cEv (wdEv w r) = 0 := by
  unfold wdEv; cases r with
  | dangling => rfl
  | to x => simp only; split <;> rfl

/-- `execs − (collect events so far in the current log)` does not change. -/
def ExOk (w w' : World) : Prop := w'.execs + cEv w.events = w.execs + cEv w'.events

@[simp] theorem removeFromList_execs (w : World) (x : Id) : (w.removeFromList x).execs = w.execs := by
  unfold removeFromList; split <;> rfl
@[simp] theorem addToList_execs (w : World) (x : Id) : (w.addToList x).execs = w.execs := by
  unfold addToList; split <;> (try rfl) <;> split <;> rfl
@[simp] theorem dropMetadata_execs (w : World) (x : Id) : (w.dropMetadata x).execs = w.execs := by
  unfold dropMetadata; split <;> (try rfl) <;> split <;> rfl
@[simp] theorem freeBox_execs (w : World) (x : Id) : (w.freeBox x).execs = w.execs := rfl
@[simp] theorem weakDrop_execs (w : World) (r : WRef) : (w.weakDrop r).execs = w.execs := by
  unfold weakDrop; cases r with
  | dangling => rfl
  | to y => simp only; split <;> rfl
@[simp] theorem initMeta_execs (w : World) (x : Id) : (w.initMeta x).execs = w.execs := by
  unfold initMeta; split <;> rfl
@[simp] theorem cloneOk_execs (w : World) (x : Id) : (w.cloneOk x).execs = w.execs := by
  unfold cloneOk; rw [removeFromList_execs]; rfl
@[simp] theorem raise_execs (w : World) : w.raise.execs = w.execs := by unfold raise; split <;> rfl
@[simp] theorem raiseLogged_execs (w : World) : w.raiseLogged.execs = w.execs := by unfold raiseLogged; rw [raise_execs]; rfl
@[simp] theorem updAll_execs (w : World) (l : List Id) (f : Obj → Obj) : (w.updAll l f).execs = w.execs := by
  unfold updAll
  induction l generalizing w with
  | nil => rfl
  | cons x r ih => simp only [List.foldl_cons]; rw [ih]; rfl
@[simp] theorem fromT1_execs (w : World) (h : T1.Heap) : (fromT1 w h).execs = w.execs := rfl
theorem putH_execs (w : World) (k : Nat) (y : Id) : (w.putH k y).execs = w.execs := by unfold putH; split <;> rfl
@[simp] theorem startCollect_execs (w : World) : w.startCollect.execs = w.execs + 1 := rfl
theorem foldl_free_execs (c : Cfg) (N : List Id) : ∀ w : World,
    (N.foldl (fun w x => (if c.weak then w.dropMetadata x else w).freeBox x) w).execs = w.execs := by
  induction N with
  | nil => intro w; rfl
  | cons y r ih => intro w; simp only [List.foldl_cons]; rw [ih]; split <;> simp
theorem foldl_free_cEv (c : Cfg) (N : List Id) : ∀ w : World,
    cEv (N.foldl (fun w x => (if c.weak then w.dropMetadata x else w).freeBox x) w).events = cEv w.events := by
  induction N with
  | nil => intro w; rfl
  | cons y r ih => intro w; simp only [List.foldl_cons]; rw [ih]; split <;> simp [freeBox_events]

macro "ex_tac" : tactic => `(tactic| (
  unfold ExOk
  simp [freeBox_events, putH_events, putH_execs, foldl_free_execs, foldl_free_cEv, World.setH, World.setW, World.setK, World.push, World.emit,
    World.upd, World.updMeta]
  try omega))

set_option maxHeartbeats 8000000 in
theorem execOp_exOk (c : Cfg) (w : World) (self wc : Option Id) (op : Op) : ExOk w (execOp c w self wc op) := by
  cases op with
  | fault kind n j => cases kind <;> rfl
  | _ =>
    simp only [execOp]
    repeat' split
    all_goals first | rfl | ex_tac

set_option maxHeartbeats 16000000 in
theorem stepFrame_exOk (c : Cfg) (w : World) (f : Frame) : ExOk w (stepFrame c w f) := by
  cases f with
  | script ops self wc top =>
    cases ops with
    | nil => simp only [stepFrame]; rfl
    | cons op ops =>
      simp only [stepFrame]
      have := execOp_exOk c (w.push (.script ops self wc top)) self wc op
      split
      · exact this
      · exact this
  | collectPass =>
    simp only [stepFrame, startDealloc]
    generalize tracePhasesF _ _ _ _ _ = r
    obtain ⟨res, fault⟩ := r
    cases res <;> simp only [] <;> repeat' split
    all_goals ex_tac
  | deallocDrop N r oD =>
    cases r with
    | cons y r => simp only [stepFrame]; repeat' split
                  all_goals ex_tac
    | nil =>
      simp only [stepFrame]
      split
      · ex_tac
      · unfold ExOk; simp [foldl_free_execs, foldl_free_cEv]
  | regInsert owner script k cap =>
    simp only [stepFrame]
    split
    · rfl
    · split
      · ex_tac
      · cases hfr : (w.heap _).afree <;> simp only [] <;> split <;> ex_tac
  | _ =>
    simp only [stepFrame, destroyLast, startDealloc]
    repeat' split
    all_goals first | rfl | ex_tac

theorem unwindFrame_exOk (c : Cfg) (w : World) (f : Frame) : ExOk w (unwindFrame c w f) := by
  cases f <;> simp only [unwindFrame] <;> repeat' split
  all_goals first | rfl | ex_tac

/-- **Every micro-step**: the executions counter grows by exactly the number of collections the step starts. -/
theorem step_execs (c : Cfg) (w : World) : (step c w).execs = w.execs + cEv (newEvents w (step c w)) := by
  have key : ExOk w (step c w) := by
    unfold step
    split
    · rfl
    · rfl
    · split
      · rfl
      · exact unwindFrame_exOk c _ _
    · split
      · rfl
      · exact stepFrame_exOk c _ _
  unfold ExOk at key
  have h := step_events_eq c w
  rw [h, cEv_append] at key
  omega

end RustCc
