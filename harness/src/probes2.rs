//! Probes for C17 (built-in Trace/Finalize impls), C20 (layout, forwarding impls), C19 (thread teardown).

use std::cell::{Cell, RefCell};
use std::mem::ManuallyDrop;
use std::panic::AssertUnwindSafe;

use rust_cc::verif_hooks as hooks;
use rust_cc::{collect_cycles, Cc, Context, Finalize, Trace};

use crate::alloc;

// ------------------------------------------------------------------------------------------------ C17

pub struct Leaf {
    fin: Cell<usize>,
}
unsafe impl Trace for Leaf {
    fn trace(&self, _: &mut Context<'_>) {}
}
impl Finalize for Leaf {
    fn finalize(&self) {
        self.fin.set(self.fin.get() + 1);
    }
}

/// Container element: owns one `Cc` (trace reports are counted on the leaf) and counts `finalize` calls.
pub struct Elem {
    cc: Cc<Leaf>,
    fin: std::rc::Rc<Cell<usize>>,
}
unsafe impl Trace for Elem {
    fn trace(&self, ctx: &mut Context<'_>) {
        self.cc.trace(ctx);
    }
}
impl Finalize for Elem {
    fn finalize(&self) {
        self.fin.set(self.fin.get() + 1);
    }
}

struct Holder<C: Trace + 'static> {
    c: C,
}
unsafe impl<C: Trace + 'static> Trace for Holder<C> {
    fn trace(&self, ctx: &mut Context<'_>) {
        self.c.trace(ctx);
    }
}
impl<C: Trace + 'static> Finalize for Holder<C> {
    fn finalize(&self) {
        self.c.finalize();
    }
}

struct Leaves {
    v: RefCell<Vec<Vec<Cc<Leaf>>>>,
    f: RefCell<Vec<std::rc::Rc<Cell<usize>>>>,
}
impl Leaves {
    fn mk(&self) -> Elem {
        let l = Cc::new(Leaf { fin: Cell::new(0) });
        // extra handles: a leaf must stay a root even if an impl reported it several times
        let extra = vec![l.clone(), l.clone(), l.clone(), l.clone()];
        self.v.borrow_mut().push(extra);
        let fin = std::rc::Rc::new(Cell::new(0));
        self.f.borrow_mut().push(fin.clone());
        Elem { cc: l, fin }
    }
}

fn tc_of(cc: &Cc<Leaf>) -> u16 {
    let s = hooks::snapshot(cc);
    hooks::counter_apply(s.tracing_word, s.counter_word, None).tracing_counter
}

/// Builds the container, traces it once through a collection, reports per-leaf trace counts and
/// per-leaf finalize counts. `with_borrow` may keep a `RefCell` borrowed during both.
fn probe<C: Trace + 'static>(desc: &str, build: impl FnOnce(&Leaves) -> C, with_borrow: impl FnOnce(&C, &mut dyn FnMut())) {
    let leaves = Leaves { v: RefCell::new(Vec::new()), f: RefCell::new(Vec::new()) };
    let c = build(&leaves);
    let holder = Cc::new(Holder { c });
    // buffer the leaves (their tracing counter is reset and then counts the reports), then the holder
    for l in leaves.v.borrow().iter() {
        let x = l[0].clone();
        drop(x);
    }
    let h2 = holder.clone();
    drop(h2);
    let mut run = || {
        collect_cycles();
        Finalize::finalize(&*holder);
    };
    with_borrow(&holder.c, &mut run);
    let counts: Vec<String> = leaves.v.borrow().iter().map(|l| tc_of(&l[0]).to_string()).collect();
    let fins: Vec<String> = leaves.f.borrow().iter().map(|f| f.get().to_string()).collect();
    println!("shape {} counts={} fin={}", desc, counts.join(","), fins.join(","));
    drop(holder);
    drop(leaves);
    collect_cycles();
}

fn plain<C>(_: &C, run: &mut dyn FnMut()) {
    run()
}

macro_rules! tuple_probe {
    ($desc:expr; $($x:ident),+) => {
        probe($desc, |l| { ($({ let $x = l.mk(); $x },)+) }, plain);
    };
}

fn array_probe<const N: usize>() {
    let inner: Vec<&str> = (0..N).map(|_| "cc").collect();
    probe(&format!("arr({})", inner.join(",")), |l| -> [Elem; N] { std::array::from_fn(|_| l.mk()) }, plain);
}

macro_rules! arrays {
    ($($n:literal)*) => { $( array_probe::<$n>(); )* };
}

/// Every outer container around one inner shape (two-level nestings, systematically).
fn outers<I: Trace + 'static>(idesc: &str, mk: &dyn Fn(&Leaves) -> I) {
    probe(&format!("tuple({})", idesc), |l| (mk(l),), plain);
    probe(&format!("tuple(prim,{})", idesc), |l| (1u8, mk(l)), plain);
    probe(&format!("tuple({},prim,{})", idesc, idesc), |l| (mk(l), 2u16, mk(l)), plain);
    probe(&format!("arr({})", idesc), |l| [mk(l)], plain);
    probe(&format!("arr({},{},{})", idesc, idesc, idesc), |l| [mk(l), mk(l), mk(l)], plain);
    probe(&format!("vec({},{})", idesc, idesc), |l| vec![mk(l), mk(l)], plain);
    probe(&format!("slice({},{})", idesc, idesc), |l| vec![mk(l), mk(l)].into_boxed_slice(), plain);
    probe(&format!("box({})", idesc), |l| Box::new(mk(l)), plain);
    probe(&format!("some({})", idesc), |l| Some(mk(l)), plain);
    probe(&format!("ok({})", idesc), |l| Ok::<I, u8>(mk(l)), plain);
    probe(&format!("err({})", idesc), |l| Err::<u8, I>(mk(l)), plain);
    probe(&format!("cell0({})", idesc), |l| RefCell::new(mk(l)), plain);
    probe(&format!("cell1({})", idesc), |l| RefCell::new(mk(l)), |c, run| {
        let _g = c.borrow_mut();
        run()
    });
    // a shared borrow alive: `Trace` (needs `try_borrow_mut`) reports nothing, `Finalize` (needs `try_borrow`) forwards
    probe(&format!("cell2({})", idesc), |l| RefCell::new(mk(l)), |c, run| {
        let _g = c.borrow();
        run()
    });
    probe(&format!("md({})", idesc), |l| ManuallyDrop::new(mk(l)), plain);
    probe(&format!("aus({})", idesc), |l| AssertUnwindSafe(mk(l)), plain);
}

pub fn containers() {
    outers("cc", &|l| l.mk());
    outers("tuple(cc,cc)", &|l| (l.mk(), l.mk()));
    outers("arr(cc,cc)", &|l| [l.mk(), l.mk()]);
    outers("vec(cc,cc)", &|l| vec![l.mk(), l.mk()]);
    outers("slice(cc)", &|l| vec![l.mk()].into_boxed_slice());
    outers("box(cc)", &|l| Box::new(l.mk()));
    outers("some(cc)", &|l| Some(l.mk()));
    outers("none", &|_| None::<Elem>);
    outers("ok(cc)", &|l| Ok::<Elem, Elem>(l.mk()));
    outers("err(cc)", &|l| Err::<Elem, Elem>(l.mk()));
    outers("cell0(cc)", &|l| RefCell::new(l.mk()));
    outers("md(cc)", &|l| ManuallyDrop::new(l.mk()));
    outers("aus(cc)", &|l| AssertUnwindSafe(l.mk()));
    outers("phantom", &|_| std::marker::PhantomData::<Cc<Leaf>>);
    outers("prim", &|_| 3u32);
    // three levels through the position most likely to be special-cased
    outers("vec(md(cc))", &|l| vec![ManuallyDrop::new(l.mk())]);
    outers("md(some(cc))", &|l| ManuallyDrop::new(Some(l.mk())));
    outers("some(vec(cc,cc))", &|l| Some(vec![l.mk(), l.mk()]));
    // tuples 1..12, every element a Cc
    tuple_probe!("tuple(cc)"; a);
    tuple_probe!("tuple(cc,cc)"; a, b);
    tuple_probe!("tuple(cc,cc,cc)"; a, b, c);
    tuple_probe!("tuple(cc,cc,cc,cc)"; a, b, c, d);
    tuple_probe!("tuple(cc,cc,cc,cc,cc)"; a, b, c, d, e);
    tuple_probe!("tuple(cc,cc,cc,cc,cc,cc)"; a, b, c, d, e, f);
    tuple_probe!("tuple(cc,cc,cc,cc,cc,cc,cc)"; a, b, c, d, e, f, g);
    tuple_probe!("tuple(cc,cc,cc,cc,cc,cc,cc,cc)"; a, b, c, d, e, f, g, h);
    tuple_probe!("tuple(cc,cc,cc,cc,cc,cc,cc,cc,cc)"; a, b, c, d, e, f, g, h, i);
    tuple_probe!("tuple(cc,cc,cc,cc,cc,cc,cc,cc,cc,cc)"; a, b, c, d, e, f, g, h, i, j);
    tuple_probe!("tuple(cc,cc,cc,cc,cc,cc,cc,cc,cc,cc,cc)"; a, b, c, d, e, f, g, h, i, j, k);
    tuple_probe!("tuple(cc,cc,cc,cc,cc,cc,cc,cc,cc,cc,cc,cc)"; a, b, c, d, e, f, g, h, i, j, k, m);
    // mixed tuples: a non-owning / primitive element at some position
    probe("tuple(prim,cc)", |l| (7u32, l.mk()), plain);
    probe("tuple(cc,prim,cc)", |l| (l.mk(), 7u32, l.mk()), plain);
    probe("tuple(cc,phantom,cc,prim)", |l| (l.mk(), std::marker::PhantomData::<Cc<Leaf>>, l.mk(), 1u8), plain);
    arrays!(0 1 2 3 4 5 6 7 8 9 10 11 12 13 14 15 16 17 18 19 20 21 22 23 24 25 26 27 28 29 30 31 32);
    for n in 0..7usize {
        let inner: Vec<&str> = (0..n).map(|_| "cc").collect();
        probe(&format!("vec({})", inner.join(",")), |l| (0..n).map(|_| l.mk()).collect::<Vec<_>>(), plain);
        probe(&format!("slice({})", inner.join(",")), |l| (0..n).map(|_| l.mk()).collect::<Vec<_>>().into_boxed_slice(), plain);
    }
    probe("box(cc)", |l| Box::new(l.mk()), plain);
    probe("some(cc)", |l| Some(l.mk()), plain);
    probe("none", |_| None::<Elem>, plain);
    probe("ok(cc)", |l| Ok::<Elem, Elem>(l.mk()), plain);
    probe("err(cc)", |l| Err::<Elem, Elem>(l.mk()), plain);
    probe("md(cc)", |l| ManuallyDrop::new(l.mk()), plain);
    probe("aus(cc)", |l| AssertUnwindSafe(l.mk()), plain);
    probe("cell0(cc)", |l| RefCell::new(l.mk()), plain);
    probe("cell1(cc)", |l| RefCell::new(l.mk()), |c, run| {
        let _g = c.borrow_mut();
        run()
    });
    probe("cell2(cc)", |l| RefCell::new(l.mk()), |c, run| {
        let _g = c.borrow();
        let _g2 = c.borrow();
        run()
    });
    probe("vec(cell2(cc),cell1(cc),cell0(cc))", |l| vec![RefCell::new(l.mk()), RefCell::new(l.mk()), RefCell::new(l.mk())], |c, run| {
        let _g = c[0].borrow();
        let _h = c[1].borrow_mut();
        run()
    });
    probe("cell2(vec(cc,cc))", |l| RefCell::new(vec![l.mk(), l.mk()]), |c, run| {
        let _g = c.borrow();
        run()
    });
    probe("phantom", |_| std::marker::PhantomData::<Cc<Leaf>>, plain);
    probe("prim", |_| 5u64, plain);
    // two-level nestings
    probe("vec(some(cc),none,some(cc))", |l| vec![Some(l.mk()), None, Some(l.mk())], plain);
    probe("some(box(cc))", |l| Some(Box::new(l.mk())), plain);
    probe("cell0(vec(cc,cc))", |l| RefCell::new(vec![l.mk(), l.mk()]), plain);
    probe("cell1(vec(cc,cc))", |l| RefCell::new(vec![l.mk(), l.mk()]), |c, run| {
        let _g = c.borrow_mut();
        run()
    });
    probe("tuple(cc,vec(cc,cc))", |l| (l.mk(), vec![l.mk(), l.mk()]), plain);
    probe("arr(some(cc),none,some(cc))", |l| [Some(l.mk()), None, Some(l.mk())], plain);
    probe("ok(vec(cc,cc))", |l| Ok::<Vec<Elem>, Elem>(vec![l.mk(), l.mk()]), plain);
    probe("err(cc)", |l| Err::<Vec<Elem>, Elem>(l.mk()), plain);
    probe("box(tuple(cc,cc))", |l| Box::new((l.mk(), l.mk())), plain);
    probe("cell0(some(cc))", |l| RefCell::new(Some(l.mk())), plain);
    probe("md(vec(cc))", |l| ManuallyDrop::new(vec![l.mk()]), plain);
    probe("some(cell0(cc))", |l| Some(RefCell::new(l.mk())), plain);
    probe("vec(cell0(cc),cell0(cc))", |l| vec![RefCell::new(l.mk()), RefCell::new(l.mk())], plain);
    probe("vec(cell1(cc),cell0(cc))", |l| vec![RefCell::new(l.mk()), RefCell::new(l.mk())], |c, run| {
        let _g = c[0].borrow_mut();
        run()
    });
    probe("aus(box(some(cc)))", |l| AssertUnwindSafe(Box::new(Some(l.mk()))), plain);
    probe("tuple(vec(cc),arr(cc,cc),some(cc))", |l| (vec![l.mk()], [l.mk(), l.mk()], Some(l.mk())), plain);
    #[cfg(feature = "weak")]
    {
        // a Weak reports nothing: the leaf it points to is created but owned elsewhere
        probe("tuple(cc,weak)", |l| {
            let a = l.mk();
            let w = a.cc.downgrade();
            (a, w)
        }, plain);
        probe("vec(weak)", |l| {
            let a = l.mk();
            let w = a.cc.downgrade();
            // keep the only container-owned thing a Weak: the leaf `a` is dropped here (other handles keep it alive)
            vec![w]
        }, plain);
    }
    #[cfg(feature = "clean")]
    {
        use rust_cc::cleaners::Cleaner;
        probe("tuple(cc,cleaner)", |l| {
            let x = l.mk();
            let c = Cleaner::new();
            let cap = l.mk();
            let _cl = c.register(move || drop(cap));
            (x, c)
        }, plain);
        probe("tuple(cleanable,cc)", |l| {
            let c = Cleaner::new();
            let cl = c.register(|| {});
            std::mem::forget(c);
            (cl, l.mk())
        }, plain);
    }
    cycles();
    println!("containers done");
}

/// A two-object cycle routed through one container position: after the handles are dropped, one `collect_cycles()` must
/// drop both values exactly once and release both boxes (`allocated_bytes` back to where it was) — whatever the position
/// does with its `Cc` when the owner is dropped (a `ManuallyDrop` never releases it).
macro_rules! cycle_probe {
    ($name:ident, $desc:expr, $ty:ty, $wrap:expr) => {{
        struct $name {
            slot: RefCell<Option<$ty>>,
            dropped: std::rc::Rc<Cell<usize>>,
        }
        unsafe impl Trace for $name {
            fn trace(&self, ctx: &mut Context<'_>) {
                self.slot.trace(ctx);
            }
        }
        impl Finalize for $name {}
        impl Drop for $name {
            fn drop(&mut self) {
                self.dropped.set(self.dropped.get() + 1);
            }
        }
        let dropped = std::rc::Rc::new(Cell::new(0usize));
        let before = rust_cc::state::allocated_bytes().unwrap_or(0);
        {
            let a = Cc::new($name { slot: RefCell::new(None), dropped: dropped.clone() });
            let b = Cc::new($name { slot: RefCell::new(None), dropped: dropped.clone() });
            let wrap: fn(Cc<$name>) -> $ty = $wrap;
            *a.slot.borrow_mut() = Some(wrap(b.clone()));
            *b.slot.borrow_mut() = Some(wrap(a.clone()));
        }
        collect_cycles();
        collect_cycles();
        let after = rust_cc::state::allocated_bytes().unwrap_or(0);
        println!("cycle {} dropped={} leaked_bytes={}", $desc, dropped.get(), after as i64 - before as i64);
    }};
}

fn cycles() {
    cycle_probe!(CyCc, "cc", Cc<CyCc>, |x| x);
    cycle_probe!(CyVec, "vec(cc)", Vec<Cc<CyVec>>, |x| vec![x]);
    cycle_probe!(CyBox, "box(cc)", Box<Cc<CyBox>>, |x| Box::new(x));
    cycle_probe!(CySlice, "slice(cc)", Box<[Cc<CySlice>]>, |x| vec![x].into_boxed_slice());
    cycle_probe!(CyArr, "arr(cc)", [Cc<CyArr>; 1], |x| [x]);
    cycle_probe!(CySome, "some(cc)", Option<Cc<CySome>>, |x| Some(x));
    cycle_probe!(CyOk, "ok(cc)", Result<Cc<CyOk>, u8>, |x| Ok(x));
    cycle_probe!(CyErr, "err(cc)", Result<u8, Cc<CyErr>>, |x| Err(x));
    cycle_probe!(CyT2, "tuple(prim,cc)", (u8, Cc<CyT2>), |x| (1u8, x));
    cycle_probe!(CyT3, "tuple(cc,prim,prim)", (Cc<CyT3>, u8, u16), |x| (x, 1u8, 2u16));
    cycle_probe!(CyCell, "cell0(cc)", RefCell<Cc<CyCell>>, |x| RefCell::new(x));
    cycle_probe!(CyAus, "aus(cc)", AssertUnwindSafe<Cc<CyAus>>, |x| AssertUnwindSafe(x));
    cycle_probe!(CyMd, "md(cc)", ManuallyDrop<Cc<CyMd>>, |x| ManuallyDrop::new(x));
    cycle_probe!(CyVecMd, "vec(md(cc))", Vec<ManuallyDrop<Cc<CyVecMd>>>, |x| vec![ManuallyDrop::new(x)]);
    cycle_probe!(CyMdSome, "md(some(cc))", ManuallyDrop<Option<Cc<CyMdSome>>>, |x| ManuallyDrop::new(Some(x)));
    cycle_probe!(CyErrVec, "err(vec(cc))", Result<u8, Vec<Cc<CyErrVec>>>, |x| Err(vec![x]));
    cycle_probe!(CySomeBox, "some(box(cc))", Option<Box<Cc<CySomeBox>>>, |x| Some(Box::new(x)));
}

// ------------------------------------------------------------------------------------------------ C20 layout

#[derive(Clone, Copy, Default)]
#[repr(align(16))]
pub struct Al16;
#[derive(Clone, Copy, Default)]
#[repr(align(64))]
pub struct Al64;
#[derive(Clone, Copy, Default)]
#[repr(align(4096))]
pub struct Al4096;

pub struct Pay<A: 'static, const S: usize> {
    _a: [A; 0],
    bytes: [u8; S],
    canary: [u8; 8],
}
unsafe impl<A: 'static, const S: usize> Trace for Pay<A, S> {
    fn trace(&self, _: &mut Context<'_>) {}
}
impl<A: 'static, const S: usize> Finalize for Pay<A, S> {}

struct PHolder<P: Trace + 'static> {
    p: Cc<P>,
    me: RefCell<Option<Cc<PHolder<P>>>>,
}
unsafe impl<P: Trace + 'static> Trace for PHolder<P> {
    fn trace(&self, ctx: &mut Context<'_>) {
        self.p.trace(ctx);
        self.me.trace(ctx);
    }
}
impl<P: Trace + 'static> Finalize for PHolder<P> {}

fn layout_probe<A: 'static, const S: usize>(aname: &str) {
    alloc::install();
    let mut problems: Vec<String> = Vec::new();
    let mk = || Pay::<A, S> { _a: [], bytes: [0xAB; S], canary: *b"C0FFEE!!" };
    let size = std::mem::size_of::<Pay<A, S>>();
    let align = std::mem::align_of::<Pay<A, S>>();
    // 1. reference-count life cycle
    let a = Cc::new(mk());
    let snap = hooks::snapshot(&a);
    let addr = &*a as *const Pay<A, S> as usize;
    let blk = alloc::block_at(snap.box_addr);
    let (bsize, balign) = blk.map(|b| (b.size, b.align)).unwrap_or((0, 0));
    if blk.is_none() {
        problems.push("box-not-found".into());
    }
    alloc::set_tag(snap.box_addr, alloc::Tag::Box(0));
    let offset = addr - snap.box_addr;
    if addr % align != 0 {
        problems.push("misaligned".into());
    }
    let b = a.clone();
    let addr_b = &*b as *const Pay<A, S> as usize;
    let addr_asref = AsRef::<Pay<A, S>>::as_ref(&a) as *const _ as usize;
    let addr_borrow = std::borrow::Borrow::<Pay<A, S>>::borrow(&a) as *const _ as usize;
    if addr_b != addr || addr_asref != addr || addr_borrow != addr {
        problems.push("unstable-address".into());
    }
    if !Cc::ptr_eq(&a, &b) {
        problems.push("ptr_eq-false-for-clone".into());
    }
    let other = Cc::new(mk());
    if Cc::ptr_eq(&a, &other) {
        problems.push("ptr_eq-true-for-distinct".into());
    }
    if &a.canary != b"C0FFEE!!" || (S > 0 && a.bytes[S - 1] != 0xAB) {
        problems.push("corrupt".into());
    }
    #[cfg(feature = "weak")]
    {
        let w = a.downgrade();
        let up = w.upgrade().expect("upgrade");
        if &*up as *const Pay<A, S> as usize != addr {
            problems.push("upgrade-address".into());
        }
        drop(up);
        drop(w);
    }
    drop(b);
    // address still the same after buffering and a collection
    collect_cycles();
    if &*a as *const Pay<A, S> as usize != addr {
        problems.push("moved-by-collection".into());
    }
    drop(a);
    if alloc::is_live(snap.box_addr) {
        problems.push("not-freed-by-drop".into());
    }
    // 2. try_unwrap
    match Cc::try_unwrap(other) {
        Ok(v) => {
            if &v.canary != b"C0FFEE!!" {
                problems.push("unwrap-corrupt".into());
            }
        }
        Err(_) => problems.push("unwrap-err".into()),
    }
    // 3. freed by the collector (layout recovered through the stored pointer)
    {
        let p = Cc::new(mk());
        let psnap = hooks::snapshot(&p);
        alloc::set_tag(psnap.box_addr, alloc::Tag::Box(1));
        let h = Cc::new(PHolder { p, me: RefCell::new(None) });
        *h.me.borrow_mut() = Some(h.clone());
        drop(h);
        collect_cycles();
        collect_cycles();
        if alloc::is_live(psnap.box_addr) {
            problems.push("not-freed-by-collector".into());
        }
    }
    // 4. new_cyclic
    #[cfg(feature = "weak")]
    {
        let c = Cc::new_cyclic(|w: &rust_cc::weak::Weak<Pay<A, S>>| {
            if w.upgrade().is_some() {
                problems.push("cyclic-upgrade-inside".into());
            }
            mk()
        });
        let s2 = hooks::snapshot(&c);
        if (&*c as *const Pay<A, S> as usize) % align != 0 || (&*c as *const Pay<A, S> as usize) - s2.box_addr != offset {
            problems.push("cyclic-layout".into());
        }
        // the pointer must lead to the value the closure returned (a wrapper around the value under construction
        // must not shift it)
        if &c.canary != b"C0FFEE!!" || (S > 0 && (c.bytes[0] != 0xAB || c.bytes[S - 1] != 0xAB)) {
            problems.push("cyclic-corrupt".into());
        }
        let c2 = c.clone();
        if &*c2 as *const Pay<A, S> as usize != &*c as *const Pay<A, S> as usize || &c2.canary != b"C0FFEE!!" {
            problems.push("cyclic-clone".into());
        }
        drop(c2);
        let blk2 = alloc::block_at(s2.box_addr);
        if let Some(b2) = blk2 {
            let a2 = &*c as *const Pay<A, S> as usize;
            if a2 < s2.box_addr || a2 + size > s2.box_addr + b2.size {
                problems.push("cyclic-outside-box".into());
            }
        }
        drop(c);
        if alloc::is_live(s2.box_addr) {
            problems.push("cyclic-not-freed".into());
        }
    }
    let events = alloc::with_tracker(|t| t.events.clone()).unwrap_or_default();
    for e in events.iter() {
        if e.starts_with('!') {
            problems.push(e.clone());
        }
    }
    let t = alloc::take();
    alloc::release(t);
    println!(
        "layout {} size={} align={} box={},{} off={} {}",
        aname,
        size,
        align,
        bsize,
        balign,
        offset,
        if problems.is_empty() { "ok".to_string() } else { format!("PROBLEMS:{}", problems.join(";")) }
    );
}

/// Zero-sized payloads (plain and over-aligned).
pub struct Zst<A: 'static> {
    _a: [A; 0],
}
unsafe impl<A: 'static> Trace for Zst<A> {
    fn trace(&self, _: &mut Context<'_>) {}
}
impl<A: 'static> Finalize for Zst<A> {}

fn zst_probe<A: 'static>(aname: &str) {
    alloc::install();
    let mut problems: Vec<String> = Vec::new();
    let size = std::mem::size_of::<Zst<A>>();
    let align = std::mem::align_of::<Zst<A>>();
    let a = Cc::new(Zst::<A> { _a: [] });
    let snap = hooks::snapshot(&a);
    let addr = &*a as *const Zst<A> as usize;
    let blk = alloc::block_at(snap.box_addr);
    let (bsize, balign) = blk.map(|b| (b.size, b.align)).unwrap_or((0, 0));
    alloc::set_tag(snap.box_addr, alloc::Tag::Box(0));
    if addr % align != 0 {
        problems.push("misaligned".into());
    }
    let b = a.clone();
    if &*b as *const Zst<A> as usize != addr || !Cc::ptr_eq(&a, &b) {
        problems.push("unstable-address".into());
    }
    let other = Cc::new(Zst::<A> { _a: [] });
    if Cc::ptr_eq(&a, &other) {
        problems.push("ptr_eq-true-for-distinct".into());
    }
    drop(b);
    collect_cycles();
    drop(a);
    if alloc::is_live(snap.box_addr) {
        problems.push("not-freed-by-drop".into());
    }
    if Cc::try_unwrap(other).is_err() {
        problems.push("unwrap-err".into());
    }
    {
        let p = Cc::new(Zst::<A> { _a: [] });
        let psnap = hooks::snapshot(&p);
        alloc::set_tag(psnap.box_addr, alloc::Tag::Box(1));
        let h = Cc::new(PHolder { p, me: RefCell::new(None) });
        *h.me.borrow_mut() = Some(h.clone());
        drop(h);
        collect_cycles();
        collect_cycles();
        if alloc::is_live(psnap.box_addr) {
            problems.push("not-freed-by-collector".into());
        }
    }
    for e in alloc::with_tracker(|t| t.events.clone()).unwrap_or_default().iter() {
        if e.starts_with('!') {
            problems.push(e.clone());
        }
    }
    let t = alloc::take();
    alloc::release(t);
    println!(
        "layout {} size={} align={} box={},{} off={} {}",
        aname, size, align, bsize, balign, addr - snap.box_addr,
        if problems.is_empty() { "ok".to_string() } else { format!("PROBLEMS:{}", problems.join(";")) }
    );
}

macro_rules! layout_sizes {
    ($a:ty, $name:expr) => {
        layout_probe::<$a, 0>($name);
        layout_probe::<$a, 1>($name);
        layout_probe::<$a, 3>($name);
        layout_probe::<$a, 8>($name);
        layout_probe::<$a, 24>($name);
        layout_probe::<$a, 100>($name);
        layout_probe::<$a, 4096>($name);
    };
}

pub fn layout() {
    let (hs, ha) = hooks::header_layout();
    println!("hdr size={} align={}", hs, ha);
    std::thread::spawn(|| {
        layout_sizes!(u8, "a1");
        layout_sizes!(u16, "a2");
        layout_sizes!(u64, "a8");
        layout_sizes!(Al16, "a16");
        layout_sizes!(Al64, "a64");
        layout_sizes!(Al4096, "a4096");
        zst_probe::<u8>("zst1");
        zst_probe::<u64>("zst8");
        zst_probe::<Al64>("zst64");
        zst_probe::<Al4096>("zst4096");
    })
    .join()
    .unwrap();
    // zero-sized payload with no canary: unit-like
    println!("layout done");
}

// ------------------------------------------------------------------------------------------------ C20 forwarding

fn hash_of<T: std::hash::Hash>(t: &T) -> u64 {
    use std::hash::Hasher;
    let mut h = std::collections::hash_map::DefaultHasher::new();
    t.hash(&mut h);
    h.finish()
}

pub fn forward() {
    let mut bad = 0usize;
    let mut n = 0usize;
    let ints: Vec<i32> = vec![i32::MIN, -1, 0, 1, 7, 7, i32::MAX];
    for x in ints.iter() {
        for y in ints.iter() {
            let (a, b) = (Cc::new(*x), Cc::new(*y));
            n += 1;
            let ok = (a == b) == (x == y)
                && (a != b) == (x != y)
                && a.cmp(&b) == x.cmp(y)
                && a.partial_cmp(&b) == x.partial_cmp(y)
                && (a < b) == (x < y)
                && (a <= b) == (x <= y)
                && (a > b) == (x > y)
                && (a >= b) == (x >= y)
                && hash_of(&a) == hash_of(x)
                && format!("{:?}", a) == format!("{:?}", x)
                && format!("{}", a) == format!("{}", x);
            if !ok {
                bad += 1;
                println!("forward-mismatch i32 {} {}", x, y);
            }
        }
    }
    let floats: Vec<f64> = vec![f64::NAN, -0.0, 0.0, 1.5, f64::INFINITY, f64::NEG_INFINITY, -2.25, 1.5];
    for x in floats.iter() {
        for y in floats.iter() {
            let (a, b) = (Cc::new(*x), Cc::new(*y));
            n += 1;
            let ok = (a == b) == (x == y)
                && (a != b) == (x != y)
                && a.partial_cmp(&b) == x.partial_cmp(y)
                && (a < b) == (x < y)
                && (a <= b) == (x <= y)
                && (a > b) == (x > y)
                && (a >= b) == (x >= y)
                && format!("{:?}", a) == format!("{:?}", x)
                && format!("{}", a) == format!("{}", x);
            if !ok {
                bad += 1;
                println!("forward-mismatch f64 {:?} {:?}", x, y);
            }
        }
    }
    let strs: Vec<String> = vec!["".into(), "a".into(), "ab".into(), "b".into(), "ab".into()];
    for x in strs.iter() {
        for y in strs.iter() {
            let (a, b) = (Cc::new(x.clone()), Cc::new(y.clone()));
            n += 1;
            let ok = (a == b) == (x == y)
                && a.cmp(&b) == x.cmp(y)
                && a.partial_cmp(&b) == x.partial_cmp(y)
                && hash_of(&a) == hash_of(x)
                && format!("{:?}", a) == format!("{:?}", x)
                && format!("{}", a) == format!("{}", x)
                && (Cc::ptr_eq(&a, &b) == false);
            if !ok {
                bad += 1;
                println!("forward-mismatch str {:?} {:?}", x, y);
            }
        }
    }
    // the same allocation on both sides (a pointer and its clone): still the payload's semantics, not identity
    for x in floats.iter() {
        let a = Cc::new(*x);
        let b = a.clone();
        n += 1;
        let ok = (a == b) == (x == x)
            && (a != b) == (x != x)
            && a.partial_cmp(&b) == x.partial_cmp(x)
            && (a < b) == (x < x)
            && (a <= b) == (x <= x)
            && (a > b) == (x > x)
            && (a >= b) == (x >= x)
            && (a == a) == (x == x);
        if !ok {
            bad += 1;
            println!("forward-mismatch same-allocation f64 {:?}", x);
        }
    }
    for x in ints.iter() {
        let a = Cc::new(*x);
        let b = a.clone();
        n += 1;
        if !((a == b) && a.cmp(&b) == std::cmp::Ordering::Equal && hash_of(&a) == hash_of(&b) && Cc::ptr_eq(&a, &b)) {
            bad += 1;
            println!("forward-mismatch same-allocation i32 {}", x);
        }
    }
    // formatter options must reach the payload: width, fill, alignment, sign, zero padding, precision, alternate,
    // hex-debug — directly and nested in a derived Debug
    macro_rules! fmt_same {
        ($kind:expr, $x:expr, $($spec:literal),*) => {{
            let a = Cc::new($x.clone());
            $(
                n += 1;
                if format!($spec, a) != format!($spec, $x) {
                    bad += 1;
                    println!("forward-mismatch fmt {} {} {:?}", $kind, $spec, $x);
                }
            )*
            #[derive(Debug)]
            #[allow(dead_code)]
            struct Wrap<T> { v: T, w: (T, u8) }
            let (wa, wx) = (Wrap { v: Cc::new($x.clone()), w: (Cc::new($x.clone()), 1u8) }, Wrap { v: $x.clone(), w: ($x.clone(), 1u8) });
            n += 2;
            if format!("{:?}", wa) != format!("{:?}", wx) || format!("{:#?}", wa) != format!("{:#?}", wx) {
                bad += 1;
                println!("forward-mismatch fmt-nested {} {:?}", $kind, $x);
            }
        }};
    }
    for x in ints.iter() {
        fmt_same!("i32", x, "{:>8}", "{:<8}|", "{:*^9}", "{:+}", "{:08}", "{:#?}", "{:#x?}", "{:5?}", "{:+08}", "{:<#6?}|");
    }
    for x in floats.iter() {
        fmt_same!("f64", x, "{:>10}", "{:<10}|", "{:.2}", "{:+.1}", "{:010.3}", "{:.0?}", "{:12.4?}", "{:#?}");
    }
    for x in strs.iter() {
        fmt_same!("str", x, "{:>6}", "{:-<6}|", "{:^7}", "{:.1}", "{:8.2}", "{:#?}", "{:10?}");
    }
    let d: Cc<i32> = Default::default();
    let ds: Cc<String> = Default::default();
    if *d != i32::default() || *ds != String::default() {
        bad += 1;
        println!("forward-mismatch default");
    }
    println!("forward pairs={} mismatches={}", n, bad);
}

// ------------------------------------------------------------------------------------------------ C19 teardown

struct TNode {
    next: RefCell<Option<Cc<TNode>>>,
    canary: Cell<u64>,
}
unsafe impl Trace for TNode {
    fn trace(&self, ctx: &mut Context<'_>) {
        self.next.trace(ctx);
    }
}
impl Finalize for TNode {}
impl Drop for TNode {
    fn drop(&mut self) {
        if self.canary.get() != 0xA11CE {
            // double drop or drop of garbage memory
            DOUBLE_DROPS.fetch_add(1, std::sync::atomic::Ordering::SeqCst);
        }
        self.canary.set(0xDEAD);
        DROPS.fetch_add(1, std::sync::atomic::Ordering::SeqCst);
    }
}
static DROPS: std::sync::atomic::AtomicUsize = std::sync::atomic::AtomicUsize::new(0);
static DOUBLE_DROPS: std::sync::atomic::AtomicUsize = std::sync::atomic::AtomicUsize::new(0);

thread_local! {
    static KEEP: RefCell<Vec<Cc<TNode>>> = const { RefCell::new(Vec::new()) };
}

/// A node whose finalizer allocates (and drops) a `Cc` and asks for a collection — all of which the documentation allows.
struct FNode {
    next: RefCell<Option<Cc<FNode>>>,
    canary: Cell<u64>,
}
unsafe impl Trace for FNode {
    fn trace(&self, ctx: &mut Context<'_>) {
        self.next.trace(ctx);
    }
}
impl Finalize for FNode {
    fn finalize(&self) {
        let t = Cc::new(TNode { next: RefCell::new(None), canary: Cell::new(0xA11CE) });
        let u = t.clone();
        drop(u);
        drop(t);
        collect_cycles();
    }
}
impl Drop for FNode {
    fn drop(&mut self) {
        if self.canary.get() != 0xA11CE {
            DOUBLE_DROPS.fetch_add(1, std::sync::atomic::Ordering::SeqCst);
        }
        self.canary.set(0xDEAD);
    }
}
thread_local! {
    static KEEPF: RefCell<Vec<Cc<FNode>>> = const { RefCell::new(Vec::new()) };
    static GUARD: FlagGuard = const { FlagGuard };
}
static STUCK_FLAGS: std::sync::atomic::AtomicUsize = std::sync::atomic::AtomicUsize::new(0);
/// Registered before everything else, hence destroyed after everything else: whatever the other thread-local destructors
/// did, the collector must not be left "collecting" / "tracing".
struct FlagGuard;
impl Drop for FlagGuard {
    fn drop(&mut self) {
        let tracing = matches!(rust_cc::state::is_tracing(), Ok(true));
        let flags = hooks::phase_flags().unwrap_or((false, false, false));
        if tracing || flags.0 || flags.1 || flags.2 {
            STUCK_FLAGS.fetch_add(1, std::sync::atomic::Ordering::SeqCst);
        }
    }
}
fn fnode() -> Cc<FNode> {
    Cc::new(FNode { next: RefCell::new(None), canary: Cell::new(0xA11CE) })
}
/// Configurations under which the allocating finalizer runs at thread exit.
fn tcfg(which: usize) {
    #[cfg(feature = "auto")]
    {
        let _ = rust_cc::config::config(|c| match which {
            1 => {
                c.set_auto_collect(true);
                c.set_buffered_objects_threshold(std::num::NonZeroUsize::new(1));
            }
            2 => {
                c.set_auto_collect(true);
                c.set_buffered_objects_threshold(std::num::NonZeroUsize::new(1));
                c.set_adjustment_percent(0.0);
            }
            3 => c.set_auto_collect(false),
            _ => {}
        });
    }
    #[cfg(not(feature = "auto"))]
    let _ = which;
}
fn fin_scenario(user_first: bool, cfg: usize, shape: usize) {
    GUARD.with(|_| ());
    if user_first {
        KEEPF.with(|k| k.borrow_mut().clear());
    } else {
        // the collector's thread-locals first
        drop(tnode());
        let _ = rust_cc::state::allocated_bytes();
        collect_cycles();
    }
    tcfg(cfg);
    let a = fnode();
    match shape {
        1 => {
            let b = a.clone();
            drop(b);
        }
        2 => {
            let b = fnode();
            *a.next.borrow_mut() = Some(b.clone());
            *b.next.borrow_mut() = Some(a.clone());
            drop(b);
        }
        _ => {}
    }
    // several objects: the later ones are dropped after the finalizer of the first has allocated and collected
    let extra = [fnode(), fnode()];
    KEEPF.with(|k| {
        let mut k = k.borrow_mut();
        k.push(a);
        k.extend(extra);
    });
}

fn tnode() -> Cc<TNode> {
    Cc::new(TNode { next: RefCell::new(None), canary: Cell::new(0xA11CE) })
}

/// Threads exiting while thread-locals still hold `Cc`s / objects are buffered, with the user's
/// thread-local first touched before or after the collector's own.
pub fn teardown() {
    let scenarios: Vec<(&str, fn())> = vec![
        ("user-tls-first/unique", || {
            KEEP.with(|k| k.borrow_mut().clear());
            let a = tnode();
            KEEP.with(|k| k.borrow_mut().push(a));
        }),
        ("collector-first/unique", || {
            let a = tnode();
            KEEP.with(|k| k.borrow_mut().push(a));
        }),
        ("user-tls-first/buffered", || {
            KEEP.with(|k| k.borrow_mut().clear());
            let a = tnode();
            let b = a.clone();
            drop(b);
            KEEP.with(|k| k.borrow_mut().push(a));
        }),
        ("collector-first/buffered", || {
            let a = tnode();
            let b = a.clone();
            drop(b);
            KEEP.with(|k| k.borrow_mut().push(a));
        }),
        ("user-tls-first/cycle-held", || {
            KEEP.with(|k| k.borrow_mut().clear());
            let a = tnode();
            let b = tnode();
            *a.next.borrow_mut() = Some(b.clone());
            *b.next.borrow_mut() = Some(a.clone());
            drop(b);
            KEEP.with(|k| k.borrow_mut().push(a));
        }),
        ("collector-first/cycle-held", || {
            let a = tnode();
            let b = tnode();
            *a.next.borrow_mut() = Some(b.clone());
            *b.next.borrow_mut() = Some(a.clone());
            drop(b);
            KEEP.with(|k| k.borrow_mut().push(a));
        }),
        ("garbage-cycle-buffered-at-exit", || {
            let a = tnode();
            let b = tnode();
            *a.next.borrow_mut() = Some(b.clone());
            *b.next.borrow_mut() = Some(a.clone());
            drop(a);
            drop(b);
        }),
        ("chain-in-tls", || {
            KEEP.with(|k| k.borrow_mut().clear());
            let a = tnode();
            let b = tnode();
            let c = tnode();
            *a.next.borrow_mut() = Some(b.clone());
            *b.next.borrow_mut() = Some(c.clone());
            KEEP.with(|k| {
                k.borrow_mut().push(a);
                k.borrow_mut().push(c);
            });
            drop(b);
        }),
    ];
    for (name, f) in scenarios {
        let before = DOUBLE_DROPS.load(std::sync::atomic::Ordering::SeqCst);
        let r = std::thread::spawn(f).join();
        let dd = DOUBLE_DROPS.load(std::sync::atomic::Ordering::SeqCst) - before;
        println!("teardown {} {} double_drops={}", name, if r.is_ok() { "ok" } else { "PANICKED" }, dd);
    }
    // a thread-local holding objects whose finalizer allocates and collects, destroyed before / after the collector's own
    // thread-locals, under every trigger configuration (a panic inside a thread-local destructor aborts the process: the
    // runner reports the missing `teardown done`)
    for user_first in [true, false] {
        for cfg in 0..4usize {
            for shape in 0..3usize {
                let before = DOUBLE_DROPS.load(std::sync::atomic::Ordering::SeqCst);
                use std::io::Write;
                print!("teardown fin/{}/cfg{}/shape{} ", if user_first { "user-tls-first" } else { "collector-first" }, cfg, shape);
                let _ = std::io::stdout().flush();
                let stuck_before = STUCK_FLAGS.load(std::sync::atomic::Ordering::SeqCst);
                let r = std::thread::spawn(move || fin_scenario(user_first, cfg, shape)).join();
                let dd = DOUBLE_DROPS.load(std::sync::atomic::Ordering::SeqCst) - before;
                let stuck = STUCK_FLAGS.load(std::sync::atomic::Ordering::SeqCst) - stuck_before;
                println!("{} stuck_flags={} double_drops={}", if r.is_ok() { "ok" } else { "PANICKED" }, stuck, dd);
            }
        }
    }
    println!("teardown done");
}

// ------------------------------------------------------------------------------------------------ C04 clone_from

struct CfP {
    panic_on_drop: Cell<bool>,
    drops: std::rc::Rc<Cell<u32>>,
}
unsafe impl Trace for CfP {
    fn trace(&self, _: &mut Context<'_>) {}
}
impl Finalize for CfP {}
impl Drop for CfP {
    fn drop(&mut self) {
        self.drops.set(self.drops.get() + 1);
        if self.panic_on_drop.get() {
            panic!("destructor panics");
        }
    }
}

/// `Clone::clone_from` on `Cc` (whatever its implementation) behaves as `*self = source.clone()`: counts exact in every
/// outcome, never too low after a caught panic, nothing dropped that still has an owner.
pub fn clone_from_probe() {
    alloc::install();
    let mk = |p: bool| {
        let d = std::rc::Rc::new(Cell::new(0u32));
        (Cc::new(CfP { panic_on_drop: Cell::new(p), drops: d.clone() }), d)
    };
    let report = |name: &str, problems: Vec<String>| {
        println!("clonefrom {} {}", name, if problems.is_empty() { "ok".to_string() } else { format!("PROBLEMS:{}", problems.join(";")) });
    };
    // 1. distinct allocations, `a` the only owner of the old one
    {
        let mut pr = Vec::new();
        let (mut a, da) = mk(false);
        let (b, db) = mk(false);
        let b2 = b.clone();
        a.clone_from(&b);
        if !Cc::ptr_eq(&a, &b) { pr.push("not-retargeted".into()); }
        if b.strong_count() != 3 { pr.push(format!("new-count={}", b.strong_count())); }
        if da.get() != 1 { pr.push(format!("old-drops={}", da.get())); }
        if db.get() != 0 { pr.push("new-dropped".into()); }
        drop(b2);
        report("distinct", pr);
    }
    // 2. same allocation
    {
        let mut pr = Vec::new();
        let (b, db) = mk(false);
        let mut a = b.clone();
        a.clone_from(&b);
        if !Cc::ptr_eq(&a, &b) || b.strong_count() != 2 || db.get() != 0 { pr.push(format!("count={} drops={}", b.strong_count(), db.get())); }
        report("same", pr);
    }
    // 3. the old allocation has another owner
    {
        let mut pr = Vec::new();
        let (mut a, da) = mk(false);
        let a2 = a.clone();
        let (b, _db) = mk(false);
        a.clone_from(&b);
        if a2.strong_count() != 1 || da.get() != 0 { pr.push(format!("old-count={} old-drops={}", a2.strong_count(), da.get())); }
        if b.strong_count() != 2 || !Cc::ptr_eq(&a, &b) { pr.push(format!("new-count={}", b.strong_count())); }
        report("old-shared", pr);
    }
    // 4. the destructor of the old value panics: whatever `a` points to afterwards is counted
    {
        let mut pr = Vec::new();
        let (mut a, da) = mk(true);
        let (b, db) = mk(false);
        let r = std::panic::catch_unwind(AssertUnwindSafe(|| a.clone_from(&b)));
        if r.is_ok() { pr.push("no-panic".into()); }
        if da.get() != 1 { pr.push(format!("old-drops={}", da.get())); }
        if Cc::ptr_eq(&a, &b) {
            if b.strong_count() != 2 { pr.push(format!("new-count={}", b.strong_count())); }
        } else {
            // still the old pointer: it must still be counted (the box is quarantined by the harness allocator if it was freed)
            let snap = hooks::snapshot(&a);
            let v = hooks::counter_apply(snap.tracing_word, snap.counter_word, None);
            if !alloc::is_live(snap.box_addr) || v.counter == 0 { pr.push(format!("old-pointer-kept-uncounted:count={}", v.counter)); }
            if b.strong_count() != 1 { pr.push(format!("new-count={}", b.strong_count())); }
            std::mem::forget(a);
        }
        if db.get() != 0 { pr.push("new-dropped".into()); }
        report("old-destructor-panics", pr);
    }
    // 5. the source is saturated: `clone` refuses, nothing else happens
    {
        let mut pr = Vec::new();
        let (mut a, da) = mk(false);
        let (b, _db) = mk(false);
        let mut keep = Vec::new();
        loop {
            let r = std::panic::catch_unwind(AssertUnwindSafe(|| b.clone()));
            match r {
                Ok(c) => keep.push(c),
                Err(_) => break,
            }
            if keep.len() > 40_000 { pr.push("never-saturates".into()); break; }
        }
        let max = b.strong_count();
        let a_addr = hooks::snapshot(&a).box_addr;
        let r = std::panic::catch_unwind(AssertUnwindSafe(|| a.clone_from(&b)));
        if r.is_ok() { pr.push("no-panic-at-max".into()); }
        if b.strong_count() != max { pr.push(format!("source-count={}vs{}", b.strong_count(), max)); }
        if da.get() != 0 { pr.push(format!("old-drops={}", da.get())); }
        if hooks::snapshot(&a).box_addr != a_addr { pr.push("retargeted".into()); }
        else {
            let snap = hooks::snapshot(&a);
            let v = hooks::counter_apply(snap.tracing_word, snap.counter_word, None);
            if v.counter != 1 || !alloc::is_live(a_addr) { pr.push(format!("old-count={}", v.counter)); std::mem::forget(a); }
        }
        drop(keep);
        report("source-saturated", pr);
    }
    let events = alloc::with_tracker(|t| t.events.clone()).unwrap_or_default();
    let bad: Vec<String> = events.iter().filter(|e| e.starts_with('!')).cloned().collect();
    let t = alloc::take();
    alloc::release(t);
    println!("clonefrom allocator {}", if bad.is_empty() { "ok".to_string() } else { format!("PROBLEMS:{}", bad.join(";")) });
    println!("clonefrom done");
}

// ------------------------------------------------------------------------------------------------ C01 large buffers

struct BNode {
    next: RefCell<Option<Cc<BNode>>>,
    leaf: RefCell<Option<Cc<BNode>>>,
    canary: Cell<u64>,
    make_leaf: Cell<bool>,
}
unsafe impl Trace for BNode {
    fn trace(&self, ctx: &mut Context<'_>) {
        self.next.trace(ctx);
        self.leaf.trace(ctx);
    }
}
thread_local! {
    static LEAF_SLOT: RefCell<Option<Cc<BNode>>> = const { RefCell::new(None) };
}
static BDROPS: std::sync::atomic::AtomicUsize = std::sync::atomic::AtomicUsize::new(0);
static BBAD: std::sync::atomic::AtomicUsize = std::sync::atomic::AtomicUsize::new(0);
impl Finalize for BNode {
    fn finalize(&self) {
        if self.make_leaf.get() {
            // an object created inside a finalizer (it is born "already finalized")
            LEAF_SLOT.with(|s| *s.borrow_mut() = Some(bnode()));
        }
    }
}
impl Drop for BNode {
    fn drop(&mut self) {
        if self.canary.get() != 0xB16B0F {
            BBAD.fetch_add(1, std::sync::atomic::Ordering::SeqCst);
        }
        self.canary.set(0xDEAD);
        BDROPS.fetch_add(1, std::sync::atomic::Ordering::SeqCst);
    }
}
fn bnode() -> Cc<BNode> {
    Cc::new(BNode { next: RefCell::new(None), leaf: RefCell::new(None), canary: Cell::new(0xB16B0F), make_leaf: Cell::new(false) })
}

/// Collections over buffers of every size (also far above any internal chunk size): objects reachable from program-held
/// pointers survive intact, whatever their position in the buffer and their finalization state; garbage is reclaimed.
pub fn bigbuf() {
    alloc::install();
    #[cfg(feature = "auto")]
    let _ = rust_cc::config::config(|c| c.set_auto_collect(false));
    for n in [4usize, 300, 1100, 2600] {
        let mut pr: Vec<String> = Vec::new();
        collect_cycles();
        let base = rust_cc::state::allocated_bytes().unwrap_or(0);
        let drops0 = BDROPS.load(std::sync::atomic::Ordering::SeqCst);
        // a leaf born inside a finalizer
        let maker = bnode();
        maker.make_leaf.set(true);
        drop(maker);
        let leaf = LEAF_SLOT.with(|s| s.borrow_mut().take()).unwrap_or_else(bnode);
        let holder = bnode();
        *holder.leaf.borrow_mut() = Some(leaf);
        // buffer the leaf first …
        {
            let c = holder.leaf.borrow().as_ref().unwrap().clone();
            drop(c);
        }
        // … then `n` live objects (every third one at the end of a short chain, every fifth one on a live cycle) …
        let mut live = Vec::with_capacity(n);
        for i in 0..n {
            let x = bnode();
            if i % 3 == 0 {
                *x.next.borrow_mut() = Some(bnode());
            }
            if i % 5 == 0 {
                let y = bnode();
                *y.next.borrow_mut() = Some(x.clone());
                *x.leaf.borrow_mut() = Some(y);
            }
            let c = x.clone();
            drop(c);
            live.push(x);
        }
        // … and the holder last
        {
            let c = holder.clone();
            drop(c);
        }
        let buffered = rust_cc::state::buffered_objects_count().unwrap_or(0);
        collect_cycles();
        collect_cycles();
        let alive = |c: &Cc<BNode>| {
            let s = hooks::snapshot(c);
            alloc::is_live(s.box_addr) && c.canary.get() == 0xB16B0F
        };
        if !alive(&holder) {
            pr.push("holder-dead".into());
        } else if !holder.leaf.borrow().as_ref().map(alive).unwrap_or(false) {
            pr.push("leaf-of-live-holder-dead".into());
        }
        let dead = live.iter().filter(|c| !alive(c)).count();
        if dead != 0 {
            pr.push(format!("live-objects-dead={}", dead));
        }
        let d = BDROPS.load(std::sync::atomic::Ordering::SeqCst) - drops0;
        if d != 1 {
            pr.push(format!("drops-while-everything-is-reachable={}", d - 1));
        }
        if pr.is_empty() {
            // release everything: all of it is reclaimed
            drop(live);
            drop(holder);
            collect_cycles();
            collect_cycles();
            let now = rust_cc::state::allocated_bytes().unwrap_or(0);
            if now != base {
                pr.push(format!("leaked-bytes={}", now as i64 - base as i64));
            }
        } else {
            std::mem::forget(live);
            std::mem::forget(holder);
        }
        if BBAD.load(std::sync::atomic::Ordering::SeqCst) != 0 {
            pr.push("double-drop".into());
        }
        println!("bigbuf n={} buffered={} {}", n, buffered, if pr.is_empty() { "ok".to_string() } else { format!("PROBLEMS:{}", pr.join(";")) });
    }
    let t = alloc::take();
    alloc::release(t);
    println!("bigbuf done");
}
