import RustCcModel.Proofs.CountsOps3
/-! `Counts` through the cleaner operations, and the dispatch over all operations. -/
namespace RustCc
open World
variable {ex : Bool}

theorem regInsert_holds (t : Id) (script k : Nat) (capId : Option Id) : (Frame.regInsert t script k capId).holds = capId.toList := by
  cases capId <;> rfl

theorem reg_tail (c : Cfg) {w1 : World} (capId : Option Id) (t : Id) (script k : Nat) (h : CountsH ex w1 capId.toList) (htlt : t < w1.next) :
    CountsG ex (match (w1.heap t).cmap with
      | some _ => World.push { w1 with ret := .ok } (.regInsert t script k capId)
      | none =>
        if shouldCollect c ((World.push { w1 with ret := .ok } (.regInsert t script k capId)).push (.mapAlloc t)) = true then
          (((World.push { w1 with ret := .ok } (.regInsert t script k capId)).push (.mapAlloc t)).push .adjustAfter).startCollect
        else (World.push { w1 with ret := .ok } (.regInsert t script k capId)).push (.mapAlloc t)) := by
  have h1 : CountsH ex { w1 with ret := .ok } capId.toList := h.ret _
  have h2 : CountsH ex (World.push { w1 with ret := .ok } (.regInsert t script k capId)) [] :=
    CountsH.pushFrame (E := []) _ (by rw [regInsert_holds]; simpa using h1) (by simpa [Frame.ids] using htlt)
  have h3 : CountsH ex ((World.push { w1 with ret := .ok } (.regInsert t script k capId)).push (.mapAlloc t)) [] :=
    CountsH.pushFrame (E := []) (.mapAlloc t) h2 (by simpa [Frame.ids] using htlt)
  split
  · exact h2.toCounts0
  · split
    · exact (h3.pushPlain .adjustAfter rfl rfl).startCollect.toCounts0
    · exact h3.toCounts0

theorem execOp_counts_reg (c : Cfg) (w : World) (self wc : Option Id) (n : NRef) (script k : Nat) (cap : Option CRef) (h : CountsG ex w)
    (hself : ∀ s, self = some s → s < w.next) : CountsG ex (execOp c w self wc (.reg n script k cap)) := by
  have hH := h.toH
  simp only [execOp]
  split
  · exact h.congr rfl rfl rfl rfl rfl rfl rfl
  · split
    · rename_i t ht
      have htlt := resolveN_lt h hself ht
      split
      · exact h.congr rfl rfl rfl rfl rfl rfl rfl
      · split
        · rename_i y hy
          split
          · exact h.raise
          · rw [hy]
            have hylt : y < w.next := by
              cases cap with
              | none => simp at hy
              | some r => exact resolveC_lt h hself (by simpa using hy)
            exact reg_tail c (some y) t script k (hH.clone y hylt) (by simpa using htlt)
        · rename_i hy
          rw [hy]
          simp only [Bool.not_true, Bool.false_eq_true, if_false]
          exact reg_tail c none t script k hH htlt
    · exact h.congr rfl rfl rfl rfl rfl rfl rfl

theorem actIds_set_count (l : List (Option Action)) (i : Nat) (v : Option Action) (x : Id) (hi : i < l.length) :
    ((l.set i v).flatMap actIds).count x + (actIds (l[i]?.getD none)).count x = (l.flatMap actIds).count x + (actIds v).count x := by
  induction l generalizing i with
  | nil => simp at hi
  | cons a r ih =>
    cases i with
    | zero => simp [List.count_append]; omega
    | succ j =>
      have := ih j (by simpa using hi)
      simp [List.count_append] at this ⊢; omega

theorem getD_lt {α} {l : List (Option α)} {i : Nat} {a : α} (h : l.getD i none = some a) : i < l.length := by
  cases Nat.lt_or_ge i l.length with
  | inl h => exact h
  | inr hge => simp [List.getD_eq_getElem?_getD, List.getElem?_eq_none hge] at h


theorem clean_tail (c : Cfg) {w : World} (m : Id) (i aid : Nat) (h : CountsH ex w []) (hm : m < w.next) :
    CountsG ex (match ((w.heap m).aslots.getD i none) with
            | some a =>
              if a.aid = aid then
                let w := w.upd m fun o => { o with aslots := o.aslots.set i none, afree := i :: o.afree }
                let w := w.push (.actionEnd a.cap false)
                let (boom, f) := tick w.fAct
                let w := { w with fAct := f }
                let w := w.emit (.action a.aid (w.isTracing c))
                if boom then w.raiseLogged else w.push (.script (c.script a.script) none none)
              else w
            | none => w) := by
  split
  · rename_i a ha
    have hi := getD_lt ha
    split
    · have h1 : CountsH ex (w.upd m fun o => { o with aslots := o.aslots.set i none, afree := i :: o.afree }) (a.cap.toList ++ []) := by
        apply CountsH.updFields m _ [] a.cap.toList (by simpa using h) hm
        · intro x
          have := actIds_set_count (w.heap m).aslots i none x hi
          rw [List.getD_eq_getElem?_getD] at ha
          rw [ha] at this
          simp only [fieldsOf, List.count_append, actIds] at this ⊢
          simp at this ⊢
          omega
        · rfl
        · rfl
      have h2 : CountsH ex ((w.upd m fun o => { o with aslots := o.aslots.set i none, afree := i :: o.afree }).push (.actionEnd a.cap false)) [] := by
        apply CountsH.pushFrame (E := [])
        · cases hc : a.cap <;> simpa [Frame.holds, hc] using h1
        · cases hc : a.cap <;> simp [Frame.ids]
      simp only []
      split
      · refine (((h2.congr ?_ ?_ ?_ ?_ ?_ ?_ ?_).emit _).raiseLogged).toCounts0 <;> rfl
      · refine (((h2.congr ?_ ?_ ?_ ?_ ?_ ?_ ?_).emit _).pushPlain _ rfl rfl).toCounts0 <;> rfl
    · exact h.toCounts0
  · exact h.toCounts0

theorem execOp_counts_clean (c : Cfg) (w : World) (self wc : Option Id) (k : Nat) (h : CountsG ex w) :
    CountsG ex (execOp c w self wc (.clean k)) := by
  have hH := h.toH
  simp only [execOp]
  split
  · exact h.congr rfl rfl rfl rfl rfl rfl rfl
  · split
    · rename_i m i aid hk
      split
      · exact h.ret _
      · rename_i hstrong
        have hmlt : m < w.next := weakStrong_lt (hH.ret .ok) hstrong
        split
        · exact (h.ret _).raise
        · have h1 : CountsH ex (World.cloneOk { w with ret := .ok } m) [m] := (hH.ret .ok).clone m hmlt
          split
          · exact (CountsH.pushFrame (E := []) (.cleanEnd m false false) h1 (by simp [Frame.ids])).toCounts0
          · have h2 := h1.upd_same m (fun o => { o with borrowed := true }) rfl rfl
            have h3 := CountsH.pushFrame (E := []) (.cleanEnd m true false) h2 (by simp [Frame.ids])
            exact clean_tail c m i aid h3 (by simpa using hmlt)
    · exact h.congr rfl rfl rfl rfl rfl rfl rfl

/-- **Every operation a script can execute preserves `Counts`.** -/
theorem execOp_counts (c : Cfg) (w : World) (self wc : Option Id) (op : Op) (h : CountsG ex w)
    (hself : ∀ s, self = some s → s < w.next) : CountsG ex (execOp c w self wc op) := by
  cases op with
  | nop => exact h.ret _
  | panic => exact h.raiseLogged
  | fault kind n j => cases kind <;> exact h.congr rfl rfl rfl rfl rfl rfl rfl
  | new k sp => exact execOp_counts_new c w self wc k sp h
  | newCyclic k sp body selfw => exact execOp_counts_newCyclic c w self wc k sp body selfw h
  | clone r k => exact execOp_counts_clone c w self wc r k h hself
  | drop k => exact execOp_counts_drop c w self wc k h
  | setf n s r => exact execOp_counts_setf c w self wc n s r h hself
  | movef n s k => exact execOp_counts_movef c w self wc n s k h hself
  | clrf n s => exact execOp_counts_clrf c w self wc n s h hself
  | takef n s k => exact execOp_counts_takef c w self wc n s k h hself
  | getf n s k => exact execOp_counts_getf c w self wc n s k h hself
  | markAlive r => exact execOp_counts_markAlive c w self wc r h
  | finAgain k => exact execOp_counts_finAgain c w self wc k h
  | unwrap k => exact execOp_counts_unwrap c w self wc k h
  | down r k => exact execOp_counts_down c w self wc r k h hself
  | up ws k => exact execOp_counts_up c w self wc ws k h
  | wclone ws k => exact execOp_counts_wclone c w self wc ws k h
  | wdrop k => exact execOp_counts_wdrop c w self wc k h
  | wnew k => exact execOp_counts_wnew c w self wc k h
  | setw n i ws => exact execOp_counts_setw c w self wc n i ws h
  | clrw n i => exact execOp_counts_clrw c w self wc n i h
  | reg n script k cap => exact execOp_counts_reg c w self wc n script k cap h hself
  | clean k => exact execOp_counts_clean c w self wc k h
  | cdrop k => exact execOp_counts_cdrop c w self wc k h
  | collect => exact execOp_counts_collect c w self wc h
  | cfgAuto b => exact (execOp_counts_cfg c w self wc h).1 b
  | cfgBuf b => exact (execOp_counts_cfg c w self wc h).2.1 b
  | cfgPct b => exact (execOp_counts_cfg c w self wc h).2.2 b
  | cloneN r n => exact execOp_counts_cloneN c w self wc r n h hself
  | dropN r n => exact execOp_counts_dropN c w self wc r n h hself
  | downN r n => exact execOp_counts_downN c w self wc r n h hself
  | wdropN r n => exact execOp_counts_wdropN c w self wc r n h
end RustCc
