import RustCcModel.Proofs.CountsOps4
/-! More building blocks for the `Counts` invariant: allocation, table store with replacement, leaky field
updates, buffer replacement, bulk updates, `takeField`. -/
namespace RustCc
open World
variable {ex : Bool}

/-- Close `CountsG ex w'` from `CountsH ex w'' []` where `w'` differs from `w''` in fields the invariant does not read. -/
macro "counts_congr " h:term : tactic =>
  `(tactic| (refine CountsH.toCounts0 (CountsH.congr $h ?_ ?_ ?_ ?_ ?_ ?_ ?_) <;> rfl))

/-! ### More blocks: allocation, table store with replacement, leaky field update, buffer replacement -/

theorem fieldRefs_alloc (w : World) (o : Obj) (ab : Nat) (x : Id) (ho : fieldsOf o = []) :
    fieldRefs { w with next := w.next + 1, heap := w.heap.set w.next o, allocBytes := ab } x = fieldRefs w x := by
  unfold fieldRefs
  show ((List.range (w.next + 1)).map fun u => (fieldsOf ((w.heap.set w.next o) u)).count x).sum = _
  rw [List.range_succ, List.map_append, List.sum_append]
  have h1 : ((List.range w.next).map fun u => (fieldsOf ((w.heap.set w.next o) u)).count x).sum
      = ((List.range w.next).map fun u => (fieldsOf (w.heap u)).count x).sum := by
    apply sum_range_congr
    intro u hu
    have : u ≠ w.next := Nat.ne_of_lt hu
    simp [Heap.set, this]
  rw [h1]
  simp [Heap.set, ho]

/-- Allocation of a box with empty pointer fields at the next identity: `o.rc` pointers to it are in flight. -/
theorem CountsH.alloc {w : World} {E : List Id} (h : CountsH ex w E) (o : Obj) (ab : Nat) (ho : fieldsOf o = []) :
    CountsH ex { w with next := w.next + 1, heap := w.heap.set w.next o, allocBytes := ab } (List.replicate o.rc w.next ++ E) := by
  have hr : ∀ x, refs { w with next := w.next + 1, heap := w.heap.set w.next o, allocBytes := ab } x = refs w x := by
    intro x
    unfold refs
    rw [fieldRefs_alloc w o ab x ho]
  have hE : E.count w.next = 0 := Nat.eq_zero_of_add_eq_zero_left (h.fresh w.next (Nat.le_refl _))
  have hR : refs w w.next = 0 := Nat.eq_zero_of_add_eq_zero_right (h.fresh w.next (Nat.le_refl _))
  refine ⟨?_, ?_, ?_, ?_, ?_, ?_⟩
  · intro x
    rw [hr, List.count_append, count_replicate_self]
    by_cases hxn : w.next = x
    · subst hxn
      simp [Heap.set]; omega
    · have hxn' : ¬ x = w.next := fun e => hxn e.symm
      have := h.le x
      simp [Heap.set, hxn', hxn]; omega
  · intro hex x
    rw [hr, List.count_append, count_replicate_self]
    by_cases hxn : w.next = x
    · subst hxn
      simp [Heap.set]; omega
    · have hxn' : ¬ x = w.next := fun e => hxn e.symm
      have := h.ge hex x
      simp [Heap.set, hxn', hxn]; omega
  · intro x hx
    have hx' : w.next + 1 ≤ x := hx
    rw [hr, List.count_append, count_replicate_self]
    have := h.fresh x (Nat.le_of_succ_le hx')
    have hxn : ¬ w.next = x := Nat.ne_of_lt hx'
    simp [hxn]; omega
  · intro f hf i hi
    exact Nat.lt_succ_of_lt (h.frames f hf i hi)
  · intro x hx
    exact Nat.lt_succ_of_lt (h.pcb x hx)
  · intro x hx
    have hx' : w.next + 1 ≤ x := hx
    exact h.mfresh x (Nat.le_of_succ_le hx')

/-- `H[k] = Some(cc)` for a pointer in flight; a previous entry is dropped by a frame; out of range: leaked. -/
theorem CountsH.putH {w : World} {E : List Id} {y : Id} (h : CountsH ex w (y :: E)) (k : Nat)
    (hkx : ex = true → k < w.H.length) : CountsH ex (w.putH k y) E := by
  unfold World.putH
  split
  · rename_i old hold
    have hk : k < w.H.length := by
      cases Nat.lt_or_ge k w.H.length with
      | inl h => exact h
      | inr hge => simp [World.getH, List.getD_eq_getElem?_getD, List.getElem?_eq_none hge] at hold
    have h1 : CountsH ex (w.setH k none) (y :: old :: E) :=
      (h.takeTable hold).of_count (by intro z; simp [List.count_cons]; omega)
    have h2 : CountsH ex ((w.setH k none).setH k (some y)) (old :: E) :=
      h1.putTable (by simp [World.getH, World.setH, List.getD_eq_getElem?_getD, hk]) (by simpa [World.setH] using hk)
    have e : (w.setH k none).setH k (some y) = w.setH k (some y) := by simp [World.setH, List.set_set]
    rw [e] at h2
    exact CountsH.pushFrame (.dropCc old) (by simpa [Frame.holds] using h2) (by simp [Frame.ids])
  · rename_i hnone
    cases Nat.lt_or_ge k w.H.length with
    | inl hk => exact h.putTable hnone hk
    | inr hge =>
      have e : w.setH k (some y) = w := by simp [World.setH, List.set_eq_of_length_le hge]
      rw [e]
      cases ex with
      | true => exact absurd (hkx rfl) (Nat.not_lt.2 hge)
      | false => exact h.forget (by intro z; simp [List.count_cons])

/-- Field update that may lose pointers (overwriting without dropping), never creates one out of nothing. -/
theorem CountsH.updFields_le {w : World} {E : List Id} (t : Id) (F : Obj → Obj) (inn : List Id)
    (h : CountsH ex w (inn ++ E)) (ht : t < w.next)
    (hF : ∀ x, (fieldsOf (F (w.heap t))).count x ≤ (fieldsOf (w.heap t)).count x + inn.count x)
    (hFe : ex = true → ∀ x, (fieldsOf (F (w.heap t))).count x = (fieldsOf (w.heap t)).count x + inn.count x)
    (hrc : (F (w.heap t)).rc = (w.heap t).rc) (hbl : (F (w.heap t)).boxLive = (w.heap t).boxLive) :
    CountsH ex (w.upd t F) E := by
  have e : ∀ x, refs (w.upd t F) x ≤ refs w x + inn.count x := by
    intro x
    have h1 := refs_upd w t F x ht
    have h2 := hF x
    omega
  have hheap : ∀ x, ((w.upd t F).heap x).rc = (w.heap x).rc ∧ ((w.upd t F).heap x).boxLive = (w.heap x).boxLive := by
    intro x
    by_cases hx : x = t
    · subst hx; simp [hrc, hbl]
    · simp [upd, Heap.set, hx]
  refine ⟨?_, ?_, ?_, h.frames, h.pcb, h.mfresh⟩
  · intro x
    have h1 := h.le x
    have h2 := e x
    rw [(hheap x).1]
    simp only [List.count_append] at h1 ⊢
    omega
  · intro hex x
    have h1 := h.ge hex x
    have h2 := refs_upd w t F x ht
    have h3 := hFe hex x
    rw [(hheap x).1]
    simp only [List.count_append] at h1 ⊢
    omega
  · intro x hx
    have hx' : w.next ≤ x := hx
    have h1 := h.fresh x hx'
    have h2 := e x
    simp only [List.count_append] at h1 ⊢
    omega

/-- Replacing the buffer by identities that are allocated. -/
theorem CountsH.setPc {w : World} {E : List Id} (h : CountsH ex w E) (l : List Id) (hl : ∀ x ∈ l, x < w.next) :
    CountsH ex { w with pc := l } E :=
  h.same (fun _ => rfl) (fun _ => rfl) rfl (fun _ hf => hf) (fun x hx => Or.inr (hl x hx)) h.mfresh

/-- A change of one object that raises its count by `n`: `n` more pointers in flight. -/
theorem CountsH.incrRcF {w : World} {E : List Id} (h : CountsH ex w E) (y : Id) (n : Nat) (F : Obj → Obj) (hy : y < w.next)
    (hF : fieldsOf (F (w.heap y)) = fieldsOf (w.heap y)) (hrc : (F (w.heap y)).rc = (w.heap y).rc + n)
    (hbl : (F (w.heap y)).boxLive = (w.heap y).boxLive) :
    CountsH ex (w.upd y F) (List.replicate n y ++ E) := by
  refine ⟨?_, ?_, ?_, h.frames, h.pcb, h.mfresh⟩
  · intro x
    rw [refs_upd_same w y _ x hF, List.count_append, count_replicate_self]
    by_cases hxy : y = x
    · subst hxy
      have := h.le y
      simp [hrc]; omega
    · have hxy' : ¬ x = y := fun e => hxy e.symm
      have := h.le x
      simp [upd, Heap.set, hxy', hxy]; omega
  · intro hex x
    rw [refs_upd_same w y _ x hF, List.count_append, count_replicate_self]
    by_cases hxy : y = x
    · subst hxy
      have := h.ge hex y
      simp [hrc]; omega
    · have hxy' : ¬ x = y := fun e => hxy e.symm
      have := h.ge hex x
      simp [upd, Heap.set, hxy', hxy]; omega
  · intro x hx
    have hx' : w.next ≤ x := hx
    have := h.fresh x hx'
    have hxy : ¬ y = x := fun e => by subst e; exact absurd hy (Nat.not_lt.2 hx')
    rw [refs_upd_same w y _ x hF, List.count_append, count_replicate_self]
    simp [hxy]; omega

theorem CountsH.freeAll (c : Cfg) : ∀ (l : List Id) {w : World}, CountsH ex w [] → (∀ x ∈ l, (w.heap x).rc = 0) →
    CountsH ex (l.foldl (fun w x => (if c.weak then w.dropMetadata x else w).freeBox x) w) []
  | [], _, h, _ => h
  | x :: l, w, h, hz => by
    simp only [List.foldl_cons]
    have hx0 := hz x (List.mem_cons_self ..)
    apply CountsH.freeAll c l
    · split
      · exact (h.dropMetadata x).freeBox_of_rc x (by simpa using hx0)
      · exact h.freeBox_of_rc x hx0
    · intro y hy
      have hy0 := hz y (List.mem_cons_of_mem _ hy)
      split <;> (rw [freeBox_rc]; split <;> simp [hy0])

theorem CountsH.updAll_same {E : List Id} (F : Obj → Obj) (hF : ∀ o, fieldsOf (F o) = fieldsOf o) (hrc : ∀ o, (F o).rc = o.rc)
    (hbl : ∀ o, (F o).boxLive = o.boxLive) : ∀ (l : List Id) {w : World}, CountsH ex w E → CountsH ex (w.updAll l F) E
  | [], _, h => h
  | x :: l, w, h => by
    have h1 : CountsH ex (w.upd x F) E := h.upd_same x F (hF _) (hrc _)
    exact CountsH.updAll_same F hF hrc hbl l h1

theorem firstSome_count : ∀ (l : List (Option Id)) (y : Id) (s : List (Option Id)), firstSome l = some (y, s) →
    ∀ x, (optIds s).count x + [y].count x = (optIds l).count x
  | [], _, _, h => by simp [firstSome] at h
  | some z :: r, y, s, h => by
    simp only [firstSome, Option.some.injEq, Prod.mk.injEq] at h
    obtain ⟨rfl, rfl⟩ := h
    intro x; simp [optIds, List.count_cons]
  | none :: r, y, s, h => by
    simp only [firstSome, Option.map_eq_some_iff] at h
    obtain ⟨⟨y', r'⟩, hr, he⟩ := h
    simp only [Prod.mk.injEq] at he
    obtain ⟨rfl, rfl⟩ := he
    intro x
    have := firstSome_count r y' r' hr x
    simpa [optIds] using this

theorem takeField_cc {o o' : Obj} {y : Id} (h : takeField o = (.cc y, o')) :
    (∀ x, (fieldsOf o').count x + [y].count x = (fieldsOf o).count x) ∧ o'.rc = o.rc ∧ o'.boxLive = o.boxLive := by
  unfold takeField at h
  split at h
  · rename_i y1 s hs
    simp only [Prod.mk.injEq, Field.cc.injEq] at h
    obtain ⟨rfl, rfl⟩ := h
    refine ⟨fun x => ?_, rfl, rfl⟩
    have := firstSome_count _ _ _ hs x
    simp only [fieldsOf, List.count_append] at this ⊢; omega
  · split at h
    · rename_i y1 s hs
      simp only [Prod.mk.injEq, Field.cc.injEq] at h
      obtain ⟨rfl, rfl⟩ := h
      refine ⟨fun x => ?_, rfl, rfl⟩
      have := firstSome_count _ _ _ hs x
      simp only [fieldsOf, List.count_append] at this ⊢; omega
    · split at h
      · simp at h
      · split at h
        · rename_i m hm
          simp only [Prod.mk.injEq, Field.cc.injEq] at h
          obtain ⟨rfl, rfl⟩ := h
          refine ⟨fun x => ?_, rfl, rfl⟩
          simp only [fieldsOf, List.count_append, hm]; simp; omega
        · simp at h

theorem takeField_weak {o o' : Obj} {y : Id} (h : takeField o = (.weak y, o')) :
    fieldsOf o' = fieldsOf o ∧ o'.rc = o.rc ∧ o'.boxLive = o.boxLive := by
  unfold takeField at h
  split at h
  · simp at h
  · split at h
    · simp at h
    · split at h
      · simp only [Prod.mk.injEq, Field.weak.injEq] at h
        obtain ⟨_, rfl⟩ := h
        exact ⟨rfl, rfl, rfl⟩
      · split at h <;> simp at h

end RustCc
