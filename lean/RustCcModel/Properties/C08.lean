import RustCcModel.Proofs.CtlSimp
import RustCcModel.Proofs.DroppedMono
import RustCcModel.Proofs.FinBeforeDrop
/-! # C08 — `Weak::upgrade` succeeds exactly while the value is alive -/
namespace RustCc.C08
open World

/-- The value behind a weak pointer is *alive*: side record still attached to a box, at least one
`Cc` exists, and no destruction of the value has begun (the dropped flag is set before the first
destructor of its garbage set, or before its own destructor on the reference-count path). -/
def alive (w : World) (x : Id) : Prop := (w.metas x).accessible = true ∧ (w.heap x).rc ≠ 0 ∧ (w.heap x).dropped = false

/-- `Weak::strong_count` is the number of `Cc`s while alive and 0 otherwise; `upgrade` succeeds iff it is non-zero. -/
theorem strong_count_spec (w : World) (x : Id) :
    (alive w x → w.weakStrong (.to x) = (w.heap x).rc) ∧ (¬ alive w x → w.weakStrong (.to x) = 0) := by
  unfold alive weakStrong
  constructor
  · rintro ⟨h1, h2, h3⟩; simp [h1, h2, h3]
  · intro h
    by_cases h1 : (w.metas x).accessible = true
    · simp only [h1, if_true]
      by_cases h2 : (w.heap x).rc = 0
      · simp [h2]
      · by_cases h3 : (w.heap x).dropped = true
        · simp [h3]
        · exact absurd ⟨h1, h2, by simpa using h3⟩ h
    · simp [h1]

/-- `Weak::new()` never upgrades. -/
theorem dangling_never_upgrades (w : World) : w.weakStrong .dangling = 0 := rfl

/-- `upgrade` on a dead value returns `None` and changes nothing. -/
theorem upgrade_none (c : Cfg) (w : World) (self wc : Option Id) (k : Nat) (x : Id) (i : Nat)
    (hc : c.weak = true) (hw : w.getW i = some (.to x)) (hk : (w.getH k).isSome = false ∧ k < w.H.length)
    (hd : ¬ alive w x) : execOp c w self wc (.up (.w i) k) = { w with ret := .none } := by
  have hs := (strong_count_spec w x).2 hd
  simp only [execOp, hc, resolveW, hw]
  have : ¬ ((w.getH k).isSome = true ∨ k ≥ w.H.length) := by
    intro h; rcases h with h | h
    · simp [hk.1] at h
    · omega
  simp [this, hs]

/-- `upgrade` on a live value returns a pointer to the *same* allocation, with one more strong count. -/
theorem upgrade_some (c : Cfg) (w : World) (self wc : Option Id) (k : Nat) (x : Id) (i : Nat)
    (hc : c.weak = true) (hw : w.getW i = some (.to x)) (hk : (w.getH k).isSome = false ∧ k < w.H.length)
    (ha : alive w x) (hmax : (w.heap x).rc < c.rcMax) :
    execOp c w self wc (.up (.w i) k) = { ((w.cloneOk x).setH k (some x)) with ret := .some x } := by
  have hs := (strong_count_spec w x).1 ha
  simp only [execOp, hc, resolveW, hw]
  have : ¬ ((w.getH k).isSome = true ∨ k ≥ w.H.length) := by
    intro h; rcases h with h | h
    · simp [hk.1] at h
    · omega
  have hne : w.weakStrong (.to x) ≠ 0 := by rw [hs]; exact ha.2.1
  simp [this, hne, canClone, hmax]

/-- The collector marks *every* member of a garbage set dropped before the first destructor of the set
runs: from `Drop` impls and cleaning actions of the same set, upgrades of weak pointers into the set return `None`. -/
theorem dealloc_marks_all_dropped (c : Cfg) (w : World) (N : List Id) (hc : c.weak = true) :
    ∀ x ∈ N, ((startDealloc c w N).heap x).dropped = true := by
  unfold startDealloc
  simp only [hc, if_true]
  suffices h : ∀ (N : List Id) (w0 : World) (x : Id), (x ∈ N ∨ (w0.heap x).dropped = true) →
      ((w0.updAll N fun o => { o with dropped := true }).heap x).dropped = true by
    intro x hx; exact h N _ x (Or.inl hx)
  intro N
  induction N with
  | nil => intro w0 x hx; rcases hx with hx | hx; cases hx; simpa [updAll] using hx
  | cons y r ih =>
    intro w0 x hx
    simp only [updAll, List.foldl_cons]
    apply ih
    by_cases hxy : x = y
    · right; subst hxy; simp [upd]
    · rcases hx with hx | hx
      · left; rcases List.mem_cons.1 hx with h | h
        · exact absurd h hxy
        · exact h
      · right; simp [upd, Heap.set, hxy, hx]

/-- The reference-count path does the same for the single object it destroys. -/
theorem destroyLast_marks_dropped (c : Cfg) (w : World) (x : Id) (hc : c.weak = true) :
    ((destroyLast c w x).heap x).dropped = true := by
  unfold destroyLast
  simp [hc, push, upd]

/-- Weak pointers never change what a collection reclaims: dropping a `Weak` changes no counter, mark,
field or buffer entry — the collector's whole input. -/
theorem weakDrop_invisible_to_collector (w : World) (r : WRef) :
    (w.weakDrop r).heap = w.heap ∧ (w.weakDrop r).pc = w.pc := by
  unfold weakDrop
  cases r with
  | dangling => exact ⟨rfl, rfl⟩
  | to x => simp only; split <;> exact ⟨rfl, rfl⟩

/-- **The collector is blind to everything weak**: two worlds that agree on the strong side of every object — counts, tracing
counters, marks, value liveness, kind, traced / untraced / cleaner fields, stored actions — and on the buffer and the
allocation frontier give the collector the same graph and hence the same garbage set, whatever their `Weak` tables, weak
fields, side records, `dropped` / `hasMeta` flags are. So no history of `downgrade` / `upgrade`-that-failed / `Weak::clone` /
`Weak::drop` keeps a value alive or changes what a collection reclaims. -/
theorem collector_blind_to_weaks (w w' : World) (hpc : w.pc = w'.pc) (hn : w.next = w'.next)
    (hs : ∀ i, (w.heap i).rc = (w'.heap i).rc ∧ (w.heap i).tc = (w'.heap i).tc ∧ (w.heap i).mark = (w'.heap i).mark ∧
      (w.heap i).valLive = (w'.heap i).valLive ∧ (w.heap i).kind = (w'.heap i).kind ∧ (w.heap i).slots = (w'.heap i).slots ∧
      (w.heap i).uslots = (w'.heap i).uslots ∧ (w.heap i).cmap = (w'.heap i).cmap ∧ (w.heap i).aslots = (w'.heap i).aslots) :
    toT1 w = toT1 w' ∧
      (T1.tracePhases w.next (toT1 w) w.pc).nonroot = (T1.tracePhases w'.next (toT1 w') w'.pc).nonroot := by
  have e : toT1 w = toT1 w' := by
    funext i
    obtain ⟨h1, h2, h3, h4, h5, h6, h7, h8, h9⟩ := hs i
    simp only [toT1, h1, h2, h3, h4, h5, h6, h7, h8, h9]
  exact ⟨e, by rw [e, hpc, hn]⟩

/-! ### Over histories (no panic unwound so far) -/

/-- **`upgrade` never hands out a destroyed, half-destroyed or half-built value**: in every world of every panic-free
history, if a `Weak` to `x` reports a non-zero `strong_count()` — exactly when `upgrade()` succeeds (`strong_count_spec`,
`upgrade_some`) — then the allocation of `x` exists and its value is intact: not dropped, not handed to its destructor (the
collector flags the whole garbage set before the first destructor and the flag is never cleared: `Proofs/DroppedMono.lean`),
not moved out, not under construction by `new_cyclic`. -/
theorem upgrade_only_intact (c : Cfg) (nH nW nK : Nat) (w : World) (hc : c.weak = true) (h : ReachableR c nH nW nK w) (x : Id)
    (hu : w.weakStrong (.to x) ≠ 0) : (w.heap x).boxLive = true ∧ (w.heap x).valLive = true := by
  have := upgrade_only_alive hc h x hu
  simpa [Obj.lv] using this

/-- **In every reachable world** (caught panics included) every member of a list the collector is destroying is flagged
`dropped` for the whole duration of `deallocate_list`, so no `Weak` to any member — destroyed already or not — can be
upgraded from the destructors. -/
theorem garbage_set_not_upgradable (c : Cfg) (nH nW nK : Nat) (w : World) (hc : c.weak = true) (h : Reachable c nH nW nK w)
    (N r : List Id) (d : Bool) (hf : Frame.deallocDrop N r d ∈ w.stack) (x : Id) (hx : x ∈ N) : w.weakStrong (.to x) = 0 := by
  have := reachable_dd hc h N r d hf x hx
  unfold weakStrong
  simp [this]

end RustCc.C08
