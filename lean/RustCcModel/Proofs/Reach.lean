import RustCcModel.Proofs.FlagsStep
/-! Runs of the machine (`run`, `execTop`: what the driver executes) stay inside `Reachable`. -/
namespace RustCc
open World

theorem reachable_run (c : Cfg) (nH nW nK : Nat) : ∀ (fuel : Nat) (w : World), Reachable c nH nW nK w →
    Reachable c nH nW nK (run c fuel w)
  | 0, _, h => h
  | fuel + 1, w, h => by
    unfold run
    split
    · exact h
    · split
      · exact h
      · exact reachable_run c nH nW nK fuel _ (.step w h)

theorem reachable_execTop (c : Cfg) (nH nW nK : Nat) (fuel : Nat) (w : World) (op : Op) (h : Reachable c nH nW nK w)
    (hs : w.stack = []) (hm : w.mode = .running ∨ w.mode = .aborted ∨ w.mode = .stuck) :
    Reachable c nH nW nK (execTop c fuel w op) := by
  unfold execTop
  split
  · exact h
  · rename_i hn
    have hr : w.mode = .running := by
      rcases hm with h1 | h1 | h1
      · exact h1
      · exact absurd (Or.inl h1) hn
      · exact absurd (Or.inr h1) hn
    exact reachable_run c nH nW nK fuel _ (.top w op h hs hr)
end RustCc
