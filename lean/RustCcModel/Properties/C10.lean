import RustCcModel.Proofs.CtlSimp
/-! # C10 — cleaning actions run at most once, exactly once by the time the `Cleaner` is gone

An action lives in exactly one slot of its map; both ways of running it (`Cleanable::clean`, the drop
glue of the map) empty the slot *before* the action's script is entered, so no action can run twice;
dropping a `Cleanable` only drops a `Weak`. -/
namespace RustCc.C10
open World

/-- The drop glue of the map empties slot `i` before running its action, and moves on to slot `i + 1`
(also when that action panics: the frame below is cleanup-capable). -/
theorem dropActions_empties_slot_first (c : Cfg) (w : World) (m : Id) (i : Nat) (a : Action) (unw : Bool)
    (hi : i < (w.heap m).aslots.length) (ha : (w.heap m).aslots.getD i none = some a) :
    ((stepFrame c w (.dropActions m i unw)).heap m).aslots.getD i none = none := by
  simp only [stepFrame, hi, if_true, ha]
  split <;> simp [raiseLogged, raise, emit, push, upd, hi] <;> (try split) <;> simp [hi]

/-- Dropping a `Cleanable` neither runs nor cancels its action: it only drops a `Weak` to the map. -/
theorem cdrop_only_drops_weak (c : Cfg) (w : World) (self wc : Option Id) (k : Nat) (m : Id) (i aid : Nat)
    (hc : c.clean = true) (hk : w.getK k = some (m, i, aid)) :
    execOp c w self wc (.cdrop k) = { ((w.setK k none).weakDrop (.to m)) with ret := .ok } := by
  simp [execOp, hc, hk]

/-- `clean()` once the map's value is gone (dropped flag / no strong pointer / no allocation) is a no-op. -/
theorem clean_after_drop_noop (c : Cfg) (w : World) (self wc : Option Id) (k : Nat) (m : Id) (i aid : Nat)
    (hc : c.clean = true) (hk : w.getK k = some (m, i, aid)) (hd : w.weakStrong (.to m) = 0) :
    execOp c w self wc (.clean k) = { w with ret := .ok } := by
  simp only [execOp, hc, hk]
  have hd' : ({ w with ret := Ret.ok } : World).weakStrong (.to m) = 0 := hd
  simp [hd']

end RustCc.C10
