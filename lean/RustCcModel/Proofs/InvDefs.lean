import RustCcModel.Proofs.Counts
/-! Definitions of the global machine invariant `Inv` (marks = lists, buffered ⇒ `tc = 0`, freed ⇒ no
count and no mark, objects owned by frames, shape of the stack). Proofs are in `Proofs/Inv*.lean`;
`CheckInv.lean` evaluates the executable version after every micro-step of generated programs. -/
namespace RustCc
open World
open T1 (Mark)

/-- The collector list a frame holds (`non_root_list` / `ToDropList`): its members are marked `InList`. -/
def Frame.listed : Frame → List Id
  | .finalizePass N _ _ _ => N
  | .deallocDrop N _ _ => N
  | _ => []

/-- Objects whose count is 0 and that the frame is going to free: the object being destroyed by
`Cc::drop`, the box under construction in `new_cyclic`. -/
def Frame.zeroed : Frame → List Id
  | .afterDropValue x _ => [x]
  | .newCyclicEnd _ id _ _ => [id]
  | _ => []

def Frame.cyc : Frame → List Id
  | .newCyclicEnd _ id _ _ => [id]
  | _ => []

/-- The object being finalized by a plain `Cc::drop`: the frame holds the last pointer to it, so no collection
started from its finalizer can take it for garbage. -/
def Frame.pinned : Frame → List Id
  | .dropCcAfterFin x _ => [x]
  | _ => []

def listed (st : List Frame) : List Id := st.flatMap Frame.listed
def pinned (st : List Frame) : List Id := st.flatMap Frame.pinned
def zeroed (st : List Frame) : List Id := st.flatMap Frame.zeroed
def cycs (st : List Frame) : List Id := st.flatMap Frame.cyc

def Frame.isPass : Frame → Bool
  | .collectPass | .finalizePass .. | .deallocDrop .. => true
  | _ => false

def Frame.isLoop : Frame → Bool
  | .collectLoop .. => true
  | _ => false

/-- Every pass frame (`__collect` and its two loops) sits directly on the `collect` frame. -/
def stackWF : List Frame → Bool
  | [] => true
  | f :: rest =>
    (if f.isPass then (match rest with | g :: _ => g.isLoop | [] => false) else true) && stackWF rest

/-- What the invariant reads of an object. -/
structure Core where
  rc : Nat
  mark : Mark
  tc : Nat
  boxLive : Bool
  valLive : Bool

def Obj.core (o : Obj) : Core := ⟨o.rc, o.mark, o.tc, o.boxLive, o.valLive⟩
def World.cores (w : World) : Id → Core := fun y => (w.heap y).core

/-- The object-level part of the invariant, as a predicate of the objects' cores, the buffer and the three lists
read off the stack: `L` = members of the collector's list, `Z` = boxes with count 0 owned by a frame, `Cy` = boxes
under construction. -/
structure OI (h : Id → Core) (pc L Z Cy : List Id) : Prop where
  pcNodup : pc.Nodup
  mPc : ∀ x, (h x).mark = .pc ↔ x ∈ pc
  tc0 : ∀ x ∈ pc, (h x).tc = 0
  noQueue : ∀ x, (h x).mark ≠ .inQueue
  mList : ∀ x, (h x).mark = .inList ↔ x ∈ L
  dead : ∀ x, (h x).boxLive = false → (h x).rc = 0 ∧ (h x).mark = .non
  zero : ∀ x ∈ Z, (h x).boxLive = true ∧ (h x).rc = 0 ∧ (h x).mark = .non
  cyc : ∀ x ∈ Cy, (h x).valLive = false
  cycZ : ∀ x ∈ Cy, x ∈ Z
  ownNodup : (Z ++ L).Nodup

/-- **The machine invariant.** -/
structure Inv (w : World) : Prop where
  oi : OI w.cores w.pc (listed w.stack) (zeroed w.stack) (cycs w.stack)
  wf : stackWF w.stack = true
  pin : ∀ x ∈ pinned w.stack, x ∉ listed w.stack

/-- Identities not yet handed out have no box. -/
def Fresh (w : World) : Prop := ∀ x, w.next ≤ x → (w.heap x).boxLive = false

end RustCc
