import RustCcModel.Proofs.InvWorld
/-! The invariant `Inv` through every operation (`execOp`). -/
namespace RustCc
open World
open T1 (Mark)

/-- A step that pushes plain frames and re-establishes the object invariant for the same owned lists. -/
theorem Inv.step {w w' : World} (hi : Inv w) (hoi : WOI w' (listed w.stack) (zeroed w.stack) (cycs w.stack))
    (fs : List Frame) (hfs : ∀ f ∈ fs, f.plain = true) (hs : w'.stack = fs ++ w.stack) : Inv w' := by
  obtain ⟨h1, h2, h3, h4, h5⟩ := lists_append_plain fs w.stack hfs
  refine ⟨?_, ?_, ?_⟩
  · rw [hs, h1, h2, h3]; exact hoi
  · rw [hs, h4]; exact hi.wf
  · rw [hs, h1, h5]; exact hi.pin

/-- A step that changes nothing the invariant reads, and pushes plain frames. -/
theorem Inv.step_same {w w' : World} (hi : Inv w) (hc : w'.cores = w.cores) (hp : w'.pc = w.pc)
    (fs : List Frame) (hfs : ∀ f ∈ fs, f.plain = true) (hs : w'.stack = fs ++ w.stack) : Inv w' :=
  hi.step (WOI.same hi.oi hc hp) fs hfs hs

macro "plain_tac" : tactic =>
  `(tactic| (simp [Frame.plain, Frame.listed, Frame.zeroed, Frame.cyc, Frame.pinned, Frame.isPass]))

/-- Close `Inv w'` when `w'` differs from `w` only in what the invariant does not read, plus pushed plain frames. -/
macro "inv_same " hi:ident fs:term : tactic =>
  `(tactic| exact Inv.step_same $hi (by first | rfl | simp [cores_upd_neutral, Obj.core]) (by first | rfl | simp) $fs (by plain_tac)
      (by first | rfl | simp))

/-! ### Evidence that a resolved pointer has a non-zero count -/

theorem rc_of_refs_pos {w : World} (h : Counts w) {y : Id} (hp : 0 < refs w y) : (w.heap y).rc ≠ 0 := by
  have := h.le y; omega

theorem getH_rc {w : World} (h : Counts w) {k : Nat} {y : Id} (hk : w.getH k = some y) : (w.heap y).rc ≠ 0 := by
  apply rc_of_refs_pos h
  have := getH_count hk
  unfold refs; omega

theorem field_rc {w : World} (h : Counts w) {s y : Id} (hs : s < w.next) (hy : y ∈ fieldsOf (w.heap s)) : (w.heap y).rc ≠ 0 := by
  apply rc_of_refs_pos h
  have h1 := count_pos_of_mem hy
  have h2 := count_le_fieldRefs w s y hs
  unfold refs; omega

theorem resolveC_rc {w : World} (h : Counts w) {self : Option Id} (hself : ∀ s, self = some s → s < w.next)
    {r : CRef} {y : Id} (hr : w.resolveC self r = some y) : (w.heap y).rc ≠ 0 := by
  cases r with
  | h k => exact getH_rc h hr
  | sf i =>
    cases self with
    | none => simp [resolveC] at hr
    | some s => exact field_rc h (hself s rfl) (slot_mem_fields (by simpa [resolveC] using hr))
  | su i =>
    cases self with
    | none => simp [resolveC] at hr
    | some s => exact field_rc h (hself s rfl) (uslot_mem_fields (by simpa [resolveC] using hr))

theorem weakStrong_rc {w : World} {x : Id} (hs : w.weakStrong (.to x) ≠ 0) : (w.heap x).rc ≠ 0 := by
  intro h0
  apply hs
  simp [World.weakStrong, h0]

/-! ### Operations -/

variable (c : Cfg) (w : World) (self wc : Option Id)

theorem execOp_inv_new (k : Nat) (sp : NewSpec) (hi : Inv w) : Inv (execOp c w self wc (.new k sp)) := by
  simp only [execOp]
  split
  · inv_same hi []
  · split
    · inv_same hi [.collectLoop 0 w.finalizing w.dropping, .adjustAfter, .newAlloc k sp]
    · inv_same hi [.newAlloc k sp]

theorem execOp_inv_newCyclic (k : Nat) (sp : NewSpec) (body : Nat) (selfw : Option Nat) (hi : Inv w) :
    Inv (execOp c w self wc (.newCyclic k sp body selfw)) := by
  simp only [execOp]
  split
  · inv_same hi []
  · split
    · inv_same hi [.collectLoop 0 w.finalizing w.dropping, .adjustAfter, .newCyclicAlloc k sp body selfw]
    · inv_same hi [.newCyclicAlloc k sp body selfw]

/-- Operations that touch nothing the invariant reads. -/
macro "inv_neutral_op " hi:ident : tactic =>
  `(tactic| (simp only [execOp]; repeat' split
             all_goals first
               | inv_same $hi []
               | (rename_i y; inv_same $hi [.dropCc y])))

theorem execOp_inv_simple (hi : Inv w) :
    Inv (execOp c w self wc .nop) ∧ Inv (execOp c w self wc .panic) ∧ (∀ kd n j, Inv (execOp c w self wc (.fault kd n j))) ∧
    (∀ b, Inv (execOp c w self wc (.cfgAuto b))) ∧ (∀ b, Inv (execOp c w self wc (.cfgBuf b))) ∧
    (∀ b, Inv (execOp c w self wc (.cfgPct b))) := by
  refine ⟨?_, ?_, ?_, ?_, ?_, ?_⟩
  · inv_neutral_op hi
  · inv_neutral_op hi
  · intro kd n j; cases kd <;> inv_neutral_op hi
  · intro b; inv_neutral_op hi
  · intro b; inv_neutral_op hi
  · intro b; inv_neutral_op hi

theorem execOp_inv_clone (r : CRef) (k : Nat) (hc : Counts w) (hi : Inv w) (hself : ∀ s, self = some s → s < w.next) :
    Inv (execOp c w self wc (.clone r k)) := by
  simp only [execOp]
  split
  · rename_i y hy
    have hr := resolveC_rc hc hself hy
    split
    · inv_same hi []
    · split
      · exact hi.step (WOI.same (WOI.cloneOk hi.oi y hr) rfl rfl) [] (by plain_tac) (by simp)
      · inv_same hi []
  · inv_same hi []

theorem execOp_inv_drop (k : Nat) (hi : Inv w) : Inv (execOp c w self wc (.drop k)) := by
  simp only [execOp]
  split
  · rename_i x hx; inv_same hi [.dropCc x]
  · inv_same hi []

theorem setSlot_core (o : Obj) (s : Slot) (v) : (setSlot o s v).core = o.core := by cases s <;> rfl

theorem execOp_inv_setf (n : NRef) (s : Slot) (r : CRef) (hc : Counts w) (hi : Inv w)
    (hself : ∀ s, self = some s → s < w.next) : Inv (execOp c w self wc (.setf n s r)) := by
  simp only [execOp]
  split
  · rename_i t x ht hx
    have hr := resolveC_rc hc hself hx
    split
    · rename_i old hold
      split
      · have h2 : WOI ((w.cloneOk x).upd t fun o => setSlot o s (some x)) (listed w.stack) (zeroed w.stack) (cycs w.stack) :=
          WOI.updN (WOI.cloneOk hi.oi x hr) t _ (setSlot_core _ _ _)
        cases old with
        | none => exact hi.step (WOI.same h2 rfl rfl) [] (by plain_tac) (by simp)
        | some y => exact hi.step (WOI.same h2 rfl rfl) [.dropCc y] (by plain_tac) (by simp)
      · inv_same hi []
    · inv_same hi []
  · inv_same hi []

theorem execOp_inv_movef (n : NRef) (s : Slot) (k : Nat) (hi : Inv w) : Inv (execOp c w self wc (.movef n s k)) := by
  simp only [execOp]
  split
  · inv_same hi []
  · split
    · rename_i t x ht hx
      split
      · rename_i old hold
        have h2 : WOI ((w.setH k none).upd t fun o => setSlot o s (some x)) (listed w.stack) (zeroed w.stack) (cycs w.stack) :=
          WOI.updN (w := w.setH k none) (WOI.same hi.oi rfl rfl) t _ (setSlot_core _ _ _)
        cases old with
        | none => exact hi.step (WOI.same h2 rfl rfl) [] (by plain_tac) (by simp)
        | some y => exact hi.step (WOI.same h2 rfl rfl) [.dropCc y] (by plain_tac) (by simp)
      · inv_same hi []
    · inv_same hi []

theorem execOp_inv_clrf (n : NRef) (s : Slot) (hi : Inv w) : Inv (execOp c w self wc (.clrf n s)) := by
  simp only [execOp]
  split
  · rename_i t ht
    split
    · rename_i y hy
      exact hi.step (WOI.same (WOI.updN hi.oi t (fun o => setSlot o s none) (setSlot_core _ _ _)) rfl rfl) [.dropCc y]
        (by plain_tac) (by simp)
    · inv_same hi []
  · inv_same hi []

theorem execOp_inv_takef (n : NRef) (s : Slot) (k : Nat) (hi : Inv w) : Inv (execOp c w self wc (.takef n s k)) := by
  simp only [execOp]
  split
  · rename_i t ht
    split
    · rename_i y hy
      split
      · inv_same hi []
      · exact hi.step (WOI.same (WOI.updN hi.oi t (fun o => setSlot o s none) (setSlot_core _ _ _)) rfl rfl) []
          (by plain_tac) (by simp)
    · inv_same hi []
  · inv_same hi []

theorem execOp_inv_getf (n : NRef) (s : Slot) (k : Nat) (hc : Counts w) (hi : Inv w)
    (hself : ∀ s, self = some s → s < w.next) : Inv (execOp c w self wc (.getf n s k)) := by
  simp only [execOp]
  split
  · rename_i t ht
    have htlt := resolveN_lt hc hself ht
    split
    · rename_i y hy
      have hr : (w.heap y).rc ≠ 0 := field_rc hc htlt (getSlot_mem_fields hy)
      split
      · inv_same hi []
      · split
        · exact hi.step (WOI.same (WOI.cloneOk hi.oi y hr) rfl rfl) [] (by plain_tac) (by simp)
        · inv_same hi []
    · inv_same hi []
  · inv_same hi []

theorem execOp_inv_markAlive (r : CRef) (hi : Inv w) : Inv (execOp c w self wc (.markAlive r)) := by
  simp only [execOp]
  split
  · rename_i x hx
    exact hi.step (WOI.same (WOI.removeFromList hi.oi x) rfl rfl) [] (by plain_tac) (by simp)
  · inv_same hi []

theorem execOp_inv_finAgain (k : Nat) (hi : Inv w) : Inv (execOp c w self wc (.finAgain k)) := by
  simp only [execOp]
  split
  · split
    · inv_same hi []
    · split
      · inv_same hi []
      · rename_i x hx _ _
        exact hi.step (WOI.same (WOI.updN hi.oi x (fun o => { o with finalized := false }) rfl) rfl rfl) [] (by plain_tac) (by simp)
  · inv_same hi []

end RustCc
