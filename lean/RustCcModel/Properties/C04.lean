import RustCcModel.Proofs.CtlSimp
/-! # C04 — Rc equivalence: last-owner drop reclaims at once; `strong_count` is exact

Step-level behaviour of `Cc::clone` / `Cc::drop` on the count (the global statement — the count equals
the number of pointers that exist — is invariant I1 of DESIGN.md; on every run it is checked on the
implementation by the harness, which enumerates every `Cc` it holds or stored in a field). -/
namespace RustCc.C04
open World

/-- `clone`: exactly one more. -/
theorem clone_count (w : World) (x : Id) : ((w.cloneOk x).heap x).rc = (w.heap x).rc + 1 := by
  unfold cloneOk removeFromList
  split <;> simp [upd]

/-- `clone` touches no other object's count. -/
theorem clone_count_other (w : World) (x y : Id) (h : y ≠ x) : ((w.cloneOk x).heap y).rc = (w.heap y).rc := by
  unfold cloneOk removeFromList
  split <;> simp [upd, Heap.set, h]

/-- `clone` at the maximum panics: nothing is changed but the mode. -/
theorem clone_at_max (c : Cfg) (w : World) (x : Id) (h : (w.heap x).rc ≥ c.rcMax) : w.canClone c x = false := by
  unfold canClone; simp; omega

/-- Dropping one of several pointers, outside a collector list: exactly one less, and the object is buffered. -/
theorem drop_shared (c : Cfg) (w : World) (x : Id) (hm : (w.heap x).mark = .non ∨ (w.heap x).mark = .pc)
    (hrc : (w.heap x).rc ≠ 1) :
    stepFrame c w (.dropCc x) = (w.upd x fun o => { o with rc := o.rc - 1 }).addToList x := by
  simp only [stepFrame]
  have h1 : ¬ ((w.heap x).mark = .inList ∨ (w.heap x).mark = .inQueue) := by
    rcases hm with h | h <;> simp [h]
  rw [if_neg h1, if_neg hrc]

/-- Dropping a pointer to an object inside a collector list only decrements (the collector owns the rest). -/
theorem drop_listed (c : Cfg) (w : World) (x : Id) (hm : (w.heap x).mark = .inList ∨ (w.heap x).mark = .inQueue) :
    stepFrame c w (.dropCc x) = w.upd x fun o => { o with rc := o.rc - 1 } := by
  simp only [stepFrame]; rw [if_pos hm]

/-- Dropping the last pointer, no finalizer due: the destruction starts in the same step — whether
or not the object was buffered. -/
theorem drop_last_destroys (c : Cfg) (w : World) (x : Id) (hm : (w.heap x).mark = .non ∨ (w.heap x).mark = .pc)
    (hrc : (w.heap x).rc = 1) (hf : c.fin = false ∨ (w.heap x).finalized = true) :
    stepFrame c w (.dropCc x) = destroyLast c w x := by
  simp only [stepFrame]
  have h1 : ¬ ((w.heap x).mark = .inList ∨ (w.heap x).mark = .inQueue) := by
    rcases hm with h | h <;> simp [h]
  rw [if_neg h1, if_pos hrc]
  have h2 : ¬ (c.fin = true ∧ (!(w.heap x).finalized) = true) := by
    rcases hf with h | h <;> simp [h]
  rw [if_neg h2]

/-- … with a finalizer due: it is called first (exactly once: the flag is set before the call). -/
theorem drop_last_finalizes_first (c : Cfg) (w : World) (x : Id) (hm : (w.heap x).mark = .non ∨ (w.heap x).mark = .pc)
    (hrc : (w.heap x).rc = 1) (hf : c.fin = true) (hnf : (w.heap x).finalized = false) :
    (stepFrame c w (.dropCc x)).stack = .callFin x :: .dropCcAfterFin x w.finalizing :: w.stack ∧
    ((stepFrame c w (.dropCc x)).heap x).finalized = true := by
  simp only [stepFrame]
  have h1 : ¬ ((w.heap x).mark = .inList ∨ (w.heap x).mark = .inQueue) := by
    rcases hm with h | h <;> simp [h]
  rw [if_neg h1, if_pos hrc]
  have h2 : (c.fin = true ∧ (!(w.heap x).finalized) = true) := by simp [hf, hnf]
  rw [if_pos h2]
  simp [push, upd]

/-- The destruction takes the count to 0 and the object out of the buffer before any user code runs. -/
theorem destroyLast_count (c : Cfg) (w : World) (x : Id) (hrc : (w.heap x).rc = 1) :
    ((destroyLast c w x).heap x).rc = 0 := by
  unfold destroyLast removeFromList
  split <;> split <;> simp [upd, push, hrc]

end RustCc.C04
