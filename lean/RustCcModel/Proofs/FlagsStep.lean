import RustCcModel.Proofs.Flags
import RustCcModel.Proofs.CtlSimp
namespace RustCc
open World

theorem flagsOk_iff (w : World) : FlagsOk w ↔ expected w.stack = some (w.collecting, w.finalizing, w.dropping) := Iff.rfl

@[simp] theorem expected_script (a0 a1 a2 a3) (rest : List Frame) : expected (Frame.script a0 a1 a2 a3 :: rest) = expected rest := expected_cons_neutral _ _ rfl
@[simp] theorem expected_catchTop  (rest : List Frame) : expected (Frame.catchTop  :: rest) = expected rest := expected_cons_neutral _ _ rfl
@[simp] theorem expected_dropCc (a0) (rest : List Frame) : expected (Frame.dropCc a0 :: rest) = expected rest := expected_cons_neutral _ _ rfl
@[simp] theorem expected_dropValue (a0) (rest : List Frame) : expected (Frame.dropValue a0 :: rest) = expected rest := expected_cons_neutral _ _ rfl
@[simp] theorem expected_dropFields (a0 a1) (rest : List Frame) : expected (Frame.dropFields a0 a1 :: rest) = expected rest := expected_cons_neutral _ _ rfl
@[simp] theorem expected_dropActions (a0 a1 a2) (rest : List Frame) : expected (Frame.dropActions a0 a1 a2 :: rest) = expected rest := expected_cons_neutral _ _ rfl
@[simp] theorem expected_actionEnd (a0 a1) (rest : List Frame) : expected (Frame.actionEnd a0 a1 :: rest) = expected rest := expected_cons_neutral _ _ rfl
@[simp] theorem expected_callFin (a0) (rest : List Frame) : expected (Frame.callFin a0 :: rest) = expected rest := expected_cons_neutral _ _ rfl
@[simp] theorem expected_collectPass  (rest : List Frame) : expected (Frame.collectPass  :: rest) = expected rest := expected_cons_neutral _ _ rfl
@[simp] theorem expected_adjustAfter  (rest : List Frame) : expected (Frame.adjustAfter  :: rest) = expected rest := expected_cons_neutral _ _ rfl
@[simp] theorem expected_newAlloc (a0 a1) (rest : List Frame) : expected (Frame.newAlloc a0 a1 :: rest) = expected rest := expected_cons_neutral _ _ rfl
@[simp] theorem expected_newCyclicAlloc (a0 a1 a2 a3) (rest : List Frame) : expected (Frame.newCyclicAlloc a0 a1 a2 a3 :: rest) = expected rest := expected_cons_neutral _ _ rfl
@[simp] theorem expected_newCyclicEnd (a0 a1 a2 a3) (rest : List Frame) : expected (Frame.newCyclicEnd a0 a1 a2 a3 :: rest) = expected rest := expected_cons_neutral _ _ rfl
@[simp] theorem expected_regInsert (a0 a1 a2 a3) (rest : List Frame) : expected (Frame.regInsert a0 a1 a2 a3 :: rest) = expected rest := expected_cons_neutral _ _ rfl
@[simp] theorem expected_mapAlloc (a0) (rest : List Frame) : expected (Frame.mapAlloc a0 :: rest) = expected rest := expected_cons_neutral _ _ rfl
@[simp] theorem expected_cleanEnd (a0 a1 a2) (rest : List Frame) : expected (Frame.cleanEnd a0 a1 a2 :: rest) = expected rest := expected_cons_neutral _ _ rfl
@[simp] theorem expected_dropMoved (a0) (rest : List Frame) : expected (Frame.dropMoved a0 :: rest) = expected rest := expected_cons_neutral _ _ rfl
@[simp] theorem expected_dropMany (a0 a1) (rest : List Frame) : expected (Frame.dropMany a0 a1 :: rest) = expected rest := expected_cons_neutral _ _ rfl
@[simp] theorem expected_setRet (a0) (rest : List Frame) : expected (Frame.setRet a0 :: rest) = expected rest := expected_cons_neutral _ _ rfl

@[simp] theorem fromT1_stack (w : World) (h : T1.Heap) : (fromT1 w h).stack = w.stack := rfl
@[simp] theorem fromT1_collecting (w : World) (h : T1.Heap) : (fromT1 w h).collecting = w.collecting := rfl
@[simp] theorem fromT1_finalizing (w : World) (h : T1.Heap) : (fromT1 w h).finalizing = w.finalizing := rfl
@[simp] theorem fromT1_dropping (w : World) (h : T1.Heap) : (fromT1 w h).dropping = w.dropping := rfl

theorem raise_flagsOk (w : World) (h : FlagsOk w) : FlagsOk w.raise := h.ext (raise_ext w)
theorem raiseLogged_flagsOk (w : World) (h : FlagsOk w) : FlagsOk w.raiseLogged := h.ext (raiseLogged_ext w)

theorem shouldCollect_not_collecting (c : Cfg) (w : World) (h : w.shouldCollect c = true) : w.collecting = false := by
  unfold shouldCollect at h
  cases hc : w.collecting <;> simp_all

set_option maxHeartbeats 2000000 in
theorem execOp_flagsOk (c : Cfg) (w : World) (self wc : Option Id) (op : Op) (h : FlagsOk w) :
    FlagsOk (execOp c w self wc op) := by
  cases op with
  | nop => exact h.ext (Ext.of_eq rfl rfl rfl rfl)
  | panic => exact raiseLogged_flagsOk w h
  | fault kind n j => cases kind <;> exact h.ext (Ext.of_eq rfl rfl rfl rfl)
  | _ =>
    simp only [execOp]
    repeat' split
    all_goals first
      | exact h
      | exact raise_flagsOk _ h
      | (rw [flagsOk_iff] at *; simp_all; done)
      | (apply startCollect_ok
         · rw [flagsOk_iff] at *; simp_all
         · rename_i hsc; have := shouldCollect_not_collecting c _ hsc; simpa using this)
      | (apply raise_flagsOk; rw [flagsOk_iff] at *; simp_all; done)
      | (apply raiseLogged_flagsOk; rw [flagsOk_iff] at *; simp_all; done)
      | (apply startCollect_ok
         · rw [flagsOk_iff] at *; simp_all
         · simp_all)

/-! ### Guard frames: what `expected` says below them -/

theorem expected_guard_fin {rest : List Frame} {fl : Flags} {x : Id} {oF : Bool}
    (h : expected (.dropCcAfterFin x oF :: rest) = some fl) :
    ∃ cl d, expected rest = some (cl, oF, d) ∧ fl = (cl, true, d) := by
  simp only [expected] at h
  cases he : expected rest with
  | none => simp [he] at h
  | some b =>
    obtain ⟨cl, f, d⟩ := b
    simp only [he, Option.bind, Frame.flags] at h
    split at h
    · rename_i hf; subst hf; exact ⟨cl, d, rfl, by simpa using h.symm⟩
    · cases h

theorem expected_guard_drop {rest : List Frame} {fl : Flags} {x : Id} {oD : Bool}
    (h : expected (.afterDropValue x oD :: rest) = some fl) :
    ∃ cl f, expected rest = some (cl, f, oD) ∧ fl = (cl, f, true) := by
  simp only [expected] at h
  cases he : expected rest with
  | none => simp [he] at h
  | some b =>
    obtain ⟨cl, f, d⟩ := b
    simp only [he, Option.bind, Frame.flags] at h
    split at h
    · rename_i hf; subst hf; exact ⟨cl, f, rfl, by simpa using h.symm⟩
    · cases h

theorem expected_guard_collect {rest : List Frame} {fl : Flags} {n : Nat} {oF oD : Bool}
    (h : expected (.collectLoop n oF oD :: rest) = some fl) :
    expected rest = some (false, oF, oD) ∧ fl = (true, false, false) := by
  simp only [expected] at h
  cases he : expected rest with
  | none => simp [he] at h
  | some b =>
    obtain ⟨cl, f, d⟩ := b
    simp only [he, Option.bind, Frame.flags] at h
    split at h
    · rename_i hf; obtain ⟨h1, h2, h3⟩ := hf; subst h1 h2 h3
      exact ⟨rfl, by simpa using h.symm⟩
    · cases h

theorem expected_guard_finpass {rest : List Frame} {fl : Flags} {N r : List Id} {hf : Bool} {oF : Bool}
    (h : expected (.finalizePass N r hf oF :: rest) = some fl) :
    ∃ cl d, expected rest = some (cl, oF, d) ∧ fl = (cl, true, d) := by
  simp only [expected] at h
  cases he : expected rest with
  | none => simp [he] at h
  | some b =>
    obtain ⟨cl, f, d⟩ := b
    simp only [he, Option.bind, Frame.flags] at h
    split at h
    · rename_i hf; subst hf; exact ⟨cl, d, rfl, by simpa using h.symm⟩
    · cases h

theorem expected_guard_dealloc {rest : List Frame} {fl : Flags} {N r : List Id} {oD : Bool}
    (h : expected (.deallocDrop N r oD :: rest) = some fl) :
    ∃ cl f, expected rest = some (cl, f, oD) ∧ fl = (cl, f, true) := by
  simp only [expected] at h
  cases he : expected rest with
  | none => simp [he] at h
  | some b =>
    obtain ⟨cl, f, d⟩ := b
    simp only [he, Option.bind, Frame.flags] at h
    split at h
    · rename_i hf; subst hf; exact ⟨cl, f, rfl, by simpa using h.symm⟩
    · cases h

/-! ### One running step -/

theorem foldl_free_ctl (c : Cfg) (N : List Id) : ∀ w : World,
    SameCtl w (N.foldl (fun w x => (if c.weak then w.dropMetadata x else w).freeBox x) w) := by
  induction N with
  | nil => intro w; exact SameCtl.refl w
  | cons x r ih =>
    intro w
    simp only [List.foldl_cons]
    refine SameCtl.trans ?_ (ih _)
    split
    · exact (dropMetadata_ctl w x).trans (freeBox_ctl _ x)
    · exact freeBox_ctl w x

macro "fl_close" h0:ident : tactic => `(tactic| first
      | exact $h0
      | exact raise_flagsOk _ $h0
      | exact raiseLogged_flagsOk _ $h0
      | (rw [flagsOk_iff] at *; simp_all; done)
      | (rw [flagsOk_iff] at *; simp_all [expected, Frame.flags, World.flags]; done)
      | (apply raise_flagsOk; rw [flagsOk_iff] at *; simp_all; done)
      | (apply raiseLogged_flagsOk; rw [flagsOk_iff] at *; simp_all; done)
      | (apply startCollect_ok
         · rw [flagsOk_iff] at *; simp_all
         · simp_all))

set_option maxHeartbeats 4000000 in
theorem stepFrame_flagsOk (c : Cfg) (w0 : World) (f : Frame)
    (h : expected (f :: w0.stack) = some w0.flags) : FlagsOk (stepFrame c w0 f) := by
  cases f with
  | script ops self wc top =>
    have h0 : FlagsOk w0 := by show expected w0.stack = some w0.flags; simpa using h
    cases ops with
    | nil => simpa [stepFrame] using h0
    | cons op ops =>
      simp only [stepFrame]
      have h1 : FlagsOk (w0.push (.script ops self wc top)) := by rw [flagsOk_iff] at *; simp_all
      have h2 := execOp_flagsOk c _ self wc op h1
      split
      · exact h2
      · exact h2.ext (Ext.of_eq rfl rfl rfl rfl)
  | dropCcAfterFin x oF =>
    obtain ⟨cl, d, he, hfl⟩ := expected_guard_fin h
    simp only [World.flags, Prod.mk.injEq] at hfl; obtain ⟨h1, h2, h3⟩ := hfl
    clear h
    simp only [stepFrame, destroyLast]
    repeat' split
    all_goals (rw [flagsOk_iff]; simp_all [expected, Frame.flags])
  | afterDropValue x oD =>
    obtain ⟨cl, f, he, hfl⟩ := expected_guard_drop h
    simp only [World.flags, Prod.mk.injEq] at hfl; obtain ⟨h1, h2, h3⟩ := hfl
    clear h
    simp only [stepFrame]
    repeat' split
    all_goals (rw [flagsOk_iff]; simp_all [expected, Frame.flags])
  | collectLoop n oF oD =>
    obtain ⟨he, hfl⟩ := expected_guard_collect h
    simp only [World.flags, Prod.mk.injEq] at hfl; obtain ⟨h1, h2, h3⟩ := hfl
    clear h
    simp only [stepFrame]
    repeat' split
    all_goals (rw [flagsOk_iff]; simp_all [expected, Frame.flags])
  | finalizePass N r hf oF =>
    obtain ⟨cl, d, he, hfl⟩ := expected_guard_finpass h
    simp only [World.flags, Prod.mk.injEq] at hfl; obtain ⟨h1, h2, h3⟩ := hfl
    clear h
    simp only [stepFrame, startDealloc]
    repeat' split
    all_goals (rw [flagsOk_iff]; simp_all [expected, Frame.flags])
  | deallocDrop N r oD =>
    obtain ⟨cl, f, he, hfl⟩ := expected_guard_dealloc h
    simp only [World.flags, Prod.mk.injEq] at hfl; obtain ⟨h1, h2, h3⟩ := hfl
    clear h
    cases r with
    | cons x r =>
      simp only [stepFrame]
      repeat' split
      all_goals (rw [flagsOk_iff]; simp_all [expected, Frame.flags])
    | nil =>
      simp only [stepFrame]
      have hc := foldl_free_ctl c N w0
      split
      · rw [flagsOk_iff]; simp_all [expected, Frame.flags]
      · rw [flagsOk_iff]
        simp only [hc.stack, hc.collecting, hc.finalizing]
        simp_all
  | _ =>
    have h0 : FlagsOk w0 := by show expected w0.stack = some w0.flags; simpa using h
    clear h
    simp only [stepFrame, destroyLast, startDealloc, putH]
    repeat' split
    all_goals (try fl_close h0)

/-! ### One unwinding step -/

set_option maxHeartbeats 4000000 in
theorem unwindFrame_flagsOk (c : Cfg) (w0 : World) (f : Frame)
    (h : expected (f :: w0.stack) = some w0.flags) : FlagsOk (unwindFrame c w0 f) := by
  cases f with
  | dropCcAfterFin x oF =>
    obtain ⟨cl, d, he, hfl⟩ := expected_guard_fin h
    simp only [World.flags, Prod.mk.injEq] at hfl; obtain ⟨h1, h2, h3⟩ := hfl
    rw [flagsOk_iff]; simp_all [unwindFrame]
  | afterDropValue x oD =>
    obtain ⟨cl, f, he, hfl⟩ := expected_guard_drop h
    simp only [World.flags, Prod.mk.injEq] at hfl; obtain ⟨h1, h2, h3⟩ := hfl
    rw [flagsOk_iff]; simp_all [unwindFrame]
  | collectLoop n oF oD =>
    obtain ⟨he, hfl⟩ := expected_guard_collect h
    simp only [World.flags, Prod.mk.injEq] at hfl; obtain ⟨h1, h2, h3⟩ := hfl
    rw [flagsOk_iff]; simp_all [unwindFrame]
  | finalizePass N r hf oF =>
    obtain ⟨cl, d, he, hfl⟩ := expected_guard_finpass h
    simp only [World.flags, Prod.mk.injEq] at hfl; obtain ⟨h1, h2, h3⟩ := hfl
    rw [flagsOk_iff]; simp_all [unwindFrame]
  | deallocDrop N r oD =>
    obtain ⟨cl, f, he, hfl⟩ := expected_guard_dealloc h
    simp only [World.flags, Prod.mk.injEq] at hfl; obtain ⟨h1, h2, h3⟩ := hfl
    rw [flagsOk_iff]; simp_all [unwindFrame]
  | _ =>
    have h0 : FlagsOk w0 := by show expected w0.stack = some w0.flags; simpa using h
    clear h
    simp only [unwindFrame]
    repeat' split
    all_goals (try fl_close h0)

/-- **I6 is an invariant of the machine**: every micro-step, running or unwinding, preserves it. -/
theorem step_flagsOk (c : Cfg) (w : World) (h : FlagsOk w) : FlagsOk (step c w) := by
  unfold step
  split
  · exact h
  · exact h
  · split
    · rename_i hs
      rw [flagsOk_iff] at *; simp_all
    · rename_i f rest hs
      apply unwindFrame_flagsOk
      rw [flagsOk_iff] at h; rw [hs] at h; exact h
  · split
    · exact h
    · rename_i f rest hs
      apply stepFrame_flagsOk
      rw [flagsOk_iff] at h; rw [hs] at h; exact h

theorem init_flagsOk (c : Cfg) (nH nW nK : Nat) : FlagsOk (World.init c nH nW nK) := by
  rw [flagsOk_iff]; simp [World.init, expected]

/-- Reachability: any number of micro-steps, interleaved with the harness starting the next
top-level operation once the machine is idle. -/
inductive Reachable (c : Cfg) (nH nW nK : Nat) : World → Prop
  | init : Reachable c nH nW nK (World.init c nH nW nK)
  | step (w) : Reachable c nH nW nK w → Reachable c nH nW nK (step c w)
  | top (w) (op : Op) : Reachable c nH nW nK w → w.stack = [] → w.mode = .running →
      Reachable c nH nW nK { w with stack := [.script [op] none none true, .catchTop], events := [], ret := .ok }

theorem reachable_flagsOk (c : Cfg) (nH nW nK : Nat) (w : World) (h : Reachable c nH nW nK w) : FlagsOk w := by
  induction h with
  | init => exact init_flagsOk c nH nW nK
  | step w _ ih => exact step_flagsOk c w ih
  | top w op _ hs _ ih =>
    rw [flagsOk_iff] at *
    simp_all [expected, Frame.flags]

/-- **Idle ⇒ all flags false**, after any history (any programs, scripts, faults, caught panics). -/
theorem idle_flags (c : Cfg) (nH nW nK : Nat) (w : World) (h : Reachable c nH nW nK w) (hs : w.stack = []) :
    w.collecting = false ∧ w.finalizing = false ∧ w.dropping = false := by
  have := reachable_flagsOk c nH nW nK w h
  rw [flagsOk_iff, hs] at this
  simp [expected] at this
  obtain ⟨h1, h2, h3⟩ := this
  exact ⟨h1, h2, h3⟩

end RustCc
