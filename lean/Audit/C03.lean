import RustCcModel.Properties.C03
#print axioms RustCc.C03.freeBox_spec
#print axioms RustCc.C03.destroyLast_order
#print axioms RustCc.C03.dropValue_marks_dead
#print axioms RustCc.C03.dealloc_free_loop_events
#print axioms RustCc.C03.newCyclic_guard_no_drop
#print axioms RustCc.C03.free_only_when_live
#print axioms RustCc.C03.freed_forever
#print axioms RustCc.C03.no_pointer_to_freed
#print axioms RustCc.C03.drop_only_alive
#print axioms RustCc.C03.dropped_at_most_once
#print axioms RustCc.C03.no_event_after_drop
#print axioms RustCc.C03.dropped_stays_dropped
#print axioms RustCc.C03.half_dead_is_owned
#print axioms RustCc.C03.released_box_has_no_live_value
#print axioms RustCc.C03.free_only_after_value_gone
#print axioms RustCc.C03.owned_is_dead
#print axioms RustCc.C03.dropped_value_released_when_idle
