import RustCcModel.Properties.C13
#print axioms RustCc.C13.unwrap_err_of_not_unique
#print axioms RustCc.C13.unwrap_ok_of_unique
#print axioms RustCc.C13.unwrapped_spec
#print axioms RustCc.C13.unwrapped_events
#print axioms RustCc.C13.unwrapped_spec_reachable
#print axioms RustCc.C13.unique_not_owned
