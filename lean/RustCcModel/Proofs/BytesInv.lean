import RustCcModel.Proofs.BytesFrames
/-! `allocated_bytes` is exact (`BytesOk`: the counter equals the total size of the boxes that exist), and a box is
freed only while it is live, at most once (`free_only_live`, `freed_stays_freed`). -/
namespace RustCc
open World
open T1 (Mark)

/-! ### What one step does -/

/-- What a step may free, in terms of the stack of the world it starts from. -/
def GoodS (w : World) (F : List Id) : Prop :=
  F = [] ∨ ∃ f rest, w.stack = f :: rest ∧ GoodF w f F

/-- **Summary of a micro-step**: either it allocates nothing and frees the boxes `F`, or it allocates one box at the
frontier and frees nothing. -/
theorem step_eff (c : Cfg) (w : World) :
    (∃ F, Eff w (step c w) F ∧ GoodS w F) ∨ (∃ o : Obj, o.boxLive = true ∧ Eff (allocW w o) (step c w) []) := by
  unfold step
  split
  · exact Or.inl ⟨[], Eff.refl w, Or.inl rfl⟩
  · exact Or.inl ⟨[], Eff.refl w, Or.inl rfl⟩
  · split
    · exact Or.inl ⟨[], (Eff.refl w).congr_right rfl rfl rfl rfl, Or.inl rfl⟩
    · rename_i f rest hs
      obtain ⟨F, he, hg⟩ := unwindFrame_eff c { w with stack := rest } f
      exact Or.inl ⟨F, he.congr_left rfl rfl rfl rfl, Or.inr ⟨f, rest, hs, hg⟩⟩
  · split
    · exact Or.inl ⟨[], Eff.refl w, Or.inl rfl⟩
    · rename_i f rest hs
      cases hf : f.allocs with
      | false =>
        obtain ⟨F, he, hg⟩ := stepFrame_eff c { w with stack := rest } f hf
        exact Or.inl ⟨F, he.congr_left rfl rfl rfl rfl, Or.inr ⟨f, rest, hs, hg⟩⟩
      | true =>
        obtain ⟨o, ho, he⟩ := stepFrame_alloc c { w with stack := rest } f hf
        exact Or.inr ⟨o, ho, he.congr_left rfl rfl rfl rfl⟩

/-- Under the machine invariant, the freed boxes are distinct and live. -/
theorem GoodS.ok {w : World} {F : List Id} (hg : GoodS w F) (hi : Inv w) :
    F.Nodup ∧ ∀ x ∈ F, (w.heap x).boxLive = true := by
  rcases hg with h | ⟨f, rest, hs, hg⟩
  · subst h; exact ⟨List.nodup_nil, fun x hx => by cases hx⟩
  · have hnd := hi.oi.ownNodup
    rw [hs, zeroed_cons, listed_cons] at hnd
    rcases hg with h | ⟨x, h, hrc⟩ | h | h
    · subst h; exact ⟨List.nodup_nil, fun x hx => by cases hx⟩
    · subst h
      refine ⟨List.nodup_cons.2 ⟨by simp, List.nodup_nil⟩, ?_⟩
      intro y hy
      rw [List.mem_singleton] at hy; subst hy
      exact hi.oi.boxLive_of_rc (x := y) (by show (w.heap y).rc ≠ 0; omega)
    · subst h
      refine ⟨(List.nodup_append.1 (List.nodup_append.1 hnd).1).1, ?_⟩
      intro x hx
      have hz : x ∈ zeroed w.stack := by rw [hs, zeroed_cons]; exact List.mem_append_left _ hx
      exact (hi.oi.zero x hz).1
    · subst h
      refine ⟨(List.nodup_append.1 (List.nodup_append.1 hnd).2.1).1, ?_⟩
      intro x hx
      have hl : x ∈ listed w.stack := by rw [hs, listed_cons]; exact List.mem_append_left _ hx
      have hm : (w.cores x).mark = .inList := (hi.oi.mList x).2 hl
      exact hi.oi.boxLive_of_mark (x := x) (by rw [hm]; simp)

/-! ### Sums -/

theorem sum_remove_one (l : List Nat) (hl : l.Nodup) (f : Nat → Nat) (x : Nat) (hx : x ∈ l) :
    (l.map fun y => if y = x then 0 else f y).sum + f x = (l.map f).sum := by
  induction l with
  | nil => cases hx
  | cons a r ih =>
    have hn := List.nodup_cons.1 hl
    simp only [List.map_cons, List.sum_cons]
    by_cases ha : a = x
    · subst ha
      have : (r.map fun y => if y = a then 0 else f y) = r.map f := by
        apply List.map_congr_left
        intro y hy
        have : y ≠ a := fun e => hn.1 (e ▸ hy)
        simp [this]
      rw [this]; simp [Nat.add_comm]
    · have hxr : x ∈ r := by
        rcases List.mem_cons.1 hx with e | e
        · exact absurd e.symm ha
        · exact e
      have := ih hn.2 hxr
      simp only [ha, if_false]
      omega

theorem sum_remove (l : List Nat) (hl : l.Nodup) (f : Nat → Nat) : ∀ F : List Nat, F.Nodup → (∀ x ∈ F, x ∈ l) →
    (l.map fun y => if y ∈ F then 0 else f y).sum + (F.map f).sum = (l.map f).sum := by
  intro F
  induction F with
  | nil => intro _ _; simp
  | cons a F' ih =>
    intro hn hsub
    have hn' := List.nodup_cons.1 hn
    have h1 : (fun y => if y ∈ a :: F' then 0 else f y) =
        (fun y => if y = a then 0 else (fun y => if y ∈ F' then 0 else f y) y) := by
      funext y
      by_cases hya : y = a
      · simp [hya]
      · simp [hya]
    have h2 := sum_remove_one l hl (fun y => if y ∈ F' then 0 else f y) a (hsub a (List.mem_cons_self ..))
    have h3 := ih hn'.2 (fun x hx => hsub x (List.mem_cons_of_mem _ hx))
    rw [h1]
    simp only [List.map_cons, List.sum_cons]
    simp only [hn'.1, if_false] at h2
    omega

/-- Weight of an identity: the size of its box if it exists. -/
def wt (w : World) (x : Id) : Nat := if (w.heap x).boxLive then (w.heap x).size else 0

theorem liveBytes_eq (w : World) : liveBytes w = ((List.range w.next).map (wt w)).sum := rfl

/-! ### `allocBytes` is exact -/

theorem Eff.bytesOk {w w' : World} {F : List Id} (he : Eff w w' F) (hn : F.Nodup)
    (hl : ∀ x ∈ F, (w.heap x).boxLive = true) (hfr : Fresh w) (hb : BytesOk w) : BytesOk w' := by
  unfold BytesOk at *
  rw [liveBytes_eq] at *
  have hsub : ∀ x ∈ F, x ∈ List.range w.next := by
    intro x hx
    rw [List.mem_range]
    apply Classical.byContradiction
    intro h
    have := hfr x (Nat.le_of_not_lt h)
    rw [hl x hx] at this
    cases this
  have hs := sum_remove (List.range w.next) List.nodup_range (wt w) F hn hsub
  have h1 : wt w' = fun y => if y ∈ F then 0 else wt w y := by
    funext y
    unfold wt
    rw [he.live y, he.size y]
    by_cases hy : y ∈ F <;> simp [hy]
  have h2 : F.map (wt w) = F.map fun x => (w.heap x).size := by
    apply List.map_congr_left
    intro x hx
    simp [wt, hl x hx]
  rw [he.next, h1, he.bytes, hb]
  rw [h2] at hs
  rw [← hs]
  exact Nat.add_sub_cancel _ _

theorem Eff.bytesOk_alloc {w w' : World} {o : Obj} (ho : o.boxLive = true) (he : Eff (allocW w o) w' [])
    (hb : BytesOk w) : BytesOk w' := by
  unfold BytesOk at *
  rw [liveBytes_eq] at *
  have h1 : wt w' = wt (allocW w o) := by
    funext y
    unfold wt
    rw [he.live y, he.size y]
    simp
  have h2 : ((List.range w.next).map (wt (allocW w o))) = (List.range w.next).map (wt w) := by
    apply List.map_congr_left
    intro y hy
    have : y ≠ w.next := Nat.ne_of_lt (List.mem_range.1 hy)
    simp [wt, allocW, Heap.set, this]
  have h3 : wt (allocW w o) w.next = o.size := by simp [wt, allocW, ho]
  have h4 : w'.allocBytes = w.allocBytes + o.size := by simpa [allocW] using he.bytes
  have h5 : w'.next = w.next + 1 := he.next
  rw [h5, h1, List.range_succ, List.map_append, List.sum_append, h2, h4, hb]
  simp [h3]

/-- **One micro-step keeps `allocBytes` equal to the total size of the existing boxes.** -/
theorem step_bytes (c : Cfg) (w : World) (ha : AllInv c w) (hb : BytesOk w) : BytesOk (step c w) := by
  rcases step_eff c w with ⟨F, he, hg⟩ | ⟨o, ho, he⟩
  · obtain ⟨hn, hl⟩ := hg.ok ha.inv
    exact he.bytesOk hn hl ha.fresh hb
  · exact he.bytesOk_alloc ho hb

theorem init_bytes (c : Cfg) (nH nW nK : Nat) : BytesOk (World.init c nH nW nK) := rfl

/-- **`allocBytes` is exact in every reachable world.** -/
theorem reachable_bytes (c : Cfg) (nH nW nK : Nat) (w : World) (h : Reachable c nH nW nK w) : BytesOk w := by
  induction h with
  | init => exact init_bytes c nH nW nK
  | step w hr ih => exact step_bytes c w (reachable_all c nH nW nK w hr) ih
  | top w op _ _ _ ih => exact ih

/-! ### Each allocation is freed at most once, and only while it is live -/

/-- **Steps only append events.** -/
theorem step_events_prefix (c : Cfg) (w : World) : ∃ evs, (step c w).events = w.events ++ evs := by
  rcases step_eff c w with ⟨F, he, _⟩ | ⟨o, _, he⟩
  · exact ⟨_, he.ev⟩
  · exact ⟨_, he.ev⟩

theorem step_events_eq (c : Cfg) (w : World) : (step c w).events = w.events ++ newEvents w (step c w) := by
  rcases step_eff c w with ⟨F, he, _⟩ | ⟨o, _, he⟩
  · exact he.ev
  · exact he.ev

/-- **A `free x` event is emitted only for a box that exists, the box is gone afterwards, and the step emits the event
once.** -/
theorem free_only_live (c : Cfg) (w : World) (ha : AllInv c w) (x : Id) (hx : Event.free x ∈ newEvents w (step c w)) :
    (w.heap x).boxLive = true ∧ ((step c w).heap x).boxLive = false ∧ (newEvents w (step c w)).count (Event.free x) = 1 := by
  rcases step_eff c w with ⟨F, he, hg⟩ | ⟨o, ho, he⟩
  · obtain ⟨hn, hl⟩ := hg.ok ha.inv
    have hxF : x ∈ F := by rw [← he.fr]; exact mem_frees.2 hx
    refine ⟨hl x hxF, ?_, ?_⟩
    · rw [he.live x]; simp [hxF]
    · rw [← count_frees]
      show (frees ((step c w).events.drop w.events.length)).count x = 1
      rw [he.fr]
      rw [hn.count, if_pos hxF]
  · have : x ∈ frees ((step c w).events.drop w.events.length) := mem_frees.2 hx
    have hfr : frees ((step c w).events.drop w.events.length) = [] := he.fr
    rw [hfr] at this
    cases this

/-- **A freed box stays freed** (its identity is never handed out again: allocation uses the frontier `w.next`). -/
theorem freed_stays_freed (c : Cfg) (w : World) (_hfr : Fresh w) (x : Id) (hx : x < w.next) (hd : (w.heap x).boxLive = false) :
    ((step c w).heap x).boxLive = false := by
  rcases step_eff c w with ⟨F, he, _⟩ | ⟨o, _, he⟩
  · rw [he.live x, hd]; rfl
  · rw [he.live x]
    have : x ≠ w.next := Nat.ne_of_lt hx
    simp [allocW, Heap.set, this, hd]

end RustCc
