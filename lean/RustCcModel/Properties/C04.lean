import RustCcModel.Proofs.CtlSimp
import RustCcModel.Proofs.InvReach
import RustCcModel.Proofs.Reach
import RustCcModel.Proofs.Exact
import RustCcModel.Proofs.LifeReach
/-! # C04 — Rc equivalence: last-owner drop reclaims at once; `strong_count` is exact

Step-level behaviour of `Cc::clone` / `Cc::drop` on the count, and the global invariant
**the count of a live box is never below the number of pointers to it that exist** (`count_never_too_low`,
for every world the machine can reach: any programs, callbacks, injected panics and their unwinding).
The other half — **`strong_count` is exact** as long as no panic has been unwound (`strong_count_exact`: the count equals
the number of pointers that exist, in every world of every history in which the machine never executed an unwinding
step) — is proved by the same induction with both inequalities; after a caught panic only `≤` is claimed, as the
property allows ("too high, never too low"). The harness enumerates every `Cc` it holds or stored in a field and checks
the same equation on the implementation. -/
namespace RustCc.C04
open World

/-- `clone`: exactly one more. -/
theorem clone_count (w : World) (x : Id) : ((w.cloneOk x).heap x).rc = (w.heap x).rc + 1 := by
  unfold cloneOk removeFromList
  split <;> simp [upd]

/-- `clone` touches no other object's count. -/
theorem clone_count_other (w : World) (x y : Id) (h : y ≠ x) : ((w.cloneOk x).heap y).rc = (w.heap y).rc := by
  unfold cloneOk removeFromList
  split <;> simp [upd, Heap.set, h]

/-- `clone` at the maximum panics: nothing is changed but the mode. -/
theorem clone_at_max (c : Cfg) (w : World) (x : Id) (h : (w.heap x).rc ≥ c.rcMax) : w.canClone c x = false := by
  unfold canClone; simp; omega

/-- Dropping one of several pointers, outside a collector list: exactly one less, and the object is buffered. -/
theorem drop_shared (c : Cfg) (w : World) (x : Id) (hm : (w.heap x).mark = .non ∨ (w.heap x).mark = .pc)
    (hrc : (w.heap x).rc ≠ 1) :
    stepFrame c w (.dropCc x) = (w.upd x fun o => { o with rc := o.rc - 1 }).addToList x := by
  simp only [stepFrame]
  have h1 : ¬ ((w.heap x).mark = .inList ∨ (w.heap x).mark = .inQueue) := by
    rcases hm with h | h <;> simp [h]
  rw [if_neg h1, if_neg hrc]

/-- Dropping a pointer to an object inside a collector list only decrements (the collector owns the rest). -/
theorem drop_listed (c : Cfg) (w : World) (x : Id) (hm : (w.heap x).mark = .inList ∨ (w.heap x).mark = .inQueue) :
    stepFrame c w (.dropCc x) = w.upd x fun o => { o with rc := o.rc - 1 } := by
  simp only [stepFrame]; rw [if_pos hm]

/-- Dropping the last pointer, no finalizer due: the destruction starts in the same step — whether
or not the object was buffered. -/
theorem drop_last_destroys (c : Cfg) (w : World) (x : Id) (hm : (w.heap x).mark = .non ∨ (w.heap x).mark = .pc)
    (hrc : (w.heap x).rc = 1) (hf : c.fin = false ∨ (w.heap x).finalized = true) :
    stepFrame c w (.dropCc x) = destroyLast c w x := by
  simp only [stepFrame]
  have h1 : ¬ ((w.heap x).mark = .inList ∨ (w.heap x).mark = .inQueue) := by
    rcases hm with h | h <;> simp [h]
  rw [if_neg h1, if_pos hrc]
  have h2 : ¬ (c.fin = true ∧ (!(w.heap x).finalized) = true) := by
    rcases hf with h | h <;> simp [h]
  rw [if_neg h2]

/-- … with a finalizer due: it is called first (exactly once: the flag is set before the call). -/
theorem drop_last_finalizes_first (c : Cfg) (w : World) (x : Id) (hm : (w.heap x).mark = .non ∨ (w.heap x).mark = .pc)
    (hrc : (w.heap x).rc = 1) (hf : c.fin = true) (hnf : (w.heap x).finalized = false) :
    (stepFrame c w (.dropCc x)).stack = .callFin x :: .dropCcAfterFin x w.finalizing :: w.stack ∧
    ((stepFrame c w (.dropCc x)).heap x).finalized = true := by
  simp only [stepFrame]
  have h1 : ¬ ((w.heap x).mark = .inList ∨ (w.heap x).mark = .inQueue) := by
    rcases hm with h | h <;> simp [h]
  rw [if_neg h1, if_pos hrc]
  have h2 : (c.fin = true ∧ (!(w.heap x).finalized) = true) := by simp [hf, hnf]
  rw [if_pos h2]
  simp [push, upd]

/-- The destruction takes the count to 0 and the object out of the buffer before any user code runs. -/
theorem destroyLast_count (c : Cfg) (w : World) (x : Id) (hrc : (w.heap x).rc = 1) :
    ((destroyLast c w x).heap x).rc = 0 := by
  unfold destroyLast removeFromList
  split <;> split <;> simp [upd, push, hrc]

/-- Number of `Cc` pointers to `x` that exist in world `w`: table entries, stashed clones, pointers
held by the code of the frames on the stack, and pointer fields (traced, untraced, the cleaner's map,
captured by a registered action) of every allocated object. -/
abbrev pointersTo (w : World) (x : Id) : Nat := refs w x

/-- **`strong_count` is never too low**: in every reachable world — after any sequence of operations,
callbacks, collections, injected panics and unwindings — the count of every identity is at least the number of
pointers to it. (A panic may leak: `≤`, not `=`.) -/
theorem count_never_too_low (c : Cfg) (nH nW nK : Nat) (w : World) (h : Reachable c nH nW nK w)
    (x : Id) : pointersTo w x ≤ (w.heap x).rc :=
  (reachable_counts c nH nW nK w h).le x

/-- A freed or never-allocated identity past the allocation frontier has no pointer to it at all. -/
theorem no_pointer_to_unallocated (c : Cfg) (nH nW nK : Nat) (w : World) (h : Reachable c nH nW nK w)
    (x : Id) (hx : w.next ≤ x) : pointersTo w x = 0 :=
  (reachable_counts c nH nW nK w h).fresh x hx

/-- Hence an identity whose count is 0 (the guard under which the machine frees) has no pointer to it:
**a free never leaves a dangling `Cc` behind**. -/
theorem zero_count_no_pointer (c : Cfg) (nH nW nK : Nat) (w : World) (h : Reachable c nH nW nK w)
    (x : Id) (h0 : (w.heap x).rc = 0) : pointersTo w x = 0 := by
  have := count_never_too_low c nH nW nK w h x
  omega

/-- **No dangling `Cc`**: in every reachable world, whatever a pointer that exists (in a table, in a stash, held by
running code, in a field of any allocated object — traced or not, dead or alive) points to is a box that has not
been freed. -/
theorem pointer_target_not_freed (c : Cfg) (nH nW nK : Nat) (w : World) (h : Reachable c nH nW nK w)
    (x : Id) (hp : 0 < pointersTo w x) : (w.heap x).boxLive = true := by
  have hle := count_never_too_low c nH nW nK w h x
  have hi := reachable_inv c nH nW nK w h
  exact OI.boxLive_of_rc hi.oi (x := x) (by show (w.heap x).rc ≠ 0; omega)

/-- The object a plain `Cc::drop` is destroying (its frame `afterDropValue` is on the stack) keeps count 0 until it
is released: no user code run by its destructor — or by anything nested in it — can obtain a pointer to it. -/
theorem destroyed_object_unreachable (c : Cfg) (nH nW nK : Nat) (w : World) (h : Reachable c nH nW nK w)
    (x : Id) (d : Bool) (hf : Frame.afterDropValue x d ∈ w.stack) :
    (w.heap x).boxLive = true ∧ (w.heap x).rc = 0 ∧ pointersTo w x = 0 := by
  have hi := reachable_inv c nH nW nK w h
  have hz : x ∈ zeroed w.stack := by
    unfold zeroed
    exact List.mem_flatMap.2 ⟨_, hf, by simp [Frame.zeroed]⟩
  have := hi.oi.zero x hz
  exact ⟨this.1, this.2.1, zero_count_no_pointer c nH nW nK w h x this.2.1⟩

/-! ## Exactness in panic-free histories -/

/-- **`strong_count()` equals the number of `Cc` pointers that exist**, in every world of every history in which no panic
has been unwound so far (any programs, callbacks, nested and automatic collections, finalizers that resurrect, …): table
entries, stashed clones, pointers held by running code, traced / untraced / cleaner / captured pointer fields of all
objects. (`stuck` = the model stopped on one of the crate's debug assertions.) -/
theorem strong_count_exact (c : Cfg) (nH nW nK : Nat) (w : World) (h : ReachableR c nH nW nK w)
    (hns : w.mode ≠ .stuck) (x : Id) : (w.heap x).rc = pointersTo w x :=
  reachableR_count_exact c nH nW nK w h hns x

/-- … in particular for what the driver computes for a program none of whose operations panics
(`cleanProg`: decidable, evaluated on the concrete program): after the last operation every count is exact. -/
theorem strong_count_exact_prog (c : Cfg) (nH nW nK fuel : Nat) (ops : List Op)
    (hcl : cleanProg c fuel (World.init c nH nW nK) ops = true) (x : Id)
    (hns : (ops.foldl (execTop c fuel) (World.init c nH nW nK)).mode ≠ .stuck) :
    ((ops.foldl (execTop c fuel) (World.init c nH nW nK)).heap x).rc
      = pointersTo (ops.foldl (execTop c fuel) (World.init c nH nW nK)) x :=
  strong_count_exact c nH nW nK _ (reachableR_prog c nH nW nK fuel ops _ .init hcl) hns x

/-- A count that is exact and 1 means: the pointer at hand is the only one (what `try_unwrap` relies on). -/
theorem unique_pointer (c : Cfg) (nH nW nK : Nat) (w : World) (h : ReachableR c nH nW nK w) (hns : w.mode ≠ .stuck)
    (x : Id) (h1 : (w.heap x).rc = 1) : pointersTo w x = 1 := by
  rw [← strong_count_exact c nH nW nK w h hns x]; exact h1

/-- After an unwinding the count may only be too high (`count_never_too_low` still holds): the panic-free restriction
is necessary — `exLeak` is a reachable world (the finalizer run by the last-owner `Cc::drop` panicked: the pointer being
dropped is gone, its count is not decremented) in which a count is strictly above the number of pointers. -/
def exLeakCfg : Cfg := { scripts := #[[], [.panic]] }
def exLeakSpec (fin : Nat) : NewSpec := { ns := 1, nu := 0, nw := 0, cleaner := false, fin := fin, drp := 0 }
def exLeak : World := [Op.new 0 (exLeakSpec 1), .drop 0].foldl (execTop exLeakCfg 200) (World.init exLeakCfg 2 0 0)
example : (exLeak.heap 0).boxLive = true ∧ pointersTo exLeak 0 < (exLeak.heap 0).rc ∧ exLeak.ret = .panic := by decide

/-- Non-vacuity of the exactness theorem: a panic-free program (a cycle built, handles dropped, collected while a third
object stays alive) satisfies `cleanProg`. -/
def exCleanProg : List Op :=
  [.new 0 (exLeakSpec 0), .new 1 (exLeakSpec 0), .new 2 (exLeakSpec 0), .setf (.of (.h 0)) (.f 0) (.h 1),
   .setf (.of (.h 1)) (.f 0) (.h 0), .setf (.of (.h 2)) (.f 0) (.h 2), .clone (.h 2) 0, .drop 1, .collect]
example : cleanProg {} 200 (World.init {} 3 0 0) exCleanProg = true := by decide

/-- Non-vacuity: after `new` into entry 0 and `clone` into entry 1 the world is reachable, object 0 is
live, two pointers to it exist and its count is 2. -/
def exCfg : Cfg := {}
def exWorld1 : World :=
  execTop exCfg 50 (World.init exCfg 2 0 0) (.new 0 { ns := 1, nu := 0, nw := 0, cleaner := false, fin := 0, drp := 0 })
def exWorld : World := execTop exCfg 50 exWorld1 (.clone (.h 0) 1)
example : (exWorld.heap 0).boxLive = true ∧ pointersTo exWorld 0 = 2 ∧ (exWorld.heap 0).rc = 2 := by decide
example : Reachable exCfg 2 0 0 exWorld :=
  reachable_execTop _ _ _ _ _ _ _
    (reachable_execTop _ _ _ _ _ _ _ .init (by decide) (by decide)) (by decide) (by decide)

/-- **Nothing is left half-destroyed when a panic-free operation has returned**: in every idle world of a panic-free history
every box that still exists holds an intact value — whatever a `drop` started to destroy (the object whose last owner went
away, and recursively everything only it owned: each is owned by an `afterDropValue` frame that releases the box before the
frame below resumes) has been released by the time the stack is empty again. (`Life.np`: a box without an intact value is
owned by a frame.) -/
theorem idle_nothing_half_destroyed (c : Cfg) (nH nW nK : Nat) (w : World) (h : ReachableR c nH nW nK w) (hs : w.stack = [])
    (x : Id) (hb : (w.heap x).boxLive = true) : (w.heap x).valLive = true := by
  cases hv : (w.heap x).valLive with
  | true => rfl
  | false =>
    have := (reachableR_life c nH nW nK w h).np x (by simp [Obj.lv, hb, hv])
    rw [hs] at this; simp [ownedDead] at this

/-- **Outside collections a `Cc::drop` that leaves the count above zero leaves the object buffered** — in every reachable
world whose stack holds no collector pass (the marks are then `NonMarked` / `PossibleCycles` by the machine invariant, so the
collector's "only decrement" path cannot be taken): the count goes down by exactly one and the object is in the buffer, marked.
(The run-time counterpart is the oracle `dec-not-buffered`.) -/
theorem drop_outside_collections_buffers (c : Cfg) (nH nW nK : Nat) (w : World) (h : Reachable c nH nW nK w)
    (x : Id) (rest : List Frame) (hs : w.stack = .dropCc x :: rest) (hm : w.mode = .running)
    (hl : listed w.stack = []) (hrc : (w.heap x).rc ≠ 1) (hd : (w.heap x).dropped = false) :
    x ∈ (step c w).pc ∧ ((step c w).heap x).mark = .pc ∧ ((step c w).heap x).rc = (w.heap x).rc - 1 := by
  have hi := (reachable_all c nH nW nK w h).inv.oi
  have e : step c w = stepFrame c { w with stack := rest } (.dropCc x) := by
    unfold step; rw [hm]; simp only []; rw [hs]
  have hmark : (w.heap x).mark = .non ∨ (w.heap x).mark = .pc := by
    cases hk : (w.heap x).mark with
    | non => exact Or.inl rfl
    | pc => exact Or.inr rfl
    | inList => have := (hi.mList x).1 hk; rw [hl] at this; cases this
    | inQueue => exact absurd hk (hi.noQueue x)
  rw [e, drop_shared c { w with stack := rest } x hmark hrc]
  rcases hmark with hk | hk
  · have h1 : ((({ w with stack := rest } : World).upd x fun o => { o with rc := o.rc - 1 }).heap x).mark = .non := by simp [hk]
    have h2 : ((({ w with stack := rest } : World).upd x fun o => { o with rc := o.rc - 1 }).heap x).dropped = false := by simp [hd]
    unfold addToList
    rw [if_neg (by rw [h1]; decide), if_neg (by simp [hk, hd])]
    simp [World.upd]
  · have h1 : ((({ w with stack := rest } : World).upd x fun o => { o with rc := o.rc - 1 }).heap x).mark = .pc := by simp [hk]
    unfold addToList
    rw [if_pos h1]
    exact ⟨(hi.mPc x).1 hk, by simp [hk], by simp⟩

end RustCc.C04
