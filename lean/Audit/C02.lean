import RustCcModel.Properties.C02
#print axioms RustCc.C02.pass_complete
#print axioms RustCc.C02.buffered_garbage_is_candidate
#print axioms RustCc.C02.reachable_pass_complete
