import RustCcModel.Model.Derive
/-! # C18 — `derive(Trace)` traces every non-ignored field once and forbids custom `Drop`

For every type definition (any number of variants and fields, any ignore pattern): each non-ignored
field of a non-ignored variant is visited exactly once, ignored ones never; a `Drop` impl is emitted
iff `unsafe_no_drop` is absent (so a user `Drop` is a coherence error); derived `Finalize` is empty.
That the macro expands as `visited` says is checked on every run by compiling randomly generated
definitions with the real macro and counting reports per field (`check C18`). -/
namespace RustCc.C18
open Derive

theorem visited_nodup (v : Variant) : (visitedOf v).Nodup := by
  unfold visitedOf
  split
  · exact List.nodup_nil
  · exact List.Nodup.sublist List.filter_sublist List.nodup_range

theorem mem_visited_iff (v : Variant) (i : Nat) :
    i ∈ visitedOf v ↔ v.ignored = false ∧ i < v.fields.length ∧ (v.fields.getD i ⟨true⟩).ignored = false := by
  unfold visitedOf
  by_cases hv : v.ignored = true
  · simp [hv]
  · simp [hv, List.mem_filter]

/-- A field is visited iff its variant and the field itself are not ignored — and then exactly once. -/
theorem field_visited_iff (v : Variant) (i : Nat) (hi : i < v.fields.length) :
    (visitedOf v).count i = (if v.ignored = false ∧ (v.fields.getD i ⟨true⟩).ignored = false then 1 else 0) := by
  rw [(visited_nodup v).count]
  by_cases hc : v.ignored = false ∧ (v.fields.getD i ⟨true⟩).ignored = false
  · rw [if_pos hc, if_pos ((mem_visited_iff v i).2 ⟨hc.1, hi, hc.2⟩)]
  · rw [if_neg hc, if_neg (fun hm => hc ⟨((mem_visited_iff v i).1 hm).1, ((mem_visited_iff v i).1 hm).2.2⟩)]

/-- Nothing outside the fields is visited. -/
theorem visited_in_range (v : Variant) (i : Nat) (h : i ∈ visitedOf v) : i < v.fields.length := by
  unfold visitedOf at h
  split at h
  · cases h
  · exact List.mem_range.1 (List.mem_filter.1 h).1

/-- Ignored variants are never traced. -/
theorem ignored_variant_not_traced (v : Variant) (h : v.ignored = true) : visitedOf v = [] := by
  simp [visitedOf, h]

theorem drop_emitted_iff (d : TypeDef) : emitsDrop d = true ↔ d.unsafeNoDrop = false := by
  unfold emitsDrop; cases d.unsafeNoDrop <;> simp

theorem derived_finalize_empty (d : TypeDef) (k : Nat) : finalizeVisited d k = [] := rfl

/-- Non-vacuity. -/
example : visitedOf { ignored := false, fields := [⟨false⟩, ⟨true⟩, ⟨false⟩] } = [0, 2] := by decide

end RustCc.C18
