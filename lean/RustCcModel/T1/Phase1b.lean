import RustCcModel.T1.Phase1
namespace T1

theorem foldl_countEdge_rc (s : TS) (ys : List Nat) (z : Nat) :
    ((ys.foldl countEdge s).h z).rc = (s.h z).rc := by
  induction ys generalizing s with
  | nil => rfl
  | cons y ys ih => simp only [List.foldl_cons]; rw [ih, countEdge_rc]

theorem foldl_countEdge_edges (s : TS) (ys : List Nat) (z : Nat) :
    ((ys.foldl countEdge s).h z).edges = (s.h z).edges := by
  induction ys generalizing s with
  | nil => rfl
  | cons y ys ih => simp only [List.foldl_cons]; rw [ih, countEdge_edges]

/-- Tracing all remaining edges `rest` of the current object keeps the invariant, if the total
number of traced references (from finished objects and from all of the current object's edges)
never exceeds the reference count. -/
theorem foldl_countEdge_P1 (s : TS) (done : List Nat) (c : Nat) (pre rest P : List Nat)
    (hinv : P1 s done (some c) pre P)
    (hb : ∀ y, inCount s.h done y + (pre ++ rest).count y ≤ (s.h y).rc) :
    P1 (rest.foldl countEdge s) done (some c) (pre ++ rest) P := by
  induction rest generalizing s pre with
  | nil => simpa using hinv
  | cons y rest ih =>
    simp only [List.foldl_cons]
    have hby : inCount s.h done y + pre.count y + 1 ≤ (s.h y).rc := by
      have := hb y
      simp [List.count_append] at this
      omega
    have h1 := countEdge_P1 s done (some c) pre P y hinv hby
    have := ih (countEdge s y) (pre ++ [y]) h1 (by
      intro z
      have e1 : inCount (countEdge s y).h done z = inCount s.h done z :=
        inCount_congr s.h (countEdge s y).h done z (fun u => countEdge_edges s y u)
      rw [e1, countEdge_rc]
      have := hb z
      simpa [List.append_assoc] using this)
    simpa [List.append_assoc] using this

/-! ### begin / end of one object -/

theorem beginObj_edges (s : TS) (x z : Nat) : ((beginObj s x).h z).edges = (s.h z).edges := by
  unfold beginObj; by_cases hz : z = x
  · subst hz; simp
  · simp [hz]

theorem beginObj_rc (s : TS) (x z : Nat) : ((beginObj s x).h z).rc = (s.h z).rc := by
  unfold beginObj; by_cases hz : z = x
  · subst hz; simp
  · simp [hz]

theorem beginObj_tc (s : TS) (x z : Nat) : ((beginObj s x).h z).tc = (s.h z).tc := by
  unfold beginObj; by_cases hz : z = x
  · subst hz; simp
  · simp [hz]

theorem beginObj_mark (s : TS) (x z : Nat) :
    ((beginObj s x).h z).mark = if z = x then .inQueue else (s.h z).mark := by
  unfold beginObj; by_cases hz : z = x
  · subst hz; simp
  · simp [hz]

/-- Popping the head of the buffer. -/
theorem beginObj_P1_pc (s : TS) (done : List Nat) (x : Nat) (P : List Nat)
    (hinv : P1 s done none [] (x :: P)) (hxP : x ∉ P) :
    P1 (beginObj s x) done (some x) [] P := by
  have hmx : (s.h x).mark = .pc := (hinv.mPc x).2 (by simp)
  have hnd : x ∉ done := fun h => by have := (hinv.mList x).2 h; simp [hmx] at this
  have hnq : x ∉ s.queue := fun h => by have := (hinv.mQueue x).2 (Or.inl h); simp [hmx] at this
  have hic : ∀ z, inCount (beginObj s x).h done z = inCount s.h done z :=
    fun z => inCount_congr _ _ _ _ (fun u => beginObj_edges s x u)
  constructor
  · intro z hz; rw [hic, beginObj_tc]
    by_cases hzx : z = x
    · subst hzx; exact hinv.tcMarked z (by simp [hmx])
    · rw [beginObj_mark] at hz; simp [hzx] at hz; exact hinv.tcMarked z hz
  · intro z hz; rw [hic]
    rw [beginObj_mark] at hz
    by_cases hzx : z = x
    · simp [hzx] at hz
    · simp [hzx] at hz; exact hinv.unseen z hz
  · intro z; rw [beginObj_mark]
    by_cases hzx : z = x
    · subst hzx; simp [hnd]
    · simp [hzx]; exact hinv.mList z
  · intro z; rw [beginObj_mark]
    by_cases hzx : z = x
    · subst hzx; simp
    · have := hinv.mQueue z
      simp [hzx] at this ⊢
      rw [this]; simp [beginObj]
      intro h; exact absurd h.symm hzx
  · intro z; rw [beginObj_mark]
    by_cases hzx : z = x
    · subst hzx; simp [hxP]
    · have := hinv.mPc z; simp [hzx] at this ⊢; exact this
  · intro z; rw [beginObj_rc, beginObj_tc]; simpa [beginObj] using hinv.nonroot z
  · intro z; rw [beginObj_rc, beginObj_tc]; simpa [beginObj] using hinv.root z
  · simpa [beginObj] using hinv.rootNodup
  · simpa [beginObj] using hinv.nonrootNodup
  · simpa [beginObj] using hinv.queueNodup
  · intro c hc; simp at hc; subst hc; simpa [beginObj] using hnq

/-- Polling the head of the queue. -/
theorem beginObj_P1_queue (s : TS) (done : List Nat) (x : Nat) (q P : List Nat)
    (hq : s.queue = x :: q) (hinv : P1 s done none [] P) :
    P1 (beginObj { s with queue := q } x) done (some x) [] P := by
  have hmx : (s.h x).mark = .inQueue := (hinv.mQueue x).2 (Or.inl (by simp [hq]))
  have hnd : x ∉ done := fun h => by have := (hinv.mList x).2 h; simp [hmx] at this
  have hnodup : (x :: q).Nodup := hq ▸ hinv.queueNodup
  have hxq : x ∉ q := (List.nodup_cons.1 hnodup).1
  have hnp : x ∉ P := fun h => by have := (hinv.mPc x).2 h; simp [hmx] at this
  have hic : ∀ z, inCount (beginObj { s with queue := q } x).h done z = inCount s.h done z :=
    fun z => inCount_congr _ _ _ _ (fun u => beginObj_edges _ x u)
  constructor
  · intro z hz; rw [hic, beginObj_tc]
    by_cases hzx : z = x
    · subst hzx; exact hinv.tcMarked z (by simp [hmx])
    · rw [beginObj_mark] at hz; simp [hzx] at hz; exact hinv.tcMarked z hz
  · intro z hz; rw [hic]
    rw [beginObj_mark] at hz
    by_cases hzx : z = x
    · simp [hzx] at hz
    · simp [hzx] at hz; exact hinv.unseen z hz
  · intro z; rw [beginObj_mark]
    by_cases hzx : z = x
    · subst hzx; simp [hnd]
    · simp [hzx]; exact hinv.mList z
  · intro z; rw [beginObj_mark]
    by_cases hzx : z = x
    · subst hzx; simp
    · have := hinv.mQueue z
      simp [hzx, hq] at this ⊢
      rw [this]; simp [beginObj]
      intro h; exact absurd h.symm hzx
  · intro z; rw [beginObj_mark]
    by_cases hzx : z = x
    · subst hzx; simp [hnp]
    · have := hinv.mPc z; simp [hzx] at this ⊢; exact this
  · intro z; rw [beginObj_rc, beginObj_tc]; simpa [beginObj] using hinv.nonroot z
  · intro z; rw [beginObj_rc, beginObj_tc]; simpa [beginObj] using hinv.root z
  · simpa [beginObj] using hinv.rootNodup
  · simpa [beginObj] using hinv.nonrootNodup
  · simpa [beginObj] using (List.nodup_cons.1 hnodup).2
  · intro c hc; simp at hc; subst hc; simpa [beginObj] using hxq

end T1
