import RustCcModel.T1.Phase1d
namespace T1

/-- Invariant of the root phase. `h1` is the heap at the end of counting, `done` the objects it
traced, `V` the objects already root-traced, `cur`/`seen` the one in progress, `R` the roots left. -/
structure P2 (h1 : Heap) (done : List Nat) (s : TS) (V : List Nat) (cur : Option Nat)
    (seen R : List Nat) : Prop where
  frame : ∀ z, (s.h z).rc = (h1 z).rc ∧ (s.h z).tc = (h1 z).tc ∧ (s.h z).edges = (h1 z).edges
  nr : ∀ x, x ∈ s.nonroot ↔ ((s.h x).mark = .inList ∧ (s.h x).rc = (s.h x).tc)
  nrNodup : s.nonroot.Nodup
  vis : ∀ u ∈ V, ∀ y ∈ (h1 u).edges, y ∉ s.nonroot
  seenOk : ∀ y ∈ seen, y ∉ s.nonroot
  cover : ∀ x ∈ done, x ∈ V ∨ x ∈ R ∨ x ∈ s.queue ∨ cur = some x ∨ x ∈ s.nonroot
  rootsOk : ∀ x ∈ R, (s.h x).rc ≠ (s.h x).tc
  queueOk : ∀ x ∈ s.queue, (s.h x).mark = .inQueue ∧ (s.h x).rc = (s.h x).tc
  queueNodup : s.queue.Nodup
  curOk : ∀ c, cur = some c → c ∉ s.queue ∧ c ∉ s.nonroot

theorem rootEdge_P2 (h1 : Heap) (done : List Nat) (s : TS) (V : List Nat) (cur : Option Nat)
    (seen R : List Nat) (y : Nat) (hinv : P2 h1 done s V cur seen R) :
    P2 h1 done (rootEdge s y) V cur (seen ++ [y]) R := by
  unfold rootEdge
  by_cases hc : (s.h y).mark = .inList ∧ (s.h y).rc = (s.h y).tc
  · rw [if_pos hc]
    have hyn : y ∈ s.nonroot := (hinv.nr y).2 hc
    have hyq : y ∉ s.queue := fun h => by have := (hinv.queueOk y h).1; simp [hc.1] at this
    have hne : y ∉ s.nonroot.erase y := List.Nodup.not_mem_erase hinv.nrNodup
    have hsub : ∀ x, x ∈ s.nonroot.erase y → x ∈ s.nonroot := fun x h => List.mem_of_mem_erase h
    constructor
    · intro z; by_cases hz : z = y
      · subst hz; simpa using hinv.frame z
      · simpa [hz] using hinv.frame z
    · intro x; by_cases hx : x = y
      · subst hx; simp [hne]
      · simp only [Heap.set_other _ _ _ _ hx]; rw [List.mem_erase_of_ne hx]; exact hinv.nr x
    · exact hinv.nrNodup.erase y
    · intro u hu z hz h; exact hinv.vis u hu z hz (hsub z h)
    · intro z hz h
      rcases List.mem_append.1 hz with h' | h'
      · exact hinv.seenOk z h' (hsub z h)
      · simp at h'; subst h'; exact hne h
    · intro x hx
      rcases hinv.cover x hx with h | h | h | h | h
      · exact Or.inl h
      · exact Or.inr (Or.inl h)
      · exact Or.inr (Or.inr (Or.inl (List.mem_append_left _ h)))
      · exact Or.inr (Or.inr (Or.inr (Or.inl h)))
      · by_cases hxy : x = y
        · subst hxy; exact Or.inr (Or.inr (Or.inl (by simp)))
        · exact Or.inr (Or.inr (Or.inr (Or.inr ((List.mem_erase_of_ne hxy).2 h))))
    · intro x hx; by_cases hxy : x = y
      · subst hxy; exact absurd hc.2 (hinv.rootsOk x hx)
      · simpa [hxy] using hinv.rootsOk x hx
    · intro x hx
      rcases List.mem_append.1 hx with h | h
      · by_cases hxy : x = y
        · subst hxy; exact absurd h hyq
        · simpa [hxy] using hinv.queueOk x h
      · simp at h; subst h; simpa using hc.2
    · exact List.nodup_append.2 ⟨hinv.queueNodup, by simp, by
        intro a ha b hb; simp at hb; subst hb; exact fun e => hyq (e ▸ ha)⟩
    · intro c hcur
      have := hinv.curOk c hcur
      refine ⟨?_, fun h => this.2 (hsub c h)⟩
      intro h
      rcases List.mem_append.1 h with h | h
      · exact this.1 h
      · simp at h; subst h; exact this.2 hyn
  · rw [if_neg hc]
    have hyn : y ∉ s.nonroot := fun h => hc ((hinv.nr y).1 h)
    refine ⟨hinv.frame, hinv.nr, hinv.nrNodup, hinv.vis, ?_, hinv.cover, hinv.rootsOk,
      hinv.queueOk, hinv.queueNodup, hinv.curOk⟩
    intro z hz
    rcases List.mem_append.1 hz with h | h
    · exact hinv.seenOk z h
    · simp at h; subst h; exact hyn

theorem rootEdge_nonroot_sub (s : TS) (y : Nat) : ∀ x ∈ (rootEdge s y).nonroot, x ∈ s.nonroot := by
  intro x hx; unfold rootEdge at hx
  split at hx
  · exact List.mem_of_mem_erase hx
  · exact hx

theorem foldl_rootEdge_P2 (h1 : Heap) (done : List Nat) (V : List Nat) (cur : Option Nat) (R : List Nat)
    (rest : List Nat) : ∀ (s : TS) (seen : List Nat), P2 h1 done s V cur seen R →
      P2 h1 done (rest.foldl rootEdge s) V cur (seen ++ rest) R := by
  induction rest with
  | nil => intro s seen h; simpa using h
  | cons y rest ih =>
    intro s seen h
    simp only [List.foldl_cons]
    have := ih (rootEdge s y) (seen ++ [y]) (rootEdge_P2 h1 done s V cur seen R y h)
    simpa [List.append_assoc] using this

/-- Un-marking the popped object `x` (a remaining root, or the head of the queue). -/
theorem unmark_P2 (h1 : Heap) (done : List Nat) (s : TS) (V R : List Nat) (x : Nat)
    (hinv : P2 h1 done s V (some x) [] R) :
    P2 h1 done (unmark s x) V (some x) [] R := by
  have hx := hinv.curOk x rfl
  unfold unmark
  constructor
  · intro z; by_cases hz : z = x
    · subst hz; simpa using hinv.frame z
    · simpa [hz] using hinv.frame z
  · intro z; by_cases hz : z = x
    · subst hz; simp [hx.2]
    · simpa [hz] using hinv.nr z
  · exact hinv.nrNodup
  · exact hinv.vis
  · exact hinv.seenOk
  · exact hinv.cover
  · intro z hzR; by_cases hz : z = x
    · subst hz; simpa using hinv.rootsOk z hzR
    · simpa [hz] using hinv.rootsOk z hzR
  · intro z hzq; by_cases hz : z = x
    · subst hz; exact absurd hzq hx.1
    · simpa [hz] using hinv.queueOk z hzq
  · exact hinv.queueNodup
  · exact hinv.curOk

end T1
