import RustCcModel.Proofs.AuxK
import RustCcModel.Proofs.TraceFlagEv
/-! Without the `finalization` feature the `finalizing` flag is never raised: it is false in every reachable world, and so is
every value of it saved in a frame. -/
namespace RustCc
open World

def Frame.finSaved : Frame → Bool
  | .dropCcAfterFin _ o => !o
  | .finalizePass _ _ _ o => !o
  | .collectLoop _ o _ => !o
  | _ => true

def NFin (w : World) : Prop := w.finalizing = false ∧ w.stack.all Frame.finSaved = true

macro "nf_close" : tactic => `(tactic| first
  | (simp_all [NFin, Frame.finSaved, World.putH, World.startCollect, World.cloneOk]; done)
  | (simp_all [NFin, Frame.finSaved, World.putH, World.startCollect, World.cloneOk]; split <;> simp_all [Frame.finSaved]; done))

set_option maxHeartbeats 4000000 in
theorem execOp_nFin (c : Cfg) (hc : c.fin = false) (w : World) (self wc : Option Id) (op : Op) (h : NFin w) :
    NFin (execOp c w self wc op) := by
  cases op with
  | fault kind n j => cases kind <;> simpa [execOp, NFin] using h
  | _ =>
    simp only [execOp]
    repeat' split
    all_goals nf_close

set_option maxHeartbeats 8000000 in
theorem stepFrame_nFin (c : Cfg) (hc : c.fin = false) (w : World) (f : Frame) (hf : f.finSaved = true) (h : NFin w) :
    NFin (stepFrame c w f) := by
  cases f with
  | script ops self wc top =>
    cases ops with
    | nil => simpa [stepFrame] using h
    | cons op ops =>
      simp only [stepFrame]
      have h1 : NFin (w.push (.script ops self wc top)) := by simp_all [NFin, Frame.finSaved]
      have h2 := execOp_nFin c hc _ self wc op h1
      split
      · exact h2
      · simpa [NFin] using h2
  | collectPass =>
    simp only [stepFrame, startDealloc]
    generalize tracePhasesF _ _ _ _ _ = r
    obtain ⟨res, fault⟩ := r
    cases res <;> simp only [] <;> repeat' split
    all_goals (simp_all [NFin, Frame.finSaved]; done)
  | deallocDrop N r oD =>
    cases r with
    | cons x r => simp only [stepFrame]; repeat' split
                  all_goals nf_close
    | nil =>
      simp only [stepFrame]
      split
      · nf_close
      · simp only [NFin, foldl_free_stack, foldl_free_finalizing] at *; exact h
  | _ =>
    simp only [stepFrame, destroyLast, startDealloc]
    repeat' split
    all_goals first
      | nf_close
      | (simp_all [NFin, Frame.finSaved, World.putH]; split <;> simp_all [Frame.finSaved]; done)

set_option maxHeartbeats 4000000 in
theorem unwindFrame_nFin (c : Cfg) (w : World) (f : Frame) (hf : f.finSaved = true) (h : NFin w) : NFin (unwindFrame c w f) := by
  cases f <;> simp only [unwindFrame] <;> repeat' split
  all_goals nf_close

theorem step_nFin (c : Cfg) (hc : c.fin = false) (w : World) (h : NFin w) : NFin (step c w) := by
  unfold step
  split
  · exact h
  · exact h
  · split
    · simpa [NFin] using h
    · rename_i f rest hs
      apply unwindFrame_nFin
      · simp_all [NFin]
      · simp_all [NFin]
  · split
    · exact h
    · rename_i f rest hs
      apply stepFrame_nFin c hc
      · simp_all [NFin]
      · simp_all [NFin]

theorem reachable_nFin {c : Cfg} {nH nW nK : Nat} {w : World} (hc : c.fin = false) (h : Reachable c nH nW nK w) :
    w.finalizing = false := by
  have : NFin w := by
    induction h with
    | init => simp [NFin, World.init]
    | step w _ ih => exact step_nFin c hc w ih
    | top w op _ hs hm ih => exact ⟨ih.1, by simp [Frame.finSaved]⟩
  exact this.1

end RustCc
