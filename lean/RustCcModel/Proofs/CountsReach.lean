import RustCcModel.Proofs.CountsFrames
import RustCcModel.Proofs.FlagsStep
/-! `Counts` holds in every reachable world. -/
namespace RustCc
open World

/-- **Every frame step preserves `Counts`.** -/
theorem stepFrame_counts (c : Cfg) (w : World) (f : Frame) (rest : List Frame) (h : Counts w) (hs : w.stack = f :: rest) :
    Counts (stepFrame c { w with stack := rest } f) := by
  cases f with
  | script ops self wc top => exact stepFrame_counts_script c w ops self wc top rest h hs
  | catchTop =>
    simp only [stepFrame]
    exact ((h.pop hs).1.forget (E' := []) (fun _ => Nat.zero_le _)).toCounts
  | setRet r =>
    simp only [stepFrame]
    counts_congr ((h.pop hs).1.forget (E' := []) (fun _ => Nat.zero_le _))
  | adjustAfter =>
    simp only [stepFrame]
    counts_congr ((h.pop hs).1.forget (E' := []) (fun _ => Nat.zero_le _))
  | dropCc x => exact stepFrame_counts_dropCc c w x rest h hs
  | dropCcAfterFin x oldFin => exact stepFrame_counts_dropCcAfterFin c w x oldFin rest h hs
  | afterDropValue x oldDrop => exact stepFrame_counts_afterDropValue c w x oldDrop rest h hs
  | dropValue x => exact stepFrame_counts_dropValue c w x rest h hs
  | dropMoved x => exact stepFrame_counts_dropMoved c w x rest h hs
  | dropFields x unw => exact stepFrame_counts_dropFields c w x unw rest h hs
  | dropActions m i unw => exact stepFrame_counts_dropActions c w m i unw rest h hs
  | actionEnd cap unw => exact stepFrame_counts_actionEnd c w cap unw rest h hs
  | callFin x => exact stepFrame_counts_callFin c w x rest h hs
  | collectLoop n oldFin oldDrop => exact stepFrame_counts_collectLoop c w n oldFin oldDrop rest h hs
  | collectPass => exact stepFrame_counts_collectPass c w rest h hs
  | finalizePass N r hasFin oldFin => exact stepFrame_counts_finalizePass c w N r hasFin oldFin rest h hs
  | deallocDrop N r oldDrop => exact stepFrame_counts_deallocDrop c w N r oldDrop rest h hs
  | newAlloc k sp => exact stepFrame_counts_newAlloc c w k sp rest h hs
  | newCyclicAlloc k sp body selfw => exact stepFrame_counts_newCyclicAlloc c w k sp body selfw rest h hs
  | newCyclicEnd k id sp selfw => exact stepFrame_counts_newCyclicEnd c w k id sp selfw rest h hs
  | regInsert owner script k cap => exact stepFrame_counts_regInsert c w owner script k cap rest h hs
  | mapAlloc owner => exact stepFrame_counts_mapAlloc c w owner rest h hs
  | cleanEnd m byUs unw => exact stepFrame_counts_cleanEnd c w m byUs unw rest h hs
  | dropMany x n => exact stepFrame_counts_dropMany c w x n rest h hs

/-- **One micro-step of the machine preserves `Counts`.** -/
theorem step_counts (c : Cfg) (w : World) (h : Counts w)
    (hcyc : ∀ k id sp sw rest, w.stack = .newCyclicEnd k id sp sw :: rest → (w.heap id).rc = 0) : Counts (step c w) := by
  unfold step
  split
  · exact h
  · exact h
  · split
    · exact h.congr rfl rfl rfl rfl rfl rfl rfl
    · rename_i f rest hs
      exact unwindFrame_counts c w f rest h hs (fun k id sp sw e => hcyc k id sp sw rest (e ▸ hs))
  · split
    · exact h
    · rename_i f rest hs
      exact stepFrame_counts c w f rest h hs

theorem init_counts (c : Cfg) (nH nW nK : Nat) : Counts (World.init c nH nW nK) := by
  have hr : ∀ x, refs (World.init c nH nW nK) x = 0 := by
    intro x
    simp [refs, World.init, fieldRefs, held, optIds]
  refine ⟨fun x => by rw [hr]; exact Nat.zero_le _, fun x _ => hr x, ?_, ?_, ?_⟩
  · intro f hf; cases hf
  · intro x hx; cases hx
  · intro x _; rfl

end RustCc
