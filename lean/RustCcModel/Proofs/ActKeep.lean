import RustCcModel.Proofs.ActOnce
import RustCcModel.Proofs.MetaOnce
/-! **No registered cleaning action is ever lost**: in every history — caught panics included — an action whose identifier
has been handed out has either run or is still stored in a slot of its map. The other direction of `ActEff`: an action leaves
its slot only by being run in the same step, an identifier is handed out only together with storing its action. -/
namespace RustCc
open World
open T1 (Mark)

/-- Nothing is stored in the slot map of an identity past the allocation frontier. -/
def SFresh (w : World) : Prop := ∀ x, w.next ≤ x → ∀ i, slotAt w x i = none

structure Keep (w w' : World) : Prop where
  keep : ∀ m i a, slotAt w m i = some a → slotAt w' m i = some a ∨ aEv w'.events = aEv w.events ++ [a.aid]
  new : w'.nextAid = w.nextAid ∨
    (w'.nextAid = w.nextAid + 1 ∧ ∃ m i a, m < w.next ∧ slotAt w' m i = some a ∧ a.aid = w.nextAid)
  fr : ∀ x, w.next ≤ x → ∀ i a, slotAt w' x i = some a → slotAt w x i = some a

theorem Keep.same {w w' : World} (hn : w'.nextAid = w.nextAid) (hs : ∀ m, (w'.heap m).sm = (w.heap m).sm) : Keep w w' :=
  ⟨fun m i a h => Or.inl (by unfold slotAt at h ⊢; rw [hs m]; exact h), Or.inl hn,
    fun x _ i a h => by unfold slotAt at h ⊢; rw [hs x] at h; exact h⟩

macro "keep_same" : tactic => `(tactic| (
  refine Keep.same ?_ ?_
  · simp [putH_nextAid, foldl_free_nextAid, World.setH, World.setW, World.setK, World.startCollect, World.emit, World.push, World.upd,
      World.updMeta]
  · intro m
    simp [upd_sm_same, updAll_sm_same, putH_sm, foldl_free_sm, World.setH, World.setW, World.setK, World.startCollect, World.emit,
      World.push, World.updMeta]))

theorem Keep.take {w W' : World} (mm : Id) (i : Nat) (a : Action) (hslot : slotAt w mm i = some a)
    (hn : W'.nextAid = w.nextAid)
    (hs : ∀ m j, slotAt W' m j = if m = mm ∧ j = i then none else slotAt w m j)
    (he : aEv W'.events = aEv w.events ++ [a.aid]) : Keep w W' := by
  refine ⟨?_, Or.inl hn, ?_⟩
  · intro m j b hb
    by_cases e : m = mm ∧ j = i
    · obtain ⟨rfl, rfl⟩ := e
      rw [hslot] at hb; cases hb
      exact Or.inr he
    · left; rw [hs, if_neg e]; exact hb
  · intro x _ j b hb
    rw [hs] at hb
    split at hb
    · cases hb
    · exact hb

theorem Keep.congrL {w w0 W' : World} (h : Keep w0 W') (hn : w0.nextAid = w.nextAid)
    (hs : ∀ m, (w0.heap m).sm = (w.heap m).sm) (he : w0.events = w.events) (hx : w0.next = w.next) : Keep w W' := by
  refine ⟨?_, ?_, ?_⟩
  · intro m i a ha
    have : slotAt w0 m i = some a := by unfold slotAt at ha ⊢; rw [hs m]; exact ha
    rw [← he]; exact h.keep m i a this
  · rw [← hn, ← hx]; exact h.new
  · intro x hx' i a ha
    have := h.fr x (by rw [hx]; exact hx') i a ha
    unfold slotAt at this ⊢; rw [← hs x]; exact this

set_option maxHeartbeats 16000000 in
theorem execOp_keep (c : Cfg) (w : World) (self wc : Option Id) (op : Op) : Keep w (execOp c w self wc op) := by
  cases op with
  | fault kind n j => cases kind <;> exact Keep.same rfl (fun _ => rfl)
  | clean k =>
    simp only [execOp]
    generalize hw1 : ({ w with ret := Ret.ok } : World) = w1
    have e1 : w1.nextAid = w.nextAid ∧ (∀ m, (w1.heap m).sm = (w.heap m).sm) ∧ w1.events = w.events := by
      subst hw1; exact ⟨rfl, fun _ => rfl, rfl⟩
    split
    · keep_same
    · split
      · rename_i mm i aid hk
        split
        · subst hw1; keep_same
        · split
          · subst hw1; keep_same
          · split
            · subst hw1; keep_same
            · split
              · rename_i a ha
                split
                · -- the action is taken out and run
                  have hslot : slotAt w mm i = some a := by
                    unfold slotAt
                    have : (((w1.cloneOk mm).upd mm fun o => { o with borrowed := true }).heap mm).sm.1.getD i none = some a := by
                      simpa [World.push, Obj.sm] using ha
                    simp only [upd_sm_same _ _ (fun o : Obj => { o with borrowed := true }) _ (fun _ => ⟨rfl, rfl⟩), cloneOk_sm, e1.2.1] at this
                    exact this
                  have hsl : ∀ (W : World), (∀ m, (W.heap m).sm = (w.heap m).sm) → ∀ m j,
                      slotAt (W.upd mm fun o => { o with aslots := o.aslots.set i none, afree := i :: o.afree }) m j =
                        if m = mm ∧ j = i then none else slotAt w m j := by
                    intro W hW m j
                    rw [slotAt_set_none W mm i _ (fun o => rfl)]
                    unfold slotAt; rw [hW]
                  have hW0 : ∀ m, ((((w1.cloneOk mm).upd mm fun o => { o with borrowed := true }).push (.cleanEnd mm true false)).heap m).sm = (w.heap m).sm := by
                    intro m
                    simp [World.push, upd_sm_same, e1.2.1]
                  split
                  · refine Keep.take mm i a hslot ?_ ?_ ?_
                    · simp [World.push, World.emit, World.upd, e1.1]
                    · intro m j
                      have := hsl _ hW0 m j
                      simpa [slotAt, World.push, World.emit] using this
                    · simp [World.push, World.emit, World.upd, e1.2.2]
                  · refine Keep.take mm i a hslot ?_ ?_ ?_
                    · simp [World.push, World.emit, World.upd, e1.1]
                    · intro m j
                      have := hsl _ hW0 m j
                      simpa [slotAt, World.push, World.emit] using this
                    · simp [World.push, World.emit, World.upd, e1.2.2]
                · subst hw1; keep_same
              · subst hw1; keep_same
      · keep_same
  | _ =>
    simp only [execOp]
    repeat' split
    all_goals keep_same

theorem slotAt_alloc_keep (w : World) (o : Obj) (ab : Nat) (hfs : SFresh w) (m : Id) (i : Nat) (a : Action)
    (ha : slotAt w m i = some a) :
    slotAt ({ w with next := w.next + 1, heap := w.heap.set w.next o, allocBytes := ab } : World) m i = some a := by
  have hne : m ≠ w.next := by
    intro e; subst e
    rw [hfs _ (Nat.le_refl _) i] at ha; cases ha
  unfold slotAt at ha ⊢
  simpa [Heap.set, hne] using ha

/-- A step that only allocates at the frontier (and leaves every other slot map alone). -/
theorem Keep.alloc {w W : World} (o : Obj) (ab : Nat) (ho : o.aslots = []) (hfs : SFresh w) (hn : W.nextAid = w.nextAid)
    (hs : ∀ m, (W.heap m).sm = (({ w with next := w.next + 1, heap := w.heap.set w.next o, allocBytes := ab } : World).heap m).sm) :
    Keep w W := by
  refine ⟨?_, Or.inl hn, ?_⟩
  · intro m i a ha
    left
    have := slotAt_alloc_keep w o ab hfs m i a ha
    unfold slotAt at this ⊢
    rw [hs m]; exact this
  · intro x _ i a ha
    refine slotAt_alloc_other w o ab x i ho a ?_
    unfold slotAt at ha ⊢
    rw [hs x] at ha; exact ha

set_option maxHeartbeats 16000000 in
theorem stepFrame_keep (c : Cfg) (w : World) (f : Frame) (hso : SOk w) (hfs : SFresh w)
    (hown : ∀ owner script k cap, f = .regInsert owner script k cap → owner < w.next)
    (hfl : ∀ s y, s < w.next → y ∈ fieldsOf (w.heap s) → y < w.next) : Keep w (stepFrame c w f) := by
  cases f with
  | script ops self wc top =>
    cases ops with
    | nil => simp only [stepFrame]; exact Keep.same rfl (fun _ => rfl)
    | cons op ops =>
      simp only [stepFrame]
      have h := execOp_keep c (w.push (.script ops self wc top)) self wc op
      have h' := h.congrL (w := w) rfl (fun _ => rfl) rfl rfl
      split
      · exact h'
      · exact ⟨h'.keep, h'.new, h'.fr⟩
  | collectPass =>
    simp only [stepFrame, startDealloc]
    generalize tracePhasesF _ _ _ _ _ = r
    obtain ⟨res, fault⟩ := r
    cases res <;> simp only [] <;> repeat' split
    all_goals keep_same
  | deallocDrop N r oD =>
    cases r with
    | cons x r => simp only [stepFrame]; repeat' split
                  all_goals keep_same
    | nil =>
      simp only [stepFrame]
      split
      · keep_same
      · exact Keep.same (by simp [foldl_free_nextAid]) (fun m => by simp [foldl_free_sm])
  | dropFields x unw =>
    simp only [stepFrame]
    have ht := takeField_sm (w.heap x)
    split
    · rename_i y o' hy
      rw [hy] at ht
      have ht' : o'.sm = (w.heap x).sm := ht
      refine Keep.same (by simp [World.push, World.upd]) (fun m => ?_)
      by_cases e : m = x
      · subst e; simp [World.push, ht']
      · simp [World.push, World.upd, Heap.set, e]
    · rename_i y o' hy
      rw [hy] at ht
      have ht' : o'.sm = (w.heap x).sm := ht
      refine Keep.same (by simp [World.push, World.upd]) (fun m => ?_)
      rw [weakDrop_sm]
      by_cases e : m = x
      · subst e; simp [World.push, ht']
      · simp [World.push, World.upd, Heap.set, e]
    · split <;> exact Keep.same rfl (fun _ => rfl)
  | dropActions m i unw =>
    simp only [stepFrame]
    split
    · split
      · rename_i a ha
        have hslot : slotAt w m i = some a := by unfold slotAt; simpa [World.push, Obj.sm] using ha
        have hsl : ∀ m' j, slotAt ((w.push (.dropActions m (i + 1) unw)).upd m fun o => { o with aslots := o.aslots.set i none }) m' j =
            if m' = m ∧ j = i then none else slotAt w m' j := by
          intro m' j
          rw [slotAt_set_none _ m i _ (fun o => rfl)]
          rfl
        split
        · refine Keep.take m i a hslot (by simp [World.push, World.emit, World.upd]) ?_ (by simp [World.push, World.emit, World.upd])
          intro m' j
          have := hsl m' j
          simpa [slotAt, World.push, World.emit] using this
        · refine Keep.take m i a hslot (by simp [World.push, World.emit, World.upd]) ?_ (by simp [World.push, World.emit, World.upd])
          intro m' j
          have := hsl m' j
          simpa [slotAt, World.push, World.emit] using this
      · keep_same
    · split <;> exact Keep.same rfl (fun _ => rfl)
  | regInsert owner script k cap =>
    simp only [stepFrame]
    split
    · exact Keep.same rfl (fun _ => rfl)
    · split
      · keep_same
      · rename_i m hm hbor
        have hmlt : m < w.next := hfl owner m (hown owner script k cap rfl) (by simp [fieldsOf, hm])
        -- the new action goes to slot `idx` of map `m`, which was empty
        have hgen : ∀ (idx : Nat) (om' : Obj),
            (∀ j b, (w.heap m).sm.1.getD j none = some b → om'.sm.1.getD j none = some b) →
            om'.sm.1.getD idx none = some { aid := w.nextAid, script := script, cap := cap } →
            Keep w
              (if (((({ w with nextAid := w.nextAid + 1 } : World).upd m fun _ => om').initMeta m).metas m).weak ≥ c.weakMax then
                ((({ w with nextAid := w.nextAid + 1 } : World).upd m fun _ => om').initMeta m).raise
              else ((((({ w with nextAid := w.nextAid + 1 } : World).upd m fun _ => om').initMeta m).updMeta m
                fun mm => { mm with weak := mm.weak + 1 }).removeFromList m).setK k (some (m, idx, w.nextAid))) := by
          intro idx om' hom hnew
          have key : ∀ W : World, W.nextAid = w.nextAid + 1 →
              (∀ m', (W.heap m').sm = ((({ w with nextAid := w.nextAid + 1 } : World).upd m fun _ => om').heap m').sm) → Keep w W := by
            intro W hn hs
            refine ⟨?_, Or.inr ⟨hn, m, idx, { aid := w.nextAid, script := script, cap := cap }, hmlt, ?_, rfl⟩, ?_⟩
            · intro m' j b hb
              left
              unfold slotAt at hb ⊢
              rw [hs]
              by_cases e : m' = m
              · subst e
                simp only [World.upd_heap_same]
                exact hom j b hb
              · simpa [World.upd, Heap.set, e] using hb
            · unfold slotAt
              rw [hs]
              simp only [World.upd_heap_same]
              exact hnew
            · intro x hx j b hb
              have e : x ≠ m := fun e => by subst e; exact Nat.lt_irrefl _ (Nat.lt_of_lt_of_le hmlt hx)
              unfold slotAt at hb ⊢
              rw [hs] at hb
              simpa [World.upd, Heap.set, e] using hb
          split
          · exact key _ (by simp [World.upd]) (fun m' => by simp)
          · exact key _ (by simp [World.setK, World.updMeta, World.upd]) (fun m' => by simp [World.setK, World.updMeta])
        have hfree := hso m
        cases hfr : (w.heap m).afree with
        | nil =>
          simp only []
          refine hgen _ _ ?_ ?_
          · intro j b hb
            simp only [Obj.sm] at hb ⊢
            have hj : j < (w.heap m).aslots.length := by
              apply Classical.byContradiction; intro hn
              have : (w.heap m).aslots.getD j none = none := by
                simp [List.getD_eq_getElem?_getD, List.getElem?_eq_none (Nat.le_of_not_lt hn)]
              rw [this] at hb; cases hb
            simpa [List.getD_eq_getElem?_getD, List.getElem?_append_left hj] using hb
          · simp [Obj.sm, List.getD_eq_getElem?_getD]
        | cons i fr =>
          simp only []
          have hi : i < (w.heap m).aslots.length ∧ (w.heap m).aslots.getD i none = none := by
            have := hfree.2 i (by simp [Obj.sm, hfr])
            simpa [Obj.sm] using this
          refine hgen _ _ ?_ ?_
          · intro j b hb
            simp only [Obj.sm] at hb ⊢
            have e : j ≠ i := by
              intro e; subst e; rw [hi.2] at hb; cases hb
            rw [getD_set_ne _ _ _ _ e]; exact hb
          · simp [Obj.sm, List.getD_eq_getElem?_getD, List.getElem?_set, hi.1]
  | newAlloc k sp =>
    simp only [stepFrame]
    exact Keep.alloc (newObj c w sp) (w.allocBytes + (newObj c w sp).size) rfl hfs (by simp [putH_nextAid, World.emit])
      (fun m => by simp [putH_sm, World.emit])
  | newCyclicAlloc k sp body selfw =>
    simp only [stepFrame]
    split
    · exact Keep.alloc { newObj c w sp with rc := 0, valLive := false, hasMeta := true } (w.allocBytes + (newObj c w sp).size) rfl hfs
        (by simp [World.emit, World.push, World.updMeta]) (fun m => by simp [World.emit, World.push, World.updMeta])
    · exact Keep.alloc { newObj c w sp with rc := 0, valLive := false, hasMeta := true } (w.allocBytes + (newObj c w sp).size) rfl hfs
        (by simp [World.emit, World.push, World.updMeta]) (fun m => by simp [World.emit, World.push, World.updMeta])
  | mapAlloc owner =>
    simp only [stepFrame]
    split
    · refine Keep.alloc ({ rc := 1, tc := c.tcInit, boxLive := true, valLive := true, kind := .map, size := c.mapSize, finalized := c.fin && w.finalizing } : Obj)
        (w.allocBytes + c.mapSize) rfl hfs (by simp [World.emit, World.upd]) (fun m => ?_)
      simp only [upd_sm_same _ _ (fun o : Obj => { o with cmap := some w.next }) _ (fun _ => ⟨rfl, rfl⟩)]
      simp [World.emit]
    · exact Keep.alloc ({ rc := 1, tc := c.tcInit, boxLive := true, valLive := true, kind := .map, size := c.mapSize, finalized := c.fin && w.finalizing } : Obj)
        (w.allocBytes + c.mapSize) rfl hfs (by simp [World.emit, World.push]) (fun m => by simp [World.emit, World.push])
  | _ =>
    simp only [stepFrame, destroyLast, startDealloc]
    repeat' split
    all_goals keep_same

theorem unwindFrame_keep (c : Cfg) (w : World) (f : Frame) : Keep w (unwindFrame c w f) := by
  cases f <;> simp only [unwindFrame] <;> repeat' split
  all_goals keep_same


theorem Keep.sfresh {w w' : World} (h : Keep w w') (hf : SFresh w) (hn : w.next ≤ w'.next) : SFresh w' := by
  intro x hx i
  cases hs : slotAt w' x i with
  | none => rfl
  | some a =>
    have := h.fr x (Nat.le_trans hn hx) i a hs
    rw [hf x (Nat.le_trans hn hx) i] at this; cases this

theorem step_keep (c : Cfg) (w : World) (hso : SOk w) (hfs : SFresh w) (hc : Counts w) : Keep w (step c w) := by
  unfold step
  split
  · exact Keep.same rfl (fun _ => rfl)
  · exact Keep.same rfl (fun _ => rfl)
  · split
    · exact Keep.same rfl (fun _ => rfl)
    · exact (unwindFrame_keep c _ _).congrL rfl (fun _ => rfl) rfl rfl
  · split
    · exact Keep.same rfl (fun _ => rfl)
    · rename_i f rest hst
      refine (stepFrame_keep c { w with stack := rest } f (fun m => hso m) (fun x hx i => hfs x hx i) ?_ ?_).congrL rfl (fun _ => rfl) rfl rfl
      · intro owner script k cap e
        exact hc.frames f (by rw [hst]; simp) owner (by subst e; simp [Frame.ids])
      · intro s y hs hy
        exact field_lt hc hs hy

theorem init_sfresh (c : Cfg) (nH nW nK : Nat) : SFresh (World.init c nH nW nK) := by
  intro x _ i; simp [slotAt, World.init, Obj.sm]

/-- What the log says about the identifiers handed out so far. -/
def Conserved (w : World) (log : List Event) : Prop :=
  ∀ aid, aid < w.nextAid → aid ∈ aEv log ∨ ∃ m i a, slotAt w m i = some a ∧ a.aid = aid

theorem histA_conserved (c : Cfg) (nH nW nK : Nat) (w : World) (log : List Event) (h : HistA c nH nW nK w log) :
    SOk w ∧ SFresh w ∧ Conserved w log := by
  induction h with
  | init => exact ⟨init_sOk c nH nW nK, init_sfresh c nH nW nK, fun aid h => by simp [World.init] at h⟩
  | top w op log _ hs hm ih => exact ⟨fun m => ih.1 m, fun x hx i => ih.2.1 x hx i, fun aid h => ih.2.2 aid h⟩
  | step w log hw ih =>
    obtain ⟨hso, hfs, hcons⟩ := ih
    have hall := reachable_all c nH nW nK w hw.reachable
    have hk := step_keep c w hso hfs hall.counts
    refine ⟨step_sOk c w hso, hk.sfresh hfs (step_next_ge c w), ?_⟩
    intro aid haid
    have hold : aid < w.nextAid → aid ∈ aEv (log ++ newEvents w (step c w)) ∨ ∃ m i a, slotAt (step c w) m i = some a ∧ a.aid = aid := by
      intro hlt
      rcases hcons aid hlt with h1 | ⟨m, i, a, h1, h2⟩
      · left; rw [aEv_append]; exact List.mem_append_left _ h1
      · rcases hk.keep m i a h1 with h3 | h3
        · exact Or.inr ⟨m, i, a, h3, h2⟩
        · left
          rw [step_events_eq c w, aEv_append] at h3
          have := List.append_cancel_left h3
          rw [aEv_append, this, h2]; simp
    rcases hk.new with h1 | ⟨h1, m, i, a, _, h2, h3⟩
    · exact hold (by omega)
    · by_cases e : aid < w.nextAid
      · exact hold e
      · exact Or.inr ⟨m, i, a, h2, by omega⟩

end RustCc
