import RustCcModel.Model.TracingF
import RustCcModel.Model.Policy
/-! Executable model of the rust-cc API as a micro-step machine with an explicit control stack.

One `step` pops the top frame and performs one micro-action; sequences in which no user code can
intervene are one step. User callbacks (`Finalize::finalize`, `Drop`, cleaning actions, the
`new_cyclic` closure) are *scripts*: lists of the same operations the top-level program uses.
Unwinding is a mode of the machine: frames are popped and run their drop glue.

See DESIGN.md §3 for the correspondence between frames and the Rust source. -/
namespace RustCc
open T1 (Mark)

abbrev Id := Nat

inductive Kind | node | map
  deriving DecidableEq, Repr, Inhabited

/-- A registered cleaning action: unique id (the slot-map key), script, captured `Cc`. -/
structure Action where
  aid : Nat
  script : Nat
  cap : Option Id
  deriving Repr, Inhabited

structure Obj where
  rc : Nat := 0
  tc : Nat := 0
  mark : Mark := .non
  finalized : Bool := false
  dropped : Bool := false        -- tracing counter holds the reserved "dropped" value
  hasMeta : Bool := false
  boxLive : Bool := false        -- box memory allocated
  valLive : Bool := false        -- value initialised and its destruction has not begun
  kind : Kind := .node
  size : Nat := 0
  slots : List (Option Id) := []    -- traced `Cc` fields
  uslots : List (Option Id) := []   -- `Cc` fields the owner does not trace
  wslots : List (Option Id) := []   -- `Weak` fields (target object)
  hasCleaner : Bool := false
  cmap : Option Id := none          -- the `Cleaner`'s `Option<Cc<CleanerMap>>`
  fin : Nat := 0
  drp : Nat := 0
  aslots : List (Option Action) := []   -- kind = map: slot-map storage, in slot order
  afree : List Nat := []                -- kind = map: free slot indices (LIFO)
  borrowed : Bool := false              -- kind = map: the `RefCell` is mutably borrowed
  doomed : Bool := false                -- ghost (no counterpart in the code): the collector started destroying the set it belongs to
  deriving Repr, Inhabited

/-- Weak side record (`BoxedMetadata`), keyed by the id of the object it was created for. -/
structure Meta where
  weak : Nat := 0
  accessible : Bool := false
  live : Bool := false
  deriving Repr, Inhabited

inductive WRef | dangling | to (x : Id)
  deriving DecidableEq, Repr, Inhabited

/-! ### Operations -/

/-- A place holding an `Option<Cc>`: table entry, or a field of the callback's `self`. -/
inductive CRef | h (k : Nat) | sf (i : Nat) | su (i : Nat)
  deriving Repr, Inhabited
/-- A node: the target of a `CRef`, or the callback's `self`. -/
inductive NRef | of (r : CRef) | self
  deriving Repr, Inhabited
/-- A `Weak`: table entry, weak field of `self`, or the `new_cyclic` closure's argument. -/
inductive WSel | w (k : Nat) | sw (i : Nat) | wc
  deriving Repr, Inhabited
inductive Slot | f (i : Nat) | u (i : Nat)
  deriving Repr, Inhabited

/-- The node is designated through table entry `k` itself. -/
def NRef.viaTable : NRef → Nat → Bool
  | .of (.h k'), k => k' == k
  | _, _ => false

structure NewSpec where
  ns : Nat
  nu : Nat
  nw : Nat
  cleaner : Bool
  fin : Nat
  drp : Nat
  deriving Repr, Inhabited

inductive FaultKind | trace | fin | drop | action | body
  deriving DecidableEq, Repr, Inhabited

inductive Op
  | new (k : Nat) (sp : NewSpec)
  | newCyclic (k : Nat) (sp : NewSpec) (body : Nat) (selfw : Option Nat)
  | clone (r : CRef) (k : Nat)
  | drop (k : Nat)
  | setf (n : NRef) (s : Slot) (r : CRef)
  | movef (n : NRef) (s : Slot) (k : Nat)   -- move the pointer in `H[k]` into the field (no clone)
  | clrf (n : NRef) (s : Slot)
  | takef (n : NRef) (s : Slot) (k : Nat)
  | getf (n : NRef) (s : Slot) (k : Nat)
  | markAlive (r : CRef)
  | finAgain (k : Nat)
  | unwrap (k : Nat)
  | down (r : CRef) (k : Nat)
  | up (w : WSel) (k : Nat)
  | wclone (w : WSel) (k : Nat)
  | wdrop (k : Nat)
  | wnew (k : Nat)
  | setw (n : NRef) (i : Nat) (w : WSel)
  | clrw (n : NRef) (i : Nat)
  | reg (n : NRef) (script : Nat) (k : Nat) (cap : Option CRef)
  | clean (k : Nat)
  | cdrop (k : Nat)
  | collect
  | cfgAuto (b : Bool)
  | cfgBuf (b : Option Nat)
  | cfgPct (bits : Nat)
  | cloneN (r : CRef) (n : Nat)      -- clone `n` times, keeping the clones in a per-object stash
  | dropN (r : CRef) (n : Nat)       -- drop `n` stashed clones
  | downN (r : CRef) (n : Nat)       -- downgrade `n` times, keeping the weak pointers in a stash
  | wdropN (r : CRef) (n : Nat)      -- drop `n` stashed weak pointers
  | panic
  | fault (kind : FaultKind) (n : Nat) (j : Nat)
  | nop
  deriving Repr, Inhabited

/-- Static data of a run. -/
structure Cfg where
  fin : Bool := true        -- feature `finalization`
  weak : Bool := false      -- feature `weak-ptrs`
  clean : Bool := false     -- feature `cleaners`
  auto : Bool := true       -- feature `auto-collect`
  nodeSize : Nat := 0       -- size of the payload box (printed by the harness)
  mapSize : Nat := 0        -- size of the box of the crate's `CleanerMap`
  scripts : Array (List Op) := #[]
  passCap : Nat := 10
  defaultThr : Nat := 100
  rcMax : Nat := 16382
  weakMax : Nat := 32767
  tcInit : Nat := 1         -- `INITIAL_VALUE_TRACING_COUNTER`: a fresh box starts with tracing counter 1

def Cfg.script (c : Cfg) (i : Nat) : List Op := c.scripts.getD i []

/-! ### Events and results -/

inductive Event
  | alloc (x : Id) (size : Nat)
  | free (x : Id)
  | metaFree (x : Id)
  | finalize (x : Id) (tracing : Bool)
  | drop (x : Id) (tracing : Bool)
  | moved (x : Id)
  | trace (x : Id) (tracing : Bool)
  | collect
  | action (aid : Nat) (tracing : Bool)
  | panic
  deriving DecidableEq, Repr, Inhabited

inductive Ret
  | ok | skip | err | none | some (x : Id) | unwrapped (x : Id) | panic
  deriving DecidableEq, Repr, Inhabited

/-! ### Frames -/

inductive Frame
  /-- remaining operations of a script; `self` / closure weak of the enclosing callback -/
  | script (ops : List Op) (self : Option Id) (wc : Option Id) (top : Bool := false)
  /-- `catch_unwind` around a top-level operation -/
  | catchTop
  /-- `Cc::drop` of a pointer to `x` -/
  | dropCc (x : Id)
  /-- `Cc::drop`, after the finalizer returned; holds `_finalizing_guard` -/
  | dropCcAfterFin (x : Id) (oldFin : Bool)
  /-- `Cc::drop`, after `drop_in_place` returned; holds `_dropping_guard` -/
  | afterDropValue (x : Id) (oldDrop : Bool)
  /-- `drop_in_place` of the value of `x` -/
  | dropValue (x : Id)
  /-- drop glue of a node's fields; `unw`: runs as cleanup of an unwinding -/
  | dropFields (x : Id) (unw : Bool)
  /-- drop glue of the slot map of `m`, from slot `i` on -/
  | dropActions (m : Id) (i : Nat) (unw : Bool)
  /-- end of a cleaning-action closure: drops the captured `Cc` -/
  | actionEnd (cap : Option Id) (unw : Bool)
  /-- `Finalize::finalize` of `x` is about to be called -/
  | callFin (x : Id)
  /-- body of `collect`; holds the `collecting` guard and the saved flags -/
  | collectLoop (n : Nat) (oldFin oldDrop : Bool)
  /-- one `__collect` -/
  | collectPass
  /-- the finalization pass over the non-root list; holds the list and `_finalizing_guard` -/
  | finalizePass (N rest : List Id) (hasFin : Bool) (oldFin : Bool)
  /-- first loop of `deallocate_list`; holds `ToDropList` and `_dropping_guard` -/
  | deallocDrop (N rest : List Id) (oldDrop : Bool)
  /-- `adjust_trigger_point` after a collection that returned normally -/
  | adjustAfter
  /-- `Cc::new` after the automatic collection: allocate and store in `H[k]` -/
  | newAlloc (k : Nat) (sp : NewSpec)
  /-- `new_cyclic` after the automatic collection -/
  | newCyclicAlloc (k : Nat) (sp : NewSpec) (body : Nat) (selfw : Option Nat)
  /-- `new_cyclic` after the closure returned; holds `PanicGuard` and the closure's `Weak` -/
  | newCyclicEnd (k : Nat) (id : Id) (sp : NewSpec) (selfw : Option Nat)
  /-- `Cleaner::register` after the map exists -/
  | regInsert (owner : Id) (script : Nat) (k : Nat) (cap : Option Id)
  /-- allocation of the `CleanerMap` box after the automatic collection -/
  | mapAlloc (owner : Id)
  /-- `Cleanable::clean` after the removed action ran: release the borrow, drop the upgraded `Cc` -/
  | cleanEnd (m : Id) (borrowedByUs : Bool) (unw : Bool)
  /-- the harness drops the value returned by `try_unwrap` -/
  | dropMoved (x : Id)
  /-- drop `n` more stashed clones of `x` -/
  | dropMany (x : Id) (n : Nat)
  /-- store the result of an operation in `H[k]` -/
  | setRet (r : Ret)
  deriving Repr, Inhabited

inductive Mode | running | unwinding | aborted | stuck
  deriving DecidableEq, Repr, Inhabited

abbrev Heap := Id → Obj
def Heap.set (h : Heap) (i : Id) (o : Obj) : Heap := fun j => if j = i then o else h j
@[simp] theorem Heap.set_same (h : Heap) (i o) : (h.set i o) i = o := by simp [Heap.set]
@[simp] theorem Heap.set_other (h : Heap) (i j o) (hne : j ≠ i) : (h.set i o) j = h j := by
  simp [Heap.set, hne]

abbrev Metas := Id → Meta
def Metas.set (h : Metas) (i : Id) (o : Meta) : Metas := fun j => if j = i then o else h j

structure World where
  heap : Heap := fun _ => {}
  next : Id := 0
  nextAid : Nat := 0
  metas : Metas := fun _ => {}
  pc : List Id := []
  collecting : Bool := false
  finalizing : Bool := false
  dropping : Bool := false
  allocBytes : Nat := 0
  execs : Nat := 0
  cfgAuto : Bool := true
  thr : Nat := 100
  pctBits : Nat := 0x3FB999999999999A      -- 0.1
  bufThr : Option Nat := none
  H : List (Option Id) := []
  W : List (Option WRef) := []
  K : List (Option (Id × Nat × Nat)) := []   -- map object, slot index, action id
  stack : List Frame := []
  mode : Mode := .running
  ret : Ret := .ok
  events : List Event := []
  fTrace : Option (Nat × Nat) := none
  fFin : Option Nat := none
  fDrop : Option Nat := none
  fAct : Option Nat := none
  fBody : Option Nat := none
  stash : Id → Nat := fun _ => 0       -- clones kept by `cloneN`
  wstash : Id → Nat := fun _ => 0      -- weak pointers kept by `downN`

namespace World

def isTracing (c : Cfg) (w : World) : Bool :=
  if c.fin then w.collecting && !w.finalizing && !w.dropping else w.collecting && !w.dropping

def emit (w : World) (e : Event) : World := { w with events := w.events ++ [e] }
def push (w : World) (f : Frame) : World := { w with stack := f :: w.stack }
def upd (w : World) (x : Id) (f : Obj → Obj) : World := { w with heap := w.heap.set x (f (w.heap x)) }
/-- Apply `f` to every object of a list. (The accumulator of the fold is a structure, not a function:
folding over the heap function itself makes the compiled driver exponential, every layer being
re-evaluated on every look-up.) -/
def updAll (w : World) (l : List Id) (f : Obj → Obj) : World := l.foldl (fun w x => w.upd x f) w
def updMeta (w : World) (x : Id) (f : Meta → Meta) : World := { w with metas := w.metas.set x (f (w.metas x)) }

/-- A frame that runs as cleanup of an unwinding is on the stack. -/
def inCleanup (w : World) : Bool :=
  w.stack.any fun
    | .dropFields _ true => true
    | .dropActions _ _ true => true
    | .actionEnd _ true => true
    | .cleanEnd _ _ true => true
    | _ => false

/-- Start unwinding; a panic that starts while cleanup code of another unwinding runs aborts the process. -/
def raise (w : World) : World :=
  if w.inCleanup then { w with mode := .aborted } else { w with mode := .unwinding }

/-- A panic raised by harness code (script `panic`, injected fault): logged. -/
def raiseLogged (w : World) : World := (w.emit .panic).raise

/-! #### Helpers without user code -/

/-- `add_to_list` (cc.rs) -/
def addToList (w : World) (x : Id) : World :=
  if (w.heap x).mark = .pc then w
  else if (w.heap x).mark ≠ .non ∨ (w.heap x).dropped then { w with mode := .stuck }   -- debug assertions
  else { (w.upd x fun o => { o with tc := 0, mark := .pc }) with pc := x :: w.pc }

/-- `remove_from_list` (cc.rs) -/
def removeFromList (w : World) (x : Id) : World :=
  if (w.heap x).mark = .pc then
    { (w.upd x fun o => { o with mark := .non }) with pc := w.pc.erase x }
  else w

/-- `CcBox::drop_metadata` -/
def dropMetadata (w : World) (x : Id) : World :=
  if (w.heap x).hasMeta then
    if (w.metas x).weak = 0 then (w.updMeta x fun m => { m with live := false, accessible := false }).emit (.metaFree x)
    else w.updMeta x fun m => { m with accessible := false }
  else w

/-- `cc_dealloc`. The memory is gone: the identity keeps no counter or mark (nothing can observe them;
stated so that "a freed box has count 0 and no mark" holds by construction and the invariants can
speak about every identity). -/
def freeBox (w : World) (x : Id) : World :=
  ({ (w.upd x fun o => { o with boxLive := false, rc := 0, tc := 0, mark := .non }) with
      allocBytes := w.allocBytes - (w.heap x).size }).emit (.free x)

/-- `Weak::drop` -/
def weakDrop (w : World) (r : WRef) : World :=
  match r with
  | .dangling => w
  | .to x =>
    let w := w.updMeta x fun m => { m with weak := m.weak - 1 }
    if (w.metas x).weak = 0 ∧ !(w.metas x).accessible then
      (w.updMeta x fun m => { m with live := false }).emit (.metaFree x)
    else w

/-- `Weak::strong_count` -/
def weakStrong (w : World) (r : WRef) : Nat :=
  match r with
  | .dangling => 0
  | .to x =>
    if (w.metas x).accessible then
      let o := w.heap x
      if o.rc = 0 ∨ o.dropped then 0 else o.rc
    else 0

def weakCount (w : World) (r : WRef) : Nat :=
  match r with
  | .dangling => 0
  | .to x => (w.metas x).weak

/-- `get_or_init_metadata` -/
def initMeta (w : World) (x : Id) : World :=
  if (w.heap x).hasMeta then w
  else (w.upd x fun o => { o with hasMeta := true }).updMeta x fun _ => { weak := 0, accessible := true, live := true }

def getH (w : World) (k : Nat) : Option Id := (w.H.getD k none)
def setH (w : World) (k : Nat) (v : Option Id) : World := { w with H := w.H.set k v }
/-- `H[k] = Some(cc)`: an entry stored there meanwhile by a callback is dropped. -/
def putH (w : World) (k : Nat) (x : Id) : World :=
  match w.getH k with
  | some old => (w.setH k (some x)).push (.dropCc old)
  | none => w.setH k (some x)
def getW (w : World) (k : Nat) : Option WRef := (w.W.getD k none)
def setW (w : World) (k : Nat) (v : Option WRef) : World := { w with W := w.W.set k v }
def getK (w : World) (k : Nat) : Option (Id × Nat × Nat) := (w.K.getD k none)
def setK (w : World) (k : Nat) (v : Option (Id × Nat × Nat)) : World := { w with K := w.K.set k v }

/-- The harness only touches objects it can still reach and that are intact. -/
def usable (w : World) (x : Id) : Bool := (w.heap x).boxLive && (w.heap x).valLive

def resolveC (w : World) (self : Option Id) : CRef → Option Id
  | .h k => w.getH k
  | .sf i => self.bind fun s => ((w.heap s).slots.getD i none)
  | .su i => self.bind fun s => ((w.heap s).uslots.getD i none)

def resolveN (w : World) (self : Option Id) : NRef → Option Id
  | .of r => w.resolveC self r
  | .self => self

def resolveW (w : World) (self : Option Id) (wc : Option Id) : WSel → Option WRef
  | .w k => w.getW k
  | .sw i => self.bind fun s => ((w.heap s).wslots.getD i none).map .to
  | .wc => wc.map .to

def getSlot (o : Obj) : Slot → Option (Option Id)
  | .f i => o.slots[i]?
  | .u i => o.uslots[i]?

def setSlot (o : Obj) (s : Slot) (v : Option Id) : Obj :=
  match s with
  | .f i => { o with slots := o.slots.set i v }
  | .u i => { o with uslots := o.uslots.set i v }

def newObj (c : Cfg) (w : World) (sp : NewSpec) : Obj :=
  { rc := 1, tc := c.tcInit, boxLive := true, valLive := true, kind := .node, size := c.nodeSize,
    finalized := c.fin && w.finalizing,
    slots := List.replicate sp.ns none, uslots := List.replicate sp.nu none,
    wslots := List.replicate sp.nw none, hasCleaner := sp.cleaner && c.clean,
    fin := sp.fin, drp := sp.drp }

/-- `Cc::clone` on a pointer to `x` is possible (the count is below its maximum; otherwise it panics). -/
def canClone (c : Cfg) (w : World) (x : Id) : Bool := decide ((w.heap x).rc < c.rcMax)
/-- `Cc::clone` / a successful `Weak::upgrade`: one more pointer, and the object leaves the buffer. -/
def cloneOk (w : World) (x : Id) : World :=
  (w.upd x fun o => { o with rc := o.rc + 1 }).removeFromList x

/-- `trigger_collection` decision (config.rs `should_collect`) -/
def shouldCollect (c : Cfg) (w : World) : Bool :=
  c.auto && !w.collecting && Policy.shouldCollect w.cfgAuto w.allocBytes w.thr w.pc.length w.bufThr

/-- Beginning of `collect`: flags, counter, guard frame. -/
def startCollect (w : World) : World :=
  ({ w with collecting := true, finalizing := false, dropping := false, execs := w.execs + 1 }.emit .collect).push
    (.collectLoop 0 w.finalizing w.dropping)

/-- Count down a fault counter; `true` = this invocation panics. -/
def tick (f : Option Nat) : Bool × Option Nat :=
  match f with
  | some n => if n ≤ 1 then (true, none) else (false, some (n - 1))
  | none => (false, none)

end World

open World

/-- The T1 view of the heap: counters, marks and the traced fields of initialised values. -/
def toT1 (w : World) : T1.Heap := fun i =>
  let o := w.heap i
  { rc := o.rc, tc := o.tc, mark := o.mark,
    edges := if o.valLive ∧ o.kind = .node then o.slots.filterMap id else [],
    uedges := (if o.kind = .node then o.uslots.filterMap id ++ o.cmap.toList else
                 o.aslots.filterMap (fun a => a.bind (·.cap))) }

/-- Write counters and marks back after the tracing phases. -/
def fromT1 (w : World) (h : T1.Heap) : World :=
  { w with heap := fun i =>
      let o := w.heap i
      let t := h i
      { o with tc := t.tc, mark := t.mark } }

/-- First non-empty field of a node in declaration order (`slots`, `uslots`, `wslots`, `cleaner`),
removed from the object. -/
inductive Field | cc (y : Id) | weak (y : Id) | none

def firstSome : List (Option Id) → Option (Id × List (Option Id))
  | [] => none
  | some y :: r => some (y, none :: r)
  | none :: r => (firstSome r).map fun (y, r') => (y, none :: r')

def takeField (o : Obj) : Field × Obj :=
  match firstSome o.slots with
  | some (y, s) => (.cc y, { o with slots := s })
  | none =>
    match firstSome o.uslots with
    | some (y, s) => (.cc y, { o with uslots := s })
    | none =>
      match firstSome o.wslots with
      | some (y, s) => (.weak y, { o with wslots := s })
      | none =>
        match o.cmap with
        | some m => (.cc m, { o with cmap := none })
        | none => (.none, o)

/-- Run one operation of a script. The frame `script rest self wc` has already been pushed back. -/
def execOp (c : Cfg) (w : World) (self wc : Option Id) (op : Op) : World :=
  let skip := { w with ret := .ok } |> fun w => { w with ret := .skip }
  match op with
  | .nop => { w with ret := .ok }
  | .panic => w.raiseLogged
  | .fault kind n j =>
    let w := { w with ret := .ok }
    match kind with
    | .trace => { w with fTrace := some (n, j) }
    | .fin => { w with fFin := some n }
    | .drop => { w with fDrop := some n }
    | .action => { w with fAct := some n }
    | .body => { w with fBody := some n }
  | .new k sp =>
    if (w.getH k).isSome ∨ k ≥ w.H.length then skip
    else
      -- the object gets its identity when its box is allocated, after the automatic collection (if any)
      let w := { w with ret := .ok }
      let w := w.push (.newAlloc k sp)
      if w.shouldCollect c then (w.push .adjustAfter).startCollect else w
  | .newCyclic k sp body selfw =>
    if !c.weak ∨ (w.getH k).isSome ∨ k ≥ w.H.length then skip
    else
      let w := { w with ret := .ok }
      let w := w.push (.newCyclicAlloc k sp body selfw)
      if w.shouldCollect c then (w.push .adjustAfter).startCollect else w
  | .clone r k =>
    match w.resolveC self r with
    | some x =>
      if (w.getH k).isSome ∨ k ≥ w.H.length then skip
      else if w.canClone c x then { ((w.cloneOk x).setH k (some x)) with ret := .ok }
      else w.raise
    | none => skip
  | .drop k =>
    match w.getH k with
    | some x => ({ (w.setH k none) with ret := .ok }).push (.dropCc x)
    | none => skip
  | .setf n s r =>
    match w.resolveN self n, w.resolveC self r with
    | some t, some x =>
      match getSlot (w.heap t) s with
      | some old =>
        if w.canClone c x then
          let w := { ((w.cloneOk x).upd t fun o => setSlot o s (some x)) with ret := .ok }
          match old with
          | some y => w.push (.dropCc y)
          | none => w
        else w.raise
      | none => skip
    | _, _ => skip
  | .movef n s k =>
    -- safe Rust cannot move a pointer while the target is borrowed through that very pointer
    if n.viaTable k then skip else
    match w.resolveN self n, w.getH k with
    | some t, some x =>
      match getSlot (w.heap t) s with
      | some old =>
        let w := { ((w.setH k none).upd t fun o => setSlot o s (some x)) with ret := .ok }
        match old with
        | some y => w.push (.dropCc y)
        | none => w
      | none => skip
    | _, _ => skip
  | .clrf n s =>
    match w.resolveN self n with
    | some t =>
      match getSlot (w.heap t) s with
      | some (some y) => ({ (w.upd t fun o => setSlot o s none) with ret := .ok }).push (.dropCc y)
      | _ => skip
    | none => skip
  | .takef n s k =>
    match w.resolveN self n with
    | some t =>
      match getSlot (w.heap t) s with
      | some (some y) =>
        if (w.getH k).isSome ∨ k ≥ w.H.length then skip
        else { ((w.upd t fun o => setSlot o s none).setH k (some y)) with ret := .ok }
      | _ => skip
    | none => skip
  | .getf n s k =>
    match w.resolveN self n with
    | some t =>
      match getSlot (w.heap t) s with
      | some (some y) =>
        if (w.getH k).isSome ∨ k ≥ w.H.length then skip
        else if w.canClone c y then { ((w.cloneOk y).setH k (some y)) with ret := .ok }
        else w.raise
      | _ => skip
    | none => skip
  | .markAlive r =>
    match w.resolveC self r with
    | some x => { (w.removeFromList x) with ret := .ok }
    | none => skip
  | .finAgain k =>
    match w.getH k with
    | some x =>
      if !c.fin then skip
      else if w.collecting ∨ w.finalizing ∨ w.dropping then w.raise
      else { (w.upd x fun o => { o with finalized := false }) with ret := .ok }
    | none => skip
  | .unwrap k =>
    match w.getH k with
    | some x =>
      if (w.heap x).rc ≠ 1 ∨ w.collecting ∨ w.dropping ∨ (c.fin ∧ w.finalizing) then { w with ret := .err }
      else
        -- the pointer is consumed; value moved out; allocation released; then the harness drops the value
        let w := (w.setH k none).removeFromList x
        let w := w.upd x fun o => { o with valLive := false }
        let w := if c.weak then w.dropMetadata x else w
        let w := w.freeBox x
        ({ w with ret := .unwrapped x }).push (.dropMoved x)
    | none => skip
  | .down r k =>
    if !c.weak then skip else
    match w.resolveC self r with
    | some x =>
      if (w.getW k).isSome ∨ k ≥ w.W.length then skip
      else
        let w := w.initMeta x
        if (w.metas x).weak ≥ c.weakMax then w.raise
        else { (((w.updMeta x fun m => { m with weak := m.weak + 1 }).removeFromList x).setW k (some (.to x))) with ret := .ok }
    | none => skip
  | .up ws k =>
    if !c.weak then skip else
    match w.resolveW self wc ws with
    | some r =>
      if (w.getH k).isSome ∨ k ≥ w.H.length then skip
      else if w.weakStrong r = 0 then { w with ret := .none }
      else match r with
        | .to x =>
          if w.canClone c x then { ((w.cloneOk x).setH k (some x)) with ret := .some x }
          else w.raise
        | .dangling => { w with ret := .none }
    | none => skip
  | .wclone ws k =>
    if !c.weak then skip else
    match w.resolveW self wc ws with
    | some r =>
      if (w.getW k).isSome ∨ k ≥ w.W.length then skip
      else match r with
        | .dangling => { (w.setW k (some r)) with ret := .ok }
        | .to x =>
          if (w.metas x).weak ≥ c.weakMax then w.raise
          else { ((w.updMeta x fun m => { m with weak := m.weak + 1 }).setW k (some r)) with ret := .ok }
    | none => skip
  | .wdrop k =>
    if !c.weak then skip else
    match w.getW k with
    | some r => { ((w.setW k none).weakDrop r) with ret := .ok }
    | none => skip
  | .wnew k =>
    if !c.weak ∨ (w.getW k).isSome ∨ k ≥ w.W.length then skip
    else { (w.setW k (some .dangling)) with ret := .ok }
  | .setw n i ws =>
    if !c.weak then skip else
    match w.resolveN self n, w.resolveW self wc ws with
    | some t, some (.to x) =>
      match (w.heap t).wslots[i]? with
      | some old =>
        if (w.metas x).weak ≥ c.weakMax then w.raise
        else
          let w := w.updMeta x fun m => { m with weak := m.weak + 1 }
          let w := w.upd t fun o => { o with wslots := o.wslots.set i (some x) }
          let w := match old with
            | some y => w.weakDrop (.to y)
            | none => w
          { w with ret := .ok }
      | none => skip
    | _, _ => skip
  | .clrw n i =>
    if !c.weak then skip else
    match w.resolveN self n with
    | some t =>
      match (w.heap t).wslots[i]? with
      | some (some y) =>
        { ((w.upd t fun o => { o with wslots := o.wslots.set i none }).weakDrop (.to y)) with ret := .ok }
      | _ => skip
    | none => skip
  | .reg n script k cap =>
    if !c.clean then skip else
    match w.resolveN self n with
    | some t =>
      if !(w.heap t).hasCleaner ∨ (w.getK k).isSome ∨ k ≥ w.K.length then skip
      else
        -- the closure (capturing a clone) is built before `register` is called
        let capId := cap.bind (w.resolveC self)
        let capOk : Bool := match capId with
          | some y => w.canClone c y
          | none => true
        if !capOk then w.raise
        else
          let w := match capId with
            | some y => w.cloneOk y
            | none => w
          let w := { w with ret := .ok }
          match (w.heap t).cmap with
          | some _ => w.push (.regInsert t script k capId)
          | none =>
            -- `Cc::new(CleanerMap { .. })`: may start a collection first
            let w := (w.push (.regInsert t script k capId)).push (.mapAlloc t)
            if w.shouldCollect c then (w.push .adjustAfter).startCollect else w
    | none => skip
  | .clean k =>
    if !c.clean then skip else
    match w.getK k with
    | some (m, i, aid) =>
      let w := { w with ret := .ok }
      -- `self.cleaner_map.upgrade()`
      if w.weakStrong (.to m) = 0 then w
      else if !w.canClone c m then w.raise
      else
          let w := w.cloneOk m
          if (w.heap m).borrowed then w.push (.cleanEnd m false false)
          else
            let w := w.upd m fun o => { o with borrowed := true }
            let w := w.push (.cleanEnd m true false)
            -- `map.remove(key)`: the removed action is dropped (= run) while the map is borrowed
            match ((w.heap m).aslots.getD i none) with
            | some a =>
              if a.aid = aid then
                let w := w.upd m fun o => { o with aslots := o.aslots.set i none, afree := i :: o.afree }
                let w := w.push (.actionEnd a.cap false)
                let (boom, f) := tick w.fAct
                let w := { w with fAct := f }
                let w := w.emit (.action a.aid (w.isTracing c))
                if boom then w.raiseLogged else w.push (.script (c.script a.script) none none)
              else w
            | none => w
    | none => skip
  | .cdrop k =>
    if !c.clean then skip else
    match w.getK k with
    | some (m, _, _) => { ((w.setK k none).weakDrop (.to m)) with ret := .ok }
    | none => skip
  | .collect =>
    let w := { w with ret := .ok }
    if w.collecting then w
    else
      let w := if c.auto then w.push .adjustAfter else w
      w.startCollect
  | .cloneN r n =>
    match w.resolveC self r with
    | some x =>
      let room := c.rcMax - (w.heap x).rc
      if n = 0 then { w with ret := .ok }
      else if n ≤ room then
        let w := (w.upd x fun o => { o with rc := o.rc + n }).removeFromList x
        { w with ret := .ok, stash := fun y => if y = x then w.stash x + n else w.stash y }
      else
        -- `room` clones succeed, the next one panics
        let w := if room = 0 then w else (w.upd x fun o => { o with rc := o.rc + room }).removeFromList x
        ({ w with stash := fun y => if y = x then w.stash x + room else w.stash y }).raise
    | none => skip
  | .dropN r n =>
    match w.resolveC self r with
    | some x =>
      let k := min n (w.stash x)
      ({ w with ret := .ok, stash := fun y => if y = x then w.stash x - k else w.stash y }).push (.dropMany x k)
    | none => skip
  | .downN r n =>
    if !c.weak then skip else
    match w.resolveC self r with
    | some x =>
      if n = 0 then { w with ret := .ok }
      else
        let w := w.initMeta x
        let room := c.weakMax - (w.metas x).weak
        if n ≤ room then
          let w := (w.updMeta x fun m => { m with weak := m.weak + n }).removeFromList x
          { w with ret := .ok, wstash := fun y => if y = x then w.wstash x + n else w.wstash y }
        else
          let w := if room = 0 then w else (w.updMeta x fun m => { m with weak := m.weak + room }).removeFromList x
          ({ w with wstash := fun y => if y = x then w.wstash x + room else w.wstash y }).raise
    | none => skip
  | .wdropN r n =>
    if !c.weak then skip else
    match w.resolveC self r with
    | some x =>
      let k := min n (w.wstash x)
      if k = 0 then { w with ret := .ok }
      else
        -- `k` times `Weak::drop`: only the last one can release the record (and only if the box is gone: not here, a `Cc` exists)
        let w := w.updMeta x fun m => { m with weak := m.weak - (k - 1) }
        { (w.weakDrop (.to x)) with ret := .ok, wstash := fun y => if y = x then w.wstash x - k else w.wstash y }
    | none => skip
  | .cfgAuto b => if c.auto then { w with cfgAuto := b, ret := .ok } else skip
  | .cfgBuf b => if c.auto then { w with bufThr := b, ret := .ok } else skip
  | .cfgPct bits => if c.auto then { w with pctBits := bits, ret := .ok } else skip

/-- Beginning of `deallocate_list`. -/
def startDealloc (c : Cfg) (w : World) (N : List Id) : World :=
  let w' := { (w.push (.deallocDrop N N w.dropping)) with dropping := true }
  -- ghost marking, so that invariants can speak about "the sets the collector has condemned" also after an unwinding
  let w' := w'.updAll N fun o => { o with doomed := true }
  if c.weak then w'.updAll N fun o => { o with dropped := true } else w'

/-- `Cc::drop`, last owner, after the optional finalizer: the count goes to 0, the object leaves the
buffer, `_dropping_guard`, the dropped flag, then `drop_in_place`. -/
def destroyLast (c : Cfg) (w : World) (x : Id) : World :=
  let w1 := (w.upd x fun o => { o with rc := o.rc - 1 }).removeFromList x
  let w2 := { (w1.push (.afterDropValue x w1.dropping)) with dropping := true }
  let w3 := if c.weak then w2.upd x fun o => { o with dropped := true } else w2
  w3.push (.dropValue x)

/-- Cleanup action of a frame popped by unwinding (`w` has the frame already popped).
Returns the new world; cleanup-capable frames switch the machine back to `running`. -/
def unwindFrame (c : Cfg) (w : World) (f : Frame) : World :=
  match f with
  | .catchTop => { w with mode := .running, ret := .panic }
  | .dropCcAfterFin _ oldFin => { w with finalizing := oldFin }
  | .afterDropValue _ oldDrop => { w with dropping := oldDrop }
  | .dropValue x =>
    -- not started yet: cannot be on the stack while unwinding (it is always on top when pushed)
    w.upd x id
  | .dropFields x false => { (w.push (.dropFields x true)) with mode := .running }
  | .dropActions m i false => { (w.push (.dropActions m i true)) with mode := .running }
  | .actionEnd cap false => { (w.push (.actionEnd cap true)) with mode := .running }
  | .cleanEnd m b false => { (w.push (.cleanEnd m b true)) with mode := .running }
  | .collectLoop _ oldFin oldDrop =>
    { w with collecting := false, finalizing := oldFin, dropping := oldDrop }
  | .finalizePass N _ _ oldFin =>
    { (w.updAll N fun o => { o with mark := .non }) with finalizing := oldFin }
  | .deallocDrop N _ oldDrop =>
    { (w.updAll N fun o => { o with mark := .non, dropped := o.dropped || c.weak }) with dropping := oldDrop }
  | .regInsert _ _ _ (some y) =>
    -- the closure passed to `register` is dropped, and with it the captured pointer
    { (w.push (.actionEnd (some y) true)) with mode := .running }
  | .newCyclicEnd _ id _ _ =>
    -- `PanicGuard::drop`: side record handed over, box released; then the closure's `Weak` is dropped
    let w := w.dropMetadata id
    let w := w.freeBox id
    w.weakDrop (.to id)
  | _ => w

/-- Execute frame `f`, already popped from the stack of `w` (running mode). -/
def stepFrame (c : Cfg) (w : World) (f : Frame) : World :=
  match f with
  | .catchTop => w
  | .setRet r => { w with ret := r }
  | .script [] _ _ _ => w
  | .script (op :: ops) self wc top =>
    -- only a top-level operation reports its result
    let w' := execOp c (w.push (.script ops self wc top)) self wc op
    if top then w' else { w' with ret := w.ret }
  | .dropCc x =>
    let o := w.heap x
    if o.mark = .inList ∨ o.mark = .inQueue then w.upd x fun o => { o with rc := o.rc - 1 }
    else if o.rc = 1 then
      if c.fin ∧ !o.finalized then
        let w := (w.push (.dropCcAfterFin x w.finalizing))
        let w := { w with finalizing := true }
        let w := w.upd x fun o => { o with finalized := true }
        w.push (.callFin x)
      else destroyLast c w x
    else (w.upd x fun o => { o with rc := o.rc - 1 }).addToList x
  | .dropCcAfterFin x oldFin =>
    if (w.heap x).rc ≠ 1 then
      -- resurrected by its finalizer
      { ((w.upd x fun o => { o with rc := o.rc - 1 }).addToList x) with finalizing := oldFin }
    else destroyLast c { w with finalizing := oldFin } x
  | .afterDropValue x oldDrop =>
    -- `debug_assert_eq!(0, counter, "Trying to deallocate a CcBox with a reference counter > 0")`
    if (w.heap x).rc ≠ 0 then { (w.push (.afterDropValue x oldDrop)) with mode := .stuck } else
    let w := if c.weak then w.dropMetadata x else w
    let w := w.freeBox x
    { w with dropping := oldDrop }
  | .dropValue x =>
    let o := w.heap x
    let w := w.upd x fun o => { o with valLive := false }
    match o.kind with
    | .node =>
      let w := w.push (.dropFields x false)
      let (boom, f) := tick w.fDrop
      let w := { w with fDrop := f }
      let w := w.emit (.drop x (w.isTracing c))
      if boom then w.raiseLogged else w.push (.script (c.script o.drp) (some x) none)
    | .map => w.push (.dropActions x 0 false)
  | .dropMoved x =>
    (w.emit (.moved x)).push (.dropFields x false)
  | .dropFields x unw =>
    match takeField (w.heap x) with
    | (.cc y, o') => ((w.upd x fun _ => o').push (.dropFields x unw)).push (.dropCc y)
    | (.weak y, o') => ((w.upd x fun _ => o').push (.dropFields x unw)).weakDrop (.to y)
    | (.none, _) => if unw then { w with mode := .unwinding } else w
  | .dropActions m i unw =>
    let o := w.heap m
    if i < o.aslots.length then
      let w := w.push (.dropActions m (i + 1) unw)
      match o.aslots.getD i none with
      | some a =>
        let w := w.upd m fun o => { o with aslots := o.aslots.set i none }
        let w := w.push (.actionEnd a.cap false)
        let (boom, f) := tick w.fAct
        let w := { w with fAct := f }
        let w := w.emit (.action a.aid (w.isTracing c))
        if boom then w.raiseLogged else w.push (.script (c.script a.script) none none)
      | none => w
    else if unw then { w with mode := .unwinding } else w
  | .actionEnd cap unw =>
    match cap with
    | some y => (w.push (.actionEnd none unw)).push (.dropCc y)
    | none => if unw then { w with mode := .unwinding } else w
  | .callFin x =>
    match (w.heap x).kind with
    | .map => w          -- `impl Finalize for CleanerMap {}`
    | .node =>
      let (boom, f) := tick w.fFin
      let w := { w with fFin := f }
      let w := w.emit (.finalize x (w.isTracing c))
      if boom then w.raiseLogged else w.push (.script (c.script (w.heap x).fin) (some x) none)
  | .collectLoop n oldFin oldDrop =>
    let stop := if c.fin then n ≥ c.passCap ∨ w.pc.isEmpty else n ≥ 1 ∨ w.pc.isEmpty
    if stop then { w with collecting := false, finalizing := oldFin, dropping := oldDrop }
    else (w.push (.collectLoop (n + 1) oldFin oldDrop)).push .collectPass
  | .collectPass =>
    let user := fun i => decide ((w.heap i).kind = .node)
    let (res, fault) := tracePhasesF user w.next (toT1 w) w.pc w.fTrace
    let w := { w with fTrace := fault }
    let tr := w.isTracing c
    match res with
    | .panicked h pcRest log =>
      let w := { (fromT1 w h) with pc := pcRest }
      let w := { w with events := w.events ++ log.map (fun x => Event.trace x tr) }
      w.raiseLogged
    | .done s =>
      let w := { (fromT1 w s.ts.h) with pc := [] }
      let w := { w with events := w.events ++ s.log.map (fun x => Event.trace x tr) }
      let N := s.ts.nonroot
      if N.isEmpty then w
      else if c.fin then
        ({ w with finalizing := true }).push (.finalizePass N N false w.finalizing)
      else RustCc.startDealloc c w N
  | .finalizePass N rest hasFin oldFin =>
    match rest with
    | x :: r =>
      if !(w.heap x).finalized then
        let w := w.push (.finalizePass N r true oldFin)
        let w := w.upd x fun o => { o with finalized := true }
        w.push (.callFin x)
      else w.push (.finalizePass N r hasFin oldFin)
    | [] =>
      let w := { w with finalizing := oldFin }
      if !hasFin then RustCc.startDealloc c w N
      else
        -- `swap_list` + `mark_self_and_append`: re-buffer the list in front of what was buffered meanwhile
        { (w.updAll N fun o => { o with tc := 0, mark := .pc }) with pc := N ++ w.pc }
  | .deallocDrop N rest oldDrop =>
    match rest with
    | x :: r =>
      let w := w.push (.deallocDrop N r oldDrop)
      let w := if c.weak then w.upd x fun o => { o with dropped := true } else w
      w.push (.dropValue x)
    | [] =>
      -- same assertion, for every member of the list
      if N.any (fun x => (w.heap x).rc != 0) then { (w.push (.deallocDrop N [] oldDrop)) with mode := .stuck } else
      let w := N.foldl (fun w x => (if c.weak then w.dropMetadata x else w).freeBox x) w
      { w with dropping := oldDrop }
  | .adjustAfter =>
    { w with thr := Policy.adjustF c.defaultThr (Policy.fuelFor w.allocBytes w.thr) w.allocBytes w.pctBits w.thr }
  | .newAlloc k sp =>
    let id := w.next
    let o := newObj c w sp
    let w := { w with next := id + 1, heap := w.heap.set id o, allocBytes := w.allocBytes + o.size }
    (w.emit (.alloc id o.size)).putH k id
  | .newCyclicAlloc k sp body selfw =>
    -- box allocated with an uninitialised value, side record created, counts 0 strong / 1 weak
    let id := w.next
    let o := { newObj c w sp with rc := 0, valLive := false, hasMeta := true }
    let w := { w with next := id + 1, heap := w.heap.set id o, allocBytes := w.allocBytes + o.size }
    let w := w.emit (.alloc id o.size)
    let w := w.updMeta id fun _ => { weak := 1, accessible := true, live := true }
    let w := w.push (.newCyclicEnd k id sp selfw)
    let (boom, f) := tick w.fBody
    let w := { w with fBody := f }
    if boom then w.raiseLogged else w.push (.script (c.script body) none (some id))
  | .newCyclicEnd k id sp selfw =>
    -- the closure builds the value (optionally storing a clone of its `Weak` in a weak field)
    let store : Bool := match selfw with
      | some i => decide (i < sp.nw)
      | none => false
    if store && decide ((w.metas id).weak ≥ c.weakMax) then
      (w.push (.newCyclicEnd k id sp selfw)).raise
    else
      let w := if store then
          (w.updMeta id fun m => { m with weak := m.weak + 1 }).upd id fun o =>
            { o with wslots := o.wslots.set (selfw.getD 0) (some id) }
        else w
      -- the value is written, then `increment_counter()` takes the strong count from 0 to 1
      let w := w.upd id fun o => { o with valLive := true, rc := o.rc + 1 }
      let w := w.weakDrop (.to id)
      w.putH k id
  | .mapAlloc owner =>
    let id := w.next
    let w := { w with next := id + 1 }
    let o : Obj := { rc := 1, tc := c.tcInit, boxLive := true, valLive := true, kind := .map, size := c.mapSize,
                     finalized := c.fin && w.finalizing }
    let w := { w with heap := w.heap.set id o, allocBytes := w.allocBytes + o.size }
    let w := w.emit (.alloc id o.size)
    -- the collection run by `Cc::new` may have re-entered `register` on this cleaner (from a finalizer): a map
    -- stored meanwhile is kept and the one just allocated is dropped
    match (w.heap owner).cmap with
    | none => w.upd owner fun o => { o with cmap := some id }
    | some _ => w.push (.dropCc id)
  | .regInsert owner script k cap =>
    match (w.heap owner).cmap with
    | none => { w with mode := .stuck }
    | some m =>
      if (w.heap m).borrowed then
        -- `borrow_mut()` panics; the closure (and the captured pointer) is dropped by the unwinding
        (w.push (.actionEnd cap false)).raise
      else
        let aid := w.nextAid
        let w := { w with nextAid := aid + 1 }
        let a : Action := { aid := aid, script := script, cap := cap }
        let om := w.heap m
        let (idx, om') := match om.afree with
          | i :: fr => (i, { om with aslots := om.aslots.set i (some a), afree := fr })
          | [] => (om.aslots.length, { om with aslots := om.aslots ++ [some a] })
        let w := w.upd m fun _ => om'
        -- `cc.downgrade()`
        let w := w.initMeta m
        if (w.metas m).weak ≥ c.weakMax then w.raise
        else
          let w := (w.updMeta m fun mm => { mm with weak := mm.weak + 1 }).removeFromList m
          w.setK k (some (m, idx, aid))
  | .dropMany x n =>
    match n with
    | 0 => w
    | n + 1 => (w.push (.dropMany x n)).push (.dropCc x)
  | .cleanEnd m byUs unw =>
    let w := if byUs then w.upd m fun o => { o with borrowed := false } else w
    (w.push (.actionEnd none unw)).push (.dropCc m)

/-- One micro-step. -/
def step (c : Cfg) (w : World) : World :=
  match w.mode with
  | .aborted | .stuck => w
  | .unwinding =>
    match w.stack with
    | [] => { w with mode := .running, ret := .panic }
    | f :: rest => unwindFrame c { w with stack := rest } f
  | .running =>
    match w.stack with
    | [] => w
    | f :: rest => stepFrame c { w with stack := rest } f

/-- Initial world with tables of the given sizes. -/
def World.init (c : Cfg) (nH nW nK : Nat) : World :=
  { H := List.replicate nH none, W := List.replicate nW none, K := List.replicate nK none, thr := c.defaultThr }

/-- Run until the stack is empty (or the machine aborted / got stuck), with fuel. -/
def run (c : Cfg) : Nat → World → World
  | 0, w => w
  | fuel + 1, w =>
    if w.stack.isEmpty ∧ w.mode = .running then w
    else if w.mode = .aborted ∨ w.mode = .stuck then w
    else run c fuel (step c w)

/-- Execute one top-level operation under `catch_unwind`. -/
def execTop (c : Cfg) (fuel : Nat) (w : World) (op : Op) : World :=
  if w.mode = .aborted ∨ w.mode = .stuck then w
  else run c fuel { w with stack := [.script [op] none none true, .catchTop], events := [], ret := .ok }

end RustCc
