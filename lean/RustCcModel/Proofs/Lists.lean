import RustCcModel.Model.Lists
/-! # `src/lists.rs` refines plain lists

`DL m p f l e`: following `next` from the pointer `f` visits exactly the elements of `l` and ends with the pointer `e`; the
`prev` link of each element is its predecessor (`p` for the first one). `IsList` is a complete, duplicate-free list. -/
namespace RustCc.Lists

/-! ### Memory updates -/

@[simp] theorem upd_same (m : Mem) (x : Nat) (f : Node → Node) : (m.upd x f) x = f (m x) := by simp [Mem.upd]
theorem upd_ne (m : Mem) (x y : Nat) (f : Node → Node) (h : y ≠ x) : (m.upd x f) y = m y := by simp [Mem.upd, h]

@[simp] theorem setNext_next_same (m : Mem) (x v) : ((m.setNext x v) x).next = v := by simp [Mem.setNext]
@[simp] theorem setNext_prev (m : Mem) (x v y) : ((m.setNext x v) y).prev = (m y).prev := by
  by_cases h : y = x <;> simp [Mem.setNext, Mem.upd, h]
@[simp] theorem setNext_mark (m : Mem) (x v y) : ((m.setNext x v) y).mark = (m y).mark := by
  by_cases h : y = x <;> simp [Mem.setNext, Mem.upd, h]
@[simp] theorem setNext_tc (m : Mem) (x v y) : ((m.setNext x v) y).tc = (m y).tc := by
  by_cases h : y = x <;> simp [Mem.setNext, Mem.upd, h]
theorem setNext_next_ne (m : Mem) (x v y) (h : y ≠ x) : ((m.setNext x v) y).next = (m y).next := by
  simp [Mem.setNext, Mem.upd, h]

@[simp] theorem setPrev_prev_same (m : Mem) (x v) : ((m.setPrev x v) x).prev = v := by simp [Mem.setPrev]
@[simp] theorem setPrev_next (m : Mem) (x v y) : ((m.setPrev x v) y).next = (m y).next := by
  by_cases h : y = x <;> simp [Mem.setPrev, Mem.upd, h]
@[simp] theorem setPrev_mark (m : Mem) (x v y) : ((m.setPrev x v) y).mark = (m y).mark := by
  by_cases h : y = x <;> simp [Mem.setPrev, Mem.upd, h]
@[simp] theorem setPrev_tc (m : Mem) (x v y) : ((m.setPrev x v) y).tc = (m y).tc := by
  by_cases h : y = x <;> simp [Mem.setPrev, Mem.upd, h]
theorem setPrev_prev_ne (m : Mem) (x v y) (h : y ≠ x) : ((m.setPrev x v) y).prev = (m y).prev := by
  simp [Mem.setPrev, Mem.upd, h]

@[simp] theorem setMark_next (m : Mem) (x v y) : ((m.setMark x v) y).next = (m y).next := by
  by_cases h : y = x <;> simp [Mem.setMark, Mem.upd, h]
@[simp] theorem setMark_prev (m : Mem) (x v y) : ((m.setMark x v) y).prev = (m y).prev := by
  by_cases h : y = x <;> simp [Mem.setMark, Mem.upd, h]
@[simp] theorem setMark_tc (m : Mem) (x v y) : ((m.setMark x v) y).tc = (m y).tc := by
  by_cases h : y = x <;> simp [Mem.setMark, Mem.upd, h]
@[simp] theorem setMark_mark_same (m : Mem) (x v) : ((m.setMark x v) x).mark = v := by simp [Mem.setMark]
theorem setMark_mark_ne (m : Mem) (x v y) (h : y ≠ x) : ((m.setMark x v) y).mark = (m y).mark := by
  simp [Mem.setMark, Mem.upd, h]

@[simp] theorem resetTc_next (m : Mem) (x y) : ((m.resetTc x) y).next = (m y).next := by
  by_cases h : y = x <;> simp [Mem.resetTc, Mem.upd, h]
@[simp] theorem resetTc_prev (m : Mem) (x y) : ((m.resetTc x) y).prev = (m y).prev := by
  by_cases h : y = x <;> simp [Mem.resetTc, Mem.upd, h]
@[simp] theorem resetTc_mark (m : Mem) (x y) : ((m.resetTc x) y).mark = (m y).mark := by
  by_cases h : y = x <;> simp [Mem.resetTc, Mem.upd, h]
@[simp] theorem resetTc_tc_same (m : Mem) (x) : ((m.resetTc x) x).tc = 0 := by simp [Mem.resetTc]
theorem resetTc_tc_ne (m : Mem) (x y) (h : y ≠ x) : ((m.resetTc x) y).tc = (m y).tc := by
  simp [Mem.resetTc, Mem.upd, h]

/-! ### Doubly linked segments -/

def DL (m : Mem) : Option Nat → Option Nat → List Nat → Option Nat → Prop
  | _, f, [], e => f = e
  | p, f, x :: r, e => f = some x ∧ (m x).prev = p ∧ DL m (some x) (m x).next r e

/-- The last element, or `p` for the empty list: the `prev` link a following segment starts with. -/
def lastOr (p : Option Nat) : List Nat → Option Nat
  | [] => p
  | x :: r => lastOr (some x) r

@[simp] theorem lastOr_nil (p) : lastOr p [] = p := rfl
@[simp] theorem lastOr_cons (p x r) : lastOr p (x :: r) = lastOr (some x) r := rfl
theorem lastOr_append (p : Option Nat) (a b : List Nat) : lastOr p (a ++ b) = lastOr (lastOr p a) b := by
  induction a generalizing p with
  | nil => rfl
  | cons x r ih => simp [ih]
theorem lastOr_snoc (p : Option Nat) (a : List Nat) (x : Nat) : lastOr p (a ++ [x]) = some x := by
  simp [lastOr_append]
theorem lastOr_mem (p : Option Nat) (a : List Nat) (h : a ≠ []) : ∃ z ∈ a, lastOr p a = some z := by
  induction a generalizing p with
  | nil => exact absurd rfl h
  | cons x r ih =>
    cases r with
    | nil => exact ⟨x, by simp, rfl⟩
    | cons y r' =>
      obtain ⟨z, hz, he⟩ := ih (some x) (by simp)
      exact ⟨z, List.mem_cons_of_mem _ hz, he⟩
theorem lastOr_none_iff (a : List Nat) : lastOr none a = none ↔ a = [] := by
  constructor
  · intro h
    cases a with
    | nil => rfl
    | cons x r =>
      obtain ⟨z, _, he⟩ := lastOr_mem none (x :: r) (by simp)
      rw [he] at h; cases h
  · intro h; subst h; rfl

theorem DL_append (m : Mem) (p f : Option Nat) (a b : List Nat) (e : Option Nat) :
    DL m p f (a ++ b) e ↔ ∃ g, DL m p f a g ∧ DL m (lastOr p a) g b e := by
  induction a generalizing p f with
  | nil => simp [DL]
  | cons x r ih =>
    simp only [List.cons_append, DL, lastOr_cons, ih]
    constructor
    · rintro ⟨h1, h2, g, h3, h4⟩; exact ⟨g, ⟨h1, h2, h3⟩, h4⟩
    · rintro ⟨g, ⟨h1, h2, h3⟩, h4⟩; exact ⟨h1, h2, g, h3, h4⟩

/-- A segment only depends on the links of its own elements. -/
theorem DL_congr {m m' : Mem} {p f : Option Nat} {l : List Nat} {e : Option Nat}
    (h : ∀ x ∈ l, (m' x).next = (m x).next ∧ (m' x).prev = (m x).prev) (hd : DL m p f l e) : DL m' p f l e := by
  induction l generalizing p f with
  | nil => exact hd
  | cons x r ih =>
    obtain ⟨h1, h2, h3⟩ := hd
    have hx := h x (by simp)
    refine ⟨h1, by rw [hx.2]; exact h2, ?_⟩
    rw [hx.1]
    exact ih (fun y hy => h y (List.mem_cons_of_mem _ hy)) h3

theorem DL_upd_notin {m : Mem} {p f : Option Nat} {l : List Nat} {e : Option Nat} (z : Nat) (g : Node → Node)
    (hz : z ∉ l) (hd : DL m p f l e) : DL (m.upd z g) p f l e := by
  apply DL_congr _ hd
  intro x hx
  have : x ≠ z := fun h => hz (h ▸ hx)
  simp [upd_ne _ _ _ _ this]

/-- Changing where the segment leads to: write the `next` link of its last element. -/
theorem DL_set_exit {m : Mem} {p f : Option Nat} {a : List Nat} {e : Option Nat} (pv : Nat) (v : Option Nat)
    (hd : DL m p f a e) (hn : a.Nodup) (hl : lastOr p a = some pv) (ha : a ≠ []) : DL (m.setNext pv v) p f a v := by
  induction a generalizing p f with
  | nil => exact absurd rfl ha
  | cons x r ih =>
    obtain ⟨h1, h2, h3⟩ := hd
    cases r with
    | nil =>
      simp at hl; subst hl
      exact ⟨h1, by simpa using h2, by simp [DL]⟩
    | cons y r' =>
      have hxr : x ∉ (y :: r') := (List.nodup_cons.1 hn).1
      have hpv : pv ∈ (y :: r') := by
        obtain ⟨z, hz, he⟩ := lastOr_mem (some x) (y :: r') (by simp)
        simp only [lastOr_cons] at hl he
        rw [hl] at he; cases he; exact hz
      have hne : x ≠ pv := fun h => hxr (h ▸ hpv)
      refine ⟨h1, by simpa using h2, ?_⟩
      rw [setNext_next_ne _ _ _ _ hne]
      exact ih h3 (List.nodup_cons.1 hn).2 hl (by simp)

/-- Changing where the segment comes from: write the `prev` link of its first element. -/
theorem DL_set_entry {m : Mem} {q g : Option Nat} {nx : Nat} {b : List Nat} {e : Option Nat} (v : Option Nat)
    (hd : DL m q g (nx :: b) e) (hn : (nx :: b).Nodup) : DL (m.setPrev nx v) v g (nx :: b) e := by
  obtain ⟨h1, _, h3⟩ := hd
  refine ⟨h1, by simp, ?_⟩
  rw [setPrev_next]
  exact DL_upd_notin nx _ (List.nodup_cons.1 hn).1 h3

/-- Walking a complete segment lists its elements. -/
theorem walk_of_DL {m : Mem} {p f : Option Nat} {l : List Nat} (hd : DL m p f l none) (fuel : Nat) (hf : l.length ≤ fuel) :
    walk m f fuel = l := by
  induction l generalizing p f fuel with
  | nil =>
    have : f = none := hd
    subst this
    cases fuel <;> rfl
  | cons x r ih =>
    obtain ⟨h1, _, h3⟩ := hd
    subst h1
    cases fuel with
    | zero => simp at hf
    | succ k =>
      simp only [walk]
      rw [ih h3 k (by simpa using hf)]

structure IsList (m : Mem) (first : Option Nat) (l : List Nat) : Prop where
  dl : DL m none first l none
  nodup : l.Nodup

theorem IsList.nil (m : Mem) : IsList m none [] := ⟨rfl, List.nodup_nil⟩

theorem IsList.first_eq {m : Mem} {first : Option Nat} {l : List Nat} (h : IsList m first l) : first = l.head? := by
  cases l with
  | nil => exact h.dl
  | cons x r => exact h.dl.1

theorem IsList.congr {m m' : Mem} {first : Option Nat} {l : List Nat} (h : IsList m first l)
    (hc : ∀ x ∈ l, (m' x).next = (m x).next ∧ (m' x).prev = (m x).prev) : IsList m' first l :=
  ⟨DL_congr hc h.dl, h.nodup⟩

theorem IsList.upd_notin {m : Mem} {first : Option Nat} {l : List Nat} (h : IsList m first l) (z : Nat) (g : Node → Node)
    (hz : z ∉ l) : IsList (m.upd z g) first l := ⟨DL_upd_notin z g hz h.dl, h.nodup⟩

/-! ### `LinkedList::add` is `cons` -/

theorem llAdd_spec {m : Mem} {first : Option Nat} {l : List Nat} (h : IsList m first l) (x : Nat) (hx : x ∉ l)
    (hn : (m x).next = none) (hp : (m x).prev = none) :
    IsList (llAdd m first x).1 (llAdd m first x).2 (x :: l) ∧ (llAdd m first x).2 = some x ∧
    (∀ y, y ∉ x :: l → (llAdd m first x).1 y = m y) ∧
    (∀ y, ((llAdd m first x).1 y).mark = (m y).mark ∧ ((llAdd m first x).1 y).tc = (m y).tc) := by
  cases l with
  | nil =>
    have : first = none := h.dl
    subst this
    simp only [llAdd]
    refine ⟨⟨⟨rfl, hp, by simpa [DL] using hn⟩, by simp⟩, by trivial, fun y _ => by trivial, fun y => by simp⟩
  | cons f r =>
    obtain ⟨h1, h2, h3⟩ := h.dl
    subst h1
    have hxf : x ≠ f := fun e => hx (e ▸ List.mem_cons_self ..)
    have hxr : x ∉ r := fun e => hx (List.mem_cons_of_mem _ e)
    have hfr : f ∉ r := (List.nodup_cons.1 h.nodup).1
    simp only [llAdd]
    refine ⟨⟨⟨rfl, by simpa [setPrev_prev_ne _ _ _ _ hxf] using hp, ?_⟩, List.nodup_cons.2 ⟨hx, h.nodup⟩⟩, by trivial, ?_, fun y => by simp⟩
    · rw [setNext_next_same]
      refine ⟨rfl, by simp, ?_⟩
      rw [setNext_next_ne _ _ _ _ hxf.symm, setPrev_next]
      exact DL_upd_notin x _ hxr (DL_upd_notin f _ hfr h3)
    · intro y hy
      have h1 : y ≠ x := fun e => hy (e ▸ List.mem_cons_self ..)
      have h2 : y ≠ f := fun e => hy (e ▸ List.mem_cons_of_mem _ (List.mem_cons_self ..))
      simp [Mem.setNext, Mem.setPrev, upd_ne _ _ _ _ h1, upd_ne _ _ _ _ h2]

/-! ### `LinkedList::remove_first` is `tail` -/

theorem llRemoveFirst_nil (m : Mem) : llRemoveFirst m none = (m, none, none) := rfl

theorem llRemoveFirst_spec {m : Mem} {first : Option Nat} {x : Nat} {r : List Nat} (h : IsList m first (x :: r)) :
    (llRemoveFirst m first).2.2 = some x ∧
    IsList (llRemoveFirst m first).1 (llRemoveFirst m first).2.1 r ∧
    ((llRemoveFirst m first).1 x).next = none ∧ ((llRemoveFirst m first).1 x).prev = none ∧
    ((llRemoveFirst m first).1 x).mark = 0 ∧ ((llRemoveFirst m first).1 x).tc = (m x).tc ∧
    (∀ y, y ∉ x :: r → (llRemoveFirst m first).1 y = m y) ∧
    (∀ y, y ≠ x → ((llRemoveFirst m first).1 y).mark = (m y).mark ∧ ((llRemoveFirst m first).1 y).tc = (m y).tc) := by
  obtain ⟨h1, h2, h3⟩ := h.dl
  subst h1
  have hxr : x ∉ r := (List.nodup_cons.1 h.nodup).1
  have hnr : r.Nodup := (List.nodup_cons.1 h.nodup).2
  simp only [llRemoveFirst]
  cases r with
  | nil =>
    have hn : (m x).next = none := h3
    simp only [hn]
    refine ⟨by trivial, ⟨rfl, hnr⟩, by simp, by simpa using h2, by simp, by simp, ?_, ?_⟩
    · intro y hy
      have : y ≠ x := fun e => hy (e ▸ List.mem_cons_self ..)
      simp [Mem.setNext, Mem.setMark, upd_ne _ _ _ _ this]
    · intro y hy
      simp [setMark_mark_ne _ _ _ _ hy]
  | cons nx r' =>
    obtain ⟨g1, g2, g3⟩ := h3
    simp only [g1]
    have hne : nx ≠ x := fun e => hxr (e ▸ List.mem_cons_self ..)
    refine ⟨by trivial, ⟨?_, hnr⟩, by simp, by simpa [setPrev_prev_ne _ _ _ _ hne.symm] using h2, by simp, by simp, ?_, ?_⟩
    · have hd : DL m (some x) (some nx) (nx :: r') none := ⟨rfl, g2, g3⟩
      have := DL_set_entry none hd hnr
      exact DL_upd_notin x _ hxr (DL_upd_notin x _ hxr this)
    · intro y hy
      have h1 : y ≠ x := fun e => hy (e ▸ List.mem_cons_self ..)
      have h2 : y ≠ nx := fun e => hy (e ▸ List.mem_cons_of_mem _ (List.mem_cons_self ..))
      simp [Mem.setNext, Mem.setMark, Mem.setPrev, upd_ne _ _ _ _ h1, upd_ne _ _ _ _ h2]
    · intro y hy
      simp [setMark_mark_ne _ _ _ _ hy]

/-! ### `LinkedList::remove` is `erase` -/

theorem erase_mid (a b : List Nat) (x : Nat) (h : x ∉ a) : (a ++ x :: b).erase x = a ++ b := by
  induction a with
  | nil => simp
  | cons y r ih =>
    have hy : y ≠ x := fun e => h (e ▸ List.mem_cons_self ..)
    have hr : x ∉ r := fun e => h (List.mem_cons_of_mem _ e)
    simp [List.erase_cons, hy, ih hr]

theorem snoc_cases (a : List Nat) : a = [] ∨ ∃ a' pv, a = a' ++ [pv] := by
  induction a with
  | nil => exact Or.inl rfl
  | cons x r ih =>
    right
    rcases ih with h | ⟨a', pv, h⟩
    · subst h; exact ⟨[], x, rfl⟩
    · subst h; exact ⟨x :: a', pv, rfl⟩

theorem llRemove_spec {m : Mem} {first : Option Nat} {l : List Nat} (h : IsList m first l) (x : Nat) (hx : x ∈ l) :
    IsList (llRemove m first x).1 (llRemove m first x).2 (l.erase x) ∧
    ((llRemove m first x).1 x).next = none ∧ ((llRemove m first x).1 x).prev = none ∧
    (∀ y, y ∉ l → (llRemove m first x).1 y = m y) ∧
    (∀ y, ((llRemove m first x).1 y).mark = (m y).mark ∧ ((llRemove m first x).1 y).tc = (m y).tc) := by
  obtain ⟨a, b, hl⟩ := List.append_of_mem hx
  subst hl
  have hnd := h.nodup
  have hxa : x ∉ a := by
    intro e
    have := (List.nodup_append.1 hnd).2.2 x e x (List.mem_cons_self ..)
    exact this rfl
  have hxb : x ∉ b := (List.nodup_cons.1 (List.nodup_append.1 hnd).2.1).1
  have hna : a.Nodup := (List.nodup_append.1 hnd).1
  have hnb : b.Nodup := (List.nodup_cons.1 (List.nodup_append.1 hnd).2.1).2
  have hab : ∀ y ∈ a, y ∉ b := by
    intro y hy hb
    exact (List.nodup_append.1 hnd).2.2 y hy y (List.mem_cons_of_mem _ hb) rfl
  have hnab : (a ++ b).Nodup := List.nodup_append.2 ⟨hna, hnb, fun y hy z hz e => hab y hy (e ▸ hz)⟩
  rw [erase_mid a b x hxa]
  obtain ⟨g, hda, hdx⟩ := (DL_append m none first a (x :: b) none).1 h.dl
  obtain ⟨hg, hpx, hdb⟩ := hdx
  subst hg
  have hfr : ∀ y, y ∉ a ++ x :: b → y ≠ x := fun y hy e => hy (e ▸ by simp)
  rcases snoc_cases a with ha | ⟨a', pv, ha⟩
  · -- `x` is the first element
    subst ha
    simp only [lastOr_nil] at hpx
    have hf : first = some x := hda
    subst hf
    cases b with
    | nil =>
      have hnx : (m x).next = none := hdb
      simp only [llRemove, hnx, hpx]
      exact ⟨IsList.nil m, by trivial, by trivial, fun y _ => by trivial, fun y => by simp⟩
    | cons nx b' =>
      obtain ⟨g1, g2, g3⟩ := hdb
      simp only [llRemove, g1, hpx, List.nil_append]
      have hne : nx ≠ x := fun e => hxb (e ▸ List.mem_cons_self ..)
      refine ⟨⟨?_, hnb⟩, by simp, by simpa [setPrev_prev_ne _ _ _ _ hne.symm] using hpx, ?_, fun y => by simp⟩
      · have hd : DL m (some x) (some nx) (nx :: b') none := ⟨rfl, g2, g3⟩
        exact DL_upd_notin x _ hxb (DL_set_entry none hd hnb)
      · intro y hy
        have h1 : y ≠ x := hfr y hy
        have h2 : y ≠ nx := fun e => hy (e ▸ by simp)
        simp [Mem.setNext, Mem.setPrev, upd_ne _ _ _ _ h1, upd_ne _ _ _ _ h2]
  · -- `x` has a predecessor `pv`
    subst ha
    have hpv : (m x).prev = some pv := by rw [hpx, lastOr_snoc]
    have hpva : pv ∈ a' ++ [pv] := by simp
    have hpvx : pv ≠ x := fun e => hxa (e ▸ hpva)
    have hpvb : pv ∉ b := hab pv hpva
    have hlast : lastOr none (a' ++ [pv]) = some pv := lastOr_snoc none a' pv
    cases b with
    | nil =>
      have hnx : (m x).next = none := hdb
      simp only [llRemove, hnx, hpv, List.append_nil]
      refine ⟨⟨?_, hna⟩, by simpa [setNext_next_ne _ _ _ _ hpvx.symm] using hnx, by simp, ?_, fun y => by simp⟩
      · exact DL_upd_notin x _ hxa (DL_set_exit pv none hda hna hlast (by simp))
      · intro y hy
        have h1 : y ≠ x := hfr y hy
        have h2 : y ≠ pv := fun e => hy (e ▸ by simp)
        simp [Mem.setNext, Mem.setPrev, upd_ne _ _ _ _ h1, upd_ne _ _ _ _ h2]
    | cons nx b' =>
      obtain ⟨g1, g2, g3⟩ := hdb
      simp only [llRemove, g1, hpv]
      have hnxx : nx ≠ x := fun e => hxb (e ▸ List.mem_cons_self ..)
      have hnxa : nx ∉ a' ++ [pv] := fun e => hab nx e (List.mem_cons_self ..)
      have hnxpv : nx ≠ pv := fun e => hnxa (e ▸ hpva)
      refine ⟨⟨?_, hnab⟩, by simp, by simp, ?_, fun y => by simp⟩
      · refine (DL_append _ none first (a' ++ [pv]) (nx :: b') none).2 ⟨some nx, ?_, ?_⟩
        · have h1 := DL_upd_notin nx (fun n => { n with prev := some pv }) hnxa hda
          have h2 := DL_set_exit pv (some nx) h1 hna hlast (by simp)
          exact DL_upd_notin x _ hxa (DL_upd_notin x _ hxa h2)
        · rw [hlast]
          have hd : DL m (some x) (some nx) (nx :: b') none := ⟨rfl, g2, g3⟩
          have h1 := DL_set_entry (some pv) hd hnb
          have h2 := DL_upd_notin pv (fun n => { n with next := some nx }) hpvb h1
          exact DL_upd_notin x _ hxb (DL_upd_notin x _ hxb h2)
      · intro y hy
        have h1 : y ≠ x := hfr y hy
        have h2 : y ≠ pv := fun e => hy (e ▸ by simp)
        have h3 : y ≠ nx := fun e => hy (e ▸ by simp)
        simp [Mem.setNext, Mem.setPrev, upd_ne _ _ _ _ h1, upd_ne _ _ _ _ h2, upd_ne _ _ _ _ h3]

/-! ### Dropping a list un-links and un-marks every element -/

theorem llDrop_spec {m : Mem} {first : Option Nat} {l : List Nat} (h : IsList m first l) (fuel : Nat) (hf : l.length ≤ fuel) :
    (llDrop m first fuel).2 = none ∧
    (∀ x ∈ l, ((llDrop m first fuel).1 x).next = none ∧ ((llDrop m first fuel).1 x).prev = none ∧
      ((llDrop m first fuel).1 x).mark = 0 ∧ ((llDrop m first fuel).1 x).tc = (m x).tc) ∧
    (∀ y, y ∉ l → (llDrop m first fuel).1 y = m y) := by
  induction l generalizing m first fuel with
  | nil =>
    have : first = none := h.dl
    subst this
    cases fuel with
    | zero => exact ⟨rfl, by simp, fun y _ => rfl⟩
    | succ k => exact ⟨rfl, by simp, fun y _ => rfl⟩
  | cons x r ih =>
    cases fuel with
    | zero => simp at hf
    | succ k =>
      obtain ⟨s1, s2, s3, s4, s5, s6, s7, s8⟩ := llRemoveFirst_spec h
      have hxr : x ∉ r := (List.nodup_cons.1 h.nodup).1
      simp only [llDrop]
      generalize hr : llRemoveFirst m first = res at s1 s2 s3 s4 s5 s6 s7 s8
      obtain ⟨m', f', ret⟩ := res
      simp only at s1 s2 s3 s4 s5 s6 s7 s8
      subst s1
      simp only []
      obtain ⟨i1, i2, i3⟩ := ih s2 k (by simpa using hf)
      refine ⟨i1, ?_, ?_⟩
      · intro y hy
        rcases List.mem_cons.1 hy with e | e
        · subst e
          rw [i3 y hxr]
          exact ⟨s3, s4, s5, s6⟩
        · obtain ⟨j1, j2, j3, j4⟩ := i2 y e
          have : y ≠ x := fun e' => hxr (e' ▸ e)
          exact ⟨j1, j2, j3, by rw [j4, (s8 y this).2]⟩
      · intro y hy
        have h1 : y ∉ r := fun e => hy (List.mem_cons_of_mem _ e)
        rw [i3 y h1, s7 y hy]

/-! ### `PossibleCycles::mark_self_and_append` is `++` -/

theorem lastOr_some (q : Nat) (l : List Nat) : ∃ z, lastOr (some q) l = some z := by
  induction l generalizing q with
  | nil => exact ⟨q, rfl⟩
  | cons x r ih => exact ih x

theorem markAll_spec {m : Mem} {p : Option Nat} {f : Option Nat} {l : List Nat} (mark : Nat) (last : Nat) (fuel : Nat)
    (hd : DL m p f l none) (hn : l.Nodup) (hf : l.length ≤ fuel) :
    (markAll m mark f last fuel).2 = (lastOr (some last) l).getD last ∧
    (∀ y, ((markAll m mark f last fuel).1 y).next = (m y).next ∧ ((markAll m mark f last fuel).1 y).prev = (m y).prev) ∧
    (∀ x ∈ l, ((markAll m mark f last fuel).1 x).mark = mark ∧ ((markAll m mark f last fuel).1 x).tc = 0) ∧
    (∀ y, y ∉ l → (markAll m mark f last fuel).1 y = m y) := by
  induction l generalizing m p f last fuel with
  | nil =>
    have : f = none := hd
    subst this
    cases fuel <;> exact ⟨rfl, fun y => ⟨rfl, rfl⟩, by simp, fun y _ => rfl⟩
  | cons x r ih =>
    obtain ⟨h1, h2, h3⟩ := hd
    subst h1
    cases fuel with
    | zero => simp at hf
    | succ k =>
      simp only [markAll]
      have hxr : x ∉ r := (List.nodup_cons.1 hn).1
      have hd' : DL ((m.resetTc x).setMark x mark) (some x) (m x).next r none := by
        apply DL_congr _ h3
        intro y _; simp
      obtain ⟨i1, i2, i3, i4⟩ := ih x k hd' (List.nodup_cons.1 hn).2 (by simpa using hf)
      refine ⟨by rw [i1]; obtain ⟨z, hz⟩ := lastOr_some x r; simp [hz], fun y => by rw [(i2 y).1, (i2 y).2]; simp, ?_, ?_⟩
      · intro y hy
        rcases List.mem_cons.1 hy with e | e
        · subst e
          rw [i4 y hxr]; simp
        · exact i3 y e
      · intro y hy
        have h1 : y ∉ r := fun e => hy (List.mem_cons_of_mem _ e)
        have h2 : y ≠ x := fun e => hy (e ▸ List.mem_cons_self ..)
        rw [i4 y h1]
        simp [Mem.setMark, Mem.resetTc, upd_ne _ _ _ _ h2]

theorem lastOr_getD (q : Nat) (l : List Nat) : lastOr (some q) l = some ((lastOr (some q) l).getD q) := by
  obtain ⟨z, hz⟩ := lastOr_some q l
  rw [hz]; rfl

theorem pcAppend_spec {m : Mem} {p : PC} {l1 l2 : List Nat} {app : Option Nat} (mark : Nat) (fuel : Nat)
    (h1 : IsList m p.first l1) (h2 : IsList m app l2) (hdis : ∀ y ∈ l1, y ∉ l2) (hs : p.size = l1.length) (hf : l1.length ≤ fuel) :
    IsList (pcMarkSelfAndAppend m p mark app l2.length fuel).1 (pcMarkSelfAndAppend m p mark app l2.length fuel).2.first (l1 ++ l2) ∧
    (pcMarkSelfAndAppend m p mark app l2.length fuel).2.size = (l1 ++ l2).length ∧
    (∀ x ∈ l1, ((pcMarkSelfAndAppend m p mark app l2.length fuel).1 x).mark = mark ∧
      ((pcMarkSelfAndAppend m p mark app l2.length fuel).1 x).tc = 0) ∧
    (∀ y, y ∉ l1 → ((pcMarkSelfAndAppend m p mark app l2.length fuel).1 y).mark = (m y).mark ∧
      ((pcMarkSelfAndAppend m p mark app l2.length fuel).1 y).tc = (m y).tc) ∧
    (∀ y, y ∉ l1 ++ l2 → (pcMarkSelfAndAppend m p mark app l2.length fuel).1 y = m y) := by
  have hnd : (l1 ++ l2).Nodup := List.nodup_append.2 ⟨h1.nodup, h2.nodup, fun y hy z hz e => hdis y hy (e ▸ hz)⟩
  cases l1 with
  | nil =>
    have hf0 : p.first = none := h1.dl
    simp only [pcMarkSelfAndAppend, hf0, List.nil_append]
    exact ⟨h2, by simp [hs], by simp, fun y _ => by simp, fun y _ => by trivial⟩
  | cons f r =>
    have hf0 : p.first = some f := h1.dl.1
    simp only [pcMarkSelfAndAppend, hf0]
    have hd1 : DL m none (some f) (f :: r) none := hf0 ▸ h1.dl
    obtain ⟨i1, i2, i3, i4⟩ := markAll_spec mark f fuel hd1 h1.nodup hf
    generalize hr : markAll m mark (some f) f fuel = res at i1 i2 i3 i4
    obtain ⟨m1, lastE⟩ := res
    simp only at i1 i2 i3 i4
    have hl : lastOr none (f :: r) = some lastE := by
      simp only [lastOr_cons] at i1 ⊢
      rw [i1]; exact lastOr_getD f r
    have hd1' : DL m1 none (some f) (f :: r) none := DL_congr (fun y _ => i2 y) hd1
    have hd2' : DL m1 none app l2 none := DL_congr (fun y _ => i2 y) h2.dl
    obtain ⟨z, hz, hze⟩ := lastOr_mem none (f :: r) (by simp)
    rw [hl] at hze; cases hze
    have hlast2 : lastE ∉ l2 := hdis _ hz
    cases l2 with
    | nil =>
      have ha : app = none := h2.dl
      subst ha
      simp only [List.append_nil, List.length_nil, Nat.add_zero]
      refine ⟨⟨hd1', h1.nodup⟩, by simp [hs], i3, fun y hy => by rw [i4 y hy]; exact ⟨rfl, rfl⟩, ?_⟩
      intro y hy; exact i4 y (by simpa using hy)
    | cons a r2 =>
      have ha : app = some a := h2.dl.1
      subst ha
      simp only []
      have ha1 : a ∉ f :: r := fun e => hdis a e (List.mem_cons_self ..)
      refine ⟨⟨?_, hnd⟩, by simp [hs]; omega, ?_, ?_, ?_⟩
      · refine (DL_append _ none (some f) (f :: r) (a :: r2) none).2 ⟨some a, ?_, ?_⟩
        · exact DL_upd_notin a _ ha1 (DL_set_exit lastE (some a) hd1' h1.nodup hl (by simp))
        · rw [hl]
          exact DL_set_entry (some lastE) (DL_upd_notin lastE (fun n => { n with next := some a }) hlast2 hd2') h2.nodup
      · intro x hx; simpa using i3 x hx
      · intro y hy; simp [i4 y hy]
      · intro y hy
        have h1' : y ∉ f :: r := fun e => hy (List.mem_append_left _ e)
        have h2' : y ≠ a := fun e => hy (e ▸ List.mem_append_right _ (List.mem_cons_self ..))
        have h3' : y ≠ lastE := fun e => h1' (e ▸ hz)
        simp [Mem.setNext, Mem.setPrev, upd_ne _ _ _ _ h2', upd_ne _ _ _ _ h3', i4 y h1']

/-! ### `LinkedQueue` is a FIFO -/

def SL (m : Mem) : Option Nat → List Nat → Prop
  | f, [] => f = none
  | f, x :: r => f = some x ∧ SL m (m x).next r

theorem SL_congr {m m' : Mem} {f : Option Nat} {l : List Nat} (h : ∀ x ∈ l, (m' x).next = (m x).next) (hd : SL m f l) : SL m' f l := by
  induction l generalizing f with
  | nil => exact hd
  | cons x r ih =>
    obtain ⟨h1, h3⟩ := hd
    refine ⟨h1, ?_⟩
    rw [h x (by simp)]
    exact ih (fun y hy => h y (List.mem_cons_of_mem _ hy)) h3

theorem SL_upd_notin {m : Mem} {f : Option Nat} {l : List Nat} (z : Nat) (g : Node → Node) (hz : z ∉ l) (hd : SL m f l) :
    SL (m.upd z g) f l := by
  apply SL_congr _ hd
  intro x hx
  have : x ≠ z := fun h => hz (h ▸ hx)
  simp [upd_ne _ _ _ _ this]

theorem walk_of_SL {m : Mem} {f : Option Nat} {l : List Nat} (hd : SL m f l) (fuel : Nat) (hf : l.length ≤ fuel) :
    walk m f fuel = l := by
  induction l generalizing f fuel with
  | nil =>
    have : f = none := hd
    subst this
    cases fuel <;> rfl
  | cons x r ih =>
    obtain ⟨h1, h3⟩ := hd
    subst h1
    cases fuel with
    | zero => simp at hf
    | succ k =>
      simp only [walk]
      rw [ih h3 k (by simpa using hf)]

structure IsQ (m : Mem) (q : Q) (l : List Nat) : Prop where
  sl : SL m q.first l
  last : q.last = l.getLast?
  nodup : l.Nodup

theorem IsQ.nil (m : Mem) : IsQ m {} [] := ⟨rfl, rfl, List.nodup_nil⟩

theorem SL_snoc {m : Mem} {f : Option Nat} {l : List Nat} (lastE x : Nat) (hd : SL m f l) (hn : l.Nodup)
    (hl : l.getLast? = some lastE) (hx : x ∉ l) (hnx : (m x).next = none) : SL (m.setNext lastE (some x)) f (l ++ [x]) := by
  induction l generalizing f with
  | nil => simp at hl
  | cons y r ih =>
    obtain ⟨h1, h3⟩ := hd
    have hxy : x ≠ y := fun e => hx (e ▸ List.mem_cons_self ..)
    have hxr : x ∉ r := fun e => hx (List.mem_cons_of_mem _ e)
    have hyr : y ∉ r := (List.nodup_cons.1 hn).1
    cases r with
    | nil =>
      simp at hl; subst hl
      have hny : (m y).next = none := h3
      refine ⟨h1, ?_⟩
      simp only [List.nil_append, setNext_next_same]
      exact ⟨rfl, by rw [setNext_next_ne _ _ _ _ hxy]; exact hnx⟩
    | cons z r' =>
      have hl' : (z :: r').getLast? = some lastE := by simpa [List.getLast?_cons_cons] using hl
      have hmem : lastE ∈ z :: r' := List.mem_of_getLast? hl'
      have hne : y ≠ lastE := fun e => hyr (e ▸ hmem)
      refine ⟨h1, ?_⟩
      rw [setNext_next_ne _ _ _ _ hne]
      exact ih h3 (List.nodup_cons.1 hn).2 hl' hxr

theorem qAdd_spec {m : Mem} {q : Q} {l : List Nat} (h : IsQ m q l) (x : Nat) (hx : x ∉ l) (hnx : (m x).next = none) :
    IsQ (qAdd m q x).1 (qAdd m q x).2 (l ++ [x]) ∧
    (∀ y, ((qAdd m q x).1 y).prev = (m y).prev ∧ ((qAdd m q x).1 y).mark = (m y).mark ∧ ((qAdd m q x).1 y).tc = (m y).tc) ∧
    (∀ y, y ∉ l → (qAdd m q x).1 y = m y) := by
  have hnd : (l ++ [x]).Nodup := List.nodup_append.2 ⟨h.nodup, by simp, fun y hy z hz e => by
    simp at hz; subst hz; exact hx (e ▸ hy)⟩
  cases hl : l.getLast? with
  | none =>
    have : l = [] := List.getLast?_eq_none_iff.1 hl
    subst this
    have hq : q.last = none := h.last
    simp only [qAdd, hq, List.nil_append]
    exact ⟨⟨⟨rfl, hnx⟩, rfl, by simp⟩, fun y => by simp, fun y _ => by trivial⟩
  | some lastE =>
    have hq : q.last = some lastE := h.last.trans hl
    simp only [qAdd, hq]
    refine ⟨⟨SL_snoc lastE x h.sl h.nodup hl hx hnx, by simp, hnd⟩, fun y => by simp, ?_⟩
    intro y hy
    have : y ≠ lastE := fun e => hy (e ▸ List.mem_of_getLast? hl)
    simp [Mem.setNext, upd_ne _ _ _ _ this]

theorem qPoll_nil (m : Mem) (q : Q) (h : IsQ m q []) : qPoll m q = (m, q, none) := by
  have : q.first = none := h.sl
  simp [qPoll, this]

theorem qPoll_spec {m : Mem} {q : Q} {x : Nat} {r : List Nat} (h : IsQ m q (x :: r)) :
    (qPoll m q).2.2 = some x ∧ IsQ (qPoll m q).1 (qPoll m q).2.1 r ∧
    ((qPoll m q).1 x).next = none ∧ ((qPoll m q).1 x).mark = 0 ∧ ((qPoll m q).1 x).tc = (m x).tc ∧
    (∀ y, ((qPoll m q).1 y).prev = (m y).prev) ∧
    (∀ y, y ≠ x → (qPoll m q).1 y = m y) := by
  obtain ⟨h1, h3⟩ := h.sl
  have hxr : x ∉ r := (List.nodup_cons.1 h.nodup).1
  have hnr : r.Nodup := (List.nodup_cons.1 h.nodup).2
  simp only [qPoll, h1]
  refine ⟨by trivial, ⟨?_, ?_, hnr⟩, by simp, by simp, by simp, fun y => by simp, ?_⟩
  · exact SL_upd_notin x _ hxr (SL_upd_notin x _ hxr h3)
  · cases r with
    | nil =>
      have : (m x).next = none := h3
      simp [this]
    | cons z r' =>
      have : (m x).next = some z := h3.1
      simp only [this, Option.isNone_some]
      have := h.last
      simpa [List.getLast?_cons_cons] using this
  · intro y hy
    simp [Mem.setNext, Mem.setMark, upd_ne _ _ _ _ hy]

theorem qDrop_spec {m : Mem} {q : Q} {l : List Nat} (h : IsQ m q l) (fuel : Nat) (hf : l.length ≤ fuel) :
    (qDrop m q fuel).2.first = none ∧ (qDrop m q fuel).2.last = none ∧
    (∀ x ∈ l, ((qDrop m q fuel).1 x).next = none ∧ ((qDrop m q fuel).1 x).mark = 0 ∧ ((qDrop m q fuel).1 x).tc = (m x).tc) ∧
    (∀ y, ((qDrop m q fuel).1 y).prev = (m y).prev) ∧
    (∀ y, y ∉ l → (qDrop m q fuel).1 y = m y) := by
  induction l generalizing m q fuel with
  | nil =>
    have h1 : q.first = none := h.sl
    have h2 : q.last = none := h.last
    cases fuel with
    | zero => exact ⟨h1, h2, by simp, fun y => rfl, fun y _ => rfl⟩
    | succ k =>
      simp only [qDrop, qPoll_nil m q h]
      exact ⟨h1, h2, by simp, fun y => by trivial, fun y _ => by trivial⟩
  | cons x r ih =>
    cases fuel with
    | zero => simp at hf
    | succ k =>
      obtain ⟨s1, s2, s3, s4, s5, s6, s7⟩ := qPoll_spec h
      have hxr : x ∉ r := (List.nodup_cons.1 h.nodup).1
      simp only [qDrop]
      generalize hr : qPoll m q = res at s1 s2 s3 s4 s5 s6 s7
      obtain ⟨m', q', ret⟩ := res
      simp only at s1 s2 s3 s4 s5 s6 s7
      subst s1
      simp only []
      obtain ⟨i1, i2, i3, i4, i5⟩ := ih s2 k (by simpa using hf)
      refine ⟨i1, i2, ?_, fun y => by rw [i4 y, s6 y], ?_⟩
      · intro y hy
        rcases List.mem_cons.1 hy with e | e
        · subst e
          rw [i5 y hxr]
          exact ⟨s3, s4, s5⟩
        · obtain ⟨j1, j2, j3⟩ := i3 y e
          have : y ≠ x := fun e' => hxr (e' ▸ e)
          exact ⟨j1, j2, by rw [j3, s7 y this]⟩
      · intro y hy
        have h1 : y ∉ r := fun e => hy (List.mem_cons_of_mem _ e)
        have h2 : y ≠ x := fun e => hy (e ▸ List.mem_cons_self ..)
        rw [i5 y h1, s7 y h2]

end RustCc.Lists
