"""Shared machinery of ./check: builds, audit, correspondence runs, search, evidence, reporting."""
import glob
import hashlib
import json
import os
import random
import re
import subprocess
import sys
import time

import corr
import extract_consts
import gen

VERIF = os.path.dirname(os.path.dirname(os.path.abspath(__file__)))
LEAN = os.path.join(VERIF, "lean")
HARNESS = os.path.join(VERIF, "harness")
REPO = "/repo"
WORK = os.path.join(VERIF, "work")
ALLOWED_AXIOMS = {"propext", "Classical.choice", "Quot.sound"}
FORBIDDEN = [r"\bsorry\b", r"\badmit\b", r"^\s*axiom\s", r"native_decide", r"bv_decide", r"implemented_by", r"\bunsafe\s",
             r"maxHeartbeats\s+0"]

ALL_FEATS = [dict(fin=f, weak=w, clean=c, auto=a) for f in (1, 0) for w in (1, 0) for c in (1, 0) for a in (1, 0) if not (c and not w)]
F_DEFAULT = dict(fin=1, weak=0, clean=0, auto=1)
F_ALL = dict(fin=1, weak=1, clean=1, auto=1)
F_NOFIN = dict(fin=0, weak=1, clean=1, auto=1)


def sh(cmd, cwd=None, timeout=3600, env=None):
    e = dict(os.environ)
    e["CARGO_NET_OFFLINE"] = "true"
    if env:
        e.update(env)
    p = subprocess.run(cmd, cwd=cwd, shell=isinstance(cmd, str), capture_output=True, text=True, timeout=timeout, env=e)
    return p.returncode, p.stdout + p.stderr


# ------------------------------------------------------------------------------------ builds

def regen_consts():
    try:
        vals = extract_consts.extract(REPO)
    except Exception as ex:  # a constant disappeared or changed shape
        return None, "constants could not be extracted from /repo/src: %s" % ex
    out = os.path.join(LEAN, "RustCcModel", "Generated", "Consts.lean")
    text = extract_consts.render(vals)
    os.makedirs(os.path.dirname(out), exist_ok=True)
    if not os.path.exists(out) or open(out).read() != text:
        open(out, "w").write(text)
    return vals, extract_consts.consts_line(vals)


def lake_build(targets):
    rc, out = sh(["lake", "build"] + targets, cwd=LEAN, timeout=3600)
    return rc == 0, out


def lean_sources():
    return sorted(glob.glob(os.path.join(LEAN, "RustCcModel", "**", "*.lean"), recursive=True)) + [os.path.join(LEAN, "Main.lean")]


def strip_lean_comments(src):
    # nested block comments are rare here; handle one level of nesting by iterating
    prev = None
    while prev != src:
        prev = src
        src = re.sub(r"/-(?:(?!/-|-/).)*?-/", "", src, flags=re.S)
    return re.sub(r"--[^\n]*", "", src)


def forbidden_tokens():
    hits = []
    for f in lean_sources():
        src = strip_lean_comments(open(f).read())
        for pat in FORBIDDEN:
            for m in re.finditer(pat, src, flags=re.M):
                hits.append("%s: %s" % (os.path.relpath(f, VERIF), m.group(0).strip()))
    return hits


def property_theorems(prop):
    """Names of the theorems of Properties/<prop>.lean (fully qualified)."""
    path = os.path.join(LEAN, "RustCcModel", "Properties", prop + ".lean")
    if not os.path.exists(path):
        return []
    src = strip_lean_comments(open(path).read())
    ns = []
    names = []
    for line in src.splitlines():
        m = re.match(r"\s*namespace\s+(\S+)", line)
        if m:
            ns.append(m.group(1))
            continue
        m = re.match(r"\s*end\s+(\S+)", line)
        if m and ns and ns[-1] == m.group(1):
            ns.pop()
            continue
        m = re.match(r"\s*(?:protected\s+|private\s+)?theorem\s+(\S+)", line)
        if m:
            names.append(".".join(ns + [m.group(1)]))
    return names


def audit(prop):
    """Builds the property module and prints the axioms of each of its theorems."""
    res = {"theorems": [], "axioms": {}, "bad_axioms": {}, "forbidden": forbidden_tokens(), "build_ok": False, "log": ""}
    ok, log = lake_build(["RustCcModel.Properties." + prop, "driver"])
    res["build_ok"] = ok
    res["log"] = log[-4000:]
    if not ok:
        return res
    thms = property_theorems(prop)
    res["theorems"] = thms
    os.makedirs(os.path.join(LEAN, "Audit"), exist_ok=True)
    apath = os.path.join(LEAN, "Audit", prop + ".lean")
    with open(apath, "w") as f:
        f.write("import RustCcModel.Properties.%s\n" % prop)
        for t in thms:
            f.write("#print axioms %s\n" % t)
    rc, out = sh(["lake", "env", "lean", apath], cwd=LEAN, timeout=1800)
    res["audit_rc"] = rc
    cur = None
    text = out.replace("\n  ", " ")
    for m in re.finditer(r"'([^']+)' (depends on axioms: \[([^\]]*)\]|does not depend on any axioms)", text):
        name = m.group(1)
        axs = [a.strip() for a in (m.group(3) or "").split(",") if a.strip()]
        res["axioms"][name] = axs
        bad = [a for a in axs if a not in ALLOWED_AXIOMS]
        if bad:
            res["bad_axioms"][name] = bad
    res["missing"] = [t for t in thms if t not in res["axioms"]]
    if rc != 0:
        res["log"] += out[-2000:]
    return res


def cargo_build(feat, release=False):
    name = corr.feat_name(feat)
    cmd = ["cargo", "build", "--offline", "--target-dir", os.path.join("target", name)]
    fc = corr.feat_cargo(feat)
    if fc:
        cmd += ["--features", fc]
    if release:
        cmd.append("--release")
    lock = os.path.join(HARNESS, "Cargo.lock")
    if not os.path.exists(lock):
        import shutil
        shutil.copy(os.path.join(REPO, "Cargo.lock"), lock)
    rc, out = sh(cmd, cwd=HARNESS, timeout=3600)
    return rc == 0, out


_sizes_cache = {}


def sizes(feat, release=False):
    key = (corr.feat_name(feat), release)
    if key not in _sizes_cache:
        rc, out = sh([corr.harness_bin(feat, release), "sizes"], timeout=60)
        m = re.search(r"sizes node=(\d+) map=(\d+) hdr=(\d+),(\d+)", out)
        if rc != 0 or not m:
            raise RuntimeError("harness sizes failed: %s" % out[-300:])
        _sizes_cache[key] = {"node": int(m.group(1)), "map": int(m.group(2)), "hdr": (int(m.group(3)), int(m.group(4)))}
    return _sizes_cache[key]


def setup():
    t0 = time.time()
    vals, line = regen_consts()
    if vals is None:
        print("setup: " + line)
        return 1
    ok, log = lake_build([])
    if not ok:
        print(log[-3000:])
        return 1
    ok, log = lake_build(["driver"])
    if not ok:
        print(log[-3000:])
        return 1
    for feat in (F_DEFAULT, F_ALL, F_NOFIN):
        ok, log = cargo_build(feat)
        if not ok:
            print(log[-3000:])
            return 1
    print("setup ok in %.0fs" % (time.time() - t0))
    return 0


# ------------------------------------------------------------------------------------ reporting

class Report:
    def __init__(self, prop, tier, seed):
        self.prop, self.tier, self.seed = prop, tier, seed
        self.violations = []
        self.known = []
        self.notes = []
        self.t0 = time.time()
        self.n = 0
        self.findings = load_findings()

    def violation(self, kind, replay_lines, detail, found_input, signature=""):
        os.makedirs(os.path.join(WORK, "replays"), exist_ok=True)
        self.n += 1
        path = os.path.join(WORK, "replays", "%s-%s-%d-%d.txt" % (self.prop, self.tier, self.seed, self.n))
        with open(path, "w") as f:
            f.write("# property: %s\n# kind: %s\n# signature: %s\n" % (self.prop, kind, signature))
            for l in detail.splitlines():
                f.write("# %s\n" % l)
            if not found_input:
                f.write("# no failing input was found; the line above names what no longer checks\n")
            f.write("\n".join(replay_lines) + "\n")
        for k in self.findings:
            if k.get("status") == "known" and k.get("property") == self.prop and re.search(k.get("match", "$^"), signature + "\n" + detail):
                print("KNOWN-FINDING: property=%s %s" % (self.prop, k.get("what", "")))
                self.known.append(k.get("what", ""))
                return
        line = "VIOLATION property=%s replay=%s" % (self.prop, path)
        if not found_input:
            line += " no-failing-input-found"
        print(line)
        sys.stdout.flush()
        self.violations.append({"kind": kind, "replay": path, "detail": detail[:2000], "found_input": found_input})


def load_findings():
    p = os.path.join(VERIF, "known_findings.json")
    if os.path.exists(p):
        try:
            return json.load(open(p)).get("findings", [])
        except Exception:
            return []
    return []


def write_evidence(prop, tier, seed, level, coverage, assumptions, wall, nviol):
    os.makedirs(os.path.join(VERIF, "evidence"), exist_ok=True)
    ev = {"property_id": prop, "tier": tier, "seed": seed, "level": level, "coverage": coverage,
          "assumptions": assumptions, "wall_s": round(wall, 1), "violations": nviol}
    with open(os.path.join(VERIF, "evidence", prop + ".json"), "w") as f:
        json.dump(ev, f, indent=1)


TRUSTED_BASE = [
    "Lean 4.33.0 kernel (leanchecker as second opinion in the thorough tier)",
    "axioms: subset of {propext, Classical.choice, Quot.sound} (audited with #print axioms on every run); no sorry/admit/own axioms/native_decide/bv_decide",
    "hand-written Lean model of src/* (Model/*.lean): modelled, not verified; tied to /repo by the correspondence check (differential testing; exhaustive for the 16-bit counter words)",
    "tools/extract_consts.py (regex constant extractor), tools/corr.py + harness/ (unverified Rust/Python: interpreter, instrumented allocator, oracles)",
    "not modelled: Rust memory model and drop-glue order beyond what Model/Machine.lean states, allocator, TLS, real threads, f64 beyond the rounding model of Model/Policy.lean",
]


# ------------------------------------------------------------------------------------ machine properties

def P(name, feats_quick, **kw):
    return dict(name=name, feats_quick=feats_quick, **kw)


NOPANIC = dict(fault_p=0.0, panic_p=0.0)

MACHINE = {
    "C01": P("no premature reclamation", [F_ALL, F_DEFAULT], weights={"setu": 8, "getf": 8, "up": 8, "collect": 10}, fault_p=0.2,
             nontrivial="DX"),
    "C02": P("complete reclamation", [F_ALL, F_DEFAULT], weights={"drop": 16, "collect": 12, "setf": 18}, nontrivial="DX", **NOPANIC),
    "C03": P("drop/free once with layout", [F_ALL, F_DEFAULT], weights={"unwrap": 6, "newcyc": 5, "down": 6, "wdrop": 5}, fault_p=0.3,
             nontrivial="XM"),
    "C04": P("Rc equivalence / strong_count", [F_ALL, F_DEFAULT], weights={"drop": 18, "clone": 12, "collect": 4}, fault_p=0.15, nontrivial="X"),
    "C05": P("finalizers", [F_ALL, F_DEFAULT, F_NOFIN], weights={"finagain": 5, "collect": 10}, scripts_p=0.95, fault_p=0.1, nontrivial="F"),
    "C06": P("resurrection", [F_ALL, F_DEFAULT], weights={"collect": 12, "drop": 14}, scripts_p=1.0, nontrivial="F", **NOPANIC),
    "C07": P("panic containment", [F_ALL, F_DEFAULT], weights={"collect": 10}, fault_p=0.95, two_faults_p=0.35, scripts_p=0.9, nontrivial="P"),
    "C08": P("Weak::upgrade", [F_ALL, F_NOFIN], weights={"down": 10, "up": 14, "setw": 6, "wclone": 4, "unwrap": 4}, scripts_p=0.9, fault_p=0.1,
             nontrivial="some"),
    "C09": P("weak counts / side record", [F_ALL, F_NOFIN], weights={"down": 12, "wclone": 8, "wdrop": 10, "up": 6, "unwrap": 4, "setw": 6, "clrw": 4},
             fault_p=0.1, nontrivial="M"),
    "C10": P("cleaners", [F_ALL, F_NOFIN], weights={"reg": 14, "clean": 10, "cdrop": 6, "drop": 14}, scripts_p=0.95, fault_p=0.1, nontrivial="K"),
    "C11": P("introspection counters", [F_ALL, F_DEFAULT], weights={"markalive": 6, "clone": 10, "drop": 14}, fault_p=0.1, nontrivial="X"),
    "C12": P("phases observable / no nesting", [F_ALL, F_DEFAULT], weights={"collect": 12, "unwrap": 5, "finagain": 5}, scripts_p=1.0, fault_p=0.1,
             nontrivial="T", cb_weights={"collect": 12, "new": 10, "unwrap": 6, "finagain": 6}),
    "C13": P("try_unwrap", [F_ALL, F_DEFAULT], weights={"unwrap": 16, "clone": 10, "down": 6, "up": 5}, scripts_p=0.8, fault_p=0.05, nontrivial="unwrapped"),
    "C14": P("new_cyclic", [F_ALL, F_NOFIN], weights={"newcyc": 16, "up": 8, "wclone": 4}, scripts_p=1.0, fault_p=0.4, kinds=("body", "trace", "fin"),
             nontrivial="A", auto_p=0.9),
    "C15": P("auto-collect policy", [F_ALL, F_DEFAULT], weights={"new": 20, "cfg": 8, "drop": 14}, auto_p=1.0, nontrivial="thr", **NOPANIC),
    "C16": P("counts saturate", [F_ALL, F_NOFIN], weights={"clone": 10, "up": 8, "down": 8, "wclone": 6, "collect": 8}, fault_p=0.0, nontrivial="panicret",
             bulk_p=0.9),
}


def profile_for(prop, feat):
    spec = MACHINE[prop]
    kw = {k: spec[k] for k in ("weights", "fault_p", "two_faults_p", "scripts_p", "kinds", "auto_p") if k in spec}
    p = gen.Profile(prop, feat, **kw)
    p.panic_p = spec.get("panic_p", 0.04)
    p.bulk_p = spec.get("bulk_p", 0.0)
    p.cb_weights = spec.get("cb_weights", {})
    return p


def nontrivial(prop, model_lines):
    key = MACHINE[prop].get("nontrivial", "DX")
    if key in ("some", "unwrapped"):
        return any(l.startswith(key) for l in model_lines)
    if key == "panicret":
        return any(l.startswith("panic") for l in model_lines)
    if key == "thr":
        thrs = set(re.findall(r"thr=(\d+)", "\n".join(model_lines)))
        return len(thrs) > 1
    for l in model_lines:
        o = corr.parse_obs(l)
        if o and any(e[0] in key for e in o["ev"]):
            return True
    return False


def corpus_programs(feat, consts_line, sz):
    out = []
    for path in sorted(glob.glob(os.path.join(VERIF, "corpus", "*.prog"))):
        lines = [l.rstrip("\n") for l in open(path) if l.strip() and not l.startswith("#")]
        need = {}
        for l in lines:
            if l.startswith("feat "):
                need = dict((k, int(v)) for k, v in (x.split("=") for x in l.split()[1:]))
        # a corpus program runs on every build that has the features it needs
        if any(need.get(k) and not feat.get(k) for k in need):
            continue
        name = "corpus/" + os.path.basename(path)
        body = []
        for l in lines:
            if l.startswith("program "):
                body.append("program " + name)
            elif l.startswith("feat "):
                body.append("feat fin=%d weak=%d clean=%d auto=%d" % (feat["fin"], feat["weak"], feat["clean"], feat["auto"]))
            elif l.startswith("sizes ") or l.startswith("consts "):
                continue
            else:
                body.append(l)
        body.insert(1, "consts " + consts_line)
        body.insert(2, "sizes node=%d map=%d" % (sz["node"], sz["map"]))
        out.append((name, body))
    return out


def op_hist(progs):
    h = {}
    for _, lines in progs:
        for l in corr.split_prog(lines)[1]:
            k = l.split()[0]
            h[k] = h.get(k, 0) + 1
    return h


def run_batch(prop, progs, feat, release, rep, stats, budget_search):
    """Model + implementation on a batch; returns nothing, fills stats and rep."""
    proj = corr.PROJ[prop]
    text = "\n".join("\n".join(l) for _, l in progs) + "\n"
    mo = corr.run_model(text)
    usable = [(n, l) for n, l in progs if corr.model_ok(mo.get(n, []))]
    stats["generated"] += len(progs)
    stats["discarded_by_model"] += len(progs) - len(usable)
    io = corr.run_impl(usable, feat, release)
    for n, l in usable:
        ml, il = mo[n], io.get(n, [])
        stats["programs"] += 1
        stats["ops"] += len(ml)
        h = hashlib.sha1("\n".join(corr.split_prog(l)[1]).encode()).hexdigest()
        if nontrivial(prop, ml):
            stats["nontrivial_hashes"].add(h)
        for line in ml:
            o = corr.parse_obs(line)
            if o:
                for e in o["ev"]:
                    stats["events"][e[0]] = stats["events"].get(e[0], 0) + 1
                if o["ret"] == "panic":
                    stats["panics_caught"] += 1
        hits, seen_h = [], set()
        for x in corr.oracle_hits(il) + corr.policy_hits(l, il):
            # one hit per (operation, oracle): a corrupted buffer can make one walk report the same thing 100 000 times
            if (x[0], x[1]) not in seen_h:
                seen_h.add((x[0], x[1]))
                hits.append(x)
        rel = [x for x in hits if prop in corr.ORACLE_PROPS.get(x[1], [])]
        other = [x for x in hits if prop not in corr.ORACLE_PROPS.get(x[1], [])]
        for x in other:
            stats["other_oracle_hits"][x[1]] = stats["other_oracle_hits"].get(x[1], 0) + 1
        d_prop = corr.compare(ml, il, proj)
        d_full = corr.compare(ml, il, corr.proj_full)
        if d_full is not None:
            stats["disagreements_checked"] += 1
        if rel:
            if stats["reported"] < 3:
                stats["reported"] += 1
                kind0 = rel[0][1]

                def still(lines, kind0=kind0):
                    nm = lines[0][len("program "):].strip()
                    out = corr.run_impl([(nm, lines)], feat, release).get(nm, [])
                    return any(k == kind0 for _, k, _ in corr.oracle_hits(out) + corr.policy_hits(lines, out))
                small = corr.shrink(l, still)
                nm = small[0][len("program "):].strip()
                out = corr.run_impl([(nm, small)], feat, release).get(nm, [])
                detail = "oracle `!%s` fired on the implementation (features %s, %s)\nimplementation output:\n%s" % (
                    kind0, corr.feat_name(feat), "release" if release else "debug", "\n".join(out))
                rep.violation("impl-vs-property", small, detail, True, signature="oracle:%s" % kind0)
        elif d_prop is not None:
            if stats["reported"] < 3:
                stats["reported"] += 1
                small = corr.shrink(l, corr.fails_for(proj, feat, release))
                found = search(prop, small, feat, release, budget_search, stats)
                nm = small[0][len("program "):].strip()
                m2 = corr.run_model(corr.prog_text(small)).get(nm, [])
                i2 = corr.run_impl([(nm, small)], feat, release).get(nm, [])
                dd = corr.compare(m2, i2, proj)
                detail = "correspondence `%s` (model vs implementation on the %s observables) no longer holds (features %s, %s)\n" % (
                    prop, prop, corr.feat_name(feat), "release" if release else "debug")
                if dd is not None:
                    detail += "first differing operation #%d\nmodel: %s\nimpl : %s" % (dd, m2[dd] if dd < len(m2) else None, i2[dd] if dd < len(i2) else None)
                if found is not None:
                    fl, fout, fk = found
                    rep.violation("impl-vs-property", fl, detail + "\nsearch found an input on which oracle `!%s` fires:\n%s" % (fk, "\n".join(fout)),
                                  True, signature="oracle:%s" % fk)
                else:
                    rep.violation("model-disagreement", small, detail, False, signature="corr:%s" % prop)
        elif d_full is not None:
            stats["whitebox_only"] += 1
            hid = corr.HIDDEN.get(prop)
            d_hid = corr.compare(ml, il, hid) if hid else None
            if stats["wb_searches"] < 3 or (d_hid is not None and stats["hidden_reported"] < 2):
                stats["wb_searches"] += 1
                found = search(prop, l, feat, release, budget_search // 2, stats)
                if found is not None:
                    fl, fout, fk = found
                    rep.violation("impl-vs-property", fl, "hidden-state drift, then oracle `!%s`:\n%s" % (fk, "\n".join(fout)), True,
                                  signature="oracle:%s" % fk)
                elif d_hid is not None and stats["hidden_reported"] < 2:
                    # the part of the collector state this property's invariants read no longer corresponds: the
                    # property is no longer shown to hold, although no failing input was found
                    stats["hidden_reported"] += 1
                    small = corr.shrink(l, corr.fails_for(hid, feat, release))
                    nm = small[0][len("program "):].strip()
                    m2 = corr.run_model(corr.prog_text(small)).get(nm, [])
                    i2 = corr.run_impl([(nm, small)], feat, release).get(nm, [])
                    dd = corr.compare(m2, i2, hid)
                    detail = ("correspondence `%s` (hidden collector state read by the invariants behind %s: marks, tracing counters, "
                              "buffer, counts) no longer holds (features %s, %s)\n" % (prop, prop, corr.feat_name(feat), "release" if release else "debug"))
                    if dd is not None:
                        detail += "first differing operation #%d\nmodel: %s\nimpl : %s" % (dd, m2[dd] if dd < len(m2) else None, i2[dd] if dd < len(i2) else None)
                    rep.violation("model-disagreement", small, detail, False, signature="corr-hidden:%s" % prop)
            if len(stats["whitebox_samples"]) < 3:
                stats["whitebox_samples"].append({"program": n, "line": d_full, "model": ml[d_full] if d_full < len(ml) else None,
                                                  "impl": il[d_full] if d_full < len(il) else None})


def search(prop, lines, feat, release, budget, stats):
    """Neighbourhood search on the implementation alone (oracles are model-independent): random
    continuations and op substitutions of a disagreeing program. Returns (program, output, oracle kind)."""
    head, ops, tail = corr.split_prog(lines)
    rng = random.Random(hash(tuple(ops)) & 0xFFFFFFFF)
    featd = feat
    sz = sizes(feat, release)
    prof = gen.Profile("search", featd, fault_p=0.0)
    prof.panic_p = 0.0
    prof.cb_weights = {}
    g = gen.Gen(rng, prof, sz, "x")
    g.fixed_shape = True
    g.ns, g.nu, g.nwf = 2, 1, (1 if feat.get("weak") else 0)
    g.nscripts = 0
    g.script_kind = {}
    cands = []
    for i in range(budget):
        extra = [g.op() for _ in range(rng.randrange(1, 8))]
        fin = ["drop h%d" % k for k in range(g.nh) if rng.random() < 0.7] + ["collect"] * rng.randrange(1, 4)
        if rng.random() < 0.5:
            pos = rng.randrange(0, len(ops) + 1)
            body = ops[:pos] + extra + ops[pos:] + fin
        else:
            body = ops + extra + fin
        if i % 2 == 1:
            # directed probe for hidden-state drift: a fresh garbage self-cycle pointing at an object the program
            # still holds — a stale mark / tracing counter on that object turns it into "garbage" of that cycle
            k, j = rng.randrange(g.nh), rng.randrange(g.nh)
            probe = ["drop h%d" % j, "new h%d 2 0 0 0 0 0" % j, "setf h%d f0 h%d" % (j, k), "setf h%d f1 h%d" % (j, j), "drop h%d" % j,
                     "collect", "collect", "clone h%d h%d" % (k, j), "drop h%d" % j, "collect"]
            body = ops + (extra if rng.random() < 0.5 else []) + probe + fin
        name = "search-%d" % i
        cands.append((name, ["program " + name] + head[1:] + body + tail))
    stats["search_programs"] += len(cands)
    out = corr.run_impl(cands, feat, release)
    for n, l in cands:
        hits = [x for x in corr.oracle_hits(out.get(n, [])) + corr.policy_hits(l, out.get(n, [])) if prop in corr.ORACLE_PROPS.get(x[1], [])]
        if hits:
            return l, out[n], hits[0][1]
    return None


def new_stats():
    return {"generated": 0, "discarded_by_model": 0, "programs": 0, "ops": 0, "nontrivial_hashes": set(), "events": {},
            "panics_caught": 0, "other_oracle_hits": {}, "disagreements_checked": 0, "whitebox_only": 0, "whitebox_samples": [],
            "reported": 0, "hidden_reported": 0, "wb_searches": 0, "search_programs": 0, "builds": []}


def proof_part(prop, rep):
    """Consts + lake build + audit. Returns (audit dict, consts line or None)."""
    vals, line = regen_consts()
    if vals is None:
        rep.violation("theorem-broken", ["# " + line], "Generated/Consts.lean cannot be regenerated: " + line, False, signature="consts")
        return None, None
    a = audit(prop)
    if not a["build_ok"]:
        m = re.findall(r"error: ([^\n]*)", a["log"])
        rep.notes.append("lake build failed")
        rep.pending_theorem_break = "module RustCcModel.Properties.%s no longer builds: %s" % (prop, "; ".join(m[:3]))
    elif a["forbidden"] or a["bad_axioms"] or a["missing"]:
        rep.pending_theorem_break = "audit failed: forbidden=%s bad_axioms=%s missing=%s" % (a["forbidden"][:3], a["bad_axioms"], a["missing"][:3])
    else:
        rep.pending_theorem_break = None
    return a, line


def finish_proof_violation(prop, rep):
    """A broken theorem/audit with no failing input found by the dynamic part."""
    brk = getattr(rep, "pending_theorem_break", None)
    if brk and not any(v["found_input"] for v in rep.violations):
        rep.violation("theorem-broken", ["# " + brk], brk, False, signature="theorem:%s" % prop)


def coverage_proof(a, extra):
    thms = a["theorems"] if a else []
    discharged = [t for t in thms if t in (a["axioms"] if a else {}) and t not in a["bad_axioms"]] if a and a["build_ok"] and not a["forbidden"] else []
    cov = {
        "obligations": max(len(thms), 1),
        "discharged": len(discharged) if thms else 0,
        "checker_cmd": "lake build RustCcModel.Properties.<ID> && lake env lean Audit/<ID>.lean  (#print axioms of every theorem)",
        "trusted_base": TRUSTED_BASE + ["axioms used by this property's theorems: %s" % sorted({x for v in (a["axioms"].values() if a else []) for x in v})],
        "theorems": thms,
    }
    cov.update(extra)
    return cov


def check_machine(prop, tier, seed, rep):
    a, consts_line = proof_part(prop, rep)
    stats = new_stats()
    if consts_line is None:
        consts_line = "passcap=10 thr=100 rcmax=16382 weakmax=32767 tcinit=1"
    spec = MACHINE[prop]
    if tier == "quick":
        builds = [(f, False) for f in spec["feats_quick"]]
        nprog, chunk, budget_search = 10000, 2500, 300
    else:
        builds = [(f, r) for f in ALL_FEATS for r in (False, True)]
        nprog, chunk, budget_search = 12000, 3000, 1500
    samples = []
    cover_sample = []
    hist = {}
    extra_cov = {}
    if prop in EXTRA_STEPS and consts_line:
        try:
            extra_cov = EXTRA_STEPS[prop](prop, tier, seed, rep, vals_line=consts_line)
        except Exception as ex:  # the probe itself broke: the tie is no longer checked
            rep.violation("probe-broken", ["# " + str(ex)], "probe for %s failed to run: %s" % (prop, ex), False, signature="probe")
    driver_ok = os.path.exists(corr.DRIVER) and (a is None or a["build_ok"] or lake_build(["driver"])[0])
    for bi, (feat, release) in enumerate(builds):
        ok, log = cargo_build(feat, release)
        if not ok:
            rep.violation("harness-build", ["# cargo build failed"], "the harness no longer builds against /repo (features %s):\n%s" % (
                corr.feat_name(feat), log[-1500:]), False, signature="build")
            break
        if not driver_ok:
            break
        sz = sizes(feat, release)
        stats["builds"].append("%s/%s" % (corr.feat_name(feat), "release" if release else "debug"))
        cp = corpus_programs(feat, consts_line, sz)
        if bi == 0:
            cover_sample.extend(cp)
        run_batch(prop, cp, feat, release, rep, stats, budget_search)
        rng = random.Random((seed * 1000003 + bi * 7919 + int(hashlib.sha1(prop.encode()).hexdigest()[:6], 16)) & 0xFFFFFFFF)
        prof = profile_for(prop, feat)
        g = gen.Gen(rng, prof, sz, consts_line)
        done = 0
        while done < nprog:
            n = min(chunk, nprog - done)
            progs = []
            for i in range(n):
                name = "%s-%s-%d-%d" % (prop, corr.feat_name(feat), seed, done + i)
                lines = g.program(name)
                progs.append((name, lines))
            if len(samples) < 2:
                samples.append({"program": progs[0][1]})
            if len(cover_sample) < 600:
                cover_sample.extend(progs[:150])
            for k, v in op_hist(progs).items():
                hist[k] = hist.get(k, 0) + v
            run_batch(prop, progs, feat, release, rep, stats, budget_search)
            done += n
            if rep.violations and time.time() - rep.t0 > 600:
                break
    finish_proof_violation(prop, rep)
    branches = model_branches(cover_sample)
    cov = coverage_proof(a, {
        "programs": stats["programs"],
        "disagreements_checked": stats["disagreements_checked"],
        "evaluations": stats["ops"],
        "distinct_nontrivial": len(stats["nontrivial_hashes"]),
        "rule": "seeded generator (tools/gen.py, profile %s) + corpus/*.prog; each program runs on the Lean model driver and on the real crate; "
                "a program is non-trivial for %s when its model run contains an event/result of class '%s'; distinct = distinct op sequences (sha1)" % (
                    prop, prop, spec.get("nontrivial")),
        "samples": samples,
        "builds": stats["builds"],
        "generated": stats["generated"],
        "discarded_by_model(aborted/double-panic/fuel)": stats["discarded_by_model"],
        "op_histogram": hist,
        "model_branches_reached": len(branches),
        "model_branches": branches,
        "model_branches_note": "micro-steps of the Lean machine on a sample of %d of these programs (corpus + generated), by machine mode / frame on top of the stack / operation of a script frame (driver mode `cover`)" % len(cover_sample),
        "event_histogram": stats["events"],
        "panics_caught_at_api_boundary": stats["panics_caught"],
        "whitebox_only_disagreements": stats["whitebox_only"],
        "whitebox_samples": stats["whitebox_samples"],
        "oracle_hits_for_other_properties": stats["other_oracle_hits"],
        "search_programs": stats["search_programs"],
        "known_findings_printed": rep.known,
    })
    cov.update(extra_cov)
    if extra_cov.get("extra_evaluations"):
        cov["evaluations"] += extra_cov["extra_evaluations"]
    return cov


def model_branches(progs):
    """Which branches of the model the programs reach: tally of micro-steps by (mode, top frame kind, script operation)."""
    if not progs or not os.path.exists(corr.DRIVER):
        return {}
    text = "\n".join("\n".join(lines) for _, lines in progs) + "\n"
    try:
        p = subprocess.run([corr.DRIVER, "cover"], input=text, capture_output=True, text=True, timeout=600)
    except Exception:
        return {}
    out = {}
    for l in p.stdout.splitlines():
        t = l.split()
        if len(t) == 3 and t[0] == "cov":
            out[t[1]] = int(t[2])
    return out


# ------------------------------------------------------------------------------------ extra probes

def words_probe(prop, tier, seed, rep, vals_line):
    """C16: every counter-word operation on all 2^16 words, compiled crate vs Lean model, plus the
    statement of C16 evaluated directly on the crate's table (model-independent)."""
    ok, log = cargo_build(F_ALL)
    if not ok:
        raise RuntimeError("cargo build failed: " + log[-500:])
    rc1, impl = sh([corr.harness_bin(F_ALL), "words"], timeout=600)
    rc2, model = sh([corr.DRIVER, "words"], timeout=600)
    if rc1 != 0 or rc2 != 0:
        raise RuntimeError("words mode failed (harness rc=%s, driver rc=%s)" % (rc1, rc2))
    il, ml = impl.splitlines(), model.splitlines()
    vals = extract_consts.extract(REPO)
    M = vals["counterMask"] + 1
    MAX = vals["rcMax"]
    WM = vals["weakAccessibleMask"]
    WMAX = vals["weakMax"]
    bad = []
    for line in il:
        t = line.split()
        op = t[0]
        if op in ("ic", "dc"):
            w, nw, failed = int(t[1]), int(t[2]), t[3] == "1"
            rc, flags = w % M, w // M
            if op == "ic":
                exp = (w, True) if rc == MAX else (w + 1, False)
            else:
                exp = (w, True) if rc == 0 else (w - 1, False)
            if (nw, failed) != exp or nw // M != flags or nw % M == M - 1:
                bad.append(line)
        elif op == "it":
            w, nw, failed = int(t[1]), int(t[2]), t[3] == "1"
            tc, mk = w % M, w // M
            exp = (w, True) if tc == MAX else (w + 1, False)
            if (nw, failed) != exp or nw // M != mk:
                bad.append(line)
        elif op in ("sf1", "sf0", "sm1", "sm0"):
            w, nw = int(t[1]), int(t[2])
            if nw % M != w % M:
                bad.append(line)
        elif op == "gt":
            # the reserved tracing-counter value, and only it, means "dropped"; the getters change nothing
            w, nw = int(t[1]), int(t[2])
            if nw != w or (t[6] == "1") != (w % M == M - 1):
                bad.append(line)
        elif op == "rt":
            # resetting the tracing counter keeps the mark
            w, nw = int(t[1]), int(t[2])
            if nw % M != 0 or nw // M != w // M:
                bad.append(line)
        elif op in ("m0", "m1", "m2", "m3"):
            # marking keeps the tracing counter
            w, nw = int(t[1]), int(t[2])
            if nw % M != w % M:
                bad.append(line)
        elif op in ("iw", "dw"):
            w, nw, failed = int(t[1]), int(t[2]), t[3] == "1"
            cnt, acc = w % WM, w // WM
            if op == "iw":
                exp = (w, True) if cnt == WMAX else (w + 1, False)
            else:
                exp = (w, True) if cnt == 0 else (w - 1, False)
            if (nw, failed) != exp or nw // WM != acc:
                bad.append(line)
    cov = {"word_table_lines": len(il), "word_table_exhaustive": True, "extra_evaluations": len(il),
           "word_table_rule_violations": len(bad)}
    if bad:
        rep.violation("impl-vs-property", ["# counter-word operation violating C16 (op word newword failed ...):"] + ["# " + b for b in bad[:20]],
                      "the compiled crate's counter-word table violates the saturation / no-spill rule on %d words, e.g. `%s`" % (len(bad), bad[0]),
                      True, signature="words-rule")
    if il != ml:
        first = next((i for i in range(min(len(il), len(ml))) if il[i] != ml[i]), min(len(il), len(ml)))
        detail = "exhaustive word correspondence `Bits` broke at line %d:\nmodel: %s\nimpl : %s" % (
            first, ml[first] if first < len(ml) else None, il[first] if first < len(il) else None)
        if not bad:
            rep.violation("model-disagreement", ["# " + x for x in detail.splitlines()], detail, False, signature="corr:words")
        cov["word_table_mismatch_at"] = first
    return cov


def policy_probe(prop, tier, seed, rep, vals_line):
    """C15: Config::adjust / should_collect on detached Config+State (hook) vs Policy.adjustF / shouldCollect,
    and the statement of C15 evaluated directly on the crate's answers."""
    import struct
    ok, log = cargo_build(F_ALL)
    if not ok:
        raise RuntimeError("cargo build failed: " + log[-500:])
    vals = extract_consts.extract(REPO)
    D = vals["defaultThr"]
    rng = random.Random(seed * 77 + 5)
    n = 40000 if tier == "quick" else 400000
    lines = []
    pcts = [int(x, 16) for x in gen.PCTS]

    def rnd_pct():
        c = rng.random()
        if c < 0.4:
            return rng.choice(pcts)
        if c < 0.7:
            return struct.unpack(">Q", struct.pack(">d", rng.random()))[0]
        if c < 0.85:
            return struct.unpack(">Q", struct.pack(">d", rng.choice([1, 3, 5, 7]) / (1 << rng.randrange(1, 12))))[0]
        return rng.randrange(0, 0x3FF0000000000001)   # any bit pattern in [0, 1]
    for i in range(n):
        if i % 4 != 3:
            k = rng.randrange(0, 40)
            thr = D << k
            c = rng.random()
            if c < 0.3:
                alloc = max(0, thr + rng.randrange(-3, 4))
            elif c < 0.5:
                alloc = max(0, thr // 2 + rng.randrange(-3, 4))
            elif c < 0.7:
                alloc = rng.randrange(0, thr * 4 + 1)
            elif c < 0.9:
                alloc = max(0, thr // 10 + rng.randrange(-5, 6))
            else:
                alloc = rng.randrange(0, 1 << 50)
            lines.append("adjust %d %x %d" % (thr, rnd_pct(), alloc))
        else:
            thr = D << rng.randrange(0, 20)
            bt = rng.choice(["none", "1", "2", "5", "100"])
            alloc = max(0, thr + rng.randrange(-2, 3))
            lines.append("should %d %d %s %d %d" % (rng.randrange(2), thr, bt, alloc, rng.randrange(0, 8)))
    text = "\n".join(lines) + "\n"
    p1 = subprocess.run([corr.harness_bin(F_ALL), "policy"], input=text, capture_output=True, text=True, timeout=1200)
    p2 = subprocess.run([corr.DRIVER, "policy"], input=text, capture_output=True, text=True, timeout=1200)
    if p1.returncode != 0 or p2.returncode != 0:
        raise RuntimeError("policy mode failed (harness rc=%s, driver rc=%s)" % (p1.returncode, p2.returncode))
    io, mo = p1.stdout.splitlines(), p2.stdout.splitlines()
    bad = []
    mism = []
    for i, l in enumerate(lines):
        t = l.split()
        a = io[i] if i < len(io) else None
        b = mo[i] if i < len(mo) else None
        if a != b:
            mism.append((l, b, a))
        if a is None:
            continue
        # the statement of C15, evaluated on the crate's own answer
        if t[0] == "adjust":
            thr, bits, alloc, r = int(t[1]), int(t[2], 16), int(t[3]), int(a)
            pct = struct.unpack(">d", struct.pack(">Q", bits))[0]
            q = r // D if D else 0
            pow2 = r % D == 0 and q > 0 and (q & (q - 1)) == 0
            from fractions import Fraction
            notneedless = (pct == 0.0) or (Fraction(alloc) > Fraction(r) * Fraction(pct)) or (r // 2 <= alloc) or (r == D)
            if not (pow2 and r >= D and alloc < r and notneedless):
                bad.append((l, a))
        else:
            auto, thr, bt, alloc, buffered = t[1] == "1", int(t[2]), t[3], int(t[4]), int(t[5])
            exp = auto and (alloc > thr or (bt != "none" and buffered > int(bt)))
            if (a == "1") != exp:
                bad.append((l, a))
    cov = {"policy_inputs": len(lines), "policy_rule_violations": len(bad), "policy_model_mismatches": len(mism), "extra_evaluations": len(lines)}
    if bad:
        rep.violation("impl-vs-property", ["# input line -> crate's answer"] + ["# %s -> %s" % x for x in bad[:20]],
                      "Config::adjust / should_collect violate the documented policy on %d inputs, e.g. `%s` -> %s" % (len(bad), bad[0][0], bad[0][1]),
                      True, signature="policy-rule")
    elif mism:
        detail = "policy correspondence (Policy.adjustF / shouldCollect vs the crate) broke on %d inputs, e.g. `%s`: model %s, crate %s" % (
            len(mism), mism[0][0], mism[0][1], mism[0][2])
        rep.violation("model-disagreement", ["# " + detail], detail, False, signature="corr:policy")
    return cov


def layout_probe(prop, tier, seed, rep, vals_line=None):
    """C03 / C13 / C20: grid of payload layouts (size 0..4 KiB, align 1..4096, ZST, over-aligned) through every
    release path with the allocator oracle, and the predicted box layout (Model/Layout.lean) vs the measured one."""
    cov = {}
    problems = []
    mism = []
    nlines = 0
    for release in ([False] if tier == "quick" else [False, True]):
        ok, log = cargo_build(F_ALL, release)
        if not ok:
            raise RuntimeError("cargo build failed: " + log[-500:])
        rc, out = sh([corr.harness_bin(F_ALL, release), "layout"], timeout=600)
        lines = [l for l in out.splitlines() if l.startswith("layout ") and l != "layout done"]
        if rc != 0 or "layout done" not in out:
            rep.violation("impl-vs-property", ["# harness layout mode crashed: rc=%s" % rc, "# " + out[-400:].replace("\n", "\n# ")],
                          "the layout life-cycle probe crashed (rc=%s) after: %s" % (rc, lines[-1] if lines else "-"), True, signature="layout-crash")
            return {"layout_cases": len(lines)}
        hdr_end = None
        for l in lines:
            m = re.match(r"layout (\S+) size=(\d+) align=(\d+) box=(\d+),(\d+) off=(\d+) (.*)$", l)
            if m and int(m.group(3)) == 1:
                hdr_end = int(m.group(6))
                break
        mh = re.search(r"hdr size=(\d+) align=(\d+)", out)
        hdr_align = int(mh.group(2)) if mh else 8
        q = []
        for l in lines:
            m = re.match(r"layout (\S+) size=(\d+) align=(\d+) box=(\d+),(\d+) off=(\d+) (.*)$", l)
            if not m:
                continue
            nlines += 1
            if m.group(7) != "ok":
                problems.append(l)
            q.append("layout %s %d %d %s %s" % (m.group(1), hdr_end or 0, hdr_align, m.group(2), m.group(3)))
        p = subprocess.run([corr.DRIVER, "shapes"], input="\n".join(q) + "\n", capture_output=True, text=True, timeout=300)
        exp = p.stdout.splitlines()
        for a, b in zip(lines, exp):
            if a.split(" ok")[0].split(" PROBLEMS")[0] != b.split(" ok")[0]:
                mism.append((a, b))
    cov.update({"layout_cases": nlines, "layout_problems": len(problems), "layout_model_mismatches": len(mism), "extra_evaluations": nlines})
    if problems:
        rep.violation("impl-vs-property", ["# " + x for x in problems[:20]],
                      "payload layout life cycle (alloc/free layout equality, alignment, address stability, ptr_eq, release by every path) failed: %s" % problems[0],
                      True, signature="layout-oracle")
    elif mism:
        detail = "layout correspondence (Model/Layout.lean vs measured box layout) broke: measured `%s`, model `%s`" % mism[0]
        rep.violation("model-disagreement", ["# " + detail], detail, False, signature="corr:layout")
    return cov


def cycles_check(out, rep, prop):
    """`cycle <position> dropped=<n> leaked_bytes=<d>` lines of the containers probe: a two-object cycle routed through every
    container position must be dropped exactly once per object and fully released by one collection."""
    lines = [l for l in out.splitlines() if l.startswith("cycle ")]
    bad = [l for l in lines if not re.search(r" dropped=2 leaked_bytes=0$", l)]
    if bad:
        rep.violation("impl-vs-property", ["# " + x for x in bad[:20]],
                      "a garbage cycle routed through a container position was not reclaimed exactly once and completely: %s" % bad[0],
                      True, signature="containers-cycle")
    return len(lines), len(bad)


def layout_and_cycles_probe(prop, tier, seed, rep, vals_line=None):
    cov = layout_probe(prop, tier, seed, rep, vals_line)
    ok, log = cargo_build(F_ALL)
    if ok:
        rc, out = sh([corr.harness_bin(F_ALL), "containers"], timeout=600)
        n, nbad = cycles_check(out, rep, prop)
        cov["cycle_positions"] = n
        cov["cycle_position_failures"] = nbad
        cov["extra_evaluations"] = cov.get("extra_evaluations", 0) + n
    return cov


class ListsSpec:
    """The specification of src/lists.rs on plain Python lists (what Proofs/ListsRefine.lean proves the Lean model refines):
    used to decide whether the crate itself deviates, independently of the Lean model."""

    def __init__(self, n):
        self.n = n
        self.l = [[], []]
        self.p = []
        self.q = []
        self.mark = [0] * n
        self.tc = [0] * n
        self.ret = "."

    def free(self, x):
        return x < self.n and all(x not in s for s in (self.l[0], self.l[1], self.p, self.q))

    def step(self, t):
        self.ret = "."
        parts = t.split(":")
        o = parts[0]
        i = int(o[-1]) if o[-1] in "01" and o[:2] in ("la", "lr", "lf", "ld", "pm", "ps") else None
        x = int(parts[1]) if len(parts) > 1 else None
        k = o[:2]
        if k == "la":
            if self.free(x):
                self.l[i].insert(0, x)
        elif k == "lr":
            if x in self.l[i]:
                self.l[i].remove(x)
        elif k == "lf":
            if self.l[i]:
                y = self.l[i].pop(0)
                self.mark[y] = 0
                self.ret = str(y)
            else:
                self.ret = "none"
        elif k == "ld":
            for y in self.l[i]:
                self.mark[y] = 0
            self.l[i] = []
        elif k == "pa":
            if self.free(x):
                self.p.insert(0, x)
        elif k == "pr":
            if x in self.p:
                self.p.remove(x)
        elif k == "pf":
            if self.p:
                y = self.p.pop(0)
                self.mark[y] = 0
                self.ret = str(y)
            else:
                self.ret = "none"
        elif k == "pm":
            if x < 4:
                for y in self.p:
                    self.mark[y] = x
                    self.tc[y] = 0
                self.p = self.p + self.l[i]
                self.l[i] = []
        elif k == "ps":
            self.p, self.l[i] = self.l[i], self.p
        elif k == "qa":
            if self.free(x):
                self.q.append(x)
        elif k == "qp":
            if self.q:
                y = self.q.pop(0)
                self.mark[y] = 0
                self.ret = str(y)
            else:
                self.ret = "none"
        elif k == "qd":
            for y in self.q:
                self.mark[y] = 0
            self.q = []
        elif k == "mk":
            m = int(parts[2])
            if x < self.n and m < 4:
                self.mark[x] = m
        elif k == "it":
            if x < self.n:
                self.tc[x] += 1

    def show(self):
        nxt = ["-"] * self.n
        prv = ["-"] * self.n
        for s in (self.l[0], self.l[1], self.p):
            for a, b in zip(s, s[1:]):
                nxt[a] = str(b)
                prv[b] = str(a)
        for a, b in zip(self.q, self.q[1:]):
            nxt[a] = str(b)
        j = lambda s: ",".join(str(v) for v in s)
        e = "".join("1" if not s else "0" for s in (self.l[0], self.l[1], self.p, self.q))
        return "l0=%s l1=%s p=%s#%d q=%s e=%s lk=%s mk=%s tc=%s r=%s" % (
            j(self.l[0]), j(self.l[1]), j(self.p), len(self.p), j(self.q), e,
            " ".join("%s/%s" % (nxt[k], prv[k]) for k in range(self.n)), j(self.mark), j(self.tc), self.ret)


def lists_case(rng):
    """One op sequence for the lists mode: mostly operations whose precondition holds, some that must be skipped."""
    n = rng.choice([1, 2, 3, 4, 5, 6, 8, 12])
    sp = ListsSpec(n)
    ops = []
    for _ in range(rng.choice([4, 8, 16, 30, 60])):
        c = rng.random()
        free = [x for x in range(n) if sp.free(x)]
        anyx = lambda: rng.randrange(0, n + 2)
        i = rng.randrange(2)
        if c < 0.30:
            x = rng.choice(free) if free and rng.random() < 0.9 else anyx()
            t = rng.choice(["la%d:%d" % (i, x), "la%d:%d" % (i, x), "pa:%d" % x, "pa:%d" % x, "qa:%d" % x])
        elif c < 0.45:
            src = rng.choice([("lr%d" % i, sp.l[i]), ("pr", sp.p)])
            x = rng.choice(src[1]) if src[1] and rng.random() < 0.9 else anyx()
            t = "%s:%d" % (src[0], x)
        elif c < 0.60:
            t = rng.choice(["lf%d" % i, "pf", "qp"])
        elif c < 0.70:
            t = "pm%d:%d" % (i, rng.choice([0, 1, 2, 2, 3, 1, 5]))
        elif c < 0.78:
            t = "ps%d" % i
        elif c < 0.83:
            t = rng.choice(["ld%d" % i, "qd"])
        elif c < 0.92:
            t = "mk:%d:%d" % (anyx(), rng.choice([0, 1, 2, 3, 4]))
        else:
            t = "it:%d" % anyx()
        sp.step(t)
        ops.append(t)
    return "%d %s" % (n, " ".join(ops))


def lists_run_impl(cases, max_restarts=60):
    """Runs the cases through the harness' lists mode. A case on which the process dies (abort, signal, timeout) gets the
    output `abort` and the harness is restarted on the remaining cases (at most `max_restarts` times)."""
    outs = []
    rc_last = 0
    start = 0
    restarts = 0
    while start < len(cases):
        text = "\n".join(cases[start:]) + "\n"
        try:
            p = subprocess.run([corr.harness_bin(F_ALL), "lists"], input=text, capture_output=True, text=True, timeout=300)
            got, rc = p.stdout.splitlines(), p.returncode
        except subprocess.TimeoutExpired as ex:
            got, rc = ((ex.stdout or b"").decode("utf-8", "replace").splitlines() if isinstance(ex.stdout, bytes) else (ex.stdout or "").splitlines()), -9
        n = len(cases) - start
        if len(got) >= n:
            outs += got[:n]
            return outs, 0 if restarts == 0 else rc_last
        # died while running case start + len(got) (a possibly half-written last line is dropped)
        outs += got
        outs.append("abort")
        rc_last = rc
        start += len(got) + 1
        restarts += 1
        if restarts >= max_restarts:
            outs += ["(not run)"] * (len(cases) - start)
            break
    return outs, rc_last


def lists_probe(prop, tier, seed, rep, vals_line=None):
    """C11 / C02: the intrusive lists of src/lists.rs (LinkedList, PossibleCycles with its cached size, LinkedQueue) driven on
    scratch boxes through the hook `lists_run`, against (a) the pointer-level Lean model Model/Lists.lean, which
    Proofs/ListsRefine.lean proves refines plain lists, and (b) that plain-list specification evaluated here."""
    ok, log = cargo_build(F_ALL)
    if not ok:
        raise RuntimeError("cargo build failed: " + log[-500:])
    rng = random.Random(seed * 131 + 17)
    ncases = 4000 if tier == "quick" else 60000
    corpus = ["3 pa:0 pa:1 pa:2 pr:1 pf pf pf pf", "4 la0:0 la0:1 pa:2 pa:3 ps0 pm0:2 pf pf pf pf pf",
              "4 qa:0 qa:1 qa:2 qp qa:0 qp qp qp qp", "3 la0:0 la0:1 la0:2 lr0:0 lr0:2 lr0:1 la0:1 ld0 la1:1",
              "5 pa:0 pa:1 la1:2 la1:3 pm1:2 pr:2 pr:0 pr:3 pa:0 ps0 lf0 lf0 pm0:1", "2 pa:0 it:0 it:0 mk:0:1 la0:1 pm0:3 pf pf"]
    cases = corpus + [lists_case(rng) for _ in range(ncases)]
    text = "\n".join(cases) + "\n"
    io, impl_rc = lists_run_impl(cases)
    p2 = subprocess.run([corr.DRIVER, "lists"], input=text, capture_output=True, text=True, timeout=1200)
    mo = p2.stdout.splitlines()
    nops = 0
    wrong = []
    mism = []
    ophist = {}
    for ci, c in enumerate(cases):
        toks = c.split()
        sp = ListsSpec(int(toks[0]))
        exp = []
        for t in toks[1:]:
            sp.step(t)
            exp.append(sp.show())
            ophist[t[:2]] = ophist.get(t[:2], 0) + 1
        nops += len(exp)
        a = [x.strip() for x in io[ci].split("|")] if ci < len(io) else None
        b = [x.strip() for x in mo[ci].split("|")] if ci < len(mo) else None
        if a == ["(not run)"]:
            continue
        if a != exp:
            k = next((j for j in range(len(exp)) if a is None or j >= len(a) or a[j] != exp[j]), len(exp))
            wrong.append((c, k, exp[k] if k < len(exp) else "-", (a[k] if a is not None and k < len(a) else "(no output)")))
        if b != a:
            mism.append((c, a, b))
    cov = {"lists_cases": len(cases), "lists_operations": nops, "lists_op_histogram": dict(sorted(ophist.items())),
           "lists_spec_violations": len(wrong), "lists_model_mismatches": len(mism), "extra_evaluations": nops}
    if impl_rc != 0 and not wrong:
        wrong.append((cases[min(len(io), len(cases) - 1)], 0, "-", "harness crashed rc=%s" % impl_rc))
    if wrong:
        # shrink: shortest prefix of the shortest failing case that still deviates, then drop single operations greedily
        def deviates(lines):
            outs, _ = lists_run_impl(lines)
            res = []
            for li, l in enumerate(lines):
                tk = l.split()
                s2 = ListsSpec(int(tk[0]))
                ex = []
                for t in tk[1:]:
                    s2.step(t)
                    ex.append(s2.show())
                got = [x.strip() for x in outs[li].split("|")] if li < len(outs) else None
                res.append((got != ex, ex[-1] if ex else "-", (got[-1] if got else "(no output)")))
            return res
        c, k, e, g = min(wrong, key=lambda w: len(w[0].split()))
        toks = c.split()
        try:
            # the first deviating operation is known: the prefix up to it is the shortest deviating prefix
            cur = toks[:k + 2]
            r = deviates([" ".join(cur)])
            if r and r[0][0]:
                e, g = r[0][1], r[0][2]
            changed = len(cur) <= 80       # single-operation deletions are quadratic: only for short cases
            t_dead = time.time() + 45      # shrinking is a convenience: bounded, the deviation itself is already established
            while changed and len(cur) > 2 and time.time() < t_dead:
                changed = False
                cands = [cur[:1] + cur[1:d] + cur[d + 1:] for d in range(1, len(cur) - 1)]
                rr = deviates([" ".join(x) for x in cands])
                for x, y in zip(cands, rr):
                    if y[0]:
                        cur, e, g, changed = x, y[1], y[2], True
                        break
            short = " ".join(cur)
        except Exception:
            short = " ".join(toks[:k + 2])
        rep.violation("impl-vs-property", ["# lists mode, one case: <n> <op> ...   (replay: echo '<line>' | harness lists)", short,
                                            "# expected after the last operation: " + e, "# crate:                             " + g],
                      "src/lists.rs deviates from the list specification on %d of %d cases; shortest: `%s`: expected `%s`, crate `%s`" % (
                          len(wrong), len(cases), short, e, g), True, signature="lists-rule")
    elif mism or p2.returncode != 0:
        c, a, b = mism[0] if mism else (cases[0], None, None)
        detail = "lists correspondence (Model/Lists.lean vs src/lists.rs) broke on %d cases, e.g. `%s`" % (len(mism), c)
        rep.violation("model-disagreement", ["# " + detail, c], detail, False, signature="corr:lists")
    return cov


def clonefrom_probe(prop, tier, seed, rep, vals_line=None):
    """C04: `Clone::clone_from` on `Cc` keeps the counts exact in every outcome (model-independent probe on the crate)."""
    ok, log = cargo_build(F_ALL)
    if not ok:
        raise RuntimeError("cargo build failed: " + log[-500:])
    rc, out = sh([corr.harness_bin(F_ALL), "clonefrom"], timeout=600)
    lines = [l for l in out.splitlines() if l.startswith("clonefrom ")]
    bad = [l for l in lines if "PROBLEMS" in l]
    if rc != 0 or "clonefrom done" not in out:
        bad = bad or ["clonefrom probe crashed rc=%s after `%s`" % (rc, lines[-1] if lines else "-")]
    if bad:
        rep.violation("impl-vs-property", ["# " + x for x in bad], "Clone::clone_from on Cc does not behave as `*self = source.clone()`: %s" % bad[0], True,
                      signature="clonefrom")
    return {"clone_from_scenarios": len(lines), "extra_evaluations": len(lines)}


def bigbuf_probe(prop, tier, seed, rep, vals_line=None):
    """C01 (C02): collections over buffers of 4 … 2600 objects — far above the size of generated programs (model-independent)."""
    ok, log = cargo_build(F_ALL)
    if not ok:
        raise RuntimeError("cargo build failed: " + log[-500:])
    rc, out = sh([corr.harness_bin(F_ALL), "bigbuf"], timeout=900)
    lines = [l for l in out.splitlines() if l.startswith("bigbuf ")]
    bad = [l for l in lines if "PROBLEMS" in l]
    if rc != 0 or "bigbuf done" not in out:
        bad = bad or ["bigbuf probe crashed rc=%s after `%s`" % (rc, lines[-1] if lines else "-")]
    if bad:
        rep.violation("impl-vs-property", ["# " + x for x in bad], "a collection over a large buffer dropped a reachable object or leaked garbage: %s" % bad[0], True,
                      signature="bigbuf")
    return {"large_buffer_scenarios": len(lines) - 1, "extra_evaluations": len(lines)}


EXTRA_STEPS = {"C01": bigbuf_probe, "C04": clonefrom_probe, "C16": words_probe, "C15": policy_probe, "C03": layout_and_cycles_probe, "C13": layout_probe, "C11": lists_probe, "C02": lists_probe, "C09": words_probe, "C14": words_probe}


def simple_probe_check(prop, tier, seed, rep, runner):
    a, consts_line = proof_part(prop, rep)
    cov_extra = {}
    try:
        cov_extra = runner(prop, tier, seed, rep)
    except Exception as ex:
        rep.violation("probe-broken", ["# " + str(ex)], "probe for %s failed to run: %s" % (prop, ex), False, signature="probe")
    finish_proof_violation(prop, rep)
    cov = coverage_proof(a, cov_extra)
    cov.setdefault("evaluations", cov_extra.get("extra_evaluations", 1) or 1)
    cov.setdefault("distinct_nontrivial", cov_extra.get("distinct_nontrivial", 2))
    cov.setdefault("programs", cov_extra.get("extra_evaluations", 1) or 1)
    cov.setdefault("disagreements_checked", cov_extra.get("disagreements", 0))
    return cov


def run_C17(prop, tier, seed, rep):
    cases = 0
    mism = []
    wrong = []
    samples = []
    builds = [(F_ALL, False)] if tier == "quick" else [(F_ALL, False), (F_ALL, True), (F_DEFAULT, False), (F_NOFIN, True)]
    for feat, release in builds:
        ok, log = cargo_build(feat, release)
        if not ok:
            raise RuntimeError("cargo build failed: " + log[-500:])
        rc, out = sh([corr.harness_bin(feat, release), "containers"], timeout=600)
        lines = [l for l in out.splitlines() if l.startswith("shape ")]
        ncyc, _ = cycles_check(out, rep, prop)
        cases += ncyc
        if rc != 0 or "containers done" not in out:
            rep.violation("impl-vs-property", ["# containers probe crashed rc=%s" % rc, "# last: %s" % (lines[-1] if lines else "-")],
                          "a built-in Trace/Finalize impl made the container probe crash (rc=%s) after `%s`" % (rc, lines[-1] if lines else "-"),
                          True, signature="containers-crash")
            continue
        q = []
        for l in lines:
            m = re.match(r"shape (\S+) counts=(\S*) fin=(\S*)$", l)
            n = len([x for x in m.group(2).split(",") if x]) if m else 0
            q.append("shape %s %d" % (m.group(1) if m else "?", n))
        p = subprocess.run([corr.DRIVER, "shapes"], input="\n".join(q) + "\n", capture_output=True, text=True, timeout=300)
        exp = p.stdout.splitlines()
        for a, b in zip(lines, exp):
            cases += 1
            if a != b:
                mism.append((a, b, corr.feat_name(feat)))
            # the statement itself on the crate's answer: counts are 0/1 per leaf, never more than once
            m = re.match(r"shape (\S+) counts=(\S*) fin=(\S*)$", a)
            if m and any(int(x) > 1 for x in m.group(2).split(",") + m.group(3).split(",") if x):
                wrong.append(a)
        if len(samples) < 3:
            samples += lines[:2]
    if wrong:
        rep.violation("impl-vs-property", ["# " + x for x in wrong[:10]], "an owned Cc was reported more than once by one trace/finalize call: %s" % wrong[0], True,
                      signature="containers-twice")
    if mism:
        a, b, fn = mism[0]
        # a missing report (count 0 where the model says 1) leaks a cycle through that position; reported with the case as replay
        missing = [x for x in mism if x[0] != x[1]]
        detail = "built-in impl correspondence `Shapes.visit` broke on %d cases (features %s): crate `%s`, model `%s`" % (len(mism), fn, a, b)
        rep.violation("impl-vs-property" if missing else "model-disagreement", ["# crate : " + a, "# model : " + b], detail, True, signature="containers")
    return {"extra_evaluations": cases, "distinct_nontrivial": cases, "samples": samples, "disagreements": len(mism),
            "rule": "every implemented container constructor, tuple arity 1..12, array length 0..32, Vec/slice length 0..6, each variant, borrowed/unborrowed RefCell, two-level nestings; per-leaf trace reports counted through the leaf's tracing counter after one collection, finalize forwards counted per element"}


def run_C18(prop, tier, seed, rep):
    feat = dict(F_ALL)
    n = 40 if tier == "quick" else 200
    rc, model_lines = sh([sys.executable, os.path.join(VERIF, "tools", "gen_derive.py"), str(seed), str(n)], timeout=120)
    if rc != 0:
        raise RuntimeError("gen_derive failed: " + model_lines[-300:])
    cmd = ["cargo", "build", "--offline", "--target-dir", os.path.join("target", "derive"), "--features", "fin,weak,clean,auto,derive"]
    rc, out = sh(cmd, cwd=HARNESS, timeout=3600)
    if rc != 0:
        # the generated definitions no longer compile with the macro: report with the error
        rep.violation("impl-vs-property", ["# " + x for x in out.splitlines()[-25:]],
                      "randomly generated #[derive(Trace, Finalize)] definitions (seed %d) no longer compile: %s" % (seed, "; ".join(re.findall(r"error[^\n]*", out)[:3])),
                      True, signature="derive-compile")
        return {"extra_evaluations": 1}
    rc, out = sh([os.path.join(HARNESS, "target", "derive", "debug", "cc-harness"), "derive"], timeout=600)
    lines = [l for l in out.splitlines() if l.startswith("derive ") and l != "derive done"]
    if rc != 0 or "derive done" not in out:
        rep.violation("impl-vs-property", ["# derive probe crashed rc=%s" % rc], "derived Trace impl made the probe crash after `%s`" % (lines[-1] if lines else "-"), True,
                      signature="derive-crash")
        return {"extra_evaluations": len(lines)}
    unguarded = [l for l in out.splitlines() if l.startswith("dguard ")]
    if unguarded:
        rep.violation("impl-vs-property", ["# " + x for x in unguarded[:20]] + ["# definitions: harness/src/derive_gen.rs (seed %d)" % seed],
                      "derive(Trace) without unsafe_no_drop emitted no Drop impl for %d generated types (needs_drop::<T>() is false), e.g. `%s`" % (
                          len(unguarded), unguarded[0]), True, signature="derive-noguard")
    p = subprocess.run([corr.DRIVER, "shapes"], input=model_lines, capture_output=True, text=True, timeout=300)
    exp = p.stdout.splitlines()
    mism = [(a, b) for a, b in zip(lines, exp) if a != b]
    if len(lines) != len(exp):
        mism.append(("%d lines" % len(lines), "%d lines" % len(exp)))
    if mism:
        a, b = mism[0]
        rep.violation("impl-vs-property", ["# crate : " + a, "# model : " + b, "# definitions: harness/src/derive_gen.rs (seed %d)" % seed],
                      "derive(Trace) visit lists differ from `Derive.visitedOf` on %d cases, e.g. crate `%s` model `%s`" % (len(mism), a, b), True, signature="derive")
    # compile-fail probe: a user Drop next to derive(Trace) must be rejected unless unsafe_no_drop
    cf = derive_drop_probe(rep)
    cov = {"extra_evaluations": len(lines), "distinct_nontrivial": len(set(lines)), "samples": lines[:3], "disagreements": len(mism),
           "rule": "random type definitions (tools/gen_derive.py, seed): unit/tuple/named structs, enums with 1..4 variants of mixed kinds, generics, nested container field types, every ignore pattern; compiled with the real macro; per-field trace reports counted"}
    cov.update(cf)
    return cov


# shapes whose derive(Trace) must come with a Drop impl too (a user Drop next to it is error E0119)
BAD_SHAPES = [("BadUnit", "struct BadUnit;"), ("BadTuple", "struct BadTuple(Cc<u32>, u8);"), ("BadEmpty", "struct BadEmpty {}"),
              ("BadCLike", "enum BadCLike { A, B, C }"), ("BadOneUnit", "enum BadOneUnit { Only }"),
              ("BadUnitIgn", "enum BadUnitIgn { Empty, #[rust_cc(ignore)] Full(Cc<u32>) }"),
              ("BadAllIgn", "enum BadAllIgn { #[rust_cc(ignore)] A(Cc<u32>), #[rust_cc(ignore)] B { x: Cc<u32> } }"),
              ("BadIgnField", "struct BadIgnField { #[rust_cc(ignore)] a: Cc<u32> }"),
              ("BadMixed", "enum BadMixed { A(Cc<u32>), B, C { y: u8 } }")]


def derive_drop_probe(rep):
    d = os.path.join(WORK, "derive_fail")
    os.makedirs(os.path.join(d, "src"), exist_ok=True)
    import shutil
    shutil.copy(os.path.join(REPO, "Cargo.lock"), os.path.join(d, "Cargo.lock"))
    open(os.path.join(d, "Cargo.toml"), "w").write(
        '[package]\nname = "derive-fail"\nversion = "0.1.0"\nedition = "2021"\n\n[workspace]\n\n[dependencies]\n'
        'rust-cc = { path = "/repo", default-features = false, features = ["std", "derive"] }\n\n[features]\nbad = []\n')
    open(os.path.join(d, "src", "lib.rs"), "w").write(
        "use rust_cc::*;\n#[cfg(feature = \"bad\")]\n#[derive(Trace, Finalize)]\npub struct Bad { a: Cc<u32> }\n"
        "#[cfg(feature = \"bad\")]\nimpl Drop for Bad { fn drop(&mut self) {} }\n"
        + "".join("#[cfg(feature = \"bad\")]\n#[derive(Trace, Finalize)]\n#[allow(dead_code)]\npub %s\n#[cfg(feature = \"bad\")]\nimpl Drop for %s { fn drop(&mut self) {} }\n" % (decl, nm)
                  for nm, decl in BAD_SHAPES) +
        "#[derive(Trace, Finalize)]\n#[rust_cc(unsafe_no_drop)]\npub struct Good { a: Cc<u32> }\nimpl Drop for Good { fn drop(&mut self) {} }\n"
        "#[derive(Trace, Finalize)]\n#[rust_cc(unsafe_no_drop)]\n#[allow(dead_code)]\n#[doc = \"d\"]\npub struct Good2 { a: Cc<u32> }\nimpl Drop for Good2 { fn drop(&mut self) {} }\n"
        "#[derive(Trace, Finalize)]\n#[allow(dead_code)]\n#[rust_cc(unsafe_no_drop)]\npub enum Good3 { A(Cc<u32>), B }\nimpl Drop for Good3 { fn drop(&mut self) {} }\n")
    rc_good, out_good = sh(["cargo", "build", "--offline"], cwd=d, timeout=1200)
    rc_bad, out_bad = sh(["cargo", "build", "--offline", "--features", "bad"], cwd=d, timeout=1200)
    accepted = [nm for nm, _ in [("Bad", "")] + BAD_SHAPES if not re.search(r"E0119[^\n]*`Drop` for type `%s[`<]" % nm, out_bad)]
    res = {"drop_conflict_rejected": rc_bad != 0 and "E0119" in out_bad and not accepted, "unsafe_no_drop_accepted": rc_good == 0,
           "drop_conflict_shapes": 1 + len(BAD_SHAPES), "drop_conflict_accepted": accepted}
    if rc_good != 0:
        rep.violation("impl-vs-property", ["# " + x for x in out_good.splitlines()[-15:]], "a type with #[rust_cc(unsafe_no_drop)] and its own Drop no longer compiles", True,
                      signature="derive-nodrop")
    if not res["drop_conflict_rejected"]:
        rep.violation("impl-vs-property", ["# derive(Trace) + user Drop compiled without error E0119 for: %s" % (", ".join(accepted) or "-"), "# " + out_bad[-300:].replace("\n", " | ")],
                      "a user-written Drop on a derive(Trace) type (without unsafe_no_drop) is no longer a compile error", True, signature="derive-drop")
    return res


def static_scan():
    """C19: the crate keeps no state outside thread_local!, has no Sync/Send impls or atomics of its own."""
    findings = []
    for path in sorted(glob.glob(os.path.join(REPO, "src", "**", "*.rs"), recursive=True)):
        rel = os.path.relpath(path, REPO)
        if "/tests/" in path or rel.endswith("verif_hooks.rs"):
            continue
        src = extract_consts.strip_comments(open(path).read())
        # remove thread_local! blocks (both the std macro and the crate's alias)
        stripped = re.sub(r"(?:rust_cc_thread_local|thread_local)!\s*\{.*?\n\}", "", src, flags=re.S)
        stripped = re.sub(r"macro_rules!\s*rust_cc_thread_local\s*\{.*?\n\}", "", stripped, flags=re.S)
        stripped = re.sub(r"#\[cfg\(all\(test.*?\n\}", "", stripped, flags=re.S)
        for m in re.finditer(r"^\s*(?:pub(?:\([a-z]+\))?\s+)?static\s+(?:mut\s+)?(\w+)", stripped, flags=re.M):
            findings.append("%s: static %s outside thread_local!" % (rel, m.group(1)))
        for m in re.finditer(r"unsafe\s+impl[^{;]*\b(Sync|Send)\b\s+for", stripped):
            findings.append("%s: unsafe impl %s" % (rel, m.group(1)))
        if rel != "src/trace.rs" and re.search(r"\bAtomic\w+::new|lazy_static|OnceLock|static_init", stripped):
            findings.append("%s: process-wide shared state primitive" % rel)
    cc = extract_consts.strip_comments(open(os.path.join(REPO, "src/cc.rs")).read())
    for ty in ("struct Cc<", "struct CcBox<"):
        i = cc.find(ty)
        body = cc[i:cc.find("}", i)] if i >= 0 else ""
        if "PhantomData<Rc<" not in body:
            findings.append("src/cc.rs: %s no longer carries PhantomData<Rc<_>> (!Send + !Sync marker)" % ty.strip("<"))
    return findings


def run_C19(prop, tier, seed, rep):
    findings = static_scan()
    if findings:
        rep.violation("model-disagreement", ["# " + f for f in findings],
                      "static scan: the premise of the non-interference theorem (all collector state is thread-local, Cc is !Send/!Sync) no longer holds: %s" % findings[0],
                      False, signature="tls-scan")
    ok, log = cargo_build(F_ALL)
    if not ok:
        raise RuntimeError("cargo build failed: " + log[-500:])
    vals, consts_line = regen_consts()
    sz = sizes(F_ALL)
    prof = gen.Profile("C19", F_ALL, fault_p=0.1)
    prof.panic_p = 0.02
    prof.cb_weights = {}
    nprog = 1500 if tier == "quick" else 12000
    g = gen.Gen(random.Random(seed * 31 + 19), prof, sz, consts_line)
    progs = [("C19-%d-%d" % (seed, i), None) for i in range(nprog)]
    progs = [(n, g.program(n)) for n, _ in progs]
    text = "\n".join("\n".join(l) for _, l in progs) + "\n"
    mo = corr.run_model(text)
    usable = [(n, l) for n, l in progs if corr.model_ok(mo.get(n, []))]
    utext = "\n".join("\n".join(l) for _, l in usable) + "\n"
    bad = 0
    first = None
    total = 0
    for nthreads in ([2, 16] if tier == "quick" else [2, 3, 8, 16]):
        p = subprocess.run([corr.harness_bin(F_ALL), "run"], input=utext, capture_output=True, text=True, timeout=1800,
                           env=dict(os.environ, VERIF_THREADS=str(nthreads)))
        outs, _ = corr.split_outputs(p.stdout)
        if p.returncode != 0:
            rep.violation("impl-vs-property", ["# harness crashed with VERIF_THREADS=%d rc=%s" % (nthreads, p.returncode)],
                          "running independent programs on %d concurrent threads crashed the process (rc=%s)" % (nthreads, p.returncode), True, signature="threads-crash")
            continue
        for n, l in usable:
            total += 1
            if corr.compare(mo[n], outs.get(n, []), corr.proj_full) is not None or corr.oracle_hits(outs.get(n, [])):
                bad += 1
                if first is None:
                    first = (n, l, nthreads)
    if first:
        n, l, nt = first
        rep.violation("impl-vs-property", l, "program `%s` behaves differently when other threads run their own programs concurrently (%d threads) than alone: "
                      "%d of %d runs differ from the sequential model run" % (n, nt, bad, total), True, signature="threads-interference")
    rc, out = sh([corr.harness_bin(F_ALL), "teardown"], timeout=600)
    tl = [l for l in out.splitlines() if l.startswith("teardown ") and l != "teardown done"]
    badt = [l for l in tl if "PANICKED" in l or not l.endswith("double_drops=0") or ("stuck_flags=" in l and "stuck_flags=0 " not in l)] if "teardown done" in out else ["teardown probe crashed rc=%s" % rc]
    if rc != 0 or badt:
        rep.violation("impl-vs-property", ["# " + x for x in (badt or tl[-3:])], "thread teardown scenario failed: %s" % (badt[0] if badt else "crash rc=%s" % rc), True,
                      signature="teardown")
    return {"extra_evaluations": total + len(tl), "distinct_nontrivial": len(usable), "samples": [usable[0][1]] if usable else [], "disagreements": bad,
            "teardown_scenarios": len(tl), "static_scan_findings": findings,
            "rule": "static scan of /repo/src for non-thread-local state; %d generated programs each run on 2..16 concurrently running threads and compared with its sequential model run; 8 thread-exit scenarios" % len(usable)}


def run_C20(prop, tier, seed, rep):
    cov = layout_probe(prop, tier, seed, rep)
    ok, log = cargo_build(F_ALL)
    rc, out = sh([corr.harness_bin(F_ALL), "forward"], timeout=300)
    m = re.search(r"forward pairs=(\d+) mismatches=(\d+)", out)
    if rc != 0 or not m:
        rep.violation("impl-vs-property", ["# forward probe crashed rc=%s" % rc], "forwarding-impl probe crashed", True, signature="forward-crash")
    elif int(m.group(2)) != 0:
        mm = [l for l in out.splitlines() if l.startswith("forward-mismatch")]
        rep.violation("impl-vs-property", ["# " + x for x in mm[:20]], "Eq/Ord/PartialOrd/Hash/Debug/Display/Default on Cc<T> differ from T: %s" % mm[0], True, signature="forward")
    cov["forward_pairs"] = int(m.group(1)) if m else 0
    cov["extra_evaluations"] = cov.get("extra_evaluations", 0) + cov["forward_pairs"]
    cov["distinct_nontrivial"] = cov.get("layout_cases", 2)
    cov["samples"] = ["layout grid: sizes {0,1,3,8,24,100,4096}+8 x aligns {1,2,8,16,64,4096} + ZST x {1,8,64,4096}", "forward: i32 / f64 (NaN, +-0.0, inf) / String pairs"]
    cov["rule"] = "payload layout grid through new/clone/deref/as_ref/borrow/downgrade/upgrade/collect/try_unwrap/new_cyclic with allocator oracle; predicted offsets/sizes from Model/Layout.lean; 12 forwarded methods on all pairs of value sets"
    return cov


CUSTOM = {
    "C17": lambda p, t, s, r: simple_probe_check(p, t, s, r, run_C17),
    "C18": lambda p, t, s, r: simple_probe_check(p, t, s, r, run_C18),
    "C19": lambda p, t, s, r: simple_probe_check(p, t, s, r, run_C19),
    "C20": lambda p, t, s, r: simple_probe_check(p, t, s, r, run_C20),
}

# ------------------------------------------------------------------------------------ entry



def check(prop, tier, seed, replay=None):
    rep = Report(prop, tier, seed)
    if replay:
        return do_replay(prop, replay)
    assumptions = ["the Lean model is tied to /repo only by the correspondence check (sampled, seeded) and the regenerated constants",
                   "user Trace impls obey the crate's unsafe contract (the harness payload does)"]
    if prop in MACHINE:
        cov = check_machine(prop, tier, seed, rep)
    elif prop in CUSTOM:
        cov = CUSTOM[prop](prop, tier, seed, rep)
    else:
        print("unknown property %s" % prop)
        return 2
    write_evidence(prop, tier, seed, "proof", cov, assumptions, time.time() - rep.t0, len(rep.violations))
    return 1 if rep.violations else 0


def do_replay(prop, path):
    lines = [l.rstrip("\n") for l in open(path) if not l.startswith("#") and l.strip()]
    if not lines or not lines[0].startswith("program "):
        print("replay file holds no program (theorem-level violation): see its header")
        print(open(path).read())
        return 1
    feat = F_ALL
    for l in lines:
        if l.startswith("feat "):
            feat = dict((k, int(v)) for k, v in (x.split("=") for x in l.split()[1:]))
    cargo_build(feat)
    name = lines[0][len("program "):].strip()
    mo = corr.run_model(corr.prog_text(lines)).get(name, [])
    io = corr.run_impl([(name, lines)], feat).get(name, [])
    ops = corr.split_prog(lines)[1]
    bad = False
    for i in range(max(len(mo), len(io))):
        a = mo[i] if i < len(mo) else None
        b = io[i] if i < len(io) else None
        mark = "  "
        if a != b:
            mark = "!="
        if b and "!" in b:
            mark = "!!"
            bad = True
        print("%s op %-3d %s" % (mark, i, ops[i] if i < len(ops) else ""))
        print("     model: %s" % a)
        print("     impl : %s" % b)
    proj = corr.PROJ.get(prop, corr.proj_full)
    d = corr.compare(mo, io, proj)
    if d is not None or bad:
        print("VIOLATION property=%s replay=%s" % (prop, path))
        return 1
    return 0
