#!/bin/bash
# One-off measurement (not a registered check): which lines of /repo/src do the quick checks execute?
# Copies /verif to a scratch directory, builds the harness with `-C instrument-coverage` (nightly toolchain, llvm-tools),
# runs every quick check there and prints the per-file report and the unexecuted lines of rust-cc.
# The scratch directory is removed at the end.  Usage: tools/impl_coverage.sh [ID ...]
set -u
V=$(cd "$(dirname "$0")/.." && pwd)
S=$(mktemp -d "$HOME/covv.XXXXXX")
B=$(dirname "$(rustup +nightly which rustc)")/../lib/rustlib/x86_64-unknown-linux-gnu/bin
rsync -a --exclude 'harness/target' --exclude '.git' "$V/" "$S/"
export RUSTUP_TOOLCHAIN=nightly RUSTFLAGS="-C instrument-coverage" LLVM_PROFILE_FILE="$S/prof/h-%8m.profraw" CARGO_NET_OFFLINE=true
mkdir -p "$S/prof"
IDS=${*:-C01 C02 C03 C04 C05 C06 C07 C08 C09 C10 C11 C12 C13 C14 C15 C16 C17 C18 C19 C20}
for p in $IDS; do (cd "$S" && ./check "$p" quick >/dev/null 2>&1; echo "$p rc=$?"); done
"$B/llvm-profdata" merge -sparse "$S"/prof/*.profraw -o "$S/prof/all.profdata"
OBJS=$(find "$S/harness/target" -name cc-harness -type f | sed 's/^/-object /' | tr '\n' ' ')
"$B/llvm-cov" report $OBJS -instr-profile="$S/prof/all.profdata" 2>/dev/null | grep -E "repo/src|^Filename" | awk '{print $1, "lines", $8, "missed", $9, $10}'
"$B/llvm-cov" show $OBJS -instr-profile="$S/prof/all.profdata" -sources /repo/src 2>/dev/null \
  | awk '/^\/repo\/src/{f=$0} /^ +[0-9]+\| +0\|/{print f " " $0}' | grep -v verif_hooks | cut -c1-160
rm -rf "$S"
