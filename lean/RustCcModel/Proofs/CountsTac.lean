import RustCcModel.Proofs.CountsOps2
import RustCcModel.Proofs.CountsSimp2
/-! Automation for steps that move no pointer (`noptr`), and the stash blocks. -/
namespace RustCc
open World
variable {ex : Bool}

/-- A step that moves no pointer, changes no count and allocates nothing. -/
theorem CountsH.noptr {w w' : World} {E : List Id} (h : CountsH ex w E) (hH : w'.H = w.H) (hs : w'.stash = w.stash)
    (hst : w'.stack = w.stack) (hn : w'.next = w.next)
    (hf : ∀ u, fieldsOf (w'.heap u) = fieldsOf (w.heap u)) (hrc : ∀ u, (w'.heap u).rc = (w.heap u).rc)
    (hpc : ∀ x ∈ w'.pc, x ∈ w.pc)
    (hm : ∀ x, (w'.metas x).accessible = true → (w.metas x).accessible = true) : CountsH ex w' E :=
  h.same (fun x => refs_congr w w' x hH hs (by rw [hst]) hn (fun u _ => hf u)) hrc hn
    (fun f hf => by rw [← hst]; exact hf) (fun x hx => Or.inl (hpc x hx)) (acc_of_mono h hm)

@[simp] theorem weakDrop_pc (w : World) (r : WRef) : (w.weakDrop r).pc = w.pc := by
  unfold weakDrop; cases r with
  | dangling => rfl
  | to y => simp only; split <;> rfl
@[simp] theorem weakDrop_stash (w : World) (r : WRef) : (w.weakDrop r).stash = w.stash := by
  unfold weakDrop; cases r with
  | dangling => rfl
  | to y => simp only; split <;> rfl

theorem upd_wslots (w : World) (t : Id) (G : Obj → List (Option Id)) (u : Id) :
    fieldsOf ((w.upd t fun o => { o with wslots := G o }).heap u) = fieldsOf (w.heap u) := by
  by_cases h : u = t
  · subst h; simp [upd, fieldsOf]
  · simp [upd, Heap.set, h]
theorem upd_fieldsOf (w : World) (t : Id) (g : Obj → Obj) (u : Id) (hg : ∀ o, fieldsOf (g o) = fieldsOf o) :
    fieldsOf ((w.upd t g).heap u) = fieldsOf (w.heap u) := by
  by_cases h : u = t
  · subst h; simp [upd, hg]
  · simp [upd, Heap.set, h]
theorem upd_rc_same (w : World) (t : Id) (g : Obj → Obj) (u : Id) (hg : ∀ o, (g o).rc = o.rc) :
    ((w.upd t g).heap u).rc = (w.heap u).rc := by
  by_cases h : u = t
  · subst h; simp [upd, hg]
  · simp [upd, Heap.set, h]
theorem upd_boxLive_same (w : World) (t : Id) (g : Obj → Obj) (u : Id) (hg : ∀ o, (g o).boxLive = o.boxLive) :
    ((w.upd t g).heap u).boxLive = (w.heap u).boxLive := by
  by_cases h : u = t
  · subst h; simp [upd, hg]
  · simp [upd, Heap.set, h]

@[simp] theorem removeFromList_stash (w : World) (y : Id) : (w.removeFromList y).stash = w.stash := by unfold removeFromList; split <;> rfl
@[simp] theorem removeFromList_stack (w : World) (y : Id) : (w.removeFromList y).stack = w.stack := by unfold removeFromList; split <;> rfl
@[simp] theorem removeFromList_metas' (w : World) (y : Id) : (w.removeFromList y).metas = w.metas := removeFromList_metas w y
@[simp] theorem addToList_stash (w : World) (y : Id) : (w.addToList y).stash = w.stash := by unfold addToList; split <;> (try rfl) <;> split <;> rfl
@[simp] theorem addToList_metas' (w : World) (y : Id) : (w.addToList y).metas = w.metas := addToList_metas w y
@[simp] theorem cloneOk_stash (w : World) (y : Id) : (w.cloneOk y).stash = w.stash := by unfold cloneOk; simp [upd]
@[simp] theorem cloneOk_stack (w : World) (y : Id) : (w.cloneOk y).stack = w.stack := by unfold cloneOk; simp [upd]
@[simp] theorem cloneOk_metas (w : World) (y : Id) : (w.cloneOk y).metas = w.metas := by unfold cloneOk; simp [upd]

macro "pc_tac" : tactic => `(tactic| (
  intro x hx
  repeat (first
    | exact hx
    | (replace hx := pc_removeFromList_sub _ _ _ hx)
    | (replace hx := cloneOk_pcsub _ _ _ hx)
    | (simp only [s_emit_pc, s_push_pc, s_setH_pc, s_setW_pc, s_setK_pc, s_upd_pc, s_updMeta_pc, s_raise_pc, s_raiseLogged_pc, s_startCollect_pc, weakDrop_pc] at hx))))

theorem updMeta_acc (w : World) (y : Id) (g : Meta → Meta) (x : Id)
    (hg : ∀ m, (g m).accessible = true → m.accessible = true) :
    ((w.updMeta y g).metas x).accessible = true → (w.metas x).accessible = true := by
  by_cases hxy : x = y
  · subst hxy; simp only [World.updMeta, Metas.set, if_pos]; exact hg _
  · simp [World.updMeta, Metas.set, hxy]

macro "acc_tac" : tactic => `(tactic| (
  intro x; simp only [s_emit_metas, s_push_metas, s_setH_metas, s_setW_metas, s_setK_metas, s_upd_metas, s_raise_metas, s_raiseLogged_metas, s_startCollect_metas, removeFromList_metas', addToList_metas', cloneOk_metas]; intro hx
  repeat (first
    | exact hx
    | (replace hx := weakDrop_acc _ _ _ hx)
    | (replace hx := dropMetadata_acc _ _ _ hx)
    | (replace hx := updMeta_acc _ _ _ _ (by intro m hm; first | exact hm | cases hm) hx)
    | (simp only [s_emit_metas, s_push_metas, s_setH_metas, s_setW_metas, s_setK_metas, s_upd_metas, s_raise_metas, s_raiseLogged_metas, s_startCollect_metas, removeFromList_metas', addToList_metas', cloneOk_metas] at hx))))

macro "noptr" h:ident : tactic => `(tactic| (
  refine CountsH.toCounts0 (CountsH.noptr $h ?_ ?_ ?_ ?_ ?_ ?_ ?_ ?_)
  all_goals first
    | rfl
    | (simp; done)
    | (intro u; simp [upd_wslots, upd_rc_same, upd_boxLive_same]; done)
    | (pc_tac; done)
    | (acc_tac; done)
    | skip))

/-! ### Stash blocks -/

theorem count_replicate_self (n : Nat) (x y : Id) : (List.replicate n x).count y = if x = y then n else 0 := by
  rw [List.count_replicate]; by_cases h : x = y <;> simp [h]

theorem CountsH.incrRc {w : World} {E : List Id} (h : CountsH ex w E) (y : Id) (n : Nat) (hy : y < w.next) :
    CountsH ex (w.upd y fun o => { o with rc := o.rc + n }) (List.replicate n y ++ E) := by
  refine ⟨?_, ?_, ?_, h.frames, h.pcb, h.mfresh⟩
  · intro x
    rw [refs_upd_same w y _ x rfl, List.count_append, count_replicate_self]
    by_cases hxy : y = x
    · subst hxy
      have := h.le y
      simp; omega
    · have hxy' : ¬ x = y := fun e => hxy e.symm
      have := h.le x
      simp [upd, Heap.set, hxy', hxy]; omega
  · intro hex x
    rw [refs_upd_same w y _ x rfl, List.count_append, count_replicate_self]
    by_cases hxy : y = x
    · subst hxy
      have := h.ge hex y
      simp; omega
    · have hxy' : ¬ x = y := fun e => hxy e.symm
      have := h.ge hex x
      simp [upd, Heap.set, hxy', hxy]; omega
  · intro x hx
    have hx' : w.next ≤ x := hx
    have := h.fresh x hx'
    have hxy : ¬ y = x := fun e => by subst e; exact absurd hy (Nat.not_lt.2 hx')
    rw [refs_upd_same w y _ x rfl, List.count_append, count_replicate_self]
    simp [hxy]; omega

theorem refs_stash (w : World) (g : Id → Nat) (x : Id) : refs { w with stash := g } x + w.stash x = refs w x + g x := by
  unfold refs
  have : fieldRefs { w with stash := g } x = fieldRefs w x := rfl
  rw [this]
  show (optIds w.H).count x + g x + (held w.stack).count x + fieldRefs w x + w.stash x = _
  omega

theorem CountsH.toStash {w : World} {E : List Id} {y : Id} {n : Nat} (h : CountsH ex w (List.replicate n y ++ E)) :
    CountsH ex { w with stash := fun z => if z = y then w.stash y + n else w.stash z } E := by
  refine ⟨?_, ?_, ?_, h.frames, h.pcb, h.mfresh⟩
  · intro x
    have h1 := h.le x
    have h2 := refs_stash w (fun z => if z = y then w.stash y + n else w.stash z) x
    rw [List.count_append, count_replicate_self] at h1
    show refs _ x + E.count x ≤ (w.heap x).rc
    by_cases hxy : y = x
    · subst hxy; simp at h1 h2; omega
    · have hxy' : ¬ x = y := fun e => hxy e.symm
      simp [hxy, hxy'] at h1 h2; omega
  · intro hex x
    have h1 := h.ge hex x
    have h2 := refs_stash w (fun z => if z = y then w.stash y + n else w.stash z) x
    rw [List.count_append, count_replicate_self] at h1
    show (w.heap x).rc ≤ refs _ x + E.count x
    by_cases hxy : y = x
    · subst hxy; simp at h1 h2; omega
    · have hxy' : ¬ x = y := fun e => hxy e.symm
      simp [hxy, hxy'] at h1 h2; omega
  · intro x hx
    have hx' : w.next ≤ x := hx
    have h1 := h.fresh x hx'
    have h2 := refs_stash w (fun z => if z = y then w.stash y + n else w.stash z) x
    rw [List.count_append, count_replicate_self] at h1
    by_cases hxy : y = x
    · subst hxy; simp at h1 h2; omega
    · have hxy' : ¬ x = y := fun e => hxy e.symm
      simp [hxy, hxy'] at h1 h2; omega

theorem CountsH.fromStash {w : World} {E : List Id} (h : CountsH ex w E) (y : Id) (k : Nat) (hk : k ≤ w.stash y) :
    CountsH ex { w with stash := fun z => if z = y then w.stash y - k else w.stash z } (List.replicate k y ++ E) := by
  refine ⟨?_, ?_, ?_, h.frames, h.pcb, h.mfresh⟩
  · intro x
    have h1 := h.le x
    have h2 := refs_stash w (fun z => if z = y then w.stash y - k else w.stash z) x
    rw [List.count_append, count_replicate_self]
    show refs _ x + _ ≤ (w.heap x).rc
    by_cases hxy : y = x
    · subst hxy; simp at h2 ⊢; omega
    · have hxy' : ¬ x = y := fun e => hxy e.symm
      simp [hxy, hxy'] at h2 ⊢; omega
  · intro hex x
    have h1 := h.ge hex x
    have h2 := refs_stash w (fun z => if z = y then w.stash y - k else w.stash z) x
    rw [List.count_append, count_replicate_self]
    show (w.heap x).rc ≤ refs _ x + _
    by_cases hxy : y = x
    · subst hxy; simp at h2 ⊢; omega
    · have hxy' : ¬ x = y := fun e => hxy e.symm
      simp [hxy, hxy'] at h2 ⊢; omega
  · intro x hx
    have hx' : w.next ≤ x := hx
    have h1 := h.fresh x hx'
    have h2 := refs_stash w (fun z => if z = y then w.stash y - k else w.stash z) x
    rw [List.count_append, count_replicate_self]
    by_cases hxy : y = x
    · subst hxy; simp at h2 ⊢; omega
    · have hxy' : ¬ x = y := fun e => hxy e.symm
      simp [hxy, hxy'] at h2 ⊢; omega

end RustCc
