import RustCcModel.Proofs.WeakInv9
/-! `WeakH` through the frames that run an operation, drop weak fields, release boxes or allocate. -/
namespace RustCc
open World

variable {ex : Bool}

/-- An update of one object that keeps its weak fields, side-record flag and liveness. -/
theorem WeakH.updAt {w : World} {E : List Id} (h : WeakH ex w E) (t : Id) (F : Obj → Obj)
    (hws : (F (w.heap t)).wslots = (w.heap t).wslots) (hhm : (F (w.heap t)).hasMeta = (w.heap t).hasMeta)
    (hbl : (F (w.heap t)).boxLive = (w.heap t).boxLive) : WeakH ex (w.upd t F) E := by
  refine WeakH.neutral h rfl rfl rfl rfl rfl rfl ?_ ?_ ?_ <;> intro u <;> by_cases hu : u = t
  · subst hu; simpa using hws
  · simp [upd, Heap.set, hu]
  · subst hu; simpa using hhm
  · simp [upd, Heap.set, hu]
  · subst hu; simpa using hbl
  · simp [upd, Heap.set, hu]

theorem WeakH.putH {w : World} {E : List Id} (h : WeakH ex w E) (k : Nat) (y : Id) : WeakH ex (w.putH k y) E := by
  unfold World.putH
  split
  · wneutral h
  · wneutral h

/-- Storing a `Cleanable` (holding a `Weak` in flight) in the table; whatever was there is forgotten (a leak: not exact). -/
theorem WeakH.setK' {w : World} {E : List Id} (k : Nat) (v : Option (Id × Nat × Nat)) (h : WeakH ex w (kEntry v ++ E)) :
    WeakH false (w.setK k v) E := by
  cases Nat.lt_or_ge k w.K.length with
  | inl hk => exact (h.setK k v hk).forget (fun x => by simp [List.count_append])
  | inr hge =>
    have h1 : WeakH false w E := h.forget (fun x => by simp [List.count_append])
    refine WeakH.neutral h1 rfl rfl ?_ rfl rfl rfl (fun _ => rfl) (fun _ => rfl) (fun _ => rfl)
    show w.K.set k v = w.K
    exact List.set_eq_of_length_le hge

/-- The same, exact when the entry exists and is free. -/
theorem WeakH.setKx {w : World} {E : List Id} (k : Nat) (v : Option (Id × Nat × Nat)) (h : WeakH ex w (kEntry v ++ E))
    (hcl : ex = true → k < w.K.length ∧ w.getK k = none) : WeakH ex (w.setK k v) E := by
  cases ex with
  | false => exact WeakH.setK' k v h
  | true =>
    obtain ⟨hk, hg⟩ := hcl rfl
    have := h.setK k v hk
    rw [hg] at this
    simpa [kEntry] using this

theorem optIds_set_le (l : List (Option Id)) (i : Nat) (v : Option Id) (x : Id) :
    (optIds (l.set i v)).count x ≤ (optIds l).count x + v.toList.count x := by
  cases Nat.lt_or_ge i l.length with
  | inl hi => have := optIds_set_count l i v x hi; omega
  | inr hge => rw [List.set_eq_of_length_le hge]; omega

theorem optIds_replicate_none (n : Nat) : optIds (List.replicate n none) = [] := by
  induction n with
  | zero => rfl
  | succ n ih => simpa [optIds, List.replicate_succ] using ih

/-! ### `takeField` -/

theorem takeField_cc_w {o o' : Obj} {y : Id} (h : takeField o = (.cc y, o')) :
    o'.wslots = o.wslots ∧ o'.hasMeta = o.hasMeta ∧ o'.boxLive = o.boxLive := by
  unfold takeField at h
  split at h
  · simp only [Prod.mk.injEq, Field.cc.injEq] at h
    obtain ⟨_, rfl⟩ := h
    exact ⟨rfl, rfl, rfl⟩
  · split at h
    · simp only [Prod.mk.injEq, Field.cc.injEq] at h
      obtain ⟨_, rfl⟩ := h
      exact ⟨rfl, rfl, rfl⟩
    · split at h
      · simp at h
      · split at h
        · simp only [Prod.mk.injEq, Field.cc.injEq] at h
          obtain ⟨_, rfl⟩ := h
          exact ⟨rfl, rfl, rfl⟩
        · simp at h

theorem takeField_weak_w {o o' : Obj} {y : Id} (h : takeField o = (.weak y, o')) :
    (∀ x, (optIds o'.wslots).count x + [y].count x = (optIds o.wslots).count x) ∧ o'.hasMeta = o.hasMeta ∧ o'.boxLive = o.boxLive := by
  unfold takeField at h
  split at h
  · simp at h
  · split at h
    · simp at h
    · split at h
      · rename_i y1 s hs
        simp only [Prod.mk.injEq, Field.weak.injEq] at h
        obtain ⟨rfl, rfl⟩ := h
        exact ⟨fun x => firstSome_count _ _ _ hs x, rfl, rfl⟩
      · split at h <;> simp at h

variable (c : Cfg) (w : World)

theorem stepFrame_weakH_script (ops : List Op) (self wc : Option Id) (top : Bool) (rest : List Frame)
    (ha : AllInv c w) (h : WeakH ex w []) (hwc : wcOk w.stack) (hs : w.stack = .script ops self wc top :: rest) :
    WeakH ex (stepFrame c { w with stack := rest } (.script ops self wc top)) [] := by
  have hc := ha.counts
  have hf := ha.flags
  have hi := ha.inv
  have h0 := hi.pop hs rfl
  obtain ⟨hp, hids⟩ := hc.pop hs
  have hp' : CountsH false { w with stack := rest } [] := by cases self <;> exact hp
  have hself : ∀ s, self = some s → s < w.next := by
    intro s hs; subst hs; exact hids s (by simp [Frame.ids])
  have hw0 : WeakH ex { w with stack := rest } [] := h.pop hs
  cases ops with
  | nil => simp only [stepFrame]; exact hw0
  | cons op ops =>
    simp only [stepFrame]
    have hc1 := (CountsH.pushFrame (E := []) (.script ops self wc top) (by cases self <;> simpa [Frame.holds] using hp')
      (by cases self <;> simpa [Frame.ids] using hself)).toCounts0
    have hi1 : Inv (({ w with stack := rest } : World).push (.script ops self wc top)) :=
      h0.step (WOI.same h0.oi rfl rfl) [.script ops self wc top] (by plain_tac) rfl
    have hw1 : WeakH ex (({ w with stack := rest } : World).push (.script ops self wc top)) [] :=
      WeakH.pushFrame (.script ops self wc top) hw0
    have hwc : ∀ x, wc = some x → x ∈ cycs (({ w with stack := rest } : World).push (.script ops self wc top)).stack := by
      intro x hx
      have h1 := hwc
      rw [hs] at h1
      have h2 := h1.1 x (by simpa [Frame.wcId] using hx)
      simpa [cycs_cons, Frame.cyc] using h2
    have h2 := execOp_weakH c _ self wc op hc1 hi1 hw1 hself hwc
    split
    · exact h2
    · exact h2.ret _

theorem stepFrame_weakH_afterDropValue (x : Id) (oldDrop : Bool) (rest : List Frame)
    (h : WeakH ex w []) (hwc : wcOk w.stack) (hs : w.stack = .afterDropValue x oldDrop :: rest) :
    WeakH ex (stepFrame c { w with stack := rest } (.afterDropValue x oldDrop)) [] := by
  have hw0 : WeakH ex { w with stack := rest } [] := h.pop hs
  simp only [stepFrame]
  split
  · wneutral hw0
  · have h1 := hw0.freeStep c x
    wneutral h1

theorem stepFrame_weakH_dropFields (x : Id) (unw : Bool) (rest : List Frame)
    (ha : AllInv c w) (h : WeakH ex w []) (hwc : wcOk w.stack) (hs : w.stack = .dropFields x unw :: rest) :
    WeakH ex (stepFrame c { w with stack := rest } (.dropFields x unw)) [] := by
  have hw0 : WeakH ex { w with stack := rest } [] := h.pop hs
  obtain ⟨_, hids⟩ := ha.counts.pop hs
  have hx : x < w.next := hids x (by simp [Frame.ids])
  simp only [stepFrame]
  split
  · rename_i y o' htf
    obtain ⟨h1, h2, h3⟩ := takeField_cc_w htf
    have := hw0.updAt x (fun _ => o') h1 h2 h3
    wneutral this
  · rename_i y o' htf
    obtain ⟨h1, h2, h3⟩ := takeField_weak_w htf
    have h4 := WeakH.updWslots (w := { w with stack := rest }) (E := []) x (fun _ => o') [] [y] (by simpa using hw0) hx
      (fun z => by have := h1 z; simpa using this) h2 h3
    have h5 : WeakH ex (((World.upd { w with stack := rest } x fun _ => o').push (.dropFields x unw))) ([y] ++ []) := by wneutral h4
    exact WeakH.weakDrop h5
  · split
    · wneutral hw0
    · exact hw0

theorem WeakH.foldl_free (c : Cfg) {E : List Id} : ∀ (N : List Id) {w : World}, WeakH ex w E →
    WeakH ex (N.foldl (fun w x => (if c.weak then w.dropMetadata x else w).freeBox x) w) E
  | [], _, h => h
  | y :: r, w, h => by
    simp only [List.foldl_cons]
    exact WeakH.foldl_free c r (h.freeStep c y)

theorem stepFrame_weakH_deallocDrop (N r : List Id) (oldDrop : Bool) (rest : List Frame)
    (h : WeakH ex w []) (hwc : wcOk w.stack) (hs : w.stack = .deallocDrop N r oldDrop :: rest) :
    WeakH ex (stepFrame c { w with stack := rest } (.deallocDrop N r oldDrop)) [] := by
  have hw0 : WeakH ex { w with stack := rest } [] := h.pop hs
  cases r with
  | cons x r =>
    simp only [stepFrame]
    repeat' split
    all_goals (wneutral hw0)
  | nil =>
    simp only [stepFrame]
    split
    · wneutral hw0
    · have h1 := WeakH.foldl_free c N hw0
      wneutral h1

theorem stepFrame_weakH_newAlloc (k : Nat) (sp : NewSpec) (rest : List Frame)
    (ha : AllInv c w) (h : WeakH ex w []) (hwc : wcOk w.stack) (hs : w.stack = .newAlloc k sp :: rest) :
    WeakH ex (stepFrame c { w with stack := rest } (.newAlloc k sp)) [] := by
  have hw0 : WeakH ex { w with stack := rest } [] := h.pop hs
  have hacc := ha.counts.mfresh w.next (Nat.le_refl _)
  simp only [stepFrame]
  refine WeakH.putH ?_ k _
  exact hw0.alloc (newObj c { w with stack := rest } sp) hacc rfl rfl rfl rfl rfl rfl rfl
    (by simp [newObj, optIds_replicate_none]) rfl

theorem stepFrame_weakH_mapAlloc (owner : Id) (rest : List Frame)
    (ha : AllInv c w) (h : WeakH ex w []) (hwc : wcOk w.stack) (hs : w.stack = .mapAlloc owner :: rest) :
    WeakH ex (stepFrame c { w with stack := rest } (.mapAlloc owner)) [] := by
  have hw0 : WeakH ex { w with stack := rest } [] := h.pop hs
  have hacc := ha.counts.mfresh w.next (Nat.le_refl _)
  simp only [stepFrame]
  have h1 : WeakH ex (World.emit { ({ ({ w with stack := rest } : World) with next := w.next + 1 } : World) with heap := w.heap.set w.next ({ rc := 1, tc := c.tcInit, boxLive := true, valLive := true, kind := .map, size := c.mapSize, finalized := c.fin && w.finalizing } : Obj), allocBytes := w.allocBytes + c.mapSize } (.alloc w.next c.mapSize)) [] :=
    hw0.alloc ({ rc := 1, tc := c.tcInit, boxLive := true, valLive := true, kind := .map, size := c.mapSize, finalized := c.fin && w.finalizing } : Obj) hacc
      rfl rfl rfl rfl rfl rfl rfl (by simp [optIds]) rfl
  split
  · wneutral h1
  · wneutral h1

theorem stepFrame_weakH_newCyclicAlloc (k : Nat) (sp : NewSpec) (body : Nat) (selfw : Option Nat) (rest : List Frame)
    (h : WeakH ex w []) (hwc : wcOk w.stack) (hs : w.stack = .newCyclicAlloc k sp body selfw :: rest) :
    WeakH ex (stepFrame c { w with stack := rest } (.newCyclicAlloc k sp body selfw)) [] := by
  have hw0 : WeakH ex { w with stack := rest } [] := h.pop hs
  simp only [stepFrame]
  have h1 : WeakH ex (World.updMeta (World.emit { ({ w with stack := rest } : World) with next := w.next + 1, heap := w.heap.set w.next ({ newObj c { w with stack := rest } sp with rc := 0, valLive := false, hasMeta := true } : Obj), allocBytes := w.allocBytes + (newObj c { w with stack := rest } sp).size } (.alloc w.next (newObj c { w with stack := rest } sp).size)) w.next (fun _ => { weak := 1, accessible := true, live := true })) [w.next] :=
    hw0.allocCyc ({ newObj c { w with stack := rest } sp with rc := 0, valLive := false, hasMeta := true } : Obj)
      rfl rfl rfl rfl rfl rfl rfl (by simp [newObj, optIds_replicate_none]) rfl
  have h2 := WeakH.pushFrame (.newCyclicEnd k w.next sp selfw) (E := []) h1
  split
  · wneutral h2
  · wneutral h2

end RustCc
