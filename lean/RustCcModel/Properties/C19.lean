import RustCcModel.Model.Threads
/-! # C19 — collectors of different threads are independent

Model: the product of per-thread worlds. Theorem (non-interference): under *every* interleaving, the
state of each thread is exactly what its own steps produce in isolation — it depends on how many of
its own steps were scheduled, never on what other threads did. What this rests on — that the crate
keeps no state outside `thread_local!` and that `Cc`/`Weak` are `!Send + !Sync` — is checked on every
run by a static scan of the sources and by running independent programs on 2..16 real threads
against their sequential model runs. Partial, named: real OS threads, the TLS implementation and its
destructor order are not modelled; thread teardown is exercised dynamically only. -/
namespace RustCc.C19

/-- Steps of other threads do not touch thread `u`. -/
theorem tstep_other (c : Cfg) (ws : Worlds) (t u : Nat) (h : u ≠ t) : tstep c ws t u = ws u := by
  simp [tstep, h]

theorem tstep_same (c : Cfg) (ws : Worlds) (t : Nat) : tstep c ws t t = step c (ws t) := by
  simp [tstep]

/-- **Non-interference.** For every schedule, thread `u` ends in the state reached by running alone for as
many steps as the schedule gave it. -/
theorem independent (c : Cfg) (sched : List Nat) (ws : Worlds) (u : Nat) :
    runSched c ws sched u = stepN c (sched.count u) (ws u) := by
  induction sched generalizing ws with
  | nil => rfl
  | cons t rest ih =>
    simp only [runSched]
    rw [ih]
    by_cases h : t = u
    · subst h
      simp [List.count_cons_self, stepN, tstep_same]
    · have hne : u ≠ t := fun e => h e.symm
      rw [tstep_other c ws t u hne]
      simp [List.count_cons, h]

/-- In particular two schedules that give `u` the same number of steps leave it in the same state. -/
theorem schedule_irrelevant (c : Cfg) (s1 s2 : List Nat) (ws : Worlds) (u : Nat) (h : s1.count u = s2.count u) :
    runSched c ws s1 u = runSched c ws s2 u := by
  rw [independent, independent, h]

end RustCc.C19
