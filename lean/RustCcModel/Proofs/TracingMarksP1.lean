import RustCcModel.Proofs.TracingMarksBase
/-! What the unwinding guards need of the state in which a `trace` panicked (`PanOK`), its consequence
for the heap after unwinding, and the proof that a panic in the counting phase leaves such a state. -/
namespace RustCc
open T1

theorem memA {q r e n : List Nat} {z : Nat} :
    z ∈ q ++ r ++ e ++ n ↔ z ∈ q ∨ z ∈ r ∨ z ∈ e ∨ z ∈ n := by
  simp [List.mem_append]

/-- State `t` at the moment a panic starts to unwind `__collect`; `extra` = popped-off rest of the
root list, `rest` = objects still buffered. -/
structure PanOK (h0 : Heap) (t : TS) (extra rest : List Nat) : Prop where
  fr : Fr h0 t.h
  pc : ∀ z, (t.h z).mark = .pc ↔ z ∈ rest
  cover : ∀ z, (t.h z).mark = .pc ∨ (t.h z).mark = .non ∨ z ∈ t.queue ++ t.root ++ extra ++ t.nonroot
  disj : ∀ z ∈ rest, z ∉ t.queue ++ t.root ++ extra ++ t.nonroot

theorem PanOK_final (h0 : Heap) (t : TS) (extra rest : List Nat) (hp : PanOK h0 t extra rest) :
    (∀ x, (resetTc (unmarkAll t.h (t.queue ++ t.root ++ extra ++ t.nonroot)) rest x).mark = .pc ↔ x ∈ rest) ∧
    (∀ x, (resetTc (unmarkAll t.h (t.queue ++ t.root ++ extra ++ t.nonroot)) rest x).mark = .pc ∨
          (resetTc (unmarkAll t.h (t.queue ++ t.root ++ extra ++ t.nonroot)) rest x).mark = .non) ∧
    (∀ x ∈ rest, (resetTc (unmarkAll t.h (t.queue ++ t.root ++ extra ++ t.nonroot)) rest x).tc = 0) ∧
    (∀ x, (resetTc (unmarkAll t.h (t.queue ++ t.root ++ extra ++ t.nonroot)) rest x).rc = (h0 x).rc ∧
          (resetTc (unmarkAll t.h (t.queue ++ t.root ++ extra ++ t.nonroot)) rest x).edges = (h0 x).edges ∧
          (resetTc (unmarkAll t.h (t.queue ++ t.root ++ extra ++ t.nonroot)) rest x).uedges = (h0 x).uedges) := by
  obtain ⟨hfr, hpc, hcov, hdis⟩ := hp
  generalize t.queue ++ t.root ++ extra ++ t.nonroot = A at *
  have hmark : ∀ x, (resetTc (unmarkAll t.h A) rest x).mark = if x ∈ A then .non else (t.h x).mark := by
    intro x
    rw [resetTc_get, unmarkAll_get]
    by_cases h1 : x ∈ rest <;> by_cases h2 : x ∈ A <;> simp [h1, h2]
  have hrc : ∀ x, (resetTc (unmarkAll t.h A) rest x).rc = (t.h x).rc := by
    intro x
    rw [resetTc_get, unmarkAll_get]
    by_cases h1 : x ∈ rest <;> by_cases h2 : x ∈ A <;> simp [h1, h2]
  have hed : ∀ x, (resetTc (unmarkAll t.h A) rest x).edges = (t.h x).edges := by
    intro x
    rw [resetTc_get, unmarkAll_get]
    by_cases h1 : x ∈ rest <;> by_cases h2 : x ∈ A <;> simp [h1, h2]
  have hue : ∀ x, (resetTc (unmarkAll t.h A) rest x).uedges = (t.h x).uedges := by
    intro x
    rw [resetTc_get, unmarkAll_get]
    by_cases h1 : x ∈ rest <;> by_cases h2 : x ∈ A <;> simp [h1, h2]
  refine ⟨?_, ?_, ?_, ?_⟩
  · intro x
    rw [hmark]
    by_cases h2 : x ∈ A
    · rw [if_pos h2]
      constructor
      · intro h; cases h
      · intro h; exact absurd h2 (hdis x h)
    · rw [if_neg h2]; exact hpc x
  · intro x
    rw [hmark]
    by_cases h2 : x ∈ A
    · rw [if_pos h2]; exact Or.inr rfl
    · rw [if_neg h2]
      rcases hcov x with h | h | h
      · exact Or.inl h
      · exact Or.inr h
      · exact absurd h h2
  · intro x hx
    rw [resetTc_get, if_pos hx]
  · intro x
    rw [hrc, hed, hue]; exact hfr x

/-! ### `unmark` projections -/

theorem unmark_mark (s : TS) (x z : Nat) :
    ((unmark s x).h z).mark = if z = x then .non else (s.h z).mark := by
  unfold unmark; exact setMark_mark _ _ _ _

theorem unmark_rc (s : TS) (x z : Nat) : ((unmark s x).h z).rc = (s.h z).rc := by
  unfold unmark; exact setMark_rc _ _ _ _

theorem unmark_tc (s : TS) (x z : Nat) : ((unmark s x).h z).tc = (s.h z).tc := by
  unfold unmark; exact setMark_tc _ _ _ _

/-! ### Panic during the counting phase -/

/-- The `ResetMarkDropGuard` of the object being traced, in any state of the counting phase. -/
theorem P1_panic (h0 : Heap) (s : TS) (done : List Nat) (x : Nat) (seen rest : List Nat)
    (hinv : P1 s done (some x) seen rest) (hfr : Fr h0 s.h) : PanOK h0 (unmark s x) [] rest := by
  have hmx : (s.h x).mark = .inQueue := (hinv.mQueue x).2 (Or.inr rfl)
  refine ⟨hfr.trans (unmark_Fr s x), ?_, ?_, ?_⟩
  · intro z
    rw [unmark_mark]
    by_cases hz : z = x
    · rw [if_pos hz]
      constructor
      · intro h; cases h
      · intro h
        have := (hinv.mPc z).2 h
        rw [hz, hmx] at this; cases this
    · rw [if_neg hz]; exact hinv.mPc z
  · intro z
    rw [unmark_mark]
    by_cases hz : z = x
    · rw [if_pos hz]; exact Or.inr (Or.inl rfl)
    · rw [if_neg hz]
      cases hm : (s.h z).mark with
      | non => exact Or.inr (Or.inl rfl)
      | pc => exact Or.inl rfl
      | inList =>
        have hd := (hinv.mList z).1 hm
        by_cases hr : (s.h z).rc = (s.h z).tc
        · exact Or.inr (Or.inr (memA.2 (Or.inr (Or.inr (Or.inr ((hinv.nonroot z).2 ⟨hd, hr⟩))))))
        · exact Or.inr (Or.inr (memA.2 (Or.inr (Or.inl ((hinv.root z).2 ⟨hd, hr⟩)))))
      | inQueue =>
        rcases (hinv.mQueue z).1 hm with h | h
        · exact Or.inr (Or.inr (memA.2 (Or.inl h)))
        · injection h with h; exact absurd h.symm hz
  · intro z hz hA
    have hm := (hinv.mPc z).2 hz
    rcases memA.1 hA with h | h | h | h
    · have := (hinv.mQueue z).2 (Or.inl h)
      rw [hm] at this; cases this
    · have := (hinv.mList z).2 ((hinv.root z).1 h).1
      rw [hm] at this; cases this
    · cases h
    · have := (hinv.mList z).2 ((hinv.nonroot z).1 h).1
      rw [hm] at this; cases this

theorem take_bound (h0 : Heap) (L : Nat → Prop) (ctx : Ctx h0 L) (s : TS) (done : List Nat) (x : Nat)
    (hf : ∀ z, (s.h z).rc = (h0 z).rc ∧ (s.h z).edges = (h0 z).edges)
    (hdn : done.Nodup) (hdL : ∀ u ∈ done, L u) (hxd : x ∉ done) (hxL : L x) (j : Nat) :
    ∀ y, inCount (beginObj s x).h done y + ([] ++ (s.h x).edges.take j).count y ≤ ((beginObj s x).h y).rc := by
  intro y
  rw [inCount_congr s.h (beginObj s x).h done y (fun u => beginObj_edges s x u), beginObj_rc]
  have h1 := bound_for h0 L ctx s done x hf hdn hdL hxd hxL y
  have h3 : ((s.h x).edges.take j).count y ≤ (s.h x).edges.count y :=
    List.Sublist.count_le y (List.take_sublist j _)
  simp only [List.nil_append]; omega

theorem countPC_panic (h0 : Heap) (L : Nat → Prop) (ctx : Ctx h0 L) (s : TS) (done : List Nat) (x : Nat)
    (P : List Nat) (hx : P1x h0 L s done (x :: P)) (hxP : x ∉ P) (hxL : L x) (hfr : Fr h0 s.h) (j : Nat) :
    PanOK h0 (unmark (((s.h x).edges.take j).foldl countEdge (beginObj s x)) x) [] P := by
  have hmx : (s.h x).mark = .pc := (hx.inv.mPc x).2 (by simp)
  have hnd : x ∉ done := fun h => by have := (hx.inv.mList x).2 h; simp [hmx] at this
  have hbegin := beginObj_P1_pc s done x P hx.inv hxP
  have h2 := foldl_countEdge_P1 (beginObj s x) done x [] ((s.h x).edges.take j) P hbegin
    (take_bound h0 L ctx s done x hx.frame hx.doneNodup hx.doneL hnd hxL j)
  exact P1_panic h0 _ done x _ P h2
    (hfr.trans ((beginObj_Fr s x).trans (foldl_Fr countEdge countEdge_Fr _ _)))

theorem countQueue_panic (h0 : Heap) (L : Nat → Prop) (ctx : Ctx h0 L) (s : TS) (done : List Nat) (x : Nat)
    (q P : List Nat) (hq : s.queue = x :: q) (hx : P1x h0 L s done P) (hfr : Fr h0 s.h) (j : Nat) :
    PanOK h0 (unmark (((s.h x).edges.take j).foldl countEdge (beginObj { s with queue := q } x)) x) [] P := by
  have hmx : (s.h x).mark = .inQueue := (hx.inv.mQueue x).2 (Or.inl (by simp [hq]))
  have hnd : x ∉ done := fun h => by have := (hx.inv.mList x).2 h; simp [hmx] at this
  have hxL : L x := hx.queueL x (by simp [hq])
  have hbegin := beginObj_P1_queue s done x q P hq hx.inv
  have h2 := foldl_countEdge_P1 (beginObj { s with queue := q } x) done x [] ((s.h x).edges.take j) P hbegin
    (take_bound h0 L ctx { s with queue := q } done x hx.frame hx.doneNodup hx.doneL hnd hxL j)
  exact P1_panic h0 _ done x _ P h2
    (Fr.trans (b := s.h) hfr ((beginObj_Fr { s with queue := q } x).trans (foldl_Fr countEdge countEdge_Fr _ _)))

/-! ### The instrumented loops of the counting phase -/

theorem countPCF_true (h0 : Heap) (L : Nat → Prop) (ctx : Ctx h0 L) (user : Nat → Bool) :
    ∀ (P : List Nat) (s : FS) (done : List Nat), P1x h0 L s.ts done P → Fr h0 s.ts.h → P.Nodup →
      (∀ u ∈ P, L u) → ∀ (s' : FS) (rest : List Nat), countPCF user s P = (true, s', rest) →
      PanOK h0 s'.ts [] rest ∧ rest.Nodup ∧ ∀ z ∈ rest, z ∈ P
  | [], s, done, _, _, _, _, s', rest, h => by
    unfold countPCF at h
    injection h with h1 _
    cases h1
  | x :: P, s, done, hinv, hfr, hn, hL, s', rest, h => by
    have hxP := (List.nodup_cons.1 hn).1
    have hxL := hL x (by simp)
    unfold countPCF at h
    generalize hr : countObjF user s x = r at h
    obtain ⟨b, s1⟩ := r
    cases b
    · simp only at h
      have e := countObjF_false user s s1 x hr
      have hstep : P1x h0 L s1.ts (x :: done) P := by
        rw [e]; exact step_pc h0 L ctx s.ts done x P hinv hxP hxL
      have hfr1 : Fr h0 s1.ts.h := by rw [e]; exact hfr.trans (countObj_Fr s.ts x)
      obtain ⟨a, b, c⟩ := countPCF_true h0 L ctx user P s1 (x :: done) hstep hfr1
        (List.nodup_cons.1 hn).2 (fun u hu => hL u (List.mem_cons_of_mem _ hu)) s' rest h
      exact ⟨a, b, fun z hz => List.mem_cons_of_mem _ (c z hz)⟩
    · simp only at h
      injection h with _ h2
      injection h2 with h3 h4
      subst h3; subst h4
      obtain ⟨j, e⟩ := countObjF_true user s s1 x hr
      rw [e]
      exact ⟨countPC_panic h0 L ctx s.ts done x P hinv hxP hxL hfr j, (List.nodup_cons.1 hn).2,
        fun z hz => List.mem_cons_of_mem _ hz⟩

theorem countQueueF_true (h0 : Heap) (L : Nat → Prop) (ctx : Ctx h0 L) (user : Nat → Bool) (P : List Nat) :
    ∀ (fuel : Nat) (s : FS) (done : List Nat), P1x h0 L s.ts done P → Fr h0 s.ts.h →
      ∀ (s' : FS), countQueueF user fuel s = (true, s') → PanOK h0 s'.ts [] P
  | 0, s, done, _, _, s', h => by
    unfold countQueueF at h
    injection h with h1 _
    cases h1
  | fuel + 1, s, done, hinv, hfr, s', h => by
    unfold countQueueF at h
    cases hq : s.ts.queue with
    | nil =>
      simp only [hq] at h
      injection h with h1 _
      cases h1
    | cons x q =>
      simp only [hq] at h
      generalize hr : countObjF user { s with ts := { s.ts with queue := q } } x = r at h
      obtain ⟨b, s1⟩ := r
      cases b
      · simp only at h
        have e := countObjF_false user _ s1 x hr
        have hstep : P1x h0 L s1.ts (x :: done) P := by
          rw [e]; exact step_queue h0 L ctx s.ts done x q P hq hinv
        have hfr1 : Fr h0 s1.ts.h := by
          rw [e]; exact Fr.trans (b := s.ts.h) hfr (countObj_Fr { s.ts with queue := q } x)
        exact countQueueF_true h0 L ctx user P fuel s1 (x :: done) hstep hfr1 s' h
      · simp only at h
        injection h with _ h2
        subst h2
        obtain ⟨j, e⟩ := countObjF_true user _ s1 x hr
        rw [e]
        exact countQueue_panic h0 L ctx s.ts done x q P hq hinv hfr j

end RustCc
