import RustCcModel.T1.FinalComplete
import RustCcModel.Proofs.TracingF
import RustCcModel.Model.Machine
/-! # C02 — unreachable cycles are completely reclaimed

Per-pass completeness for every graph (T2): everything in the traced closure of the buffer that is
not reachable through traced fields from a member holding a reference that does not come from that
closure is a reclaim candidate, and the pass terminates with both work queues empty. -/
namespace RustCc.C02
open T1

/-- **T2 on the machine's heap.** -/
theorem pass_complete (w : World) (objs : List Nat) (ext : Nat → Nat)
    (hex : Exact (toT1 w) objs ext)
    (hmark : ∀ x, (((toT1 w) x).mark = .pc ↔ x ∈ w.pc) ∧ (((toT1 w) x).mark = .pc ∨ ((toT1 w) x).mark = .non))
    (htc : ∀ x ∈ w.pc, ((toT1 w) x).tc = 0) (hPn : w.pc.Nodup) (hPs : ∀ u ∈ w.pc, u ∈ objs)
    (hfuel : objs.length ≤ w.next) :
    (countQueue w.next (countPC { h := toT1 w } w.pc)).queue = [] ∧
    (tracePhases w.next (toT1 w) w.pc).queue = [] ∧
    ∃ done : List Nat, done.Nodup ∧ (∀ p ∈ w.pc, p ∈ done) ∧ (∀ u ∈ done, From (toT1 w) w.pc u) ∧
      (∀ u ∈ done, ∀ y ∈ ((toT1 w) u).edges, y ∈ done) ∧
      ∀ x ∈ done, (¬ ∃ r ∈ done, ((toT1 w) r).rc ≠ inCount (toT1 w) done r ∧ EReach (toT1 w) r x) →
        x ∈ (tracePhases w.next (toT1 w) w.pc).nonroot :=
  tracePhases_complete (toT1 w) objs ext w.pc w.next hex hmark htc hPn hPs hfuel

/-- Garbage owned only through traced fields is always a candidate: a buffered object all of whose
references come from the traced closure of the buffer, and which no such "pinned" member reaches. -/
theorem buffered_garbage_is_candidate (w : World) (objs : List Nat) (ext : Nat → Nat)
    (hex : Exact (toT1 w) objs ext)
    (hmark : ∀ x, (((toT1 w) x).mark = .pc ↔ x ∈ w.pc) ∧ (((toT1 w) x).mark = .pc ∨ ((toT1 w) x).mark = .non))
    (htc : ∀ x ∈ w.pc, ((toT1 w) x).tc = 0) (hPn : w.pc.Nodup) (hPs : ∀ u ∈ w.pc, u ∈ objs)
    (hfuel : objs.length ≤ w.next) (p : Nat) (hp : p ∈ w.pc)
    (hgarb : ∀ done : List Nat, (∀ q ∈ w.pc, q ∈ done) → (∀ u ∈ done, From (toT1 w) w.pc u) →
      ¬ ∃ r ∈ done, ((toT1 w) r).rc ≠ inCount (toT1 w) done r ∧ EReach (toT1 w) r p) :
    p ∈ (tracePhases w.next (toT1 w) w.pc).nonroot := by
  obtain ⟨_, _, done, _, hPd, hfrom, _, hall⟩ := pass_complete w objs ext hex hmark htc hPn hPs hfuel
  exact hall p (hPd p hp) (hgarb done hPd hfrom)

end RustCc.C02
