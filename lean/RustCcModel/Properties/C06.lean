import RustCcModel.T1.FinalComplete
import RustCcModel.Model.Machine
import RustCcModel.Proofs.PassBound
/-! # C06 — resurrection is safe, precise, terminates

Safety and precision after a finalization pass are C01 / C02 applied to the re-buffered state (the
machine re-runs the tracing phases on it). Own content here: the collector's loops terminate — both
work queues drain with fuel = number of objects, for every graph — and a collection runs at most
`PASS_CAP` passes whatever the finalizers do. -/
namespace RustCc.C06
open T1

/-- The counting queue drains: the fuel the machine gives (`next`, at least the number of objects) suffices. -/
theorem counting_terminates (h0 : T1.Heap) (objs : List Nat) (ext : Nat → Nat) (P : List Nat) (fuel : Nat)
    (hex : Exact h0 objs ext)
    (hmark : ∀ x, ((h0 x).mark = .pc ↔ x ∈ P) ∧ ((h0 x).mark = .pc ∨ (h0 x).mark = .non))
    (htc : ∀ x ∈ P, (h0 x).tc = 0) (hPn : P.Nodup) (hPs : ∀ u ∈ P, u ∈ objs) (hfuel : objs.length ≤ fuel) :
    (countQueue fuel (countPC { h := h0 } P)).queue = [] ∧ (tracePhases fuel h0 P).queue = [] := by
  obtain ⟨h1, h2, _⟩ := tracePhases_complete h0 objs ext P fuel hex hmark htc hPn hPs hfuel
  exact ⟨h1, h2⟩

/-- The pass counter of `collect`: the `collectLoop` frame stops as soon as `n` reaches the cap,
whatever happened in the passes (finalizers that keep releasing or creating objects included). -/
theorem collectLoop_stops_at_cap (c : Cfg) (w : World) (n : Nat) (oldFin oldDrop : Bool)
    (hfin : c.fin = true) (hn : c.passCap ≤ n) :
    stepFrame c w (.collectLoop n oldFin oldDrop) =
      { w with collecting := false, finalizing := oldFin, dropping := oldDrop } := by
  simp [stepFrame, hfin, hn]

/-- Each iteration pushes the loop frame with `n + 1`: at most `passCap` passes per collection. -/
theorem collectLoop_counts (c : Cfg) (w : World) (n : Nat) (oldFin oldDrop : Bool)
    (hfin : c.fin = true) (hn : n < c.passCap) (hpc : w.pc ≠ []) :
    stepFrame c w (.collectLoop n oldFin oldDrop) =
      (w.push (.collectLoop (n + 1) oldFin oldDrop)).push .collectPass := by
  have : ¬ c.passCap ≤ n := by omega
  cases hq : w.pc with
  | nil => exact absurd hq hpc
  | cons a l => simp [stepFrame, hfin, this, hq]

/-- Without the `finalization` feature a collection is a single pass. -/
theorem collectLoop_single_pass (c : Cfg) (w : World) (n : Nat) (oldFin oldDrop : Bool)
    (hfin : c.fin = false) (hn : 1 ≤ n) :
    stepFrame c w (.collectLoop n oldFin oldDrop) =
      { w with collecting := false, finalizing := oldFin, dropping := oldDrop } := by
  simp [stepFrame, hfin, hn]

/-- **A collection cannot run forever on account of its finalizers**: in every reachable world every active `collect` has
started at most `passCap` tracing passes (one without the `finalization` feature); each pass terminates
(`counting_terminates`, both queues drain with fuel = number of objects). -/
theorem passes_bounded (c : Cfg) (nH nW nK : Nat) (w : World) (h : Reachable c nH nW nK w) (n : Nat) (oF oD : Bool)
    (hm : Frame.collectLoop n oF oD ∈ w.stack) : n ≤ (if c.fin then c.passCap else 1) :=
  reachable_pbOk h n oF oD hm

end RustCc.C06
