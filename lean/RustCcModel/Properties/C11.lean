import RustCcModel.Proofs.CtlSimp
import RustCcModel.Proofs.ExecsCount
import RustCcModel.Proofs.BytesInv
import RustCcModel.Proofs.ListsRefine
/-! # C11 — introspection counters match reality

How each helper moves the three counters (`allocated_bytes`, `executions_count`, the buffer size), and
preservation of the buffer invariant I2 (`mark = PossibleCycles ↔ member`, no duplicates) by the two
functions every API call goes through, `add_to_list` and `remove_from_list`. -/
namespace RustCc.C11
open World

/-- Buffer invariant I2 (model level). -/
def BufOk (w : World) : Prop := w.pc.Nodup ∧ ∀ x, (w.heap x).mark = .pc ↔ x ∈ w.pc

/-- `add_to_list` preserves I2 and makes the object a member; the size grows by one iff it was not one. -/
theorem addToList_bufOk (w : World) (x : Id) (h : BufOk w) (hs : (w.addToList x).mode ≠ .stuck) :
    BufOk (w.addToList x) ∧ x ∈ (w.addToList x).pc ∧
    (w.addToList x).pc.length = (if x ∈ w.pc then w.pc.length else w.pc.length + 1) := by
  obtain ⟨hn, hm⟩ := h
  unfold addToList at hs ⊢
  by_cases h1 : (w.heap x).mark = .pc
  · have hx := (hm x).1 h1
    simp [h1, hx, BufOk, hn]; exact hm
  · have hx : x ∉ w.pc := fun hx => h1 ((hm x).2 hx)
    rw [if_neg h1] at hs ⊢
    by_cases h2 : (w.heap x).mark ≠ .non ∨ (w.heap x).dropped = true
    · rw [if_pos h2] at hs; simp at hs
    · rw [if_neg h2]
      refine ⟨⟨?_, ?_⟩, by simp, by simp [hx]⟩ <;> skip
      · simp [List.nodup_cons, hx, hn]
      · intro y
        by_cases hy : y = x
        · subst hy; simp [upd]
        · simp [upd, Heap.set, hy, hm y]

/-- `remove_from_list` preserves I2 and removes the object; the size shrinks by one iff it was a member. -/
theorem removeFromList_bufOk (w : World) (x : Id) (h : BufOk w) :
    BufOk (w.removeFromList x) ∧ x ∉ (w.removeFromList x).pc ∧
    (w.removeFromList x).pc.length = (if x ∈ w.pc then w.pc.length - 1 else w.pc.length) := by
  obtain ⟨hn, hm⟩ := h
  unfold removeFromList
  by_cases h1 : (w.heap x).mark = .pc
  · have hx := (hm x).1 h1
    rw [if_pos h1]
    refine ⟨⟨?_, ?_⟩, ?_, ?_⟩
    · exact hn.erase x
    · intro y
      by_cases hy : y = x
      · subst hy; simp [upd]; exact List.Nodup.not_mem_erase hn
      · simp [upd, Heap.set, hy, hm y]
    · exact List.Nodup.not_mem_erase hn
    · simp [hx, List.length_erase_of_mem hx]
  · have hx : x ∉ w.pc := fun hx => h1 ((hm x).2 hx)
    rw [if_neg h1]
    exact ⟨⟨hn, hm⟩, hx, by simp [hx]⟩

/-- The enter/leave rules: cloning (and upgrading, which clones) takes the object out of the buffer. -/
theorem clone_leaves_buffer (w : World) (x : Id) (h : BufOk w) : x ∉ (w.cloneOk x).pc := by
  unfold cloneOk
  have h' : BufOk (w.upd x fun o => { o with rc := o.rc + 1 }) := by
    obtain ⟨hn, hm⟩ := h
    refine ⟨hn, fun y => ?_⟩
    by_cases hy : y = x
    · subst hy; simp [upd, hm]
    · simp [upd, Heap.set, hy, hm y]
  exact (removeFromList_bufOk _ x h').2.1

/-- `allocated_bytes`: allocation adds the size of the box, release subtracts it. -/
theorem bytes_alloc (c : Cfg) (w : World) (k : Nat) (sp : NewSpec) :
    (stepFrame c w (.newAlloc k sp)).allocBytes = w.allocBytes + c.nodeSize := by
  simp only [stepFrame, putH]
  split <;> simp [setH, emit, push, newObj]

theorem bytes_free (w : World) (x : Id) : (w.freeBox x).allocBytes = w.allocBytes - (w.heap x).size := rfl

/-- `executions_count`: exactly one more per collection started. -/
theorem execs_count (w : World) : (w.startCollect).execs = w.execs + 1 := by
  simp [startCollect, push, emit]


/-! ## Every reachable world (`Proofs/InvReach.lean`, `Proofs/BytesInv.lean`) -/

/-- **`allocated_bytes()` is exact**: in every reachable world the counter equals the total size of the boxes that
exist (allocated and not yet released). -/
theorem allocated_bytes_exact (c : Cfg) (nH nW nK : Nat) (w : World) (h : Reachable c nH nW nK w) :
    w.allocBytes = liveBytes w :=
  reachable_bytes c nH nW nK w h

/-- **The buffer invariant holds in every reachable world**: `buffered_objects_count()` (the length of the buffer) counts
distinct objects, exactly those marked as buffered, all of them existing boxes whose tracing counter is reset. -/
theorem buffer_exact (c : Cfg) (nH nW nK : Nat) (w : World) (h : Reachable c nH nW nK w) :
    BufOk w ∧ ∀ x ∈ w.pc, (w.heap x).boxLive = true ∧ (w.heap x).tc = 0 := by
  have hi := (reachable_all c nH nW nK w h).inv
  refine ⟨⟨hi.oi.pcNodup, hi.oi.mPc⟩, ?_⟩
  intro x hx
  refine ⟨?_, hi.oi.tc0 x hx⟩
  apply OI.boxLive_of_mark hi.oi (x := x)
  rw [(hi.oi.mPc x).2 hx]; simp

/-- **`executions_count()` increases by exactly one for every collection actually started**: in every micro-step of the
machine — running or unwinding, whatever the world — the counter grows by the number of `collect` events (one per
`collect()` that got past its "already collecting" check) the step emits. -/
theorem executions_count_exact (c : Cfg) (w : World) : (step c w).execs = w.execs + cEv (newEvents w (step c w)) :=
  step_execs c w

/-! ## The buffer at pointer level (`Model/Lists.lean`, `Proofs/ListsRefine.lean`)

The machine above keeps the buffer as a `List`. `src/lists.rs` keeps it as an intrusive doubly linked list threaded through
the boxes, with a cached size, next to the collector's `LinkedList`s and its `LinkedQueue`, all sharing the same two link
fields of each box. The pointer-level model of that file refines the plain lists: -/
open Lists in
/-- **The cached size of the buffer is the number of boxes its iterator yields**, after any sequence of list operations
(`add`, `remove`, `remove_first`, `mark_self_and_append`, `swap_list`, drops, and the same on the collector's other
lists), the iterator yields exactly the specification's list, without duplicates, and the buffer is empty iff `first` is
`None`. -/
theorem buffer_size_is_length (n : Nat) (ops : List LOp) :
    let w := ops.foldl LW.step { n := n }
    let a := ops.foldl (AW.step n) {}
    w.members w.pc.first = a.p ∧ w.pc.size = (w.members w.pc.first).length ∧ (w.members w.pc.first).Nodup ∧
    (w.pc.first = none ↔ a.p = []) := by
  intro w a
  have h := (run_refines n ops).1
  refine ⟨h.members_p, by rw [h.members_p]; exact h.size, by rw [h.members_p]; exact h.p.nodup, ?_⟩
  rw [h.p.first_eq]
  cases a.p <;> simp

open Lists in
/-- **A box is linked into at most one of the collector's structures, and an unlinked box has no dangling link**: after any
sequence of operations the four structures are pairwise disjoint and every box that is in none of them has
`next = prev = None` (what `debug_assert_nones` checks before every `add`). -/
theorem lists_disjoint_and_clean (n : Nat) (ops : List LOp) (x : Nat) :
    let w := ops.foldl LW.step { n := n }
    ((w.members w.l0).count x + (w.members w.l1).count x + (w.members w.pc.first).count x + (w.members w.q.first).count x ≤ 1) ∧
    (x ∉ w.members w.l0 → x ∉ w.members w.l1 → x ∉ w.members w.pc.first → x ∉ w.members w.q.first →
      (w.mem x).next = none ∧ (w.mem x).prev = none) := by
  intro w
  have h := (run_refines n ops).1
  have e0 : w.members w.l0 = _ := h.members_l false
  have e1 : w.members w.l1 = _ := h.members_l true
  rw [e0, e1, h.members_p, h.members_q]
  refine ⟨h.cnt x, fun h0 h1 h2 h3 => h.free x ?_⟩
  simp only [AW.cnt, AW.getL] at *
  simp only [Bool.false_eq_true, if_false, if_true] at h0 h1
  rw [List.count_eq_zero.2 h0, List.count_eq_zero.2 h1, List.count_eq_zero.2 h2, List.count_eq_zero.2 h3]

open Lists in
/-- **Re-buffering the non-root list after finalizers ran** (`collect`: `swap_list` then `mark_self_and_append
(Mark::PossibleCycles, …)`) puts the list in front of what was buffered meanwhile, marks its members `PossibleCycles` with
the tracing counter reset, empties the list and keeps the cached size exact — exactly the step `pc := N ++ pc` of the
machine's `finalizePass`. -/
theorem rebuffer_is_append {w : LW} {a : AW} (h : R w a) (i : Bool) :
    let w2 := (w.step (.pcSwap i)).step (.pcAppend i 1)
    let a2 := (a.step w.n (.pcSwap i)).step w.n (.pcAppend i 1)
    R w2 a2 ∧ a2.p = a.getL i ++ a.p ∧ a2.getL i = [] ∧ w2.pc.size = (a.getL i).length + a.p.length ∧
    (∀ x ∈ a.getL i, (w2.mem x).mark = 1 ∧ (w2.mem x).tc = 0) ∧
    (∀ x, x ∉ a.getL i → (w2.mem x).mark = (w.mem x).mark ∧ (w2.mem x).tc = (w.mem x).tc) := by
  intro w2 a2
  have h1 := step_refines h (.pcSwap i)
  have h2 := step_refines h1 (.pcAppend i 1)
  rw [step_n] at h2
  have hp : a2.p = a.getL i ++ a.p := by
    simp only [a2, AW.step, AW.stepC]
    cases i <;> simp [AW.getL, AW.setL]
  have hl : a2.getL i = [] := by
    simp only [a2, AW.step, AW.stepC]
    cases i <;> simp [AW.getL, AW.setL]
  have hm : ∀ x, a2.mark x = (if x ∈ a.getL i then 1 else a.mark x) ∧ a2.tc x = (if x ∈ a.getL i then 0 else a.tc x) := by
    intro x
    simp only [a2, AW.step, AW.stepC]
    cases i <;> simp [AW.getL, AW.setL, setOn]
  refine ⟨h2, hp, hl, ?_, ?_, ?_⟩
  · rw [h2.size, hp, List.length_append]
  · intro x hx
    rw [h2.mark x, h2.tc x, (hm x).1, (hm x).2]
    simp [hx]
  · intro x hx
    rw [h2.mark x, h2.tc x, (hm x).1, (hm x).2, h.mark x, h.tc x]
    simp [hx]

open Lists in
/-- Non-vacuity: a run that buffers three boxes, removes the middle one and appends a list of two. -/
example : (([LOp.pcAdd 0, .pcAdd 1, .pcAdd 2, .pcRemove 1, .llAdd false 3, .llAdd false 4, .pcAppend false 2].foldl
    (AW.step 5) {}).p = [2, 0, 4, 3]) := by decide

end RustCc.C11
