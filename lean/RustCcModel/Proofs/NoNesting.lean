import RustCcModel.Proofs.InvReach
/-! **Collections never nest**: at most one `collect` frame is on the stack, and `collecting` is set exactly when there is one. -/
namespace RustCc
open World

def loops (st : List Frame) : Nat := (st.filter Frame.isLoop).length

theorem loops_cons (g : Frame) (st : List Frame) : loops (g :: st) = (if g.isLoop then 1 else 0) + loops st := by
  unfold loops; simp only [List.filter_cons]; split <;> simp <;> omega

theorem expected_loops : ∀ (st : List Frame) (fl : Flags), expected st = some fl → loops st = (if fl.1 then 1 else 0) := by
  intro st
  induction st with
  | nil => intro fl h; simp [expected] at h; subst h; rfl
  | cons g rest ih =>
    intro fl he
    simp only [expected] at he
    cases hr : expected rest with
    | none => rw [hr] at he; cases he
    | some b =>
      rw [hr] at he
      have he' : g.flags b = some fl := he
      have hi := ih b hr
      obtain ⟨b1, b2, b3⟩ := b
      obtain ⟨f1, f2, f3⟩ := fl
      rw [loops_cons, hi]
      cases g <;> simp only [Frame.flags] at he' <;> (try split at he') <;> simp_all [Frame.isLoop]

/-- **A collection never starts while another is in progress**: in every reachable world at most one `collect` is active,
and `collecting` tells whether one is. -/
theorem reachable_no_nesting {c : Cfg} {nH nW nK : Nat} {w : World} (h : Reachable c nH nW nK w) :
    loops w.stack = (if w.collecting then 1 else 0) := by
  have hf := (reachable_all c nH nW nK w h).flags
  unfold FlagsOk at hf
  exact expected_loops w.stack w.flags hf

end RustCc
