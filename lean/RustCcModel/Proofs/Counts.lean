import RustCcModel.Proofs.CtlSimp
/-! **I1 (lower half): the strong count is never below the number of pointers that exist.**

`refs w x` counts every `Cc` to `x` the machine knows about: table entries, stashed clones, pointers
held by frames (a `Cc` being dropped, a captured pointer of a running action, …) and pointer-typed
fields of *all* objects (traced, untraced, the cleaner's map pointer, captured pointers of registered
actions). Invariant `Counts`: for every identity `refs w x ≤ rc x` (a freed box has count 0: nothing points to it); nothing refers to
identities not yet allocated; identities mentioned by frames are allocated. -/
namespace RustCc
open World

def optIds (l : List (Option Id)) : List Id := l.filterMap id

def actIds (a : Option Action) : List Id :=
  match a with
  | some a => a.cap.toList
  | none => []

/-- Every `Cc` stored in a field of the object. -/
def fieldsOf (o : Obj) : List Id :=
  optIds o.slots ++ optIds o.uslots ++ o.cmap.toList ++ o.aslots.flatMap actIds

/-- Pointers held by a frame (temporaries of the Rust code the frame stands for). -/
def Frame.holds : Frame → List Id
  | .dropCc x => [x]
  | .dropCcAfterFin x _ => [x]
  | .dropMany x n => List.replicate n x
  | .actionEnd (some y) _ => [y]
  | .regInsert _ _ _ (some y) => [y]
  | .cleanEnd m _ _ => [m]
  | _ => []

def held (st : List Frame) : List Id := st.flatMap Frame.holds

def fieldRefs (w : World) (x : Id) : Nat :=
  ((List.range w.next).map fun u => (fieldsOf (w.heap u)).count x).sum

def refs (w : World) (x : Id) : Nat :=
  (optIds w.H).count x + w.stash x + (held w.stack).count x + fieldRefs w x

/-- Identities a frame operates on without holding a pointer to them. -/
def Frame.ids : Frame → List Id
  | .script _ (some s) _ _ => [s]
  | .dropValue x => [x]
  | .dropFields x _ => [x]
  | .dropMoved x => [x]
  | .dropActions m _ _ => [m]
  | .callFin x => [x]
  | .afterDropValue x _ => [x]
  | .finalizePass N r _ _ => N ++ r
  | .deallocDrop N r _ => N ++ r
  | .newCyclicEnd _ id _ _ => [id]
  | .mapAlloc owner => [owner]
  | .regInsert owner _ _ _ => [owner]
  | _ => []

/-- `ex = true`: the exact form (no leak so far): counts are also not *above* the existing pointers. -/
structure CountsG (ex : Bool) (w : World) : Prop where
  le : ∀ x, refs w x ≤ (w.heap x).rc
  ge : ex = true → ∀ x, (w.heap x).rc ≤ refs w x
  fresh : ∀ x, w.next ≤ x → refs w x = 0
  frames : ∀ f ∈ w.stack, ∀ i ∈ f.ids, i < w.next
  pcb : ∀ x ∈ w.pc, x < w.next
  mfresh : ∀ x, w.next ≤ x → (w.metas x).accessible = false

/-- The invariant for every history (a caught panic may leak: `≤` only). -/
abbrev Counts (w : World) : Prop := CountsG false w

/-! ### Sums over the allocated range with one object changed -/

theorem sum_range_update (f g : Nat → Nat) (n t : Nat) (ht : t < n) (h : ∀ u, u ≠ t → f u = g u) :
    ((List.range n).map f).sum + g t = ((List.range n).map g).sum + f t := by
  induction n with
  | zero => omega
  | succ n ih =>
    simp only [List.range_succ, List.map_append, List.sum_append, List.map_cons, List.map_nil, List.sum_cons, List.sum_nil]
    by_cases hn : t = n
    · subst hn
      have : ((List.range t).map f) = ((List.range t).map g) := by
        apply List.map_congr_left
        intro u hu
        have : u < t := List.mem_range.1 hu
        exact h u (by omega)
      rw [this]; omega
    · have := ih (by omega)
      have hfg : f n = g n := h n (fun e => hn e.symm)
      omega

theorem sum_range_congr (f g : Nat → Nat) (n : Nat) (h : ∀ u, u < n → f u = g u) :
    ((List.range n).map f).sum = ((List.range n).map g).sum := by
  congr 1
  apply List.map_congr_left
  intro u hu
  exact h u (List.mem_range.1 hu)

/-- Changing one allocated object changes `fieldRefs` by the difference of its fields. -/
theorem fieldRefs_upd (w : World) (t : Id) (F : Obj → Obj) (x : Id) (ht : t < w.next) :
    fieldRefs (w.upd t F) x + (fieldsOf (w.heap t)).count x = fieldRefs w x + (fieldsOf (F (w.heap t))).count x := by
  unfold fieldRefs
  have := sum_range_update (fun u => (fieldsOf ((w.upd t F).heap u)).count x) (fun u => (fieldsOf (w.heap u)).count x) w.next t ht
    (by intro u hu; simp [upd, Heap.set, hu])
  simp only [upd_heap_same] at this
  simpa [upd] using this

/-- … and not at all if the object's fields are unchanged. -/
theorem fieldRefs_upd_same (w : World) (t : Id) (F : Obj → Obj) (x : Id)
    (hF : fieldsOf (F (w.heap t)) = fieldsOf (w.heap t)) : fieldRefs (w.upd t F) x = fieldRefs w x := by
  unfold fieldRefs
  apply sum_range_congr
  intro u _
  by_cases hu : u = t
  · subst hu; simp [hF]
  · simp [upd, Heap.set, hu]

theorem fieldRefs_congr (w w' : World) (x : Id) (hn : w'.next = w.next)
    (hh : ∀ u, u < w.next → fieldsOf (w'.heap u) = fieldsOf (w.heap u)) : fieldRefs w' x = fieldRefs w x := by
  unfold fieldRefs
  rw [hn]
  apply sum_range_congr
  intro u hu
  rw [hh u hu]

/-- `refs` only depends on tables, stash, the held pointers and the fields. -/
theorem refs_congr (w w' : World) (x : Id) (hH : w'.H = w.H) (hs : w'.stash = w.stash)
    (hst : held w'.stack = held w.stack) (hn : w'.next = w.next)
    (hh : ∀ u, u < w.next → fieldsOf (w'.heap u) = fieldsOf (w.heap u)) : refs w' x = refs w x := by
  unfold refs
  rw [hH, hs, hst, fieldRefs_congr w w' x hn hh]

/-! ### Counting in option lists -/

theorem optIds_set_count (l : List (Option Id)) (i : Nat) (v : Option Id) (x : Id) (hi : i < l.length) :
    (optIds (l.set i v)).count x + (l[i]?.getD none).toList.count x = (optIds l).count x + v.toList.count x := by
  induction l generalizing i with
  | nil => simp at hi
  | cons a r ih =>
    cases i with
    | zero =>
      simp only [List.set_cons_zero, optIds, List.getElem?_cons_zero, Option.getD_some]
      cases a <;> cases v <;> simp [List.filterMap_cons, List.count_cons] <;> omega
    | succ i =>
      have := ih i (by simpa using hi)
      simp only [List.set_cons_succ, List.getElem?_cons_succ]
      cases a with
      | none => simpa [optIds, List.filterMap_cons] using this
      | some y =>
        simp only [optIds, List.filterMap_cons, id, List.count_cons] at this ⊢
        omega

theorem mem_optIds {l : List (Option Id)} {x : Id} : x ∈ optIds l ↔ some x ∈ l := by
  unfold optIds; simp [List.mem_filterMap]

theorem getD_mem_optIds {l : List (Option Id)} {i : Nat} {x : Id} (h : l.getD i none = some x) : x ∈ optIds l := by
  rw [mem_optIds]
  rw [List.getD_eq_getElem?_getD] at h
  cases hl : l[i]? with
  | none => simp [hl] at h
  | some v =>
    simp [hl] at h
    subst h
    exact List.mem_of_getElem? hl

theorem count_pos_of_mem {l : List Id} {x : Id} (h : x ∈ l) : 0 < l.count x := List.count_pos_iff.2 h

end RustCc

namespace RustCc
open World

/-! ### `refs` through the primitive world transformers -/

theorem held_cons (f : Frame) (st : List Frame) : held (f :: st) = f.holds ++ held st := by
  simp [held]

@[simp] theorem refs_push (w : World) (f : Frame) (x : Id) : refs (w.push f) x = refs w x + f.holds.count x := by
  unfold refs
  simp only [push_stack, held_cons, List.count_append]
  have : fieldRefs (w.push f) x = fieldRefs w x := rfl
  have h2 : (w.push f).H = w.H := rfl
  have h3 : (w.push f).stash = w.stash := rfl
  rw [this, h2, h3]; omega

@[simp] theorem refs_emit (w : World) (e : Event) (x : Id) : refs (w.emit e) x = refs w x := rfl
@[simp] theorem refs_updMeta (w : World) (y : Id) (F) (x : Id) : refs (w.updMeta y F) x = refs w x := rfl
@[simp] theorem refs_setW (w : World) (k v) (x : Id) : refs (w.setW k v) x = refs w x := rfl
@[simp] theorem refs_setK (w : World) (k v) (x : Id) : refs (w.setK k v) x = refs w x := rfl

/-- Replacing a table entry. -/
theorem refs_setH (w : World) (k : Nat) (v : Option Id) (x : Id) (hk : k < w.H.length) :
    refs (w.setH k v) x + ((w.getH k).toList).count x = refs w x + v.toList.count x := by
  unfold refs setH getH
  have h := optIds_set_count w.H k v x hk
  have hf : fieldRefs { w with H := w.H.set k v } x = fieldRefs w x := rfl
  simp only [hf]
  rw [List.getD_eq_getElem?_getD]
  omega

theorem refs_upd_same (w : World) (t : Id) (F : Obj → Obj) (x : Id)
    (hF : fieldsOf (F (w.heap t)) = fieldsOf (w.heap t)) : refs (w.upd t F) x = refs w x := by
  unfold refs
  rw [fieldRefs_upd_same w t F x hF]
  rfl

theorem refs_upd (w : World) (t : Id) (F : Obj → Obj) (x : Id) (ht : t < w.next) :
    refs (w.upd t F) x + (fieldsOf (w.heap t)).count x = refs w x + (fieldsOf (F (w.heap t))).count x := by
  unfold refs
  have := fieldRefs_upd w t F x ht
  have h1 : (w.upd t F).H = w.H := rfl
  have h2 : (w.upd t F).stash = w.stash := rfl
  have h3 : (w.upd t F).stack = w.stack := rfl
  rw [h1, h2, h3]; omega

/-- One object's fields are part of the total. -/
theorem le_sum_of_mem (g : Nat → Nat) : ∀ (l : List Nat) (s : Nat), s ∈ l → g s ≤ (l.map g).sum
  | [], _, h => by cases h
  | a :: r, s, h => by
    simp only [List.map_cons, List.sum_cons]
    rcases List.mem_cons.1 h with h | h
    · subst h; omega
    · have := le_sum_of_mem g r s h; omega

theorem count_le_fieldRefs (w : World) (s x : Id) (hs : s < w.next) : (fieldsOf (w.heap s)).count x ≤ fieldRefs w x := by
  unfold fieldRefs
  exact le_sum_of_mem (fun u => (fieldsOf (w.heap u)).count x) _ s (List.mem_range.2 hs)

/-! ### Helpers that do not touch pointers -/

theorem removeFromList_refs (w : World) (y x : Id) : refs (w.removeFromList y) x = refs w x := by
  unfold removeFromList
  split
  · have : refs { (w.upd y fun o => { o with mark := .non }) with pc := w.pc.erase y } x = refs (w.upd y fun o => { o with mark := .non }) x := rfl
    rw [this]; exact refs_upd_same w y _ x rfl
  · rfl

theorem addToList_refs (w : World) (y x : Id) : refs (w.addToList y) x = refs w x := by
  unfold addToList
  split
  · rfl
  · split
    · rfl
    · have : refs { (w.upd y fun o => { o with tc := 0, mark := .pc }) with pc := y :: w.pc } x = refs (w.upd y fun o => { o with tc := 0, mark := .pc }) x := rfl
      rw [this]; exact refs_upd_same w y _ x rfl

theorem dropMetadata_refs (w : World) (y x : Id) : refs (w.dropMetadata y) x = refs w x := by
  unfold dropMetadata; split
  · split <;> rfl
  · rfl

theorem freeBox_refs (w : World) (y x : Id) : refs (w.freeBox y) x = refs w x := by
  unfold freeBox
  have : refs (({ (w.upd y fun o => { o with boxLive := false, rc := 0, tc := 0, mark := .non }) with allocBytes := w.allocBytes - (w.heap y).size }).emit (.free y)) x
      = refs (w.upd y fun o => { o with boxLive := false, rc := 0, tc := 0, mark := .non }) x := rfl
  rw [this]; exact refs_upd_same w y _ x rfl

theorem weakDrop_refs (w : World) (r : WRef) (x : Id) : refs (w.weakDrop r) x = refs w x := by
  unfold weakDrop
  cases r with
  | dangling => rfl
  | to y => simp only; split <;> rfl

theorem initMeta_refs (w : World) (y x : Id) : refs (w.initMeta y) x = refs w x := by
  unfold initMeta; split
  · rfl
  · have : refs ((w.upd y fun o => { o with hasMeta := true }).updMeta y fun _ => { weak := 0, accessible := true, live := true }) x
        = refs (w.upd y fun o => { o with hasMeta := true }) x := rfl
    rw [this]; exact refs_upd_same w y _ x rfl

theorem cloneOk_refs (w : World) (y x : Id) : refs (w.cloneOk y) x = refs w x := by
  unfold cloneOk
  rw [removeFromList_refs]
  exact refs_upd_same w y _ x rfl

end RustCc
