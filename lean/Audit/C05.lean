import RustCcModel.Properties.C05
#print axioms RustCc.C05.finalizePass_finalizes_once
#print axioms RustCc.C05.finalizePass_skips_finalized
#print axioms RustCc.C05.finalizePass_rebuffers
#print axioms RustCc.C05.finalizePass_deallocates_when_quiet
#print axioms RustCc.C05.created_while_finalizing
#print axioms RustCc.C05.no_feature_no_finalizer_rc
#print axioms RustCc.C05.finalize_only_alive
#print axioms RustCc.C05.no_finalize_after_drop
#print axioms RustCc.C05.dropCc_sets_flag_before_call
#print axioms RustCc.C05.finalize_at_most_once_unless_rearmed
#print axioms RustCc.C05.finalize_at_most_once
#print axioms RustCc.C05.only_finalize_again_rearms
#print axioms RustCc.C05.finalizers_before_destructors
#print axioms RustCc.C05.never_finalized_without_feature
