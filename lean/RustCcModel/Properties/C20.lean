import RustCcModel.Model.Layout
/-! # C20 — `Cc` is a transparent, stable, correctly aligned pointer to its value

Arithmetic part, for all sizes and alignments: the payload offset is a multiple of the payload's
alignment, so a box allocated at an address aligned for the box places the payload at an address
aligned for `T`; the payload fits in the box; the address is a function of the box alone. The
forwarding impls (`Eq`, `Ord`, `Hash`, `Debug`, `Display`, `Default`) are one-line delegations —
true by unfolding — so for them the substance is the tie: `check C20` compares all of them with the
payload's on value sets including NaN / ±0.0 / equal-but-distinct allocations, over a grid of payload
sizes and alignments (ZST and 4096-aligned included). -/
namespace RustCc.C20
open Layout

theorem roundUp_ge (n a : Nat) (ha : 0 < a) : n ≤ roundUp n a := by
  unfold roundUp
  have h := Nat.div_add_mod (n + a - 1) a
  have hm := Nat.mod_lt (n + a - 1) ha
  have : a * ((n + a - 1) / a) = (n + a - 1) / a * a := Nat.mul_comm _ _
  omega

theorem roundUp_dvd (n a : Nat) : a ∣ roundUp n a := ⟨(n + a - 1) / a, Nat.mul_comm _ _⟩

/-- The payload address `base + offset` is aligned for `T` whenever the box address is aligned for the box
(alignments are powers of two, so the box alignment `max hdrAlign align` is a multiple of `align`). -/
theorem payload_aligned (base hdrEnd hdrAlign align : Nat) (hdiv : align ∣ boxAlign hdrAlign align)
    (hb : boxAlign hdrAlign align ∣ base) : align ∣ base + offset hdrEnd align := by
  have h1 : align ∣ base := Nat.dvd_trans hdiv hb
  exact Nat.dvd_add h1 (roundUp_dvd hdrEnd align)

/-- For power-of-two alignments `align ∣ max hdrAlign align`. -/
theorem pow2_dvd_max (a b : Nat) : 2 ^ b ∣ max (2 ^ a) (2 ^ b) := by
  by_cases h : a ≤ b
  · have : 2 ^ a ≤ 2 ^ b := Nat.pow_le_pow_right (by decide) h
    rw [Nat.max_eq_right this]
    exact Nat.dvd_refl _
  · have hba : b ≤ a := by omega
    have : 2 ^ b ≤ 2 ^ a := Nat.pow_le_pow_right (by decide) hba
    rw [Nat.max_eq_left this]
    exact Nat.pow_dvd_pow 2 hba

/-- The payload lies inside the box: header before it, its end within the box size. -/
theorem payload_fits (hdrEnd hdrAlign size align : Nat) (ha : 0 < align) (hh : 0 < hdrAlign) :
    hdrEnd ≤ offset hdrEnd align ∧ offset hdrEnd align + size ≤ boxSize hdrEnd hdrAlign size align := by
  refine ⟨roundUp_ge _ _ ha, ?_⟩
  unfold boxSize
  apply roundUp_ge
  unfold boxAlign
  omega

/-- Zero-sized payloads: the payload address is still inside (at the end of) the allocation and aligned. -/
theorem zst_ok (hdrEnd hdrAlign align : Nat) (ha : 0 < align) (hh : 0 < hdrAlign) :
    offset hdrEnd align ≤ boxSize hdrEnd hdrAlign 0 align := by
  have := (payload_fits hdrEnd hdrAlign 0 align ha hh).2
  simpa using this

/-- Non-vacuity: the header of this crate on x86-64 (ends at byte 36, align 8) with a 4096-aligned payload. -/
example : offset 36 4096 = 4096 ∧ boxAlign 8 4096 = 4096 ∧ boxSize 36 8 100 4096 = 8192 ∧ offset 36 1 = 36 ∧ boxSize 36 8 0 1 = 40 := by
  decide

end RustCc.C20
