#!/usr/bin/env python3
"""Correspondence runner: executes line-protocol programs on the Lean model driver and on the Rust
harness (real crate), compares the observation streams per property projection, collects oracle
failures, shrinks disagreeing programs."""
import os
import re
import subprocess
import sys
import time

VERIF = os.path.dirname(os.path.dirname(os.path.abspath(__file__)))
DRIVER = os.path.join(VERIF, "lean", ".lake", "build", "bin", "driver")


def harness_bin(feat, release=False):
    name = feat_name(feat)
    return os.path.join(VERIF, "harness", "target", name, "release" if release else "debug", "cc-harness")


def feat_name(feat):
    on = [k for k in ("fin", "weak", "clean", "auto") if feat.get(k)]
    return "-".join(on) if on else "none"


def feat_cargo(feat):
    on = [k for k in ("fin", "weak", "clean", "auto") if feat.get(k)]
    return ",".join(on)


def split_programs(text):
    """[(name, [lines])] from a stream of programs."""
    progs = []
    cur = None
    for line in text.splitlines():
        if line.startswith("program "):
            cur = (line[len("program "):].strip(), [line])
            progs.append(cur)
        elif cur is not None:
            cur[1].append(line)
    return progs


def split_outputs(text):
    """{name: [observation lines]} from an output stream; also returns the order of names."""
    outs = {}
    order = []
    cur = None
    for line in text.splitlines():
        if line.startswith("== "):
            cur = line[3:].strip()
            outs[cur] = []
            order.append(cur)
        elif line == "-- end":
            if cur is not None:
                outs[cur].append(line)
            cur = None
        elif cur is not None:
            outs[cur].append(line)
    return outs, order


def run_model(text, timeout=600):
    p = subprocess.run([DRIVER], input=text, capture_output=True, text=True, timeout=timeout)
    if p.returncode != 0:
        raise RuntimeError("model driver failed: rc=%s %s" % (p.returncode, p.stderr[:500]))
    return split_outputs(p.stdout)[0]


def run_impl(progs, feat, release=False, timeout=600):
    """Runs programs on the harness. A crash of the harness process is attributed to the program it
    was running, recorded as output ["!crash <signal>"], and the run resumes after it.
    Returns {name: lines}."""
    binp = harness_bin(feat, release)
    outs = {}
    todo = list(progs)
    while todo:
        text = "\n".join("\n".join(l) for _, l in todo) + "\n"
        try:
            p = subprocess.run([binp, "run"], input=text, capture_output=True, text=True, timeout=timeout)
            rc = p.returncode
            stdout = p.stdout
            err = p.stderr
        except subprocess.TimeoutExpired as e:
            rc = -999
            stdout = e.stdout.decode() if isinstance(e.stdout, bytes) else (e.stdout or "")
            err = "timeout"
        got, order = split_outputs(stdout)
        complete = [n for n in order if got[n] and got[n][-1] == "-- end"]
        for n in complete:
            outs[n] = got[n]
        if rc == 0 and len(complete) == len(todo):
            break
        # the process died: the culprit is the first program without a complete output
        done = set(complete)
        idx = next((i for i, (n, _) in enumerate(todo) if n not in done), None)
        if idx is None:
            break
        name = todo[idx][0]
        partial = got.get(name, [])
        outs[name] = partial + ["!crash rc=%s %s" % (rc, err.strip().splitlines()[-1] if err.strip() else "")]
        todo = todo[idx + 1:]
    return outs


# ----------------------------------------------------------------------------- projections

FIELD_RE = re.compile(r"^(\S+) \| ev=(.*?) \| H=(.*?) \| W=(.*?) \| st=(.*?) \| wb=(.*?);pc=(.*?);thr=(\S*)(.*)$")


def parse_obs(line):
    m = FIELD_RE.match(line)
    if not m:
        return None
    ret, ev, H, W, st, wb, pc, thr, rest = m.groups()
    return {
        "ret": ret,
        "ev": [e for e in ev.split(",") if e],
        "H": [tuple(x.split(":")) for x in H.split(",") if x],
        "W": [tuple(x.split(":")) for x in W.split(",") if x],
        "st": st.split(","),
        "wb": [tuple(x.split(":")) for x in wb.split(",") if x],
        "pc": [x for x in pc.split(",") if x],
        "thr": thr,
        "rest": rest.strip(),
    }


def evs(o, kinds):
    return [e for e in o["ev"] if e[0] in kinds and not e.startswith("!")]


def strip_flag(e):
    return e.split(":")[0]


# Each projection maps a parsed observation to a hashable value; two streams correspond for a
# property when the projections of all their lines are equal.
def proj_C01(o):  # who was dropped / freed / moved, counts of every held pointer
    return (o["ret"], tuple(sorted(strip_flag(e) for e in evs(o, "DXV"))), tuple((h[0], h[1], h[2]) for h in o["H"]))


def proj_C02(o):  # reclaimed set and byte count
    return (tuple(sorted(strip_flag(e) for e in evs(o, "DX"))), o["st"][0])


def proj_C03(o):  # ordered drop / free / side-record events
    return (tuple(strip_flag(e) for e in evs(o, "DXVMA")),)


def proj_C04(o):
    return (o["ret"], tuple((h[0], h[1], h[2]) for h in o["H"]), tuple(strip_flag(e) for e in evs(o, "FDX")))


def proj_C05(o):  # ordered finalize / drop events, finalized flags
    return (tuple(strip_flag(e) for e in evs(o, "FD")), tuple((h[0], h[1], h[4]) for h in o["H"]))


def proj_C06(o):  # survivors, reclaimed set, number of trace calls (passes)
    return (tuple(sorted(strip_flag(e) for e in evs(o, "FDX"))), tuple((h[0], h[1]) for h in o["H"]), len(evs(o, "T")), o["st"][0])


def proj_C07(o):  # panic at the boundary, state after the unwind, and the safety observables
    return (o["ret"], o["st"][2], o["st"][3], tuple(sorted(strip_flag(e) for e in evs(o, "DXVFM"))),
            tuple((h[0], h[1], h[2]) for h in o["H"]), tuple(o["W"]))


def proj_C08(o):  # upgrade results and what weak pointers report
    return (o["ret"], tuple((w[0], w[2]) for w in o["W"]), tuple(sorted(strip_flag(e) for e in evs(o, "DX"))))


def proj_C09(o):
    return (tuple((h[0], h[1], h[3]) for h in o["H"]), tuple(o["W"]), tuple(evs(o, "M")))


def proj_C10(o):
    return (tuple(strip_flag(e) for e in evs(o, "K")), o["ret"])


def proj_C11(o):
    return (tuple(o["st"][:3]), tuple(o["pc"]))


def proj_C12(o):  # is_tracing seen by every callback, executions, results of try_unwrap / finalize_again
    return (tuple(e for e in evs(o, "TFDK")), o["st"][2], o["st"][3], o["ret"])


def proj_C13(o):
    return (o["ret"], tuple(strip_flag(e) for e in evs(o, "VXFDM")), tuple((h[0], h[1], h[2], h[4]) for h in o["H"]),
            tuple((w[0], w[2]) for w in o["W"]), o["st"][1])


def proj_C14(o):
    return (o["ret"], tuple(strip_flag(e) for e in evs(o, "AXDVM")), tuple((w[0], w[2]) for w in o["W"]),
            tuple((h[0], h[1], h[2]) for h in o["H"]))


def proj_C15(o):
    return (o["st"][2], o["thr"])


def proj_C16(o):
    return (o["ret"], tuple((h[0], h[1], h[2], h[3]) for h in o["H"]), tuple(o["W"]),
            tuple(strip_flag(e) for e in evs(o, "FDX")))


def proj_full(o):
    return (o["ret"], tuple(o["ev"]), tuple(o["H"]), tuple(o["W"]), tuple(o["st"]), tuple(o["wb"]), tuple(o["pc"]), o["thr"], o["rest"])


def proj_black(o):  # everything except the white-box snapshot
    return (o["ret"], tuple(o["ev"]), tuple(o["H"]), tuple(o["W"]), tuple(o["st"]))


# Hidden collector state that the invariants behind a property's theorems read (DESIGN.md §4): when model and
# implementation agree on the property's observables but drift apart here, the correspondence the proof rests on
# is broken all the same (the drift is what a later collection acts on).
def hid_marks(o):  # per-object mark / tracing counter, buffer contents and order
    return (tuple((x[0], x[2], x[3]) for x in o["wb"]), tuple(o["pc"]))


def hid_counts(o):  # per-object count
    return (tuple((x[0], x[1]) for x in o["wb"]),)


def hid_fin(o):  # per-object finalized flag
    return (tuple((x[0], x[4]) for x in o["wb"]),)


def hid_buffer(o):
    return (tuple(o["pc"]), o["st"][1])


HIDDEN = {"C01": hid_marks, "C02": hid_marks, "C06": hid_marks, "C07": hid_marks, "C04": hid_counts, "C05": hid_fin,
          "C13": hid_buffer, "C03": hid_counts}

PROJ = {"C01": proj_C01, "C02": proj_C02, "C03": proj_C03, "C04": proj_C04, "C05": proj_C05, "C06": proj_C06,
        "C07": proj_C07, "C08": proj_C08, "C09": proj_C09, "C10": proj_C10, "C11": proj_C11, "C12": proj_C12,
        "C13": proj_C13, "C14": proj_C14, "C15": proj_C15, "C16": proj_C16, "full": proj_full, "black": proj_black}

# Oracle events (prefixed `!`) and the properties they speak for.
ORACLE_PROPS = {
    "T-dead": ["C01", "C07"], "T-freed": ["C01", "C07"], "F-dead": ["C05", "C01"], "F-freed": ["C05", "C01"],
    "D-dead": ["C03"], "D-freed": ["C03"], "deref-dead": ["C01", "C08"], "reach-dead": ["C01", "C08"], "cap-dead": ["C01", "C10"],
    "F-reach-dead": ["C05"], "up-dead": ["C08", "C01"], "unwrap-dead": ["C13"], "dfree": ["C03"], "layout": ["C03"],
    "bytes": ["C11", "C02"], "bufsize": ["C11"], "buflinks": ["C11"], "bufmark": ["C11"], "buffreed": ["C11", "C01"],
    "bufdup": ["C11"], "bufcount": ["C11"], "rc": ["C04", "C16"], "leak": ["C02", "C06"], "newcyc-id": ["C14"], "newcyc-addr": ["C14"],
    "crash": ["C%02d" % i for i in range(1, 17)], "harness-thread-panicked": ["C07"],
    "T-flag": ["C12"], "cb-flag": ["C12"],
    "fin-twice": ["C05", "C06"], "fin-without-feature": ["C05"], "finagain-in-callback": ["C12"], "unwrap-wrong": ["C13", "C12"], "unwrap-err-changed": ["C13", "C11"],
    "action-twice": ["C10"], "action-early": ["C10"], "action-skipped": ["C10"], "action-late": ["C10"], "transient-map-leaked": ["C03", "C10"], "up-none-live": ["C08"], "cyclic-alive-inside": ["C14"], "cyclic-count": ["C14"],
    "born-unfinalized": ["C05"], "born-finalized-outside": ["C05"],
    "execs": ["C11", "C12", "C15"], "drop-unfinalized": ["C04", "C05"], "fin-reachable": ["C05", "C01", "C07"], "meta-leak": ["C09", "C03"], "not-idle-after-op": ["C07", "C12"], "last-drop-kept": ["C04", "C07"], "thr-policy": ["C15"], "dec-not-buffered": ["C02", "C11", "C07"],
}


def oracle_hits(lines):
    """Oracle failures reported by the harness (`!kind`) plus oracles derived from the implementation's
    own event stream (model-independent): a `trace` call that saw is_tracing() == false, a finalizer /
    destructor / cleaning action that saw is_tracing() == true."""
    hits = []
    for i, l in enumerate(lines):
        for m in re.finditer(r"!([A-Za-z\-]+)", l):
            hits.append((i, m.group(1), l))
        m = re.search(r"ev=([^|]*) \|", l)
        if m:
            for e in m.group(1).split(","):
                e = e.strip()
                if re.fullmatch(r"T\d+:0", e):
                    hits.append((i, "T-flag", l))
                elif re.fullmatch(r"[FDK]-?\d+:1", e):
                    hits.append((i, "cb-flag", l))
    return hits


def policy_hits(prog_lines, out_lines):
    """C15 oracle on the implementation alone: after a top-level `collect_cycles()` that returned normally the byte threshold
    is `D * 2^k`, not below `D`, strictly above allocated bytes and not needlessly high (exact rational arithmetic on the
    bit pattern of `adjustment_percent`)."""
    import struct
    from fractions import Fraction
    D = None
    for l in prog_lines:
        if l.startswith("consts "):
            m = re.search(r"\bthr=(\d+)", l)
            if m:
                D = int(m.group(1))
    if not D:
        return []
    head, ops, tail = split_prog(prog_lines)
    pct = Fraction(struct.unpack(">d", bytes.fromhex("3fb999999999999a"))[0])   # the crate's default, 0.1
    hits = []
    for i, op in enumerate(ops):
        if i >= len(out_lines):
            break
        o = parse_obs(out_lines[i])
        w = op.split()
        if not o or not w:
            continue
        if w[0] == "cfg" and len(w) == 3 and w[1] == "pct" and o["ret"] == "ok":
            try:
                pct = Fraction(struct.unpack(">d", bytes.fromhex(w[2].rjust(16, "0")))[0])
            except Exception:
                pass
        if w[0] == "collect" and o["ret"] == "ok" and o["thr"].isdigit() and o["st"] and o["st"][0].isdigit():
            r, a = int(o["thr"]), int(o["st"][0])
            q = r // D
            is_pow = r >= D and r % D == 0 and q & (q - 1) == 0
            not_high = pct == 0 or a > r * pct or r // 2 <= a or r == D
            if not (is_pow and a < r and not_high):
                hits.append((i, "thr-policy", out_lines[i]))
    return hits


def model_ok(lines):
    """A program is usable when the model ran it to completion (no abort, no stuck, no fuel-out, no bad op)."""
    for l in lines:
        if "!aborted" in l or "!stuck" in l or "!fuel" in l or l.startswith("bad-") or "!unwinding" in l:
            return False
    return True


def compare(model_lines, impl_lines, proj):
    """First index at which the projections differ, or None."""
    n = max(len(model_lines), len(impl_lines))
    for i in range(n):
        a = model_lines[i] if i < len(model_lines) else None
        b = impl_lines[i] if i < len(impl_lines) else None
        if a == b:
            continue
        if a is None or b is None:
            return i
        pa, pb = parse_obs(a), parse_obs(b)
        if pa is None or pb is None:
            return i
        if proj(pa) != proj(pb):
            return i
    return None


# ----------------------------------------------------------------------------- shrinking

def prog_text(lines):
    return "\n".join(lines) + "\n"


def split_prog(lines):
    """(header lines up to and including `begin`, op lines, ['end'])"""
    b = lines.index("begin")
    e = len(lines) - 1 - lines[::-1].index("end")
    return lines[:b + 1], lines[b + 1:e], lines[e:]


def shrink(lines, still_fails, budget=150):
    """Delta-debugging over operation lines (any subsequence of a program is a program)."""
    head, ops, tail = split_prog(lines)
    n = 2
    tries = 0
    while len(ops) >= 2 and tries < budget:
        chunk = max(1, len(ops) // n)
        reduced = False
        for i in range(0, len(ops), chunk):
            cand = ops[:i] + ops[i + chunk:]
            tries += 1
            if cand and still_fails(head + cand + tail):
                ops = cand
                n = max(n - 1, 2)
                reduced = True
                break
            if tries >= budget:
                break
        if not reduced:
            if chunk == 1:
                break
            n = min(n * 2, len(ops))
    return head + ops + tail


def fails_for(prop_proj, feat, release=False):
    """Predicate: the program still shows a disagreement on this projection or an oracle failure."""
    def f(lines):
        name = lines[0][len("program "):].strip()
        m = run_model(prog_text(lines))
        ml = m.get(name, [])
        if not model_ok(ml):
            return False
        il = run_impl([(name, lines)], feat, release).get(name, [])
        if oracle_hits(il):
            return True
        return compare(ml, il, prop_proj) is not None
    return f


if __name__ == "__main__":
    # ad-hoc: corr.py <progfile> [feat]
    text = open(sys.argv[1]).read()
    feat = {k: 1 for k in ("fin", "weak", "clean", "auto")}
    progs = split_programs(text)
    t0 = time.time()
    mo = run_model(text)
    usable = [(n, l) for n, l in progs if model_ok(mo.get(n, []))]
    io = run_impl(usable, feat)
    nd = 0
    for n, l in usable:
        d = compare(mo[n], io.get(n, []), proj_full)
        h = oracle_hits(io.get(n, []))
        if d is not None or h:
            nd += 1
            if nd <= 5:
                print("DISAGREE", n, "line", d, h[:2])
                if d is not None:
                    print("  op   :", split_prog(l)[1][d] if d < len(split_prog(l)[1]) else "?")
                    print("  model:", mo[n][d] if d < len(mo[n]) else None)
                    print("  impl :", io[n][d] if d < len(io.get(n, [])) else None)
    print("programs", len(progs), "usable", len(usable), "disagree", nd, "time %.1fs" % (time.time() - t0))
