import RustCcModel.Model.Policy
/-! # Round-to-nearest-even (`Policy.roundUnits`) is monotone and exact on representable values

So the comparison the code makes in `f64` — `allocated as f64 <= threshold as f64 * adjustment_percent` — decides the
comparison of the exact values whenever `allocated` and `threshold` are below `2^53` (where `as f64` is exact):
`leProduct alloc thr bits = false → thr * percent < alloc`. -/
namespace Policy

/-- Rounding to a multiple of `2^s`, nearest, ties to even. -/
def rnd (s n : Nat) : Nat :=
  (if n % 2 ^ s > 2 ^ (s - 1) ∨ (n % 2 ^ s = 2 ^ (s - 1) ∧ (n / 2 ^ s) % 2 = 1) then n / 2 ^ s + 1 else n / 2 ^ s) * 2 ^ s

theorem roundUnits_eq (n : Nat) :
    roundUnits n = if Nat.log2 n + 1 ≤ 53 then n else rnd (Nat.log2 n + 1 - 53) n := by
  unfold roundUnits rnd
  rfl

theorem rnd_lo (s n : Nat) : n / 2 ^ s * 2 ^ s ≤ rnd s n := by
  unfold rnd
  split
  · exact Nat.mul_le_mul_right _ (Nat.le_succ _)
  · exact Nat.le_refl _

theorem rnd_hi (s n : Nat) : rnd s n ≤ (n / 2 ^ s + 1) * 2 ^ s := by
  unfold rnd
  split
  · exact Nat.le_refl _
  · exact Nat.mul_le_mul_right _ (Nat.le_succ _)

theorem pow_pos' (s : Nat) : 0 < 2 ^ s := Nat.two_pow_pos s

theorem rnd_mono (s a b : Nat) (h : a ≤ b) : rnd s a ≤ rnd s b := by
  have hq : a / 2 ^ s ≤ b / 2 ^ s := Nat.div_le_div_right h
  rcases Nat.lt_or_ge (a / 2 ^ s) (b / 2 ^ s) with hlt | hge
  · calc rnd s a ≤ (a / 2 ^ s + 1) * 2 ^ s := rnd_hi s a
      _ ≤ b / 2 ^ s * 2 ^ s := Nat.mul_le_mul_right _ hlt
      _ ≤ rnd s b := rnd_lo s b
  · have heq : a / 2 ^ s = b / 2 ^ s := Nat.le_antisymm hq hge
    have ha := Nat.mod_add_div a (2 ^ s)
    have hb := Nat.mod_add_div b (2 ^ s)
    have hr : a % 2 ^ s ≤ b % 2 ^ s := by
      rw [heq] at ha
      omega
    unfold rnd
    rw [heq]
    by_cases ca : a % 2 ^ s > 2 ^ (s - 1) ∨ (a % 2 ^ s = 2 ^ (s - 1) ∧ (b / 2 ^ s) % 2 = 1)
    · have cb : b % 2 ^ s > 2 ^ (s - 1) ∨ (b % 2 ^ s = 2 ^ (s - 1) ∧ (b / 2 ^ s) % 2 = 1) := by
        rcases ca with c1 | ⟨c1, c2⟩
        · exact Or.inl (Nat.lt_of_lt_of_le c1 hr)
        · rcases Nat.lt_or_ge (2 ^ (s - 1)) (b % 2 ^ s) with c3 | c3
          · exact Or.inl c3
          · exact Or.inr ⟨by omega, c2⟩
      rw [if_pos ca, if_pos cb]; exact Nat.le_refl _
    · rw [if_neg ca]
      split
      · exact Nat.mul_le_mul_right _ (Nat.le_succ _)
      · exact Nat.le_refl _

theorem log2_mono {a b : Nat} (ha : a ≠ 0) (h : a ≤ b) : Nat.log2 a ≤ Nat.log2 b := by
  have : Nat.log2 a < Nat.log2 b + 1 := (Nat.log2_lt ha).2 (Nat.lt_of_le_of_lt h Nat.lt_log2_self)
  omega

/-- Bounds of the 53-bit quotient. -/
theorem quot_bounds (n : Nat) (hn : 53 < Nat.log2 n + 1) :
    2 ^ 52 ≤ n / 2 ^ (Nat.log2 n + 1 - 53) ∧ n / 2 ^ (Nat.log2 n + 1 - 53) < 2 ^ 53 := by
  have hn0 : n ≠ 0 := by
    intro e; subst e; simp [Nat.log2_zero] at hn
  have h1 := Nat.log2_self_le hn0
  have h2 := @Nat.lt_log2_self n
  have e1 : 2 ^ Nat.log2 n = 2 ^ 52 * 2 ^ (Nat.log2 n + 1 - 53) := by
    rw [← Nat.pow_add]; congr 1; omega
  have e2 : 2 ^ (Nat.log2 n + 1) = 2 ^ 53 * 2 ^ (Nat.log2 n + 1 - 53) := by
    rw [← Nat.pow_add]; congr 1; omega
  constructor
  · rw [Nat.le_div_iff_mul_le (pow_pos' _), ← e1]; exact h1
  · rw [Nat.div_lt_iff_lt_mul (pow_pos' _), ← e2]; exact h2

theorem roundUnits_ge_pow (n : Nat) (hn : 53 < Nat.log2 n + 1) : 2 ^ Nat.log2 n ≤ roundUnits n := by
  rw [roundUnits_eq, if_neg (by omega)]
  have e1 : 2 ^ Nat.log2 n = 2 ^ 52 * 2 ^ (Nat.log2 n + 1 - 53) := by
    rw [← Nat.pow_add]; congr 1; omega
  calc 2 ^ Nat.log2 n = 2 ^ 52 * 2 ^ (Nat.log2 n + 1 - 53) := e1
    _ ≤ n / 2 ^ (Nat.log2 n + 1 - 53) * 2 ^ (Nat.log2 n + 1 - 53) := Nat.mul_le_mul_right _ (quot_bounds n hn).1
    _ ≤ _ := rnd_lo _ n

theorem roundUnits_le_pow (n : Nat) (hn : 53 < Nat.log2 n + 1) : roundUnits n ≤ 2 ^ (Nat.log2 n + 1) := by
  rw [roundUnits_eq, if_neg (by omega)]
  have e2 : 2 ^ (Nat.log2 n + 1) = 2 ^ 53 * 2 ^ (Nat.log2 n + 1 - 53) := by
    rw [← Nat.pow_add]; congr 1; omega
  calc rnd _ n ≤ (n / 2 ^ (Nat.log2 n + 1 - 53) + 1) * 2 ^ (Nat.log2 n + 1 - 53) := rnd_hi _ n
    _ ≤ 2 ^ 53 * 2 ^ (Nat.log2 n + 1 - 53) := Nat.mul_le_mul_right _ (quot_bounds n hn).2
    _ = _ := e2.symm

/-- **Round-to-nearest-even is monotone.** -/
theorem roundUnits_mono (a b : Nat) (h : a ≤ b) : roundUnits a ≤ roundUnits b := by
  by_cases ha0 : a = 0
  · subst ha0
    have : roundUnits 0 = 0 := by rw [roundUnits_eq]; simp [Nat.log2_zero]
    rw [this]; exact Nat.zero_le _
  have hl := log2_mono ha0 h
  by_cases ca : Nat.log2 a + 1 ≤ 53
  · by_cases cb : Nat.log2 b + 1 ≤ 53
    · rw [roundUnits_eq, roundUnits_eq, if_pos ca, if_pos cb]; exact h
    · -- `a` is below `2^53`, `b` rounds to at least `2^53`
      have hb := roundUnits_ge_pow b (by omega)
      have h1 : a < 2 ^ (Nat.log2 a + 1) := Nat.lt_log2_self
      have h2 : 2 ^ (Nat.log2 a + 1) ≤ 2 ^ Nat.log2 b := Nat.pow_le_pow_right (by decide) (by omega)
      rw [roundUnits_eq a, if_pos ca]
      omega
  · have ca' : 53 < Nat.log2 a + 1 := by omega
    have cb' : 53 < Nat.log2 b + 1 := by omega
    rcases Nat.lt_or_ge (Nat.log2 a) (Nat.log2 b) with hlt | hge
    · calc roundUnits a ≤ 2 ^ (Nat.log2 a + 1) := roundUnits_le_pow a ca'
        _ ≤ 2 ^ Nat.log2 b := Nat.pow_le_pow_right (by decide) hlt
        _ ≤ roundUnits b := roundUnits_ge_pow b cb'
    · have heq : Nat.log2 a = Nat.log2 b := Nat.le_antisymm hl hge
      rw [roundUnits_eq, roundUnits_eq, if_neg ca, if_neg (by omega), heq]
      exact rnd_mono _ a b h

theorem log2_mul_pow (k j : Nat) (hk : k ≠ 0) : Nat.log2 (k * 2 ^ j) = Nat.log2 k + j := by
  have hne : k * 2 ^ j ≠ 0 := Nat.mul_ne_zero hk (Nat.ne_of_gt (pow_pos' j))
  apply Nat.le_antisymm
  · have : Nat.log2 (k * 2 ^ j) < Nat.log2 k + j + 1 := by
      rw [Nat.log2_lt hne]
      have h2 := @Nat.lt_log2_self k
      calc k * 2 ^ j < 2 ^ (Nat.log2 k + 1) * 2 ^ j := Nat.mul_lt_mul_of_pos_right h2 (pow_pos' j)
        _ = 2 ^ (Nat.log2 k + j + 1) := by rw [← Nat.pow_add]; congr 1; omega
    omega
  · rw [Nat.le_log2 hne, Nat.pow_add]
    exact Nat.mul_le_mul_right _ (Nat.log2_self_le hk)

/-- **A value with at most 53 significant bits is not changed by rounding.** -/
theorem roundUnits_exact (k j : Nat) (hk : k < 2 ^ 53) : roundUnits (k * 2 ^ j) = k * 2 ^ j := by
  by_cases hk0 : k = 0
  · subst hk0; rw [roundUnits_eq]; simp [Nat.log2_zero]
  rw [roundUnits_eq]
  split
  · rfl
  · rename_i hlen
    have hlog := log2_mul_pow k j hk0
    have hk53 : Nat.log2 k < 53 := (Nat.log2_lt hk0).2 hk
    -- the shift is at most `j`, so the remainder is zero
    have hs : Nat.log2 (k * 2 ^ j) + 1 - 53 ≤ j := by omega
    generalize hsdef : Nat.log2 (k * 2 ^ j) + 1 - 53 = s at *
    have hdiv : k * 2 ^ j = (k * 2 ^ (j - s)) * 2 ^ s := by
      rw [Nat.mul_assoc, ← Nat.pow_add]; congr 2; omega
    have hmod : (k * 2 ^ j) % 2 ^ s = 0 := by rw [hdiv]; exact Nat.mul_mod_left _ _
    have hq : (k * 2 ^ j) / 2 ^ s = k * 2 ^ (j - s) := by
      rw [hdiv]; exact Nat.mul_div_cancel _ (pow_pos' s)
    unfold rnd
    rw [hmod, hq]
    have hhalf : 0 < 2 ^ (s - 1) := pow_pos' _
    rw [if_neg (by omega)]
    exact hdiv.symm

/-- **The `f64` comparison decides the exact one** for byte counts below `2^53`: if the code finds
`allocated as f64 <= threshold as f64 * percent` false, then `threshold * percent < allocated` holds exactly
(`percent = m * 2^e / 2^1074` with `(m, e) = decode bits`). -/
theorem leProduct_false_exact (alloc thr bits : Nat) (ha : alloc < 2 ^ 53) (ht : thr < 2 ^ 53)
    (h : leProduct alloc thr bits = false) :
    thr * (decode bits).1 * 2 ^ (decode bits).2 < alloc * 2 ^ 1074 := by
  unfold leProduct productUnits at h
  rw [roundUnits_exact alloc 1074 ha, roundUnits_exact thr 1074 ht, Nat.mul_div_cancel _ (pow_pos' 1074)] at h
  simp only [decide_eq_false_iff_not, Nat.not_le] at h
  apply Classical.byContradiction
  intro hn
  have hle : alloc * 2 ^ 1074 ≤ thr * (decode bits).1 * 2 ^ (decode bits).2 := Nat.le_of_not_lt hn
  have := roundUnits_mono _ _ hle
  rw [roundUnits_exact alloc 1074 ha] at this
  omega

/-- … and conversely: if the code finds it true, the exact product is at least `allocated` up to one rounding of the
product (`allocated ≤ round(threshold * percent)`). -/
theorem leProduct_true_exact (alloc thr bits : Nat) (ha : alloc < 2 ^ 53) (ht : thr < 2 ^ 53)
    (h : leProduct alloc thr bits = true) :
    alloc * 2 ^ 1074 ≤ roundUnits (thr * (decode bits).1 * 2 ^ (decode bits).2) := by
  unfold leProduct productUnits at h
  rw [roundUnits_exact alloc 1074 ha, roundUnits_exact thr 1074 ht, Nat.mul_div_cancel _ (pow_pos' 1074)] at h
  simpa using h

end Policy
