import RustCcModel.Proofs.CtlSimp
import RustCcModel.Proofs.WeakInv
import RustCcModel.Proofs.WeakExact
import RustCcModel.Proofs.CycFresh
import RustCcModel.Proofs.MetaOnce
/-! # C09 — weak/strong counts are exact; the weak side record lives as long as needed -/
namespace RustCc.C09
open World

/-- The first `downgrade` creates the side record: accessible, zero weak pointers. Later ones reuse it. -/
theorem initMeta_spec (w : World) (x : Id) :
    ((w.initMeta x).heap x).hasMeta = true ∧
    ((w.heap x).hasMeta = false → (w.initMeta x).metas x = { weak := 0, accessible := true, live := true }) ∧
    ((w.heap x).hasMeta = true → (w.initMeta x) = w) := by
  unfold initMeta
  by_cases h : (w.heap x).hasMeta = true
  · simp [h]
  · simp [h, upd, updMeta, Metas.set]

/-- Dropping a `Weak`: exactly one less; the record is released exactly when this was the last `Weak`
and the allocation is already gone. -/
theorem weakDrop_spec (w : World) (x : Id) :
    ((w.weakDrop (.to x)).metas x).weak = (w.metas x).weak - 1 ∧
    (((w.metas x).weak - 1 = 0 ∧ (w.metas x).accessible = false) →
        ((w.weakDrop (.to x)).metas x).live = false ∧ (w.weakDrop (.to x)).events = w.events ++ [.metaFree x]) ∧
    (¬ ((w.metas x).weak - 1 = 0 ∧ (w.metas x).accessible = false) →
        ((w.weakDrop (.to x)).metas x).live = (w.metas x).live ∧ (w.weakDrop (.to x)).events = w.events) := by
  unfold weakDrop
  simp only
  by_cases h : (w.metas x).weak - 1 = 0 ∧ (w.metas x).accessible = false
  · obtain ⟨h1, h2⟩ := h
    simp [updMeta, Metas.set, emit, h1, h2]
  · have : ¬ (((w.updMeta x fun m => { m with weak := m.weak - 1 }).metas x).weak = 0 ∧
        (!((w.updMeta x fun m => { m with weak := m.weak - 1 }).metas x).accessible) = true) := by
      simp [updMeta, Metas.set]; intro h1; simpa [h1] using h
    rw [if_neg this]
    simp [updMeta, Metas.set, h]

/-- When the allocation goes (`drop_metadata`): the record is released at once if no `Weak` exists,
otherwise it is only marked not accessible and stays valid for the remaining `Weak`s. -/
theorem dropMetadata_spec (w : World) (x : Id) (hm : (w.heap x).hasMeta = true) :
    ((w.metas x).weak = 0 → ((w.dropMetadata x).metas x).live = false ∧ (w.dropMetadata x).events = w.events ++ [.metaFree x]) ∧
    ((w.metas x).weak ≠ 0 → ((w.dropMetadata x).metas x).accessible = false ∧
        ((w.dropMetadata x).metas x).live = (w.metas x).live ∧ ((w.dropMetadata x).metas x).weak = (w.metas x).weak ∧
        (w.dropMetadata x).events = w.events) := by
  unfold dropMetadata
  simp only [hm, if_true]
  constructor
  · intro h; simp [h, updMeta, Metas.set, emit]
  · intro h; simp [h, updMeta, Metas.set]

/-- Counting queries on a `Weak` read only the side record. -/
theorem weakCount_reads_record (w w' : World) (r : WRef) (h : w'.metas = w.metas) : w'.weakCount r = w.weakCount r := by
  unfold weakCount; cases r <;> simp [h]


/-! ## Every reachable world (`Proofs/WeakInv*.lean`) -/

/-- Number of `Weak` pointers to `x` that exist: entries of the `W` table, stashed weak pointers, weak fields of every
allocated object, `Cleanable`s (each holds a `Weak` to its cleaner's map), the `Weak` handed to a running `new_cyclic`
closure. -/
abbrev weakPointersTo (w : World) (x : Id) : Nat := wrefs w x

/-- **`weak_count` is never too low**, in every reachable world (a caught panic may leak: `≤`, not `=`). -/
theorem weak_count_never_too_low (c : Cfg) (nH nW nK : Nat) (w : World) (h : Reachable c nH nW nK w) (x : Id) :
    weakPointersTo w x ≤ (w.metas x).weak :=
  (reachable_weakOk c nH nW nK w h).le x

/-- **Counting queries on a `Weak` stay valid for as long as any `Weak` exists**: its side record has not been released —
also after the value and its allocation are gone. -/
theorem weak_has_side_record (c : Cfg) (nH nW nK : Nat) (w : World) (h : Reachable c nH nW nK w) (x : Id)
    (hx : 0 < weakPointersTo w x) : (w.metas x).live = true :=
  (reachable_weakOk c nH nW nK w h).live x hx

/-- **The side record is released as soon as both the allocation's hold on it and the last `Weak` are gone** (and, with
`free_only…`-style event accounting in `weakDrop_spec` / `dropMetadata_spec`, exactly then): a record that is still
allocated is accessible from its box or has a positive weak count. -/
theorem side_record_needed (c : Cfg) (nH nW nK : Nat) (w : World) (h : Reachable c nH nW nK w) (x : Id)
    (hl : (w.metas x).live = true) : (w.metas x).accessible = true ∨ 0 < (w.metas x).weak :=
  (reachable_weakOk c nH nW nK w h).rel x hl

/-- A record accessible from a box exists. -/
theorem accessible_record_live (c : Cfg) (nH nW nK : Nat) (w : World) (h : Reachable c nH nW nK w) (x : Id)
    (ha : (w.metas x).accessible = true) : (w.metas x).live = true :=
  ((reachable_weakOk c nH nW nK w h).acc x ha).1

/-! ### Exactness -/

/-- **`weak_count()` equals the number of `Weak` pointers to the allocation that currently exist** — table entries, stashed
pointers, weak fields of all objects, `Cleanable`s, the argument of a running `new_cyclic` closure — in every world of every
history (`ReachableK`): panics may be raised and caught anywhere (unwinding drops every `Weak` it holds); the only excluded
step is a `Cleaner::register` whose `Cleanable` the *harness* stores over an occupied table entry (the harness forgets —
leaks — the old one; safe Rust would drop it). That a `new_cyclic` never stores its `Weak` over a non-empty weak field is
proved (`Proofs/CycFresh.lean`: nobody writes the fields of a value under construction). -/
theorem weak_count_exact (c : Cfg) (nH nW nK : Nat) (w : World) (h : ReachableK c nH nW nK w) (x : Id) :
    (w.metas x).weak = weakPointersTo w x :=
  reachableK_weak_exact h x

/-- Non-vacuity of `ReachableK`: the initial world and any first top-level operation. -/
example (c : Cfg) (op : Op) : ReachableK c 2 2 2
    { (World.init c 2 2 2) with stack := [.script [op] none none true, .catchTop], events := [], ret := .ok } :=
  .top _ op .init rfl rfl

/-! ### Released at most once -/

/-- **The side record of an allocation is released at most once**, in every history of the machine — any interleaving of
operations, callbacks, collections, panics raised and caught (`HistA`: running and unwinding steps) — and once it has been
released the allocation has no record, never gets a new one and is past (`Proofs/MetaOnce.lean`: every micro-step satisfies
`#metaFree x + Ψ' = Ψ` for the potential `Ψ = [record exists] + [never had one]`, which starts at 1). Together with
`side_record_needed` (released as soon as the allocation's hold and the last `Weak` are gone) and `weak_has_side_record`
(never while a `Weak` exists): released exactly when both are gone, and only once. -/
theorem side_record_released_at_most_once (c : Cfg) (nH nW nK : Nat) (w : World) (log : List Event)
    (h : HistA c nH nW nK w log) (x : Id) :
    log.count (Event.metaFree x) ≤ 1 ∧
    (log.count (Event.metaFree x) = 1 → (w.metas x).live = false ∧ (w.heap x).hasMeta = true ∧ x < w.next) :=
  histA_metaFree_once h x

/-- Non-vacuity: the history that starts a first top-level operation. -/
example (c : Cfg) (op : Op) : HistA c 2 2 2
    { (World.init c 2 2 2) with stack := [.script [op] none none true, .catchTop], events := [], ret := .ok } [] :=
  .top _ op [] .init rfl rfl

end RustCc.C09
