import RustCcModel.Model.Machine
/-! Frame lemmas for the helper functions of the machine: which fields each helper can change. -/
namespace RustCc
namespace World

@[simp] theorem emit_heap (w : World) (e) : (w.emit e).heap = w.heap := rfl
@[simp] theorem emit_pc (w : World) (e) : (w.emit e).pc = w.pc := rfl
@[simp] theorem emit_stack (w : World) (e) : (w.emit e).stack = w.stack := rfl
@[simp] theorem emit_metas (w : World) (e) : (w.emit e).metas = w.metas := rfl
@[simp] theorem emit_events (w : World) (e) : (w.emit e).events = w.events ++ [e] := rfl
@[simp] theorem emit_mode (w : World) (e) : (w.emit e).mode = w.mode := rfl
@[simp] theorem emit_flags (w : World) (e) : (w.emit e).collecting = w.collecting ∧ (w.emit e).finalizing = w.finalizing ∧ (w.emit e).dropping = w.dropping := ⟨rfl, rfl, rfl⟩
@[simp] theorem emit_collecting (w : World) (e) : (w.emit e).collecting = w.collecting := rfl
@[simp] theorem emit_finalizing (w : World) (e) : (w.emit e).finalizing = w.finalizing := rfl
@[simp] theorem emit_dropping (w : World) (e) : (w.emit e).dropping = w.dropping := rfl
@[simp] theorem emit_H (w : World) (e) : (w.emit e).H = w.H := rfl
@[simp] theorem emit_allocBytes (w : World) (e) : (w.emit e).allocBytes = w.allocBytes := rfl
@[simp] theorem emit_ret (w : World) (e) : (w.emit e).ret = w.ret := rfl

@[simp] theorem push_heap (w : World) (f) : (w.push f).heap = w.heap := rfl
@[simp] theorem push_pc (w : World) (f) : (w.push f).pc = w.pc := rfl
@[simp] theorem push_stack (w : World) (f) : (w.push f).stack = f :: w.stack := rfl
@[simp] theorem push_metas (w : World) (f) : (w.push f).metas = w.metas := rfl
@[simp] theorem push_events (w : World) (f) : (w.push f).events = w.events := rfl
@[simp] theorem push_mode (w : World) (f) : (w.push f).mode = w.mode := rfl
@[simp] theorem push_collecting (w : World) (f) : (w.push f).collecting = w.collecting := rfl
@[simp] theorem push_finalizing (w : World) (f) : (w.push f).finalizing = w.finalizing := rfl
@[simp] theorem push_dropping (w : World) (f) : (w.push f).dropping = w.dropping := rfl
@[simp] theorem push_H (w : World) (f) : (w.push f).H = w.H := rfl
@[simp] theorem push_allocBytes (w : World) (f) : (w.push f).allocBytes = w.allocBytes := rfl
@[simp] theorem push_ret (w : World) (f) : (w.push f).ret = w.ret := rfl

@[simp] theorem upd_heap_same (w : World) (x) (f) : (w.upd x f).heap x = f (w.heap x) := by simp [upd]
theorem upd_heap_other (w : World) (x y) (f) (h : y ≠ x) : (w.upd x f).heap y = w.heap y := by simp [upd, h]
@[simp] theorem upd_pc (w : World) (x) (f) : (w.upd x f).pc = w.pc := rfl
@[simp] theorem upd_stack (w : World) (x) (f) : (w.upd x f).stack = w.stack := rfl
@[simp] theorem upd_metas (w : World) (x) (f) : (w.upd x f).metas = w.metas := rfl
@[simp] theorem upd_events (w : World) (x) (f) : (w.upd x f).events = w.events := rfl
@[simp] theorem upd_mode (w : World) (x) (f) : (w.upd x f).mode = w.mode := rfl
@[simp] theorem upd_collecting (w : World) (x) (f) : (w.upd x f).collecting = w.collecting := rfl
@[simp] theorem upd_finalizing (w : World) (x) (f) : (w.upd x f).finalizing = w.finalizing := rfl
@[simp] theorem upd_dropping (w : World) (x) (f) : (w.upd x f).dropping = w.dropping := rfl
@[simp] theorem upd_H (w : World) (x) (f) : (w.upd x f).H = w.H := rfl
@[simp] theorem upd_allocBytes (w : World) (x) (f) : (w.upd x f).allocBytes = w.allocBytes := rfl
@[simp] theorem upd_ret (w : World) (x) (f) : (w.upd x f).ret = w.ret := rfl

@[simp] theorem updMeta_heap (w : World) (x) (f) : (w.updMeta x f).heap = w.heap := rfl
@[simp] theorem updMeta_pc (w : World) (x) (f) : (w.updMeta x f).pc = w.pc := rfl
@[simp] theorem updMeta_stack (w : World) (x) (f) : (w.updMeta x f).stack = w.stack := rfl
@[simp] theorem updMeta_events (w : World) (x) (f) : (w.updMeta x f).events = w.events := rfl
@[simp] theorem updMeta_mode (w : World) (x) (f) : (w.updMeta x f).mode = w.mode := rfl
@[simp] theorem updMeta_collecting (w : World) (x) (f) : (w.updMeta x f).collecting = w.collecting := rfl
@[simp] theorem updMeta_finalizing (w : World) (x) (f) : (w.updMeta x f).finalizing = w.finalizing := rfl
@[simp] theorem updMeta_dropping (w : World) (x) (f) : (w.updMeta x f).dropping = w.dropping := rfl
@[simp] theorem updMeta_H (w : World) (x) (f) : (w.updMeta x f).H = w.H := rfl
@[simp] theorem updMeta_allocBytes (w : World) (x) (f) : (w.updMeta x f).allocBytes = w.allocBytes := rfl
@[simp] theorem updMeta_ret (w : World) (x) (f) : (w.updMeta x f).ret = w.ret := rfl
@[simp] theorem updMeta_metas_same (w : World) (x) (f) : (w.updMeta x f).metas x = f (w.metas x) := by simp [updMeta, Metas.set]
theorem updMeta_metas_other (w : World) (x y) (f) (h : y ≠ x) : (w.updMeta x f).metas y = w.metas y := by simp [updMeta, Metas.set, h]

/-- Flags, stack and mode are untouched by the list / side-record / allocation helpers. -/
structure SameCtl (w w' : World) : Prop where
  stack : w'.stack = w.stack
  collecting : w'.collecting = w.collecting
  finalizing : w'.finalizing = w.finalizing
  dropping : w'.dropping = w.dropping

theorem SameCtl.refl (w : World) : SameCtl w w := ⟨rfl, rfl, rfl, rfl⟩
theorem SameCtl.trans {a b c : World} (h1 : SameCtl a b) (h2 : SameCtl b c) : SameCtl a c :=
  ⟨h2.stack.trans h1.stack, h2.collecting.trans h1.collecting, h2.finalizing.trans h1.finalizing, h2.dropping.trans h1.dropping⟩

theorem removeFromList_ctl (w : World) (x) : SameCtl w (w.removeFromList x) := by
  unfold removeFromList; split <;> exact ⟨rfl, rfl, rfl, rfl⟩

theorem addToList_ctl (w : World) (x) : SameCtl w (w.addToList x) := by
  unfold addToList; split
  · exact SameCtl.refl w
  · split <;> exact ⟨rfl, rfl, rfl, rfl⟩

theorem dropMetadata_ctl (w : World) (x) : SameCtl w (w.dropMetadata x) := by
  unfold dropMetadata; split
  · split <;> exact ⟨rfl, rfl, rfl, rfl⟩
  · exact SameCtl.refl w

theorem freeBox_ctl (w : World) (x) : SameCtl w (w.freeBox x) := ⟨rfl, rfl, rfl, rfl⟩

theorem weakDrop_ctl (w : World) (r) : SameCtl w (w.weakDrop r) := by
  unfold weakDrop
  cases r with
  | dangling => exact SameCtl.refl w
  | to x => simp only; split <;> exact ⟨rfl, rfl, rfl, rfl⟩

theorem initMeta_ctl (w : World) (x) : SameCtl w (w.initMeta x) := by
  unfold initMeta; split
  · exact SameCtl.refl w
  · exact ⟨rfl, rfl, rfl, rfl⟩

theorem setH_ctl (w : World) (k v) : SameCtl w (w.setH k v) := ⟨rfl, rfl, rfl, rfl⟩
theorem setW_ctl (w : World) (k v) : SameCtl w (w.setW k v) := ⟨rfl, rfl, rfl, rfl⟩
theorem setK_ctl (w : World) (k v) : SameCtl w (w.setK k v) := ⟨rfl, rfl, rfl, rfl⟩
theorem upd_ctl (w : World) (x f) : SameCtl w (w.upd x f) := ⟨rfl, rfl, rfl, rfl⟩
theorem updMeta_ctl (w : World) (x f) : SameCtl w (w.updMeta x f) := ⟨rfl, rfl, rfl, rfl⟩
theorem emit_ctl (w : World) (e) : SameCtl w (w.emit e) := ⟨rfl, rfl, rfl, rfl⟩

theorem updAll_ctl (w : World) (l : List Id) (f) : SameCtl w (w.updAll l f) := by
  unfold updAll
  induction l generalizing w with
  | nil => exact SameCtl.refl w
  | cons x r ih => simp only [List.foldl_cons]; exact (upd_ctl w x f).trans (ih _)

theorem updAll_same (w : World) (l : List Id) (f) :
    (w.updAll l f).pc = w.pc ∧ (w.updAll l f).events = w.events ∧ (w.updAll l f).metas = w.metas ∧
    (w.updAll l f).H = w.H ∧ (w.updAll l f).allocBytes = w.allocBytes ∧ (w.updAll l f).mode = w.mode ∧ (w.updAll l f).next = w.next := by
  unfold updAll
  induction l generalizing w with
  | nil => simp
  | cons x r ih => simp only [List.foldl_cons]; have := ih (w.upd x f); simpa [upd] using this

/-- `updAll` applies `f` to members (idempotent `f`) and leaves the others alone. -/
theorem updAll_heap_not_mem (w : World) (l : List Id) (f) (y : Id) (h : y ∉ l) : (w.updAll l f).heap y = w.heap y := by
  unfold updAll
  induction l generalizing w with
  | nil => rfl
  | cons x r ih =>
    simp only [List.foldl_cons]
    have hy : y ≠ x := fun e => h (e ▸ List.mem_cons_self ..)
    rw [ih _ (fun hm => h (List.mem_cons_of_mem _ hm))]
    simp [upd, Heap.set, hy]

theorem cloneOk_ctl (w : World) (x) : SameCtl w (w.cloneOk x) :=
  (upd_ctl w x _).trans (removeFromList_ctl _ x)

end World
end RustCc
