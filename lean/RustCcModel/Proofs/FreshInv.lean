import RustCcModel.Proofs.InvDefs
import RustCcModel.Proofs.FlagsStep
import RustCcModel.Proofs.CountsReach
/-! The invariant `Fresh`: identities at or above the allocation frontier have no box. -/
namespace RustCc
open World

@[simp] theorem fromT1_next (w : World) (h : T1.Heap) : (fromT1 w h).next = w.next := rfl
@[simp] theorem fromT1_boxLive (w : World) (h : T1.Heap) (x : Id) : ((fromT1 w h).heap x).boxLive = (w.heap x).boxLive := rfl
@[simp] theorem setSlot_boxLive (o : Obj) (s : Slot) (v) : (setSlot o s v).boxLive = o.boxLive := by
  cases s <;> rfl

theorem updAll_boxLive_same (w : World) (l : List Id) (g : Obj → Obj) (u : Id) (hg : ∀ o, (g o).boxLive = o.boxLive) :
    ((w.updAll l g).heap u).boxLive = (w.heap u).boxLive := by
  unfold updAll
  induction l generalizing w with
  | nil => rfl
  | cons x r ih => simp only [List.foldl_cons]; rw [ih, upd_boxLive_same _ _ _ _ hg]

theorem upd_boxLive_ite (w : World) (t : Id) (g : Obj → Obj) (u : Id) :
    ((w.upd t g).heap u).boxLive = (if u = t then (g (w.heap t)).boxLive else (w.heap u).boxLive) := by
  by_cases h : u = t
  · subst h; simp [upd]
  · simp [upd, Heap.set, h]

theorem takeField_boxLive (o : Obj) : (takeField o).2.boxLive = o.boxLive := by
  unfold takeField
  repeat' split
  all_goals rfl

theorem Fresh.foldl_free (c : Cfg) (N : List Id) : ∀ w : World, Fresh w →
    Fresh (N.foldl (fun w x => (if c.weak then w.dropMetadata x else w).freeBox x) w) := by
  induction N with
  | nil => intro w h; exact h
  | cons y r ih =>
    intro w h
    simp only [List.foldl_cons]
    apply ih
    intro x hx
    split at hx <;> split <;> simp [freeBox_boxLive] at hx ⊢ <;> intro _ <;> exact h x hx

theorem Fresh.alloc {w : World} (h : Fresh w) (o : Obj) (x : Id) (hx : w.next + 1 ≤ x) :
    ((w.heap.set w.next o) x).boxLive = false := by
  have hne : x ≠ w.next := fun e => by subst e; exact Nat.not_succ_le_self _ hx
  rw [Heap.set_other _ _ _ _ hne]; exact h x (Nat.le_trans (Nat.le_succ _) hx)

macro "fr_close" h:ident : tactic => `(tactic| (
  intro x hx
  try simp [upd_boxLive_same, updAll_boxLive_same, freeBox_boxLive] at hx ⊢
  first
    | exact $h x hx
    | (intros; exact $h x hx)
    | (intros; exact $h x (by omega))
    | (try simp [upd_boxLive_ite] at hx ⊢
       repeat' split
       all_goals first
         | exact $h x hx
         | exact $h x (by omega)
         | exact Fresh.alloc $h _ x hx
         | (exfalso; omega)
         | (subst_vars; simp_all [takeField_boxLive]; done)
         | (have := $h x (by omega); simp_all [takeField_boxLive]; done))))

set_option maxHeartbeats 4000000 in
theorem execOp_fresh (c : Cfg) (w : World) (self wc : Option Id) (op : Op) (h : Fresh w) :
    Fresh (execOp c w self wc op) := by
  cases op with
  | nop => exact h
  | panic => intro x hx; simp [execOp] at hx ⊢; exact h x hx
  | fault kind n j => cases kind <;> exact h
  | _ =>
    simp only [execOp]
    repeat' split
    all_goals first
      | exact h
      | fr_close h

theorem Fresh.congr {w w' : World} (h : Fresh w) (hh : w'.heap = w.heap) (hn : w'.next = w.next) : Fresh w' := by
  intro x hx; rw [hh]; rw [hn] at hx; exact h x hx

set_option maxHeartbeats 4000000 in
theorem stepFrame_fresh (c : Cfg) (w : World) (f : Frame) (h : Fresh w) : Fresh (stepFrame c w f) := by
  cases f with
  | script ops self wc top =>
    cases ops with
    | nil => simpa [stepFrame] using h
    | cons op ops =>
      simp only [stepFrame]
      have h1 : Fresh (w.push (.script ops self wc top)) := h
      have h2 := execOp_fresh c _ self wc op h1
      split
      · exact h2
      · exact h2.congr rfl rfl
  | deallocDrop N r oD =>
    cases r with
    | cons x r =>
      simp only [stepFrame]
      repeat' split
      all_goals first
        | exact h
        | fr_close h
    | nil =>
      simp only [stepFrame]
      split
      · exact h
      · exact (Fresh.foldl_free c N w h).congr rfl rfl
  | dropFields y unw =>
    have hb := takeField_boxLive (w.heap y)
    simp only [stepFrame]
    repeat' split
    all_goals first
      | exact h
      | (rename_i heq; rw [heq] at hb; simp only at hb; fr_close h)
  | _ =>
    simp only [stepFrame, destroyLast, startDealloc, putH]
    repeat' split
    all_goals first
      | exact h
      | fr_close h

set_option maxHeartbeats 4000000 in
theorem unwindFrame_fresh (c : Cfg) (w : World) (f : Frame) (h : Fresh w) : Fresh (unwindFrame c w f) := by
  simp only [unwindFrame]
  repeat' split
  all_goals first
    | exact h
    | fr_close h

/-- **One micro-step of the machine preserves `Fresh`.** -/
theorem step_fresh (c : Cfg) (w : World) (h : Fresh w) : Fresh (step c w) := by
  unfold step
  split
  · exact h
  · exact h
  · split
    · exact h
    · exact unwindFrame_fresh c _ _ h
  · split
    · exact h
    · exact stepFrame_fresh c _ _ h

theorem init_fresh (c : Cfg) (nH nW nK : Nat) : Fresh (World.init c nH nW nK) := by
  intro x _; rfl

/-- **`Fresh` holds in every reachable world.** -/
theorem reachable_fresh (c : Cfg) (nH nW nK : Nat) (w : World) (h : Reachable c nH nW nK w) : Fresh w := by
  induction h with
  | init => exact init_fresh c nH nW nK
  | step w _ ih => exact step_fresh c w ih
  | top w op _ _ _ ih => exact ih

end RustCc
