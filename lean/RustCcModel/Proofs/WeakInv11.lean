import RustCcModel.Proofs.WeakInv10
/-! `WeakH` through the end of `new_cyclic` and `Cleaner::register`; every frame step and every unwinding step. -/
namespace RustCc
open World

variable {ex : Bool}

variable (c : Cfg) (w : World)

/-- The tail of `new_cyclic`: optionally a clone of the closure's `Weak` is stored in a weak field of the new value, the
value is initialised, the closure's `Weak` is dropped, the new `Cc` goes into the table. -/
theorem cyc_tail {w : World} (b : Bool) (j k : Nat) (id : Id) (h : WeakH ex w [id]) (hid : id < w.next)
    (hcl : ex = true → b = true → (w.heap id).wslots[j]? = some none) :
    WeakH ex (World.putH (World.weakDrop (World.upd
      (if b = true then (World.upd (World.updMeta w id fun m => { m with weak := m.weak + 1 }) id fun o => { o with wslots := o.wslots.set j (some id) }) else w)
      id fun o => { o with valLive := true, rc := o.rc + 1 }) (.to id)) k id) [] := by
  have h1 : WeakH ex (if b = true then (World.upd (World.updMeta w id fun m => { m with weak := m.weak + 1 }) id fun o => { o with wslots := o.wslots.set j (some id) }) else w) [id] := by
    cases b with
    | false => exact h
    | true =>
      have hl := h.live_of_pos (x := id) (by simp)
      have h2 := h.incr id 1 hl hid
      cases hex : ex with
      | false =>
        subst hex
        have h3 := WeakH.updWslots_le (w := w.updMeta id fun m => { m with weak := m.weak + 1 }) (E := [id]) id
          (fun o => { o with wslots := o.wslots.set j (some id) }) [id] []
          (by simpa using h2) hid
          (fun z => by have := optIds_set_le (w.heap id).wslots j (some id) z; simpa using this) rfl rfl
        simpa using h3
      | true =>
        subst hex
        have hsl := hcl rfl rfl
        have hj : j < (w.heap id).wslots.length := by
          cases hlt : (w.heap id).wslots[j]? with
          | none => rw [hlt] at hsl; cases hsl
          | some v => exact (List.getElem?_eq_some_iff.1 hlt).1
        have h3 := WeakH.updWslots (w := w.updMeta id fun m => { m with weak := m.weak + 1 }) (E := [id]) id
          (fun o => { o with wslots := o.wslots.set j (some id) }) [id] []
          (by simpa using h2) hid
          (fun z => by
            have := optIds_set_count (w.heap id).wslots j (some id) z hj
            rw [hsl] at this
            simpa using this) rfl rfl
        simpa using h3
  have h2 : WeakH ex (World.upd (if b = true then (World.upd (World.updMeta w id fun m => { m with weak := m.weak + 1 }) id fun o => { o with wslots := o.wslots.set j (some id) }) else w)
      id fun o => { o with valLive := true, rc := o.rc + 1 }) [id] := h1.updAt id _ rfl rfl rfl
  exact (WeakH.weakDrop h2).putH k id

theorem stepFrame_weakH_newCyclicEnd (k : Nat) (id : Id) (sp : NewSpec) (selfw : Option Nat) (rest : List Frame)
    (ha : AllInv c w) (h : WeakH ex w []) (hs : w.stack = .newCyclicEnd k id sp selfw :: rest)
    (hcl : ex = true → ∀ j, selfw = some j → j < sp.nw → (w.heap id).wslots[j]? = some none) :
    WeakH ex (stepFrame c { w with stack := rest } (.newCyclicEnd k id sp selfw)) [] := by
  have hw0 : WeakH ex { w with stack := rest } [id] := h.pop hs
  obtain ⟨_, hids⟩ := ha.counts.pop hs
  have hid : id < w.next := hids id (by simp [Frame.ids])
  cases selfw with
  | none =>
    simp only [stepFrame]
    repeat' split
    all_goals first
      | exact (WeakH.pushFrame (.newCyclicEnd k id sp none) (E := []) hw0).raise
      | exact cyc_tail false 0 k id hw0 hid (fun _ e => nomatch e)
      | contradiction
      | (exfalso; simp_all; done)
  | some j =>
    simp only [stepFrame]
    repeat' split
    all_goals first
      | exact (WeakH.pushFrame (.newCyclicEnd k id sp (some j)) (E := []) hw0).raise
      | exact cyc_tail false 0 k id hw0 hid (fun _ e => nomatch e)
      | (refine cyc_tail true j k id hw0 hid (fun e _ => hcl e j rfl ?_); simp_all; done)

theorem unwindFrame_weakH_newCyclicEnd (k : Nat) (id : Id) (sp : NewSpec) (selfw : Option Nat) (rest : List Frame)
    (h : WeakH ex w []) (hs : w.stack = .newCyclicEnd k id sp selfw :: rest) :
    WeakH ex (unwindFrame c { w with stack := rest } (.newCyclicEnd k id sp selfw)) [] := by
  have hw0 : WeakH ex { w with stack := rest } [id] := h.pop hs
  simp only [unwindFrame]
  exact WeakH.weakDrop (hw0.dropFree id)

/-- `Cleaner::register` after the action is stored: `cc.downgrade()` and the `Cleanable` goes into the table. -/
theorem regInsert_tail_weak {w1 : World} (m : Id) (k aid idx : Nat) (om' : Obj) (h : WeakH ex w1 []) (hm : m < w1.next)
    (hb : (w1.heap m).boxLive = true)
    (hws : om'.wslots = (w1.heap m).wslots) (hhm : om'.hasMeta = (w1.heap m).hasMeta) (hbl : om'.boxLive = (w1.heap m).boxLive)
    (hcl : ex = true → k < w1.K.length ∧ w1.getK k = none) :
    WeakH ex (if (((w1.upd m fun _ => om').initMeta m).metas m).weak ≥ c.weakMax then ((w1.upd m fun _ => om').initMeta m).raise
      else (((((w1.upd m fun _ => om').initMeta m).updMeta m fun mm => { mm with weak := mm.weak + 1 }).removeFromList m).setK k
        (some (m, idx, aid)))) [] := by
  have h1 : WeakH ex (w1.upd m fun _ => om') [] := h.updAt m _ hws hhm hbl
  have hb1 : ((w1.upd m fun _ => om').heap m).boxLive = true := by simp [hbl, hb]
  have h2 := h1.initMeta m
  split
  · exact h2.raise
  · have h3 := (h2.incr m 1 (h1.initMeta_live m hb1) (by simpa using hm)).removeFromList m
    refine WeakH.setKx k (some (m, idx, aid)) (by simpa [kEntry] using h3) ?_
    intro e
    have := hcl e
    simpa [World.getK] using this

theorem stepFrame_weakH_regInsert (owner : Id) (script k : Nat) (cap : Option Id) (rest : List Frame)
    (ha : AllInv c w) (h : WeakH ex w []) (hs : w.stack = .regInsert owner script k cap :: rest)
    (hcl : ex = true → k < w.K.length ∧ w.getK k = none) :
    WeakH ex (stepFrame c { w with stack := rest } (.regInsert owner script k cap)) [] := by
  have hw0 : WeakH ex { w with stack := rest } [] := h.pop hs
  obtain ⟨_, hids⟩ := ha.counts.pop hs
  have hown : owner < w.next := hids owner (by simp [Frame.ids])
  simp only [stepFrame]
  split
  · wneutral hw0
  · rename_i m hm
    have hmlt : m < w.next := field_lt ha.counts hown (by simp [fieldsOf, hm])
    have hmb : (w.heap m).boxLive = true := ha.inv.oi.boxLive_of_rc (field_rc ha.counts hown (by simp [fieldsOf, hm]))
    split
    · have : WeakH ex (World.push { w with stack := rest } (.actionEnd cap false)) [] := by wneutral hw0
      exact this.raise
    · have hw1 : WeakH ex { ({ w with stack := rest } : World) with nextAid := w.nextAid + 1 } [] := by wneutral hw0
      cases hfree : (w.heap m).afree with
      | nil =>
        simp only []
        exact regInsert_tail_weak c m k w.nextAid (w.heap m).aslots.length _ hw1 hmlt hmb rfl rfl rfl hcl
      | cons i fr =>
        simp only []
        exact regInsert_tail_weak c m k w.nextAid i _ hw1 hmlt hmb rfl rfl rfl hcl

/-- What makes a frame step lose no `Weak`: `Cleaner::register` stores its `Cleanable` in a free table entry (the harness
forgets — leaks — whatever an occupied entry held), and the closure's `Weak` stored by `new_cyclic` goes into an empty weak
field. -/
def Frame.wclean (w : World) : Frame → Prop
  | .regInsert _ _ k _ => k < w.K.length ∧ w.getK k = none
  | .newCyclicEnd _ id sp (some j) => j < sp.nw → (w.heap id).wslots[j]? = some none
  | _ => True

/-- **Every frame step preserves the weak invariant** (and exactness, when the step loses no `Weak`). -/
theorem stepFrame_weakH (f : Frame) (rest : List Frame) (ha : AllInv c w) (h : WeakH ex w []) (hwc : wcOk w.stack)
    (hs : w.stack = f :: rest) (hcl : ex = true → f.wclean w) :
    WeakH ex (stepFrame c { w with stack := rest } f) [] := by
  cases f with
  | script ops self wc top => exact stepFrame_weakH_script c w ops self wc top rest ha h hwc hs
  | afterDropValue x oldDrop => exact stepFrame_weakH_afterDropValue c w x oldDrop rest h hwc hs
  | dropFields x unw => exact stepFrame_weakH_dropFields c w x unw rest ha h hwc hs
  | deallocDrop N r oldDrop => exact stepFrame_weakH_deallocDrop c w N r oldDrop rest h hwc hs
  | newAlloc k sp => exact stepFrame_weakH_newAlloc c w k sp rest ha h hwc hs
  | newCyclicAlloc k sp body selfw => exact stepFrame_weakH_newCyclicAlloc c w k sp body selfw rest h hwc hs
  | newCyclicEnd k id sp selfw =>
    refine stepFrame_weakH_newCyclicEnd c w k id sp selfw rest ha h hs ?_
    intro e j hj; subst hj; exact hcl e
  | mapAlloc owner => exact stepFrame_weakH_mapAlloc c w owner rest ha h hwc hs
  | regInsert owner script k cap => exact stepFrame_weakH_regInsert c w owner script k cap rest ha h hs hcl
  | _ => exact stepFrame_weakH_neutral c _ _ (h.pop hs) trivial

/-- **Every unwinding step preserves the weak invariant** (exactly: unwinding drops every `Weak` it holds). -/
theorem unwindFrame_weakH (f : Frame) (rest : List Frame) (h : WeakH ex w []) (hs : w.stack = f :: rest) :
    WeakH ex (unwindFrame c { w with stack := rest } f) [] := by
  cases f with
  | newCyclicEnd k id sp selfw => exact unwindFrame_weakH_newCyclicEnd c w k id sp selfw rest h hs
  | _ => exact unwindFrame_weakH_neutral c _ _ (h.pop hs) trivial

end RustCc
