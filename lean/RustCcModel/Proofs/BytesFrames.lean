import RustCcModel.Proofs.BytesOps
/-! The effect of one frame step / one unwinding step. -/
namespace RustCc
open World
open T1 (Mark)

/-- What a step may free, in terms of the frame it executes (`w` = the world with the frame popped). -/
def GoodF (w : World) (f : Frame) (F : List Id) : Prop :=
  F = [] ∨ (∃ x, F = [x] ∧ (w.heap x).rc = 1) ∨ F = f.zeroed ∨ F = f.listed

/-- The world right after the allocation of a box for `o` at the fresh identity. -/
def allocW (w : World) (o : Obj) : World :=
  { w with next := w.next + 1, heap := w.heap.set w.next o, allocBytes := w.allocBytes + o.size }

/-- Frames that allocate. -/
def Frame.allocs : Frame → Bool
  | .newAlloc .. | .newCyclicAlloc .. | .mapAlloc .. => true
  | _ => false

macro "eff0'" : tactic => `(tactic| (
  refine ⟨[], Eff.mk0 ?_ ?_ ?_ ?_ ?_ ?_, Or.inl rfl⟩ <;>
    (simp [upd_boxLive_same, upd_size_same, updAll_boxLive_same, updAll_size_same]; done)))

set_option maxHeartbeats 4000000 in
theorem stepFrame_eff (c : Cfg) (w : World) (f : Frame) (hf : f.allocs = false) :
    ∃ F, Eff w (stepFrame c w f) F ∧ GoodF w f F := by
  cases f with
  | newAlloc k sp => cases hf
  | newCyclicAlloc k sp body selfw => cases hf
  | mapAlloc owner => cases hf
  | script ops self wc top =>
    cases ops with
    | nil => simp only [stepFrame]; exact ⟨[], Eff.refl w, Or.inl rfl⟩
    | cons op ops =>
      simp only [stepFrame]
      obtain ⟨F, he, hg⟩ := execOp_eff c (w.push (.script ops self wc top)) self wc op
      refine ⟨F, ?_, ?_⟩
      · split
        · exact he.congr_left rfl rfl rfl rfl
        · have he' := he.congr_left (a' := w) rfl rfl rfl rfl
          exact ⟨he'.next, he'.bytes, he'.size, he'.live, he'.ev, he'.fr⟩
      · rcases hg with h | ⟨x, h1, h2⟩
        · exact Or.inl h
        · exact Or.inr (Or.inl ⟨x, h1, h2⟩)
  | deallocDrop N r oD =>
    cases r with
    | cons x r =>
      simp only [stepFrame]
      repeat' split
      all_goals eff0'
    | nil =>
      simp only [stepFrame]
      split
      · eff0'
      · exact ⟨N, (Eff.foldl_free c N w).congr_right rfl rfl rfl rfl, Or.inr (Or.inr (Or.inr rfl))⟩
  | afterDropValue x oD =>
    simp only [stepFrame]
    split
    · eff0'
    · exact ⟨[x], (Eff.freeOne c w x).congr_right rfl rfl rfl rfl, Or.inr (Or.inr (Or.inl rfl))⟩
  | dropFields y unw =>
    have hb := takeField_boxLive (w.heap y)
    have hs := takeField_size (w.heap y)
    simp only [stepFrame]
    repeat' split
    all_goals first
      | eff0'
      | (rename_i heq; rw [heq] at hb hs; simp only at hb hs
         refine ⟨[], Eff.mk0 ?_ ?_ ?_ ?_ ?_ ?_, Or.inl rfl⟩ <;>
           (try simp [upd_boxLive_ite, upd_size_ite]) <;> (try intro x) <;> (try split) <;> simp_all)
  | regInsert owner script k cap =>
    simp only [stepFrame]
    repeat' split
    all_goals first
      | eff0'
      | (refine ⟨[], Eff.mk0 ?_ ?_ ?_ ?_ ?_ ?_, Or.inl rfl⟩ <;>
           (try simp [upd_boxLive_ite, upd_size_ite]) <;> (try intro x) <;> (try split) <;> simp_all)
  | _ =>
    simp only [stepFrame, destroyLast, startDealloc, putH]
    repeat' split
    all_goals eff0'

set_option maxHeartbeats 4000000 in
theorem stepFrame_alloc (c : Cfg) (w : World) (f : Frame) (hf : f.allocs = true) :
    ∃ o : Obj, o.boxLive = true ∧ Eff (allocW w o) (stepFrame c w f) [] := by
  cases f with
  | newAlloc k sp =>
    refine ⟨newObj c w sp, rfl, Eff.mk0 ?_ ?_ ?_ ?_ ?_ ?_⟩ <;> simp [stepFrame, allocW]
  | newCyclicAlloc k sp body selfw =>
    refine ⟨{ newObj c w sp with rc := 0, valLive := false, hasMeta := true }, rfl, ?_⟩
    simp only [stepFrame]
    split <;> (refine Eff.mk0 ?_ ?_ ?_ ?_ ?_ ?_ <;> simp [allocW])
  | mapAlloc owner =>
    refine ⟨{ rc := 1, tc := c.tcInit, boxLive := true, valLive := true, kind := .map, size := c.mapSize,
              finalized := c.fin && w.finalizing }, rfl, ?_⟩
    simp only [stepFrame]
    split <;> (refine Eff.mk0 ?_ ?_ ?_ ?_ ?_ ?_ <;> simp [allocW, upd_boxLive_same, upd_size_same])
  | _ => cases hf

set_option maxHeartbeats 4000000 in
theorem unwindFrame_eff (c : Cfg) (w : World) (f : Frame) :
    ∃ F, Eff w (unwindFrame c w f) F ∧ GoodF w f F := by
  simp only [unwindFrame]
  repeat' split
  all_goals first
    | eff0'
    | exact ⟨[_], ((Eff.dropMetadata w _).trans (Eff.freeBox _ _)).trans (Eff.weakDrop _ _), Or.inr (Or.inr (Or.inl rfl))⟩

end RustCc
