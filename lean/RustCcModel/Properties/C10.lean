import RustCcModel.Proofs.CtlSimp
import RustCcModel.Proofs.ActOnce
import RustCcModel.Proofs.ActKeep
/-! # C10 — cleaning actions run at most once, exactly once by the time the `Cleaner` is gone

An action lives in exactly one slot of its map; both ways of running it (`Cleanable::clean`, the drop
glue of the map) empty the slot *before* the action's script is entered, so no action can run twice;
dropping a `Cleanable` only drops a `Weak`. -/
namespace RustCc.C10
open World

/-- The drop glue of the map empties slot `i` before running its action, and moves on to slot `i + 1`
(also when that action panics: the frame below is cleanup-capable). -/
theorem dropActions_empties_slot_first (c : Cfg) (w : World) (m : Id) (i : Nat) (a : Action) (unw : Bool)
    (hi : i < (w.heap m).aslots.length) (ha : (w.heap m).aslots.getD i none = some a) :
    ((stepFrame c w (.dropActions m i unw)).heap m).aslots.getD i none = none := by
  simp only [stepFrame, hi, if_true, ha]
  split <;> simp [raiseLogged, raise, emit, push, upd, hi] <;> (try split) <;> simp [hi]

/-- Dropping a `Cleanable` neither runs nor cancels its action: it only drops a `Weak` to the map. -/
theorem cdrop_only_drops_weak (c : Cfg) (w : World) (self wc : Option Id) (k : Nat) (m : Id) (i aid : Nat)
    (hc : c.clean = true) (hk : w.getK k = some (m, i, aid)) :
    execOp c w self wc (.cdrop k) = { ((w.setK k none).weakDrop (.to m)) with ret := .ok } := by
  simp [execOp, hc, hk]

/-- `clean()` once the map's value is gone (dropped flag / no strong pointer / no allocation) is a no-op. -/
theorem clean_after_drop_noop (c : Cfg) (w : World) (self wc : Option Id) (k : Nat) (m : Id) (i aid : Nat)
    (hc : c.clean = true) (hk : w.getK k = some (m, i, aid)) (hd : w.weakStrong (.to m) = 0) :
    execOp c w self wc (.clean k) = { w with ret := .ok } := by
  simp only [execOp, hc, hk]
  have hd' : ({ w with ret := Ret.ok } : World).weakStrong (.to m) = 0 := hd
  simp [hd']

/-! ## Every history of the running machine (`Proofs/ActOnce.lean`)

`aEv log`: the identifiers of the cleaning actions run by the log. Identifiers are handed out by `register` from a counter
(`nextAid`), stored actions have distinct identifiers (`AOk`), an action is taken out of its slot before it runs. -/

/-- **Each registered cleaning action runs at most once** in the whole history — whether through `Cleanable::clean`, the drop
of the `Cleaner` by reference counting, or the reclamation of a cycle owning it. -/
theorem action_at_most_once (c : Cfg) (nH nW nK : Nat) (w : World) (log : List Event) (h : HistR c nH nW nK w log) (aid : Nat) :
    (aEv log).count aid ≤ 1 :=
  (histR_actOk c nH nW nK w log h aid).2.once

/-- An action that ran is gone for good: no slot map holds it any more (a later `clean()` finds nothing to run, the
`Cleaner`'s drop does not run it again) and its identifier is never handed out again. -/
theorem action_ran_is_gone (c : Cfg) (nH nW nK : Nat) (w : World) (log : List Event) (h : HistR c nH nW nK w log) (aid : Nat)
    (hr : aid ∈ aEv log) : aid < w.nextAid ∧ ∀ m i a, slotAt w m i = some a → a.aid ≠ aid :=
  (histR_actOk c nH nW nK w log h aid).2.gone hr

/-- Stored actions always have distinct identifiers, all already handed out. -/
theorem stored_actions_distinct (c : Cfg) (nH nW nK : Nat) (w : World) (log : List Event) (h : HistR c nH nW nK w log) : AOk w :=
  (histR_actOk c nH nW nK w log h 0).1

/-! ## No action is lost (`Proofs/ActKeep.lean`) — every history, caught panics included -/

/-- **No registered cleaning action is ever lost.** In every history of the machine — running and unwinding steps, any
program, scripts and fault plan — an action whose identifier `register` has handed out has been run, or is still stored in a
slot of its `Cleaner`'s map, where `clean()` and the map's drop glue find it: an action leaves its slot only in the very step
that runs it, `register` never overwrites an occupied slot (the free list of the slot map only names empty slots), an
allocation never lands on a stored action. With `action_at_most_once`: *ran exactly once, or still stored*. -/
theorem action_never_lost (c : Cfg) (nH nW nK : Nat) (w : World) (log : List Event) (h : HistA c nH nW nK w log) (aid : Nat)
    (hlt : aid < w.nextAid) : aid ∈ aEv log ∨ ∃ m i a, slotAt w m i = some a ∧ a.aid = aid :=
  (histA_conserved c nH nW nK w log h).2.2 aid hlt

/-- One step of the map's drop glue on an occupied slot runs exactly that slot's action (the event is in the log of the step)
and moves on to the next slot — also while unwinding. -/
theorem dropActions_runs_slot (c : Cfg) (w : World) (m : Id) (i : Nat) (a : Action) (unw : Bool)
    (hi : i < (w.heap m).aslots.length) (ha : (w.heap m).aslots.getD i none = some a) :
    aEv (stepFrame c w (.dropActions m i unw)).events = aEv w.events ++ [a.aid] ∧
      .dropActions m (i + 1) unw ∈ (stepFrame c w (.dropActions m i unw)).stack := by
  simp only [stepFrame, hi, if_true, ha]
  split <;> simp [raiseLogged, raise, emit, push, upd] <;> (try split) <;> simp

end RustCc.C10
