import RustCcModel.Proofs.Life
/-! `Life` holds in every world of a panic-free history; which steps emit `drop` / `finalize` events. -/
namespace RustCc
open World
open T1 (Mark)

theorem step_life (c : Cfg) (w : World) (hall : AllInv c w) (hi' : Inv (step c w)) (hl : Life w) (hm : w.mode = .running) :
    Life (step c w) := by
  cases hs : w.stack with
  | nil =>
    have e : step c w = w := by unfold step; rw [hm]; simp only []; rw [hs]
    rw [e]; exact hl
  | cons f rest =>
    have e : step c w = stepFrame c { w with stack := rest } f := by unfold step; rw [hm]; simp only []; rw [hs]
    rw [e] at hi' ⊢
    exact stepFrame_life c w f rest hall hi' hl hs

theorem init_life (c : Cfg) (nH nW nK : Nat) : Life (World.init c nH nW nK) := by
  refine ⟨?_, ?_, ?_, ?_, ?_, ?_⟩
  · intro x hx; simp [World.init, Obj.lv] at hx
  · trivial
  · intro f hf; simp [World.init] at hf
  · intro N r d hm; simp [World.init] at hm
  · intro N r h o hm; simp [World.init] at hm
  · intro f x hx; simp [World.init] at hx

theorem reachableR_life (c : Cfg) (nH nW nK : Nat) (w : World) (h : ReachableR c nH nW nK w) : Life w := by
  induction h with
  | init => exact init_life c nH nW nK
  | step w hr hm ih =>
    have hall := reachable_all c nH nW nK w hr.reachable
    have hi' := reachable_inv c nH nW nK (step c w) (.step w hr.reachable)
    exact step_life c w hall hi' ih hm
  | top w op hr hs hm ih =>
    refine ⟨?_, ?_, ?_, ?_, ?_, ?_⟩
    · intro x hx
      have := ih.np x hx
      rw [hs] at this; cases this
    · trivial
    · intro f hf
      simp only [List.tail_cons, List.mem_singleton] at hf
      subst hf; rfl
    · intro N r d hmem
      simp at hmem
    · intro N r h o hmem
      simp at hmem
    · intro f x hx hpo
      simp only [List.head?_cons, Option.some.injEq] at hx
      subst hx; cases hpo

/-! ### `drop` / `finalize` events of a step -/

/-- The value-life-cycle events of a log: `(true, x)` for `drop x`, `(false, x)` for `finalize x`. -/
def vEv : List Event → List (Bool × Id)
  | [] => []
  | e :: r => match e with
    | .drop x _ => (true, x) :: vEv r
    | .finalize x _ => (false, x) :: vEv r
    | _ => vEv r

@[simp] theorem vEv_nil : vEv [] = [] := rfl
@[simp] theorem vEv_cons_drop (x t) (r : List Event) : vEv (.drop x t :: r) = (true, x) :: vEv r := rfl
@[simp] theorem vEv_cons_finalize (x t) (r : List Event) : vEv (.finalize x t :: r) = (false, x) :: vEv r := rfl
@[simp] theorem vEv_cons_free (x) (r : List Event) : vEv (.free x :: r) = vEv r := rfl
@[simp] theorem vEv_cons_alloc (x s) (r : List Event) : vEv (.alloc x s :: r) = vEv r := rfl
@[simp] theorem vEv_cons_metaFree (x) (r : List Event) : vEv (.metaFree x :: r) = vEv r := rfl
@[simp] theorem vEv_cons_moved (x) (r : List Event) : vEv (.moved x :: r) = vEv r := rfl
@[simp] theorem vEv_cons_trace (x t) (r : List Event) : vEv (.trace x t :: r) = vEv r := rfl
@[simp] theorem vEv_cons_collect (r : List Event) : vEv (.collect :: r) = vEv r := rfl
@[simp] theorem vEv_cons_action (x t) (r : List Event) : vEv (.action x t :: r) = vEv r := rfl
@[simp] theorem vEv_cons_panic (r : List Event) : vEv (.panic :: r) = vEv r := rfl
@[simp] theorem vEv_append (a b : List Event) : vEv (a ++ b) = vEv a ++ vEv b := by
  induction a with
  | nil => rfl
  | cons e r ih => cases e <;> simp [ih]
@[simp] theorem vEv_map_trace (l : List Id) (t : Bool) : vEv (l.map fun x => Event.trace x t) = [] := by
  induction l with
  | nil => rfl
  | cons a r ih => simp [ih]
@[simp] theorem vEv_dmEv (w : World) (x : Id) : vEv (dmEv w x) = [] := by
  unfold dmEv; split <;> (try rfl) <;> split <;> rfl
@[simp] theorem vEv_wdEv (w : World) (r : WRef) : vEv (wdEv w r) = [] := by
  unfold wdEv; cases r with
  | dangling => rfl
  | to x => simp only; split <;> rfl

theorem mem_vEv_drop {x : Id} {l : List Event} : (true, x) ∈ vEv l ↔ ∃ t, Event.drop x t ∈ l := by
  induction l with
  | nil => simp
  | cons e r ih => cases e <;> simp [ih] <;> grind
theorem mem_vEv_fin {x : Id} {l : List Event} : (false, x) ∈ vEv l ↔ ∃ t, Event.finalize x t ∈ l := by
  induction l with
  | nil => simp
  | cons e r ih => cases e <;> simp [ih] <;> grind

theorem foldl_free_vEv (c : Cfg) (N : List Id) : ∀ w : World,
    vEv (N.foldl (fun w x => (if c.weak then w.dropMetadata x else w).freeBox x) w).events = vEv w.events := by
  induction N with
  | nil => intro w; rfl
  | cons y r ih =>
    intro w
    simp only [List.foldl_cons]
    rw [ih]
    split <;> simp [freeBox_events]

/-- What the frame on top of the stack emits when it runs. -/
def Frame.vev (w : World) : Frame → List (Bool × Id)
  | .dropValue x => if (w.heap x).kind = .node then [(true, x)] else []
  | .callFin x => if (w.heap x).kind = .node then [(false, x)] else []
  | _ => []

macro "vev_tac" : tactic => `(tactic| (
  simp [freeBox_events, putH_events, foldl_free_vEv, World.setH, World.setW, World.setK, World.push, World.emit, World.upd, World.updMeta,
    Frame.vev]))

set_option maxHeartbeats 8000000 in
theorem execOp_vEv (c : Cfg) (w : World) (self wc : Option Id) (op : Op) :
    vEv (execOp c w self wc op).events = vEv w.events := by
  cases op with
  | fault kind n j => cases kind <;> rfl
  | _ =>
    simp only [execOp]
    repeat' split
    all_goals vev_tac

set_option maxHeartbeats 16000000 in
theorem stepFrame_vEv (c : Cfg) (w : World) (f : Frame) :
    vEv (stepFrame c w f).events = vEv w.events ++ f.vev w := by
  cases f with
  | script ops self wc top =>
    cases ops with
    | nil => simp [stepFrame, Frame.vev]
    | cons op ops =>
      simp only [stepFrame]
      have := execOp_vEv c (w.push (.script ops self wc top)) self wc op
      split <;> simpa [Frame.vev] using this
  | collectPass =>
    simp only [stepFrame, startDealloc]
    generalize tracePhasesF _ _ _ _ _ = r
    obtain ⟨res, fault⟩ := r
    cases res <;> simp only [] <;> repeat' split
    all_goals vev_tac
  | regInsert owner script k cap =>
    simp only [stepFrame]
    split
    · vev_tac
    · split
      · vev_tac
      · cases hfr : (w.heap _).afree <;> simp only [] <;> split <;> vev_tac
  | deallocDrop N r oD =>
    cases r with
    | cons x r => simp only [stepFrame]; repeat' split
                  all_goals vev_tac
    | nil =>
      simp only [stepFrame]
      split
      · vev_tac
      · simp [foldl_free_vEv, Frame.vev]
  | _ =>
    simp only [stepFrame, destroyLast, startDealloc]
    repeat' split
    all_goals first
      | (vev_tac; done)
      | (simp_all [freeBox_events, putH_events, World.setH, World.setW, World.setK, World.push, World.emit, World.upd, World.updMeta,
          Frame.vev]; done)

/-- **Which step emits which `drop` / `finalize` event**: only the frame `dropValue x` (`drop_in_place` of a node value)
emits `drop x`, only `callFin x` emits `finalize x`. -/
theorem step_vEv_running (c : Cfg) (w : World) (hm : w.mode = .running) (f : Frame) (rest : List Frame) (hs : w.stack = f :: rest) :
    vEv (newEvents w (step c w)) = f.vev w := by
  have h1 : (step c w) = stepFrame c { w with stack := rest } f := by
    unfold step; rw [hm]; simp only []; rw [hs]
  have h2 := stepFrame_vEv c { w with stack := rest } f
  have h3 := step_events_eq c w
  rw [h1] at h3 ⊢
  rw [h3] at h2
  simp only [vEv_append] at h2
  have h4 : vEv (newEvents w (stepFrame c { w with stack := rest } f)) = f.vev { w with stack := rest } :=
    List.append_cancel_left h2
  rw [h4]
  cases f <;> rfl

end RustCc
