import RustCcModel.Proofs.WeakInv5
/-! `WeakH` through the operations that move no `Weak` and touch no side record. -/
namespace RustCc
open World

variable {ex : Bool}

set_option maxHeartbeats 8000000 in
theorem execOp_weakH_neutral (c : Cfg) (w : World) (self wc : Option Id) (op : Op) (h : WeakH ex w [])
    (hop : match op with
      | .unwrap _ | .down _ _ | .wclone _ _ | .wdrop _ | .wnew _ | .setw _ _ _ | .clrw _ _ | .cdrop _ | .downN _ _ | .wdropN _ _ => False
      | _ => True) :
    WeakH ex (execOp c w self wc op) [] := by
  cases op with
  | unwrap _ | down _ _ | wclone _ _ | wdrop _ | wnew _ | setw _ _ _ | clrw _ _ | cdrop _ | downN _ _ | wdropN _ _ => cases hop
  | nop => exact h.ret _
  | panic => exact h.raiseLogged
  | fault kind n j => cases kind <;> (simp only [execOp]; wneutral h)
  | _ =>
    simp only [execOp]
    repeat' split
    all_goals (wneutral h)

end RustCc
