#!/usr/bin/env python3
"""Regenerates lean/RustCcModel/Generated/Consts.lean from the Rust sources of /repo on every run,
so that the theorems mentioning these constants are re-checked against what the code says now.

Handles the small constant-expression language used by the crate's `const` items
(integer literals with type suffixes, `<<`, `>>`, `|`, `&`, `!`, `-`, `+`, `u16::BITS`, other consts)."""
import os
import re
import sys


def strip_comments(src):
    src = re.sub(r"/\*.*?\*/", "", src, flags=re.S)
    return re.sub(r"//[^\n]*", "", src)


def consts_of(path):
    src = strip_comments(open(path).read())
    out = {}
    for m in re.finditer(r"(?:pub(?:\([a-z]+\))?\s+)?const\s+([A-Z_][A-Z0-9_]*)\s*:\s*([a-z0-9]+)\s*=\s*([^;]+);", src):
        out[m.group(1)] = (m.group(2), m.group(3).strip())
    return out, src


def ev(expr, env, bits):
    """Evaluate a Rust constant expression of an unsigned type with `bits` bits."""
    mask = (1 << bits) - 1
    e = expr
    e = re.sub(r"\bu(8|16|32|64|size)::BITS\b", lambda m: {"8": "8", "16": "16", "32": "32", "64": "64", "size": "64"}[m.group(1)], e)
    e = re.sub(r"\b0b([01_]+)(?:u\d+|usize)?\b", lambda m: str(int(m.group(1).replace("_", ""), 2)), e)
    e = re.sub(r"\b0x([0-9a-fA-F_]+)(?:u\d+|usize)?\b", lambda m: str(int(m.group(1).replace("_", ""), 16)), e)
    e = re.sub(r"\b(\d[\d_]*)(?:u\d+|usize)\b", lambda m: m.group(1).replace("_", ""), e)
    e = re.sub(r"!\s*([A-Za-z_][A-Za-z0-9_]*|\d+|\([^()]*\))", lambda m: "(~(%s) & %d)" % (m.group(1), mask), e)

    def name(m):
        n = m.group(0)
        if n in env:
            return str(env[n])
        raise KeyError(n)
    e = re.sub(r"\b[A-Z_][A-Z0-9_]*\b", name, e)
    if not re.fullmatch(r"[\d\s()<>|&~+\-*]+", e):
        raise ValueError("unsupported constant expression: %r" % expr)
    return eval(e, {"__builtins__": {}}) & mask


def resolve(table, bits_of={"u16": 16, "usize": 64, "u32": 32, "u8": 8, "u64": 64}):
    env = {}
    pending = dict(table)
    for _ in range(len(pending) + 2):
        for k, (ty, expr) in list(pending.items()):
            if ty not in bits_of:
                del pending[k]
                continue
            try:
                env[k] = ev(expr, env, bits_of[ty])
                del pending[k]
            except KeyError:
                pass
    if pending:
        raise ValueError("cannot resolve constants: %s" % sorted(pending))
    return env


def extract(repo):
    cm, _ = consts_of(os.path.join(repo, "src/counter_marker.rs"))
    cm = resolve(cm)
    wcm, _ = consts_of(os.path.join(repo, "src/weak/weak_counter_marker.rs"))
    wcm = resolve(wcm)
    cfg, cfg_src = consts_of(os.path.join(repo, "src/config.rs"))
    cfg = resolve(cfg)
    lib_src = strip_comments(open(os.path.join(repo, "src/lib.rs")).read())
    m = re.search(r"fn collect\(.*?for\s+_\s+in\s+0\s*\.\.\s*(\d+)", lib_src, flags=re.S)
    if not m:
        raise ValueError("pass cap of collect() not found")
    pass_cap = int(m.group(1))
    m = re.search(r"adjustment_percent:\s*([0-9.eE+-]+)\s*,", cfg_src)
    if not m:
        raise ValueError("default adjustment_percent not found")
    import struct
    pct_bits = struct.unpack(">Q", struct.pack(">d", float(m.group(1))))[0]
    m = re.search(r"auto_collect:\s*(true|false)\s*,", cfg_src)
    auto_default = (m.group(1) == "true") if m else True
    m = re.search(r"buffered_threshold:\s*(None|Some)", cfg_src)
    need = ["COUNTER_MASK", "MAX", "FIRST_BIT_MASK", "FINALIZED_MASK", "BITS_MASK", "IN_POSSIBLE_CYCLES", "IN_LIST",
            "IN_QUEUE", "NON_MARKED", "INITIAL_VALUE", "INITIAL_VALUE_TRACING_COUNTER", "INITIAL_VALUE_FINALIZED"]
    for n in need:
        if n not in cm:
            raise ValueError("constant %s not found in counter_marker.rs" % n)
    for n in ["ACCESSIBLE_MASK", "COUNTER_MASK", "MAX", "INITIAL_VALUE", "INITIAL_VALUE_ACCESSIBLE"]:
        if n not in wcm:
            raise ValueError("constant %s not found in weak_counter_marker.rs" % n)
    if "DEFAULT_BYTES_THRESHOLD" not in cfg:
        raise ValueError("DEFAULT_BYTES_THRESHOLD not found")
    vals = {
        "counterMask": cm["COUNTER_MASK"], "rcMax": cm["MAX"], "firstBitMask": cm["FIRST_BIT_MASK"],
        "finalizedMask": cm["FINALIZED_MASK"], "bitsMask": cm["BITS_MASK"], "markNon": cm["NON_MARKED"],
        "markPc": cm["IN_POSSIBLE_CYCLES"], "markInList": cm["IN_LIST"], "markInQueue": cm["IN_QUEUE"],
        "initCounter": cm["INITIAL_VALUE"], "initTracing": cm["INITIAL_VALUE_TRACING_COUNTER"],
        "initCounterFinalized": cm["INITIAL_VALUE_FINALIZED"],
        "weakAccessibleMask": wcm["ACCESSIBLE_MASK"], "weakCounterMask": wcm["COUNTER_MASK"], "weakMax": wcm["MAX"],
        "weakInit": wcm["INITIAL_VALUE"], "weakInitAccessible": wcm["INITIAL_VALUE_ACCESSIBLE"],
        "defaultThr": cfg["DEFAULT_BYTES_THRESHOLD"], "passCap": pass_cap, "defaultPctBits": pct_bits,
        "defaultAuto": 1 if auto_default else 0,
    }
    return vals


def render(vals):
    lines = ["/-! GENERATED by tools/extract_consts.py from /repo/src on every run. Do not edit. -/", "namespace Consts"]
    for k in sorted(vals):
        lines.append("def %s : Nat := %d" % (k, vals[k]))
    lines.append("end Consts")
    return "\n".join(lines) + "\n"


def consts_line(vals):
    tc_init = vals["initTracing"] & vals["counterMask"]
    return "passcap=%d thr=%d rcmax=%d weakmax=%d tcinit=%d" % (vals["passCap"], vals["defaultThr"], vals["rcMax"], vals["weakMax"], tc_init)


def main():
    repo = sys.argv[1] if len(sys.argv) > 1 else "/repo"
    out = sys.argv[2] if len(sys.argv) > 2 else os.path.join(os.path.dirname(os.path.dirname(os.path.abspath(__file__))), "lean/RustCcModel/Generated/Consts.lean")
    vals = extract(repo)
    text = render(vals)
    os.makedirs(os.path.dirname(out), exist_ok=True)
    old = open(out).read() if os.path.exists(out) else None
    if old != text:
        open(out, "w").write(text)
    print(consts_line(vals))


if __name__ == "__main__":
    main()
